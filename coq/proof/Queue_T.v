(* Not forgotten: in every reachable state every stored message is in the
   timetable or has a greenlet working on it (enqueue in progress, delivery
   attempt / retry bookkeeping in progress, dispatched read, pending removal). *)
From Coq Require Import List NArith Bool Lia.
From SV Require Import model.Queue proof.Queue_base.
Import ListNotations.
Open Scope N_scope.

Definition stored (s : state) (i : id) : Prop := st_get (s_store s) i <> None.
Definition is_dq (t : task) : bool := match t with TDequeue _ _ => true | _ => false end.
(* tasks that were started from a message found in (or just written to) storage *)
Definition is_src (t : task) : bool := negb (is_dq t) && negb (is_remove t).

Record Tinv (s : state) : Prop := mkTinv {
  t_store_lt : forall i, stored s i -> i < s_next s;
  t_removed_lt : forall i, In i (g_removed s) -> i < s_next s;
  t_tasks_lt : forall t, In t (s_tasks s) -> is_dq t = false -> task_id t < s_next s;
  t_removed_gone : forall i, In i (g_removed s) -> st_get (s_store s) i = None;
  t_src : forall t, In t (s_tasks s) -> is_src t = true -> stored s (task_id t) \/ In (task_id t) (g_removed s);
  t_active : forall i, mem i (s_active s) = true -> In i (work_ids (s_tasks s)) \/ In i (g_removed s);
  t_qids : forall i, mem i (s_qids s) = true -> In i (qids_of (s_queued s));
  t_tracked : forall i, stored s i -> In i (qids_of (s_queued s)) \/ In i (all_ids (s_tasks s))
}.

(* ---- list facts ---- *)
Lemma all_ids_split : forall l1 t l2, all_ids (l1 ++ t :: l2) = all_ids l1 ++ task_id t :: all_ids l2.
Proof. intros. unfold all_ids. rewrite map_app. reflexivity. Qed.

Lemma work_ids_split : forall l1 t l2,
  work_ids (l1 ++ t :: l2) = work_ids l1 ++ (if is_work t then [task_id t] else []) ++ work_ids l2.
Proof. intros. unfold work_ids. rewrite ids_of_app, ids_of_cons. reflexivity. Qed.

Lemma work_ids_snoc : forall ts t, work_ids (ts ++ [t]) = work_ids ts ++ (if is_work t then [task_id t] else []).
Proof. intros. unfold work_ids. rewrite ids_of_app, ids_of_cons. cbn. rewrite app_nil_r. reflexivity. Qed.

Lemma all_ids_snoc : forall ts t, all_ids (ts ++ [t]) = all_ids ts ++ [task_id t].
Proof. intros. unfold all_ids. rewrite map_app. reflexivity. Qed.

Lemma In_all_drop : forall j l1 t l2, In j (all_ids (l1 ++ t :: l2)) -> j <> task_id t -> In j (all_ids (l1 ++ l2)).
Proof.
  intros j l1 t l2 H Hn. rewrite all_ids_split in H. rewrite all_ids_app.
  apply in_app_iff in H. apply in_app_iff. destruct H as [H|[H|H]]; [left; exact H|congruence|right; exact H].
Qed.

Lemma In_work_drop : forall j l1 t l2, In j (work_ids (l1 ++ t :: l2)) -> j <> task_id t -> In j (work_ids (l1 ++ l2)).
Proof.
  intros j l1 t l2 H Hn. rewrite work_ids_split in H. unfold work_ids in *. rewrite ids_of_app.
  apply in_app_iff in H. apply in_app_iff. destruct H as [H|H]; [left; exact H|].
  apply in_app_iff in H. destruct H as [H|H]; [|right; exact H].
  destruct (is_work t); [destruct H as [H|[]]; congruence|destruct H].
Qed.

Lemma In_rest_tasks : forall (x : task) l1 t l2, In x (l1 ++ l2) -> In x (l1 ++ t :: l2).
Proof. intros x l1 t l2 H. apply in_app_iff in H. apply in_app_iff. destruct H; [left|right; right]; assumption. Qed.

Lemma In_qids_insort : forall j e q, In j (qids_of (insort e q)) <-> j = snd e \/ In j (qids_of q).
Proof.
  intros j e q. induction q as [|[t k] q IH]; cbn.
  - split; intros [H|H]; auto.
  - destruct (fst e <? t); cbn.
    + split; intros [H|H]; auto.
    + rewrite IH. cbn. tauto.
Qed.

Lemma due_prefix_split : forall now q d r, due_prefix now q = (d, r) -> q = d ++ r.
Proof.
  induction q as [|[t i] q IH]; intros d r H; cbn in H.
  - inversion H; reflexivity.
  - destruct (t <=? now).
    + destruct (due_prefix now q) as [d0 r0]. inversion H; subst. cbn. f_equal. apply IH. reflexivity.
    + inversion H; subst. reflexivity.
Qed.

(* ---- add_queued ---- *)
Lemma aq_queued_In : forall s ts i j, In j (qids_of (s_queued s)) -> In j (qids_of (s_queued (add_queued s ts i))).
Proof.
  intros s ts i j H. unfold add_queued. destruct (_ || _); [exact H|]. cbn. apply In_qids_insort. right. exact H.
Qed.

Lemma aq_tracks : forall s ts i, (forall k, mem k (s_qids s) = true -> In k (qids_of (s_queued s))) ->
  mem i (s_active s) = false -> In i (qids_of (s_queued (add_queued s ts i))).
Proof.
  intros s ts i Hq Ha. unfold add_queued. rewrite Ha, orb_false_r. destruct (mem i (s_qids s)) eqn:E.
  - apply Hq. exact E.
  - cbn. apply In_qids_insort. left. reflexivity.
Qed.

Lemma aq_qids_ok : forall s ts i, (forall k, mem k (s_qids s) = true -> In k (qids_of (s_queued s))) ->
  forall k, mem k (s_qids (add_queued s ts i)) = true -> In k (qids_of (s_queued (add_queued s ts i))).
Proof.
  intros s ts i Hq k. unfold add_queued. destruct (_ || _); [apply Hq|]. cbn.
  intro H. apply In_qids_insort. cbn. apply orb_true_iff in H. destruct H as [H|H]; [left; apply N.eqb_eq; exact H|right; apply Hq; exact H].
Qed.

(* a state whose store, next, removed, tasks and active are those of s but whose timetable grew *)
Lemma Tinv_add_queued : forall s ts i, Tinv s -> Tinv (add_queued s ts i).
Proof.
  intros s ts i H. destruct H. constructor; unfold stored in *; rewrite ?aq_store, ?aq_next, ?aq_removed, ?aq_tasks, ?aq_active; auto.
  - apply aq_qids_ok. assumption.
  - intros j Hj. destruct (t_tracked0 j Hj) as [Hq|Ht]; [left; apply aq_queued_In; exact Hq|right; exact Ht].
Qed.

(* ---- dispatch ---- *)
Lemma Tinv_dispatch : forall s i c, Tinv s -> Tinv (dispatch s i c).
Proof.
  intros s i c H. unfold dispatch. destruct (mem i (s_active s)) eqn:E; [exact H|].
  destruct H. constructor; unfold stored in *; proj; auto.
  - intros t Ht Hd. apply in_app_iff in Ht. destruct Ht as [Ht|[Ht|[]]]; [apply t_tasks_lt0; assumption|subst; discriminate].
  - intros t Ht Hd. apply in_app_iff in Ht. destruct Ht as [Ht|[Ht|[]]]; [apply t_src0; assumption|subst; discriminate].
  - intros j Hj. cbn [mem] in Hj. apply orb_true_iff in Hj. rewrite work_ids_snoc. cbn [is_work is_live is_remove orb task_id]. destruct Hj as [Hj|Hj].
    + apply N.eqb_eq in Hj. subst. left. apply in_app_iff. right. left. reflexivity.
    + destruct (t_active0 j Hj) as [Hw|Hr]; [left; apply in_app_iff; left; exact Hw|right; exact Hr].
  - intros j Hj. destruct (t_tracked0 j Hj) as [Hq|Ht]; [left; exact Hq|right]. rewrite all_ids_snoc. apply in_app_iff. left. exact Ht.
Qed.

Lemma dispatch_covers : forall s i c, Tinv s -> stored s i ->
  In i (all_ids (s_tasks (dispatch s i c))).
Proof.
  intros s i c H Hs. unfold dispatch. destruct (mem i (s_active s)) eqn:E.
  - destruct (t_active s H i E) as [Hw|Hr].
    + unfold work_ids, ids_of in Hw. unfold all_ids. apply in_map_iff in Hw. destruct Hw as [t [Ht Hf]].
      apply filter_In in Hf. apply in_map_iff. exists t. tauto.
    + exfalso. apply Hs. apply (t_removed_gone s H). exact Hr.
  - proj. rewrite all_ids_snoc. apply in_app_iff. right. left. reflexivity.
Qed.

Lemma dispatch_tasks_mono : forall s i c j, In j (all_ids (s_tasks s)) -> In j (all_ids (s_tasks (dispatch s i c))).
Proof.
  intros s i c j H. unfold dispatch. destruct (mem i (s_active s)); [exact H|]. proj. rewrite all_ids_snoc. apply in_app_iff. left. exact H.
Qed.

Lemma fold_dispatch_T : forall (f : time * id -> cause) d s, Tinv s ->
  let s' := fold_left (fun s e => dispatch s (snd e) (f e)) d s in
  Tinv s' /\ s_store s' = s_store s /\ s_queued s' = s_queued s /\ s_qids s' = s_qids s /\
  s_next s' = s_next s /\ g_removed s' = g_removed s /\
  (forall j, In j (all_ids (s_tasks s)) -> In j (all_ids (s_tasks s'))) /\
  (forall e, In e d -> stored s (snd e) -> In (snd e) (all_ids (s_tasks s'))).
Proof.
  induction d as [|e d IH]; intros s H; cbn.
  - split; [exact H|]. repeat (split; [reflexivity|]). split; [auto|]. intros e [].
  - specialize (IH (dispatch s (snd e) (f e)) (Tinv_dispatch s (snd e) (f e) H)). cbn in IH.
    destruct IH as [I1 [I2 [I3 [I4 [I5 [I6 [I7 I8]]]]]]].
    rewrite dispatch_store in I2. rewrite dispatch_queued in I3. rewrite dispatch_qids in I4. rewrite dispatch_next in I5.
    destruct (dispatch_ghost s (snd e) (f e)) as [_ [_ [_ [_ G5]]]]. rewrite G5 in I6.
    split; [exact I1|]. split; [exact I2|]. split; [exact I3|]. split; [exact I4|]. split; [exact I5|]. split; [exact I6|]. split.
    + intros j Hj. apply I7. apply dispatch_tasks_mono. exact Hj.
    + intros e' [He|He] Hs.
      * subst e'. apply I7. apply dispatch_covers; assumption.
      * apply I8; [exact He|]. unfold stored in *. rewrite dispatch_store. exact Hs.
Qed.

Lemma Tinv_ext : forall s s', Tinv s -> s_store s' = s_store s -> s_queued s' = s_queued s -> s_qids s' = s_qids s ->
  s_active s' = s_active s -> s_tasks s' = s_tasks s -> s_next s' = s_next s -> g_removed s' = g_removed s -> Tinv s'.
Proof.
  intros s s' H E1 E2 E3 E4 E5 E6 E7. destruct H. constructor; unfold stored in *; rewrite ?E1, ?E2, ?E3, ?E4, ?E5, ?E6, ?E7; auto.
Qed.

(* ---- one greenlet of message i takes a step: its task t is replaced by the tasks nt ---- *)
Lemma work_in_all : forall j ts, In j (work_ids ts) -> In j (all_ids ts).
Proof.
  intros j ts H. unfold work_ids, ids_of in H. unfold all_ids. apply in_map_iff in H. destruct H as [t [Ht Hf]].
  apply filter_In in Hf. apply in_map_iff. exists t. tauto.
Qed.

Lemma Tinv_replace : forall s s' i l1 t l2 nt,
  Tinv s -> s_tasks s = l1 ++ t :: l2 -> task_id t = i ->
  s_tasks s' = (l1 ++ l2) ++ nt ->
  (forall x, In x nt -> task_id x = i /\ (is_dq x = false -> i < s_next s)) ->
  (forall x, In x nt -> is_src x = true -> stored s i \/ In i (g_removed s)) ->
  s_next s' = s_next s -> g_removed s' = g_removed s ->
  (forall j, st_get (s_store s') j = None <-> st_get (s_store s) j = None) ->
  (forall j, In j (qids_of (s_queued s)) -> In j (qids_of (s_queued s'))) ->
  (forall j, mem j (s_qids s') = true -> In j (qids_of (s_queued s'))) ->
  (forall j, j <> i -> mem j (s_active s') = mem j (s_active s)) ->
  (mem i (s_active s') = true -> In i (work_ids ((l1 ++ l2) ++ nt)) \/ In i (g_removed s)) ->
  (stored s i -> In i (qids_of (s_queued s')) \/ In i (all_ids ((l1 ++ l2) ++ nt))) ->
  Tinv s'.
Proof.
  intros s s' i l1 t l2 nt H Ets Eid Ets' Hnt Hsrc Enext Erem Hst Hq Hqids Hact Hacti Htr.
  destruct H. constructor; unfold stored in *; rewrite ?Enext, ?Erem, ?Ets'.
  - intros j Hj. apply t_store_lt0. rewrite <- Hst. exact Hj.
  - exact t_removed_lt0.
  - intros x Hx Hd. apply in_app_iff in Hx. destruct Hx as [Hx|Hx].
    + apply t_tasks_lt0; [|exact Hd]. rewrite Ets. apply In_rest_tasks. exact Hx.
    + destruct (Hnt x Hx) as [E1 E2]. rewrite E1. apply E2. exact Hd.
  - intros j Hj. apply Hst. apply t_removed_gone0. exact Hj.
  - intros x Hx Hs. apply in_app_iff in Hx. destruct Hx as [Hx|Hx].
    + assert (Hx' : In x (s_tasks s)) by (rewrite Ets; apply In_rest_tasks; exact Hx).
      destruct (t_src0 x Hx' Hs) as [A|A]; [left; rewrite Hst; exact A|right; exact A].
    + destruct (Hnt x Hx) as [E1 _]. rewrite E1. destruct (Hsrc x Hx Hs) as [A|A]; [left; rewrite Hst; exact A|right; exact A].
  - intros j Hj. destruct (N.eq_dec j i) as [E|E].
    + subst j. apply Hacti. exact Hj.
    + rewrite (Hact j E) in Hj. destruct (t_active0 j Hj) as [Hw|Hr]; [left|right; exact Hr].
      rewrite Ets in Hw. unfold work_ids. rewrite ids_of_app. apply in_app_iff. left.
      apply (In_work_drop j l1 t l2 Hw). congruence.
  - exact Hqids.
  - intros j Hj. destruct (N.eq_dec j i) as [E|E].
    + subst j. apply Htr. rewrite <- Hst. exact Hj.
    + assert (Hj' : st_get (s_store s) j <> None) by (rewrite <- Hst; exact Hj).
      destruct (t_tracked0 j Hj') as [Hqq|Ht]; [left; apply Hq; exact Hqq|right].
      rewrite Ets in Ht. rewrite all_ids_app. apply in_app_iff. left.
      apply (In_all_drop j l1 t l2 Ht). congruence.
Qed.


Lemma iff_refl' : forall (A : Prop), A <-> A. Proof. tauto. Qed.

Lemma In_snoc_work : forall ts t, is_work t = true -> In (task_id t) (work_ids (ts ++ [t])).
Proof. intros ts t H. rewrite work_ids_snoc, H. apply in_app_iff. right. left. reflexivity. Qed.
Lemma In_snoc_all : forall ts t, In (task_id t) (all_ids (ts ++ [t])).
Proof. intros ts t. rewrite all_ids_snoc. apply in_app_iff. right. left. reflexivity. Qed.

Lemma Tinv_set_queue_after_dispatch : forall (f : time * id -> cause) s d r,
  Tinv s -> s_queued s = d ++ r ->
  Tinv (set_queue (fold_left (fun s e => dispatch s (snd e) (f e)) d s) r (qids_of r)).
Proof.
  intros f s d r H Eq.
  destruct (fold_dispatch_T f d s H) as [I1 [I2 [I3 [I4 [I5 [I6 [I7 I8]]]]]]].
  set (s1 := fold_left (fun s e => dispatch s (snd e) (f e)) d s) in *.
  destruct I1. constructor; unfold stored in *; proj; auto.
  - intros j Hj. apply mem_In. exact Hj.
  - intros j Hj. destruct (t_tracked0 j Hj) as [Hq|Ht]; [|right; exact Ht].
    rewrite I3, Eq in Hq. unfold qids_of in Hq. rewrite map_app in Hq. apply in_app_iff in Hq.
    destruct Hq as [Hq|Hq]; [right|left; exact Hq].
    apply in_map_iff in Hq. destruct Hq as [e [E1 E2]]. subst j. apply I8; [exact E2|].
    unfold stored. rewrite <- I2. exact Hj.
Qed.

Lemma step_T : forall s e, Tinv s -> Tinv (step s e).
Proof.
  intros s e H. destruct e; unfold step.
  - (* EWrite *)
    destruct H. constructor; unfold stored in *; proj.
    + intros i Hi. cbn [st_get] in Hi. destruct (N.eqb_spec i (s_next s)); [lia|]. specialize (t_store_lt0 i Hi). lia.
    + intros i Hi. specialize (t_removed_lt0 i Hi). lia.
    + intros x Hx Hd. apply in_app_iff in Hx. destruct Hx as [Hx|[Hx|[]]].
      * specialize (t_tasks_lt0 x Hx Hd). lia.
      * subst x. cbn. lia.
    + intros i Hi. cbn [st_get]. destruct (N.eqb_spec i (s_next s)); [specialize (t_removed_lt0 i Hi); lia|]. apply t_removed_gone0. exact Hi.
    + intros x Hx Hs. apply in_app_iff in Hx. destruct Hx as [Hx|[Hx|[]]].
      * destruct (t_src0 x Hx Hs) as [A|A]; [left|right; exact A]. cbn [st_get].
        destruct (N.eqb_spec (task_id x) (s_next s)); [discriminate|exact A].
      * subst x. left. cbn [task_id st_get]. rewrite N.eqb_refl. discriminate.
    + intros i Hi. destruct (t_active0 i Hi) as [Hw|Hr]; [left|right; exact Hr].
      rewrite work_ids_snoc. apply in_app_iff. left. exact Hw.
    + exact t_qids0.
    + intros i Hi. cbn [st_get] in Hi. destruct (N.eqb_spec i (s_next s)).
      * subst i. right. apply (In_snoc_all _ (TEnq (s_next s) sender rcpts)).
      * destruct (t_tracked0 i Hi) as [Hq|Ht]; [left; exact Hq|right]. rewrite all_ids_snoc. apply in_app_iff. left. exact Ht.
  - (* EEnqDone *)
    destruct (take_task (is_enq i) (s_tasks s)) as [[t rest]|] eqn:T; [|exact H].
    destruct t; try exact H.
    apply take_task_spec in T. destruct T as [Hp [l1 [l2 [E1 E2]]]].
    apply is_enq_id in Hp. destruct Hp as [Hid [Hl Hr]]. cbn in Hid. subst i0 rest.
    assert (Hin : In (TEnq i snd rcpts) (s_tasks s)) by (rewrite E1; apply in_app_iff; right; left; reflexivity).
    assert (Hlt : i < s_next s) by (apply (t_tasks_lt s H _ Hin); reflexivity).
    assert (Hsrc : stored s i \/ In i (g_removed s)) by (apply (t_src s H _ Hin); reflexivity).
    assert (Hwk : mem i (s_active s) = true -> In i (work_ids (l1 ++ l2)) \/ In i (g_removed s)).
    { intro Em. destruct (t_active s H i Em) as [Hw|Hrm]; [left|right; exact Hrm].
      rewrite E1 in Hw. rewrite work_ids_split in Hw. cbn in Hw. unfold work_ids. rewrite ids_of_app. exact Hw. }
    proj. destruct (mem i (s_active s)) eqn:Em.
    + apply (Tinv_replace s _ i l1 _ l2 [] H E1 eq_refl); proj; rewrite ?app_nil_r;
        [ reflexivity
        | intros x []
        | intros x []
        | reflexivity
        | reflexivity
        | intro; apply iff_refl'
        | intros j Hj; exact Hj
        | apply (t_qids s H)
        | intros j Hj; reflexivity
        | intros _; apply Hwk; reflexivity
        | intros Hs; right; destruct (Hwk eq_refl) as [Hw|Hrm]; [apply work_in_all; exact Hw|exfalso; apply Hs; apply (t_removed_gone s H); exact Hrm] ].
    + apply (Tinv_replace s _ i l1 _ l2 [TAttempt i snd rcpts 0] H E1 eq_refl); proj; rewrite ?app_nil_r;
        [ reflexivity
        | intros x [Hx|[]]; subst x; split; [reflexivity|intros; exact Hlt]
        | intros; exact Hsrc
        | reflexivity
        | reflexivity
        | intro; apply iff_refl'
        | intros j Hj; exact Hj
        | apply (t_qids s H)
        | intros j Hj; cbn [mem]; destruct (N.eqb_spec j i); [contradiction|reflexivity]
        | intros _; left; apply (In_snoc_work _ (TAttempt i snd rcpts 0)); reflexivity
        | intros _; right; apply (In_snoc_all _ (TAttempt i snd rcpts 0)) ].
  - (* ERelay *)
    destruct (take_task (is_attempt i) (s_tasks s)) as [[t rest]|] eqn:T; [|exact H].
    destruct t; try exact H.
    apply take_task_spec in T. destruct T as [Hp [l1 [l2 [E1 E2]]]].
    apply is_attempt_id in Hp. destruct Hp as [Hid Hl]. cbn in Hid. subst i0 rest.
    assert (Hin : In (TAttempt i snd rcpts n) (s_tasks s)) by (rewrite E1; apply in_app_iff; right; left; reflexivity).
    assert (Hlt : i < s_next s) by (apply (t_tasks_lt s H _ Hin); reflexivity).
    assert (Hsrc : stored s i \/ In i (g_removed s)) by (apply (t_src s H _ Hin); reflexivity).
    assert (Hq : forall j, mem j (del i (s_qids s)) = true -> In j (qids_of (s_queued s))).
    { intros j Hj. apply (t_qids s H). apply mem_In in Hj. apply In_del in Hj. apply mem_In. tauto. }
    destruct o.
    + apply (Tinv_replace s _ i l1 _ l2 [TRemove i] H E1 eq_refl); proj; rewrite ?app_nil_r;
        [ reflexivity
        | intros x [Hx|[]]; subst x; split; [reflexivity|intros; exact Hlt]
        | intros; exact Hsrc
        | reflexivity
        | reflexivity
        | intro; apply iff_refl'
        | intros j Hj; exact Hj
        | exact Hq
        | intros j Hj; apply mem_del_other; exact Hj
        | rewrite mem_del_same; discriminate
        | intros _; right; apply (In_snoc_all _ (TRemove i)) ].
    + apply (Tinv_replace s _ i l1 _ l2 [TRetry1 i snd rcpts None] H E1 eq_refl); proj; rewrite ?app_nil_r;
        [ reflexivity
        | intros x [Hx|[]]; subst x; split; [reflexivity|intros; exact Hlt]
        | intros; exact Hsrc
        | reflexivity
        | reflexivity
        | intro; apply iff_refl'
        | intros j Hj; exact Hj
        | apply (t_qids s H)
        | intros j Hj; reflexivity
        | intros _; left; apply (In_snoc_work _ (TRetry1 i snd rcpts None)); reflexivity
        | intros _; right; apply (In_snoc_all _ (TRetry1 i snd rcpts None)) ].
    + apply (Tinv_replace s _ i l1 _ l2 [TRemove i] H E1 eq_refl); proj; rewrite ?app_nil_r;
        [ reflexivity
        | intros x [Hx|[]]; subst x; split; [reflexivity|intros; exact Hlt]
        | intros; exact Hsrc
        | reflexivity
        | reflexivity
        | intro; apply iff_refl'
        | intros j Hj; exact Hj
        | exact Hq
        | intros j Hj; apply mem_del_other; exact Hj
        | rewrite mem_del_same; discriminate
        | intros _; right; apply (In_snoc_all _ (TRemove i)) ].
    + apply (Tinv_replace s _ i l1 _ l2 [TRetry1 i snd rcpts None] H E1 eq_refl); proj; rewrite ?app_nil_r;
        [ reflexivity
        | intros x [Hx|[]]; subst x; split; [reflexivity|intros; exact Hlt]
        | intros; exact Hsrc
        | reflexivity
        | reflexivity
        | intro; apply iff_refl'
        | intros j Hj; exact Hj
        | apply (t_qids s H)
        | intros j Hj; reflexivity
        | intros _; left; apply (In_snoc_work _ (TRetry1 i snd rcpts None)); reflexivity
        | intros _; right; apply (In_snoc_all _ (TRetry1 i snd rcpts None)) ].
    + destruct (pick is_temp rcpts res) as [|r0 temps].
      * apply (Tinv_replace s _ i l1 _ l2 [TPartialRemove i] H E1 eq_refl); proj; rewrite ?app_nil_r;
        [ reflexivity
        | intros x [Hx|[]]; subst x; split; [reflexivity|intros; exact Hlt]
        | intros; exact Hsrc
        | reflexivity
        | reflexivity
        | intro; apply iff_refl'
        | intros j Hj; exact Hj
        | apply (t_qids s H)
        | intros j Hj; reflexivity
        | intros _; left; apply (In_snoc_work _ (TPartialRemove i)); reflexivity
        | intros _; right; apply (In_snoc_all _ (TPartialRemove i)) ].
      * apply (Tinv_replace s _ i l1 _ l2 [TRetry1 i snd (r0 :: temps) (Some (rcpts, res))] H E1 eq_refl); proj; rewrite ?app_nil_r;
        [ reflexivity
        | intros x [Hx|[]]; subst x; split; [reflexivity|intros; exact Hlt]
        | intros; exact Hsrc
        | reflexivity
        | reflexivity
        | intro; apply iff_refl'
        | intros j Hj; exact Hj
        | apply (t_qids s H)
        | intros j Hj; reflexivity
        | intros _; left; apply (In_snoc_work _ (TRetry1 i snd (r0 :: temps) (Some (rcpts, res)))); reflexivity
        | intros _; right; apply (In_snoc_all _ (TRetry1 i snd (r0 :: temps) (Some (rcpts, res)))) ].
  - (* EStep *)
    destruct (take_task (is_retry i) (s_tasks s)) as [[t rest]|] eqn:T; [|exact H].
    apply take_task_spec in T. destruct T as [Hp [l1 [l2 [E1 E2]]]].
    pose proof Hp as Hp0. apply is_retry_id in Hp. destruct Hp as [Hid Hl]. subst rest.
    assert (Hin : In t (s_tasks s)) by (rewrite E1; apply in_app_iff; right; left; reflexivity).
    assert (Hnd : is_dq t = false /\ is_src t = true) by (destruct t; cbn in Hp0; try discriminate; split; reflexivity).
    assert (Hlt : i < s_next s) by (rewrite <- Hid; apply (t_tasks_lt s H _ Hin); tauto).
    assert (Hsrc : stored s i \/ In i (g_removed s)) by (rewrite <- Hid; apply (t_src s H _ Hin); tauto).
    assert (Hq : forall j, mem j (del i (s_qids s)) = true -> In j (qids_of (s_queued s))).
    { intros j Hj. apply (t_qids s H). apply mem_In in Hj. apply In_del in Hj. apply mem_In. tauto. }
    destruct (st_get (s_store s) i) as [m|] eqn:Eg.
    2:{ apply (Tinv_replace s _ i l1 _ l2 [] H E1 Hid); proj; rewrite ?app_nil_r;
        [ reflexivity
        | intros x []
        | intros x []
        | reflexivity
        | reflexivity
        | intro; apply iff_refl'
        | intros j Hj; exact Hj
        | apply (t_qids s H)
        | intros j Hj; reflexivity
        | intros _; right; destruct Hsrc as [A|A]; [contradiction|exact A]
        | intros Hs; contradiction ]. }
    destruct t; cbn in Hp0; try discriminate; cbn in Hid; subst i0.
    + destruct b as [w|].
      * apply (Tinv_replace s _ i l1 _ l2 [TRetry2 i rcpts dl (s_clock s + w)] H E1 eq_refl); proj; rewrite ?app_nil_r;
        [ reflexivity
        | intros x [Hx|[]]; subst x; split; [reflexivity|intros; exact Hlt]
        | intros; exact Hsrc
        | reflexivity
        | reflexivity
        | intro; apply st_get_upd_none
        | intros j Hj; exact Hj
        | apply (t_qids s H)
        | intros j Hj; reflexivity
        | intros _; left; apply (In_snoc_work _ (TRetry2 i rcpts dl (s_clock s + w))); reflexivity
        | intros _; right; apply (In_snoc_all _ (TRetry2 i rcpts dl (s_clock s + w))) ].
      * apply (Tinv_replace s _ i l1 _ l2 [TRemove i] H E1 eq_refl); proj; rewrite ?app_nil_r;
        [ reflexivity
        | intros x [Hx|[]]; subst x; split; [reflexivity|intros; exact Hlt]
        | intros; exact Hsrc
        | reflexivity
        | reflexivity
        | intro; apply st_get_upd_none
        | intros j Hj; exact Hj
        | exact Hq
        | intros j Hj; apply mem_del_other; exact Hj
        | rewrite mem_del_same; discriminate
        | intros _; right; apply (In_snoc_all _ (TRemove i)) ].
    + destruct dl as [[all res]|].
      * apply (Tinv_replace s _ i l1 _ l2 [TRetry3 i all res when] H E1 eq_refl); proj; rewrite ?app_nil_r;
        [ reflexivity
        | intros x [Hx|[]]; subst x; split; [reflexivity|intros; exact Hlt]
        | intros; exact Hsrc
        | reflexivity
        | reflexivity
        | intro; apply st_get_upd_none
        | intros j Hj; exact Hj
        | apply (t_qids s H)
        | intros j Hj; reflexivity
        | intros _; left; apply (In_snoc_work _ (TRetry3 i all res when)); reflexivity
        | intros _; right; apply (In_snoc_all _ (TRetry3 i all res when)) ].
      * apply (Tinv_replace s _ i l1 _ l2 [] H E1 eq_refl); rewrite ?aq_tasks, ?aq_next, ?aq_removed, ?aq_store, ?aq_active; proj; rewrite ?app_nil_r;
        [ reflexivity
        | intros x []
        | intros x []
        | reflexivity
        | reflexivity
        | intro; apply st_get_upd_none
        | intros j Hj; apply aq_queued_In; exact Hj
        | apply aq_qids_ok; apply (t_qids s H)
        | intros j Hj; apply mem_del_other; exact Hj
        | rewrite mem_del_same; discriminate
        | intros _; left; apply aq_tracks; [apply (t_qids s H)|proj; apply mem_del_same] ].
    + apply (Tinv_replace s _ i l1 _ l2 [] H E1 eq_refl); rewrite ?aq_tasks, ?aq_next, ?aq_removed, ?aq_store, ?aq_active; proj; rewrite ?app_nil_r;
        [ reflexivity
        | intros x []
        | intros x []
        | reflexivity
        | reflexivity
        | intro; apply st_get_upd_none
        | intros j Hj; apply aq_queued_In; exact Hj
        | apply aq_qids_ok; apply (t_qids s H)
        | intros j Hj; apply mem_del_other; exact Hj
        | rewrite mem_del_same; discriminate
        | intros _; left; apply aq_tracks; [apply (t_qids s H)|proj; apply mem_del_same] ].
  - (* EGet *)
    destruct (take_task (is_dequeue i) (s_tasks s)) as [[t rest]|] eqn:T; [|exact H].
    destruct t; try exact H.
    apply take_task_spec in T. destruct T as [Hp [l1 [l2 [E1 E2]]]].
    apply is_dequeue_id in Hp. destruct Hp as [Hid Hl]. cbn in Hid. subst i0 rest.
    destruct (st_get (s_store s) i) as [m|] eqn:Eg.
    + assert (Hst : stored s i) by (unfold stored; rewrite Eg; discriminate).
      assert (Hlt : i < s_next s) by (apply (t_store_lt s H); exact Hst).
      assert (Hsrc : stored s i \/ In i (g_removed s)) by (left; exact Hst).
      apply (Tinv_replace s _ i l1 _ l2 [TAttempt i (m_sender m) (m_rcpts m) (m_attempts m)] H E1 eq_refl); proj; rewrite ?app_nil_r;
        [ reflexivity
        | intros x [Hx|[]]; subst x; split; [reflexivity|intros; exact Hlt]
        | intros; exact Hsrc
        | reflexivity
        | reflexivity
        | intro; apply iff_refl'
        | intros j Hj; exact Hj
        | apply (t_qids s H)
        | intros j Hj; reflexivity
        | intros _; left; apply (In_snoc_work _ (TAttempt i (m_sender m) (m_rcpts m) (m_attempts m))); reflexivity
        | intros _; right; apply (In_snoc_all _ (TAttempt i (m_sender m) (m_rcpts m) (m_attempts m))) ].
    + apply (Tinv_replace s _ i l1 _ l2 [] H E1 eq_refl); proj; rewrite ?app_nil_r;
        [ reflexivity
        | intros x []
        | intros x []
        | reflexivity
        | reflexivity
        | intro; apply iff_refl'
        | intros j Hj; exact Hj
        | apply (t_qids s H)
        | intros j Hj; apply mem_del_other; exact Hj
        | rewrite mem_del_same; discriminate
        | intros Hs; unfold stored in Hs; contradiction ].
  - (* ERemove *)
    destruct (take_task (is_rm i) (s_tasks s)) as [[t rest]|] eqn:T; [|exact H].
    apply take_task_spec in T. destruct T as [Hp [l1 [l2 [E1 E2]]]].
    apply is_rm_id in Hp. destruct Hp as [Hid [Hl Hr]]. subst rest.
    assert (Hin : In t (s_tasks s)) by (rewrite E1; apply in_app_iff; right; left; reflexivity).
    assert (Hlt : i < s_next s) by (rewrite <- Hid; apply (t_tasks_lt s H _ Hin); destruct t; cbn in Hr; try discriminate; reflexivity).
    destruct H. constructor; unfold stored in *; proj.
    + intros j Hj. destruct (N.eq_dec j i) as [E|E]; [subst; rewrite st_get_del_same in Hj; contradiction|].
      rewrite st_get_del_other in Hj by exact E. apply t_store_lt0. exact Hj.
    + intros j [Hj|Hj]; [subst; exact Hlt|apply t_removed_lt0; exact Hj].
    + intros x Hx Hd. apply t_tasks_lt0; [rewrite E1; apply In_rest_tasks; exact Hx|exact Hd].
    + intros j [Hj|Hj]; [subst; apply st_get_del_same|].
      destruct (N.eq_dec j i) as [E|E]; [subst; apply st_get_del_same|]. rewrite st_get_del_other by exact E. apply t_removed_gone0. exact Hj.
    + intros x Hx Hs. destruct (N.eq_dec (task_id x) i) as [E|E]; [right; left; symmetry; exact E|].
      assert (Hx' : In x (s_tasks s)) by (rewrite E1; apply In_rest_tasks; exact Hx).
      destruct (t_src0 x Hx' Hs) as [A|A]; [left; rewrite st_get_del_other by exact E; exact A|right; right; exact A].
    + intros j Hj. destruct (N.eq_dec j i) as [E|E]; [right; left; symmetry; exact E|].
      destruct (t_active0 j Hj) as [Hw|Hrm]; [left|right; right; exact Hrm].
      rewrite E1 in Hw. apply (In_work_drop j l1 t l2 Hw). congruence.
    + exact t_qids0.
    + intros j Hj. destruct (N.eq_dec j i) as [E|E]; [subst; rewrite st_get_del_same in Hj; contradiction|].
      rewrite st_get_del_other in Hj by exact E.
      destruct (t_tracked0 j Hj) as [Hqq|Ht]; [left; exact Hqq|right].
      rewrite E1 in Ht. apply (In_all_drop j l1 t l2 Ht). congruence.
  - (* ETick *)
    destruct (s_sched s); try exact H.
    apply (Tinv_ext (check_ready s)); try (apply wr_store || apply wr_queued || apply wr_qids || apply wr_active || apply wr_tasks || apply wr_next).
    2:{ destruct (wr_ghost (check_ready s)) as [_ [_ [_ [_ G]]]]. exact G. }
    unfold check_ready. destruct (due_prefix (s_clock s) (s_queued s)) as [d r] eqn:Ed. destruct d as [|e d]; [exact H|].
    apply (Tinv_set_queue_after_dispatch (fun e => CTimer (fst e))); [exact H|]. apply (due_prefix_split _ _ _ _ Ed).
  - (* EWakeup *)
    destruct (s_sched s) as [|[t|]|]; try exact H.
    + destruct (t <=? s_clock s); [|exact H]. apply (Tinv_ext s); auto.
    + apply (Tinv_ext s); auto.
  - (* EAdvance *) apply (Tinv_ext s); auto.
  - (* EAnnounce *) apply Tinv_add_queued. exact H.
  - (* EFlush *)
    set (s0 := set_sched s (notified (s_sched s)) false).
    assert (H0 : Tinv s0) by (apply (Tinv_ext s); auto).
    change (@nil id) with (qids_of []).
    apply (Tinv_set_queue_after_dispatch (fun _ => CFlush)); [exact H0|]. rewrite app_nil_r. reflexivity.
Qed.

Lemma init_T : Tinv init.
Proof.
  constructor; unfold stored; cbn.
  - intros i Hi. contradiction.
  - intros i [].
  - intros t [].
  - intros i [].
  - intros t [].
  - intros i Hi. discriminate.
  - intros i Hi. discriminate.
  - intros i Hi. contradiction.
Qed.

Lemma run_T : forall es s, Tinv s -> Tinv (run es s).
Proof. induction es as [|e es IH]; intros s H; cbn; [exact H|]. apply IH. apply step_T. exact H. Qed.

(* C12 not forgotten *)
Lemma not_forgotten : forall es i,
  let s := run es init in
  st_get (s_store s) i <> None ->
  In i (qids_of (s_queued s)) \/ In i (all_ids (s_tasks s)).
Proof. intros es i s Hs. apply (t_tracked s (run_T es init init_T)). exact Hs. Qed.

(* ---------- restart: a fresh queue over a non-empty store (C04's "resumes retrying") ---------- *)
Definition start (st : store) (nx : id) : state := start_at st nx 0.
Definition load_events (st : store) : list event := map (fun e => EAnnounce (m_ts (snd e)) (fst e)) st.

Record loading (st : store) (nx : id) (s : state) : Prop := mkLoading {
  ld_store : s_store s = st; ld_tasks : s_tasks s = []; ld_active : s_active s = [];
  ld_removed : g_removed s = []; ld_next : s_next s = nx;
  ld_qids : forall j, mem j (s_qids s) = true -> In j (qids_of (s_queued s)) }.

Lemma loading_announce : forall st nx s ts i, loading st nx s ->
  loading st nx (step s (EAnnounce ts i)) /\ In i (qids_of (s_queued (step s (EAnnounce ts i)))) /\
  (forall j, In j (qids_of (s_queued s)) -> In j (qids_of (s_queued (step s (EAnnounce ts i))))).
Proof.
  intros st nx s ts i [L1 L2 L3 L4 L5 L6]. cbn [step]. split; [|split].
  - constructor; rewrite ?aq_store, ?aq_tasks, ?aq_active, ?aq_removed, ?aq_next; auto. apply aq_qids_ok. exact L6.
  - apply aq_tracks; [exact L6|rewrite L3; reflexivity].
  - intros j Hj. apply aq_queued_In. exact Hj.
Qed.

Lemma st_get_In : forall (st : store) i, st_get st i <> None -> In i (map fst st).
Proof.
  induction st as [|[j m] st IH]; intros i H; cbn in *; [contradiction|].
  destruct (N.eqb_spec i j); [left; symmetry; assumption|right; apply IH; exact H].
Qed.

Lemma load_all_queued : forall st nx es s, loading st nx s ->
  loading st nx (run (map (fun e : id * msg => EAnnounce (m_ts (snd e)) (fst e)) es) s) /\
  (forall i, In i (map fst es) \/ In i (qids_of (s_queued s)) ->
             In i (qids_of (s_queued (run (map (fun e : id * msg => EAnnounce (m_ts (snd e)) (fst e)) es) s)))).
Proof.
  intros st nx es. induction es as [|[j m] es IH]; intros s L; cbn [map run fold_left].
  - split; [exact L|]. intros i [[]|H]. exact H.
  - destruct (loading_announce st nx s (m_ts m) j L) as [L' [Hj Hmono]]. cbn [fst snd].
    destruct (IH _ L') as [L'' Hall]. split; [exact L''|].
    intros i [[Hi|Hi]|Hi]; apply Hall.
    + right. cbn in Hi. subst i. exact Hj.
    + left. exact Hi.
    + right. apply Hmono. exact Hi.
Qed.

(* after the start-up load of a store whose ids are below the allocation counter, the queue's
   invariant holds and every stored message is in the timetable: every theorem about
   continuations (not forgotten, never early, wake-up, ...) applies to the restarted queue *)
Lemma restart_resumes_at : forall st nx c, (forall i, st_get st i <> None -> i < nx) ->
  let s := run (load_events st) (start_at st nx c) in
  Tinv s /\ s_store s = st /\ forall i, st_get st i <> None -> In i (qids_of (s_queued s)).
Proof.
  intros st nx c Hlt s.
  assert (L0 : loading st nx (start_at st nx c)) by (constructor; cbn; auto; discriminate).
  destruct (load_all_queued st nx st (start_at st nx c) L0) as [[L1 L2 L3 L4 L5 L6] Hall]. fold (load_events st) in *. fold s in L1, L2, L3, L4, L5, L6, Hall.
  assert (Hq : forall i, st_get st i <> None -> In i (qids_of (s_queued s))).
  { intros i Hi. apply Hall. left. apply st_get_In. exact Hi. }
  split; [|split; [exact L1|exact Hq]].
  constructor; unfold stored; rewrite ?L1, ?L2, ?L3, ?L4, ?L5.
  - exact Hlt.
  - intros i [].
  - intros t [].
  - intros i [].
  - intros t [].
  - intros i Hi. discriminate.
  - exact L6.
  - intros i Hi. left. apply Hq. exact Hi.
Qed.

Lemma restart_resumes : forall st nx, (forall i, st_get st i <> None -> i < nx) ->
  let s := run (load_events st) (start st nx) in
  Tinv s /\ s_store s = st /\ forall i, st_get st i <> None -> In i (qids_of (s_queued s)).
Proof. intros st nx H. exact (restart_resumes_at st nx 0 H). Qed.
