(* Proofs for property C09 (segmentation / pipelining independence of the server):
   model/ServerStream.v on top of model/Server.v (C07) and model/Data.v (C05).
   Parts: A IO.recv_line incremental = batch, exact consumption . B DataReader.recv with the
   size limit (D13 repaired): incremental = batch, exact consumption, relation to C05 .
   C the server loop: simulation between the incremental and the batch stream, fuel,
   connection with C07's run_session, one DATA transaction . D examples. *)
From Coq Require Import List NArith Bool Arith Lia ZifyBool ZifyN.
From SV Require Import lib.Bytes model.Reply model.Data model.Server model.ServerStream proof.Data_lemmas.
From SV Require proof.Server_lemmas.
Import ListNotations.
Open Scope N_scope.
Local Arguments firstn : simpl never.
Local Arguments skipn : simpl never.

(* ====================================================================== *)
(* A. IO.recv_line                                                         *)
(* ====================================================================== *)

Lemma take_line_app a b :
  take_line (a ++ b) =
  match take_line a with
  | Some (l, r) => Some (l, r ++ b)
  | None => match take_line b with Some (l, r) => Some (a ++ l, r) | None => None end
  end.
Proof.
  induction a as [|x a IH].
  - cbn [app take_line]. destruct (take_line b) as [[l r]|]; reflexivity.
  - cbn [app take_line]. destruct (x =? 10); [reflexivity|]. rewrite IH.
    destruct (take_line a) as [[l r]|]; [reflexivity|].
    destruct (take_line b) as [[l r]|]; reflexivity.
Qed.

Lemma take_line_some s : forall l r, take_line s = Some (l, r) -> s = l ++ 10 :: r /\ nolf l = true.
Proof.
  induction s as [|x s IH]; intros l r H; [discriminate|].
  cbn [take_line] in H. destruct (x =? 10) eqn:E.
  - injection H as <- <-. apply N.eqb_eq in E. subst x. split; reflexivity.
  - destruct (take_line s) as [[l' r']|]; [|discriminate]. injection H as <- <-.
    destruct (IH l' r' eq_refl) as [E1 E2]. split; [cbn [app]; f_equal; exact E1|].
    rewrite nolf_cons, E, E2. reflexivity.
Qed.

Lemma take_line_none s : take_line s = None <-> nolf s = true.
Proof.
  induction s as [|x s IH]; [split; reflexivity|].
  cbn [take_line]. rewrite nolf_cons. destruct (x =? 10); cbn [negb andb].
  - split; discriminate.
  - destruct (take_line s) as [[l r]|].
    + split; [discriminate|]. intros H. apply IH in H. discriminate.
    + split; [|reflexivity]. intros _. apply IH. reflexivity.
Qed.

Lemma take_line_line l r : nolf l = true -> take_line (l ++ 10 :: r) = Some (l, r).
Proof.
  intros H. rewrite take_line_app. apply take_line_none in H. rewrite H. cbn [take_line N.eqb Pos.eqb]. rewrite app_nil_r. reflexivity.
Qed.

Lemma line_spec_line l r : nolf l = true -> line_spec (l ++ 10 :: r) = Some (strip_cr l, r).
Proof. intros H. unfold line_spec. rewrite (take_line_line _ _ H). reflexivity. Qed.

Lemma line_spec_app_some s x l r : line_spec s = Some (l, r) -> line_spec (s ++ x) = Some (l, r ++ x).
Proof.
  unfold line_spec. rewrite take_line_app. destruct (take_line s) as [[raw rest]|]; [|discriminate].
  intros H. injection H as <- <-. reflexivity.
Qed.

(* the line consumed ends with the first LF: strictly less is left *)
Lemma line_spec_shorter s l r : line_spec s = Some (l, r) -> (length r < length s)%nat.
Proof.
  unfold line_spec. destruct (take_line s) as [[raw rest]|] eqn:E; [|discriminate].
  intros H. injection H as _ <-. destruct (take_line_some _ _ _ E) as [-> _].
  rewrite app_length. cbn [length]. lia.
Qed.

Lemma recv_line_eq buf sock :
  recv_line buf sock =
  match take_line buf with
  | Some (raw, rest) => LLine (strip_cr raw) rest sock
  | None =>
      match sock with
      | [] => LLost
      | piece :: sock' =>
          match piece with
          | [] => LLost
          | _ :: _ => recv_line (buf ++ piece) sock'
          end
      end
  end.
Proof. destruct sock; reflexivity. Qed.

(* incremental = batch *)
Lemma recv_line_batch chunks : forall buf, Forall nonempty chunks ->
  line_outcome (recv_line buf chunks) = line_spec (buf ++ concat chunks).
Proof.
  induction chunks as [|c cs IH]; intros buf NE; rewrite recv_line_eq; unfold line_spec.
  - cbn [concat]. rewrite app_nil_r. destruct (take_line buf) as [[raw rest]|]; [|reflexivity].
    cbn [line_outcome concat]. rewrite app_nil_r. reflexivity.
  - inversion NE as [|? ? NEc NEcs]; subst. rewrite take_line_app.
    destruct (take_line buf) as [[raw rest]|] eqn:E; [reflexivity|].
    destruct c as [|b c]; [exfalso; apply NEc; reflexivity|].
    rewrite (IH _ NEcs). unfold line_spec. cbn [concat]. rewrite <- app_assoc, take_line_app, E. reflexivity.
Qed.

(* exact consumption: recv_line stops reading from the socket with the piece that completes the line *)
Lemma recv_line_consumption chunks : forall buf l rb rest,
  recv_line buf chunks = LLine l rb rest ->
  exists used, chunks = used ++ rest
    /\ line_spec (buf ++ concat used) = Some (l, rb)
    /\ (used = [] \/ line_spec (buf ++ concat (removelast used)) = None).
Proof.
  induction chunks as [|c cs IH]; intros buf l rb rest; rewrite recv_line_eq.
  - destruct (take_line buf) as [[raw rest']|] eqn:E; [|discriminate].
    intros H. injection H as <- <- <-. exists []. cbn [concat app]. rewrite app_nil_r.
    unfold line_spec. rewrite E. auto.
  - destruct (take_line buf) as [[raw rest']|] eqn:E.
    + intros H. injection H as <- <- <-. exists []. cbn [concat app]. rewrite app_nil_r.
      unfold line_spec. rewrite E. auto.
    + destruct c as [|b c]; [discriminate|]. intros H.
      destruct (IH _ _ _ _ H) as (used & E1 & E2 & E3). exists ((b :: c) :: used).
      split; [cbn [app]; f_equal; exact E1|]. split; [cbn [concat]; rewrite app_assoc; exact E2|].
      right. destruct used as [|u used].
      * cbn [removelast concat]. rewrite app_nil_r. unfold line_spec. rewrite E. reflexivity.
      * destruct E3 as [E3|E3]; [discriminate|].
        change (removelast ((b :: c) :: u :: used)) with ((b :: c) :: removelast (u :: used)).
        cbn [concat]. rewrite app_assoc. exact E3.
Qed.

Lemma Forall_suffix {A} (P : A -> Prop) used rest : Forall P (used ++ rest) -> Forall P rest.
Proof. intros H. apply Forall_app in H. apply H. Qed.

(* ====================================================================== *)
(* B. DataReader.recv with the size limit                                  *)
(* ====================================================================== *)

(* what is left for the command parser: the second component of read_spec *)
Definition rest_of (s : bytes) : option bytes :=
  match read_spec s with Some (_, r) => Some r | None => None end.

Lemma read_spec_prefix y d r : read_spec y = Some (d, r) -> exists p, y = p ++ r /\ p <> [].
Proof.
  intros H. destruct (read_spec_sound _ _ _ H) as (ls & e & E & _).
  exists (unraw ls ++ e ++ [10]). split; [rewrite E, <- !app_assoc; reflexivity|].
  intros C. apply (f_equal (@length _)) in C. rewrite !app_length in C. cbn [length] in C. lia.
Qed.

Lemma read_spec_shorter y d r : read_spec y = Some (d, r) -> (length r < length y)%nat.
Proof.
  intros H. destruct (read_spec_prefix _ _ _ H) as (p & -> & NE). rewrite app_length.
  destruct p; [contradiction|]. cbn [length]. lia.
Qed.

(* lines in front of the end-of-data line do not matter for what is left *)
Lemma rest_drop_aux ls : forall tl x, forallb nolf ls = true -> scan ls = None ->
  rest_of ((unraw ls ++ tl) ++ x) = rest_of (tl ++ x).
Proof.
  induction ls as [|l ls IH]; intros tl x Hl Hs; [reflexivity|].
  cbn [forallb] in Hl. apply andb_true_iff in Hl. destruct Hl as [Hl Hls].
  cbn [scan] in Hs. destruct (is_eod (l ++ [10])) eqn:E; [discriminate|].
  assert (Hs' : scan ls = None) by (destruct (scan ls) as [[d r]|]; [discriminate|reflexivity]).
  specialize (IH tl x Hls Hs'). unfold rest_of in *.
  rewrite unraw_cons, <- !app_assoc. cbn [app]. rewrite read_spec_line by exact Hl. rewrite E.
  rewrite app_assoc. destruct (read_spec ((unraw ls ++ tl) ++ x)) as [[d r]|]; exact IH.
Qed.

Lemma read_spec_none_scan t : read_spec t = None -> scan (fst (split_lf t)) = None.
Proof.
  rewrite read_spec_unfold. destruct (scan (fst (split_lf t))) as [[d r]|]; [discriminate|reflexivity].
Qed.

Lemma rest_drop_lines t x : read_spec t = None -> rest_of (t ++ x) = rest_of (snd (split_lf t) ++ x).
Proof.
  intros H. destruct (split_lf_spec t) as (Et & Hl & Ht).
  pose proof (read_spec_none_scan _ H) as Hs.
  remember (fst (split_lf t)) as ls. remember (snd (split_lf t)) as tl.
  rewrite Et. apply rest_drop_aux; assumption.
Qed.

Lemma nolf_read_none s : nolf s = true -> read_spec s = None.
Proof. intros H. rewrite read_spec_unfold, (split_lf_nolf _ H). reflexivity. Qed.

Lemma nolf_prefix_rest tl x d r : nolf tl = true -> read_spec (tl ++ x) = Some (d, r) -> (length r <= length x)%nat.
Proof.
  intros Ht H. destruct (take_line x) as [[l' x']|] eqn:E.
  - destruct (take_line_some _ _ _ E) as [-> Hl']. rewrite app_assoc in H.
    rewrite read_spec_line in H by (rewrite nolf_app, Ht, Hl'; reflexivity).
    rewrite app_length. cbn [length].
    destruct (is_eod ((tl ++ l') ++ [10])).
    + injection H as _ <-. lia.
    + destruct (read_spec x') as [[d' r']|] eqn:R; [|discriminate]. injection H as _ <-.
      pose proof (read_spec_shorter _ _ _ R). lia.
  - apply take_line_none in E. rewrite nolf_read_none in H; [discriminate|].
    rewrite nolf_app, Ht, E. reflexivity.
Qed.

(* the end-of-data line of s ++ x lies behind s when s has none *)
Lemma rest_len s x d r : read_spec s = None -> read_spec (s ++ x) = Some (d, r) -> (length r <= length x)%nat.
Proof.
  intros Hn H. pose proof (rest_drop_lines s x Hn) as D. unfold rest_of in D. rewrite H in D.
  destruct (split_lf_spec s) as (_ & _ & Ht).
  destruct (read_spec (snd (split_lf s) ++ x)) as [[d' r']|] eqn:R; [|discriminate].
  injection D as ->. exact (nolf_prefix_rest _ _ _ _ Ht R).
Qed.

Lemma too_big_mono m a b : a <= b -> Data.too_big m a = true -> Data.too_big m b = true.
Proof. unfold Data.too_big. destruct m as [m|]; [|discriminate]. intros L H. lia. Qed.

(* trimming the reader state = restarting it on the unfinished line *)
Lemma trim_batch t : eod (batch t) = None -> trim (batch t) = batch (snd (split_lf t)).
Proof.
  destruct (split_lf_spec t) as (_ & _ & Ht).
  rewrite (batch_closed_form t), (batch_closed_form (snd (split_lf t))).
  rewrite (split_lf_nolf _ Ht). cbn [fst snd eod]. intros H. unfold trim. cbn [idx lines eod].
  rewrite H. cbn [app length find_eod done_lines]. f_equal.
  rewrite skipn_app, <- (done_lines_length (fst (split_lf t))), skipn_all, Nat.sub_diag. reflexivity.
Qed.

Lemma discard_eq st sock :
  discard_message st sock =
  match eod st with
  | Some e => DTooBig (after_eod st e) sock
  | None =>
      match sock with
      | [] => DLost
      | piece :: sock' =>
          match piece with
          | [] => DLost
          | _ :: _ => discard_message (add_lines piece (trim st)) sock'
          end
      end
  end.
Proof. destruct sock; reflexivity. Qed.

Lemma recv_loop_lim_eq ms size st sock :
  recv_loop_lim ms size st sock =
  if Data.too_big ms (msg_size size st) then discard_message st sock
  else
    match eod st with
    | Some e => let '(d, rb) := return_all st e in DOk d rb sock
    | None =>
        match sock with
        | [] => DLost
        | piece :: sock' =>
            match piece with
            | [] => DLost
            | _ :: _ => recv_loop_lim ms (size + N.of_nat (length piece)) (add_lines piece st) sock'
            end
        end
    end.
Proof. destruct sock; reflexivity. Qed.

Definition too_big_outcome (s : bytes) : option (option bytes * bytes) :=
  match read_spec s with Some (_, r) => Some (None, r) | None => None end.

Lemma too_big_outcome_rest s s' : rest_of s = rest_of s' -> too_big_outcome s = too_big_outcome s'.
Proof.
  unfold rest_of, too_big_outcome. destruct (read_spec s) as [[d r]|], (read_spec s') as [[d' r']|]; intros H; try discriminate; [|reflexivity].
  injection H as ->. reflexivity.
Qed.

Lemma after_eod_return st e : after_eod st e = snd (return_all st e).
Proof. reflexivity. Qed.

(* _discard_message: reads up to the end-of-data line, hands back the rest *)
Lemma discard_batch chunks : forall t, Forall nonempty chunks ->
  read_outcome (discard_message (batch t) chunks) = too_big_outcome (t ++ concat chunks).
Proof.
  induction chunks as [|c cs IH]; intros t NE; rewrite discard_eq; unfold too_big_outcome.
  - cbn [concat]. rewrite app_nil_r. destruct (eod (batch t)) as [e|] eqn:E.
    + rewrite (batch_some _ _ E). unfold return_all. cbn [read_outcome concat]. rewrite app_nil_r. reflexivity.
    + rewrite (batch_none _ E). reflexivity.
  - inversion NE as [|? ? NEc NEcs]; subst.
    destruct (eod (batch t)) as [e|] eqn:E.
    + pose proof (batch_some _ _ E) as B. unfold return_all in B.
      rewrite (read_spec_app_some _ (concat (c :: cs)) _ _ B). reflexivity.
    + destruct c as [|b c]; [exfalso; apply NEc; reflexivity|].
      rewrite (trim_batch _ E), <- batch_app, (IH _ NEcs).
      fold (too_big_outcome (t ++ concat ((b :: c) :: cs))).
      apply too_big_outcome_rest. cbn [concat]. rewrite <- app_assoc. symmetry.
      apply rest_drop_lines, batch_none, E.
Qed.

Lemma msg_size_batch s :
  msg_size (N.of_nat (length s)) (batch s) =
  match read_spec s with
  | Some (_, r) => N.of_nat (length s - length r)
  | None => N.of_nat (length s)
  end.
Proof.
  unfold msg_size. destruct (eod (batch s)) as [e|] eqn:E.
  - rewrite (batch_some _ _ E). unfold return_all. fold (after_eod (batch s) e).
    pose proof (batch_some _ _ E) as B. apply read_spec_shorter in B. unfold return_all in B. cbn [snd] in B.
    fold (after_eod (batch s) e) in B. lia.
  - rewrite (batch_none _ E). reflexivity.
Qed.

(* incremental = batch for the reader with the size limit *)
Lemma recv_loop_lim_batch m chunks : forall s, Forall nonempty chunks ->
  read_outcome (recv_loop_lim m (N.of_nat (length s)) (batch s) chunks) = read_spec_lim m (s ++ concat chunks).
Proof.
  induction chunks as [|c cs IH]; intros s NE; rewrite recv_loop_lim_eq.
  - pose proof (discard_batch [] s NE) as D. unfold too_big_outcome in D.
    cbn [concat] in *. rewrite app_nil_r in *.
    rewrite msg_size_batch. unfold read_spec_lim.
    destruct (eod (batch s)) as [e|] eqn:E.
    + pose proof (batch_some _ _ E) as B. destruct (return_all (batch s) e) as [d rb] eqn:RA.
      rewrite B in *. destruct (Data.too_big m _); [exact D|]. cbn [read_outcome concat]. rewrite app_nil_r. reflexivity.
    + rewrite (batch_none _ E) in *. destruct (Data.too_big m _); [exact D|reflexivity].
  - inversion NE as [|? ? NEc NEcs]; subst.
    pose proof (discard_batch (c :: cs) s NE) as D. unfold too_big_outcome in D.
    rewrite msg_size_batch. unfold read_spec_lim.
    destruct (eod (batch s)) as [e|] eqn:E.
    + pose proof (batch_some _ _ E) as B. destruct (return_all (batch s) e) as [d rb] eqn:RA.
      pose proof (read_spec_app_some _ (concat (c :: cs)) _ _ B) as B2.
      rewrite B. rewrite B2 in *.
      replace (length (s ++ concat (c :: cs)) - length (rb ++ concat (c :: cs)))%nat with (length s - length rb)%nat
        by (rewrite !app_length; apply read_spec_shorter in B; lia).
      destruct (Data.too_big m _); [exact D|reflexivity].
    + pose proof (batch_none _ E) as Bn. rewrite Bn.
      destruct (Data.too_big m (N.of_nat (length s))) eqn:TB.
      * rewrite D. destruct (read_spec (s ++ concat (c :: cs))) as [[d r]|] eqn:R; [|reflexivity].
        pose proof (rest_len _ _ _ _ Bn R) as L.
        rewrite (too_big_mono m (N.of_nat (length s)) (N.of_nat (length (s ++ concat (c :: cs)) - length r))); [reflexivity| |exact TB].
        rewrite app_length. lia.
      * destruct c as [|b c]; [exfalso; apply NEc; reflexivity|].
        rewrite <- batch_app.
        replace (N.of_nat (length s) + N.of_nat (length (b :: c))) with (N.of_nat (length (s ++ b :: c)))
          by (rewrite app_length; lia).
        rewrite (IH _ NEcs). unfold read_spec_lim. cbn [concat]. rewrite <- app_assoc. reflexivity.
Qed.

Lemma dr_recv_lim_batch m buf chunks : Forall nonempty chunks ->
  read_outcome (dr_recv_lim m buf chunks) = read_spec_lim m (buf ++ concat chunks).
Proof. intros H. unfold dr_recv_lim. apply (recv_loop_lim_batch m chunks buf H). Qed.

(* ---- exact consumption of the reader (also when the message is too big) ---- *)
Definition left_of (r : read_result) : option (bytes * list bytes) :=
  match r with
  | DOk _ rb sock => Some (rb, sock)
  | DTooBig rb sock => Some (rb, sock)
  | DLost => None
  end.

Lemma rest_of_batch_some t e : eod (batch t) = Some e -> rest_of t = Some (after_eod (batch t) e).
Proof. intros E. unfold rest_of. rewrite (batch_some _ _ E). reflexivity. Qed.

Lemma rest_of_batch_none t : eod (batch t) = None -> rest_of t = None.
Proof. intros E. unfold rest_of. rewrite (batch_none _ E). reflexivity. Qed.

Lemma discard_consumption chunks : forall t rb rest,
  left_of (discard_message (batch t) chunks) = Some (rb, rest) ->
  exists used, chunks = used ++ rest
    /\ rest_of (t ++ concat used) = Some rb
    /\ (used = [] \/ rest_of (t ++ concat (removelast used)) = None).
Proof.
  induction chunks as [|c cs IH]; intros t rb rest; rewrite discard_eq.
  - destruct (eod (batch t)) as [e|] eqn:E; [|discriminate].
    cbn [left_of]. intros H. injection H as <- <-. exists []. cbn [concat app]. rewrite app_nil_r.
    split; [reflexivity|]. split; [apply rest_of_batch_some, E|left; reflexivity].
  - destruct (eod (batch t)) as [e|] eqn:E.
    + cbn [left_of]. intros H. injection H as <- <-. exists []. cbn [concat app]. rewrite app_nil_r.
      split; [reflexivity|]. split; [apply rest_of_batch_some, E|left; reflexivity].
    + destruct c as [|b c]; [discriminate|].
      rewrite (trim_batch _ E), <- batch_app. intros H.
      destruct (IH _ _ _ H) as (used & E1 & E2 & E3). exists ((b :: c) :: used).
      pose proof (batch_none _ E) as Bn.
      split; [cbn [app]; f_equal; exact E1|].
      split; [cbn [concat]; rewrite (rest_drop_lines _ _ Bn), app_assoc; exact E2|].
      right. destruct used as [|u used].
      * cbn [removelast concat]. rewrite app_nil_r. apply rest_of_batch_none, E.
      * destruct E3 as [E3|E3]; [discriminate|].
        change (removelast ((b :: c) :: u :: used)) with ((b :: c) :: removelast (u :: used)).
        cbn [concat]. rewrite (rest_drop_lines _ _ Bn), app_assoc. exact E3.
Qed.

Lemma recv_loop_lim_consumption m chunks : forall s rb rest,
  left_of (recv_loop_lim m (N.of_nat (length s)) (batch s) chunks) = Some (rb, rest) ->
  exists used, chunks = used ++ rest
    /\ rest_of (s ++ concat used) = Some rb
    /\ (used = [] \/ rest_of (s ++ concat (removelast used)) = None).
Proof.
  induction chunks as [|c cs IH]; intros s rb rest; rewrite recv_loop_lim_eq.
  - destruct (Data.too_big m _); [apply discard_consumption|].
    destruct (eod (batch s)) as [e|] eqn:E; [|discriminate].
    pose proof (rest_of_batch_some _ _ E) as B. rewrite after_eod_return in B.
    destruct (return_all (batch s) e) as [d rb'].
    cbn [left_of]. intros H. injection H as <- <-. exists []. cbn [concat app]. rewrite app_nil_r. auto.
  - destruct (Data.too_big m _); [apply discard_consumption|].
    destruct (eod (batch s)) as [e|] eqn:E.
    + pose proof (rest_of_batch_some _ _ E) as B. rewrite after_eod_return in B.
      destruct (return_all (batch s) e) as [d rb'].
      cbn [left_of]. intros H. injection H as <- <-. exists []. cbn [concat app]. rewrite app_nil_r. auto.
    + destruct c as [|b c]; [discriminate|].
      rewrite <- batch_app.
      replace (N.of_nat (length s) + N.of_nat (length (b :: c))) with (N.of_nat (length (s ++ b :: c)))
        by (rewrite app_length; lia).
      intros H. destruct (IH _ _ _ H) as (used & E1 & E2 & E3). exists ((b :: c) :: used).
      split; [cbn [app]; f_equal; exact E1|]. split; [cbn [concat]; rewrite app_assoc; exact E2|].
      right. destruct used as [|u used].
      * cbn [removelast concat]. rewrite app_nil_r. apply rest_of_batch_none, E.
      * destruct E3 as [E3|E3]; [discriminate|].
        change (removelast ((b :: c) :: u :: used)) with ((b :: c) :: removelast (u :: used)).
        cbn [concat]. rewrite app_assoc. exact E3.
Qed.

Lemma dr_recv_lim_consumption m buf chunks rb rest :
  left_of (dr_recv_lim m buf chunks) = Some (rb, rest) ->
  exists used, chunks = used ++ rest
    /\ rest_of (buf ++ concat used) = Some rb
    /\ (used = [] \/ rest_of (buf ++ concat (removelast used)) = None).
Proof. unfold dr_recv_lim. apply recv_loop_lim_consumption. Qed.

(* without a limit, or below it, the reader is C05's *)
Lemma too_big_none a : Data.too_big None a = false.
Proof. reflexivity. Qed.

Lemma recv_loop_lim_none chunks : forall size size' st,
  recv_loop_lim None size st chunks =
  match recv_loop None size' st chunks with
  | ROk d rb sock => DOk d rb sock
  | RLost => DLost
  | RTooBig sock => DLost
  end.
Proof.
  induction chunks as [|c cs IH]; intros size size' st; rewrite recv_loop_lim_eq, recv_loop_eq; cbn [Data.too_big].
  - destruct (eod st); [destruct (return_all st n)|]; reflexivity.
  - destruct (eod st); [destruct (return_all st n); reflexivity|].
    destruct c; [reflexivity|]. apply IH.
Qed.

Lemma dr_recv_lim_none buf chunks :
  dr_recv_lim None buf chunks =
  match dr_recv None buf chunks with
  | ROk d rb sock => DOk d rb sock
  | RLost => DLost
  | RTooBig sock => DLost
  end.
Proof. unfold dr_recv_lim, dr_recv. apply recv_loop_lim_none. Qed.

(* ---- completeness of the batch specifications (converse of read_spec_sound) ---- *)
Definition content (ls : list bytes) : bytes := concat (map (fun l => undot (l ++ [10])) ls).
Definition no_eod (ls : list bytes) : bool := forallb (fun l => negb (is_eod (l ++ [10]))) ls.

Lemma read_spec_complete ls : forall e rest,
  forallb nolf ls = true -> nolf e = true -> no_eod ls = true -> is_eod (e ++ [10]) = true ->
  read_spec (unraw ls ++ (e ++ [10]) ++ rest) = Some (content ls, rest).
Proof.
  induction ls as [|l ls IH]; intros e rest Hl He Hn Hd.
  - cbn [unraw map concat app]. rewrite <- app_assoc. cbn [app]. rewrite read_spec_line by exact He.
    rewrite Hd. reflexivity.
  - cbn [forallb no_eod] in Hl, Hn. apply andb_true_iff in Hl, Hn. destruct Hl as [Hl Hls], Hn as [Hn Hns].
    rewrite unraw_cons, <- app_assoc. cbn [app]. rewrite read_spec_line by exact Hl.
    apply negb_true_iff in Hn. rewrite Hn. rewrite (IH e rest Hls He Hns Hd). reflexivity.
Qed.

Lemma read_spec_lim_complete mx ls e rest :
  forallb nolf ls = true -> nolf e = true -> no_eod ls = true -> is_eod (e ++ [10]) = true ->
  read_spec_lim mx (unraw ls ++ (e ++ [10]) ++ rest) =
  Some (if Data.too_big mx (N.of_nat (length (unraw ls ++ e ++ [10]))) then None else Some (content ls), rest).
Proof.
  intros Hl He Hn Hd. unfold read_spec_lim. rewrite (read_spec_complete ls e rest Hl He Hn Hd).
  replace (Nat.sub (length (unraw ls ++ (e ++ [10]) ++ rest)) (length rest)) with (length (unraw ls ++ e ++ [10]))
    by (rewrite !app_length; lia).
  destruct (Data.too_big mx _); reflexivity.
Qed.

(* ====================================================================== *)
(* C. the server loop                                                      *)
(* ====================================================================== *)

(* two stream representations whose consumers agree drive the command machine identically *)
Section Sim.
  Variables (S1 S2 : Type).
  Variable gl1 : S1 -> option (bytes * S1).
  Variable gl2 : S2 -> option (bytes * S2).
  Variable gd1 : option N -> S1 -> option (option bytes * S1).
  Variable gd2 : option N -> S2 -> option (option bytes * S2).
  Variable R : S1 -> S2 -> Prop.
  Hypothesis Hline : forall s1 s2, R s1 s2 ->
    match gl1 s1, gl2 s2 with
    | None, None => True
    | Some (l, s1'), Some (l', s2') => l = l' /\ R s1' s2'
    | _, _ => False
    end.
  Hypothesis Hdata : forall mx s1 s2, R s1 s2 ->
    match gd1 mx s1, gd2 mx s2 with
    | None, None => True
    | Some (d, s1'), Some (d', s2') => d = d' /\ R s1' s2'
    | _, _ => False
    end.

  Lemma loop_sim : forall fuel st envs s1 s2, R s1 s2 ->
    loop S1 gl1 gd1 fuel st envs s1 = loop S2 gl2 gd2 fuel st envs s2.
  Proof.
    induction fuel as [|fuel IH]; intros st envs s1 s2 HR; [reflexivity|].
    cbn [loop]. pose proof (Hline _ _ HR) as HL.
    destruct (gl1 s1) as [[l s1']|], (gl2 s2) as [[l' s2']|]; try contradiction; [|reflexivity].
    destruct HL as [<- HR1]. destruct (pop_env envs) as [e envs'].
    assert (EM : forall it (r : sstate * out) a b, R a b ->
      (let '(st', o) := r in
       match o_fin o with
       | Continue => let '(its, os, f) := loop S1 gl1 gd1 fuel st' envs' a in (it :: its, o :: os, f)
       | Closed => ([it], [o], SClosed)
       | Crashed => ([it], [o], SCrashed)
       end) =
      (let '(st', o) := r in
       match o_fin o with
       | Continue => let '(its, os, f) := loop S2 gl2 gd2 fuel st' envs' b in (it :: its, o :: os, f)
       | Closed => ([it], [o], SClosed)
       | Crashed => ([it], [o], SCrashed)
       end)).
    { intros it [st' o] a b Hab. destruct (o_fin o); try reflexivity.
      rewrite (IH st' envs' a b Hab). reflexivity. }
    destruct (reads_data st _).
    - pose proof (Hdata (x_size (ex st)) _ _ HR1) as HD.
      destruct (gd1 _ s1') as [[d a]|], (gd2 _ s2') as [[d' b]|]; try contradiction; [|reflexivity].
      destruct HD as [<- Hab]. destruct d; apply EM, Hab.
    - destruct (starttls_hook st _); [|apply EM, HR1].
      destruct (hook_out (n_tls e)) as [o|]; [|apply EM, HR1].
      exact (EM _ (st, o) _ _ HR1).
  Qed.
End Sim.

(* the incremental stream (recv_buffer, pieces) represents the byte string buf ++ concat pieces *)
Definition repr (s1 : istream) (s2 : bytes) : Prop :=
  Forall nonempty (snd s1) /\ fst s1 ++ concat (snd s1) = s2.

Lemma inc_line_repr s1 s2 : repr s1 s2 ->
  match inc_line s1, line_spec s2 with
  | None, None => True
  | Some (l, s1'), Some (l', s2') => l = l' /\ repr s1' s2'
  | _, _ => False
  end.
Proof.
  destruct s1 as [buf sock]. intros [NE <-]. cbn [fst snd] in *. unfold inc_line. cbn [fst snd].
  pose proof (recv_line_batch sock buf NE) as B.
  destruct (recv_line buf sock) as [l rb rest|] eqn:E; cbn [line_outcome] in B; rewrite <- B; [|exact I].
  split; [reflexivity|]. split; [|reflexivity]. cbn [snd].
  destruct (recv_line_consumption _ _ _ _ _ E) as (used & -> & _). exact (Forall_suffix _ _ _ NE).
Qed.

Lemma inc_data_repr mx s1 s2 : repr s1 s2 ->
  match inc_data mx s1, read_spec_lim mx s2 with
  | None, None => True
  | Some (d, s1'), Some (d', s2') => d = d' /\ repr s1' s2'
  | _, _ => False
  end.
Proof.
  destruct s1 as [buf sock]. intros [NE <-]. cbn [fst snd] in *. unfold inc_data. cbn [fst snd].
  pose proof (dr_recv_lim_batch mx buf sock NE) as B.
  pose proof (dr_recv_lim_consumption mx buf sock) as C.
  destruct (dr_recv_lim mx buf sock) as [d rb rest|rb rest|]; cbn [read_outcome left_of] in B, C; rewrite <- B; [| |exact I].
  - split; [reflexivity|]. split; [|reflexivity]. cbn [snd].
    destruct (C _ _ eq_refl) as (used & -> & _). exact (Forall_suffix _ _ _ NE).
  - split; [reflexivity|]. split; [|reflexivity]. cbn [snd].
    destruct (C _ _ eq_refl) as (used & -> & _). exact (Forall_suffix _ _ _ NE).
Qed.

(* MAIN: the server over any segmentation = the server over the concatenated stream *)
Lemma run_stream_batch fuel st envs buf chunks : Forall nonempty chunks ->
  run_stream fuel st envs buf chunks = run_batch fuel st envs (buf ++ concat chunks).
Proof.
  intros NE. unfold run_stream, run_batch.
  apply (loop_sim istream bytes inc_line line_spec inc_data read_spec_lim repr inc_line_repr inc_data_repr).
  split; [exact NE|reflexivity].
Qed.

Lemma run_server_stream_batch mx ctx vb envs buf chunks : Forall nonempty chunks ->
  run_server_stream mx ctx vb envs buf chunks = run_server_batch mx ctx vb envs (buf ++ concat chunks).
Proof.
  intros NE. unfold run_server_stream, run_server_batch, session.
  destruct (finish _) as [st1 o]. destruct (o_fin o); try reflexivity.
  cbn [fst snd]. rewrite (run_stream_batch _ _ _ _ _ NE). reflexivity.
Qed.

Lemma server_segmentation_independent mx ctx vb envs buf chunks buf' chunks' :
  Forall nonempty chunks -> Forall nonempty chunks' ->
  buf ++ concat chunks = buf' ++ concat chunks' ->
  run_server_stream mx ctx vb envs buf chunks = run_server_stream mx ctx vb envs buf' chunks'.
Proof. intros H H' E. rewrite !run_server_stream_batch by assumption. rewrite E. reflexivity. Qed.

(* ---- the fuel run_server_stream uses is enough ---- *)
Lemma read_spec_lim_shorter mx s d r : read_spec_lim mx s = Some (d, r) -> (length r < length s)%nat.
Proof.
  unfold read_spec_lim. destruct (read_spec s) as [[d' r']|] eqn:E; [|discriminate].
  apply read_spec_shorter in E. destruct (Data.too_big mx _); intros H; injection H as _ <-; exact E.
Qed.

Lemma run_batch_fuel fuel : forall st envs s, (length s < fuel)%nat ->
  snd (run_batch fuel st envs s) <> SFuel.
Proof.
  unfold run_batch. induction fuel as [|fuel IH]; intros st envs s L; [lia|].
  cbn [loop]. destruct (line_spec s) as [[raw s1]|] eqn:E; [|cbn; discriminate].
  apply line_spec_shorter in E. destruct (pop_env envs) as [e envs'].
  assert (EM : forall it (r : sstate * out) s2, (length s2 < fuel)%nat ->
    snd (let '(st', o) := r in
         match o_fin o with
         | Continue => let '(its, os, f) := loop bytes line_spec read_spec_lim fuel st' envs' s2 in (it :: its, o :: os, f)
         | Closed => ([it], [o], SClosed)
         | Crashed => ([it], [o], SCrashed)
         end) <> SFuel).
  { intros it [st' o] s2 L2. destruct (o_fin o); try (cbn; discriminate).
    specialize (IH st' envs' s2 L2). destruct (loop bytes line_spec read_spec_lim fuel st' envs' s2) as [[its os] f]. exact IH. }
  destruct (reads_data st _).
  - destruct (read_spec_lim _ s1) as [[d s2]|] eqn:R; [|cbn; discriminate].
    apply read_spec_lim_shorter in R. destruct d; apply EM; lia.
  - destruct (starttls_hook st _); [|apply EM; lia].
    destruct (hook_out (n_tls e)) as [o|]; [|apply EM; lia].
    apply (EM _ (st, o)). lia.
Qed.

Lemma run_server_batch_fuel mx ctx vb envs s : snd (run_server_batch mx ctx vb envs s) <> SFuel.
Proof.
  unfold run_server_batch, session. destruct (finish _) as [st1 o]. destruct (o_fin o); try (cbn; discriminate).
  pose proof (run_batch_fuel (enough_fuel s) st1 envs s) as F. unfold enough_fuel in *.
  destruct (run_batch _ st1 envs s) as [[its os] f]. apply F. lia.
Qed.

Lemma run_server_stream_fuel mx ctx vb envs buf chunks : Forall nonempty chunks ->
  snd (run_server_stream mx ctx vb envs buf chunks) <> SFuel.
Proof. intros NE. rewrite (run_server_stream_batch _ _ _ _ _ _ NE). apply run_server_batch_fuel. Qed.

(* ---- connection with C07: the items the front end produced, fed to run_session, give the same outputs ---- *)
Definition fin_of (f : sfin) : fin :=
  match f with SClosed => Closed | SCrashed => Crashed | _ => Continue end.

Definition complete (f : sfin) : Prop := f = SClosed \/ f = SCrashed \/ f = SLost.

(* no handlers.STARTTLS hook interferes (the real SmtpSession has none): C07's setting *)
Definition no_hook (envs : list env) : Prop := Forall (fun e => n_tls e = VKeep) envs.

Lemma pop_env_no_hook envs e envs' : no_hook envs -> pop_env envs = (e, envs') -> n_tls e = VKeep /\ no_hook envs'.
Proof.
  unfold no_hook. destruct envs as [|e0 envs0]; cbn [pop_env]; intros H E; injection E as <- <-.
  - split; [reflexivity|constructor].
  - inversion H; subst. split; assumption.
Qed.

Lemma hook_out_keep : hook_out VKeep = None.
Proof. reflexivity. Qed.

Section Conn.
  Variable S : Type.
  Variable gl : S -> option (bytes * S).
  Variable gd : option N -> S -> option (option bytes * S).

  Lemma loop_run_loop : forall fuel st envs s its os f,
    no_hook envs ->
    loop S gl gd fuel st envs s = (its, os, f) -> complete f ->
    exists stf, run_loop st its = (os, stf, fin_of f).
  Proof.
    induction fuel as [|fuel IH]; intros st envs s its os f NH.
    - cbn [loop]. intros H [C|[C|C]]; injection H as <- <- <-; discriminate.
    - cbn [loop]. destruct (gl s) as [[raw s1]|].
      2:{ intros H _. injection H as <- <- <-. exists st. reflexivity. }
      destruct (pop_env envs) as [e envs'] eqn:PE. destruct (pop_env_no_hook _ _ _ NH PE) as [He NH'].
      assert (GO : forall it s2,
        (let '(st', o) := step st it in
         match o_fin o with
         | Continue => let '(its, os, f) := loop S gl gd fuel st' envs' s2 in (it :: its, o :: os, f)
         | Closed => ([it], [o], SClosed)
         | Crashed => ([it], [o], SCrashed)
         end) = (its, os, f) -> complete f -> exists stf, run_loop st its = (os, stf, fin_of f)).
      { intros it s2. destruct (step st it) as [st' o] eqn:ST. destruct (o_fin o) eqn:OF.
        - destruct (loop S gl gd fuel st' envs' s2) as [[its' os'] f'] eqn:L.
          intros H C. injection H as <- <- <-. destruct (IH _ _ _ _ _ _ NH' L C) as [stf R].
          exists stf. cbn [run_loop]. rewrite ST, OF, R. reflexivity.
        - intros H _. injection H as <- <- <-. exists st'. cbn [run_loop]. rewrite ST, OF. reflexivity.
        - intros H _. injection H as <- <- <-. exists st'. cbn [run_loop]. rewrite ST, OF. reflexivity. }
      destruct (reads_data st _).
      + destruct (gd _ s1) as [[d s2]|].
        * destruct d; apply GO.
        * intros H [C|[C|C]]; injection H as <- <- <-; discriminate.
      + rewrite He, hook_out_keep. destruct (starttls_hook st _); apply GO.
  Qed.

  (* a session cut off inside the message content: everything before the DATA line is a
     complete C07 run, the DATA line was accepted there *)
  Lemma loop_run_loop_in_data : forall fuel st envs s its os,
    no_hook envs ->
    loop S gl gd fuel st envs s = (its, os, SLostInData) ->
    exists its0 os0 it stf, its = its0 ++ [it] /\ os = os0 ++ [data_started]
      /\ run_loop st its0 = (os0, stf, Continue) /\ reads_data stf it = true.
  Proof.
    induction fuel as [|fuel IH]; intros st envs s its os NH.
    - cbn [loop]. discriminate.
    - cbn [loop]. destruct (gl s) as [[raw s1]|]; [|discriminate].
      destruct (pop_env envs) as [e envs'] eqn:PE. destruct (pop_env_no_hook _ _ _ NH PE) as [He NH'].
      assert (GO : forall it s2,
        (let '(st', o) := step st it in
         match o_fin o with
         | Continue => let '(its, os, f) := loop S gl gd fuel st' envs' s2 in (it :: its, o :: os, f)
         | Closed => ([it], [o], SClosed)
         | Crashed => ([it], [o], SCrashed)
         end) = (its, os, SLostInData) ->
        exists its0 os0 it stf, its = its0 ++ [it] /\ os = os0 ++ [data_started]
          /\ run_loop st its0 = (os0, stf, Continue) /\ reads_data stf it = true).
      { intros it s2. destruct (step st it) as [st' o] eqn:ST. destruct (o_fin o) eqn:OF; [|discriminate|discriminate].
        destruct (loop S gl gd fuel st' envs' s2) as [[its' os'] f'] eqn:L.
        intros H. injection H as <- <- ->. destruct (IH _ _ _ _ _ NH' L) as (its0 & os0 & it1 & stf & -> & -> & R & D).
        exists (it :: its0), (o :: os0), it1, stf. repeat split; [| exact D].
        cbn [run_loop]. rewrite ST, OF, R. reflexivity. }
      destruct (reads_data st _) eqn:RD.
      + destruct (gd _ s1) as [[d s2]|].
        * destruct d; apply GO.
        * intros H. injection H as <- <-. eexists [], [], _, st. repeat split. exact RD.
      + rewrite He, hook_out_keep. destruct (starttls_hook st _); apply GO.
  Qed.
End Conn.

Lemma out_eta o : {| o_replies := o_replies o; o_events := o_events o; o_fin := o_fin o |} = o.
Proof. destruct o; reflexivity. Qed.

Lemma run_session_stream_cfg mx ctx vb its :
  run_session (stream_cfg mx ctx) vb its =
  let '(st2, o) := finish (command_BANNER vb (init_state (stream_cfg mx ctx))) in
  match o_fin o with
  | Continue => let '(os, stf, f) := run_loop st2 its in (o :: os, stf, f)
  | f => ([o], st2, f)
  end.
Proof.
  unfold run_session. change (cfg_tls_immediately (stream_cfg mx ctx)) with false.
  rewrite !andb_false_r. cbn [andb app].
  destruct (finish (command_BANNER vb (init_state (stream_cfg mx ctx)))) as [st2 o].
  rewrite out_eta. reflexivity.
Qed.

(* for a handlers object without a STARTTLS hook (the real SmtpSession: C07's setting) *)
Lemma stream_refines_session mx ctx vb envs buf chunks its os f :
  no_hook envs ->
  run_server_stream mx ctx vb envs buf chunks = (its, os, f) -> complete f ->
  exists stf, run_session (stream_cfg mx ctx) vb its = (os, stf, fin_of f).
Proof.
  intros NH. rewrite run_session_stream_cfg. unfold run_server_stream, session, run_stream.
  destruct (finish (command_BANNER vb (init_state (stream_cfg mx ctx)))) as [st1 o].
  destruct (o_fin o) eqn:OF.
  - cbn [fst snd]. destruct (loop istream inc_line inc_data (enough_fuel (buf ++ concat chunks)) st1 envs (buf, chunks)) as [[its' os'] f'] eqn:L.
    intros H C. injection H as <- <- <-.
    destruct (loop_run_loop _ _ _ _ _ _ _ _ _ _ NH L C) as [stf R]. exists stf. rewrite R. reflexivity.
  - intros H _. injection H as <- <- <-. exists st1. reflexivity.
  - intros H _. injection H as <- <- <-. exists st1. reflexivity.
Qed.

(* hence C07's theorems hold of the stream server; e.g. the callbacks stay in protocol order
   however the client bytes are cut *)
Lemma stream_callbacks_in_order mx ctx vb envs buf chunks :
  no_hook envs ->
  complete (snd (run_server_stream mx ctx vb envs buf chunks)) ->
  accepts (events_of (snd (fst (run_server_stream mx ctx vb envs buf chunks)))) = true.
Proof.
  intros NH. destruct (run_server_stream mx ctx vb envs buf chunks) as [[its os] f] eqn:E. cbn [fst snd]. intros C.
  destruct (stream_refines_session _ _ _ _ _ _ _ _ _ NH E C) as [stf R].
  pose proof (Server_lemmas.callbacks_in_order (stream_cfg mx ctx) vb its) as A. unfold Server_lemmas.all_events in A. rewrite R in A. exact A.
Qed.

(* ---- the front end's DATA decision is C07's ---- *)
Lemma is_close_354 : is_close 354 = false.
Proof. reflexivity. Qed.

(* when the front end calls the reader, the command machine answers 354 first and calls DATA ... *)
Lemma reads_data_true st it : reads_data st it = true ->
  exists rs es, o_replies (snd (step st it)) = 354 :: rs
             /\ o_events (snd (step st it)) = EvCall KData [] [] (Some 354) :: es.
Proof.
  unfold reads_data, step, handle_command. destruct (classify (it_line it)); try discriminate.
  unfold command_DATA. intros H. apply andb_true_iff in H. destruct H as [H H4].
  apply andb_true_iff in H. destruct H as [H H3]. apply andb_true_iff in H. destruct H as [H1 H2].
  apply negb_true_iff in H1. rewrite H1, H2, H3. cbn [negb orb].
  destruct (apply_verdict (it_v1 it) 354) as [c|]; [|discriminate]. apply N.eqb_eq in H4. subst c.
  rewrite is_close_354. cbn [N.eqb Pos.eqb]. unfold get_message_data.
  destruct (session_HAVE_DATA st it) as [[e2 evs] oc]. destruct oc as [c|].
  - unfold finish, mk. cbn [r_exc r_fam r_replies r_events r_st]. destruct (close_exc c); cbn [snd o_replies o_events app]; eauto.
  - unfold finish, mkx. cbn [r_exc r_fam r_replies r_events r_st]. destruct (have_data_fam st it); cbn [snd o_replies o_events app]; eauto.
Qed.

(* ... and when it does not, the message fields of the item are not looked at *)
Lemma reads_data_false st e l d w : reads_data st (mk_item e l [] 0) = false ->
  step st (mk_item e l d w) = step st (mk_item e l [] 0).
Proof.
  unfold reads_data, step, handle_command. cbn [mk_item it_line it_v1 it_tls_ok it_au_resps it_au].
  destruct (classify l); try reflexivity.
  unfold command_DATA. cbn [mk_item it_v1].
  destruct (Server.nonempty (l_arg l)); [reflexivity|].
  destruct (s_mail (sv st)); [|reflexivity]. destruct (s_rcpt (sv st)); [|reflexivity]. cbn [negb orb andb].
  destruct (apply_verdict (n_v1 e) 354) as [c|]; [|reflexivity].
  destruct (is_close c); [reflexivity|]. intros H. rewrite H. reflexivity.
Qed.

(* MessageTooBig <-> C07's too-big flag *)
Lemma over_limit_too_big x sz : Data.too_big (x_size x) sz = true -> Server.too_big x (over_limit (x_size x)) = true.
Proof.
  unfold Data.too_big, Server.too_big, over_limit. destruct (x_size x) as [m|]; [|discriminate]. intros H. lia.
Qed.
Lemma zero_not_too_big x : Server.too_big x 0 = false.
Proof. unfold Server.too_big. destruct (x_size x) as [m|]; [|reflexivity]. lia. Qed.

(* ---- one DATA transaction on the stream ---- *)
Definition wf_body (ls : list bytes) (e : bytes) : Prop :=
  forallb nolf ls = true /\ nolf e = true /\ no_eod ls = true /\ is_eod (e ++ [10]) = true.

(* the item the command machine is given for the DATA line dl followed by the body ls, e *)
Definition data_item (st : sstate) (en : env) (dl : bytes) (ls : list bytes) (e : bytes) : item :=
  if Data.too_big (x_size (ex st)) (N.of_nat (length (unraw ls ++ e ++ [10])))
  then mk_item en (parse_line (strip_cr dl)) [] (over_limit (x_size (ex st)))
  else mk_item en (parse_line (strip_cr dl)) (content ls) 0.

Definition after_item {S : Type} (it : item) (st : sstate)
           (k : sstate -> list item * list out * sfin) : list item * list out * sfin :=
  let '(st', o) := step st it in
  match o_fin o with
  | Continue => let '(its, os, f) := k st' in (it :: its, o :: os, f)
  | Closed => ([it], [o], SClosed)
  | Crashed => ([it], [o], SCrashed)
  end.

Lemma data_transaction_batch fuel st en envs dl ls e rest :
  nolf dl = true -> wf_body ls e ->
  reads_data st (mk_item en (parse_line (strip_cr dl)) [] 0) = true ->
  run_batch (S fuel) st (en :: envs) (dl ++ 10 :: unraw ls ++ (e ++ [10]) ++ rest) =
  after_item (S:=bytes) (data_item st en dl ls e) st (fun st' => run_batch fuel st' envs rest).
Proof.
  intros Hdl (Hl & He & Hn & Hd) RD. unfold run_batch. cbn [loop].
  rewrite (line_spec_line _ _ Hdl). cbn [pop_env]. rewrite RD.
  rewrite (read_spec_lim_complete _ ls e rest Hl He Hn Hd). unfold after_item, data_item.
  destruct (Data.too_big (x_size (ex st)) _); reflexivity.
Qed.

Lemma data_transaction fuel st en envs dl ls e rest buf chunks :
  Forall nonempty chunks ->
  buf ++ concat chunks = dl ++ 10 :: unraw ls ++ (e ++ [10]) ++ rest ->
  nolf dl = true -> wf_body ls e ->
  reads_data st (mk_item en (parse_line (strip_cr dl)) [] 0) = true ->
  run_stream (S fuel) st (en :: envs) buf chunks =
  after_item (S:=bytes) (data_item st en dl ls e) st (fun st' => run_batch fuel st' envs rest).
Proof.
  intros NE E Hdl WF RD. rewrite (run_stream_batch _ _ _ _ _ NE), E. apply data_transaction_batch; assumption.
Qed.

(* C09_content_not_executed: the lines handed to the command parser are the DATA line and then
   the lines of what FOLLOWS the end-of-data line; no line of the body, whatever it looks like *)
Lemma content_not_executed fuel st en envs dl ls e rest buf chunks :
  Forall nonempty chunks ->
  buf ++ concat chunks = dl ++ 10 :: unraw ls ++ (e ++ [10]) ++ rest ->
  nolf dl = true -> wf_body ls e ->
  reads_data st (mk_item en (parse_line (strip_cr dl)) [] 0) = true ->
  exists it st' o, step st it = (st', o) /\ it_line it = parse_line (strip_cr dl) /\
    map it_line (fst (fst (run_stream (S fuel) st (en :: envs) buf chunks))) =
    parse_line (strip_cr dl) ::
    match o_fin o with
    | Continue => map it_line (fst (fst (run_batch fuel st' envs rest)))
    | _ => []
    end.
Proof.
  intros NE E Hdl WF RD. rewrite (data_transaction _ _ _ _ _ _ _ _ _ _ NE E Hdl WF RD).
  exists (data_item st en dl ls e). unfold after_item.
  destruct (step st (data_item st en dl ls e)) as [st' o] eqn:ST. exists st', o.
  assert (IL : it_line (data_item st en dl ls e) = parse_line (strip_cr dl))
    by (unfold data_item; destruct (Data.too_big _ _); reflexivity).
  split; [reflexivity|]. split; [exact IL|].
  destruct (o_fin o).
  - destruct (run_batch fuel st' envs rest) as [[its os] f]. cbn [fst map]. rewrite IL. reflexivity.
  - cbn [fst map]. rewrite IL. reflexivity.
  - cbn [fst map]. rewrite IL. reflexivity.
Qed.

(* C09_commands_not_swallowed: the content given to the HAVE_DATA callback is exactly the body
   lines in front of the end-of-data line (or nothing, when it is over the limit), and the
   command parser continues with EVERY byte behind the end-of-data line *)
Lemma commands_not_swallowed fuel st en envs dl ls e rest buf chunks :
  Forall nonempty chunks ->
  buf ++ concat chunks = dl ++ 10 :: unraw ls ++ (e ++ [10]) ++ rest ->
  nolf dl = true -> wf_body ls e ->
  reads_data st (mk_item en (parse_line (strip_cr dl)) [] 0) = true ->
  exists it, run_stream (S fuel) st (en :: envs) buf chunks =
             after_item (S:=bytes) it st (fun st' => run_stream fuel st' envs rest []) /\
    (if Data.too_big (x_size (ex st)) (N.of_nat (length (unraw ls ++ e ++ [10])))
     then it_data it = [] /\ Server.too_big (ex st) (it_wire it) = true
     else it_data it = content ls /\ Server.too_big (ex st) (it_wire it) = false).
Proof.
  intros NE E Hdl WF RD. exists (data_item st en dl ls e). split.
  - rewrite (data_transaction _ _ _ _ _ _ _ _ _ _ NE E Hdl WF RD). unfold after_item.
    destruct (step st (data_item st en dl ls e)) as [st' o]. destruct (o_fin o); try reflexivity.
    rewrite (run_stream_batch fuel st' envs rest [] (Forall_nil _)). cbn [concat]. rewrite app_nil_r. reflexivity.
  - unfold data_item. destruct (Data.too_big (x_size (ex st)) _) eqn:TB; cbn [mk_item it_data it_wire].
    + split; [reflexivity|]. exact (over_limit_too_big _ _ TB).
    + split; [reflexivity|]. apply zero_not_too_big.
Qed.

(* ---- STARTTLS that does not lead to a handshake leaves the stream alone ---- *)
Lemma reads_data_not_starttls st it : reads_data st it = true -> starttls_hook st it = false.
Proof. unfold reads_data, starttls_hook. destruct (classify (it_line it)); try discriminate. reflexivity. Qed.

(* A STARTTLS line the handlers.STARTTLS hook refuses (any code but 220 that does not close the
   session): whatever the client pipelined behind it - in the same recv() or later - is the
   input of the following commands, all of it; the session state is unchanged. *)
Lemma starttls_refused_batch fuel st en envs l rest o :
  nolf l = true ->
  starttls_hook st (mk_item en (parse_line (strip_cr l)) [] 0) = true ->
  hook_out (n_tls en) = Some o -> o_fin o = Continue ->
  run_batch (S fuel) st (en :: envs) (l ++ 10 :: rest) =
  (let '(its, os, f) := run_batch fuel st envs rest in
   (mk_item en (parse_line (strip_cr l)) [] 0 :: its, o :: os, f)).
Proof.
  intros Hl SH HO OF. unfold run_batch. cbn [loop]. rewrite (line_spec_line _ _ Hl). cbn [pop_env].
  destruct (reads_data st _) eqn:RD; [apply reads_data_not_starttls in RD; rewrite RD in SH; discriminate|].
  rewrite SH, HO, OF. reflexivity.
Qed.

Lemma starttls_refused fuel st en envs l rest o buf chunks :
  Forall nonempty chunks -> buf ++ concat chunks = l ++ 10 :: rest ->
  nolf l = true ->
  starttls_hook st (mk_item en (parse_line (strip_cr l)) [] 0) = true ->
  hook_out (n_tls en) = Some o -> o_fin o = Continue ->
  run_stream (S fuel) st (en :: envs) buf chunks =
  (let '(its, os, f) := run_stream fuel st envs rest [] in
   (mk_item en (parse_line (strip_cr l)) [] 0 :: its, o :: os, f)).
Proof.
  intros NE E Hl SH HO OF. rewrite (run_stream_batch _ _ _ _ _ NE), E.
  rewrite (run_stream_batch fuel st envs rest [] (Forall_nil _)). cbn [concat]. rewrite app_nil_r.
  apply starttls_refused_batch; assumption.
Qed.

(* the other clear-text arms (not offered 500, argument 501, before EHLO 503) are arms of C07's
   `step`, which never sees the stream: covered by run_stream_batch like every other command *)

(* ====================================================================== *)
(* D. examples: the hypotheses are satisfiable by non-trivial values       *)
(* ====================================================================== *)

(* "EHLO a" "MAIL FROM:<s>" "RCPT TO:<r>" "DATA" / body: "MAIL FROM:<x>" "..", "QUIT" / "." / "NOOP" "QUIT" *)
Definition ex_stream : bytes := [69; 72; 76; 79; 32; 97; 13; 10; 77; 65; 73; 76; 32; 70; 82; 79; 77; 58; 60; 115; 62; 13; 10; 82; 67; 80; 84; 32; 84; 79; 58; 60; 114; 62; 13; 10; 68; 65; 84; 65; 13; 10; 77; 65; 73; 76; 32; 70; 82; 79; 77; 58; 60; 120; 62; 13; 10; 46; 46; 13; 10; 81; 85; 73; 84; 13; 10; 46; 13; 10; 78; 79; 79; 80; 13; 10; 81; 85; 73; 84; 13; 10].
Definition bytewise (s : bytes) : list bytes := map (fun b => [b]) s.

Lemma bytewise_nonempty s : Forall nonempty (bytewise s).
Proof. induction s; constructor; [discriminate|assumption]. Qed.
Lemma concat_bytewise s : concat (bytewise s) = s.
Proof. induction s as [|b s IH]; [reflexivity|]. unfold bytewise in *. cbn [map concat app]. rewrite IH. reflexivity. Qed.


(* one burst and byte by byte; limit 100: the message is accepted; its content holds the
   command-looking lines; the NOOP and QUIT behind the end-of-data line are executed *)
Example ex_segmentation_hyps :
  Forall nonempty [ex_stream] /\ Forall nonempty (bytewise (skipn 3 ex_stream))
  /\ [] ++ concat [ex_stream] = firstn 3 ex_stream ++ concat (bytewise (skipn 3 ex_stream))
  /\ observable (run_server_stream (Some 100) false VKeep [] [] [ex_stream]) =
     ([220; 250; 250; 250; 354; 250; 250; 221],
      [EvCall KBanner [] [] (Some 220); EvCall KEhlo [97] [] (Some 250);
       EvCall KMail [115] [] (Some 250); EvCall KRcpt [114] [] (Some 250);
       EvCall KData [] [] (Some 354); EvQueue [115] [[114]];
       EvCall KHaveData [77; 65; 73; 76; 32; 70; 82; 79; 77; 58; 60; 120; 62; 13; 10; 46; 13; 10; 81; 85; 73; 84; 13; 10] [] (Some 250)], SClosed).
Proof.
  split; [repeat constructor; discriminate|]. split; [apply bytewise_nonempty|].
  split; [rewrite concat_bytewise; vm_compute; reflexivity|]. vm_compute. reflexivity.
Qed.

(* limit 20 (the message has 27 bytes up to and including its end-of-data line): 552, no
   content, and still exactly NOOP and QUIT are executed next - for every segmentation *)
Example ex_over_size :
  observable (run_server_stream (Some 20) false VKeep [] [] [ex_stream]) =
    ([220; 250; 250; 250; 354; 552; 250; 221],
     [EvCall KBanner [] [] (Some 220); EvCall KEhlo [97] [] (Some 250);
      EvCall KMail [115] [] (Some 250); EvCall KRcpt [114] [] (Some 250);
      EvCall KData [] [] (Some 354); EvCall KHaveData [] [] (Some 552)], SClosed)
  /\ run_server_stream (Some 20) false VKeep [] (firstn 40 ex_stream) (bytewise (skipn 40 ex_stream))
     = run_server_stream (Some 20) false VKeep [] [] [ex_stream].
Proof. split; vm_compute; reflexivity. Qed.

(* empty message, pipelined *)
Example ex_empty_message :
  let s := firstn 42 ex_stream ++ [46; 13; 10] ++ skipn 70 ex_stream in   (* ... DATA . NOOP QUIT *)
  replies_of (snd (fst (run_server_stream (Some 20) false VKeep [] [] [s]))) = [220; 250; 250; 250; 354; 250; 250; 221]
  /\ map it_data (fst (fst (run_server_stream (Some 20) false VKeep [] [] (bytewise s)))) = [[]; []; []; []; []; []].
Proof. cbv zeta. split; vm_compute; reflexivity. Qed.

(* the state after "EHLO a", "MAIL FROM:<s>", "RCPT TO:<r>" *)
Definition ex_line_item (raw : bytes) : item := mk_item env_default (parse_line raw) [] 0.
Definition ex_st_tx : sstate :=
  let st0 := fst (finish (command_BANNER VKeep (init_state (stream_cfg (Some 20) false)))) in
  let st1 := fst (step st0 (ex_line_item [69; 72; 76; 79; 32; 97])) in
  let st2 := fst (step st1 (ex_line_item [77; 65; 73; 76; 32; 70; 82; 79; 77; 58; 60; 115; 62])) in
  fst (step st2 (ex_line_item [82; 67; 80; 84; 32; 84; 79; 58; 60; 114; 62])).

Example ex_transaction_hyps :
  let dl := [68; 65; 84; 65; 13] in                                       (* "DATA\r" *)
  let ls := [[77; 65; 73; 76; 32; 70; 82; 79; 77; 58; 60; 120; 62; 13]; [46; 46; 13]; [81; 85; 73; 84; 13]] in                    (* "MAIL FROM:<x>\r" "..\r" "QUIT\r" *)
  let e := [46; 13] in
  let rest := skipn 70 ex_stream in                                       (* NOOP QUIT *)
  skipn 36 ex_stream = dl ++ 10 :: unraw ls ++ (e ++ [10]) ++ rest
  /\ nolf dl = true /\ wf_body ls e
  /\ reads_data ex_st_tx (mk_item env_default (parse_line (strip_cr dl)) [] 0) = true
  /\ Data.too_big (x_size (ex ex_st_tx)) (N.of_nat (length (unraw ls ++ e ++ [10]))) = true
  /\ content ls = [77; 65; 73; 76; 32; 70; 82; 79; 77; 58; 60; 120; 62; 13; 10; 46; 13; 10; 81; 85; 73; 84; 13; 10].
Proof. cbv zeta. unfold wf_body. repeat split; vm_compute; reflexivity. Qed.

Example ex_recv_line : recv_line [78; 79] [[79; 80; 13]; [10; 81]; [85]] = LLine [78; 79; 79; 80] [81] [[85]].
Proof. reflexivity. Qed.

Example ex_reader_too_big :
  dr_recv_lim (Some 5) [97; 97] [[97; 97; 13; 10; 98]; [98; 98; 10; 46]; [13; 10; 81; 10]; [82]] = DTooBig [81; 10] [[82]]
  /\ dr_recv_lim (Some 50) [97; 97] [[97; 97; 13; 10; 98]; [98; 98; 10; 46]; [13; 10; 81; 10]; [82]]
     = DOk [97; 97; 97; 97; 13; 10; 98; 98; 98; 10] [81; 10] [[82]].
Proof. split; reflexivity. Qed.

(* D13 as it was: model/Data.v's dr_recv with a limit is the reader BEFORE the repair
   (size counts socket pieces, stops at the first oversize piece).  The same byte stream
   "aaaa\r\n.\r\nQUIT\r\n" with limit 9: read in one piece it is too big and the QUIT is lost
   with it; with the 9 message bytes already buffered it is accepted. *)
Lemma old_reader_segmentation_dependent :
  let s := [97; 97; 97; 97; 13; 10; 46; 13; 10; 81; 85; 73; 84; 13; 10] in
  dr_recv (Some 9) [] [s] = RTooBig []
  /\ dr_recv (Some 9) (firstn 9 s) [skipn 9 s] = ROk [97; 97; 97; 97; 13; 10] [] [[81; 85; 73; 84; 13; 10]]
  /\ dr_recv_lim (Some 9) [] [s] = DOk [97; 97; 97; 97; 13; 10] [81; 85; 73; 84; 13; 10] []
  /\ dr_recv_lim (Some 8) (firstn 3 s) [skipn 3 s] = DTooBig [81; 85; 73; 84; 13; 10] [].
Proof. cbv zeta. repeat split; vm_compute; reflexivity. Qed.

(* "EHLO a" "STARTTLS" refused with 454 by the hook, "NOOP" "QUIT" glued behind it *)
Definition ex_tls_stream : bytes :=
  [69; 72; 76; 79; 32; 97; 13; 10; 83; 84; 65; 82; 84; 84; 76; 83; 13; 10; 78; 79; 79; 80; 13; 10; 81; 85; 73; 84; 13; 10].
Definition ex_hook_env : env := {| n_v1 := VKeep; n_v2 := VKeep; n_v3 := VKeep; n_q := QOk; n_tls := VCode 454 |}.
Example ex_starttls_refused :
  replies_of (snd (fst (run_server_stream None true VKeep [ex_hook_env; ex_hook_env] [] [ex_tls_stream]))) = [220; 250; 454; 250; 221]
  /\ run_server_stream None true VKeep [ex_hook_env; ex_hook_env] [] (bytewise ex_tls_stream)
     = run_server_stream None true VKeep [ex_hook_env; ex_hook_env] [] [ex_tls_stream]
  /\ replies_of (snd (fst (run_server_stream None true VKeep [] [] [ex_tls_stream]))) = [220; 250; 220; 421]
  /\ replies_of (snd (fst (run_server_stream None false VKeep [ex_hook_env; ex_hook_env] [] [ex_tls_stream]))) = [220; 250; 500; 250; 221].
Proof. repeat split; vm_compute; reflexivity. Qed.

Example ex_starttls_refused_hyps :
  let st := fst (step (fst (finish (command_BANNER VKeep (init_state (stream_cfg None true))))) (ex_line_item [69; 72; 76; 79; 32; 97])) in
  starttls_hook st (mk_item ex_hook_env (parse_line (strip_cr [83; 84; 65; 82; 84; 84; 76; 83; 13])) [] 0) = true
  /\ exists o, hook_out (n_tls ex_hook_env) = Some o /\ o_fin o = Continue /\ o_replies o = [454].
Proof. cbv zeta. split; [vm_compute; reflexivity|]. eexists. repeat split. Qed.
