(* C02 - proofs about model/Edge.v *)
From Coq Require Import List NArith Bool Lia ZifyBool ZifyN.
From SV Require Import model.Edge.
Import ListNotations.
Open Scope N_scope.

(* ------------------------------------------------------------ reply codes *)
Lemma first_is_excl : forall d1 d2 c, first_is d1 c = true -> d1 <> d2 -> first_is d2 c = false.
Proof.
  intros d1 d2 [|x c] H Hne; cbn in *; [discriminate|].
  apply N.eqb_eq in H. subst x. apply N.eqb_neq. exact Hne.
Qed.

Lemma is_error_not_class2 : forall c, is_error c = true -> class2 c = false.
Proof.
  intros c H. unfold is_error in H. unfold class2.
  apply orb_true_iff in H. destruct H as [H|H];
    eapply first_is_excl; try exact H; discriminate.
Qed.

Lemma code_451_is_error : is_error code_451 = true.
Proof. reflexivity. Qed.

Lemma usable_is_error : forall r c, usable r = Some c -> is_error c = true.
Proof.
  intros [[c0|]] c H; unfold usable in H; cbn in H; [|discriminate].
  destruct c0 as [|x c0]; [discriminate|].
  destruct (is_error (x :: c0)) eqn:E; [|discriminate].
  injection H as <-. exact E.
Qed.

Lemma failure_reply_is_error : forall rs c, failure_reply rs = Some c -> is_error c = true.
Proof.
  intros rs c H. unfold failure_reply in H.
  destruct rs as [|p rs]; [injection H as <-; reflexivity|].
  destruct (first_failure (p :: rs)) as [[r|]|]; try discriminate.
  - destruct (usable r) as [c'|] eqn:U.
    + injection H as <-. eapply usable_is_error; eauto.
    + injection H as <-. reflexivity.
  - injection H as <-. reflexivity.
Qed.

Lemma first_failure_none : forall rs, first_failure rs = None ->
  forall e w, In (e, w) rs -> exists i, w = Id i.
Proof.
  induction rs as [|[e0 w0] rs IH]; intros H e w Hin; [destruct Hin|].
  cbn in H. destruct (attached w0) eqn:A; [discriminate|].
  destruct Hin as [Heq|Hin].
  - injection Heq as <- <-. destruct w0; cbn in A; try discriminate. eauto.
  - eapply IH; eauto.
Qed.

Lemma first_failure_some : forall rs e w, In (e, w) rs -> is_failure w = true ->
  first_failure rs <> None.
Proof.
  induction rs as [|[e0 w0] rs IH]; intros e w Hin Hf; [destruct Hin|].
  cbn. destruct (attached w0) eqn:A; [discriminate|].
  destruct Hin as [Heq|Hin].
  - injection Heq as <- <-. destruct w0; cbn in *; discriminate.
  - eapply IH; eauto.
Qed.

Lemma http_status_2xx : forall c, http_status_of c / 100 = 2 -> class2 c = true.
Proof.
  intros c H. unfold http_status_of in H. unfold class2.
  destruct (first_is 50 c); [reflexivity|].
  destruct (first_is 52 c); [vm_compute in H; discriminate|].
  destruct (code_eqb c code_535); vm_compute in H; discriminate.
Qed.

Lemma http_status_of_error : forall c, is_error c = true ->
  http_status_of c / 100 = 4 \/ http_status_of c / 100 = 5.
Proof.
  intros c H. pose proof (is_error_not_class2 c H) as H2. unfold class2 in H2.
  unfold http_status_of. rewrite H2.
  destruct (first_is 52 c); [right; reflexivity|].
  destruct (code_eqb c code_535); [left|right]; reflexivity.
Qed.

(* -------------------------------- results level (any queue-like object) *)
Lemma smtp_2xx_results : forall rs, class2 (smtp_reply_of rs) = true ->
  rs <> [] /\ forall e w, In (e, w) rs -> exists i, w = Id i.
Proof.
  intros rs H. unfold smtp_reply_of in H.
  destruct (failure_reply rs) as [c|] eqn:F.
  - apply failure_reply_is_error in F. apply is_error_not_class2 in F. congruence.
  - unfold failure_reply in F. destruct rs as [|p rs]; [discriminate|].
    split; [discriminate|].
    destruct (first_failure (p :: rs)) as [[r|]|] eqn:FF.
    + destruct (usable r); discriminate.
    + discriminate.
    + apply first_failure_none. exact FF.
Qed.

Lemma wsgi_2xx_results : forall rs, wsgi_status_of rs / 100 = 2 ->
  rs <> [] /\ forall e w, In (e, w) rs -> exists i, w = Id i.
Proof.
  intros rs H. apply smtp_2xx_results. apply http_status_2xx. exact H.
Qed.

Lemma error_results : forall rs,
  rs = [] \/ (exists e w, In (e, w) rs /\ is_failure w = true) ->
  is_error (smtp_reply_of rs) = true /\
  (wsgi_status_of rs / 100 = 4 \/ wsgi_status_of rs / 100 = 5).
Proof.
  intros rs H.
  assert (E : is_error (smtp_reply_of rs) = true).
  { unfold smtp_reply_of. destruct (failure_reply rs) as [c|] eqn:F.
    - eapply failure_reply_is_error; eauto.
    - exfalso. unfold failure_reply in F. destruct rs as [|p rs]; [discriminate|].
      destruct H as [H|(e & w & Hin & Hf)]; [discriminate|].
      pose proof (first_failure_some _ _ _ Hin Hf) as NN.
      destruct (first_failure (p :: rs)) as [[r|]|]; try congruence.
      destruct (usable r); discriminate. }
  split; [exact E|]. unfold wsgi_status_of. apply http_status_of_error. exact E.
Qed.

(* --------------------------------------------------------- Forall2 helpers *)
Lemma Forall2_In_l : forall (A B : Type) (R : A -> B -> Prop) l1 l2 a,
  Forall2 R l1 l2 -> In a l1 -> exists b, In b l2 /\ R a b.
Proof.
  intros A B R l1 l2 a F. induction F as [|x y l1 l2 Hxy F IH]; intros Hin; [destruct Hin|].
  destruct Hin as [<-|Hin].
  - exists y. split; [left; reflexivity|exact Hxy].
  - destruct (IH Hin) as (b & Hb & Hr). exists b. split; [right; exact Hb|exact Hr].
Qed.

Lemma Forall2_In_r : forall (A B : Type) (R : A -> B -> Prop) l1 l2 b,
  Forall2 R l1 l2 -> In b l2 -> exists a, In a l1 /\ R a b.
Proof.
  intros A B R l1 l2 b F. induction F as [|x y l1 l2 Hxy F IH]; intros Hin; [destruct Hin|].
  destruct Hin as [<-|Hin].
  - exists x. split; [left; reflexivity|exact Hxy].
  - destruct (IH Hin) as (a & Ha & Hr). exists a. split; [right; exact Ha|exact Hr].
Qed.

(* ------------------------------------------------------------------ writes *)
Definition beh_rel (b : wbeh) (ko : N * wout) : Prop := exists d, b = Done d (snd ko).

Lemma writes_outs : forall bs k tr outs, writes k bs = (tr, Some outs) ->
  Forall2 beh_rel bs outs.
Proof.
  induction bs as [|b bs IH]; intros k tr outs H; cbn in H.
  - injection H as <- <-. constructor.
  - destruct b as [d o|]; [|discriminate].
    destruct (writes (k + 1) bs) as [tr' [outs'|]] eqn:W; [|discriminate].
    injection H as <- <-. constructor.
    + exists d. reflexivity.
    + eapply IH; eauto.
Qed.

Lemma writes_nil_outs : forall bs k tr outs, writes k bs = (tr, Some outs) ->
  outs = [] -> bs = [].
Proof.
  intros bs k tr outs H ->. apply writes_outs in H. inversion H. reflexivity.
Qed.

Lemma in_repeat_tick : forall n e, In e (repeat EvTick n) -> e = EvTick.
Proof. intros n e H. apply repeat_spec in H. exact H. Qed.

Lemma writes_no_reply : forall bs k e, In e (fst (writes k bs)) -> is_reply_event e = false.
Proof.
  induction bs as [|b bs IH]; intros k e H; cbn in H; [destruct H|].
  destruct b as [d o|].
  - destruct (writes (k + 1) bs) as [tr' r] eqn:W. cbn in H.
    destruct H as [<-|H]; [reflexivity|].
    apply in_app_or in H. destruct H as [H|H].
    + apply in_repeat_tick in H. subst e. reflexivity.
    + destruct H as [<-|H]; [destruct o; reflexivity|].
      apply (IH (k + 1)). rewrite W. exact H.
  - cbn in H. destruct H as [<-|[<-|[]]]; reflexivity.
Qed.

(* every completed write leaves its completion event in the trace *)
Lemma writes_finish : forall bs k tr outs, writes k bs = (tr, Some outs) ->
  forall i b, nth_error bs i = Some b ->
  exists d o, b = Done d o /\ In (finish_event (k + N.of_nat i) o) tr.
Proof.
  induction bs as [|b0 bs IH]; intros k tr outs H i b Hn; [destruct i; discriminate|].
  cbn in H. destruct b0 as [d0 o0|]; [|discriminate].
  destruct (writes (k + 1) bs) as [tr' [outs'|]] eqn:W; [|discriminate].
  injection H as <- <-.
  destruct i as [|i]; cbn in Hn.
  - injection Hn as <-. exists d0, o0. split; [reflexivity|].
    right. apply in_or_app. right. left. f_equal. lia.
  - destruct (IH _ _ _ W i b Hn) as (d & o & -> & Hin).
    exists d, o. split; [reflexivity|].
    right. apply in_or_app. right. right.
    replace (k + N.of_nat (S i)) with (k + 1 + N.of_nat i) by lia. exact Hin.
Qed.

(* a failure event in the trace comes from a write that failed *)
Lemma writes_fail_event : forall bs k j, In (EvWriteFail j) (fst (writes k bs)) ->
  exists b, In b bs /\ failed_write b = true.
Proof.
  induction bs as [|b0 bs IH]; intros k j H; cbn in H; [destruct H|].
  destruct b0 as [d0 o0|].
  - destruct (writes (k + 1) bs) as [tr' r] eqn:W. cbn in H.
    destruct H as [H|H]; [discriminate|].
    apply in_app_or in H. destruct H as [H|H].
    + apply in_repeat_tick in H. discriminate.
    + destruct H as [H|H].
      * exists (Done d0 o0). split; [left; reflexivity|].
        destruct o0; cbn in *; try reflexivity; discriminate.
      * destruct (IH (k + 1) j) as (b & Hb & Hf); [rewrite W; exact H|].
        exists b. split; [right; exact Hb|exact Hf].
  - cbn in H. destruct H as [H|[H|[]]]; discriminate.
Qed.

Lemma writes_hang : forall bs k, In Hang bs -> snd (writes k bs) = None.
Proof.
  induction bs as [|b bs IH]; intros k H; [destruct H|].
  cbn. destruct b as [d o|]; [|reflexivity].
  destruct H as [H|H]; [discriminate|].
  specialize (IH (k + 1) H). destruct (writes (k + 1) bs) as [tr' r]. cbn in *. rewrite IH. reflexivity.
Qed.

Lemma writes_complete : forall bs k, ~ In Hang bs -> exists outs, snd (writes k bs) = Some outs.
Proof.
  induction bs as [|b bs IH]; intros k H; [exists []; reflexivity|].
  cbn. destruct b as [d o|]; [|exfalso; apply H; left; reflexivity].
  destruct (IH (k + 1)) as (outs & E); [intro; apply H; right; assumption|].
  destruct (writes (k + 1) bs) as [tr' r]. cbn in *. rewrite E. eexists. reflexivity.
Qed.

(* -------------------------------------------------------------- spawn loop *)
Inductive res_rel : N * wout -> N * wres -> Prop :=
| rr_id : forall k, res_rel (k, WId) (k, Id k)
| rr_qerr : forall k a, res_rel (k, WQErr a) (k, QErr a).

Lemma spawn_loop_results : forall relay outs att rs,
  spawn_loop relay outs = (att, Some rs) -> Forall2 res_rel outs rs.
Proof.
  induction outs as [|[k o] outs IH]; intros att rs H; cbn in H.
  - injection H as <- <-. constructor.
  - destruct o as [|a|]; [| |discriminate];
      destruct (spawn_loop relay outs) as [att' [rs'|]] eqn:S; try discriminate;
      injection H as <- <-; (constructor; [constructor|eapply IH; eauto]).
Qed.

(* attempts are spawned only for envelopes whose write returned an id *)
Lemma spawn_loop_attempts : forall relay outs k,
  In k (fst (spawn_loop relay outs)) -> In (k, WId) outs.
Proof.
  induction outs as [|[k0 o] outs IH]; intros k H; cbn in H; [destruct H|].
  destruct o as [|a|].
  - destruct (spawn_loop relay outs) as [att' r] eqn:S. cbn in *.
    destruct relay.
    + destruct H as [<-|H]; [left; reflexivity|right; apply IH; exact H].
    + right. apply IH. exact H.
  - destruct (spawn_loop relay outs) as [att' r] eqn:S. cbn in *. right. apply IH. exact H.
  - destruct H.
Qed.

(* ------------------------------------------------- Queue + edge, main part *)
Lemma queue_2xx_core : forall relay bs tr0 outs att rs,
  writes 0 bs = (tr0, Some outs) -> spawn_loop relay outs = (att, Some rs) ->
  rs <> [] -> (forall e w, In (e, w) rs -> exists i, w = Id i) ->
  all_stored_before bs tr0.
Proof.
  intros relay bs tr0 outs att rs W S Hne Hall.
  pose proof (writes_outs _ _ _ _ W) as F1.
  pose proof (spawn_loop_results _ _ _ _ S) as F2.
  assert (Hb : forall b, In b bs -> exists d, b = Done d WId).
  { intros b Hin. destruct (Forall2_In_l _ _ _ _ _ _ F1 Hin) as ([k o] & Hko & (d & ->)).
    destruct (Forall2_In_l _ _ _ _ _ _ F2 Hko) as ([e w] & Hew & Hr).
    destruct (Hall _ _ Hew) as (i & ->). inversion Hr; subst. exists d. reflexivity. }
  repeat split.
  - intros ->. cbn in W. injection W as <- <-. cbn in S. injection S as <- <-. apply Hne. reflexivity.
  - intros i b Hn. destruct (writes_finish _ _ _ _ W i b Hn) as (d & o & -> & Hin).
    destruct (Hb _ (nth_error_In _ _ Hn)) as (d' & E). injection E as -> ->.
    exists d'. split; [reflexivity|]. cbn in Hin. exact Hin.
  - intros k Hin. destruct (writes_fail_event bs 0 k) as (b & Hbin & Hf); [rewrite W; exact Hin|].
    destruct (Hb _ Hbin) as (d & ->). discriminate.
  - intros e Hin. apply (writes_no_reply bs 0). rewrite W. exact Hin.
Qed.

Lemma smtp_2xx_implies_all_stored : forall relay bs tr c,
  smtp_run relay bs = (tr, Replied c) -> class2 c = true ->
  exists tr0, tr = tr0 ++ [EvSmtpReply c] /\ all_stored_before bs tr0.
Proof.
  intros relay bs tr c H C2. unfold smtp_run, handoff, queue_enqueue in H.
  destruct (writes 0 bs) as [tr0 [outs|]] eqn:W.
  - destruct (spawn_loop relay outs) as [att [rs|]] eqn:S; unfold smtp_edge in H; cbn in H.
    + injection H as <- <-. exists tr0. split; [reflexivity|].
      destruct (smtp_2xx_results _ C2) as (Hne & Hall).
      eapply queue_2xx_core; eauto.
    + injection H as <- <-. discriminate.
  - unfold smtp_edge in H. cbn in H. discriminate.
Qed.

Lemma wsgi_2xx_implies_all_stored : forall relay bs tr s,
  wsgi_run relay bs = (tr, Replied s) -> s / 100 = 2 ->
  exists tr0, tr = tr0 ++ [EvHttpStatus s] /\ all_stored_before bs tr0.
Proof.
  intros relay bs tr s H C2. unfold wsgi_run, handoff, queue_enqueue in H.
  destruct (writes 0 bs) as [tr0 [outs|]] eqn:W.
  - destruct (spawn_loop relay outs) as [att [rs|]] eqn:S; unfold wsgi_edge in H; cbn in H.
    + injection H as <- <-. exists tr0. split; [reflexivity|].
      destruct (wsgi_2xx_results _ C2) as (Hne & Hall).
      eapply queue_2xx_core; eauto.
    + injection H as <- <-. vm_compute in C2. discriminate.
  - unfold wsgi_edge in H. cbn in H. discriminate.
Qed.

(* a blocked (slow, not yet completed) write: nothing has been answered *)
Lemma blocked_write_no_reply : forall relay bs, In Hang bs ->
  snd (smtp_run relay bs) = NoReply /\ snd (wsgi_run relay bs) = NoReply /\
  (forall e, In e (fst (smtp_run relay bs)) -> is_reply_event e = false) /\
  (forall e, In e (fst (wsgi_run relay bs)) -> is_reply_event e = false).
Proof.
  intros relay bs H. pose proof (writes_hang bs 0 H) as E.
  pose proof (writes_no_reply bs 0) as NR.
  unfold smtp_run, wsgi_run, handoff, queue_enqueue.
  destruct (writes 0 bs) as [tr0 r]. cbn in E. subst r.
  unfold smtp_edge, wsgi_edge. cbn. repeat split; assumption.
Qed.

Lemma error_gives_4xx5xx : forall relay bs,
  ~ In Hang bs -> (exists b, In b bs /\ failed_write b = true) ->
  (exists tr c, smtp_run relay bs = (tr, Replied c) /\ is_error c = true) /\
  (exists tr s, wsgi_run relay bs = (tr, Replied s) /\ (s / 100 = 4 \/ s / 100 = 5)).
Proof.
  intros relay bs NH (b & Hb & Hf).
  destruct (writes_complete bs 0 NH) as (outs & E).
  unfold smtp_run, wsgi_run, handoff, queue_enqueue.
  destruct (writes 0 bs) as [tr0 r] eqn:W. cbn in E. subst r.
  destruct (spawn_loop relay outs) as [att [rs|]] eqn:S; unfold smtp_edge, wsgi_edge; cbn.
  - pose proof (writes_outs _ _ _ _ W) as F1.
    pose proof (spawn_loop_results _ _ _ _ S) as F2.
    destruct (Forall2_In_l _ _ _ _ _ _ F1 Hb) as ([k o] & Hko & (d & ->)).
    destruct (Forall2_In_l _ _ _ _ _ _ F2 Hko) as ([e w] & Hew & Hr).
    assert (Hw : is_failure w = true).
    { cbn in Hr. inversion Hr; subst; cbn in *; [discriminate|reflexivity]. }
    destruct (error_results rs) as (E1 & E2); [right; eauto|].
    split; eauto.
  - split.
    + exists (tr0 ++ [EvRaise] ++ [EvSmtpReply code_421]), code_421.
      rewrite <- app_assoc. split; reflexivity.
    + exists (tr0 ++ [EvRaise] ++ [EvHttpStatus 500]), 500.
      rewrite <- app_assoc. split; [reflexivity|right; reflexivity].
Qed.

(* ------------------------------------------------------------- ProxyQueue *)
Lemma first_relay_err_none : forall l, first_relay_err l = None ->
  forall x, In x l -> is_rerr x = false.
Proof.
  induction l as [|y l IH]; intros H x Hin; [destruct Hin|].
  destruct y; cbn in H; try discriminate;
    (destruct Hin as [<-|Hin]; [reflexivity|apply IH; assumption]).
Qed.

Lemma first_relay_err_some : forall l x, In x l -> is_rerr x = true -> first_relay_err l <> None.
Proof.
  induction l as [|y l IH]; intros x Hin Hx; [destruct Hin|].
  destruct Hin as [Heq|Hin].
  - subst y. destruct x; cbn in *; discriminate.
  - destruct y; cbn; try discriminate; eapply IH; eauto.
Qed.

Lemma proxy_results_2xx : forall l,
  (forall e w, In (e, w) (proxy_results_of l) -> exists i, w = Id i) ->
  forall x, In x l -> is_rerr x = false.
Proof.
  intros l H. unfold proxy_results_of in H.
  destruct (first_relay_err l) as [r|] eqn:F.
  - destruct (H 0 (RelayErr r)) as (i & Hi); [left; reflexivity|discriminate].
  - apply first_relay_err_none. exact F.
Qed.

Lemma proxy_ok_core : forall rr rs,
  q_res (proxy_enqueue rr) = Returned rs ->
  (forall e w, In (e, w) rs -> exists i, w = Id i) ->
  relayed_ok rr /\ q_trace (proxy_enqueue rr) = [EvRelayStart; EvRelayDone].
Proof.
  intros rr rs H Hall. destruct rr as [|l|l|r| |]; cbn in H; try discriminate;
    injection H as <-; cbn.
  - split; [exact I|reflexivity].
  - split; [|reflexivity]. intros p Hp. apply (proxy_results_2xx _ Hall). apply in_map. exact Hp.
  - split; [|reflexivity]. apply (proxy_results_2xx _ Hall).
  - destruct (Hall 0 (RelayErr r)) as (i & Hi); [left; reflexivity|discriminate].
Qed.

Lemma proxy_2xx_implies_all_relayed : forall rr,
  (forall tr c, smtp_proxy_run rr = (tr, Replied c) -> class2 c = true ->
     relayed_ok rr /\ tr = [EvRelayStart; EvRelayDone; EvSmtpReply c]) /\
  (forall tr s, wsgi_proxy_run rr = (tr, Replied s) -> s / 100 = 2 ->
     relayed_ok rr /\ tr = [EvRelayStart; EvRelayDone; EvHttpStatus s]).
Proof.
  intros rr. split.
  - intros tr c H C2. unfold smtp_proxy_run, handoff, smtp_edge in H.
    destruct (q_res (proxy_enqueue rr)) as [rs| |] eqn:Q.
    + injection H as <- <-. destruct (smtp_2xx_results _ C2) as (_ & Hall).
      destruct (proxy_ok_core _ _ Q Hall) as (Hok & ->). split; [exact Hok|reflexivity].
    + injection H as <- <-. discriminate.
    + discriminate.
  - intros tr s H C2. unfold wsgi_proxy_run, handoff, wsgi_edge in H.
    destruct (q_res (proxy_enqueue rr)) as [rs| |] eqn:Q.
    + injection H as <- <-. destruct (wsgi_2xx_results _ C2) as (_ & Hall).
      destruct (proxy_ok_core _ _ Q Hall) as (Hok & ->). split; [exact Hok|reflexivity].
    + injection H as <- <-. vm_compute in C2. discriminate.
    + discriminate.
Qed.

(* any relay failure (raised, or one recipient inside a per-recipient result) is answered 4xx/5xx *)
Lemma proxy_failed_results : forall l x, In x l -> is_rerr x = true ->
  exists r, proxy_results_of l = [(0, RelayErr r)].
Proof.
  intros l x Hin Hx. unfold proxy_results_of.
  pose proof (first_relay_err_some _ _ Hin Hx) as NN.
  destruct (first_relay_err l) as [r|]; [eauto|congruence].
Qed.

Lemma returned_failure_4xx5xx : forall tr0 att r,
  (exists tr c, smtp_edge (mkRun tr0 att (Returned [(0, RelayErr r)])) = (tr, Replied c) /\ is_error c = true) /\
  (exists tr s, wsgi_edge (mkRun tr0 att (Returned [(0, RelayErr r)])) = (tr, Replied s) /\ (s / 100 = 4 \/ s / 100 = 5)).
Proof.
  intros tr0 att r.
  destruct (error_results [(0, RelayErr r)]) as (E1 & E2).
  { right. exists 0, (RelayErr r). split; [left; reflexivity|reflexivity]. }
  unfold smtp_edge, wsgi_edge. cbn [q_res q_trace]. split; eauto.
Qed.

Lemma proxy_failure_gives_4xx5xx : forall rr, relay_failed rr ->
  (exists tr c, smtp_proxy_run rr = (tr, Replied c) /\ is_error c = true) /\
  (exists tr s, wsgi_proxy_run rr = (tr, Replied s) /\ (s / 100 = 4 \/ s / 100 = 5)).
Proof.
  intros rr H. unfold smtp_proxy_run, wsgi_proxy_run, handoff.
  destruct rr as [|l|l|r| |]; cbn in H; try contradiction.
  - destruct H as (p & Hp & Hx).
    destruct (proxy_failed_results (map snd l) (snd p)) as (r & E); [apply in_map; exact Hp|exact Hx|].
    unfold proxy_enqueue. rewrite E. apply returned_failure_4xx5xx.
  - destruct H as (x & Hp & Hx).
    destruct (proxy_failed_results l x Hp Hx) as (r & E).
    unfold proxy_enqueue. rewrite E. apply returned_failure_4xx5xx.
  - unfold proxy_enqueue. apply returned_failure_4xx5xx.
  - unfold proxy_enqueue, smtp_edge, wsgi_edge. cbn. split.
    + eexists _, code_421. split; reflexivity.
    + eexists _, 500. split; [reflexivity|right; reflexivity].
Qed.

(* attempts are spawned only for envelopes whose write returned an id *)
Lemma attempts_only_for_stored : forall relay bs k,
  In k (q_attempts (queue_enqueue relay bs)) ->
  exists d, nth_error bs (N.to_nat k) = Some (Done d WId).
Proof.
  intros relay bs k H. unfold queue_enqueue in H.
  destruct (writes 0 bs) as [tr0 [outs|]] eqn:W; [|destruct H].
  assert (Hin : In (k, WId) outs).
  { apply (spawn_loop_attempts relay). destruct (spawn_loop relay outs) as [att [rs|]]; exact H. }
  clear H. revert Hin. generalize dependent tr0. generalize dependent outs.
  assert (G : forall bs k0 tr outs, writes k0 bs = (tr, Some outs) -> In (k, WId) outs ->
              exists d, k0 <= k /\ nth_error bs (N.to_nat (k - k0)) = Some (Done d WId)).
  { clear. induction bs as [|b bs IH]; intros k0 tr outs H Hin; cbn in H.
    - injection H as <- <-. destruct Hin.
    - destruct b as [d o|]; [|discriminate].
      destruct (writes (k0 + 1) bs) as [tr' [outs'|]] eqn:W; [|discriminate].
      injection H as <- <-. destruct Hin as [Heq|Hin].
      + injection Heq as -> ->. exists d. split; [lia|]. replace (k - k) with 0 by lia. reflexivity.
      + destruct (IH _ _ _ W Hin) as (d' & Hle & Hn). exists d'. split; [lia|].
        replace (N.to_nat (k - k0)) with (S (N.to_nat (k - (k0 + 1)))) by lia. exact Hn. }
  intros outs tr0 W Hin. destruct (G _ _ _ _ W Hin) as (d & _ & Hn).
  exists d. replace (k - 0) with k in Hn by lia. exact Hn.
Qed.

(* ------------------------------------------------------------------ examples:
   the hypotheses of the theorems are satisfiable by non-trivial values *)
Definition r550 : reply := mkReply (Some [53; 53; 48]).
Definition r250 : reply := mkReply (Some code_250).

Example ex_all_stored :
  smtp_run true [Done 0 WId; Done 1 WId; Done 0 WId] =
  ([EvWriteStart 0; EvWriteDone 0; EvWriteStart 1; EvTick; EvWriteDone 1;
    EvWriteStart 2; EvWriteDone 2; EvSmtpReply code_250], Replied code_250)
  /\ q_attempts (queue_enqueue true [Done 0 WId; Done 1 WId; Done 0 WId]) = [0; 1; 2]
  /\ snd (wsgi_run true [Done 0 WId; Done 1 WId; Done 0 WId]) = Replied 204.
Proof. repeat split. Qed.

(* the D3 witness [Id; QErr]: acknowledged with 250/204 before the fix, 451/503 now *)
Example ex_d3_witness :
  snd (smtp_run true [Done 0 WId; Done 0 (WQErr None)]) = Replied code_451 /\
  snd (wsgi_run true [Done 0 WId; Done 0 (WQErr None)]) = Replied 503 /\
  q_attempts (queue_enqueue true [Done 0 WId; Done 0 (WQErr None)]) = [0].
Proof. repeat split. Qed.

(* a QueueError carrying a 2xx reply cannot turn into an acknowledgement;
   a usable attached reply is passed on; another exception gives 421 / 500 *)
Example ex_failures :
  snd (smtp_run false [Done 0 WId; Done 2 (WQErr (Some r250))]) = Replied code_451 /\
  snd (smtp_run false [Done 0 (WQErr (Some r550)); Done 0 WId]) = Replied [53; 53; 48] /\
  snd (wsgi_run false [Done 0 (WQErr (Some r550)); Done 0 WId]) = Replied 500 /\
  snd (smtp_run true [Done 0 WId; Done 0 WExc; Done 0 WId]) = Replied code_421 /\
  snd (wsgi_run true [Done 0 WId; Done 0 WExc; Done 0 WId]) = Replied 500 /\
  q_attempts (queue_enqueue true [Done 0 WId; Done 0 WExc; Done 0 WId]) = [0].
Proof. repeat split. Qed.

Example ex_blocked :
  smtp_run true [Done 0 WId; Hang; Done 0 WId] =
  ([EvWriteStart 0; EvWriteDone 0; EvWriteStart 1; EvTick], NoReply).
Proof. reflexivity. Qed.

(* the D4 witness: a mapping result with one rejected recipient *)
Example ex_d4_witness :
  smtp_proxy_run (RelMap [(0, ROk); (1, RErr r550); (2, ROk)]) =
    ([EvRelayStart; EvRelayDone; EvSmtpReply [53; 53; 48]], Replied [53; 53; 48]) /\
  snd (wsgi_proxy_run (RelMap [(0, ROk); (1, RErr r550); (2, ROk)])) = Replied 500 /\
  relay_failed (RelMap [(0, ROk); (1, RErr r550); (2, ROk)]).
Proof.
  repeat split. exists (1, RErr r550). split; [right; left; reflexivity|reflexivity].
Qed.

Example ex_proxy_ok :
  smtp_proxy_run (RelSeq [ROk; ROther; ROk]) =
    ([EvRelayStart; EvRelayDone; EvSmtpReply code_250], Replied code_250) /\
  relayed_ok (RelSeq [ROk; ROther; ROk]).
Proof.
  split; [reflexivity|]. intros x [<-|[<-|[<-|[]]]]; reflexivity.
Qed.
