(* C02 - proofs about model/Edge.v *)
From Coq Require Import List NArith PeanoNat Bool Lia ZifyBool ZifyN.
From SV Require Import model.Edge.
Import ListNotations.
Open Scope N_scope.

(* ------------------------------------------------------------ reply codes *)
Lemma first_is_excl : forall d1 d2 c, first_is d1 c = true -> d1 <> d2 -> first_is d2 c = false.
Proof.
  intros d1 d2 [|x c] H Hne; cbn in *; [discriminate|].
  apply N.eqb_eq in H. subst x. apply N.eqb_neq. exact Hne.
Qed.

Lemma is_error_not_class2 : forall c, is_error c = true -> class2 c = false.
Proof.
  intros c H. unfold is_error in H. unfold class2.
  apply orb_true_iff in H. destruct H as [H|H];
    eapply first_is_excl; try exact H; discriminate.
Qed.

Lemma code_451_is_error : is_error code_451 = true.
Proof. reflexivity. Qed.

Lemma usable_is_error : forall r c, usable r = Some c -> is_error c = true.
Proof.
  intros [[c0|]] c H; unfold usable in H; cbn in H; [|discriminate].
  destruct c0 as [|x c0]; [discriminate|].
  destruct (is_error (x :: c0)) eqn:E; [|discriminate].
  injection H as <-. exact E.
Qed.

Lemma failure_reply_is_error : forall rs c, failure_reply rs = Some c -> is_error c = true.
Proof.
  intros rs c H. unfold failure_reply in H.
  destruct rs as [|p rs]; [injection H as <-; reflexivity|].
  destruct (first_failure (p :: rs)) as [[r|]|]; try discriminate.
  - destruct (usable r) as [c'|] eqn:U.
    + injection H as <-. eapply usable_is_error; eauto.
    + injection H as <-. reflexivity.
  - injection H as <-. reflexivity.
Qed.

Lemma first_failure_none : forall rs, first_failure rs = None ->
  forall e w, In (e, w) rs -> exists i, w = Id i.
Proof.
  induction rs as [|[e0 w0] rs IH]; intros H e w Hin; [destruct Hin|].
  cbn in H. destruct (attached w0) eqn:A; [discriminate|].
  destruct Hin as [Heq|Hin].
  - injection Heq as <- <-. destruct w0; cbn in A; try discriminate. eauto.
  - eapply IH; eauto.
Qed.

Lemma first_failure_some : forall rs e w, In (e, w) rs -> is_failure w = true ->
  first_failure rs <> None.
Proof.
  induction rs as [|[e0 w0] rs IH]; intros e w Hin Hf; [destruct Hin|].
  cbn. destruct (attached w0) eqn:A; [discriminate|].
  destruct Hin as [Heq|Hin].
  - injection Heq as <- <-. destruct w0; cbn in *; discriminate.
  - eapply IH; eauto.
Qed.

Lemma http_status_2xx : forall c, http_status_of c / 100 = 2 -> class2 c = true.
Proof.
  intros c H. unfold http_status_of in H. unfold class2.
  destruct (first_is 50 c); [reflexivity|].
  destruct (first_is 52 c); [vm_compute in H; discriminate|].
  destruct (code_eqb c code_535); vm_compute in H; discriminate.
Qed.

Lemma http_status_of_error : forall c, is_error c = true ->
  http_status_of c / 100 = 4 \/ http_status_of c / 100 = 5.
Proof.
  intros c H. pose proof (is_error_not_class2 c H) as H2. unfold class2 in H2.
  unfold http_status_of. rewrite H2.
  destruct (first_is 52 c); [right; reflexivity|].
  destruct (code_eqb c code_535); [left|right]; reflexivity.
Qed.

(* -------------------------------- results level (any queue-like object) *)
Lemma smtp_2xx_results : forall rs, class2 (smtp_reply_of rs) = true ->
  rs <> [] /\ forall e w, In (e, w) rs -> exists i, w = Id i.
Proof.
  intros rs H. unfold smtp_reply_of in H.
  destruct (failure_reply rs) as [c|] eqn:F.
  - apply failure_reply_is_error in F. apply is_error_not_class2 in F. congruence.
  - unfold failure_reply in F. destruct rs as [|p rs]; [discriminate|].
    split; [discriminate|].
    destruct (first_failure (p :: rs)) as [[r|]|] eqn:FF.
    + destruct (usable r); discriminate.
    + discriminate.
    + apply first_failure_none. exact FF.
Qed.

Lemma wsgi_2xx_results : forall rs, wsgi_status_of rs / 100 = 2 ->
  rs <> [] /\ forall e w, In (e, w) rs -> exists i, w = Id i.
Proof.
  intros rs H. apply smtp_2xx_results. apply http_status_2xx. exact H.
Qed.

Lemma error_results : forall rs,
  rs = [] \/ (exists e w, In (e, w) rs /\ is_failure w = true) ->
  is_error (smtp_reply_of rs) = true /\
  (wsgi_status_of rs / 100 = 4 \/ wsgi_status_of rs / 100 = 5).
Proof.
  intros rs H.
  assert (E : is_error (smtp_reply_of rs) = true).
  { unfold smtp_reply_of. destruct (failure_reply rs) as [c|] eqn:F.
    - eapply failure_reply_is_error; eauto.
    - exfalso. unfold failure_reply in F. destruct rs as [|p rs]; [discriminate|].
      destruct H as [H|(e & w & Hin & Hf)]; [discriminate|].
      pose proof (first_failure_some _ _ _ Hin Hf) as NN.
      destruct (first_failure (p :: rs)) as [[r|]|]; try congruence.
      destruct (usable r); discriminate. }
  split; [exact E|]. unfold wsgi_status_of. apply http_status_of_error. exact E.
Qed.

(* --------------------------------------------------------- Forall2 helpers *)
Lemma Forall2_In_l : forall (A B : Type) (R : A -> B -> Prop) l1 l2 a,
  Forall2 R l1 l2 -> In a l1 -> exists b, In b l2 /\ R a b.
Proof.
  intros A B R l1 l2 a F. induction F as [|x y l1 l2 Hxy F IH]; intros Hin; [destruct Hin|].
  destruct Hin as [<-|Hin].
  - exists y. split; [left; reflexivity|exact Hxy].
  - destruct (IH Hin) as (b & Hb & Hr). exists b. split; [right; exact Hb|exact Hr].
Qed.

Lemma Forall2_In_r : forall (A B : Type) (R : A -> B -> Prop) l1 l2 b,
  Forall2 R l1 l2 -> In b l2 -> exists a, In a l1 /\ R a b.
Proof.
  intros A B R l1 l2 b F. induction F as [|x y l1 l2 Hxy F IH]; intros Hin; [destruct Hin|].
  destruct Hin as [<-|Hin].
  - exists x. split; [left; reflexivity|exact Hxy].
  - destruct (IH Hin) as (a & Ha & Hr). exists a. split; [right; exact Ha|exact Hr].
Qed.

(* ------------------------------------------------------------------ writes *)
Definition beh_rel (b : wbeh) (ko : N * wout) : Prop := exists d, b = Done d (snd ko).

Lemma writes_outs : forall bs k tr outs, writes k bs = (tr, Some outs) ->
  Forall2 beh_rel bs outs.
Proof.
  induction bs as [|b bs IH]; intros k tr outs H; cbn in H.
  - injection H as <- <-. constructor.
  - destruct b as [d o|]; [|discriminate].
    destruct (writes (k + 1) bs) as [tr' [outs'|]] eqn:W; [|discriminate].
    injection H as <- <-. constructor.
    + exists d. reflexivity.
    + eapply IH; eauto.
Qed.

Lemma writes_nil_outs : forall bs k tr outs, writes k bs = (tr, Some outs) ->
  outs = [] -> bs = [].
Proof.
  intros bs k tr outs H ->. apply writes_outs in H. inversion H. reflexivity.
Qed.

Lemma in_repeat_tick : forall n e, In e (repeat EvTick n) -> e = EvTick.
Proof. intros n e H. apply repeat_spec in H. exact H. Qed.

Lemma writes_no_reply : forall bs k e, In e (fst (writes k bs)) -> is_reply_event e = false.
Proof.
  induction bs as [|b bs IH]; intros k e H; cbn in H; [destruct H|].
  destruct b as [d o|].
  - destruct (writes (k + 1) bs) as [tr' r] eqn:W. cbn in H.
    destruct H as [<-|H]; [reflexivity|].
    apply in_app_or in H. destruct H as [H|H].
    + apply in_repeat_tick in H. subst e. reflexivity.
    + destruct H as [<-|H]; [destruct o; reflexivity|].
      apply (IH (k + 1)). rewrite W. exact H.
  - cbn in H. destruct H as [<-|[<-|[]]]; reflexivity.
Qed.

(* every completed write leaves its completion event in the trace *)
Lemma writes_finish : forall bs k tr outs, writes k bs = (tr, Some outs) ->
  forall i b, nth_error bs i = Some b ->
  exists d o, b = Done d o /\ In (finish_event (k + N.of_nat i) o) tr.
Proof.
  induction bs as [|b0 bs IH]; intros k tr outs H i b Hn; [destruct i; discriminate|].
  cbn in H. destruct b0 as [d0 o0|]; [|discriminate].
  destruct (writes (k + 1) bs) as [tr' [outs'|]] eqn:W; [|discriminate].
  injection H as <- <-.
  destruct i as [|i]; cbn in Hn.
  - injection Hn as <-. exists d0, o0. split; [reflexivity|].
    right. apply in_or_app. right. left. f_equal. lia.
  - destruct (IH _ _ _ W i b Hn) as (d & o & -> & Hin).
    exists d, o. split; [reflexivity|].
    right. apply in_or_app. right. right.
    replace (k + N.of_nat (S i)) with (k + 1 + N.of_nat i) by lia. exact Hin.
Qed.

(* a failure event in the trace comes from a write that failed *)
Lemma writes_fail_event : forall bs k j, In (EvWriteFail j) (fst (writes k bs)) ->
  exists b, In b bs /\ failed_write b = true.
Proof.
  induction bs as [|b0 bs IH]; intros k j H; cbn in H; [destruct H|].
  destruct b0 as [d0 o0|].
  - destruct (writes (k + 1) bs) as [tr' r] eqn:W. cbn in H.
    destruct H as [H|H]; [discriminate|].
    apply in_app_or in H. destruct H as [H|H].
    + apply in_repeat_tick in H. discriminate.
    + destruct H as [H|H].
      * exists (Done d0 o0). split; [left; reflexivity|].
        destruct o0; cbn in *; try reflexivity; discriminate.
      * destruct (IH (k + 1) j) as (b & Hb & Hf); [rewrite W; exact H|].
        exists b. split; [right; exact Hb|exact Hf].
  - cbn in H. destruct H as [H|[H|[]]]; discriminate.
Qed.

Lemma writes_hang : forall bs k, In Hang bs -> snd (writes k bs) = None.
Proof.
  induction bs as [|b bs IH]; intros k H; [destruct H|].
  cbn. destruct b as [d o|]; [|reflexivity].
  destruct H as [H|H]; [discriminate|].
  specialize (IH (k + 1) H). destruct (writes (k + 1) bs) as [tr' r]. cbn in *. rewrite IH. reflexivity.
Qed.

Lemma writes_complete : forall bs k, ~ In Hang bs -> exists outs, snd (writes k bs) = Some outs.
Proof.
  induction bs as [|b bs IH]; intros k H; [exists []; reflexivity|].
  cbn. destruct b as [d o|]; [|exfalso; apply H; left; reflexivity].
  destruct (IH (k + 1)) as (outs & E); [intro; apply H; right; assumption|].
  destruct (writes (k + 1) bs) as [tr' r]. cbn in *. rewrite E. eexists. reflexivity.
Qed.

(* -------------------------------------------------------------- spawn loop *)
Inductive res_rel : N * wout -> N * wres -> Prop :=
| rr_id : forall k, res_rel (k, WId) (k, Id k)
| rr_qerr : forall k a, res_rel (k, WQErr a) (k, QErr a).

Lemma spawn_loop_results : forall relay outs att rs,
  spawn_loop relay outs = (att, inl rs) -> Forall2 res_rel outs rs.
Proof.
  induction outs as [|[k o] outs IH]; intros att rs H; cbn in H.
  - injection H as <- <-. constructor.
  - destruct o as [|a|]; [| |discriminate];
      destruct (spawn_loop relay outs) as [att' [rs'|]] eqn:S; try discriminate;
      injection H as <- <-; (constructor; [constructor|eapply IH; eauto]).
Qed.

(* attempts are spawned only for envelopes whose write returned an id *)
Lemma spawn_loop_attempts : forall relay outs k,
  In k (fst (spawn_loop relay outs)) -> In (k, WId) outs.
Proof.
  induction outs as [|[k0 o] outs IH]; intros k H; cbn in H; [destruct H|].
  destruct o as [|a|].
  - destruct (spawn_loop relay outs) as [att' r] eqn:S. cbn in *.
    destruct relay.
    + destruct H as [<-|H]; [left; reflexivity|right; apply IH; exact H].
    + right. apply IH. exact H.
  - destruct (spawn_loop relay outs) as [att' r] eqn:S. cbn in *. right. apply IH. exact H.
  - destruct H.
Qed.

(* ------------------------------------------------- Queue + edge, main part *)
Lemma queue_2xx_core : forall relay bs tr0 outs att rs,
  writes 0 bs = (tr0, Some outs) -> spawn_loop relay outs = (att, inl rs) ->
  rs <> [] -> (forall e w, In (e, w) rs -> exists i, w = Id i) ->
  all_stored_before bs tr0.
Proof.
  intros relay bs tr0 outs att rs W S Hne Hall.
  pose proof (writes_outs _ _ _ _ W) as F1.
  pose proof (spawn_loop_results _ _ _ _ S) as F2.
  assert (Hb : forall b, In b bs -> exists d, b = Done d WId).
  { intros b Hin. destruct (Forall2_In_l _ _ _ _ _ _ F1 Hin) as ([k o] & Hko & (d & ->)).
    destruct (Forall2_In_l _ _ _ _ _ _ F2 Hko) as ([e w] & Hew & Hr).
    destruct (Hall _ _ Hew) as (i & ->). inversion Hr; subst. exists d. reflexivity. }
  repeat split.
  - intros ->. cbn in W. injection W as <- <-. cbn in S. injection S as <- <-. apply Hne. reflexivity.
  - intros i b Hn. destruct (writes_finish _ _ _ _ W i b Hn) as (d & o & -> & Hin).
    destruct (Hb _ (nth_error_In _ _ Hn)) as (d' & E). injection E as -> ->.
    exists d'. split; [reflexivity|]. cbn in Hin. exact Hin.
  - intros k Hin. destruct (writes_fail_event bs 0 k) as (b & Hbin & Hf); [rewrite W; exact Hin|].
    destruct (Hb _ Hbin) as (d & ->). discriminate.
  - intros e Hin. apply (writes_no_reply bs 0). rewrite W. exact Hin.
Qed.

Lemma smtp_2xx_implies_all_stored : forall relay bs tr c,
  smtp_run relay bs = (tr, Replied c) -> class2 c = true ->
  exists tr0, tr = tr0 ++ [EvSmtpReply c] /\ all_stored_before bs tr0.
Proof.
  intros relay bs tr c H C2. unfold smtp_run, handoff, queue_enqueue in H.
  destruct (writes 0 bs) as [tr0 [outs|]] eqn:W.
  - destruct (spawn_loop relay outs) as [att [rs|x]] eqn:S; unfold smtp_edge in H; cbn in H.
    + injection H as <- <-. exists tr0. split; [reflexivity|].
      destruct (smtp_2xx_results _ C2) as (Hne & Hall).
      eapply queue_2xx_core; eauto.
    + destruct x; try discriminate; injection H as <- <-; discriminate.
  - unfold smtp_edge in H. cbn in H. discriminate.
Qed.

Lemma wsgi_2xx_implies_all_stored : forall relay bs tr s,
  wsgi_run relay bs = (tr, Replied s) -> s / 100 = 2 ->
  exists tr0, tr = tr0 ++ [EvHttpStatus s] /\ all_stored_before bs tr0.
Proof.
  intros relay bs tr s H C2. unfold wsgi_run, handoff, queue_enqueue in H.
  destruct (writes 0 bs) as [tr0 [outs|]] eqn:W.
  - destruct (spawn_loop relay outs) as [att [rs|x]] eqn:S; unfold wsgi_edge in H; cbn in H.
    + injection H as <- <-. exists tr0. split; [reflexivity|].
      destruct (wsgi_2xx_results _ C2) as (Hne & Hall).
      eapply queue_2xx_core; eauto.
    + destruct x; try discriminate; injection H as <- <-; vm_compute in C2; discriminate.
  - unfold wsgi_edge in H. cbn in H. discriminate.
Qed.

(* a blocked (slow, not yet completed) write: nothing has been answered *)
Lemma blocked_write_no_reply : forall relay bs, In Hang bs ->
  snd (smtp_run relay bs) = NoReply /\ snd (wsgi_run relay bs) = NoReply /\
  (forall e, In e (fst (smtp_run relay bs)) -> is_reply_event e = false) /\
  (forall e, In e (fst (wsgi_run relay bs)) -> is_reply_event e = false).
Proof.
  intros relay bs H. pose proof (writes_hang bs 0 H) as E.
  pose proof (writes_no_reply bs 0) as NR.
  unfold smtp_run, wsgi_run, handoff, queue_enqueue.
  destruct (writes 0 bs) as [tr0 r]. cbn in E. subst r.
  unfold smtp_edge, wsgi_edge. cbn. repeat split; assumption.
Qed.

(* the exception that ends enqueue() is the outcome of one of the writes *)
Lemma spawn_loop_raises : forall relay outs att x, spawn_loop relay outs = (att, inr x) ->
  exists k, In (k, WExc x) outs.
Proof.
  induction outs as [|[k o] outs IH]; intros att x H; cbn in H; [discriminate|].
  destruct o as [|a|y].
  - destruct (spawn_loop relay outs) as [att' [rs'|x']] eqn:S; [discriminate|].
    injection H as _ <-. destruct (IH _ _ eq_refl) as (k' & Hk). exists k'. right. exact Hk.
  - destruct (spawn_loop relay outs) as [att' [rs'|x']] eqn:S; [discriminate|].
    injection H as _ <-. destruct (IH _ _ eq_refl) as (k' & Hk). exists k'. right. exact Hk.
  - injection H as _ <-. exists k. left. reflexivity.
Qed.

Definition smtp_err (c : code) : Prop := is_error c = true.
Definition http_err (s : N) : Prop := s / 100 = 4 \/ s / 100 = 5.

Lemma error_gives_4xx5xx : forall relay bs,
  ~ In Hang bs -> (exists b, In b bs /\ failed_write b = true) ->
  refused smtp_err (snd (smtp_run relay bs)) /\
  refused http_err (snd (wsgi_run relay bs)) /\
  (snd (smtp_run relay bs) = Dropped \/ snd (wsgi_run relay bs) = Dropped ->
   exists b, In b bs /\ base_only b = true).
Proof.
  intros relay bs NH (b & Hb & Hf).
  destruct (writes_complete bs 0 NH) as (outs & E).
  unfold smtp_run, wsgi_run, handoff, queue_enqueue.
  destruct (writes 0 bs) as [tr0 r] eqn:W. cbn in E. subst r.
  pose proof (writes_outs _ _ _ _ W) as F1.
  destruct (spawn_loop relay outs) as [att [rs|x]] eqn:S; unfold smtp_edge, wsgi_edge; cbn.
  - pose proof (spawn_loop_results _ _ _ _ S) as F2.
    destruct (Forall2_In_l _ _ _ _ _ _ F1 Hb) as ([k o] & Hko & (d & ->)).
    destruct (Forall2_In_l _ _ _ _ _ _ F2 Hko) as ([e w] & Hew & Hr).
    assert (Hw : is_failure w = true).
    { cbn in Hr. inversion Hr; subst; cbn in *; [discriminate|reflexivity]. }
    destruct (error_results rs) as (E1 & E2); [right; eauto|].
    split; [exact E1|]. split; [exact E2|]. intros [X|X]; discriminate.
  - destruct (spawn_loop_raises _ _ _ _ S) as (k & Hk).
    destruct (Forall2_In_r _ _ _ _ _ _ F1 Hk) as (b' & Hb' & (d & Eb)). cbn in Eb.
    destruct x; cbn.
    + split; [reflexivity|]. split; [right; reflexivity|]. intros [X|X]; discriminate.
    + split; [reflexivity|]. split; [exact I|]. intros _. exists b'. subst b'. split; [exact Hb'|reflexivity].
    + split; [exact I|]. split; [exact I|]. intros _. exists b'. subst b'. split; [exact Hb'|reflexivity].
Qed.

(* ------------------------------------------------------------- ProxyQueue *)
Lemma first_relay_err_none : forall l, first_relay_err l = None ->
  forall x, In x l -> is_rerr x = false.
Proof.
  induction l as [|y l IH]; intros H x Hin; [destruct Hin|].
  destruct y; cbn in H; try discriminate;
    (destruct Hin as [<-|Hin]; [reflexivity|apply IH; assumption]).
Qed.

Lemma first_relay_err_some : forall l x, In x l -> is_rerr x = true -> first_relay_err l <> None.
Proof.
  induction l as [|y l IH]; intros x Hin Hx; [destruct Hin|].
  destruct Hin as [Heq|Hin].
  - subst y. destruct x; cbn in *; discriminate.
  - destruct y; cbn; try discriminate; eapply IH; eauto.
Qed.

Lemma proxy_results_2xx : forall l,
  (forall e w, In (e, w) (proxy_results_of l) -> exists i, w = Id i) ->
  forall x, In x l -> is_rerr x = false.
Proof.
  intros l H. unfold proxy_results_of in H.
  destruct (first_relay_err l) as [r|] eqn:F.
  - destruct (H 0 (RelayErr r)) as (i & Hi); [left; reflexivity|discriminate].
  - apply first_relay_err_none. exact F.
Qed.

Lemma proxy_ok_core : forall rr rs,
  q_res (proxy_enqueue rr) = Returned rs ->
  (forall e w, In (e, w) rs -> exists i, w = Id i) ->
  relayed_ok rr /\ q_trace (proxy_enqueue rr) = [EvRelayStart; EvRelayDone].
Proof.
  intros rr rs H Hall. destruct rr as [|l|l|r| |]; cbn in H; try discriminate;
    injection H as <-; cbn.
  - split; [exact I|reflexivity].
  - split; [|reflexivity]. intros p Hp. apply (proxy_results_2xx _ Hall). apply in_map. exact Hp.
  - split; [|reflexivity]. apply (proxy_results_2xx _ Hall).
  - destruct (Hall 0 (RelayErr r)) as (i & Hi); [left; reflexivity|discriminate].
Qed.

Lemma proxy_2xx_implies_all_relayed : forall rr,
  (forall tr c, smtp_proxy_run rr = (tr, Replied c) -> class2 c = true ->
     relayed_ok rr /\ tr = [EvRelayStart; EvRelayDone; EvSmtpReply c]) /\
  (forall tr s, wsgi_proxy_run rr = (tr, Replied s) -> s / 100 = 2 ->
     relayed_ok rr /\ tr = [EvRelayStart; EvRelayDone; EvHttpStatus s]).
Proof.
  intros rr. split.
  - intros tr c H C2. unfold smtp_proxy_run, handoff, smtp_edge in H.
    destruct (q_res (proxy_enqueue rr)) as [rs|x|] eqn:Q.
    + injection H as <- <-. destruct (smtp_2xx_results _ C2) as (_ & Hall).
      destruct (proxy_ok_core _ _ Q Hall) as (Hok & ->). split; [exact Hok|reflexivity].
    + destruct x; try discriminate; injection H as <- <-; discriminate.
    + discriminate.
  - intros tr s H C2. unfold wsgi_proxy_run, handoff, wsgi_edge in H.
    destruct (q_res (proxy_enqueue rr)) as [rs|x|] eqn:Q.
    + injection H as <- <-. destruct (wsgi_2xx_results _ C2) as (_ & Hall).
      destruct (proxy_ok_core _ _ Q Hall) as (Hok & ->). split; [exact Hok|reflexivity].
    + destruct x; try discriminate; injection H as <- <-; vm_compute in C2; discriminate.
    + discriminate.
Qed.

(* any relay failure (raised, or one recipient inside a per-recipient result) is answered 4xx/5xx *)
Lemma proxy_failed_results : forall l x, In x l -> is_rerr x = true ->
  exists r, proxy_results_of l = [(0, RelayErr r)].
Proof.
  intros l x Hin Hx. unfold proxy_results_of.
  pose proof (first_relay_err_some _ _ Hin Hx) as NN.
  destruct (first_relay_err l) as [r|]; [eauto|congruence].
Qed.

Lemma returned_failure_4xx5xx : forall tr0 att r,
  (exists tr c, smtp_edge (mkRun tr0 att (Returned [(0, RelayErr r)])) = (tr, Replied c) /\ is_error c = true) /\
  (exists tr s, wsgi_edge (mkRun tr0 att (Returned [(0, RelayErr r)])) = (tr, Replied s) /\ (s / 100 = 4 \/ s / 100 = 5)).
Proof.
  intros tr0 att r.
  destruct (error_results [(0, RelayErr r)]) as (E1 & E2).
  { right. exists 0, (RelayErr r). split; [left; reflexivity|reflexivity]. }
  unfold smtp_edge, wsgi_edge. cbn [q_res q_trace]. split; eauto.
Qed.

Lemma proxy_failure_gives_4xx5xx : forall rr, relay_failed rr ->
  (exists tr c, smtp_proxy_run rr = (tr, Replied c) /\ is_error c = true) /\
  (exists tr s, wsgi_proxy_run rr = (tr, Replied s) /\ (s / 100 = 4 \/ s / 100 = 5)).
Proof.
  intros rr H. unfold smtp_proxy_run, wsgi_proxy_run, handoff.
  destruct rr as [|l|l|r| |]; cbn in H; try contradiction.
  - destruct H as (p & Hp & Hx).
    destruct (proxy_failed_results (map snd l) (snd p)) as (r & E); [apply in_map; exact Hp|exact Hx|].
    unfold proxy_enqueue. rewrite E. apply returned_failure_4xx5xx.
  - destruct H as (x & Hp & Hx).
    destruct (proxy_failed_results l x Hp Hx) as (r & E).
    unfold proxy_enqueue. rewrite E. apply returned_failure_4xx5xx.
  - unfold proxy_enqueue. apply returned_failure_4xx5xx.
  - unfold proxy_enqueue, smtp_edge, wsgi_edge. cbn. split.
    + eexists _, code_421. split; reflexivity.
    + eexists _, 500. split; [reflexivity|right; reflexivity].
Qed.

(* attempts are spawned only for envelopes whose write returned an id *)
Lemma attempts_only_for_stored : forall relay bs k,
  In k (q_attempts (queue_enqueue relay bs)) ->
  exists d, nth_error bs (N.to_nat k) = Some (Done d WId).
Proof.
  intros relay bs k H. unfold queue_enqueue in H.
  destruct (writes 0 bs) as [tr0 [outs|]] eqn:W; [|destruct H].
  assert (Hin : In (k, WId) outs).
  { apply (spawn_loop_attempts relay). destruct (spawn_loop relay outs) as [att [rs|]]; exact H. }
  clear H. revert Hin. generalize dependent tr0. generalize dependent outs.
  assert (G : forall bs k0 tr outs, writes k0 bs = (tr, Some outs) -> In (k, WId) outs ->
              exists d, k0 <= k /\ nth_error bs (N.to_nat (k - k0)) = Some (Done d WId)).
  { clear. induction bs as [|b bs IH]; intros k0 tr outs H Hin; cbn in H.
    - injection H as <- <-. destruct Hin.
    - destruct b as [d o|]; [|discriminate].
      destruct (writes (k0 + 1) bs) as [tr' [outs'|]] eqn:W; [|discriminate].
      injection H as <- <-. destruct Hin as [Heq|Hin].
      + injection Heq as -> ->. exists d. split; [lia|]. replace (k - k) with 0 by lia. reflexivity.
      + destruct (IH _ _ _ W Hin) as (d' & Hle & Hn). exists d'. split; [lia|].
        replace (N.to_nat (k - k0)) with (S (N.to_nat (k - (k0 + 1)))) by lia. exact Hn. }
  intros outs tr0 W Hin. destruct (G _ _ _ _ W Hin) as (d & _ & Hn).
  exists d. replace (k - 0) with k in Hn by lia. exact Hn.
Qed.

(* ------------------------------------------------------------------ examples:
   the hypotheses of the theorems are satisfiable by non-trivial values *)
Definition r550 : reply := mkReply (Some [53; 53; 48]).
Definition r250 : reply := mkReply (Some code_250).

Example ex_all_stored :
  smtp_run true [Done 0 WId; Done 1 WId; Done 0 WId] =
  ([EvWriteStart 0; EvWriteDone 0; EvWriteStart 1; EvTick; EvWriteDone 1;
    EvWriteStart 2; EvWriteDone 2; EvSmtpReply code_250], Replied code_250)
  /\ q_attempts (queue_enqueue true [Done 0 WId; Done 1 WId; Done 0 WId]) = [0; 1; 2]
  /\ snd (wsgi_run true [Done 0 WId; Done 1 WId; Done 0 WId]) = Replied 204.
Proof. repeat split. Qed.

(* the D3 witness [Id; QErr]: acknowledged with 250/204 before the fix, 451/503 now *)
Example ex_d3_witness :
  snd (smtp_run true [Done 0 WId; Done 0 (WQErr None)]) = Replied code_451 /\
  snd (wsgi_run true [Done 0 WId; Done 0 (WQErr None)]) = Replied 503 /\
  q_attempts (queue_enqueue true [Done 0 WId; Done 0 (WQErr None)]) = [0].
Proof. repeat split. Qed.

(* a QueueError carrying a 2xx reply cannot turn into an acknowledgement;
   a usable attached reply is passed on; another exception gives 421 / 500 *)
Example ex_failures :
  snd (smtp_run false [Done 0 WId; Done 2 (WQErr (Some r250))]) = Replied code_451 /\
  snd (smtp_run false [Done 0 (WQErr (Some r550)); Done 0 WId]) = Replied [53; 53; 48] /\
  snd (wsgi_run false [Done 0 (WQErr (Some r550)); Done 0 WId]) = Replied 500 /\
  snd (smtp_run true [Done 0 WId; Done 0 (WExc ExException); Done 0 WId]) = Replied code_421 /\
  snd (wsgi_run true [Done 0 WId; Done 0 (WExc ExException); Done 0 WId]) = Replied 500 /\
  q_attempts (queue_enqueue true [Done 0 WId; Done 0 (WExc ExException); Done 0 WId]) = [0].
Proof. repeat split. Qed.

Example ex_blocked :
  smtp_run true [Done 0 WId; Hang; Done 0 WId] =
  ([EvWriteStart 0; EvWriteDone 0; EvWriteStart 1; EvTick], NoReply).
Proof. reflexivity. Qed.

(* the D4 witness: a mapping result with one rejected recipient *)
Example ex_d4_witness :
  smtp_proxy_run (RelMap [(0, ROk); (1, RErr r550); (2, ROk)]) =
    ([EvRelayStart; EvRelayDone; EvSmtpReply [53; 53; 48]], Replied [53; 53; 48]) /\
  snd (wsgi_proxy_run (RelMap [(0, ROk); (1, RErr r550); (2, ROk)])) = Replied 500 /\
  relay_failed (RelMap [(0, ROk); (1, RErr r550); (2, ROk)]).
Proof.
  repeat split. exists (1, RErr r550). split; [right; left; reflexivity|reflexivity].
Qed.

Example ex_proxy_ok :
  smtp_proxy_run (RelSeq [ROk; ROther; ROk]) =
    ([EvRelayStart; EvRelayDone; EvSmtpReply code_250], Replied code_250) /\
  relayed_ok (RelSeq [ROk; ROther; ROk]).
Proof.
  split; [reflexivity|]. intros x [<-|[<-|[<-|[]]]]; reflexivity.
Qed.

(* ------------------------------------------- several messages in flight at once *)
Definition reply_free (t : trace) : Prop := forall e, In e t -> is_reply_event e = false.

Lemma reply_free_app : forall a b, reply_free a -> reply_free b -> reply_free (a ++ b).
Proof. intros a b Ha Hb e H. apply in_app_or in H. destruct H; auto. Qed.

Lemma reply_free_ticks : forall n, reply_free (repeat EvTick n).
Proof. intros n e H. apply in_repeat_tick in H. subst e. reflexivity. Qed.

Lemma queue_trace_reply_free : forall relay bs, reply_free (q_trace (queue_enqueue relay bs)).
Proof.
  intros relay bs. unfold queue_enqueue.
  pose proof (writes_no_reply bs 0) as NR.
  destruct (writes 0 bs) as [tr0 [outs|]]; cbn in NR; [|exact NR].
  destruct (spawn_loop relay outs) as [att [rs|x]]; cbn; [exact NR|].
  apply reply_free_app; [exact NR|]. intros e0 [<-|[]]. reflexivity.
Qed.

(* shape of one message's run: a reply-free part, then at most the answer *)
Lemma smtp_run_shape : forall relay bs,
  exists pre, reply_free pre /\
    ((fst (smtp_run relay bs) = pre /\ (snd (smtp_run relay bs) = NoReply \/ snd (smtp_run relay bs) = Dropped)) \/
     (exists c, fst (smtp_run relay bs) = pre ++ [EvSmtpReply c] /\ snd (smtp_run relay bs) = Replied c)).
Proof.
  intros relay bs. pose proof (queue_trace_reply_free relay bs) as RF.
  unfold smtp_run, handoff, smtp_edge.
  exists (q_trace (queue_enqueue relay bs)). split; [exact RF|].
  destruct (q_res (queue_enqueue relay bs)) as [rs|x|]; [| destruct x |]; cbn; eauto.
Qed.

Lemma wsgi_run_shape : forall relay bs,
  exists pre, reply_free pre /\
    ((fst (wsgi_run relay bs) = pre /\ (snd (wsgi_run relay bs) = NoReply \/ snd (wsgi_run relay bs) = Dropped)) \/
     (exists s, fst (wsgi_run relay bs) = pre ++ [EvHttpStatus s] /\ snd (wsgi_run relay bs) = Replied s)).
Proof.
  intros relay bs. pose proof (queue_trace_reply_free relay bs) as RF.
  unfold wsgi_run, handoff, wsgi_edge.
  exists (q_trace (queue_enqueue relay bs)). split; [exact RF|].
  destruct (q_res (queue_enqueue relay bs)) as [rs|x|]; [| destruct x |]; cbn; eauto.
Qed.

(* an answer event occurs at most once, at the end *)
Lemma answer_position : forall pre tl l1 e l2,
  reply_free pre -> is_reply_event e = true -> (tl = [] \/ exists a, tl = [a]) ->
  pre ++ tl = l1 ++ e :: l2 -> l1 = pre /\ tl = [e] /\ l2 = [].
Proof.
  induction pre as [|x pre IH]; intros tl l1 e l2 RF He Htl H.
  - cbn in H. destruct Htl as [->|(a & ->)].
    + destruct l1; discriminate.
    + destruct l1 as [|y l1].
      * cbn in H. injection H as -> <-. auto.
      * cbn in H. injection H as _ H. destruct l1; discriminate.
  - destruct l1 as [|y l1].
    + cbn in H. injection H as -> _. rewrite (RF e) in He; [discriminate|left; reflexivity].
    + cbn in H. injection H as -> H.
      destruct (IH tl l1 e l2) as (-> & E2 & E3); auto.
      intros z Hz. apply RF. right. exact Hz.
Qed.

Lemma pop_spec : forall i ps e ps', pop i ps = Some (e, ps') ->
  exists t, nth_error ps i = Some (e :: t) /\ nth_error ps' i = Some t /\
            forall j, j <> i -> nth_error ps' j = nth_error ps j.
Proof.
  induction i as [|i IH]; intros ps e ps' H; destruct ps as [|p ps]; cbn in H; try discriminate.
  - destruct p as [|e0 p]; [discriminate|]. injection H as <- <-.
    exists p. repeat split. intros [|j] Hj; [congruence|reflexivity].
  - destruct (pop i ps) as [[e0 r]|] eqn:P; [|discriminate]. injection H as <- <-.
    destruct (IH _ _ _ P) as (t & H1 & H2 & H3). exists t. repeat split; auto.
    intros [|j] Hj; [reflexivity|]. cbn. apply H3. congruence.
Qed.

Lemma project_cons_same : forall i e g, project i ((i, e) :: g) = e :: project i g.
Proof. intros. unfold project. cbn. rewrite N.eqb_refl. reflexivity. Qed.

Lemma project_cons_other : forall i j e g, j <> i -> project i ((j, e) :: g) = project i g.
Proof.
  intros i j e g H. unfold project. cbn. destruct (j =? i) eqn:E; [|reflexivity].
  apply N.eqb_eq in E. contradiction.
Qed.

Lemma project_app : forall i a b, project i (a ++ b) = project i a ++ project i b.
Proof. intros. unfold project. rewrite filter_app, map_app. reflexivity. Qed.

Lemma project_in : forall i e g, In e (project i g) -> In (i, e) g.
Proof.
  intros i e g H. unfold project in H. apply in_map_iff in H.
  destruct H as ([j e'] & He & Hf). apply filter_In in Hf. destruct Hf as (Hin & Hj).
  cbn in *. apply N.eqb_eq in Hj. subst. exact Hin.
Qed.

(* a schedule never reorders, invents or borrows events: what message i did is a
   prefix of i's own sequential run *)
Lemma project_prefix : forall sched ps i t, nth_error ps (N.to_nat i) = Some t ->
  exists rest, t = project i (run_sched sched ps) ++ rest.
Proof.
  induction sched as [|j s IH]; intros ps i t Hn; cbn [run_sched].
  - exists t. reflexivity.
  - destruct (pop (N.to_nat j) ps) as [[e ps']|] eqn:P; [|apply IH; exact Hn].
    destruct (pop_spec _ _ _ _ P) as (t' & H1 & H2 & H3).
    destruct (N.eq_dec j i) as [->|Hne].
    + rewrite project_cons_same. rewrite Hn in H1. injection H1 as ->.
      destruct (IH ps' i t' H2) as (rest & ->). exists rest. reflexivity.
    + rewrite project_cons_other by exact Hne.
      apply (IH ps' i t). rewrite H3; [exact Hn|]. intro E. apply Hne. lia.
Qed.

Lemma run_sched_in : forall sched ps i e, In (i, e) (run_sched sched ps) ->
  exists t, nth_error ps (N.to_nat i) = Some t.
Proof.
  induction sched as [|j s IH]; intros ps i e H; cbn in H; [destruct H|].
  destruct (pop (N.to_nat j) ps) as [[e' ps']|] eqn:P; [|eapply IH; eauto].
  destruct (pop_spec _ _ _ _ P) as (t' & H1 & H2 & H3).
  destruct H as [H|H].
  - injection H as -> ->. eauto.
  - destruct (IH _ _ _ H) as (t & Ht).
    destruct (Nat.eq_dec (N.to_nat i) (N.to_nat j)) as [E|E].
    + rewrite E. eauto.
    + rewrite H3 in Ht by exact E. eauto.
Qed.

Lemma nth_error_map_inv : forall (A B : Type) (f : A -> B) l n b,
  nth_error (map f l) n = Some b -> exists a, nth_error l n = Some a /\ b = f a.
Proof.
  intros A B f. induction l as [|x l IH]; intros [|n] b H; cbn in *; try discriminate.
  - injection H as <-. eauto.
  - apply IH. exact H.
Qed.

(* where the answer of message i stands in a concurrent run *)
Lemma concurrent_answer : forall relay msgs sched g1 g2 i e,
  concurrent_run relay msgs sched = g1 ++ (i, e) :: g2 -> is_reply_event e = true ->
  exists m pre, nth_error msgs (N.to_nat i) = Some m /\
    msg_trace relay m = pre ++ [e] /\ project i g1 = pre /\ project i g2 = [].
Proof.
  intros relay msgs sched g1 g2 i e H He. unfold concurrent_run in H.
  assert (Hin : In (i, e) (run_sched sched (map (msg_trace relay) msgs))).
  { rewrite H. apply in_or_app. right. left. reflexivity. }
  destruct (run_sched_in _ _ _ _ Hin) as (t & Ht).
  destruct (nth_error_map_inv _ _ _ _ _ _ Ht) as (m & Hm & ->).
  destruct (project_prefix sched _ i _ Ht) as (rest & Hp).
  rewrite H, project_app, project_cons_same in Hp.
  exists m. unfold msg_trace in *.
  set (ticks := repeat EvTick (N.to_nat (m_pyields m))) in *.
  assert (RT : reply_free ticks) by apply reply_free_ticks.
  assert (S : exists pre tl, reply_free pre /\ (tl = [] \/ exists a, tl = [a]) /\
              ticks ++ match m_edge m with ESmtp => fst (smtp_run relay (m_bs m))
                                          | EWsgi => fst (wsgi_run relay (m_bs m)) end = pre ++ tl).
  { destruct (m_edge m).
    - destruct (smtp_run_shape relay (m_bs m)) as (pre & RF & [(E1 & _)|(c & E1 & _)]); rewrite E1.
      + exists (ticks ++ pre), []. rewrite app_nil_r. repeat split; auto. apply reply_free_app; auto.
      + exists (ticks ++ pre), [EvSmtpReply c]. rewrite app_assoc. repeat split; eauto. apply reply_free_app; auto.
    - destruct (wsgi_run_shape relay (m_bs m)) as (pre & RF & [(E1 & _)|(c & E1 & _)]); rewrite E1.
      + exists (ticks ++ pre), []. rewrite app_nil_r. repeat split; auto. apply reply_free_app; auto.
      + exists (ticks ++ pre), [EvHttpStatus c]. rewrite app_assoc. repeat split; eauto. apply reply_free_app; auto. }
  destruct S as (pre & tl & RF & Htl & E). rewrite E in Hp. rewrite E.
  rewrite <- app_assoc in Hp. cbn in Hp.
  destruct (answer_position pre tl (project i g1) e (project i g2 ++ rest) RF He Htl Hp) as (E1 & E2 & E3).
  exists pre. subst tl. repeat split; auto.
  destruct (project i g2); [reflexivity|discriminate].
Qed.

Lemma concurrent_smtp_own : forall relay msgs sched g1 g2 i c,
  concurrent_run relay msgs sched = g1 ++ (i, EvSmtpReply c) :: g2 ->
  exists m, nth_error msgs (N.to_nat i) = Some m /\ m_edge m = ESmtp /\
    snd (smtp_run relay (m_bs m)) = Replied c /\
    (class2 c = true ->
       m_bs m <> [] /\
       forall k b, nth_error (m_bs m) k = Some b ->
         exists d, b = Done d WId /\ In (i, EvWriteDone (N.of_nat k)) g1).
Proof.
  intros relay msgs sched g1 g2 i c H.
  destruct (concurrent_answer _ _ _ _ _ _ _ H eq_refl) as (m & pre & Hm & Ht & Hp & _).
  exists m. split; [exact Hm|]. unfold msg_trace in Ht.
  set (ticks := repeat EvTick (N.to_nat (m_pyields m))) in *.
  destruct (m_edge m) eqn:EK.
  - destruct (smtp_run_shape relay (m_bs m)) as (pre' & RF & [(E1 & _)|(c' & E1 & E2)]); rewrite E1 in Ht.
    + exfalso. assert (Hin : In (EvSmtpReply c) (ticks ++ pre')) by (rewrite Ht; apply in_or_app; right; left; reflexivity).
      pose proof (reply_free_app _ _ (reply_free_ticks _) RF _ Hin). discriminate.
    + rewrite app_assoc in Ht. apply app_inj_tail in Ht. destruct Ht as (Hpre & Hc).
      injection Hc as ->. split; [reflexivity|]. split; [exact E2|].
      intros C2. pose proof (surjective_pairing (smtp_run relay (m_bs m))) as SP.
      rewrite E1, E2 in SP.
      destruct (smtp_2xx_implies_all_stored _ _ _ _ SP C2) as (tr0 & Etr & Hne & Hall & _).
      apply app_inj_tail in Etr. destruct Etr as (<- & _).
      split; [exact Hne|]. intros k b Hk. destruct (Hall k b Hk) as (d & -> & Hin).
      exists d. split; [reflexivity|]. apply project_in. rewrite Hp, <- Hpre.
      apply in_or_app. right. exact Hin.
  - exfalso. destruct (wsgi_run_shape relay (m_bs m)) as (pre' & RF & [(E1 & _)|(s & E1 & _)]); rewrite E1 in Ht.
    + assert (Hin : In (EvSmtpReply c) (ticks ++ pre')) by (rewrite Ht; apply in_or_app; right; left; reflexivity).
      pose proof (reply_free_app _ _ (reply_free_ticks _) RF _ Hin). discriminate.
    + rewrite app_assoc in Ht. apply app_inj_tail in Ht. destruct Ht as (_ & Hc). discriminate.
Qed.

Lemma concurrent_wsgi_own : forall relay msgs sched g1 g2 i s,
  concurrent_run relay msgs sched = g1 ++ (i, EvHttpStatus s) :: g2 ->
  exists m, nth_error msgs (N.to_nat i) = Some m /\ m_edge m = EWsgi /\
    snd (wsgi_run relay (m_bs m)) = Replied s /\
    (s / 100 = 2 ->
       m_bs m <> [] /\
       forall k b, nth_error (m_bs m) k = Some b ->
         exists d, b = Done d WId /\ In (i, EvWriteDone (N.of_nat k)) g1).
Proof.
  intros relay msgs sched g1 g2 i s H.
  destruct (concurrent_answer _ _ _ _ _ _ _ H eq_refl) as (m & pre & Hm & Ht & Hp & _).
  exists m. split; [exact Hm|]. unfold msg_trace in Ht.
  set (ticks := repeat EvTick (N.to_nat (m_pyields m))) in *.
  destruct (m_edge m) eqn:EK.
  - exfalso. destruct (smtp_run_shape relay (m_bs m)) as (pre' & RF & [(E1 & _)|(c & E1 & _)]); rewrite E1 in Ht.
    + assert (Hin : In (EvHttpStatus s) (ticks ++ pre')) by (rewrite Ht; apply in_or_app; right; left; reflexivity).
      pose proof (reply_free_app _ _ (reply_free_ticks _) RF _ Hin). discriminate.
    + rewrite app_assoc in Ht. apply app_inj_tail in Ht. destruct Ht as (_ & Hc). discriminate.
  - destruct (wsgi_run_shape relay (m_bs m)) as (pre' & RF & [(E1 & _)|(s' & E1 & E2)]); rewrite E1 in Ht.
    + exfalso. assert (Hin : In (EvHttpStatus s) (ticks ++ pre')) by (rewrite Ht; apply in_or_app; right; left; reflexivity).
      pose proof (reply_free_app _ _ (reply_free_ticks _) RF _ Hin). discriminate.
    + rewrite app_assoc in Ht. apply app_inj_tail in Ht. destruct Ht as (Hpre & Hc).
      injection Hc as ->. split; [reflexivity|]. split; [exact E2|].
      intros C2. pose proof (surjective_pairing (wsgi_run relay (m_bs m))) as SP.
      rewrite E1, E2 in SP.
      destruct (wsgi_2xx_implies_all_stored _ _ _ _ SP C2) as (tr0 & Etr & Hne & Hall & _).
      apply app_inj_tail in Etr. destruct Etr as (<- & _).
      split; [exact Hne|]. intros k b Hk. destruct (Hall k b Hk) as (d & -> & Hin).
      exists d. split; [reflexivity|]. apply project_in. rewrite Hp, <- Hpre.
      apply in_or_app. right. exact Hin.
Qed.

(* the answer of a message does not depend on the other messages or on the schedule *)
Lemma ack_depends_on_own_envelopes : forall relay msgs msgs' sched sched' i m,
  nth_error msgs (N.to_nat i) = Some m -> nth_error msgs' (N.to_nat i) = Some m ->
  (forall c, In (i, EvSmtpReply c) (concurrent_run relay msgs sched) ->
             In (i, EvSmtpReply c) (concurrent_run relay msgs' sched') ->
             snd (smtp_run relay (m_bs m)) = Replied c) /\
  (forall c c', In (i, EvSmtpReply c) (concurrent_run relay msgs sched) ->
                In (i, EvSmtpReply c') (concurrent_run relay msgs' sched') -> c = c') /\
  (forall s s', In (i, EvHttpStatus s) (concurrent_run relay msgs sched) ->
                In (i, EvHttpStatus s') (concurrent_run relay msgs' sched') -> s = s').
Proof.
  intros relay msgs msgs' sched sched' i m Hm Hm'.
  assert (A : forall ms sc c, nth_error ms (N.to_nat i) = Some m ->
              In (i, EvSmtpReply c) (concurrent_run relay ms sc) -> snd (smtp_run relay (m_bs m)) = Replied c).
  { intros ms sc c Hn Hin. apply in_split in Hin. destruct Hin as (g1 & g2 & E).
    destruct (concurrent_smtp_own _ _ _ _ _ _ _ E) as (m0 & Hm0 & _ & R & _). congruence. }
  assert (B : forall ms sc s, nth_error ms (N.to_nat i) = Some m ->
              In (i, EvHttpStatus s) (concurrent_run relay ms sc) -> snd (wsgi_run relay (m_bs m)) = Replied s).
  { intros ms sc s Hn Hin. apply in_split in Hin. destruct Hin as (g1 & g2 & E).
    destruct (concurrent_wsgi_own _ _ _ _ _ _ _ E) as (m0 & Hm0 & _ & R & _). congruence. }
  split; [|split].
  - intros c H1 _. exact (A _ _ _ Hm H1).
  - intros c c' H1 H2. pose proof (A _ _ _ Hm H1). pose proof (A _ _ _ Hm' H2). congruence.
  - intros s s' H1 H2. pose proof (B _ _ _ Hm H1). pose proof (B _ _ _ Hm' H2). congruence.
Qed.

Example ex_concurrent :
  concurrent_run false
    [mkMsg ESmtp 1 [Done 0 WId; Done 0 WId]; mkMsg EWsgi 1 [Done 1 WId]]
    [0; 1; 1; 0; 1; 1; 0; 0; 0; 1; 0; 7; 0] =
  [(0, EvTick); (1, EvTick); (1, EvWriteStart 0); (0, EvWriteStart 0); (1, EvTick); (1, EvWriteDone 0);
   (0, EvWriteDone 0); (0, EvWriteStart 1); (0, EvWriteDone 1); (1, EvHttpStatus 204); (0, EvSmtpReply code_250)].
Proof. reflexivity. Qed.

(* ------------------------------------------------ the SMTP session layer *)
Definition sess_rel (s : sstate) (w : view) : Prop :=
  s_mail s = fst w /\ (s_mail s = true -> s_env s = Some (snd w)).

Ltac no_handoff :=
  let l := fresh "l" in let Hl := fresh "Hl" in
  intros l Hl; cbn in Hl;
  repeat (destruct Hl as [Hl|Hl]; [discriminate|]); contradiction.

Lemma sstep_inv : forall s w c s' o, sess_rel s w -> sstep s c = (s', o) ->
  sess_rel s' (view_step w c (replies_of o)) /\
  (forall l, In (OHandoff l) o -> l = snd w).
Proof.
  intros s [wo wa] c s' o [Rm Re] H. cbn [fst snd] in *.
  assert (Keep : sess_rel s (wo, wa)) by (split; assumption).
  assert (Closed : forall h, sess_rel (mkS h false false None) (false, []))
    by (intros h; split; cbn; [reflexivity|discriminate]).
  destruct c as [v|v| |v|a v|v hv q|]; cbn [sstep] in H.
  - destruct (v =? 250) eqn:E; injection H as <- <-; cbn; rewrite E; (split; [auto|no_handoff]).
  - destruct (v =? 250) eqn:E; injection H as <- <-; cbn; rewrite E; (split; [auto|no_handoff]).
  - injection H as <- <-. cbn. split; [auto|no_handoff].
  - destruct (negb (s_helo s)); [injection H as <- <-; cbn; split; [auto|no_handoff]|].
    destruct (s_mail s) eqn:M; [injection H as <- <-; cbn; split; [auto|no_handoff]|].
    destruct (v =? 250) eqn:E; injection H as <- <-; cbn; rewrite E; (split; [|no_handoff]).
    + split; cbn; auto.
    + exact Keep.
  - destruct (s_mail s) eqn:M; cbn [negb] in H;
      [|injection H as <- <-; cbn; split; [auto|no_handoff]].
    destruct (v =? 250) eqn:E; injection H as <- <-; cbn; rewrite E; (split; [|no_handoff]).
    + split; cbn; [exact Rm|]. intros _. rewrite (Re eq_refl). reflexivity.
    + exact Keep.
  - destruct (s_mail s) eqn:M; cbn [negb orb] in H;
      [|injection H as <- <-; cbn; split; [auto|no_handoff]].
    destruct (negb (s_rcpt s)); [injection H as <- <-; cbn; split; [auto|no_handoff]|].
    destruct (v =? 354) eqn:E; cbn [negb] in H;
      [|injection H as <- <-; cbn; rewrite E; split; [auto|no_handoff]].
    destruct (hv =? 250) eqn:E2; cbn [negb] in H; injection H as <- <-; cbn; rewrite E.
    + split; [auto|].
      intros l [X|[X|[X|[]]]]; try discriminate. injection X as <-.
      rewrite (Re eq_refl). reflexivity.
    + split; [auto|no_handoff].
  - injection H as <- <-. cbn. split; [auto|no_handoff].
Qed.

Lemma handoffs_exact : forall cs s w, sess_rel s w ->
  forall p, In p (handoffs w (srun s cs)) -> fst p = snd p.
Proof.
  induction cs as [|c cs IH]; intros s w R p Hin; [destruct Hin|].
  cbn [srun] in Hin. destruct (sstep s c) as [s' o] eqn:S. cbn [handoffs] in Hin.
  destruct (sstep_inv _ _ _ _ _ R S) as (R' & HO).
  apply in_app_or in Hin. destruct Hin as [Hin|Hin].
  - apply in_flat_map in Hin. destruct Hin as (x & Hx & Hp).
    destruct x as [c0|l]; [destruct Hp|]. destruct Hp as [<-|[]]. cbn.
    symmetry. apply HO. exact Hx.
  - eapply IH; eauto.
Qed.

Lemma handoff_envelope_has_accepted_recipients : forall cs accepted envelope,
  In (accepted, envelope) (handoffs (false, []) (srun s_init cs)) -> envelope = accepted.
Proof.
  intros cs a e H.
  assert (R : sess_rel s_init (false, [])) by (split; [reflexivity|discriminate]).
  pose proof (handoffs_exact cs s_init (false, []) R _ H) as E. cbn in E. congruence.
Qed.

(* the C02-6 scenario: two accepted recipients, DATA refused, a third recipient,
   DATA accepted - the envelope holds all three; then a second transaction *)
Example ex_session :
  handoffs (false, [])
    (srun s_init [SEhlo 250; SMail 250; SRcpt 1 250; SRcpt 2 550; SRcpt 3 250; SData 451 250 250;
                  SRcpt 4 250; SData 354 250 250; SMail 250; SRcpt 5 250; SRset; SMail 250; SRcpt 6 250;
                  SData 354 550 250; SMail 250; SRcpt 7 250; SData 354 250 451]) =
  [([1; 3; 4], [1; 3; 4]); ([7], [7])].
Proof. reflexivity. Qed.

(* every exception family a write can end with: never an acknowledgement, never an attempt *)
Example ex_exception_families :
  snd (smtp_run true [Done 0 WId; Done 0 (WExc ExException)]) = Replied code_421 /\
  snd (wsgi_run true [Done 0 WId; Done 0 (WExc ExException)]) = Replied 500 /\
  snd (smtp_run true [Done 0 WId; Done 0 (WExc ExTimeout)]) = Replied code_421 /\
  snd (wsgi_run true [Done 0 WId; Done 0 (WExc ExTimeout)]) = Dropped /\
  snd (smtp_run true [Done 1 (WExc ExBase); Done 0 WId]) = Dropped /\
  snd (wsgi_run true [Done 1 (WExc ExBase); Done 0 WId]) = Dropped /\
  q_attempts (queue_enqueue true [Done 0 WId; Done 0 (WExc ExTimeout); Done 0 WId]) = [0] /\
  base_only (Done 0 (WExc ExTimeout)) = true /\ failed_write (Done 0 (WExc ExBase)) = true.
Proof. repeat split. Qed.
