(* C04: a crash at any point never loses an acknowledged message (disk).
   The invariant of one thread (all operations on one message) run alone from
   an arbitrary surviving file system, lifted to every interleaving of several
   threads and every crash point by non-interference (Store_lemmas.
   frame_interleaved_disk), plus the properties of recovery. *)
From Coq Require Import List NArith Bool Lia PeanoNat Permutation.
From Coq Require Import ZifyBool ZifyN.
From SV Require Import model.Store.
From SV Require Import proof.Assoc_lemmas proof.Rounds_lemmas proof.Prog_lemmas proof.Disk_lemmas proof.Store_lemmas.
Import ListNotations.
Open Scope N_scope.

Lemma ref_run_app r a b :
  ref_run r (a ++ b) =
  let (r1, xs) := ref_run r a in let (r2, ys) := ref_run r1 b in (r2, xs ++ ys).
Proof.
  revert r; induction a as [|o a IH]; intros r; cbn [app ref_run].
  - destruct (ref_run r b); reflexivity.
  - destruct (ref_step r o) as [r1 x]. rewrite IH.
    destruct (ref_run r1 a) as [r2 xs]. destruct (ref_run r2 b) as [r3 ys]. reflexivity.
Qed.

Definition rd (d : list (op * res)) : rstore := fst (ref_run [] (map fst d)).
Definition results_ok (d : list (op * res)) : Prop := map snd d = snd (ref_run [] (map fst d)).

Lemma rd_snoc d o x : rd (d ++ [(o, x)]) = fst (ref_step (rd d) o).
Proof.
  unfold rd. rewrite map_app, ref_run_app. cbn [map fst ref_run].
  destruct (ref_run [] (map fst d)) as [r1 xs]. cbn [fst].
  destruct (ref_step r1 o) as [r2 y]. reflexivity.
Qed.

Lemma results_ok_snoc d o x :
  results_ok d -> x = snd (ref_step (rd d) o) -> results_ok (d ++ [(o, x)]).
Proof.
  unfold results_ok, rd. intros H ->. rewrite !map_app, ref_run_app. cbn [map fst snd ref_run].
  destruct (ref_run [] (map fst d)) as [r1 xs]. cbn [fst snd] in *.
  destruct (ref_step r1 o) as [r2 y]. cbn [snd]. rewrite H. reflexivity.
Qed.

Lemma ref_run_length r ops : length (snd (ref_run r ops)) = length ops.
Proof.
  revert r; induction ops as [|o ops IH]; intros r; cbn [ref_run]; [reflexivity|].
  destruct (ref_step r o) as [r1 x]. specialize (IH r1). destruct (ref_run r1 ops). cbn [snd length] in *. lia.
Qed.

Lemma app_eq_same_length {A} (a b c d : list A) :
  a ++ b = c ++ d -> length a = length c -> a = c /\ b = d.
Proof.
  revert c; induction a as [|x a IH]; intros c H L; destruct c as [|y c]; cbn [length] in L; try discriminate.
  - split; [reflexivity|exact H].
  - cbn [app] in H. inversion H; subst. destruct (IH c H2) as [-> ->]; [lia|]. split; reflexivity.
Qed.

Section Crash.
  Variable enc_env : envelope -> bytes.
  Variable dec_env : bytes -> option envelope.
  Variable enc_meta : meta -> bytes.
  Variable dec_meta : bytes -> option meta.
  Variable chunk : wcfg.
  Hypothesis dec_enc_env : forall e, dec_env (enc_env e) = Some e.
  Hypothesis dec_enc_meta : forall m, dec_meta (enc_meta m) = Some m.
  Hypothesis enc_env_nonempty : forall e, enc_env e <> [].
  Hypothesis enc_meta_nonempty : forall m, enc_meta m <> [].
  Hypothesis chunk_pos : wcfg_ok chunk.

  Notation dprog_of := (disk_prog enc_env dec_env enc_meta dec_meta chunk).
  Notation drep := (disk_rep enc_env enc_meta).
  Notation dview := (disk_view dec_env dec_meta).

  Lemma drep_ext s s' r id :
    fget s' (PEnv id) = fget s (PEnv id) -> fget s' (PMeta id) = fget s (PMeta id) ->
    drep s r id -> drep s' r id.
  Proof. unfold disk_rep. intros -> ->. tauto. Qed.

  Lemma drep_view s r id : drep s r id -> dview s id = rlookup r id.
  Proof.
    unfold disk_rep, disk_view. destruct (rlookup r id) as [en|].
    - intros (e & m & -> & -> & Ha). rewrite dec_enc_meta, dec_enc_env. exact Ha.
    - intros [-> ->]. reflexivity.
  Qed.

  (* ---------------------------------------------- one thread, run alone *)
  Section OneThread.
    Variable id : N.
    Variable tmps : list N.

    Definition tmps_free (s : fs) : Prop := forall t, In t tmps -> fget s (PTmp t) = None.
    (* the meta file of the message is absent or a complete pickle *)
    Definition meta_valid (s : fs) : Prop :=
      fget s (PMeta id) = None \/ exists m, fget s (PMeta id) = Some (enc_meta m).

    (* ghost facts about the completed operations: their results are the
       reference results, and they all address this message *)
    Definition dok (d : list (op * res)) : Prop := results_ok d /\ Forall (owns id) (map fst d).

    Lemma dok_snoc d o x : dok d -> owns id o -> x = snd (ref_step (rd d) o) -> dok (d ++ [(o, x)]).
    Proof.
      intros [H1 H2] Ho Hx. split; [apply results_ok_snoc; assumption|].
      rewrite map_app. apply Forall_app. split; [exact H2|constructor; [exact Ho|constructor]].
    Qed.

    (* between operations *)
    Definition CB (d : list (op * res)) (s : fs) : Prop :=
      dok d /\ drep s (rd d) id /\ tmps_free s.

    (* inside operation o *)
    Definition CI (d : list (op * res)) (o : op) (s : fs) : Prop :=
      dok d /\ meta_valid s /\
      match o with
      | ORemove _ => True
      | OWrite _ _ _ _ => (rlookup (rd d) id = None /\ fget s (PMeta id) = None) \/ drep s (rd d) id \/
                          drep s (fst (ref_step (rd d) o)) id
      | _ => drep s (rd d) id \/ drep s (fst (ref_step (rd d) o)) id
      end.

    Definition op_ok (o : op) : Prop :=
      owns id o /\ (forall t, In t (op_tmps o) -> In t tmps) /\ tmps_ok o.
    Definition Ctodo (d : list (op * res)) (todo : list op) : Prop :=
      wf_ops (rd d) todo = true /\ Forall op_ok todo.

    Lemma drep_meta_valid s r : drep s r id -> meta_valid s.
    Proof.
      unfold disk_rep, meta_valid. destruct (rlookup r id) as [en|].
      - intros (e0 & m & _ & Hm & _). right. exists m. exact Hm.
      - intros [_ Hm]. left. exact Hm.
    Qed.

    Lemma agree_tmp_rep s s' t r : agree_but [PTmp t] s s' -> drep s r id -> drep s' r id.
    Proof.
      intros A. apply drep_ext; apply A; intros [E|[]]; discriminate.
    Qed.

    Lemma tmps_free_agree s s' ps :
      agree_but ps s s' -> tmps_free s ->
      (forall t, In (PTmp t) ps -> fget s' (PTmp t) = None) -> tmps_free s'.
    Proof.
      intros A Hf Hn t Ht. destruct (in_dec path_eq_dec (PTmp t) ps) as [Hin|Hni]; [apply Hn; exact Hin|].
      rewrite (A _ Hni). apply Hf. exact Ht.
    Qed.

    Lemma crash_start_ok d o rest s :
      Ctodo d (o :: rest) -> CB d s ->
      okrun fs dcmd dans dexec CI CB d o s (dprog_of o).
    Proof.
      intros [Hwf Hops] (Hres & Hrep & Hfree). cbn [wf_ops] in Hwf. apply andb_prop in Hwf as [Hwf _].
      inversion Hops as [|? ? (Hown & Htin & Htok) _]; subst.
      pose proof Hown as Hown0.
      pose proof (drep_meta_valid s _ Hrep) as Hmv.
      destruct o; cbn [owns op_id op_tmps tmps_ok disk_prog] in *; try contradiction.
      - (* write *)
        subst cands. destruct tmps0 as [|t1 [|t2 tmps0]]; cbn [length] in Htok; try lia.
        assert (F1 : fget s (PTmp t1) = None) by (apply Hfree, Htin; left; reflexivity).
        assert (F2 : fget s (PTmp t2) = None) by (apply Hfree, Htin; right; left; reflexivity).
        unfold disk_rep in Hrep. destruct (rlookup (rd d) id) as [en|] eqn:E.
        + destruct Hrep as (e0 & m0 & He & Hm & Ha).
          apply (okrun_write_noid enc_env enc_meta chunk CI CB).
          * intros c [<-|[]]. congruence.
          * split; [exact Hres|]. split; [exact Hmv|]. right. left. unfold disk_rep. rewrite E. exists e0, m0. auto.
          * assert (Es : ref_step (rd d) (OWrite e ts [id] (t1 :: t2 :: tmps0)) = (rd d, RNoId)).
            { cbn [ref_step first_free]. rewrite E. reflexivity. }
            split; [apply dok_snoc; [exact Hres|exact Hown0|rewrite Es; reflexivity]|].
            rewrite rd_snoc, Es. cbn [fst]. split; [|exact Hfree].
            unfold disk_rep. rewrite E. exists e0, m0. auto.
        + destruct Hrep as [He Hm].
          apply (okrun_write enc_env enc_meta chunk enc_env_nonempty enc_meta_nonempty chunk_pos CI CB
                   d _ e ts [] id [] t1 t2 tmps0 s); try assumption.
          * intros c [].
          * intros s' A. split; [exact Hres|]. assert (Em : fget s' (PMeta id) = None) by (rewrite A; [exact Hm|intros [E'|[]]; discriminate]).
            split; [left; exact Em|left; split; [exact E|exact Em]].
          * intros s' A G. assert (Em : fget s' (PMeta id) = None).
            { rewrite A; [exact Hm|]. intros [E'|[E'|[E'|[]]]]; discriminate. }
            split; [exact Hres|]. split; [left; exact Em|left; split; [exact E|exact Em]].
          * intros s2 A G1 G2 N1 N2.
            assert (Es : ref_step (rd d) (OWrite e ts [id] (t1 :: t2 :: tmps0)) = (aset N.eqb (rd d) id (mkEntry e ts 0), RId id)).
            { cbn [ref_step first_free]. rewrite E. reflexivity. }
            assert (R2 : drep s2 (aset N.eqb (rd d) id (mkEntry e ts 0)) id).
            { unfold disk_rep, rlookup. rewrite nget_set_same. exists e, (mkMeta ts 0 None).
              repeat split; try assumption. apply accum_entry_new. }
            split.
            { split; [exact Hres|]. split; [eapply drep_meta_valid; exact R2|]. right. right. rewrite Es. exact R2. }
            split; [apply dok_snoc; [exact Hres|exact Hown0|rewrite Es; reflexivity]|].
            rewrite rd_snoc, Es. cbn [fst]. split; [exact R2|].
            eapply tmps_free_agree; [exact A|exact Hfree|].
            intros t [E'|[E'|[E'|[E'|[]]]]]; inversion E'; subst; assumption.
      - (* set_timestamp *)
        destruct tmps0 as [|t tmps0]; cbn [length] in Htok; try lia.
        cbn [wf_op] in Hwf. destruct (rlookup (rd d) id0) as [en|] eqn:E; [|discriminate].
        inversion Hown; subst id0.
        pose proof Hrep as Hrep'. unfold disk_rep in Hrep'. rewrite E in Hrep'. destruct Hrep' as (e & m & He & Hm & Ha).
        assert (Es : ref_step (rd d) (OSetTs id ts (t :: tmps0)) =
                     (aset N.eqb (rd d) id (mkEntry (en_env en) ts (en_att en)), RUnit)) by (cbn [ref_step]; rewrite E; reflexivity).
        apply (okrun_update enc_meta dec_meta chunk dec_enc_meta enc_meta_nonempty chunk_pos CI CB d _ id (t :: tmps0) t _ _ s m);
          try reflexivity; try exact Hm; try (apply Hfree, Htin; left; reflexivity).
        + intros s' A. split; [exact Hres|]. pose proof (agree_tmp_rep s s' t _ A Hrep) as R'.
          split; [eapply drep_meta_valid; exact R'|left; exact R'].
        + intros s2 A G F.
          assert (R2 : drep s2 (aset N.eqb (rd d) id (mkEntry (en_env en) ts (en_att en))) id).
          { unfold disk_rep, rlookup. rewrite nget_set_same. exists e, (mkMeta ts (m_att m) (m_deliv m)).
            split; [rewrite A; [exact He|intros [E'|[E'|[]]]; discriminate]|]. split; [exact G|].
            unfold deliv_list in *. cbn [m_ts m_att m_deliv].
            rewrite (accum_entry_meta e _ _ _ en ts (m_att m) Ha).
            destruct (accum_entry_fields _ _ _ _ _ Ha) as [_ <-]. reflexivity. }
          split.
          { split; [exact Hres|]. split; [eapply drep_meta_valid; exact R2|]. right. rewrite Es. exact R2. }
          split; [apply dok_snoc; [exact Hres|exact Hown0|rewrite Es; reflexivity]|].
          rewrite rd_snoc, Es. cbn [fst]. split; [exact R2|].
          eapply tmps_free_agree; [exact A|exact Hfree|].
          intros t' [E'|[E'|[]]]; inversion E'; subst; assumption.
      - (* increment_attempts *)
        destruct tmps0 as [|t tmps0]; cbn [length] in Htok; try lia.
        cbn [wf_op] in Hwf. destruct (rlookup (rd d) id0) as [en|] eqn:E; [|discriminate].
        inversion Hown; subst id0.
        pose proof Hrep as Hrep'. unfold disk_rep in Hrep'. rewrite E in Hrep'. destruct Hrep' as (e & m & He & Hm & Ha).
        destruct (accum_entry_fields _ _ _ _ _ Ha) as [Hts Hatt].
        assert (Es : ref_step (rd d) (OIncr id (t :: tmps0)) =
                     (aset N.eqb (rd d) id (mkEntry (en_env en) (en_ts en) (en_att en + 1)), RAtt (en_att en + 1)))
          by (cbn [ref_step]; rewrite E; reflexivity).
        apply (okrun_update enc_meta dec_meta chunk dec_enc_meta enc_meta_nonempty chunk_pos CI CB d _ id (t :: tmps0) t _ _ s m);
          try reflexivity; try exact Hm; try (apply Hfree, Htin; left; reflexivity).
        + intros s' A. split; [exact Hres|]. pose proof (agree_tmp_rep s s' t _ A Hrep) as R'.
          split; [eapply drep_meta_valid; exact R'|left; exact R'].
        + intros s2 A G F.
          assert (R2 : drep s2 (aset N.eqb (rd d) id (mkEntry (en_env en) (en_ts en) (en_att en + 1))) id).
          { unfold disk_rep, rlookup. rewrite nget_set_same. exists e, (mkMeta (m_ts m) (m_att m + 1) (m_deliv m)).
            split; [rewrite A; [exact He|intros [E'|[E'|[]]]; discriminate]|]. split; [exact G|].
            unfold deliv_list in *. cbn [m_ts m_att m_deliv].
            rewrite (accum_entry_meta e _ _ _ en (m_ts m) (m_att m + 1) Ha). rewrite Hts, Hatt. reflexivity. }
          split.
          { split; [exact Hres|]. split; [eapply drep_meta_valid; exact R2|]. right. rewrite Es. exact R2. }
          split; [apply dok_snoc; [exact Hres|exact Hown0|rewrite Es; cbn [snd m_att]; rewrite Hatt; reflexivity]|].
          rewrite rd_snoc, Es. cbn [fst]. split; [exact R2|].
          eapply tmps_free_agree; [exact A|exact Hfree|].
          intros t' [E'|[E'|[]]]; inversion E'; subst; assumption.
      - (* set_recipients_delivered *)
        destruct tmps0 as [|t tmps0]; cbn [length] in Htok; try lia.
        destruct (rlookup (rd d) id0) as [en|] eqn:E; [|cbn [wf_op] in Hwf; rewrite E in Hwf; discriminate].
        destruct (wf_deliv_round (rd d) id0 idxs (t :: tmps0) en Hwf E) as (l & Hl).
        inversion Hown; subst id0.
        pose proof Hrep as Hrep'. unfold disk_rep in Hrep'. rewrite E in Hrep'. destruct Hrep' as (e & m & He & Hm & Ha).
        destruct (accum_entry_fields _ _ _ _ _ Ha) as [Hts Hatt].
        assert (Es : ref_step (rd d) (ODeliv id idxs (t :: tmps0)) =
                     (aset N.eqb (rd d) id (mkEntry (with_rcpts (en_env en) l) (en_ts en) (en_att en)), RUnit))
          by (cbn [ref_step]; rewrite E, Hl; reflexivity).
        apply (okrun_update enc_meta dec_meta chunk dec_enc_meta enc_meta_nonempty chunk_pos CI CB d _ id (t :: tmps0) t _ _ s m);
          try reflexivity; try exact Hm; try (apply Hfree, Htin; left; reflexivity).
        + intros s' A. split; [exact Hres|]. pose proof (agree_tmp_rep s s' t _ A Hrep) as R'.
          split; [eapply drep_meta_valid; exact R'|left; exact R'].
        + intros s2 A G F.
          assert (R2 : drep s2 (aset N.eqb (rd d) id (mkEntry (with_rcpts (en_env en) l) (en_ts en) (en_att en))) id).
          { unfold disk_rep, rlookup. rewrite nget_set_same.
            exists e, (mkMeta (m_ts m) (m_att m) (Some (accum_mark (deliv_list m) idxs))).
            split; [rewrite A; [exact He|intros [E'|[E'|[]]]; discriminate]|]. split; [exact G|].
            unfold deliv_list in *. cbn [m_ts m_att m_deliv].
            rewrite (accum_entry_mark e _ _ _ en idxs l Ha Hl), Hts, Hatt. reflexivity. }
          split.
          { split; [exact Hres|]. split; [eapply drep_meta_valid; exact R2|]. right. rewrite Es. exact R2. }
          split; [apply dok_snoc; [exact Hres|exact Hown0|rewrite Es; reflexivity]|].
          rewrite rd_snoc, Es. cbn [fst]. split; [exact R2|].
          eapply tmps_free_agree; [exact A|exact Hfree|].
          intros t' [E'|[E'|[]]]; inversion E'; subst; assumption.
      - (* get *)
        inversion Hown; subst id0.
        apply (okrun_readonly CI CB); [apply readonly_get| |].
        + split; [exact Hres|]. split; [exact Hmv|left; exact Hrep].
        + assert (Es : fst (ref_step (rd d) (OGet id)) = rd d) by (cbn [ref_step]; destruct (rlookup (rd d) id); reflexivity).
          split; [|rewrite rd_snoc, Es; split; assumption].
          apply dok_snoc; [exact Hres|exact Hown0|].
          change (d_get dec_env dec_meta id) with (dprog_of (OGet id)). cbn [disk_prog ref_step].
          unfold disk_rep in Hrep. destruct (rlookup (rd d) id) as [en|] eqn:E.
          * destruct Hrep as (e & m & He & Hm & Ha).
            rewrite (get_run_live enc_env dec_env enc_meta dec_meta dec_enc_env dec_enc_meta s id e m Hm He). cbn [snd].
            unfold accum_entry in Ha. destruct (accum_get (deliv_list m) (e_rcpts e)); [|discriminate].
            inversion Ha; subst en. reflexivity.
          * destruct Hrep as [He Hm]. rewrite (get_run_nometa dec_env dec_meta s id Hm). reflexivity.
      - (* remove *)
        inversion Hown; subst id0.
        assert (Es : ref_step (rd d) (ORemove id) = (adel N.eqb (rd d) id, RUnit)) by reflexivity.
        apply (okrun_remove enc_env dec_env enc_meta dec_meta chunk CI CB).
        + split; [exact Hres|]. split; [exact Hmv|exact I].
        + split; [exact Hres|]. split; [|exact I].
          unfold meta_valid in *. rewrite fget_fdel_other by discriminate. exact Hmv.
        + split; [apply dok_snoc; [exact Hres|exact Hown0|rewrite Es; reflexivity]|].
          rewrite rd_snoc, Es. cbn [fst]. split.
          * unfold disk_rep, rlookup. rewrite nget_del_same.
            split; [rewrite fget_fdel_other by discriminate; apply fget_fdel_same|apply fget_fdel_same].
          * intros t Ht. rewrite !fget_fdel_other by discriminate. apply Hfree. exact Ht.
    Qed.

    Lemma crash_todo_next d o r rest : Ctodo d (o :: rest) -> Ctodo (d ++ [(o, r)]) rest.
    Proof.
      intros [Hwf Hops]. cbn [wf_ops] in Hwf. apply andb_prop in Hwf as [_ Hwf].
      inversion Hops; subst. split; [rewrite rd_snoc; exact Hwf|assumption].
    Qed.

    (* the invariant holds at every step of the thread run alone *)
    Lemma crash_solo s0 ops n :
      fget s0 (PEnv id) = None -> fget s0 (PMeta id) = None -> tmps_free s0 ->
      wf_ops [] ops = true -> Forall op_ok ops ->
      th_inv fs dcmd dans dexec CI CB Ctodo
             (fst (asteps dexec (th_next dprog_of) n s0 (th_start ops)))
             (snd (asteps dexec (th_next dprog_of) n s0 (th_start ops))).
    Proof.
      intros He Hm Hf Hwf Hops.
      apply (th_inv_steps fs dcmd dans dexec dprog_of CI CB Ctodo crash_start_ok crash_todo_next).
      apply th_inv_start.
      - split; assumption.
      - split; [split; [reflexivity|constructor]|]. split; [|exact Hf]. unfold disk_rep. cbn. split; assumption.
    Qed.
  End OneThread.

  (* what the crash theorem says about one thread in the surviving state *)
  Definition crash_ok (id : N) (s : fs) (th : disk_thread) : Prop :=
    dok id (th_done th) /\
    meta_valid id s /\
    match th_cur th with
    | None => dview s id = rlookup (rd (th_done th)) id
    | Some (ORemove _, _) => True
    | Some (OWrite e ts cands tmps, _) =>
        (rlookup (rd (th_done th)) id = None /\ fget s (PMeta id) = None) \/
        dview s id = rlookup (rd (th_done th)) id \/
        dview s id = rlookup (fst (ref_step (rd (th_done th)) (OWrite e ts cands tmps))) id
    | Some (o, _) =>
        dview s id = rlookup (rd (th_done th)) id \/
        dview s id = rlookup (fst (ref_step (rd (th_done th)) o)) id
    end.

  Lemma th_inv_crash_ok id tmps s th :
    th_inv fs dcmd dans dexec (CI id) (CB id tmps) (Ctodo id tmps) s th -> crash_ok id s th.
  Proof.
    intros Hinv. destruct Hinv as (Ht & Hc). unfold crash_ok.
    destruct (th_cur th) as [[o p]|] eqn:Ec.
    - destruct Hc as (Hp & c & k & ->). inversion Hp as [|? ? ? (Hres & Hmv & Hi) _]; subst.
      split; [exact Hres|]. split; [exact Hmv|].
      destruct o; try exact I;
        try (destruct Hi as [Hi|Hi]; [left|right]; apply drep_view; exact Hi).
      destruct Hi as [Hi|[Hi|Hi]]; [left; exact Hi|right; left; apply drep_view; exact Hi|right; right; apply drep_view; exact Hi].
    - destruct Hc as (Hres & Hrep & _). split; [exact Hres|]. split; [eapply drep_meta_valid; exact Hrep|].
      apply drep_view. exact Hrep.
  Qed.

  Lemma crash_ok_ext id s s' th :
    fget s' (PEnv id) = fget s (PEnv id) -> fget s' (PMeta id) = fget s (PMeta id) ->
    crash_ok id s th -> crash_ok id s' th.
  Proof.
    intros E1 E2 (H1 & H2 & H3). unfold crash_ok, meta_valid in *.
    rewrite (disk_view_ext dec_env dec_meta s s' id E2 E1), E2.
    split; [exact H1|]. split; [exact H2|exact H3].
  Qed.

  (* ------------------------- several messages, any interleaving, any prefix *)
  Definition cspec_ok (s0 : fs) (sp : dspec) : Prop :=
    let '(id, tmps, ops) := sp in
    fget s0 (PEnv id) = None /\ fget s0 (PMeta id) = None /\
    (forall t, In t tmps -> fget s0 (PTmp t) = None) /\
    wf_ops [] ops = true /\ Forall (op_ok id tmps) ops.

  Lemma cspec_dspec s0 sp : cspec_ok s0 sp -> dspec_ok sp.
  Proof.
    destruct sp as [[id tmps] ops]. intros (_ & _ & _ & _ & H). cbn [dspec_ok].
    eapply Forall_impl; [|exact H]. intros o (H1 & H2 & _). split; assumption.
  Qed.

  Theorem crash_safe s0 (specs : list dspec) sch :
    NoDup (map (fun sp => fst (fst sp)) specs) ->
    (forall i j spi spj t, i <> j -> nth_error specs i = Some spi -> nth_error specs j = Some spj ->
                           In t (snd (fst spi)) -> ~ In t (snd (fst spj))) ->
    Forall (cspec_ok s0) specs ->
    let out := sched dexec (th_next dprog_of) sch s0 (map (fun sp => th_start (snd sp)) specs) in
    (forall i id tmps ops, nth_error specs i = Some (id, tmps, ops) ->
       exists th, nth_error (snd out) i = Some th /\ crash_ok id (fst out) th) /\
    (forall q, (forall sp, In sp specs -> dfoot (fst (fst sp)) (snd (fst sp)) q = false) -> fget (fst out) q = fget s0 q).
  Proof.
    intros Hnd Htd Hok out.
    assert (Hds : Forall dspec_ok specs) by (eapply Forall_impl; [|exact Hok]; intros sp; apply cspec_dspec).
    destruct (frame_interleaved_disk enc_env dec_env enc_meta dec_meta chunk s0 specs sch Hnd Htd Hds) as [H1 H2].
    fold out in H1, H2. split; [|exact H2].
    intros i id tmps ops E.
    destruct (H1 i id tmps ops E) as (n & si & th & R1 & R2 & Le & Lm & _ & _).
    exists th. split; [exact R2|].
    rewrite Forall_forall in Hok. pose proof (Hok _ (nth_error_In _ _ E)) as (A1 & A2 & A3 & A4 & A5).
    pose proof (crash_solo id tmps s0 ops n A1 A2 A3 A4 A5) as Hinv. rewrite R1 in Hinv. cbn [fst snd] in Hinv.
    apply (crash_ok_ext id si (fst out) th Le Lm). eapply th_inv_crash_ok. exact Hinv.
  Qed.

  (* ------------------------------------------------- recovery (fresh instance) *)
  Lemma recover_get_view s id :
    recover_get dec_env dec_meta s id =
    match fget s (PMeta id) with
    | None => RMissing
    | Some mb =>
        match dec_meta mb with
        | None => RCorrupt
        | Some m =>
            match fget s (PEnv id) with
            | None => RMissing
            | Some eb =>
                match dec_env eb with
                | None => RCorrupt
                | Some e => match accum_get (deliv_list m) (e_rcpts e) with
                            | Some l => RGot (with_rcpts e l) (m_att m)
                            | None => RIndexErr
                            end
                end
            end
        end
    end.
  Proof.
    unfold recover_get, d_get, read_meta. cbn [run dexec snd].
    destruct (fget s (PMeta id)) as [mb|]; [|reflexivity].
    destruct (dec_meta mb) as [m|]; [|reflexivity]. cbn [run dexec snd].
    destruct (fget s (PEnv id)) as [eb|]; [|reflexivity].
    destruct (dec_env eb) as [e|]; [|reflexivity].
    destruct (accum_get (deliv_list m) (e_rcpts e)); reflexivity.
  Qed.

  Lemma recover_get_of_view s id en :
    dview s id = Some en -> recover_get dec_env dec_meta s id = RGot (en_env en) (en_att en).
  Proof.
    rewrite recover_get_view. unfold disk_view.
    destruct (fget s (PMeta id)) as [mb|]; [|discriminate].
    destruct (fget s (PEnv id)) as [eb|]; [|discriminate].
    destruct (dec_meta mb) as [m|]; [|discriminate].
    destruct (dec_env eb) as [e|]; [|discriminate].
    destruct (accum_get (deliv_list m) (e_rcpts e)); [|discriminate].
    intros H; inversion H; reflexivity.
  Qed.

  Lemma view_listed s id en :
    metas_ok dec_meta s -> dview s id = Some en ->
    exists l, recover_load enc_env dec_env enc_meta dec_meta chunk s = RLoad l /\ In (en_ts en, id) l.
  Proof.
    intros Hok Hv. unfold recover_load. rewrite (load_run enc_env dec_env enc_meta dec_meta chunk s 0 Hok). cbn [snd].
    eexists. split; [reflexivity|]. apply In_load_list. unfold disk_view in Hv.
    destruct (fget s (PMeta id)) as [mb|] eqn:Em; [|discriminate].
    destruct (fget s (PEnv id)) as [eb|] eqn:Ee; [|discriminate].
    destruct (dec_meta mb) as [m|] eqn:Ed; [|discriminate].
    destruct (dec_env eb) as [e|]; [|discriminate].
    destruct (accum_get (deliv_list m) (e_rcpts e)); [|discriminate].
    inversion Hv; subst en. cbn [en_ts]. split; [apply env_ids_In; congruence|].
    exists mb, m. repeat split; assumption.
  Qed.

  (* load() of a fresh instance never raises as long as every meta file is a
     complete pickle, and lists exactly the ids with an env file and a meta file *)
  Lemma recover_load_spec s :
    metas_ok dec_meta s ->
    exists l, recover_load enc_env dec_env enc_meta dec_meta chunk s = RLoad l /\ NoDup l /\
              forall ts id, In (ts, id) l <->
                fget s (PEnv id) <> None /\ exists b m, fget s (PMeta id) = Some b /\ dec_meta b = Some m /\ m_ts m = ts.
  Proof.
    intros Hok. unfold recover_load. rewrite (load_run enc_env dec_env enc_meta dec_meta chunk s 0 Hok). cbn [snd].
    eexists. split; [reflexivity|]. split; [apply NoDup_load_list, env_ids_NoDup|].
    intros ts id. rewrite In_load_list, env_ids_In. reflexivity.
  Qed.

  (* partial files of OTHER messages never change what is recovered for a message *)
  Lemma partial_files_harmless s s' id :
    fget s' (PEnv id) = fget s (PEnv id) -> fget s' (PMeta id) = fget s (PMeta id) ->
    recover_get dec_env dec_meta s' id = recover_get dec_env dec_meta s id /\
    dview s' id = dview s id /\
    (metas_ok dec_meta s -> metas_ok dec_meta s' ->
     forall ts, (exists l, recover_load enc_env dec_env enc_meta dec_meta chunk s' = RLoad l /\ In (ts, id) l) <->
                (exists l, recover_load enc_env dec_env enc_meta dec_meta chunk s = RLoad l /\ In (ts, id) l)).
  Proof.
    intros Ee Em. split; [rewrite !recover_get_view, Ee, Em; reflexivity|].
    split; [apply disk_view_ext; assumption|].
    intros Hok Hok' ts.
    destruct (recover_load_spec s Hok) as (l & El & _ & Hl).
    destruct (recover_load_spec s' Hok') as (l' & El' & _ & Hl').
    split.
    - intros (l0 & E0 & Hin). rewrite El' in E0. inversion E0; subst l0.
      exists l. split; [exact El|]. apply Hl. apply Hl' in Hin. rewrite Ee, Em in Hin. exact Hin.
    - intros (l0 & E0 & Hin). rewrite El in E0. inversion E0; subst l0.
      exists l'. split; [exact El'|]. apply Hl'. apply Hl in Hin. rewrite Ee, Em. exact Hin.
  Qed.

  (* every state reached from a state with readable meta files has readable meta files *)
  Lemma crash_metas_ok s0 (specs : list dspec) sch :
    NoDup (map (fun sp => fst (fst sp)) specs) ->
    (forall i j spi spj t, i <> j -> nth_error specs i = Some spi -> nth_error specs j = Some spj ->
                           In t (snd (fst spi)) -> ~ In t (snd (fst spj))) ->
    Forall (cspec_ok s0) specs -> metas_ok dec_meta s0 ->
    metas_ok dec_meta (fst (sched dexec (th_next dprog_of) sch s0 (map (fun sp => th_start (snd sp)) specs))).
  Proof.
    intros Hnd Htd Hok Hm0 id b E.
    destruct (crash_safe s0 specs sch Hnd Htd Hok) as [H1 H2].
    destruct (in_dec N.eq_dec id (map (fun sp : dspec => fst (fst sp)) specs)) as [Hin|Hni].
    - apply in_map_iff in Hin as ([[id' tmps] ops] & Eid & Hsp). cbn [fst] in Eid. subst id'.
      destruct (In_nth_error _ _ Hsp) as (i & Ei).
      destruct (H1 i id tmps ops Ei) as (th & _ & (_ & Hmv & _)).
      destruct Hmv as [Hn|(m & Hm)]; [congruence|]. rewrite Hm in E. inversion E; subst b.
      rewrite dec_enc_meta. discriminate.
    - rewrite H2 in E; [exact (Hm0 id b E)|].
      intros [[id' tmps] ops] Hsp. cbn [fst snd dfoot]. apply N.eqb_neq. intros ->.
      apply Hni. apply in_map_iff. exists (id, tmps, ops). split; [reflexivity|exact Hsp].
  Qed.

  (* ----------------- acknowledged and not removed => present, as written *)
  Definition is_remove (o : op) : bool := match o with ORemove _ => true | _ => false end.

  Lemma ref_keeps_message id r ops en :
    rlookup r id = Some en -> Forall (owns id) ops -> forallb (fun o => negb (is_remove o)) ops = true ->
    exists en', rlookup (fst (ref_run r ops)) id = Some en' /\
                e_sender (en_env en') = e_sender (en_env en) /\ e_content (en_env en') = e_content (en_env en).
  Proof.
    revert r en; induction ops as [|o ops IH]; intros r en E Hown Hnr; cbn [ref_run].
    - exists en. repeat split; [exact E|..]; reflexivity.
    - inversion Hown as [|? ? Ho Hown']; subst. cbn [forallb] in Hnr. apply andb_prop in Hnr as [Hn1 Hn2].
      assert (Hstep : exists en1, rlookup (fst (ref_step r o)) id = Some en1 /\
                                  e_sender (en_env en1) = e_sender (en_env en) /\ e_content (en_env en1) = e_content (en_env en)).
      { destruct o; cbn [owns op_id is_remove negb] in *; try contradiction; try discriminate;
          try (inversion Ho; subst id0); cbn [ref_step]; unfold rlookup in *.
        - subst cands. cbn [first_free]. unfold rlookup. rewrite E. cbn [fst]. exists en. auto.
        - rewrite E. cbn [fst]. rewrite nget_set_same. eexists. split; [reflexivity|]. split; reflexivity.
        - rewrite E. cbn [fst]. rewrite nget_set_same. eexists. split; [reflexivity|]. split; reflexivity.
        - rewrite E. destruct (round idxs (e_rcpts (en_env en))); cbn [fst].
          + rewrite nget_set_same. eexists. split; [reflexivity|]. split; reflexivity.
          + exists en. auto.
        - rewrite E. cbn [fst]. exists en. auto. }
      destruct Hstep as (en1 & E1 & S1 & C1).
      destruct (ref_step r o) as [r1 x]. cbn [fst] in E1.
      destruct (IH r1 en1 E1 Hown' Hn2) as (en' & E' & S' & C').
      destruct (ref_run r1 ops) as [r2 xs]. cbn [fst] in *.
      exists en'. split; [exact E'|]. split; congruence.
  Qed.

  Lemma acked_live id d e ts c t :
    results_ok d -> Forall (owns id) (map fst d) ->
    forall pre post, d = pre ++ (OWrite e ts c t, RId id) :: post ->
    forallb (fun o => negb (is_remove o)) (map fst post) = true ->
    exists en, rlookup (rd d) id = Some en /\
               e_sender (en_env en) = e_sender e /\ e_content (en_env en) = e_content e.
  Proof.
    intros Hres Hown pre post -> Hnr. unfold rd, results_ok in *.
    rewrite !map_app in *. cbn [map fst snd] in *.
    rewrite ref_run_app in *. destruct (ref_run [] (map fst pre)) as [r1 xs] eqn:E1.
    cbn [ref_run] in *. destruct (ref_step r1 (OWrite e ts c t)) as [r2 x] eqn:E2.
    destruct (ref_run r2 (map fst post)) as [r3 ys] eqn:E3. cbn [fst snd] in *.
    assert (Hx : x = RId id).
    { assert (Hlen : length (map snd pre) = length xs).
      { rewrite map_length, <- (map_length fst pre), <- (ref_run_length [] (map fst pre)), E1. reflexivity. }
      destruct (app_eq_same_length _ _ _ _ Hres Hlen) as [_ Ht]. inversion Ht. reflexivity. }
    subst x. destruct (ref_write_fresh r1 e ts c t r2 id E2) as (_ & _ & Hl).
    apply Forall_app in Hown as [_ Hown]. inversion Hown as [|? ? _ Hown']; subst.
    pose proof (ref_keeps_message id r2 (map fst post) _ Hl Hown' Hnr) as (en' & E' & S' & C').
    rewrite E3 in E'. cbn [fst] in E'. exists en'. split; [exact E'|]. split; assumption.
  Qed.

  Lemma ref_step_keeps id r o en :
    rlookup r id = Some en -> is_remove o = false ->
    (forall e ts c t, o <> OWrite e ts c t) ->
    exists en1, rlookup (fst (ref_step r o)) id = Some en1 /\
                e_sender (en_env en1) = e_sender (en_env en) /\ e_content (en_env en1) = e_content (en_env en).
  Proof.
    intros E Hr Hw. destruct o; cbn [is_remove] in Hr; try discriminate; cbn [ref_step]; unfold rlookup in *.
    - exfalso. eapply Hw. reflexivity.
    - destruct (N.eq_dec id0 id) as [->|Hne].
      + rewrite E. cbn [fst]. rewrite nget_set_same. eexists. split; [reflexivity|split; reflexivity].
      + destruct (alookup N.eqb r id0); cbn [fst]; [rewrite nget_set_other by exact Hne|]; exists en; auto.
    - destruct (N.eq_dec id0 id) as [->|Hne].
      + rewrite E. cbn [fst]. rewrite nget_set_same. eexists. split; [reflexivity|split; reflexivity].
      + destruct (alookup N.eqb r id0); cbn [fst]; [rewrite nget_set_other by exact Hne|]; exists en; auto.
    - destruct (N.eq_dec id0 id) as [->|Hne].
      + rewrite E. destruct (round idxs (e_rcpts (en_env en))); cbn [fst].
        * rewrite nget_set_same. eexists. split; [reflexivity|split; reflexivity].
        * exists en. auto.
      + destruct (alookup N.eqb r id0) as [en0|]; cbn [fst]; [|exists en; auto].
        destruct (round idxs (e_rcpts (en_env en0))); cbn [fst]; [rewrite nget_set_other by exact Hne|]; exists en; auto.
    - cbn [fst]. exists en. auto.
    - destruct (alookup N.eqb r id0); cbn [fst]; exists en; auto.
  Qed.

  (* the headline: an acknowledged message that has not been handed to remove()
     is found by a fresh DiskStorage, with sender and content as written *)
  Theorem acked_not_lost s0 (specs : list dspec) sch :
    NoDup (map (fun sp => fst (fst sp)) specs) ->
    (forall i j spi spj t, i <> j -> nth_error specs i = Some spi -> nth_error specs j = Some spj ->
                           In t (snd (fst spi)) -> ~ In t (snd (fst spj))) ->
    Forall (cspec_ok s0) specs -> metas_ok dec_meta s0 ->
    let out := sched dexec (th_next dprog_of) sch s0 (map (fun sp => th_start (snd sp)) specs) in
    forall i id tmps ops th, nth_error specs i = Some (id, tmps, ops) -> nth_error (snd out) i = Some th ->
    forall pre post e ts c t,
      th_done th = pre ++ (OWrite e ts c t, RId id) :: post ->
      forallb (fun o => negb (is_remove o)) (map fst post) = true ->
      (forall o p, th_cur th = Some (o, p) -> is_remove o = false) ->
      exists en, dview (fst out) id = Some en /\
                 e_sender (en_env en) = e_sender e /\ e_content (en_env en) = e_content e /\
                 recover_get dec_env dec_meta (fst out) id = RGot (en_env en) (en_att en) /\
                 exists l, recover_load enc_env dec_env enc_meta dec_meta chunk (fst out) = RLoad l /\ In (en_ts en, id) l.
  Proof.
    intros Hnd Htd Hok Hm0 out i id tmps ops th Ei Eth pre post e ts c t Ed Hnr Hcur.
    destruct (crash_safe s0 specs sch Hnd Htd Hok) as [H1 _]. fold out in H1.
    destruct (H1 i id tmps ops Ei) as (th' & Eth' & ([Hres Hown] & Hmv & Hc)).
    rewrite Eth in Eth'. inversion Eth'; subst th'. clear Eth'.
    destruct (acked_live id (th_done th) e ts c t Hres Hown pre post Ed Hnr) as (en0 & E0 & S0 & C0).
    assert (Hv : exists en, dview (fst out) id = Some en /\
                            e_sender (en_env en) = e_sender e /\ e_content (en_env en) = e_content e).
    { destruct (th_cur th) as [[o p]|] eqn:Ec.
      - specialize (Hcur o p eq_refl).
        destruct o; cbn [is_remove] in Hcur; try discriminate.
        + destruct Hc as [[Hn _]|[Hc|Hc]]; [congruence|exists en0; rewrite Hc; auto|].
          exists en0. rewrite Hc. split; [|auto]. cbn [ref_step].
          destruct (first_free (rd (th_done th)) cands) as [c0|] eqn:Ef; cbn [fst]; [|exact E0].
          destruct (first_free_spec _ _ _ Ef) as [Hfree _]. unfold rlookup in *.
          rewrite nget_set_other; [exact E0|]. intros ->. congruence.
        + destruct Hc as [Hc|Hc]; [exists en0; rewrite Hc; auto|].
          destruct (ref_step_keeps id (rd (th_done th)) (OSetTs id0 ts0 tmps0) en0 E0 eq_refl) as (en1 & E1 & S1 & C1); [discriminate|].
          exists en1. rewrite Hc. split; [exact E1|split; congruence].
        + destruct Hc as [Hc|Hc]; [exists en0; rewrite Hc; auto|].
          destruct (ref_step_keeps id (rd (th_done th)) (OIncr id0 tmps0) en0 E0 eq_refl) as (en1 & E1 & S1 & C1); [discriminate|].
          exists en1. rewrite Hc. split; [exact E1|split; congruence].
        + destruct Hc as [Hc|Hc]; [exists en0; rewrite Hc; auto|].
          destruct (ref_step_keeps id (rd (th_done th)) (ODeliv id0 idxs tmps0) en0 E0 eq_refl) as (en1 & E1 & S1 & C1); [discriminate|].
          exists en1. rewrite Hc. split; [exact E1|split; congruence].
        + destruct Hc as [Hc|Hc]; [exists en0; rewrite Hc; auto|].
          destruct (ref_step_keeps id (rd (th_done th)) (OLoad now) en0 E0 eq_refl) as (en1 & E1 & S1 & C1); [discriminate|].
          exists en1. rewrite Hc. split; [exact E1|split; congruence].
        + destruct Hc as [Hc|Hc]; [exists en0; rewrite Hc; auto|].
          destruct (ref_step_keeps id (rd (th_done th)) (OGet id0) en0 E0 eq_refl) as (en1 & E1 & S1 & C1); [discriminate|].
          exists en1. rewrite Hc. split; [exact E1|split; congruence].
      - exists en0. rewrite Hc. auto. }
    destruct Hv as (en & Hv & S & C). exists en. split; [exact Hv|]. split; [exact S|]. split; [exact C|].
    split; [apply recover_get_of_view; exact Hv|].
    apply view_listed; [|exact Hv]. apply crash_metas_ok; assumption.
  Qed.

  (* AioFile.dump alone, stopped after any number of its commands: everything
     but the temp file and the target is untouched; the target holds what it
     held before until the very end, when it holds the complete data and the
     temp name is gone *)
  Lemma dump_atomic data p t r s n :
    data <> [] -> p <> PTmp t -> fget s (PTmp t) = None ->
    let st := asteps dexec prog_next n s (dump chunk data p t (Ret r)) in
    (forall q, q <> PTmp t -> q <> p -> fget (fst st) q = fget s q) /\
    (fget (fst st) p = fget s p \/ (fget (fst st) p = Some data /\ fget (fst st) (PTmp t) = None)) /\
    match snd st with
    | Ret _ => fget (fst st) p = Some data /\ fget (fst st) (PTmp t) = None
    | Do _ _ => True
    end.
  Proof.
    intros Hd Hp Hf st.
    set (B := fun (_ : list (op * res)) (s' : fs) =>
                agree_but [PTmp t; p] s s' /\ fget s' p = Some data /\ fget s' (PTmp t) = None).
    set (I := fun (_ : list (op * res)) (_ : op) (s' : fs) => agree_but [PTmp t] s s' \/ B [] s').
    assert (Hok : okrun fs dcmd dans dexec I B [] (OGet 0) s (dump chunk data p t (Ret r))).
    { apply (okrun_dump chunk chunk_pos I B); try assumption.
      - intros s' A. left. exact A.
      - intros s2 A G F. split; [right; repeat split; assumption|apply ok_ret; repeat split; assumption]. }
    pose proof (okrun_asteps fs dcmd dans dexec I B [] (OGet 0) n s _ Hok) as H. fold st in H.
    assert (HB : forall s', B [] s' ->
                 (forall q, q <> PTmp t -> q <> p -> fget s' q = fget s q) /\
                 (fget s' p = fget s p \/ (fget s' p = Some data /\ fget s' (PTmp t) = None))).
    { intros s' (A & G & F). split; [|right; split; assumption].
      intros q Hq1 Hq2. apply A. intros [E|[E|[]]]; congruence. }
    destruct (snd st) as [r'|c k].
    - destruct (HB _ H) as [H1 H2]. split; [exact H1|]. split; [exact H2|]. destruct H as (_ & G & F). split; assumption.
    - destruct H as [A|Hb].
      + split; [|split; [left|exact Logic.I]].
        * intros q Hq1 Hq2. apply A. intros [E|[]]; congruence.
        * apply A. intros [E|[]]; congruence.
      + destruct (HB _ Hb) as [H1 H2]. split; [exact H1|]. split; [exact H2|exact Logic.I].
  Qed.

  (* ---- short writes and write errors: whatever the asynchronous writes do
     (store fewer bytes than asked, any number of times; report an error at any
     point), the file that gets published holds the complete data *)
  Section Faulty.
    Variable cfg : wcfg.
    Hypothesis cfg_chunk : w_chunk cfg <> O.
    Variable I' : list (op * res) -> op -> fs -> Prop.
    Variable B' : list (op * res) -> fs -> Prop.
    Notation okrun' := (okrun fs dcmd dans dexec I' B').

    Lemma okrun_write_loop_faulty d o p t k data s :
      p <> PTmp t ->
      (forall s', agree_but [PTmp t] s s' -> I' d o s') ->
      (forall s', agree_but [PTmp t] s s' -> B' (d ++ [(o, REmptyWrite)]) s') ->
      (forall s2, agree_but [PTmp t; p] s s2 -> fget s2 p = Some data -> fget s2 (PTmp t) = None ->
                  I' d o s2 /\ okrun' d o s2 k) ->
      forall fuel rest sofar off s1,
        agree_but [PTmp t] s s1 -> fget s1 (PTmp t) = Some sofar -> off = N.of_nat (length sofar) ->
        sofar ++ rest = data -> rest <> [] -> (length rest <= fuel)%nat ->
        okrun' d o s1 (write_loop cfg fuel t off rest p k).
    Proof.
      intros Hp HI HE HK. induction fuel as [|f IH]; intros rest sofar off s1 Hag Hget Hoff Hdata Hne Hlen.
      { destruct rest; [congruence|cbn [length] in Hlen; lia]. }
      destruct rest as [|x r]; [congruence|].
      destruct (w_chunk cfg) as [|c] eqn:Ec; [congruence|].
      cbn [write_loop]. rewrite Ec, firstn_cons. unfold written.
      destruct (w_fault cfg t off (length (x :: firstn c r))) as [w0|] eqn:Ew.
      2:{ apply ok_do; [apply HI; exact Hag|]. intros s' a E. cbn [dexec] in E. inversion E; subst s' a.
          apply ok_ret. apply HE. exact Hag. }
      set (n := length (x :: firstn c r)) in *.
      set (w := if (Nat.ltb 0 w0 && Nat.ltb w0 n)%bool then w0 else n).
      assert (Hn : (1 <= n <= length (x :: r))%nat).
      { unfold n. cbn [length]. rewrite firstn_length. lia. }
      assert (Hw : (1 <= w <= n)%nat).
      { unfold w. destruct (Nat.ltb 0 w0 && Nat.ltb w0 n)%bool eqn:E; [|lia].
        apply andb_prop in E as [E1 E2]. apply Nat.ltb_lt in E1. apply Nat.ltb_lt in E2. lia. }
      destruct w as [|w']; [lia|]. rewrite firstn_cons.
      apply ok_do; [apply HI; exact Hag|].
      intros s' a E. cbn [dexec] in E. rewrite Hget in E. inversion E; subst s' a; clear E.
      subst off. rewrite pwrite_end.
      set (piece := x :: firstn w' r) in *.
      set (s2 := aset path_eqb s1 (PTmp t) (sofar ++ piece)).
      assert (Hag2 : agree_but [PTmp t] s s2).
      { eapply agree_but_trans; [exact Hag|]. apply (agree_but_fset [PTmp t] s1). left; reflexivity. }
      assert (Hget2 : fget s2 (PTmp t) = Some (sofar ++ piece)) by apply fget_fset_same.
      assert (Hsplit : piece ++ skipn (S w') (x :: r) = x :: r).
      { unfold piece. rewrite <- firstn_cons. apply firstn_skipn. }
      assert (Hpl : length piece = S w').
      { unfold piece. rewrite <- firstn_cons, firstn_length. lia. }
      destruct (skipn (S w') (x :: r)) as [|y r'] eqn:Er.
      - apply ok_do; [apply HI; exact Hag2|].
        intros s' a E. cbn [dexec] in E. rewrite Hget2 in E. inversion E; subst s' a; clear E.
        rewrite app_nil_r in Hsplit.
        match goal with |- okrun _ _ _ _ _ _ _ _ ?st _ => assert (HK' : I' d o st /\ okrun' d o st k) end.
        2:{ destruct HK' as [HI' HK']. apply ok_do; [exact HI'|].
            intros s' a E. cbn [dexec] in E. inversion E; subst s' a. exact HK'. }
        apply HK.
        + intros q Hq. change (fget (fset (fdel s2 (PTmp t)) p (sofar ++ piece)) q = fget s q).
          rewrite fget_fset_other by (intros ->; apply Hq; right; left; reflexivity).
          rewrite fget_fdel_other by (intros <-; apply Hq; left; reflexivity).
          apply Hag2. intros [<-|[]]. apply Hq. left; reflexivity.
        + change (fget (fset (fdel s2 (PTmp t)) p (sofar ++ piece)) p = Some data).
          rewrite fget_fset_same, Hsplit. congruence.
        + change (fget (fset (fdel s2 (PTmp t)) p (sofar ++ piece)) (PTmp t) = None).
          rewrite fget_fset_other by exact Hp. apply fget_fdel_same.
      - assert (Hl : (length (y :: r') <= f)%nat).
        { rewrite <- Er, skipn_length. cbn [length] in *. lia. }
        destruct f as [|f']; [cbn [length] in Hl; lia|].
        apply (IH (y :: r') (sofar ++ piece)); try assumption.
        + rewrite app_length, Hpl. lia.
        + rewrite <- app_assoc, Hsplit. exact Hdata.
        + discriminate.
    Qed.
  End Faulty.

  Lemma dump_complete_despite_short_writes (cfg : wcfg) data p t r s n :
    w_chunk cfg <> O -> data <> [] -> p <> PTmp t -> fget s (PTmp t) = None ->
    let st := asteps dexec prog_next n s (dump cfg data p t (Ret r)) in
    (forall q, q <> PTmp t -> q <> p -> fget (fst st) q = fget s q) /\
    (fget (fst st) p = fget s p \/ (fget (fst st) p = Some data /\ fget (fst st) (PTmp t) = None)) /\
    match snd st with
    | Ret x => (x = r /\ fget (fst st) p = Some data /\ fget (fst st) (PTmp t) = None) \/
               (x = REmptyWrite /\ fget (fst st) p = fget s p)
    | Do _ _ => True
    end.
  Proof.
    intros Hc Hd Hp Hf st.
    set (Done := fun (s' : fs) => agree_but [PTmp t; p] s s' /\ fget s' p = Some data /\ fget s' (PTmp t) = None).
    set (B' := fun (dd : list (op * res)) (s' : fs) =>
                 (dd = [(OGet 0, r)] /\ Done s') \/ (dd = [(OGet 0, REmptyWrite)] /\ agree_but [PTmp t] s s')).
    set (I' := fun (_ : list (op * res)) (_ : op) (s' : fs) => agree_but [PTmp t] s s' \/ Done s').
    assert (Hok : okrun fs dcmd dans dexec I' B' [] (OGet 0) s (dump cfg data p t (Ret r))).
    { unfold dump. apply ok_do; [left; apply agree_but_refl|].
      intros s' a E. cbn [dexec] in E. rewrite amem_fget, Hf in E. inversion E; subst s' a; clear E.
      assert (HI0 : forall s', agree_but [PTmp t] s s' -> I' [] (OGet 0) s') by (intros s' A; left; exact A).
      assert (HE0 : forall s', agree_but [PTmp t] s s' -> B' ([] ++ [(OGet 0, REmptyWrite)]) s')
        by (intros s' A; right; split; [reflexivity|exact A]).
      assert (HK0 : forall s2, agree_but [PTmp t; p] s s2 -> fget s2 p = Some data -> fget s2 (PTmp t) = None ->
                               I' [] (OGet 0) s2 /\ okrun fs dcmd dans dexec I' B' [] (OGet 0) s2 (Ret r)).
      { intros s2 A G F. split; [right; repeat split; assumption|].
        apply ok_ret. left. split; [reflexivity|repeat split; assumption]. }
      apply (okrun_write_loop_faulty cfg Hc I' B' [] (OGet 0) p t (Ret r) data s Hp HI0 HE0 HK0 (length data) data [] 0).
      - apply (agree_but_fset [PTmp t] s). left; reflexivity.
      - apply fget_fset_same.
      - reflexivity.
      - reflexivity.
      - exact Hd.
      - lia. }
    pose proof (okrun_asteps fs dcmd dans dexec I' B' [] (OGet 0) n s _ Hok) as H. fold st in H.
    assert (HD : forall s', Done s' ->
                 (forall q, q <> PTmp t -> q <> p -> fget s' q = fget s q) /\
                 (fget s' p = fget s p \/ (fget s' p = Some data /\ fget s' (PTmp t) = None))).
    { intros s' (A & G & F). split; [|right; split; assumption].
      intros q Hq1 Hq2. apply A. intros [E|[E|[]]]; congruence. }
    assert (HA : forall s', agree_but [PTmp t] s s' ->
                 (forall q, q <> PTmp t -> q <> p -> fget s' q = fget s q) /\ fget s' p = fget s p).
    { intros s' A. split; [intros q Hq1 Hq2|]; apply A; intros [E|[]]; congruence. }
    destruct (snd st) as [x|c k].
    - cbn [app] in H. destruct H as [[E Hdn]|[E A]]; inversion E; subst x.
      + destruct (HD _ Hdn) as [H1 H2]. split; [exact H1|]. split; [exact H2|].
        left. destruct Hdn as (_ & G & F). auto.
      + destruct (HA _ A) as [H1 H2]. split; [exact H1|]. split; [left; exact H2|]. right. auto.
    - destruct H as [A|Hdn].
      + destruct (HA _ A) as [H1 H2]. split; [exact H1|]. split; [left; exact H2|exact Logic.I].
      + destruct (HD _ Hdn) as [H1 H2]. split; [exact H1|]. split; [exact H2|exact Logic.I].
  Qed.

  (* ---- abort with unwinding = kill *)
  (* the cleanup clauses only close descriptors: no file-system-visible effect *)
  Lemma cleanup_closes (p : dprog) c : In c (cleanup_of p) -> exists t, c = CClose t.
  Proof.
    destruct p as [r|c0 k]; cbn [cleanup_of]; [intros []|].
    destruct c0; cbn [In]; intros H; try (destruct H as [<-|[]]; eauto); try (destruct H).
  Qed.

  Lemma run_cmds_closes s cs : (forall c, In c cs -> exists t, c = CClose t) -> run_cmds s cs = s.
  Proof.
    unfold run_cmds. revert s; induction cs as [|c cs IH]; intros s H; [reflexivity|].
    cbn [fold_left]. destruct (H c (or_introl eq_refl)) as (t & ->). cbn [dexec fst].
    apply IH. intros c' Hc'. apply H. right; exact Hc'.
  Qed.

  Lemma abort_equals_crash s (ths : list disk_thread) : abort_all s ths = s.
  Proof.
    unfold abort_all. apply run_cmds_closes. intros c Hc. apply in_flat_map in Hc as (th & _ & Hc).
    unfold th_cleanup in Hc. destruct (th_cur th) as [[o p]|]; [|destruct Hc].
    eapply cleanup_closes. exact Hc.
  Qed.
End Crash.
