(* C13: proofs about model/Bounce.v. *)
From Coq Require Import String.
From Coq Require Import List NArith Bool Lia Permutation PeanoNat.
From Coq Require Import ZifyBool ZifyN.
From SV Require Import lib.Val lib.Bytes model.Reply model.Bounce.
Import ListNotations.
Open Scope N_scope.

(* ====================================================================== *)
(* 1. Reply equality is equality of the pair (code, message)              *)
(* ====================================================================== *)

Lemma list_N_eqb_eq : forall a b, list_N_eqb a b = true <-> a = b.
Proof.
  induction a as [|x a IH]; destruct b as [|y b]; cbn [list_N_eqb]; split; intro H;
    try reflexivity; try discriminate.
  - apply andb_true_iff in H. destruct H as [H1 H2].
    apply N.eqb_eq in H1. apply IH in H2. subst. reflexivity.
  - inversion H; subst. apply andb_true_iff. split.
    + apply N.eqb_refl.
    + apply IH. reflexivity.
Qed.

Lemma otext_eqb_eq : forall a b, otext_eqb a b = true <-> a = b.
Proof.
  destruct a as [x|]; destruct b as [y|]; cbn [otext_eqb]; split; intro H;
    try reflexivity; try discriminate.
  - apply list_N_eqb_eq in H. subst. reflexivity.
  - inversion H; subst. apply list_N_eqb_eq. reflexivity.
Qed.

(* what Reply.__eq__ compares *)
Definition rkey (r : freply) : list N * option text := (r_code (fr r), msg_opt r).

Lemma freply_eqb_key : forall a b, freply_eqb a b = true <-> rkey a = rkey b.
Proof.
  intros a b. unfold freply_eqb, rkey. rewrite andb_true_iff, list_N_eqb_eq, otext_eqb_eq.
  split.
  - intros [H1 H2]. rewrite H1, H2. reflexivity.
  - intro H. inversion H. split; reflexivity.
Qed.

Lemma freply_eqb_refl : forall a, freply_eqb a a = true.
Proof. intro a. apply freply_eqb_key. reflexivity. Qed.

Lemma freply_eqb_false_key : forall a b, freply_eqb a b = false <-> rkey a <> rkey b.
Proof.
  intros a b. split.
  - intros H E. apply freply_eqb_key in E. rewrite E in H. discriminate.
  - intro H. destruct (freply_eqb a b) eqn:E; [|reflexivity].
    apply freply_eqb_key in E. contradiction.
Qed.

(* ====================================================================== *)
(* 2. _split_by_reply                                                     *)
(* ====================================================================== *)

Definition gkeys (gs : list (freply * list text)) : list (list N * option text) :=
  map (fun g => rkey (fst g)) gs.

(* the failures whose reply equals r, in order *)
Definition with_reply (r : freply) (fails : list (text * freply)) : list text :=
  map fst (filter (fun p => freply_eqb (snd p) r) fails).

(* first reply of every class, in order of first appearance *)
Definition snoc_new (acc : list freply) (r : freply) : list freply :=
  if existsb (freply_eqb r) acc then acc else acc ++ [r].
Definition firsts (rs : list freply) : list freply := fold_left snoc_new rs [].

Definition add1 (gs : list (freply * list text)) (p : text * freply) :=
  add_group gs (snd p) (fst p).

Lemma split_snoc : forall fails p,
  split_by_reply (fails ++ [p]) = add_group (split_by_reply fails) (snd p) (fst p).
Proof. intros. unfold split_by_reply. rewrite fold_left_app. reflexivity. Qed.

(* the two ways add_group can go *)
Lemma add_group_cases : forall gs r rc,
  ((forall g, In g gs -> freply_eqb r (fst g) = false) /\ add_group gs r rc = gs ++ [(r, [rc])])
  \/ (exists g1 r0 l g2, gs = g1 ++ (r0, l) :: g2 /\
        (forall g, In g g1 -> freply_eqb r (fst g) = false) /\
        freply_eqb r r0 = true /\
        add_group gs r rc = g1 ++ (r0, l ++ [rc]) :: g2).
Proof.
  induction gs as [|[r0 l] gs IH]; intros r rc.
  - left. split; [intros g []|reflexivity].
  - cbn [add_group]. destruct (freply_eqb r r0) eqn:E.
    + right. exists [], r0, l, gs. repeat split; try assumption. intros g [].
    + destruct (IH r rc) as [[Hn Ha]|[g1 [r1 [l1 [g2 [Hg [Hn [He Ha]]]]]]]].
      * left. split.
        -- intros g [Hg|Hg]; [subst g; exact E|apply Hn; exact Hg].
        -- rewrite Ha. reflexivity.
      * right. exists ((r0, l) :: g1), r1, l1, g2. repeat split.
        -- rewrite Hg. reflexivity.
        -- intros g [Hg'|Hg']; [subst g; exact E|apply Hn; exact Hg'].
        -- exact He.
        -- rewrite Ha. reflexivity.
Qed.

Lemma add_group_firsts : forall gs r rc,
  map fst (add_group gs r rc) = snoc_new (map fst gs) r.
Proof.
  induction gs as [|[r0 l] gs IH]; intros r rc.
  - reflexivity.
  - cbn [add_group map fst]. unfold snoc_new. cbn [existsb].
    destruct (freply_eqb r r0) eqn:E; cbn [orb].
    + reflexivity.
    + cbn [map fst]. rewrite IH. unfold snoc_new.
      destruct (existsb (freply_eqb r) (map fst gs)); reflexivity.
Qed.

Lemma add_group_perm : forall gs r rc,
  Permutation (concat (map snd (add_group gs r rc))) (rc :: concat (map snd gs)).
Proof.
  induction gs as [|[r0 l] gs IH]; intros r rc.
  - cbn. apply Permutation_refl.
  - cbn [add_group]. destruct (freply_eqb r r0).
    + cbn [map snd concat].
      change (rc :: l ++ concat (map snd gs)) with ((rc :: l) ++ concat (map snd gs)).
      apply Permutation_app_tail. apply Permutation_sym. apply Permutation_cons_append.
    + cbn [map snd concat].
      eapply Permutation_trans.
      * apply Permutation_app_head. apply IH.
      * apply Permutation_sym. apply Permutation_middle.
Qed.

Lemma filter_none : forall (A : Type) (f : A -> bool) (l : list A),
  (forall x, In x l -> f x = false) -> filter f l = [].
Proof.
  intros A f l H. induction l as [|x l IH].
  - reflexivity.
  - cbn [filter]. rewrite (H x (or_introl eq_refl)). apply IH.
    intros y Hy. apply H. right. exact Hy.
Qed.

Lemma NoDup_snoc : forall (A : Type) (l : list A) (k : A), NoDup l -> ~ In k l -> NoDup (l ++ [k]).
Proof.
  intros A l k Hnd Hk. induction Hnd as [|x l Hx Hnd IH].
  - cbn. constructor; [intros []|constructor].
  - cbn. constructor.
    + intro Hin. apply in_app_or in Hin. destruct Hin as [Hin|[Hin|[]]].
      * contradiction.
      * subst. apply Hk. left. reflexivity.
    + apply IH. intro Hin. apply Hk. right. exact Hin.
Qed.

(* invariant of the grouping loop after the failures `seen` *)
Record ginv (gs : list (freply * list text)) (seen : list (text * freply)) : Prop := {
  gi_nodup : NoDup (gkeys gs);
  gi_exact : forall r l, In (r, l) gs -> l = with_reply r seen /\ l <> [];
  gi_cover : forall p, In p seen -> exists r l, In (r, l) gs /\ freply_eqb (snd p) r = true;
  gi_rep : forall r l, In (r, l) gs -> exists rc, In (rc, r) seen }.

Lemma with_reply_snoc : forall r seen rc r',
  with_reply r (seen ++ [(rc, r')]) =
  with_reply r seen ++ (if freply_eqb r' r then [rc] else []).
Proof.
  intros. unfold with_reply. rewrite filter_app, map_app. cbn [filter snd].
  destruct (freply_eqb r' r); reflexivity.
Qed.

Lemma gkeys_app : forall a b, gkeys (a ++ b) = gkeys a ++ gkeys b.
Proof. intros. unfold gkeys. apply map_app. Qed.

Lemma in_gkeys : forall g gs, In g gs -> In (rkey (fst g)) (gkeys gs).
Proof. intros g gs H. unfold gkeys. apply (in_map (fun g => rkey (fst g))). exact H. Qed.

Lemma ginv_step : forall gs seen rc r,
  ginv gs seen -> ginv (add_group gs r rc) (seen ++ [(rc, r)]).
Proof.
  intros gs seen rc r [Hnd Hex Hcov Hrep].
  destruct (add_group_cases gs r rc) as [[Hn Ha]|[g1 [r0 [l [g2 [Hg [Hn [He Ha]]]]]]]].
  - (* a new group *)
    rewrite Ha.
    assert (Hnone : with_reply r seen = []).
    { unfold with_reply.
      assert (Hf : filter (fun p => freply_eqb (snd p) r) seen = []).
      { apply filter_none. intros p Hp.
        destruct (freply_eqb (snd p) r) eqn:E; [|reflexivity].
        exfalso. destruct (Hcov p Hp) as [r1 [l1 [Hin He1]]].
        apply freply_eqb_key in E. apply freply_eqb_key in He1.
        specialize (Hn (r1, l1) Hin). cbn [fst] in Hn.
        apply freply_eqb_false_key in Hn. apply Hn. congruence. }
      rewrite Hf. reflexivity. }
    constructor.
    + rewrite gkeys_app. cbn [gkeys map fst].
      apply NoDup_snoc.
      * exact Hnd.
      * intro Hk. unfold gkeys in Hk. apply in_map_iff in Hk. destruct Hk as [g [Hk Hin]].
        specialize (Hn g Hin). apply freply_eqb_false_key in Hn. congruence.
    + intros r' l' Hin. apply in_app_or in Hin. destruct Hin as [Hin|[Hin|[]]].
      * destruct (Hex r' l' Hin) as [H1 H2]. split; [|exact H2].
        rewrite with_reply_snoc. specialize (Hn (r', l') Hin). cbn [fst] in Hn.
        rewrite Hn. rewrite app_nil_r. exact H1.
      * inversion Hin; subst r' l'. split; [|discriminate].
        rewrite with_reply_snoc, Hnone, freply_eqb_refl. reflexivity.
    + intros p Hp. apply in_app_or in Hp. destruct Hp as [Hp|[Hp|[]]].
      * destruct (Hcov p Hp) as [r1 [l1 [Hin He1]]]. exists r1, l1. split; [|exact He1].
        apply in_or_app. left. exact Hin.
      * subst p. exists r, [rc]. split; [apply in_or_app; right; left; reflexivity|apply freply_eqb_refl].
    + intros r' l' Hin. apply in_app_or in Hin. destruct Hin as [Hin|[Hin|[]]].
      * destruct (Hrep r' l' Hin) as [rc' Hrc]. exists rc'. apply in_or_app. left. exact Hrc.
      * inversion Hin; subst. exists rc. apply in_or_app. right. left. reflexivity.
  - (* joins the group of r0 *)
    rewrite Ha. subst gs.
    assert (Hk0 : rkey r = rkey r0) by (apply freply_eqb_key; exact He).
    assert (Hnd' := Hnd). rewrite gkeys_app in Hnd'. cbn [gkeys map fst] in Hnd'.
    assert (Hg2 : forall g, In g g2 -> freply_eqb r (fst g) = false).
    { intros g Hin. apply freply_eqb_false_key. rewrite Hk0. intro E.
      apply NoDup_remove_2 in Hnd'. apply Hnd'. apply in_or_app. right.
      rewrite E. apply in_gkeys. exact Hin. }
    constructor.
    + rewrite gkeys_app. cbn [gkeys map fst]. rewrite gkeys_app in Hnd. exact Hnd.
    + intros r' l' Hin. apply in_app_or in Hin. destruct Hin as [Hin|[Hin|Hin]].
      * destruct (Hex r' l') as [H1 H2]; [apply in_or_app; left; exact Hin|]. split; [|exact H2].
        rewrite with_reply_snoc. specialize (Hn (r', l') Hin). cbn [fst] in Hn.
        rewrite Hn, app_nil_r. exact H1.
      * inversion Hin; subst r' l'.
        destruct (Hex r0 l) as [H1 H2]; [apply in_or_app; right; left; reflexivity|].
        split.
        -- rewrite with_reply_snoc, He, <- H1. reflexivity.
        -- intro E. apply app_eq_nil in E. destruct E as [_ E]. discriminate.
      * destruct (Hex r' l') as [H1 H2]; [apply in_or_app; right; right; exact Hin|]. split; [|exact H2].
        rewrite with_reply_snoc. specialize (Hg2 (r', l') Hin). cbn [fst] in Hg2.
        rewrite Hg2, app_nil_r. exact H1.
    + intros p Hp. apply in_app_or in Hp. destruct Hp as [Hp|[Hp|[]]].
      * destruct (Hcov p Hp) as [r1 [l1 [Hin He1]]].
        apply in_app_or in Hin. destruct Hin as [Hin|[Hin|Hin]].
        -- exists r1, l1. split; [apply in_or_app; left; exact Hin|exact He1].
        -- inversion Hin; subst r1 l1. exists r0, (l ++ [rc]).
           split; [apply in_or_app; right; left; reflexivity|exact He1].
        -- exists r1, l1. split; [apply in_or_app; right; right; exact Hin|exact He1].
      * subst p. exists r0, (l ++ [rc]). split; [apply in_or_app; right; left; reflexivity|exact He].
    + intros r' l' Hin.
      assert (Hold : exists l'', In (r', l'') (g1 ++ (r0, l) :: g2)).
      { apply in_app_or in Hin. destruct Hin as [Hin|[Hin|Hin]].
        - exists l'. apply in_or_app. left. exact Hin.
        - inversion Hin; subst. exists l. apply in_or_app. right. left. reflexivity.
        - exists l'. apply in_or_app. right. right. exact Hin. }
      destruct Hold as [l'' Hin']. destruct (Hrep r' l'' Hin') as [rc' Hrc].
      exists rc'. apply in_or_app. left. exact Hrc.
Qed.

Lemma ginv_split : forall fails, ginv (split_by_reply fails) fails.
Proof.
  induction fails as [|p fails IH] using rev_ind.
  - constructor.
    + constructor.
    + intros r l [].
    + intros p [].
    + intros r l [].
  - rewrite split_snoc. destruct p as [rc r]. apply ginv_step. exact IH.
Qed.

Lemma split_firsts : forall fails, map fst (split_by_reply fails) = firsts (map snd fails).
Proof.
  induction fails as [|p fails IH] using rev_ind.
  - reflexivity.
  - rewrite split_snoc, add_group_firsts, IH. unfold firsts.
    rewrite map_app, fold_left_app. reflexivity.
Qed.

Lemma split_perm : forall fails,
  Permutation (map fst fails) (concat (map snd (split_by_reply fails))).
Proof.
  induction fails as [|p fails IH] using rev_ind.
  - apply Permutation_refl.
  - rewrite split_snoc, map_app. cbn [map].
    eapply Permutation_trans.
    + apply Permutation_sym. apply Permutation_cons_append.
    + eapply Permutation_trans.
      * apply perm_skip. exact IH.
      * apply Permutation_sym. apply add_group_perm.
Qed.

(* C13_groups_partition *)
Theorem groups_partition : forall fails : list (text * freply),
  let gs := split_by_reply fails in
  (* every group holds exactly the failed recipients whose reply equals the group's reply, in order *)
  (forall r l, In (r, l) gs -> l = with_reply r fails /\ l <> []) /\
  (* one group per distinct (code, message) *)
  NoDup (gkeys gs) /\
  (* every failure is in some group *)
  (forall rc r, In (rc, r) fails -> exists r0 l, In (r0, l) gs /\ freply_eqb r r0 = true) /\
  (* the groups are headed by the first reply of each class, in order of first appearance *)
  map fst gs = firsts (map snd fails) /\
  (* together the groups hold each failed recipient exactly once *)
  Permutation (map fst fails) (concat (map snd gs)).
Proof.
  intros fails gs. destruct (ginv_split fails) as [Hnd Hex Hcov Hrep].
  split; [exact Hex|]. split; [exact Hnd|]. split.
  - intros rc r Hin. apply (Hcov (rc, r) Hin).
  - split; [apply split_firsts|apply split_perm].
Qed.

(* ====================================================================== *)
(* 3. Envelope.parse: where the header boundary falls                      *)
(* ====================================================================== *)

Definition CRLF2 : bytes := [13; 10; 13; 10].
Definition no_lf (s : bytes) : bool := forallb (fun c => negb (c =? 10)) s.

Lemma pre2_nil : forall o, pre2 [] o = o.
Proof. intros [[c r]|]; reflexivity. Qed.

Lemma pre2_pre2 : forall a b o, pre2 a (pre2 b o) = pre2 (a ++ b) o.
Proof. intros a b [[c r]|]; cbn [pre2]; [rewrite app_assoc|]; reflexivity. Qed.

Lemma skip_to_lf_app : forall A R0 c rest,
  skip_to_lf (A ++ 10 :: R0) = Some (c, rest) ->
  exists m', rest = m' ++ R0 /\ c ++ m' = A ++ [10].
Proof.
  induction A as [|a A IH]; intros R0 c rest H.
  - cbn [app skip_to_lf] in H. rewrite N.eqb_refl in H. inversion H; subst.
    exists []. split; reflexivity.
  - cbn [app skip_to_lf] in H. destruct (a =? 10) eqn:E.
    + inversion H; subst. apply N.eqb_eq in E. subst a.
      exists (A ++ [10]). split.
      * rewrite <- app_assoc. reflexivity.
      * reflexivity.
    + destruct (is_ws a); [|discriminate].
      destruct (skip_to_lf (A ++ 10 :: R0)) as [[c' r']|] eqn:E2; [|discriminate].
      inversion H; subst. destruct (IH _ _ _ E2) as [m' [H1 H2]].
      exists m'. split; [exact H1|]. cbn [app]. rewrite H2. reflexivity.
Qed.

Lemma hb_here_bound : forall A R h m,
  hb_here (A ++ CRLF2 ++ R) = Some (h, m) ->
  exists m', m = m' ++ R /\ h ++ m' = A ++ CRLF2.
Proof.
  intros A R h m H. destruct A as [|a A'].
  - cbn in H. inversion H; subst. exists []. split; reflexivity.
  - cbn [app hb_here] in H. destruct (a =? 10) eqn:E1.
    + unfold pre2 in H.
      destruct (skip_to_lf (A' ++ CRLF2 ++ R)) as [[c r']|] eqn:E2; [|discriminate].
      inversion H; subst.
      assert (Hre : A' ++ CRLF2 ++ R = (A' ++ [13]) ++ 10 :: (13 :: 10 :: R))
        by (rewrite <- app_assoc; reflexivity).
      rewrite Hre in E2. apply skip_to_lf_app in E2. destruct E2 as [m' [H1 H2]].
      exists (m' ++ [13; 10]). split.
      * rewrite H1, <- app_assoc. reflexivity.
      * cbn [app]. rewrite app_assoc, H2, <- !app_assoc. reflexivity.
    + destruct (a =? 13) eqn:E3; [|discriminate].
      destruct A' as [|b2 A''].
      * cbn in H. discriminate.
      * cbn [app] in H. destruct (b2 =? 10) eqn:E4; [|discriminate].
        unfold pre2 in H.
        destruct (skip_to_lf (A'' ++ CRLF2 ++ R)) as [[c r']|] eqn:E2; [|discriminate].
        inversion H; subst.
        assert (Hre : A'' ++ CRLF2 ++ R = (A'' ++ [13]) ++ 10 :: (13 :: 10 :: R))
          by (rewrite <- app_assoc; reflexivity).
        rewrite Hre in E2. apply skip_to_lf_app in E2. destruct E2 as [m' [H1 H2]].
        exists (m' ++ [13; 10]). split.
        -- rewrite H1, <- app_assoc. reflexivity.
        -- cbn [app]. rewrite app_assoc, H2, <- !app_assoc. reflexivity.
Qed.

(* whatever precedes it, the first header boundary ends no later than the first CRLF CRLF *)
Lemma hb_split_bound : forall A R,
  exists h m', hb_split (A ++ CRLF2 ++ R) = Some (h, m' ++ R) /\ h ++ m' = A ++ CRLF2.
Proof.
  induction A as [|a A IH]; intro R.
  - exists CRLF2, []. split; reflexivity.
  - cbn [app hb_split].
    destruct (hb_here (a :: A ++ CRLF2 ++ R)) as [[h m]|] eqn:E.
    + change (a :: A ++ CRLF2 ++ R) with ((a :: A) ++ CRLF2 ++ R) in E.
      apply hb_here_bound in E. destruct E as [m' [H1 H2]].
      exists h, m'. subst m. split; [reflexivity|exact H2].
    + destruct (IH R) as [h [m' [H1 H2]]]. rewrite H1. cbn [pre2].
      exists (a :: h), m'. split; [reflexivity|]. cbn [app]. rewrite H2. reflexivity.
Qed.

(* every LF is followed, inside the string, by white space other than LF and
   then a byte that is not white space (so no match can start at it) *)
Fixpoint ws_then_nonws (s : bytes) : bool :=
  match s with
  | [] => false
  | c :: s' => if c =? 10 then false else if is_ws c then ws_then_nonws s' else true
  end.

Fixpoint lf_safe (s : bytes) : bool :=
  match s with
  | [] => true
  | b :: s' => (if b =? 10 then ws_then_nonws s' else true) && lf_safe s'
  end.

Definition head_not_lf (T : bytes) : Prop :=
  match T with t :: _ => (t =? 10) = false | [] => True end.

Lemma wtn_skip : forall s T, ws_then_nonws s = true -> skip_to_lf (s ++ T) = None.
Proof.
  induction s as [|c s IH]; intros T H.
  - discriminate.
  - cbn [ws_then_nonws] in H. cbn [app skip_to_lf].
    destruct (c =? 10); [discriminate|].
    destruct (is_ws c); [|reflexivity].
    rewrite (IH T H). reflexivity.
Qed.

Lemma wtn_app : forall s T, ws_then_nonws s = true -> ws_then_nonws (s ++ T) = true.
Proof.
  induction s as [|c s IH]; intros T H.
  - discriminate.
  - cbn [ws_then_nonws app] in *. destruct (c =? 10); [discriminate|].
    destruct (is_ws c); [apply IH; exact H|reflexivity].
Qed.

Lemma hb_here_safe : forall a A T,
  lf_safe (a :: A) = true -> head_not_lf T -> hb_here ((a :: A) ++ T) = None.
Proof.
  intros a A T Hs HT. cbn [lf_safe] in Hs. apply andb_true_iff in Hs. destruct Hs as [H1 H2].
  cbn [app hb_here]. destruct (a =? 10) eqn:E.
  - rewrite (wtn_skip A T H1). reflexivity.
  - destruct (a =? 13); [|reflexivity].
    destruct A as [|b2 A''].
    + cbn [app]. destruct T as [|t T']; [reflexivity|]. cbn in HT. rewrite HT. reflexivity.
    + cbn [app]. destruct (b2 =? 10) eqn:E4; [|reflexivity].
      cbn [lf_safe] in H2. rewrite E4 in H2.
      apply andb_true_iff in H2. destruct H2 as [H2 _].
      rewrite (wtn_skip A'' T H2). reflexivity.
Qed.

Lemma hb_split_safe : forall A T,
  lf_safe A = true -> head_not_lf T -> hb_split (A ++ T) = pre2 A (hb_split T).
Proof.
  induction A as [|a A IH]; intros T Hs HT.
  - cbn [app]. rewrite pre2_nil. reflexivity.
  - assert (Hh := hb_here_safe a A T Hs HT).
    cbn [app hb_split]. cbn [app] in Hh. rewrite Hh.
    cbn [lf_safe] in Hs. apply andb_true_iff in Hs. destruct Hs as [_ Hs].
    rewrite (IH T Hs HT). rewrite pre2_pre2. reflexivity.
Qed.

Lemma hb_split_exact : forall A R,
  lf_safe A = true -> hb_split (A ++ CRLF2 ++ R) = Some (A ++ CRLF2, R).
Proof.
  intros A R Hs. rewrite hb_split_safe; [|exact Hs|reflexivity]. reflexivity.
Qed.

Lemma lf_safe_app : forall a b, lf_safe a = true -> lf_safe b = true -> lf_safe (a ++ b) = true.
Proof.
  induction a as [|x a IH]; intros b Ha Hb.
  - exact Hb.
  - cbn [app lf_safe] in *. apply andb_true_iff in Ha. destruct Ha as [H1 H2].
    apply andb_true_iff. split; [|apply IH; assumption].
    destruct (x =? 10); [|reflexivity].
    apply wtn_app. exact H1.
Qed.

Lemma no_lf_safe : forall s, no_lf s = true -> lf_safe s = true.
Proof.
  induction s as [|x s IH]; intro H.
  - reflexivity.
  - cbn [no_lf forallb] in H. apply andb_true_iff in H. destruct H as [H1 H2].
    cbn [lf_safe]. apply negb_true_iff in H1. rewrite H1. cbn [andb]. apply IH. exact H2.
Qed.

(* ====================================================================== *)
(* 4. The default templates and what Bounce renders with them              *)
(* ====================================================================== *)
Definition L1 : bytes := bs "From: MAILER-DAEMON" ++ CRLF ++ bs "To: ".
Definition L2 : bytes :=
  CRLF ++ bs "Subject: Undelivered Mail Returned to Sender" ++ CRLF ++
  bs "Auto-Submitted: auto-replied" ++ CRLF ++ bs "MIME-Version: 1.0" ++ CRLF ++
  bs "Content-Type: multipart/report; report-type=delivery-status;" ++ CRLF ++
  bs "    boundary=""".
Definition L3a : bytes := bs """" ++ CRLF ++ bs "Content-Transfer-Encoding: 7bit".
Definition L3b : bytes := bs "This is a multi-part message in MIME format." ++ CRLF ++ CRLF ++ bs "--".
Definition L4 : bytes :=
  CRLF ++ bs "Content-Type: text/plain" ++ CRLF ++ CRLF ++ bs "Delivery failed for:" ++ CRLF ++ bs "- ".
Definition L5 : bytes := CRLF ++ CRLF ++ bs "Destination host responded:" ++ CRLF.
Definition L6 : bytes := [32].
Definition L7 : bytes := CRLF ++ CRLF ++ bs "--".
Definition L8 : bytes := CRLF ++ bs "Content-Type: message/delivery-status" ++ CRLF ++ CRLF.
Definition L9 : bytes := CRLF ++ CRLF ++ bs "--".
Definition L10 : bytes := CRLF ++ bs "Content-Type: ".
Definition L11 : bytes := CRLF ++ CRLF.
Definition F1 : bytes := CRLF ++ bs "--".
Definition F2 : bytes := bs "--" ++ CRLF.

Lemma default_hp_eq : default_hp =
  [PLit L1; PKey (bs "sender"); PLit L2; PKey (bs "boundary"); PLit (L3a ++ CRLF2 ++ L3b);
   PKey (bs "boundary"); PLit L4; PKey (bs "recipients"); PLit L5; PKey (bs "code"); PLit L6;
   PKey (bs "message"); PLit L7; PKey (bs "boundary"); PLit L8; PKey (bs "delivery_info");
   PLit L9; PKey (bs "boundary"); PLit L10; PKey (bs "content_type"); PLit L11].
Proof. vm_compute. reflexivity. Qed.

Lemma default_fp_eq : default_fp = [PLit F1; PKey (bs "boundary"); PLit F2].
Proof. vm_compute. reflexivity. Qed.

Section Lookups.
  Variables (e : menv) (r : freply) (ho : bool) (u di : bytes).
  Let t := sub_table e r ho u di.
  Lemma lk_boundary : lookup (bs "boundary") t = Some (Some (bs "boundary_=" ++ u)).
  Proof. reflexivity. Qed.
  Lemma lk_sender : lookup (bs "sender") t = Some (enc_utf8 (e_sender e)).
  Proof. reflexivity. Qed.
  Lemma lk_recipients : lookup (bs "recipients") t = Some (Some (enc_xmlref (join rcpt_join (e_rcpts e)))).
  Proof. reflexivity. Qed.
  Lemma lk_di : lookup (bs "delivery_info") t = Some (Some di).
  Proof. reflexivity. Qed.
  Lemma lk_ctype : lookup (bs "content_type") t =
    Some (Some (if ho then bs "text/rfc822-headers" else bs "message/rfc822")).
  Proof. reflexivity. Qed.
  Lemma lk_code : lookup (bs "code") t = Some (enc_utf8 (r_code (fr r))).
  Proof. reflexivity. Qed.
  Lemma lk_message : lookup (bs "message") t = Some (obind (msg_opt r) enc_utf8).
  Proof. reflexivity. Qed.
End Lookups.

Definition boundary_of (u : bytes) : bytes := bs "boundary_=" ++ u.
Definition ctype_of (ho : bool) : bytes := if ho then bs "text/rfc822-headers" else bs "message/rfc822".

(* the bounce's own header block *)
Definition top_header (sb bnd : bytes) : bytes := (L1 ++ sb ++ L2 ++ bnd ++ L3a) ++ CRLF2.
(* everything between that header and the embedded original *)
Definition text_part (bnd rcb cb mb di ct : bytes) : bytes :=
  L3b ++ bnd ++ L4 ++ rcb ++ L5 ++ cb ++ L6 ++ mb ++ L7 ++ bnd ++ L8 ++ di ++ L9 ++ bnd ++ L10 ++ ct ++ L11.
Definition closing (bnd : bytes) : bytes := F1 ++ bnd ++ F2.

Lemma some_inj : forall (A : Type) (a b : A), Some a = Some b -> a = b.
Proof. intros A a b H. inversion H. reflexivity. Qed.

Lemma render_default : forall e r ho u p,
  render default_hp default_fp e r ho u = Some p ->
  exists sb cb m mb di,
    enc_utf8 (e_sender e) = Some sb /\ enc_utf8 (r_code (fr r)) = Some cb /\
    msg_opt r = Some m /\ enc_utf8 m = Some mb /\ delivery_info e r = Some di /\
    p = top_header sb (boundary_of u) ++
        text_part (boundary_of u) (enc_xmlref (join rcpt_join (e_rcpts e))) cb mb di (ctype_of ho) ++
        e_hdr e ++ (if ho then [] else e_body e) ++ closing (boundary_of u).
Proof.
  intros e r ho u p H. unfold render in H.
  destruct (delivery_info e r) as [di|] eqn:Edi; [|discriminate]. cbn [obind] in H.
  rewrite default_hp_eq, default_fp_eq in H. cbn [fmt] in H.
  rewrite !lk_boundary, lk_sender, lk_recipients, lk_di, lk_ctype, lk_code, lk_message in H.
  destruct (enc_utf8 (e_sender e)) as [sb|] eqn:Es; [|discriminate].
  destruct (enc_utf8 (r_code (fr r))) as [cb|] eqn:Ec.
  2:{ cbn [option_map obind] in H. discriminate. }
  destruct (msg_opt r) as [m|] eqn:Em.
  2:{ cbn [option_map obind] in H. discriminate. }
  cbn [obind] in H.
  destruct (enc_utf8 m) as [mb|] eqn:Emb.
  2:{ cbn [option_map obind] in H. discriminate. }
  cbn [option_map obind] in H. apply some_inj in H. subst p.
  exists sb, cb, m, mb, di.
  split; [reflexivity|]. split; [reflexivity|]. split; [reflexivity|].
  split; [exact Emb|]. split; [reflexivity|].
  unfold top_header, text_part, closing, boundary_of, ctype_of.
  rewrite <- !app_assoc. reflexivity.
Qed.

(* the recipient list is rendered recipient by recipient *)
Lemma enc_xmlref_app : forall a b, enc_xmlref (a ++ b) = enc_xmlref a ++ enc_xmlref b.
Proof. intros. unfold enc_xmlref. apply flat_map_app. Qed.

Lemma enc_xmlref_join : forall l,
  enc_xmlref (join rcpt_join l) = join rcpt_join (map enc_xmlref l).
Proof.
  induction l as [|x l IH].
  - reflexivity.
  - destruct l as [|y l'].
    + reflexivity.
    + change (join rcpt_join (x :: y :: l')) with (x ++ rcpt_join ++ join rcpt_join (y :: l')).
      rewrite !enc_xmlref_app, IH. reflexivity.
Qed.

(* UTF-8 never produces a line feed out of anything but a line feed *)
Lemma utf8_enc1_no_lf : forall c, (c =? 10) = false -> no_lf (utf8_enc1 c) = true.
Proof.
  intros c H. unfold utf8_enc1, no_lf.
  destruct (c <? 128) eqn:E1.
  - cbn [forallb]. rewrite H. reflexivity.
  - destruct (c <? 2048) eqn:E2; [|destruct (c <? 65536) eqn:E3]; cbn [forallb];
      repeat (apply andb_true_iff; split); try reflexivity; apply negb_true_iff; apply N.eqb_neq; lia.
Qed.

Lemma no_lf_app : forall a b, no_lf (a ++ b) = no_lf a && no_lf b.
Proof. intros. unfold no_lf. apply forallb_app. Qed.

Lemma utf8_enc_no_lf : forall t, no_lf t = true -> no_lf (utf8_enc t) = true.
Proof.
  induction t as [|c t IH]; intro H.
  - reflexivity.
  - cbn [no_lf forallb] in H. apply andb_true_iff in H. destruct H as [H1 H2].
    unfold utf8_enc. cbn [flat_map]. rewrite no_lf_app. apply andb_true_iff. split.
    + apply utf8_enc1_no_lf. apply negb_true_iff. exact H1.
    + apply IH. exact H2.
Qed.

Lemma enc_utf8_no_lf : forall t b, enc_utf8 t = Some b -> no_lf t = true -> no_lf b = true.
Proof.
  intros t b H Hn. unfold enc_utf8 in H. destruct (forallb valid_cp t); [|discriminate].
  inversion H; subst. apply utf8_enc_no_lf. exact Hn.
Qed.

Lemma lf_safe_top : forall sb u,
  no_lf sb = true -> no_lf u = true -> lf_safe (L1 ++ sb ++ L2 ++ boundary_of u ++ L3a) = true.
Proof.
  intros sb u Hs Hu.
  apply lf_safe_app; [vm_compute; reflexivity|].
  apply lf_safe_app; [apply no_lf_safe; exact Hs|].
  apply lf_safe_app; [vm_compute; reflexivity|].
  apply lf_safe_app.
  - unfold boundary_of. apply lf_safe_app; [vm_compute; reflexivity|apply no_lf_safe; exact Hu].
  - vm_compute. reflexivity.
Qed.

(* C13_bounce_shape *)
Theorem bounce_shape : forall e r ho u b,
  bounce_new default_hp default_fp e r ho u = Some b ->
  (* addressed only to the original sender, from the null sender *)
  b_sender b = [] /\ b_rcpts b = [e_sender e] /\
  exists sb cb m mb di pre,
    enc_utf8 (e_sender e) = Some sb /\ enc_utf8 (r_code (fr r)) = Some cb /\
    msg_opt r = Some m /\ enc_utf8 m = Some mb /\ delivery_info e r = Some di /\
    (* header block of the bounce ++ pre = the rendered top of the template *)
    b_hdr b ++ pre = top_header sb (boundary_of u) /\
    (* the message names exactly the recipients of the group, quotes code and
       message, then embeds the original header block (and body) unchanged,
       then the closing boundary *)
    b_msg b = pre ++
      text_part (boundary_of u) (join rcpt_join (map enc_xmlref (e_rcpts e))) cb mb di (ctype_of ho) ++
      e_hdr e ++ (if ho then [] else e_body e) ++ closing (boundary_of u) /\
    (* no line break in sender and uuid: the split is exactly at the blank line *)
    (no_lf (e_sender e) = true -> no_lf u = true -> pre = []).
Proof.
  intros e r ho u b H. unfold bounce_new in H.
  destruct (render default_hp default_fp e r ho u) as [p|] eqn:Er; [|discriminate].
  destruct (render_default _ _ _ _ _ Er) as [sb [cb [m [mb [di [Es [Ec [Em [Emb [Edi Hp]]]]]]]]]].
  set (R := text_part (boundary_of u) (enc_xmlref (join rcpt_join (e_rcpts e))) cb mb di (ctype_of ho) ++
            e_hdr e ++ (if ho then [] else e_body e) ++ closing (boundary_of u)) in *.
  set (A := L1 ++ sb ++ L2 ++ boundary_of u ++ L3a) in *.
  assert (HpA : p = A ++ CRLF2 ++ R).
  { rewrite Hp. unfold top_header, A. rewrite <- !app_assoc. reflexivity. }
  destruct (hb_split_bound A R) as [h [m' [Hs Hhm]]].
  unfold env_split in H. rewrite HpA, Hs in H. inversion H; subst b. cbn [b_sender b_rcpts b_hdr b_msg].
  split; [reflexivity|]. split; [reflexivity|].
  exists sb, cb, m, mb, di, m'.
  split; [exact Es|]. split; [exact Ec|]. split; [exact Em|]. split; [exact Emb|]. split; [exact Edi|].
  split.
  - unfold top_header. fold A. exact Hhm.
  - split.
    + unfold R. rewrite enc_xmlref_join. reflexivity.
    + intros Hn Hu.
      assert (Hsafe : lf_safe A = true).
      { unfold A. apply lf_safe_top; [|exact Hu]. eapply enc_utf8_no_lf; eassumption. }
      rewrite (hb_split_exact A R Hsafe) in Hs. inversion Hs as [[H1 H2]].
      apply (f_equal (@List.length _)) in H2. rewrite app_length in H2.
      destruct m'; [reflexivity|cbn in H2; lia].
Qed.

(* D24: a reply whose message is None (or whose code/texts cannot be encoded)
   never yields a bounce *)
Lemma render_none_message : forall hp fp e r ho u, msg_opt r = None -> render hp fp e r ho u = None.
Proof.
  intros hp fp e r ho u H. unfold render, delivery_info, reply_bytes. rewrite H.
  destruct (if cl_nonempty (e_client e) then _ else _); cbn [obind]; [|reflexivity].
  destruct (match fr_addr r with Some (h0 :: h) => _ | _ => _ end); cbn [obind]; [|reflexivity].
  destruct (enc_ascii (r_code (fr r))); reflexivity.
Qed.

Theorem none_message_no_bounce : forall hp fp e r ho u,
  fr_none r = true -> bounce_new hp fp e r ho u = None.
Proof.
  intros hp fp e r ho u H. unfold bounce_new. rewrite render_none_message; [reflexivity|].
  unfold msg_opt. rewrite H. reflexivity.
Qed.

(* ====================================================================== *)
(* 5. Which bounces a dispatch creates                                     *)
(* ====================================================================== *)
Section Dispatch.
  Variable udigit : N -> bool.
  Variable uspace : N -> bool.
  Notation dispatch := (dispatch udigit uspace).
  Notation add_suffix := (add_suffix udigit uspace).
  Notation exhaust := (exhaust udigit uspace).
  Notation retry_later := (retry_later udigit uspace).
  Notation partial := (partial udigit uspace).

  (* the (envelope, reply) pairs handed to _bounce, in spawn order *)
  Definition bounces_of (acts : list action) : list (menv * freply) :=
    flat_map (fun a => match a with ABounce e r => [(e, r)] | _ => [] end) acts.

  Lemma bounces_of_app : forall a b, bounces_of (a ++ b) = bounces_of a ++ bounces_of b.
  Proof. intros. unfold bounces_of. apply flat_map_app. Qed.

  Lemma bounces_perm_fail : forall w e r,
    bounces_of (perm_fail w e r) = if is_nil (e_sender e) then [] else [(e, r)].
  Proof.
    intros w e r. unfold perm_fail. rewrite bounces_of_app.
    destruct w; destruct (is_nil (e_sender e)); reflexivity.
  Qed.

  (* the groups whose reply could be extended with the retry marker, up to the
     first reply whose message is None (there the loop dies, D24) *)
  Fixpoint suffixed (gs : list (freply * menv)) : list (menv * freply) :=
    match gs with
    | [] => []
    | (r, ge) :: gs' =>
        match add_suffix r with
        | None => []
        | Some r' => (ge, r') :: suffixed gs'
        end
    end.

  Definition swap_g (g : freply * menv) : menv * freply := (snd g, fst g).

  Definition sender_set (e : menv) : Prop := e_sender e <> [].

  Lemma is_nil_false : forall (A : Type) (l : list A), l <> [] -> is_nil l = false.
  Proof. intros A [|x l] H; [contradiction|reflexivity]. Qed.

  Lemma bounces_exhaust : forall gs,
    (forall g, In g gs -> sender_set (snd g)) ->
    bounces_of (exhaust gs) = suffixed gs.
  Proof.
    induction gs as [|[r ge] gs IH]; intro Hs.
    - reflexivity.
    - cbn [exhaust suffixed]. destruct (add_suffix r) as [r'|]; [|reflexivity].
      rewrite bounces_of_app, bounces_perm_fail.
      assert (Hse : e_sender ge <> []) by (apply (Hs (r, ge)); left; reflexivity).
      rewrite (is_nil_false _ _ Hse).
      cbn [app]. rewrite IH; [reflexivity|]. intros g Hg. apply Hs. right. exact Hg.
  Qed.

  Lemma bounces_exhaust_nosender : forall gs,
    (forall g, In g gs -> e_sender (snd g) = []) -> bounces_of (exhaust gs) = [].
  Proof.
    induction gs as [|[r ge] gs IH]; intro Hs.
    - reflexivity.
    - cbn [exhaust]. destruct (add_suffix r) as [r'|]; [|reflexivity].
      rewrite bounces_of_app, bounces_perm_fail.
      assert (Hse : e_sender ge = []) by (apply (Hs (r, ge)); left; reflexivity).
      rewrite Hse. cbn [is_nil app].
      apply IH. intros g Hg. apply Hs. right. exact Hg.
  Qed.

  Lemma group_envs_sender : forall e fails g, In g (group_envs e fails) -> e_sender (snd g) = e_sender e.
  Proof.
    intros e fails g H. unfold group_envs in H. apply in_map_iff in H.
    destruct H as [g0 [Hg _]]. subst g. reflexivity.
  Qed.

  Lemma bounces_permgroups : forall e fails, sender_set e ->
    bounces_of (flat_map (fun g => perm_fail false (snd g) (fst g)) (group_envs e fails))
    = map swap_g (group_envs e fails).
  Proof.
    intros e fails Hs.
    assert (H : forall gs, (forall g, In g gs -> e_sender (snd g) = e_sender e) ->
                bounces_of (flat_map (fun g => perm_fail false (snd g) (fst g)) gs) = map swap_g gs).
    { induction gs as [|g gs IH]; intro Hg.
      - reflexivity.
      - cbn [flat_map map]. rewrite bounces_of_app, bounces_perm_fail.
        rewrite is_nil_false; [|rewrite (Hg g (or_introl eq_refl)); exact Hs].
        cbn [app]. rewrite IH; [reflexivity|]. intros g' Hg'. apply Hg. right. exact Hg'. }
    apply H. intros g Hg. eapply group_envs_sender. exact Hg.
  Qed.

  Lemma bounces_permgroups_nosender : forall e fails, e_sender e = [] ->
    bounces_of (flat_map (fun g => perm_fail false (snd g) (fst g)) (group_envs e fails)) = [].
  Proof.
    intros e fails Hs.
    assert (H : forall gs, (forall g, In g gs -> e_sender (snd g) = []) ->
                bounces_of (flat_map (fun g => perm_fail false (snd g) (fst g)) gs) = []).
    { induction gs as [|g gs IH]; intro Hg.
      - reflexivity.
      - cbn [flat_map]. rewrite bounces_of_app, bounces_perm_fail.
        rewrite (Hg g (or_introl eq_refl)). cbn [is_nil app].
        apply IH. intros g' Hg'. apply Hg. right. exact Hg'. }
    apply H. intros g Hg. rewrite (group_envs_sender _ _ _ Hg). exact Hs.
  Qed.

  (* specification: one bounce per group of permanent failures, and - when
     backoff gave up - one per group of transient failures, marked *)
  Definition spec_partial (e : menv) (items : list (text * rres)) (bo : option N) : list (menv * freply) :=
    match classify (e_rcpts e) items [] [] [] with
    | None => []
    | Some (dl, tf, pf) =>
        map swap_g (group_envs e pf) ++
        match tf, bo with
        | _ :: _, None => suffixed (group_envs e tf)
        | _, _ => []
        end
    end.

  Definition spec_bounces (e : menv) (o : outcome) (bo : option N) : list (menv * freply) :=
    match o with
    | OOk => []
    | OPerm r => [(e, r)]
    | OTemp r => match bo with None => suffixed [(r, e)] | Some _ => [] end
    | OOther m => match bo with None => suffixed [(unhandled_reply udigit uspace m, e)] | Some _ => [] end
    | OMap items => spec_partial e items bo
    | OSeq rs => spec_partial e (zip_dict (e_rcpts e) rs []) bo
    end.

  Lemma bounces_partial : forall e items bo, sender_set e ->
    bounces_of (partial e items bo) = spec_partial e items bo.
  Proof.
    intros e items bo Hs. unfold Bounce.partial, spec_partial.
    destruct (classify (e_rcpts e) items [] [] []) as [[[dl tf] pf]|]; [|reflexivity].
    destruct tf as [|t tf].
    - rewrite bounces_of_app, bounces_permgroups by exact Hs. reflexivity.
    - rewrite bounces_of_app, bounces_permgroups by exact Hs. f_equal.
      unfold Bounce.retry_later. destruct bo as [w|]; cbn [fst].
      + reflexivity.
      + change (bounces_of (AIncr :: exhaust (group_envs e (t :: tf))))
          with (bounces_of (exhaust (group_envs e (t :: tf)))).
        apply bounces_exhaust. intros g Hg. unfold sender_set.
        rewrite (group_envs_sender _ _ _ Hg). exact Hs.
  Qed.

  (* C13_dispatch_bounces *)
  Theorem dispatch_bounces : forall e o bo, e_sender e <> [] ->
    bounces_of (dispatch e o bo) = spec_bounces e o bo.
  Proof.
    intros e o bo Hs. destruct o as [|r|r|m|items|rs]; cbn [Bounce.dispatch spec_bounces].
    - reflexivity.
    - rewrite bounces_perm_fail, is_nil_false by exact Hs. reflexivity.
    - unfold Bounce.retry_later. destruct bo as [w|]; cbn [fst]; [reflexivity|].
      change (bounces_of (AIncr :: exhaust [(r, e)])) with (bounces_of (exhaust [(r, e)])).
      apply bounces_exhaust. intros g [Hg|[]]. subst g. exact Hs.
    - unfold Bounce.retry_later. destruct bo as [w|]; cbn [fst]; [reflexivity|].
      change (bounces_of (AIncr :: exhaust [(unhandled_reply udigit uspace m, e)]))
        with (bounces_of (exhaust [(unhandled_reply udigit uspace m, e)])).
      apply bounces_exhaust. intros g [Hg|[]]. subst g. exact Hs.
    - apply bounces_partial. exact Hs.
    - apply bounces_partial. exact Hs.
  Qed.

  Lemma bounces_partial_nosender : forall e items bo, e_sender e = [] ->
    bounces_of (partial e items bo) = [].
  Proof.
    intros e items bo Hs. unfold Bounce.partial.
    destruct (classify (e_rcpts e) items [] [] []) as [[[dl tf] pf]|]; [|reflexivity].
    destruct tf as [|t tf].
    - rewrite bounces_of_app, bounces_permgroups_nosender by exact Hs. reflexivity.
    - rewrite bounces_of_app, bounces_permgroups_nosender by exact Hs. cbn [app].
      unfold Bounce.retry_later. destruct bo as [w|]; cbn [fst]; [reflexivity|].
      change (bounces_of (AIncr :: exhaust (group_envs e (t :: tf))))
        with (bounces_of (exhaust (group_envs e (t :: tf)))).
      apply bounces_exhaust_nosender. intros g Hg.
      rewrite (group_envs_sender _ _ _ Hg). exact Hs.
  Qed.

  (* the null-sender guard: no failure of a message without sender spawns a bounce *)
  Theorem no_sender_no_bounce : forall e o bo, e_sender e = [] -> bounces_of (dispatch e o bo) = [].
  Proof.
    intros e o bo Hs. destruct o as [|r|r|m|items|rs]; cbn [Bounce.dispatch].
    - reflexivity.
    - rewrite bounces_perm_fail, Hs. reflexivity.
    - unfold Bounce.retry_later. destruct bo as [w|]; cbn [fst]; [reflexivity|].
      change (bounces_of (AIncr :: exhaust [(r, e)])) with (bounces_of (exhaust [(r, e)])).
      apply bounces_exhaust_nosender. intros g [Hg|[]]. subst g. exact Hs.
    - unfold Bounce.retry_later. destruct bo as [w|]; cbn [fst]; [reflexivity|].
      change (bounces_of (AIncr :: exhaust [(unhandled_reply udigit uspace m, e)]))
        with (bounces_of (exhaust [(unhandled_reply udigit uspace m, e)])).
      apply bounces_exhaust_nosender. intros g [Hg|[]]. subst g. exact Hs.
    - apply bounces_partial_nosender. exact Hs.
    - apply bounces_partial_nosender. exact Hs.
  Qed.

  (* every bounce spawned by a dispatch is for an envelope with the sender of
     the attempted message *)
  Lemma spec_bounces_sender : forall e o bo x, In x (spec_bounces e o bo) -> e_sender (fst x) = e_sender e.
  Proof.
    assert (Hsuf : forall e gs, (forall g, In g gs -> e_sender (snd g) = e_sender e) ->
                   forall x, In x (suffixed gs) -> e_sender (fst x) = e_sender e).
    { intros e. induction gs as [|[r ge] gs IH]; intros Hg x Hx.
      - destruct Hx.
      - cbn [suffixed] in Hx. destruct (add_suffix r) as [r'|]; [|destruct Hx].
        destruct Hx as [Hx|Hx].
        + subst x. apply (Hg (r, ge)). left. reflexivity.
        + apply IH; [|exact Hx]. intros g Hin. apply Hg. right. exact Hin. }
    assert (Hpart : forall e items bo x, In x (spec_partial e items bo) -> e_sender (fst x) = e_sender e).
    { intros e items bo x Hx. unfold spec_partial in Hx.
      destruct (classify (e_rcpts e) items [] [] []) as [[[dl tf] pf]|]; [|destruct Hx].
      apply in_app_or in Hx. destruct Hx as [Hx|Hx].
      - apply in_map_iff in Hx. destruct Hx as [g [Hg Hin]]. subst x. cbn [swap_g fst].
        eapply group_envs_sender. exact Hin.
      - destruct tf as [|t tf]; [destruct Hx|]. destruct bo; [destruct Hx|].
        eapply Hsuf; [|exact Hx]. intros g Hg. eapply group_envs_sender. exact Hg. }
    intros e o bo x Hx. destruct o as [|r|r|m|items|rs]; cbn [spec_bounces] in Hx.
    - destruct Hx.
    - destruct Hx as [Hx|[]]. subst x. reflexivity.
    - destruct bo; [destruct Hx|]. eapply Hsuf; [|exact Hx].
      intros g [Hg|[]]. subst g. reflexivity.
    - destruct bo; [destruct Hx|]. eapply Hsuf; [|exact Hx].
      intros g [Hg|[]]. subst g. reflexivity.
    - eapply Hpart. exact Hx.
    - eapply Hpart. exact Hx.
  Qed.
End Dispatch.

(* ====================================================================== *)
(* 6. Runs: bounces never loop, and they go through enqueue                *)
(* ====================================================================== *)
Section Runs.
  Variable udigit : N -> bool.
  Variable uspace : N -> bool.
  Notation dispatch := (dispatch udigit uspace).
  Notation step := (step udigit uspace).
  Notation run_events := (run_events udigit uspace).

  Definition orig_msg (e : menv) : msg := mkMsg e None false.

  (* what a bounce factory may be: whatever it builds has the null sender
     (Bounce.sender = '' unless an application overrides the class attribute) *)
  Definition factory_null (f : factory) : Prop :=
    forall e r u b, f e r u = FSome b -> b_sender b = [].

  Lemma default_factory_null : forall ho, factory_null (default_factory ho).
  Proof.
    intros ho e r u b H. unfold default_factory, bounce_new in H.
    destruct (render default_hp default_fp e r ho u) as [p|]; [|discriminate].
    destruct (env_split p) as [h m]. inversion H. reflexivity.
  Qed.

  (* a message that is the bounce of an original with a sender *)
  Definition bounce_of_original (origs : list menv) (m : msg) : Prop :=
    e_sender (m_env m) = [] /\
    exists p po, m_parent m = Some p /\ nth_error origs (N.to_nat p) = Some po /\ e_sender po <> [].

  (* the envelopes for which queue.enqueue returned an id *)
  Definition enq_ok (tr : list tact) : list msg :=
    flat_map (fun t => match t with TEnqueue q e p true => [mkMsg e p q] | _ => [] end) tr.

  Lemma enq_ok_app : forall a b, enq_ok (a ++ b) = enq_ok a ++ enq_ok b.
  Proof. intros. unfold enq_ok. apply flat_map_app. Qed.

  Variable c : cfg.
  Variable origs : list menv.

  (* --- invariant 1: shape of the message list *)
  Definition inv_shape (st : state) : Prop :=
    exists bs, msgs st = map orig_msg origs ++ bs /\ Forall (bounce_of_original origs) bs.

  (* --- invariant 2: messages exist only through enqueue, bounces on the configured queue *)
  Definition inv_enq (st : state) : Prop :=
    msgs st = enq_ok (trace st) /\
    (forall q e p ok, In (TEnqueue q e (Some p) ok) (trace st) -> q = c_sepq c).

  Lemma enqueue_enq : forall st q e p ok,
    inv_enq st -> (forall p', p = Some p' -> q = c_sepq c) -> inv_enq (enqueue st q e p ok).
  Proof.
    intros st q e p ok [H1 H2] Hq. unfold inv_enq, enqueue. destruct ok; cbn [msgs trace]; split.
    - rewrite enq_ok_app, <- H1. reflexivity.
    - intros q' e' p' ok' Hin. apply in_app_or in Hin. destruct Hin as [Hin|[Hin|[Hin|[]]]].
      + eapply H2. exact Hin.
      + inversion Hin; subst. eapply Hq. reflexivity.
      + discriminate.
    - rewrite enq_ok_app, <- H1. cbn. rewrite app_nil_r. reflexivity.
    - intros q' e' p' ok' Hin. apply in_app_or in Hin. destruct Hin as [Hin|[Hin|[]]].
      + eapply H2. exact Hin.
      + inversion Hin; subst. eapply Hq. reflexivity.
  Qed.

  Lemma note_enq : forall st t,
    inv_enq st -> (forall q e p ok, t <> TEnqueue q e p ok) -> inv_enq (mkSt (msgs st) (trace st ++ [t])).
  Proof.
    intros st t [H1 H2] Ht. split; cbn [msgs trace].
    - rewrite enq_ok_app, <- H1. destruct t; cbn; try (rewrite app_nil_r; reflexivity).
      exfalso. eapply Ht. reflexivity.
    - intros q e p ok Hin. apply in_app_or in Hin. destruct Hin as [Hin|[Hin|[]]].
      + eapply H2. exact Hin.
      + exfalso. eapply Ht. exact Hin.
  Qed.

  Lemma run_bounces_enq : forall i acts st chs,
    inv_enq st -> inv_enq (run_bounces c st i acts chs).
  Proof.
    intros i. induction acts as [|a acts IH]; intros st chs Hst.
    - exact Hst.
    - destruct a; cbn [run_bounces]; try (apply IH; exact Hst).
      destruct (c_factory c e r (fst (hd default_choice chs))) as [| |b].
      + apply IH. apply note_enq; [exact Hst|]. intros; discriminate.
      + apply IH. apply note_enq; [exact Hst|]. intros; discriminate.
      + apply IH. apply enqueue_enq; [exact Hst|]. intros; reflexivity.
  Qed.

  Lemma step_enq : forall st ev, inv_enq st -> inv_enq (step c st ev).
  Proof.
    intros st ev Hst. unfold Bounce.step.
    destruct (nth_error (msgs st) (N.to_nat (ev_msg ev))) as [m|]; [|exact Hst].
    apply run_bounces_enq.
    apply (note_enq st (TDispatch (ev_msg ev) _)); [exact Hst|]. intros; discriminate.
  Qed.

  Lemma init_gen : forall es st,
    inv_enq st ->
    let st' := fold_left (fun st e => enqueue st false e None true) es st in
    inv_enq st' /\ msgs st' = msgs st ++ map orig_msg es.
  Proof.
    induction es as [|e es IH]; intros st Hst; cbn [fold_left].
    - split; [exact Hst|]. cbn. rewrite app_nil_r. reflexivity.
    - assert (Hst' : inv_enq (enqueue st false e None true)).
      { apply enqueue_enq; [exact Hst|]. intros; discriminate. }
      destruct (IH _ Hst') as [H1 H2]. split; [exact H1|].
      cbn zeta in H2. rewrite H2. unfold enqueue. cbn [msgs map]. rewrite <- app_assoc. reflexivity.
  Qed.

  Lemma init_inv : inv_enq (init origs) /\ msgs (init origs) = map orig_msg origs.
  Proof.
    assert (H0 : inv_enq (mkSt [] [])).
    { split; [reflexivity|]. intros q e p ok []. }
    destruct (init_gen origs _ H0) as [H1 H2]. split; [exact H1|exact H2].
  Qed.

  (* C13_via_enqueue *)
  Theorem via_enqueue : forall evs,
    let st := run_events c origs evs in
    msgs st = enq_ok (trace st) /\
    (forall q e p ok, In (TEnqueue q e (Some p) ok) (trace st) -> q = c_sepq c).
  Proof.
    intros evs. unfold Bounce.run_events.
    assert (H : forall evs st, inv_enq st -> inv_enq (fold_left (step c) evs st)).
    { induction evs0 as [|ev evs0 IH]; intros st Hst; cbn [fold_left].
      - exact Hst.
      - apply IH. apply step_enq. exact Hst. }
    apply H. apply init_inv.
  Qed.

  (* ---- no loop *)
  Hypothesis Hfac : factory_null (c_factory c).

  Lemma shape_note : forall st tr, inv_shape st -> inv_shape (mkSt (msgs st) tr).
  Proof. intros st tr H. exact H. Qed.

  Lemma shape_enqueue : forall st q b i ok po,
    inv_shape st -> b_sender b = [] ->
    nth_error origs (N.to_nat i) = Some po -> e_sender po <> [] ->
    inv_shape (enqueue st q (env_of_bounce b) (Some i) ok).
  Proof.
    intros st q b i ok po [bs [H1 H2]] Hb Hpo Hs. unfold enqueue. destruct ok; cbn [msgs].
    - exists (bs ++ [mkMsg (env_of_bounce b) (Some i) q]). split.
      + rewrite H1, <- app_assoc. reflexivity.
      + apply Forall_app. split; [exact H2|]. constructor; [|constructor].
        split; [exact Hb|]. exists i, po. repeat split; assumption.
    - exists bs. split; assumption.
  Qed.

  Lemma bounces_of_cons_other : forall a acts,
    (forall e r, a <> ABounce e r) -> bounces_of (a :: acts) = bounces_of acts.
  Proof.
    intros a acts H. destruct a; try reflexivity. exfalso. eapply H. reflexivity.
  Qed.

  Lemma run_bounces_shape : forall i acts st chs,
    inv_shape st ->
    (bounces_of acts <> [] -> exists po, nth_error origs (N.to_nat i) = Some po /\ e_sender po <> []) ->
    inv_shape (run_bounces c st i acts chs).
  Proof.
    intros i. induction acts as [|a acts IH]; intros st chs Hst Hi.
    - exact Hst.
    - destruct a; cbn [run_bounces];
        try (apply IH; [exact Hst|]; intro Hne; apply Hi;
             rewrite bounces_of_cons_other by (intros; discriminate); exact Hne).
      assert (Hpo : exists po, nth_error origs (N.to_nat i) = Some po /\ e_sender po <> []).
      { apply Hi. cbn. discriminate. }
      assert (Hi' : bounces_of acts <> [] ->
                    exists po, nth_error origs (N.to_nat i) = Some po /\ e_sender po <> []).
      { intros _. exact Hpo. }
      destruct (c_factory c e r (fst (hd default_choice chs))) as [| |b] eqn:Ef.
      + apply IH; [|exact Hi']. exact Hst.
      + apply IH; [|exact Hi']. exact Hst.
      + destruct Hpo as [po [Hpo Hs]].
        apply IH; [|exact Hi']. eapply shape_enqueue; try eassumption.
        eapply Hfac. exact Ef.
  Qed.

  Lemma nth_error_orig : forall i m bs,
    nth_error (map orig_msg origs ++ bs) i = Some m ->
    Forall (bounce_of_original origs) bs ->
    e_sender (m_env m) <> [] ->
    exists po, nth_error origs i = Some po /\ m = orig_msg po.
  Proof.
    intros i m bs H Hbs Hs.
    destruct (Nat.ltb i (List.length (map orig_msg origs))) eqn:E.
    - apply Nat.ltb_lt in E. rewrite nth_error_app1 in H by exact E.
      rewrite nth_error_map in H. destruct (nth_error origs i) as [po|]; [|discriminate].
      inversion H. exists po. split; reflexivity.
    - apply Nat.ltb_ge in E. rewrite nth_error_app2 in H by exact E.
      apply nth_error_In in H. rewrite Forall_forall in Hbs.
      destruct (Hbs m H) as [Hnull _]. contradiction.
  Qed.

  Lemma step_shape : forall st ev, inv_shape st -> inv_shape (step c st ev).
  Proof.
    intros st ev Hst. unfold Bounce.step.
    destruct (nth_error (msgs st) (N.to_nat (ev_msg ev))) as [m|] eqn:En; [|exact Hst].
    apply run_bounces_shape.
    - exact Hst.
    - intro Hne.
      assert (Hs : e_sender (m_env m) <> []).
      { intro Hs. apply Hne. apply no_sender_no_bounce. exact Hs. }
      destruct Hst as [bs [H1 H2]]. rewrite H1 in En.
      destruct (nth_error_orig _ _ _ En H2 Hs) as [po [Hpo Hm]].
      exists po. split; [exact Hpo|]. subst m. exact Hs.
  Qed.

  (* C13_no_loop *)
  Theorem no_loop : forall evs,
    exists bs, msgs (run_events c origs evs) = map orig_msg origs ++ bs /\
               Forall (bounce_of_original origs) bs.
  Proof.
    intros evs. unfold Bounce.run_events.
    assert (H : forall evs st, inv_shape st -> inv_shape (fold_left (step c) evs st)).
    { induction evs0 as [|ev evs0 IH]; intros st Hst; cbn [fold_left].
      - exact Hst.
      - apply IH. apply step_shape. exact Hst. }
    apply H. exists []. split; [|constructor].
    rewrite app_nil_r. apply init_inv.
  Qed.

  Corollary no_loop_count : forall evs,
    exists bs, List.length (msgs (run_events c origs evs)) = (List.length origs + List.length bs)%nat /\
               Forall (bounce_of_original origs) bs.
  Proof.
    intros evs. destruct (no_loop evs) as [bs [H1 H2]]. exists bs. split; [|exact H2].
    rewrite H1, app_length, map_length. reflexivity.
  Qed.
End Runs.

(* ====================================================================== *)
(* 7. Examples: the hypotheses of the theorems are satisfiable             *)
(* ====================================================================== *)
Module Ex.
  Definition cl0 : client := mkClient true (Some (bs "there")) (Some (bs "192.0.2.1")) None.
  Definition e0 : menv :=
    mkEnv (bs "sender@example.com") [bs "a@example.com"; [233; 64; 98]; bs "c@example.com"]
          (bs "Subject: x" ++ CRLF ++ CRLF) ([255; 0; 10] ++ bs "8-bit body" ++ CRLF) cl0.
  Definition r550 : freply := mkF (new_reply is_digit is_ws (bs "550") (bs "5.1.1 No such user")) false (Some (bs "mx.example.com")).
  Definition r450 : freply := mkF (new_reply is_digit is_ws (bs "450") (bs "Mailbox full")) false None.
  Definition u0 : bytes := bs "0123456789abcdef0123456789abcdef".

  (* bounce_shape: a bounce is built, and its message really starts at the blank line *)
  Example shape_hyp : exists b, bounce_new default_hp default_fp e0 r550 false u0 = Some b /\
                                no_lf (e_sender e0) = true /\ no_lf u0 = true.
  Proof. eexists. split; [vm_compute; reflexivity|split; reflexivity]. Qed.

  (* dispatch_bounces: a mapping with two permanent replies and one transient, retries exhausted:
     three bounces (sender non-empty) *)
  Definition items0 : list (text * rres) :=
    [(bs "a@example.com", RRPerm r550); ([233; 64; 98], RRTemp r450); (bs "c@example.com", RRPerm r550)].
  Example dispatch_hyp :
    e_sender e0 <> [] /\
    List.length (bounces_of (dispatch is_digit is_ws e0 (OMap items0) None)) = 2%nat /\
    map (fun x => e_rcpts (fst x)) (bounces_of (dispatch is_digit is_ws e0 (OMap items0) None))
      = [[bs "a@example.com"; bs "c@example.com"]; [[233; 64; 98]]].
  Proof. split; [discriminate|]. split; vm_compute; reflexivity. Qed.

  (* no_loop / via_enqueue: a run in which the original fails, is bounced, and the bounce fails too *)
  Definition c0 : cfg := mkCfg (default_factory false) true.
  Definition evs0 : list event :=
    [mkEv 0 (e_rcpts e0) (OPerm r550) None [(u0, true)];
     mkEv 1 [bs "sender@example.com"] (OPerm r550) None []].
  Example run_hyp :
    factory_null (c_factory c0) /\
    List.length (msgs (run_events is_digit is_ws c0 [e0] evs0)) = 2%nat.
  Proof. split; [apply default_factory_null|vm_compute; reflexivity]. Qed.

  (* D24 *)
  Example d24_hyp : fr_none (mkF (new_reply is_digit is_ws (bs "550") []) true None) = true.
  Proof. reflexivity. Qed.
End Ex.

(* ====================================================================== *)
(* 8. The grouping does not depend on the order of the relay's mapping     *)
(* ====================================================================== *)

Lemma filter_perm : forall (A : Type) (f : A -> bool) (l l' : list A),
  Permutation l l' -> Permutation (filter f l) (filter f l').
Proof.
  intros A f l l' H. induction H as [|x l l' H IH|x y l|l l' l'' H1 IH1 H2 IH2].
  - apply Permutation_refl.
  - cbn [filter]. destruct (f x); [apply perm_skip|]; exact IH.
  - cbn [filter]. destruct (f x); destruct (f y); try apply Permutation_refl. apply perm_swap.
  - eapply Permutation_trans; eassumption.
Qed.

Lemma filter_same : forall (A : Type) (f g : A -> bool) (l : list A),
  (forall x, f x = g x) -> filter f l = filter g l.
Proof.
  intros A f g l H. induction l as [|x l IH]; [reflexivity|].
  cbn [filter]. rewrite H, IH. reflexivity.
Qed.

Lemma freply_eqb_congr : forall a r r', freply_eqb r r' = true -> freply_eqb a r = freply_eqb a r'.
Proof.
  intros a r r' H. apply freply_eqb_key in H.
  destruct (freply_eqb a r) eqn:E1; destruct (freply_eqb a r') eqn:E2; try reflexivity.
  - apply freply_eqb_key in E1. apply freply_eqb_false_key in E2. exfalso. apply E2. congruence.
  - apply freply_eqb_key in E2. apply freply_eqb_false_key in E1. exfalso. apply E1. congruence.
Qed.

(* two groupings agree up to the order of the groups and of the recipients inside a group *)
Definition groups_equiv (gs gs' : list (freply * list text)) : Prop :=
  List.length gs = List.length gs' /\
  forall r l, In (r, l) gs ->
    exists r' l', In (r', l') gs' /\ freply_eqb r r' = true /\ Permutation l l'.

Lemma gkeys_in_fails : forall fails k,
  In k (gkeys (split_by_reply fails)) <-> In k (map (fun p => rkey (snd p)) fails).
Proof.
  intros fails k. destruct (ginv_split fails) as [Hnd Hex Hcov Hrep]. split; intro H.
  - unfold gkeys in H. apply in_map_iff in H. destruct H as [[r l] [Hk Hin]]. subst k. cbn [fst].
    destruct (Hrep r l Hin) as [rc Hrc].
    apply in_map_iff. exists (rc, r). split; [reflexivity|exact Hrc].
  - apply in_map_iff in H. destruct H as [p [Hk Hin]]. subst k.
    destruct (Hcov p Hin) as [r [l [Hg He]]]. apply freply_eqb_key in He. rewrite He.
    apply (in_gkeys (r, l)). exact Hg.
Qed.

Theorem groups_invariant : forall fails fails' : list (text * freply),
  Permutation fails fails' ->
  groups_equiv (split_by_reply fails) (split_by_reply fails').
Proof.
  intros fails fails' HP. split.
  - (* same number of groups: the key lists are duplicate-free with the same elements *)
    assert (Hl : List.length (gkeys (split_by_reply fails)) = List.length (gkeys (split_by_reply fails'))).
    { apply Permutation_length. apply NoDup_Permutation.
      - apply (gi_nodup _ _ (ginv_split fails)).
      - apply (gi_nodup _ _ (ginv_split fails')).
      - intro k. rewrite !gkeys_in_fails. split; intro H.
        + eapply Permutation_in; [|exact H]. apply Permutation_map. exact HP.
        + eapply Permutation_in; [|exact H]. apply Permutation_map. apply Permutation_sym. exact HP. }
    unfold gkeys in Hl. rewrite !map_length in Hl. exact Hl.
  - intros r l Hin.
    destruct (ginv_split fails) as [_ Hex _ Hrep].
    destruct (ginv_split fails') as [_ Hex' Hcov' _].
    destruct (Hex r l Hin) as [Hl _]. destruct (Hrep r l Hin) as [rc Hrc].
    assert (Hrc' : In (rc, r) fails') by (eapply Permutation_in; eassumption).
    destruct (Hcov' (rc, r) Hrc') as [r' [l' [Hg' He]]]. cbn [snd] in He.
    exists r', l'. split; [exact Hg'|]. split; [exact He|].
    destruct (Hex' r' l' Hg') as [Hl' _]. subst l l'. unfold with_reply.
    apply Permutation_map.
    rewrite (filter_same _ (fun p => freply_eqb (snd p) r) (fun p => freply_eqb (snd p) r') fails)
      by (intro x; apply freply_eqb_congr; exact He).
    apply filter_perm. exact HP.
Qed.

(* the same for the loop of _handle_partial_relay: permuting the mapping
   permutes the lists of transient and permanent failures (and does not change
   whether list.index raises) *)
Section Classify.

  Definition crel (a b : option (list N * list (text * freply) * list (text * freply))) : Prop :=
    match a, b with
    | Some (_, t, p), Some (_, t', p') => Permutation t t' /\ Permutation p p'
    | None, None => True
    | _, _ => False
    end.

  Lemma crel_trans : forall a b c, crel a b -> crel b c -> crel a c.
  Proof.
    intros [[[d t] p]|] [[[d' t'] p']|] [[[d'' t''] p'']|]; cbn; try tauto.
    intros [H1 H2] [H3 H4]. split; eapply Permutation_trans; eassumption.
  Qed.

  Lemma classify_perm_gen : forall rcpts items items',
    Permutation items items' ->
    forall dl dl' tf tf' pf pf', Permutation tf tf' -> Permutation pf pf' ->
    crel (Bounce.classify rcpts items dl tf pf) (Bounce.classify rcpts items' dl' tf' pf').
  Proof.
    intros rcpts items items' H.
    induction H as [|x l l' H IH|x y l|l l' l'' H1 IH1 H2 IH2]; intros dl dl' tf tf' pf pf' Ht Hp.
    - cbn. split; assumption.
    - destruct x as [rc res]. cbn [Bounce.classify]. destruct res as [|r|r|].
      + destruct (index_of rc rcpts 0); [apply IH; assumption|exact I].
      + destruct (index_of rc rcpts 0); [|exact I].
        apply IH; [assumption|]. apply Permutation_app_tail. exact Hp.
      + apply IH; [|assumption]. apply Permutation_app_tail. exact Ht.
      + apply IH; assumption.
    - assert (Hrefl : forall l0 d d' t t' p p', Permutation t t' -> Permutation p p' ->
                      crel (Bounce.classify rcpts l0 d t p) (Bounce.classify rcpts l0 d' t' p')).
      { induction l0 as [|[rc res] l0 IHl]; intros d d' t t' p p' Ht' Hp'.
        - cbn. split; assumption.
        - cbn [Bounce.classify]. destruct res as [|r|r|].
          + destruct (index_of rc rcpts 0); [apply IHl; assumption|exact I].
          + destruct (index_of rc rcpts 0); [|exact I].
            apply IHl; [assumption|]. apply Permutation_app_tail. exact Hp'.
          + apply IHl; [|assumption]. apply Permutation_app_tail. exact Ht'.
          + apply IHl; assumption. }
      assert (Hsw : forall (A : Type) (a a' : list A) u v, Permutation a a' ->
                    Permutation ((a ++ [u]) ++ [v]) ((a' ++ [v]) ++ [u])).
      { intros A a a' u v Ha. rewrite <- !app_assoc. apply Permutation_app; [exact Ha|]. apply perm_swap. }
      destruct x as [rcx rx]; destruct y as [rcy ry]. cbn [Bounce.classify].
      destruct ry as [|r1|r1|]; destruct rx as [|r2|r2|];
        destruct (index_of rcy rcpts 0); destruct (index_of rcx rcpts 0); cbn [crel];
        try exact I;
        try (apply Hrefl; first [assumption | apply Hsw; assumption | apply Permutation_app_tail; assumption]).
    - eapply crel_trans.
      + apply (IH1 dl dl tf tf pf pf); apply Permutation_refl.
      + apply IH2; assumption.
  Qed.
End Classify.

(* C13_groups_invariant_under_mapping_order *)
Theorem groups_invariant_under_mapping_order : forall rcpts items items' dl tf pf,
  Permutation items items' ->
  classify rcpts items [] [] [] = Some (dl, tf, pf) ->
  exists dl' tf' pf',
    classify rcpts items' [] [] [] = Some (dl', tf', pf') /\
    groups_equiv (split_by_reply tf) (split_by_reply tf') /\
    groups_equiv (split_by_reply pf) (split_by_reply pf').
Proof.
  intros rcpts items items' dl tf pf HP Hc.
  assert (H := classify_perm_gen rcpts items items' HP [] [] [] [] [] []
                 (Permutation_refl _) (Permutation_refl _)).
  rewrite Hc in H.
  destruct (classify rcpts items' [] [] []) as [[[dl' tf'] pf']|]; [|destruct H].
  destruct H as [Ht Hp]. exists dl', tf', pf'. split; [reflexivity|].
  split; apply groups_invariant; assumption.
Qed.

Module Ex2.
  Import Ex.
  (* the hypotheses of groups_invariant_under_mapping_order hold for a mapping and its reversal, and the
     two groupings really differ (other order of groups and of recipients) *)
  Definition rcpts0 := e_rcpts e0.
  Definition items1 : list (text * rres) :=
    [(bs "a@example.com", RRTemp r450); ([233; 64; 98], RRTemp r550); (bs "c@example.com", RRTemp r450)].
  Example mapping_order_hyp :
    Permutation items1 (rev items1) /\
    (exists dl tf pf, classify rcpts0 items1 [] [] [] = Some (dl, tf, pf) /\
                      map snd (split_by_reply tf) = [[bs "a@example.com"; bs "c@example.com"]; [[233; 64; 98]]]) /\
    (exists dl tf pf, classify rcpts0 (rev items1) [] [] [] = Some (dl, tf, pf) /\
                      map snd (split_by_reply tf) = [[bs "c@example.com"; bs "a@example.com"]; [[233; 64; 98]]]).
  Proof.
    split; [apply Permutation_rev|].
    split; eexists; eexists; eexists; split; vm_compute; reflexivity.
  Qed.
End Ex2.

(* ====================================================================== *)
(* 9. Totality: a bounce is built for every reply text / sender / client   *)
(*    name that is Unicode (no lone surrogate), whatever characters        *)
(* ====================================================================== *)
Definition unicode_ok (t : text) : Prop := forallb valid_cp t = true.
Definition ascii_ok (t : text) : Prop := forallb (fun c => c <? 128) t = true.

Lemma enc_utf8_ok : forall t, unicode_ok t -> enc_utf8 t = Some (utf8_enc t).
Proof. intros t H. unfold enc_utf8. rewrite H. reflexivity. Qed.

Lemma ascii_unicode : forall t, ascii_ok t -> unicode_ok t.
Proof.
  unfold ascii_ok, unicode_ok. induction t as [|c t IH]; intro H.
  - reflexivity.
  - cbn [forallb] in *. apply andb_true_iff in H. destruct H as [H1 H2].
    apply andb_true_iff. split; [|apply IH; exact H2].
    unfold valid_cp, is_surrogate. lia.
Qed.

(* what has to be text for Bounce to be able to render it *)
Definition env_texts_ok (e : menv) : Prop :=
  unicode_ok (e_sender e) /\
  unicode_ok (or_unknown (cl_name (e_client e))) /\
  unicode_ok (or_unknown (cl_ip (e_client e))).
Definition reply_texts_ok (r : freply) : Prop :=
  fr_none r = false /\ ascii_ok (r_code (fr r)) /\ unicode_ok (get_message (fr r)) /\
  match fr_addr r with Some h => unicode_ok h | None => True end.

Lemma delivery_info_total : forall e r, env_texts_ok e -> reply_texts_ok r ->
  exists di, delivery_info e r = Some di.
Proof.
  intros e r [_ [Hn Hi]] [Hnone [Hc [Hm Ha]]]. unfold delivery_info, reply_bytes, msg_opt.
  rewrite Hnone. unfold enc_ascii. unfold ascii_ok in Hc. rewrite Hc.
  rewrite (enc_utf8_ok _ Hn), (enc_utf8_ok _ Hi). cbn [obind]. rewrite (enc_utf8_ok _ Hm). cbn [obind].
  destruct (cl_nonempty (e_client e)); cbn [obind];
    (destruct (fr_addr r) as [[|h0 h]|]; [| rewrite (enc_utf8_ok _ Ha) |]; cbn [obind]; eexists; reflexivity).
Qed.

Theorem bounce_built : forall e r ho u,
  env_texts_ok e -> reply_texts_ok r ->
  exists b pre di,
    bounce_new default_hp default_fp e r ho u = Some b /\
    b_sender b = [] /\ b_rcpts b = [e_sender e] /\
    b_msg b = pre ++
      text_part (boundary_of u) (join rcpt_join (map enc_xmlref (e_rcpts e)))
                (utf8_enc (r_code (fr r))) (utf8_enc (get_message (fr r))) di (ctype_of ho) ++
      e_hdr e ++ (if ho then [] else e_body e) ++ closing (boundary_of u).
Proof.
  intros e r ho u He Hr.
  destruct (delivery_info_total e r He Hr) as [di Hdi].
  destruct He as [Hs [Hn Hi]]. destruct Hr as [Hnone [Hc [Hm Ha]]].
  assert (Hcu : unicode_ok (r_code (fr r))) by (apply ascii_unicode; exact Hc).
  assert (Hmo : msg_opt r = Some (get_message (fr r))) by (unfold msg_opt; rewrite Hnone; reflexivity).
  assert (Hr : exists p, render default_hp default_fp e r ho u = Some p).
  { unfold render. rewrite Hdi. cbn [obind]. rewrite default_hp_eq, default_fp_eq. cbn [fmt].
    rewrite !lk_boundary, lk_sender, lk_recipients, lk_di, lk_ctype, lk_code, lk_message.
    rewrite Hmo. cbn [obind].
    rewrite (enc_utf8_ok _ Hs), (enc_utf8_ok _ Hcu), (enc_utf8_ok _ Hm).
    cbn [option_map obind]. eexists. reflexivity. }
  destruct Hr as [p Hp].
  assert (Hb : exists b, bounce_new default_hp default_fp e r ho u = Some b).
  { unfold bounce_new. rewrite Hp. destruct (env_split p) as [h m]. eexists. reflexivity. }
  destruct Hb as [b Hb].
  destruct (bounce_shape e r ho u b Hb) as [H1 [H2 [sb [cb [m [mb [di' [pre [Es [Ec [Em [Emb [Edi [_ [Hmsg _]]]]]]]]]]]]]]].
  exists b, pre, di'. split; [exact Hb|]. split; [exact H1|]. split; [exact H2|].
  rewrite (enc_utf8_ok _ Hcu) in Ec. apply some_inj in Ec. subst cb.
  rewrite Hmo in Em. apply some_inj in Em. subst m.
  rewrite (enc_utf8_ok _ Hm) in Emb. apply some_inj in Emb. subst mb.
  exact Hmsg.
Qed.

Module Ex3.
  Import Ex.
  (* hypotheses of bounce_built hold for a reply text with 2-, 3- and 4-byte characters,
     an SMTPUTF8 sender and a non-ASCII client name *)
  Definition e1 : menv :=
    mkEnv [109; 252; 108; 108; 101; 114; 64; 20363; 12360; 46; 106; 112] [bs "a@example.com"]
          (bs "Subject: x" ++ CRLF ++ CRLF) [255; 254; 10]
          (mkClient true (Some [104; 244; 116; 101]) (Some (bs "192.0.2.1")) None).
  Definition r1 : freply :=
    mkF (new_reply is_digit is_ws (bs "550") (bs "5.1.1 " ++ [233; 8364; 26085; 128554])) false
        (Some (bs "2001:db8::1")).
  Example built_hyp : env_texts_ok e1 /\ reply_texts_ok r1.
  Proof. repeat split; vm_compute; reflexivity. Qed.
End Ex3.
