(* Proofs for C19 (model/Pool.v). *)
From Coq Require Import List NArith Bool Lia ZifyBool ZifyN Permutation.
From SV Require Import lib.Sched model.Pool.
Import ListNotations.
Open Scope N_scope.

(* ================================================================== *)
(* 1. BlockingDeque                                                   *)

Lemma nlen_nil : forall A, nlen (@nil A) = 0.
Proof. reflexivity. Qed.

Lemma nlen_cons : forall A (x : A) l, nlen (x :: l) = nlen l + 1.
Proof. intros. unfold nlen. cbn [length]. lia. Qed.

Lemma nlen_app : forall A (a b : list A), nlen (a ++ b) = nlen a + nlen b.
Proof. intros. unfold nlen. rewrite app_length. lia. Qed.

Lemma nlen_rev : forall A (l : list A), nlen (rev l) = nlen l.
Proof. intros. unfold nlen. rewrite rev_length. reflexivity. Qed.

Lemma nlen_zero : forall A (l : list A), nlen l = 0 -> l = [].
Proof. intros A [|x l] H; [reflexivity|]. rewrite nlen_cons in H. lia. Qed.

Definition dq_ok {A} (d : dq A) : Prop := cnt d = nlen (items d).

Lemma remove_first_len : forall A (eqA : A -> A -> bool) x l l',
    remove_first A eqA x l = Some l' -> nlen l = nlen l' + 1.
Proof.
  intros A eqA x. induction l as [|y l IH]; intros l' H; cbn in H; [discriminate|].
  destruct (eqA x y).
  - inversion H; subst. apply nlen_cons.
  - destruct (remove_first A eqA x l) eqn:E; [|discriminate]. inversion H; subst.
    rewrite !nlen_cons. rewrite (IH l0 eq_refl). reflexivity.
Qed.

Lemma dq_apply_ok : forall d o, dq_ok d ->
    dq_ok (fst (dq_apply d o)) /\ out_is_bad (snd (dq_apply d o)) = false.
Proof.
  intros [it c] o H. unfold dq_ok in *. cbn [items cnt] in H. subst c.
  destruct o; cbn [dq_apply dq_append dq_appendleft dq_clear dq_extend dq_extendleft fst snd items cnt].
  - split; [|reflexivity]. rewrite nlen_app, nlen_cons, nlen_nil. lia.
  - split; [|reflexivity]. rewrite nlen_cons. reflexivity.
  - split; reflexivity.
  - split; [|reflexivity]. rewrite nlen_app. lia.
  - split; [|reflexivity]. rewrite nlen_app, nlen_rev. lia.
  - (* pop *)
    unfold dq_pop. cbn [items cnt].
    destruct (nlen it =? 0) eqn:E0; [split; [reflexivity|reflexivity]|].
    destruct (rev it) as [|x l] eqn:Er.
    + exfalso. assert (it = []) by (rewrite <- (rev_involutive it), Er; reflexivity). subst. cbn in E0. discriminate.
    + cbn [out_of_pop fst snd items cnt]. split; [|reflexivity].
      assert (it = rev l ++ [x]) by (rewrite <- (rev_involutive it), Er; reflexivity). subst it.
      rewrite nlen_app, nlen_cons, nlen_nil. lia.
  - (* popleft *)
    unfold dq_popleft. cbn [items cnt].
    destruct (nlen it =? 0) eqn:E0; [split; reflexivity|].
    destruct it as [|x l]; [cbn in E0; discriminate|].
    cbn [out_of_pop fst snd items cnt]. split; [|reflexivity]. rewrite nlen_cons. lia.
  - (* remove *)
    unfold dq_remove. cbn [items cnt].
    destruct (remove_first N N.eqb x it) eqn:Er; [|split; reflexivity].
    apply remove_first_len in Er.
    destruct (nlen it =? 0) eqn:E0; [lia|].
    cbn [fst snd items cnt]. split; [lia|reflexivity].
Qed.

Lemma dq_run_ok_gen : forall ops d outs,
    dq_ok d -> forallb (fun r => negb (out_is_bad r)) outs = true ->
    let r := fold_left dq_run_step ops (d, outs) in
    dq_ok (fst r) /\ forallb (fun r => negb (out_is_bad r)) (snd r) = true.
Proof.
  induction ops as [|o ops IH]; intros d outs Hd Ho; cbn [fold_left]; [split; assumption|].
  pose proof (dq_apply_ok d o Hd) as [H1 H2].
  assert (E : dq_run_step (d, outs) o = (fst (dq_apply d o), snd (dq_apply d o) :: outs)).
  { unfold dq_run_step. cbn [fst snd]. destruct (dq_apply d o); reflexivity. }
  rewrite E. apply IH; [exact H1|]. cbn [forallb]. rewrite H2, Ho. reflexivity.
Qed.

(* the semaphore counter equals the length after any sequence of BlockingDeque calls, and no
   call ever hits IndexError or blocks after having removed an element *)
Lemma deque_sema : forall l0 ops,
    cnt (fst (dq_run l0 ops)) = nlen (items (fst (dq_run l0 ops))) /\
    forallb (fun r => negb (out_is_bad r)) (snd (dq_run l0 ops)) = true.
Proof.
  intros. unfold dq_run. apply dq_run_ok_gen; [reflexivity|reflexivity].
Qed.

Example deque_sema_example :
  dq_run [1; 2] [OAppend 5; OPopLeft; OExtendLeft [7; 8]; ORemove 2; OPop; OClear; OPop]
  = (mkDq [] 0, [RBlocked; RNone; RItem 5; RNone; RNone; RItem 1; RNone]).
Proof. vm_compute. reflexivity. Qed.

(* ================================================================== *)
(* 2. RelayPool                                                       *)

Lemma NoDup_snoc : forall A (l : list A) x, NoDup l -> ~ In x l -> NoDup (l ++ [x]).
Proof.
  induction l as [|y l IH]; intros x ND Hn; cbn; [constructor; [intros []|constructor]|].
  inversion ND; subst. constructor.
  - intro HI. apply in_app_or in HI. destruct HI as [HI | [-> | []]]; [contradiction | apply Hn; left; reflexivity].
  - apply IH; [assumption | intro; apply Hn; right; assumption].
Qed.

(* ---- client list lemmas *)
Lemma set_cst_ids : forall c st p, map c_id (set_cst c st p) = map c_id p.
Proof.
  intros c st. induction p as [|cl p IH]; cbn; [reflexivity|].
  destruct (c_id cl =? c) eqn:E; cbn; [apply N.eqb_eq in E; rewrite E; reflexivity | rewrite IH; reflexivity].
Qed.

Lemma set_cst_length : forall c st p, length (set_cst c st p) = length p.
Proof. intros. rewrite <- (map_length c_id), set_cst_ids, map_length. reflexivity. Qed.

Lemma set_cst_nlen : forall c st p, nlen (set_cst c st p) = nlen p.
Proof. intros. unfold nlen. rewrite set_cst_length. reflexivity. Qed.

Lemma set_cst_nil : forall c st p, set_cst c st p = [] -> p = [].
Proof. intros c st p H. apply (f_equal (@length _)) in H. rewrite set_cst_length in H. destruct p; [reflexivity|discriminate]. Qed.

Lemma find_client_In : forall c p cl, find_client c p = Some cl -> In cl p /\ c_id cl = c.
Proof.
  intros c. induction p as [|x p IH]; intros cl H; cbn in H; [discriminate|].
  destruct (c_id x =? c) eqn:E.
  - inversion H; subst. split; [left; reflexivity | apply N.eqb_eq; exact E].
  - destruct (IH cl H). split; [right; assumption | assumption].
Qed.

Lemma find_client_NoDup : forall p cl, NoDup (map c_id p) -> In cl p -> find_client (c_id cl) p = Some cl.
Proof.
  induction p as [|x p IH]; intros cl ND HI; [destruct HI|].
  cbn. cbn in ND. inversion ND as [|? ? Hn ND']; subst.
  destruct HI as [-> | HI].
  - rewrite N.eqb_refl. reflexivity.
  - destruct (c_id x =? c_id cl) eqn:E.
    + exfalso. apply N.eqb_eq in E. apply Hn. rewrite E. apply in_map. exact HI.
    + apply IH; assumption.
Qed.

Lemma del_client_incl : forall c p cl, In cl (del_client c p) -> In cl p.
Proof.
  intros c. induction p as [|x p IH]; intros cl H; cbn in H; [destruct H|].
  destruct (c_id x =? c); [right; exact H|].
  destruct H as [-> | H]; [left; reflexivity | right; apply IH; exact H].
Qed.

Lemma del_client_NoDup : forall c p, NoDup (map c_id p) -> NoDup (map c_id (del_client c p)).
Proof.
  intros c. induction p as [|x p IH]; intros ND; cbn; [constructor|].
  cbn in ND. inversion ND as [|? ? Hn ND']; subst.
  destruct (c_id x =? c); [exact ND'|].
  cbn. constructor; [|apply IH; exact ND'].
  intro HI. apply Hn. apply in_map_iff in HI. destruct HI as [y [Ey Hy]].
  apply in_map_iff. exists y. split; [exact Ey | eapply del_client_incl; exact Hy].
Qed.

Lemma del_client_nlen : forall c p, nlen (del_client c p) <= nlen p.
Proof.
  intros c. induction p as [|x p IH]; cbn [del_client]; [lia|].
  destruct (c_id x =? c); rewrite ?nlen_cons; lia.
Qed.

Lemma set_cst_In : forall c st p cl, In cl (set_cst c st p) -> In cl p \/ cl = mkClient c st.
Proof.
  intros c st. induction p as [|x p IH]; intros cl H; cbn in H; [destruct H|].
  destruct (c_id x =? c).
  - destruct H as [<- | H]; [right; reflexivity | left; right; exact H].
  - destruct H as [<- | H]; [left; left; reflexivity|].
    destruct (IH cl H) as [H1 | H1]; [left; right; exact H1 | right; exact H1].
Qed.

(* requests in flight when one client changes state *)
Lemma inflight_set_cst : forall c st p cl,
    find_client c p = Some cl ->
    Permutation (req_of (c_st cl) ++ inflight (set_cst c st p)) (req_of st ++ inflight p).
Proof.
  intros c st. induction p as [|x p IH]; intros cl H; cbn in H; [discriminate|].
  cbn [set_cst]. destruct (c_id x =? c) eqn:E.
  - inversion H; subst. unfold inflight. cbn [flat_map c_st].
    rewrite !app_assoc. apply Permutation_app_tail. apply Permutation_app_comm.
  - unfold inflight in *. cbn [flat_map].
    specialize (IH cl H).
    rewrite !app_assoc.
    eapply Permutation_trans; [apply Permutation_app_tail; apply Permutation_app_comm|].
    eapply Permutation_trans; [|apply Permutation_app_tail; apply Permutation_app_comm].
    rewrite <- !app_assoc. apply Permutation_app_head. exact IH.
Qed.

Lemma inflight_del_client : forall c p cl,
    find_client c p = Some cl -> req_of (c_st cl) = [] -> inflight (del_client c p) = inflight p.
Proof.
  intros c. induction p as [|x p IH]; intros cl H Hr; cbn in H; [discriminate|].
  cbn [del_client]. destruct (c_id x =? c) eqn:E.
  - inversion H; subst. unfold inflight. cbn [flat_map]. rewrite Hr. reflexivity.
  - unfold inflight in *. cbn [flat_map]. rewrite (IH cl H Hr). reflexivity.
Qed.

Lemma inflight_app : forall a b, inflight (a ++ b) = inflight a ++ inflight b.
Proof. intros. unfold inflight. apply flat_map_app. Qed.

(* ---- the invariant that needs no assumption on the clients *)
Record Inv (cfg : config) (s : pstate) : Prop := mkInv {
  inv_sema : cnt (q s) = nlen (items (q s));
  inv_nocrash : crashed s = false;
  inv_nodup : NoDup (map c_id (pool s));
  inv_fresh : forall cl, In cl (pool s) -> c_id cl < next_cid s;
  inv_bound : size cfg <> 0 -> nlen (pool s) <= size cfg;
  inv_served : items (q s) <> [] -> pool s <> [];
  inv_slots : forall a, In a (attempts s) -> r_slot a < next_slot s
}.

Lemma inv_init : forall cfg, Inv cfg init_state.
Proof.
  intros cfg. constructor; cbn; try reflexivity; try (intros; contradiction); try constructor.
  - intros _. lia.
Qed.

Lemma add_client_inv_gen : forall cfg s,
    cnt (q s) = nlen (items (q s)) -> crashed s = false -> NoDup (map c_id (pool s)) ->
    (forall cl, In cl (pool s) -> c_id cl < next_cid s) ->
    (size cfg <> 0 -> nlen (pool s) < size cfg) ->
    (forall a, In a (attempts s) -> r_slot a < next_slot s) ->
    Inv cfg (add_client s).
Proof.
  intros cfg s H1 H2 H3 H4 Hb H6.
  constructor; cbn [add_client pool q crashed next_cid next_slot attempts]; auto.
  - rewrite map_app. cbn. apply NoDup_snoc; [exact H3|].
    intro HI. apply in_map_iff in HI. destruct HI as [y [Ey Hy]]. apply H4 in Hy. lia.
  - intros cl HI. apply in_app_or in HI. destruct HI as [HI | [<- | []]]; [apply H4 in HI; lia | cbn; lia].
  - intros Hs. rewrite nlen_app, nlen_cons, nlen_nil. specialize (Hb Hs). lia.
  - intros _ H. destruct (pool s); discriminate.
Qed.

Lemma add_client_inv : forall cfg s,
    Inv cfg s -> (size cfg <> 0 -> nlen (pool s) < size cfg) -> Inv cfg (add_client s).
Proof. intros cfg s I Hb. destruct I. apply add_client_inv_gen; assumption. Qed.

Lemma cst_of_find : forall c s st,
    cst_of c s = Some st -> exists cl, find_client c (pool s) = Some cl /\ c_st cl = st.
Proof.
  intros c s st H. unfold cst_of in H. destruct (find_client c (pool s)) as [cl|] eqn:E; [|discriminate].
  inversion H; subst. exists cl. split; reflexivity.
Qed.

Lemma cst_of_pool_nonempty : forall c s st, cst_of c s = Some st -> pool s <> [].
Proof.
  intros c s st H. apply cst_of_find in H. destruct H as [cl [H _]].
  destruct (pool s); [discriminate H | discriminate].
Qed.

(* the invariant only looks at these components *)
Lemma inv_same : forall cfg s s',
    Inv cfg s -> q s' = q s -> crashed s' = crashed s -> map c_id (pool s') = map c_id (pool s) ->
    next_cid s' = next_cid s -> next_slot s' = next_slot s -> attempts s' = attempts s -> Inv cfg s'.
Proof.
  intros cfg s s' I Hq Hc Hp Hn Hs Ha. destruct I.
  assert (Hl : nlen (pool s') = nlen (pool s)).
  { unfold nlen. rewrite <- (map_length c_id (pool s')), Hp, map_length. reflexivity. }
  constructor; rewrite ?Hq, ?Hc, ?Hp, ?Hn, ?Hs, ?Ha, ?Hl; auto.
  - intros cl HI. apply (in_map c_id) in HI. rewrite Hp in HI. apply in_map_iff in HI.
    destruct HI as [y [Ey Hy]]. rewrite <- Ey. apply inv_fresh0. exact Hy.
  - intros H1 H2. apply inv_served0; [exact H1|]. rewrite H2 in Hp. cbn in Hp.
    destruct (pool s); [reflexivity | discriminate].
Qed.

Lemma inv_set_q : forall cfg s d,
    Inv cfg s -> cnt d = nlen (items d) -> (items d <> [] -> pool s <> []) -> Inv cfg (set_q d s).
Proof. intros cfg s d I H1 H2. destruct I. constructor; cbn [set_q pool q crashed next_cid next_slot attempts]; auto. Qed.

Lemma to_state_inv : forall cfg c st s, Inv cfg s -> Inv cfg (to_state c st s).
Proof.
  intros. eapply inv_same; [eassumption | reflexivity | reflexivity | | reflexivity | reflexivity | reflexivity].
  cbn. apply set_cst_ids.
Qed.

Lemma enter_poll_inv : forall cfg c s, Inv cfg s -> Inv cfg (enter_poll cfg c s).
Proof.
  intros. eapply inv_same; [eassumption | reflexivity | reflexivity | | reflexivity | reflexivity | reflexivity].
  cbn. apply set_cst_ids.
Qed.

Lemma leave_poll_inv : forall cfg c st s, Inv cfg s -> Inv cfg (leave_poll c st s).
Proof.
  intros. eapply inv_same; [eassumption | reflexivity | reflexivity | | reflexivity | reflexivity | reflexivity].
  cbn. apply set_cst_ids.
Qed.

Lemma existsb_nonempty : forall A (f : A -> bool) l, existsb f l = true -> l <> [].
Proof. intros A f [|x l] H; [discriminate | discriminate]. Qed.

Lemma check_idle_inv : forall cfg s, Inv cfg s -> Inv cfg (check_idle cfg s) /\ pool (check_idle cfg s) <> [].
Proof.
  intros cfg s I. unfold check_idle.
  destruct (existsb is_polling (pool s)) eqn:E1; [split; [exact I | eapply existsb_nonempty; exact E1]|].
  destruct ((size cfg =? 0) || (nlen (pool s) <? size cfg)) eqn:E2.
  - split; [apply add_client_inv; [exact I | intros Hs; lia]|].
    cbn. destruct (pool s); discriminate.
  - split; [exact I|]. intro Hp. rewrite Hp in E2. cbn in E2. lia.
Qed.

Lemma do_attempt_inv : forall cfg env s, Inv cfg s -> Inv cfg (do_attempt cfg env s).
Proof.
  intros cfg env s I. destruct (check_idle_inv cfg s I) as [I1 Hne]. destruct I1.
  unfold do_attempt. constructor; cbn [pool q crashed next_cid next_slot attempts dq_append items cnt]; auto.
  - rewrite nlen_app, nlen_cons, nlen_nil. lia.
  - intros a HI. apply in_app_or in HI. destruct HI as [HI | [<- | []]]; [apply inv_slots0 in HI; lia | cbn; lia].
Qed.

Lemma remove_client_inv : forall cfg c s, Inv cfg s -> Inv cfg (remove_client c s).
Proof.
  intros cfg c s I. destruct I.
  unfold remove_client. cbn [set_pool q pool].
  destruct (del_client c (pool s)) as [|x p] eqn:Ed.
  - destruct (0 <? nlen (items (q s))) eqn:E0; cbn [andb].
    + (* the last client left with requests pending: respawn *)
      apply add_client_inv_gen; cbn [set_pool pool q crashed next_cid next_slot attempts]; auto.
      * constructor.
      * intros cl [].
      * intros Hs. cbn. lia.
    + constructor; cbn [set_pool pool q crashed next_cid next_slot attempts]; auto.
      * constructor.
      * intros cl [].
      * intros _. cbn. lia.
      * intros Hq. exfalso. destruct (items (q s)); [apply Hq; reflexivity | rewrite nlen_cons in E0; lia].
  - rewrite andb_false_r. rewrite <- Ed.
    constructor; cbn [set_pool pool q crashed next_cid next_slot attempts]; auto.
    + apply del_client_NoDup. assumption.
    + intros cl HI. apply inv_fresh0. eapply del_client_incl. exact HI.
    + intros Hs. pose proof (del_client_nlen c (pool s)). specialize (inv_bound0 Hs). lia.
    + intros _. rewrite Ed. discriminate.
Qed.

Lemma popleft_ok : forall (d : dq request),
    cnt d = nlen (items d) ->
    match dq_popleft d with
    | PopBlock => items d = []
    | PopIndexError _ => False
    | PopOk r d' => items d = r :: items d' /\ cnt d' = nlen (items d')
    end.
Proof.
  intros [it c] H. cbn [items cnt] in H. subst c. unfold dq_popleft. cbn [items cnt].
  destruct (nlen it =? 0) eqn:E0.
  - apply nlen_zero. lia.
  - destruct it as [|r l]; [cbn in E0; discriminate|]. cbn [items cnt]. split; [reflexivity|].
    rewrite nlen_cons. lia.
Qed.

Lemma pstep_inv : forall cfg s e s', Inv cfg s -> pstep cfg s e = Some s' -> Inv cfg s'.
Proof.
  intros cfg s e s' I H. destruct e; cbn [pstep] in H.
  - inversion H; subst. apply do_attempt_inv. exact I.
  - inversion H; subst. eapply inv_same; [exact I | reflexivity ..].
  - destruct (cst_of c s) as [[| | |]|] eqn:E; try discriminate. inversion H; subst.
    apply enter_poll_inv. exact I.
  - destruct (cst_of c s) as [[| | |]|] eqn:E; try discriminate. inversion H; subst.
    apply to_state_inv. exact I.
  - destruct (cst_of c s) as [[| | |]|] eqn:E; try discriminate.
    pose proof (popleft_ok (q s) (inv_sema _ _ I)) as P.
    destruct (dq_popleft (q s)) as [|d|r d] eqn:Ep; [discriminate | contradiction |].
    inversion H; subst. destruct P as [P1 P2].
    apply inv_set_q; [apply leave_poll_inv; exact I | exact P2 |].
    intros _. cbn. intro Hn. apply set_cst_nil in Hn. eapply cst_of_pool_nonempty; eassumption.
  - destruct (cst_of c s) as [[| [dl|] | |]|] eqn:E; try discriminate.
    destruct (dl <=? now s); [|discriminate]. inversion H; subst. apply leave_poll_inv. exact I.
  - destruct (cst_of c s) as [[| | r |]|] eqn:E; try discriminate. inversion H; subst.
    apply to_state_inv. eapply inv_same; [exact I | reflexivity ..].
  - destruct (cst_of c s) as [[| | r |]|] eqn:E; try discriminate. inversion H; subst.
    apply to_state_inv. apply inv_set_q; [exact I | |].
    + cbn [dq_appendleft items cnt]. rewrite nlen_cons, (inv_sema _ _ I). reflexivity.
    + intros _. eapply cst_of_pool_nonempty; eassumption.
  - destruct (cst_of c s) as [[| | r |]|] eqn:E; try discriminate. inversion H; subst.
    apply to_state_inv. exact I.
  - destruct (cst_of c s) as [[| | |]|] eqn:E; try discriminate. inversion H; subst.
    apply remove_client_inv. exact I.
Qed.

(* the invariant holds after every schedule *)
Lemma inv_all_schedules : forall cfg (es : list pevent), Inv cfg (run (S := pool_sys cfg) es).
Proof.
  intros cfg es. apply (inv_run (pool_sys cfg) (Inv cfg)).
  - intros s e s' I H. exact (pstep_inv cfg s e s' I H).
  - apply inv_init.
Qed.

(* ---- bound *)
Lemma pool_bound : forall cfg es,
    1 <= size cfg -> nlen (pool (run (S := pool_sys cfg) es)) <= size cfg.
Proof. intros cfg es H. apply (inv_bound _ _ (inv_all_schedules cfg es)). lia. Qed.

(* not vacuous: the bound is reached *)
Example pool_bound_reached :
  nlen (pool (run (S := pool_sys (mkCfg 2 None)) [EvAttempt 0; EvAttempt 1; EvAttempt 2])) = 2.
Proof. vm_compute. reflexivity. Qed.

(* ---- semaphore = length, and popleft never hits an empty deque *)
Lemma pool_sema : forall cfg es,
    let s := run (S := pool_sys cfg) es in
    cnt (q s) = nlen (items (q s)) /\ crashed s = false.
Proof. intros cfg es. split; [apply (inv_sema _ _ (inv_all_schedules cfg es)) | apply (inv_nocrash _ _ (inv_all_schedules cfg es))]. Qed.

(* ---- a pending request always has a client *)
Lemma pending_has_client : forall cfg es,
    let s := run (S := pool_sys cfg) es in items (q s) <> [] -> pool s <> [].
Proof. intros cfg es. apply (inv_served _ _ (inv_all_schedules cfg es)). Qed.

(* ---- quiescence *)
Lemma quiescent_b_sound : forall cfg s,
    quiescent_b s = true -> quiescent (S := pool_sys cfg) internal_ev s.
Proof.
  intros cfg s Q e He. unfold quiescent_b in Q. rewrite forallb_forall in Q.
  destruct e; cbn in He; try contradiction; cbn [step pool_sys pstep].
  - (* EvPoll *)
    destruct (cst_of c s) as [[| dl | |]|] eqn:E; try reflexivity.
    apply cst_of_find in E. destruct E as [cl [Ef Es]]. apply find_client_In in Ef. destruct Ef as [HI _].
    specialize (Q cl HI). unfold client_quiet in Q. rewrite Es in Q. apply andb_true_iff in Q. destruct Q as [Q _].
    unfold dq_popleft. rewrite Q. reflexivity.
  - (* EvIdle *)
    destruct (cst_of c s) as [[| [dl|] | |]|] eqn:E; try reflexivity.
    apply cst_of_find in E. destruct E as [cl [Ef Es]]. apply find_client_In in Ef. destruct Ef as [HI _].
    specialize (Q cl HI). unfold client_quiet in Q. rewrite Es in Q. apply andb_true_iff in Q. destruct Q as [_ Q].
    destruct (dl <=? now s); [discriminate | reflexivity].
  - (* EvExit *)
    destruct (cst_of c s) as [[| | |]|] eqn:E; try reflexivity.
    apply cst_of_find in E. destruct E as [cl [Ef Es]]. apply find_client_In in Ef. destruct Ef as [HI _].
    specialize (Q cl HI). unfold client_quiet in Q. rewrite Es in Q. discriminate.
Qed.

Lemma quiescent_b_complete : forall cfg s,
    NoDup (map c_id (pool s)) -> quiescent (S := pool_sys cfg) internal_ev s -> quiescent_b s = true.
Proof.
  intros cfg s ND Q. unfold quiescent_b. apply forallb_forall. intros cl HI.
  pose proof (find_client_NoDup _ _ ND HI) as Ef.
  assert (Ec : cst_of (c_id cl) s = Some (c_st cl)) by (unfold cst_of; rewrite Ef; reflexivity).
  unfold client_quiet. destruct (c_st cl) as [| dl | r |] eqn:Es; try reflexivity.
  - apply andb_true_iff. split.
    + specialize (Q (EvPoll (c_id cl)) I). cbn [step pool_sys pstep] in Q. rewrite Ec in Q.
      unfold dq_popleft in Q. destruct (cnt (q s) =? 0); [reflexivity|].
      destruct (items (q s)); discriminate.
    + destruct dl as [d|]; [|reflexivity].
      specialize (Q (EvIdle (c_id cl)) I). cbn [step pool_sys pstep] in Q. rewrite Ec in Q.
      destruct (d <=? now s); [discriminate | reflexivity].
  - specialize (Q (EvExit (c_id cl)) I). cbn [step pool_sys pstep] in Q. rewrite Ec in Q. discriminate.
Qed.

(* no request is stranded: when nothing internal can move and a request is pending, the pool is
   not empty and every one of its clients is alive and at work - about to poll (Busy) or busy
   with another request (Delivering); none sits in poll(), none is a finished greenlet *)
Lemma no_strand : forall cfg es,
    let s := run (S := pool_sys cfg) es in
    quiescent (S := pool_sys cfg) internal_ev s -> items (q s) <> [] ->
    pool s <> [] /\
    forall cl, In cl (pool s) -> c_st cl = Busy \/ exists r, c_st cl = Delivering r.
Proof.
  intros cfg es s Q Hq. pose proof (inv_all_schedules cfg es) as I. fold s in I.
  split; [apply (inv_served _ _ I); exact Hq|].
  intros cl HI.
  pose proof (quiescent_b_complete cfg s (inv_nodup _ _ I) Q) as Qb.
  unfold quiescent_b in Qb. rewrite forallb_forall in Qb. specialize (Qb cl HI).
  unfold client_quiet in Qb. destruct (c_st cl) as [| dl | r |]; [left; reflexivity | | right; exists r; reflexivity | discriminate].
  exfalso. apply andb_true_iff in Qb. destruct Qb as [Qb _].
  rewrite (inv_sema _ _ I) in Qb. apply Hq. apply nlen_zero. lia.
Qed.

(* the premises of no_strand are satisfiable: a busy pool of size 1 with a second request waiting *)
Example no_strand_example :
  let s := run (S := pool_sys (mkCfg 1 None)) [EvAttempt 7; EvEnterPoll 0; EvPoll 0; EvAttempt 8] in
  quiescent_b s = true /\ items (q s) = [mkReq 1 8] /\ pool s = [mkClient 0 (Delivering (mkReq 0 7))].
Proof. vm_compute. repeat split. Qed.

(* and the system is never stuck while a request is pending: some client event is enabled *)
Lemma never_stuck : forall cfg es,
    let s := run (S := pool_sys cfg) es in
    items (q s) <> [] ->
    exists e, (match e with EvAttempt _ | EvAdvance _ => False | _ => True end) /\
              step (pool_sys cfg) s e <> None.
Proof.
  intros cfg es s Hq. pose proof (inv_all_schedules cfg es) as Hinv. fold s in Hinv.
  pose proof (inv_served _ _ Hinv Hq) as Hp.
  destruct (pool s) as [|cl p] eqn:Ep; [contradiction|].
  assert (Ec : cst_of (c_id cl) s = Some (c_st cl)).
  { unfold cst_of. rewrite Ep. cbn. rewrite N.eqb_refl. reflexivity. }
  destruct (c_st cl) as [| dl | r |] eqn:Es.
  - exists (EvEnterPoll (c_id cl)). split; [exact I|]. cbn [step pool_sys pstep]. rewrite Ec. discriminate.
  - exists (EvPoll (c_id cl)). split; [exact I|]. cbn [step pool_sys pstep]. rewrite Ec.
    pose proof (popleft_ok (q s) (inv_sema _ _ Hinv)) as P.
    destruct (dq_popleft (q s)); [contradiction | contradiction | discriminate].
  - exists (EvDone (c_id cl) 0). split; [exact I|]. cbn [step pool_sys pstep]. rewrite Ec. discriminate.
  - exists (EvExit (c_id cl)). split; [exact I|]. cbn [step pool_sys pstep]. rewrite Ec. discriminate.
Qed.

(* ---- accounting: every attempt is in exactly one place (needs the client contract) *)
Definition Acct (s : pstate) : Prop :=
  Permutation (attempts s) (items (q s) ++ inflight (pool s) ++ map res_req (results s)).

Lemma acct_swap_inflight : forall (a i f f' d : list request),
    Permutation f f' -> Permutation a (i ++ f ++ d) -> Permutation a (i ++ f' ++ d).
Proof.
  intros a i f f' d Hf Ha. eapply Permutation_trans; [exact Ha|].
  apply Permutation_app_head. apply Permutation_app_tail. exact Hf.
Qed.

Lemma inflight_same : forall c st p cl,
    find_client c p = Some cl -> req_of (c_st cl) = [] -> req_of st = [] ->
    Permutation (inflight p) (inflight (set_cst c st p)).
Proof.
  intros c st p cl Hf H1 H2. pose proof (inflight_set_cst c st p cl Hf) as P.
  rewrite H1, H2 in P. cbn [app] in P. apply Permutation_sym. exact P.
Qed.

Lemma acct_add_client : forall s, Acct s -> Acct (add_client s).
Proof.
  intros s A. unfold Acct in *. cbn [add_client attempts q pool results].
  rewrite inflight_app. cbn. rewrite app_nil_r. exact A.
Qed.

Lemma acct_check_idle : forall cfg s, Acct s -> Acct (check_idle cfg s).
Proof.
  intros cfg s A. unfold check_idle. destruct (existsb is_polling (pool s)); [exact A|].
  destruct ((size cfg =? 0) || (nlen (pool s) <? size cfg)); [apply acct_add_client; exact A | exact A].
Qed.

Lemma req_eta : forall r, mkReq (r_slot r) (r_env r) = r.
Proof. intros [a b]. reflexivity. Qed.

Lemma pstep_acct : forall cfg s e s',
    contract_ev e -> Inv cfg s -> Acct s -> pstep cfg s e = Some s' -> Acct s'.
Proof.
  intros cfg s e s' Hc I A H. destruct e; cbn [pstep] in H; cbn in Hc.
  - (* attempt *)
    inversion H; subst. pose proof (acct_check_idle cfg s A) as A1. unfold Acct in *.
    unfold do_attempt. cbn [attempts q pool results dq_append items].
    set (r := mkReq (next_slot (check_idle cfg s)) env).
    eapply Permutation_trans; [apply Permutation_app_tail; exact A1|].
    rewrite <- !app_assoc. apply Permutation_app_head.
    rewrite app_assoc. apply (Permutation_app_comm _ [r]).
  - inversion H; subst. exact A.
  - destruct (cst_of c s) as [[| | |]|] eqn:E; try discriminate. inversion H; subst.
    apply cst_of_find in E. destruct E as [cl [Ef Es]].
    unfold Acct in *. cbn. eapply acct_swap_inflight; [|exact A].
    eapply inflight_same; [exact Ef | rewrite Es; reflexivity | reflexivity].
  - destruct (cst_of c s) as [[| | |]|] eqn:E; try discriminate. inversion H; subst.
    apply cst_of_find in E. destruct E as [cl [Ef Es]].
    unfold Acct in *. cbn. eapply acct_swap_inflight; [|exact A].
    eapply inflight_same; [exact Ef | rewrite Es; reflexivity | reflexivity].
  - (* poll *)
    destruct (cst_of c s) as [[| dl | |]|] eqn:E; try discriminate.
    pose proof (popleft_ok (q s) (inv_sema _ _ I)) as P.
    destruct (dq_popleft (q s)) as [|d|r d] eqn:Ep; [discriminate | contradiction |].
    inversion H; subst. destruct P as [P1 _].
    apply cst_of_find in E. destruct E as [cl [Ef Es]].
    pose proof (inflight_set_cst c (Delivering r) (pool s) cl Ef) as Pf. rewrite Es in Pf. cbn [req_of app] in Pf.
    unfold Acct in *. cbn [set_q leave_poll set_waiters to_state set_pool attempts q pool results].
    eapply Permutation_trans; [exact A|]. rewrite P1.
    cbn [app]. eapply Permutation_trans; [apply Permutation_middle|].
    apply Permutation_app_head.
    change (r :: inflight (pool s) ++ map res_req (results s))
      with ((r :: inflight (pool s)) ++ map res_req (results s)).
    apply Permutation_app_tail. apply Permutation_sym. exact Pf.
  - (* idle *)
    destruct (cst_of c s) as [[| [dl|] | |]|] eqn:E; try discriminate.
    destruct (dl <=? now s); [|discriminate]. inversion H; subst.
    apply cst_of_find in E. destruct E as [cl [Ef Es]].
    unfold Acct in *. cbn. eapply acct_swap_inflight; [|exact A].
    eapply inflight_same; [exact Ef | rewrite Es; reflexivity | reflexivity].
  - (* done *)
    destruct (cst_of c s) as [[| | r |]|] eqn:E; try discriminate. inversion H; subst.
    apply cst_of_find in E. destruct E as [cl [Ef Es]].
    pose proof (inflight_set_cst c Busy (pool s) cl Ef) as Pf. rewrite Es in Pf. cbn [req_of app] in Pf.
    unfold Acct in *. cbn [to_state set_pool add_result attempts q pool results].
    eapply Permutation_trans; [exact A|]. apply Permutation_app_head.
    rewrite map_app. cbn [map].
    change (res_req (mkRes (r_slot r) (r_env r) kind)) with (mkReq (r_slot r) (r_env r)). rewrite req_eta.
    eapply Permutation_trans; [apply Permutation_app_tail; apply Permutation_sym; exact Pf|].
    cbn [app]. rewrite app_assoc. apply Permutation_cons_append.
  - (* requeue *)
    destruct (cst_of c s) as [[| | r |]|] eqn:E; try discriminate. inversion H; subst.
    apply cst_of_find in E. destruct E as [cl [Ef Es]].
    pose proof (inflight_set_cst c Busy (pool s) cl Ef) as Pf. rewrite Es in Pf. cbn [req_of app] in Pf.
    unfold Acct in *. cbn [to_state set_pool set_q dq_appendleft attempts q pool results items].
    eapply Permutation_trans; [exact A|].
    eapply Permutation_trans;
      [apply Permutation_app_head; apply Permutation_app_tail; apply Permutation_sym; exact Pf|].
    cbn [app]. apply Permutation_sym. apply Permutation_middle.
  - contradiction.
  - (* exit *)
    destruct (cst_of c s) as [[| | |]|] eqn:E; try discriminate. inversion H; subst.
    apply cst_of_find in E. destruct E as [cl [Ef Es]].
    assert (A1 : Acct (set_pool (del_client c (pool s)) s)).
    { unfold Acct in *. cbn [set_pool attempts q pool results]. rewrite (inflight_del_client c (pool s) cl Ef); [exact A | rewrite Es; reflexivity]. }
    unfold remove_client.
    destruct ((0 <? nlen (items (q (set_pool (del_client c (pool s)) s)))) &&
              match pool (set_pool (del_client c (pool s)) s) with [] => true | _ => false end);
      [apply acct_add_client; exact A1 | exact A1].
Qed.

Lemma acct_all_schedules : forall cfg (es : list pevent),
    Forall contract_ev es ->
    Inv cfg (run (S := pool_sys cfg) es) /\ Acct (run (S := pool_sys cfg) es).
Proof.
  intros cfg es F.
  apply (inv_run_guarded (pool_sys cfg) contract_ev (fun s => Inv cfg s /\ Acct s)).
  - intros s e s' Hc [I A] H. split; [exact (pstep_inv cfg s e s' I H) | exact (pstep_acct cfg s e s' Hc I A H)].
  - split; [apply inv_init | unfold Acct; cbn; constructor].
  - exact F.
Qed.

Lemma NoDup_drop_prefix : forall A (a b : list A), NoDup (a ++ b) -> NoDup b.
Proof. induction a as [|x a IH]; intros b H; cbn in H; [exact H|]. inversion H; subst. apply IH. assumption. Qed.

Lemma slots_nodup : forall l n, (forall a, In a l -> r_slot a < n) ->
    forall l', (forall a, In a l' -> n <= r_slot a) -> NoDup (map r_slot l') -> NoDup (map r_slot l) ->
    NoDup (map r_slot (l ++ l')).
Proof.
  intros l n Hl l' Hl' ND' ND. rewrite map_app. induction l as [|a l IH]; cbn; [exact ND'|].
  cbn in ND. inversion ND; subst. constructor.
  - intro HI. apply in_app_or in HI. destruct HI as [HI | HI]; [contradiction|].
    apply in_map_iff in HI. destruct HI as [b [Eb Hb]]. apply Hl' in Hb.
    specialize (Hl a (or_introl eq_refl)). lia.
  - apply IH; [intros b Hb; apply Hl; right; exact Hb | assumption].
Qed.

(* slots are allocated by a counter: every attempt has its own *)
Lemma slots_unique_step : forall cfg s e s',
    Inv cfg s -> NoDup (map r_slot (attempts s)) -> pstep cfg s e = Some s' -> NoDup (map r_slot (attempts s')).
Proof.
  intros cfg s e s' I ND H.
  assert (Hsame : attempts s' = attempts s \/
                  exists env, e = EvAttempt env /\ s' = do_attempt cfg env s).
  { destruct e; cbn [pstep] in H.
    - right. exists env. inversion H; subst. split; reflexivity.
    - inversion H; subst; left; reflexivity.
    - destruct (cst_of c s) as [[| | |]|]; try discriminate; inversion H; subst; left; reflexivity.
    - destruct (cst_of c s) as [[| | |]|]; try discriminate; inversion H; subst; left; reflexivity.
    - destruct (cst_of c s) as [[| | |]|]; try discriminate.
      destruct (dq_popleft (q s)); try discriminate; inversion H; subst; left; reflexivity.
    - destruct (cst_of c s) as [[| [dl|] | |]|]; try discriminate.
      destruct (dl <=? now s); [inversion H; subst; left; reflexivity | discriminate].
    - destruct (cst_of c s) as [[| | |]|]; try discriminate; inversion H; subst; left; reflexivity.
    - destruct (cst_of c s) as [[| | |]|]; try discriminate; inversion H; subst; left; reflexivity.
    - destruct (cst_of c s) as [[| | |]|]; try discriminate; inversion H; subst; left; reflexivity.
    - destruct (cst_of c s) as [[| | |]|]; try discriminate. inversion H; subst. left.
      unfold remove_client.
      destruct ((0 <? nlen (items (q (set_pool (del_client c (pool s)) s)))) &&
                match pool (set_pool (del_client c (pool s)) s) with [] => true | _ => false end); reflexivity. }
  destruct Hsame as [-> | [env [-> ->]]]; [exact ND|].
  destruct (check_idle_inv cfg s I) as [I1 _].
  unfold do_attempt. cbn [attempts].
  assert (Ea : attempts (check_idle cfg s) = attempts s).
  { unfold check_idle. destruct (existsb is_polling (pool s)); [reflexivity|].
    destruct ((size cfg =? 0) || (nlen (pool s) <? size cfg)); reflexivity. }
  apply (slots_nodup _ (next_slot (check_idle cfg s))).
  - apply (inv_slots _ _ I1).
  - intros a [<- | []]. cbn. lia.
  - cbn. constructor; [intros [] | constructor].
  - rewrite Ea. exact ND.
Qed.

Lemma slots_unique : forall cfg es, NoDup (map r_slot (attempts (run (S := pool_sys cfg) es))).
Proof.
  intros cfg es.
  assert (H : Inv cfg (run (S := pool_sys cfg) es) /\ NoDup (map r_slot (attempts (run (S := pool_sys cfg) es)))).
  { apply (inv_run (pool_sys cfg) (fun s => Inv cfg s /\ NoDup (map r_slot (attempts s)))).
    - intros s e s' [I ND] H. split; [exact (pstep_inv cfg s e s' I H) | exact (slots_unique_step cfg s e s' I ND H)].
    - split; [apply inv_init | cbn; constructor]. }
  exact (proj2 H).
Qed.

(* every attempt() is accounted for exactly once: waiting in the queue, held by exactly one client,
   or answered exactly once *)
Lemma every_attempt_accounted : forall cfg es,
    Forall contract_ev es ->
    let s := run (S := pool_sys cfg) es in
    Permutation (attempts s) (items (q s) ++ inflight (pool s) ++ map res_req (results s)) /\
    NoDup (map r_slot (attempts s)).
Proof. intros cfg es F. split; [exact (proj2 (acct_all_schedules cfg es F)) | apply slots_unique]. Qed.

(* a completed result belongs to the attempt's own envelope; and no slot is completed twice *)
Lemma own_result : forall cfg es,
    Forall contract_ev es ->
    let s := run (S := pool_sys cfg) es in
    (forall r, In r (results s) ->
       In (mkReq (res_slot r) (res_env r)) (attempts s) /\
       forall a, In a (attempts s) -> r_slot a = res_slot r -> r_env a = res_env r) /\
    NoDup (map res_slot (results s)).
Proof.
  intros cfg es F s. destruct (every_attempt_accounted cfg es F) as [P ND]. fold s in P, ND.
  assert (Hin : forall r, In r (results s) -> In (res_req r) (attempts s)).
  { intros r Hr. eapply Permutation_in; [apply Permutation_sym; exact P|].
    apply in_or_app. right. apply in_or_app. right. apply in_map. exact Hr. }
  assert (Huniq : forall a b, In a (attempts s) -> In b (attempts s) -> r_slot a = r_slot b -> a = b).
  { clear - ND. induction (attempts s) as [|x l IH]; intros a b Ha Hb E; [destruct Ha|].
    cbn in ND. inversion ND as [|? ? Hn ND']; subst.
    destruct Ha as [<- | Ha], Hb as [<- | Hb].
    - reflexivity.
    - exfalso. apply Hn. rewrite E. apply in_map. exact Hb.
    - exfalso. apply Hn. rewrite <- E. apply in_map. exact Ha.
    - apply IH; assumption. }
  split.
  - intros r Hr. split; [exact (Hin r Hr)|].
    intros a Ha E. specialize (Huniq a (res_req r) Ha (Hin r Hr) E). subst a. reflexivity.
  - (* results are a sub-multiset of attempts, whose slots are distinct *)
    assert (ND2 : NoDup (map r_slot (items (q s) ++ inflight (pool s) ++ map res_req (results s)))).
    { eapply Permutation_NoDup; [apply Permutation_map; exact P | exact ND]. }
    rewrite !map_app in ND2. apply NoDup_drop_prefix in ND2. apply NoDup_drop_prefix in ND2.
    rewrite map_map in ND2. exact ND2.
Qed.

Example own_result_example :
  let s := run (S := pool_sys (mkCfg 1 (Some 5)))
               [EvAttempt 10; EvAttempt 11; EvEnterPoll 0; EvPoll 0; EvRequeue 0; EvEnterPoll 0;
                EvPoll 0; EvDone 0 1; EvEnterPoll 0; EvPoll 0; EvDone 0 0] in
  results s = [mkRes 0 10 1; mkRes 1 11 0] /\ attempts s = [mkReq 0 10; mkReq 1 11].
Proof. vm_compute. split; reflexivity. Qed.

(* the contract is needed: a client that drops its request (HTTP client before the D15 repair)
   leaves an attempt that is neither queued, nor held, nor answered, in a quiescent system *)
Lemma contract_is_needed :
  exists es, let s := run (S := pool_sys (mkCfg 1 None)) es in
    quiescent_b s = true /\ attempts s = [mkReq 0 7] /\
    items (q s) = [] /\ inflight (pool s) = [] /\ results s = [].
Proof.
  exists [EvAttempt 7; EvEnterPoll 0; EvPoll 0; EvAbandon 0; EvGiveUp 0; EvExit 0].
  vm_compute. repeat split.
Qed.

(* ================================================================== *)
(* 3. SmtpRelayClient: reuse of one connection                        *)

(* the checkers as state machines that also return the state they end in *)
Fixpoint oaat_end (cur : option N) (log : list wire) : option (option N) :=
  match log with
  | [] => Some cur
  | w :: l =>
      match w with
      | WMail e => match cur with None => oaat_end (Some e) l | Some _ => None end
      | WRcpt e | WData e =>
          match cur with Some e' => if e =? e' then oaat_end cur l else None | None => None end
      | WBody e | WEmptyBody e =>
          match cur with Some e' => if e =? e' then oaat_end None l else None | None => None end
      | WRset => oaat_end None l
      | WResult e _ | WResultRcpts e | WRequeue e =>
          match cur with Some e' => if e =? e' then oaat_end cur l else None | None => oaat_end cur l end
      | WConnect | WHandshake | WQuit | WClose => oaat_end cur l
      end
  end.

Lemma oaat_end_spec : forall log cur,
    one_at_a_time cur log = match oaat_end cur log with Some _ => true | None => false end.
Proof.
  induction log as [|w l IH]; intros cur; [reflexivity|].
  destruct w; cbn [one_at_a_time oaat_end]; destruct cur as [e'|]; try apply IH; try reflexivity;
    destruct (e =? e'); cbn [andb]; try apply IH; reflexivity.
Qed.

Lemma oaat_end_app : forall a b cur,
    oaat_end cur (a ++ b) = match oaat_end cur a with Some c => oaat_end c b | None => None end.
Proof.
  induction a as [|w l IH]; intros b cur; [reflexivity|].
  destruct w; cbn [app oaat_end]; destruct cur as [e'|]; try apply IH; try reflexivity;
    destruct (e =? e'); try apply IH; reflexivity.
Qed.

Fixpoint raf_end (dirty : bool) (log : list wire) : option bool :=
  match log with
  | [] => Some dirty
  | w :: l =>
      match w with
      | WResult _ false | WResultRcpts _ => raf_end true l
      | WRset => raf_end false l
      | WMail _ => if dirty then None else raf_end dirty l
      | _ => raf_end dirty l
      end
  end.

Lemma raf_end_spec : forall log d,
    reset_after_failure d log = match raf_end d log with Some _ => true | None => false end.
Proof.
  induction log as [|w l IH]; intros d; [reflexivity|].
  destruct w; cbn [reset_after_failure raf_end]; try apply IH.
  - destruct d; [reflexivity | apply IH].
  - destruct ok; apply IH.
Qed.

Lemma raf_end_app : forall a b d,
    raf_end d (a ++ b) = match raf_end d a with Some c => raf_end c b | None => None end.
Proof.
  induction a as [|w l IH]; intros b d; [reflexivity|].
  destruct w; cbn [app raf_end]; try apply IH.
  - destruct d; [reflexivity | apply IH].
  - destruct ok; apply IH.
Qed.

Definition only_rcpt (e : N) (l : list wire) : Prop := Forall (fun w => w = WRcpt e) l.

Lemma oaat_end_rcpts : forall e l, only_rcpt e l -> oaat_end (Some e) l = Some (Some e).
Proof.
  intros e l H. induction H as [|w l Hw _ IH]; [reflexivity|]. subst w. cbn [oaat_end].
  rewrite N.eqb_refl. exact IH.
Qed.

Lemma raf_end_rcpts : forall e l d, only_rcpt e l -> raf_end d l = Some d.
Proof.
  intros e l d H. induction H as [|w l Hw _ IH]; [reflexivity|]. subst w. cbn [raf_end]. exact IH.
Qed.

Lemma send_rcpts_only : forall e l, only_rcpt e (fst (send_rcpts e l)).
Proof.
  intros e. induction l as [|x l IH]; cbn [send_rcpts]; [constructor|].
  destruct x; try (destruct (send_rcpts e l) as [w ok]; cbn [fst] in *; constructor; [reflexivity | exact IH]).
  cbn. constructor; [reflexivity | constructor].
Qed.

Lemma map_rcpt_only : forall e (l : list srv), only_rcpt e (map (fun _ => WRcpt e) l).
Proof. intros e l. induction l; cbn; constructor; [reflexivity | assumption]. Qed.


(* one delivery, started with no transaction open: ends with no transaction open or, when the
   connection is lost, possibly inside its own transaction *)
Definition oaat_ok (e : N) (p : list wire * dres) : Prop :=
  match oaat_end None (fst p) with
  | Some c' => (c' = None \/ c' = Some e) /\ (snd p <> DLost -> c' = None)
  | None => False
  end.

Lemma set_failure_oaat : forall e mx c l, c = None \/ c = Some e ->
    oaat_end c (set_failure e mx :: l) = oaat_end c l.
Proof.
  intros e mx c l [-> | ->]; destruct mx; cbn [set_failure oaat_end]; rewrite ?N.eqb_refl; reflexivity.
Qed.

Lemma failed_oaat : forall e sc mx pre c,
    oaat_end None pre = Some c -> c = None \/ c = Some e -> oaat_ok e (failed e sc mx pre).
Proof.
  intros e sc mx pre c Hp Hc. unfold oaat_ok, failed. cbn [fst snd].
  rewrite oaat_end_app, Hp, (set_failure_oaat e mx c _ Hc). cbn [oaat_end].
  split; [left; reflexivity | reflexivity].
Qed.

Lemma empty_data_oaat : forall pipe e sc mx pre,
    oaat_end None pre = Some (Some e) -> oaat_ok e (empty_data pipe e sc mx pre).
Proof.
  intros pipe e sc mx pre Hp. unfold empty_data. destruct pipe.
  - unfold oaat_ok. cbn [fst snd]. rewrite oaat_end_app, Hp, (set_failure_oaat e mx (Some e)) by (right; reflexivity).
    cbn [oaat_end]. rewrite N.eqb_refl. split; [left; reflexivity | reflexivity].
  - assert (Hp2 : oaat_end None (pre ++ [WEmptyBody e]) = Some None).
    { rewrite oaat_end_app, Hp. cbn [oaat_end]. rewrite N.eqb_refl. reflexivity. }
    destruct (ms_body sc); try (eapply failed_oaat; [exact Hp2 | left; reflexivity]).
    unfold oaat_ok. cbn [fst snd]. rewrite Hp2. split; [left; reflexivity | reflexivity].
Qed.

Lemma after_data_oaat : forall pipe e sc mail_rej pre,
    oaat_end None pre = Some (Some e) -> oaat_ok e (after_data pipe e sc mail_rej pre).
Proof.
  intros pipe e sc mail_rej pre Hp. unfold after_data.
  assert (Hlost : oaat_ok e (pre, DLost)).
  { unfold oaat_ok. cbn [fst snd]. rewrite Hp. split; [right; reflexivity | intros H; exfalso; apply H; reflexivity]. }
  assert (Hbody : oaat_end None (pre ++ [WBody e]) = Some None).
  { rewrite oaat_end_app, Hp. cbn [oaat_end]. rewrite N.eqb_refl. reflexivity. }
  destruct (ms_rcpts sc) as [|x rc].
  - destruct mail_rej; [|exact Hlost].
    destruct (ms_data sc); try (eapply failed_oaat; [exact Hp | right; reflexivity]).
    apply empty_data_oaat. exact Hp.
  - destruct (mail_rej || forallb is_rej (x :: rc) || is_rej (ms_data sc)).
    + destruct (ms_data sc); try (eapply failed_oaat; [exact Hp | right; reflexivity]).
      apply empty_data_oaat. exact Hp.
    + destruct (ms_body sc); try (eapply failed_oaat; [exact Hbody | left; reflexivity]).
      * unfold oaat_ok. cbn [fst snd]. rewrite <- (app_nil_r [WBody e; WResult e true]).
        change [WBody e; WResult e true] with ([WBody e] ++ [WResult e true]).
        rewrite app_nil_r, app_assoc, oaat_end_app, Hbody. cbn [oaat_end].
        split; [left; reflexivity | reflexivity].
      * unfold oaat_ok. cbn [fst snd]. rewrite Hbody. split; [left; reflexivity | reflexivity].
Qed.

Lemma deliver_oaat : forall pipe e sc, oaat_ok e (deliver pipe e sc).
Proof.
  intros pipe e sc. unfold deliver.
  destruct (negb (ms_enc sc)); [eapply failed_oaat; [reflexivity | left; reflexivity]|].
  destruct pipe.
  - assert (Hp : oaat_end None (WMail e :: map (fun _ : srv => WRcpt e) (ms_rcpts sc) ++ [WData e]) = Some (Some e)).
    { cbn [oaat_end]. rewrite oaat_end_app, (oaat_end_rcpts e _ (map_rcpt_only e (ms_rcpts sc))).
      cbn [oaat_end]. rewrite N.eqb_refl. reflexivity. }
    destruct (is_drop (ms_mail sc) || existsb is_drop (ms_rcpts sc) || is_drop (ms_data sc)).
    + unfold oaat_ok. cbn [fst snd]. rewrite Hp. split; [right; reflexivity | intros H; exfalso; apply H; reflexivity].
    + apply after_data_oaat. exact Hp.
  - assert (Hm : oaat_end None [WMail e] = Some (Some e)) by reflexivity.
    destruct (ms_mail sc); try (eapply failed_oaat; [exact Hm | right; reflexivity]).
    + pose proof (oaat_end_rcpts e _ (send_rcpts_only e (ms_rcpts sc))) as Hs.
      destruct (send_rcpts e (ms_rcpts sc)) as [wr alive]. cbn [fst] in Hs.
      assert (Hw : oaat_end None (WMail e :: wr) = Some (Some e)) by (cbn [oaat_end]; exact Hs).
      assert (Hd : oaat_end None (WMail e :: wr ++ [WData e]) = Some (Some e)).
      { cbn [oaat_end]. rewrite oaat_end_app, Hs. cbn [oaat_end]. rewrite N.eqb_refl. reflexivity. }
      destruct alive; cbn [negb].
      * destruct (ms_data sc); try (apply after_data_oaat; exact Hd).
        unfold oaat_ok. cbn [fst snd]. rewrite Hd. split; [right; reflexivity | intros H; exfalso; apply H; reflexivity].
      * unfold oaat_ok. cbn [fst snd]. rewrite Hw. split; [right; reflexivity | intros H; exfalso; apply H; reflexivity].
    + unfold oaat_ok. cbn [fst snd]. rewrite Hm. split; [right; reflexivity | intros H; exfalso; apply H; reflexivity].
Qed.

(* ... and ends clean (no failed transaction waiting for its RSET) unless the connection is lost *)
Definition raf_ok (p : list wire * dres) : Prop :=
  match raf_end false (fst p) with
  | Some d' => snd p <> DLost -> d' = false
  | None => False
  end.

Lemma failed_raf : forall e sc mx pre b,
    raf_end false pre = Some b -> raf_ok (failed e sc mx pre).
Proof.
  intros e sc mx pre b Hp. unfold raf_ok, failed. cbn [fst snd]. rewrite raf_end_app, Hp.
  destruct mx; cbn [set_failure raf_end]; reflexivity.
Qed.

Lemma empty_data_raf : forall pipe e sc mx pre b,
    raf_end false pre = Some b -> raf_ok (empty_data pipe e sc mx pre).
Proof.
  intros pipe e sc mx pre b Hp. unfold empty_data. destruct pipe.
  - unfold raf_ok. cbn [fst snd]. rewrite raf_end_app, Hp. destruct mx; cbn [set_failure raf_end]; reflexivity.
  - assert (Hp2 : raf_end false (pre ++ [WEmptyBody e]) = Some b) by (rewrite raf_end_app, Hp; reflexivity).
    destruct (ms_body sc); try (eapply failed_raf; exact Hp2).
    unfold raf_ok. cbn [fst snd]. rewrite Hp2. intros H; exfalso; apply H; reflexivity.
Qed.

Lemma after_data_raf : forall pipe e sc mail_rej pre,
    raf_end false pre = Some false -> raf_ok (after_data pipe e sc mail_rej pre).
Proof.
  intros pipe e sc mail_rej pre Hp. unfold after_data.
  assert (Hlost : forall l, raf_end false l <> None -> raf_ok (l, DLost)).
  { intros l Hl. unfold raf_ok. cbn [fst snd]. destruct (raf_end false l); [intros H; exfalso; apply H; reflexivity | apply Hl; reflexivity]. }
  assert (Hbody : raf_end false (pre ++ [WBody e]) = Some false) by (rewrite raf_end_app, Hp; reflexivity).
  destruct (ms_rcpts sc) as [|x rc].
  - destruct mail_rej; [|apply Hlost; rewrite Hp; discriminate].
    destruct (ms_data sc); try (eapply failed_raf; exact Hp). eapply empty_data_raf; exact Hp.
  - destruct (mail_rej || forallb is_rej (x :: rc) || is_rej (ms_data sc)).
    + destruct (ms_data sc); try (eapply failed_raf; exact Hp). eapply empty_data_raf; exact Hp.
    + destruct (ms_body sc); try (eapply failed_raf; exact Hbody).
      * unfold raf_ok. cbn [fst snd].
        change [WBody e; WResult e true] with ([WBody e] ++ [WResult e true]).
        rewrite app_assoc, raf_end_app, Hbody. cbn [raf_end]. reflexivity.
      * apply Hlost. rewrite Hbody. discriminate.
Qed.

Lemma deliver_raf : forall pipe e sc, raf_ok (deliver pipe e sc).
Proof.
  intros pipe e sc. unfold deliver.
  assert (Hlost : forall l, raf_end false l = Some false -> raf_ok (l, DLost)).
  { intros l Hl. unfold raf_ok. cbn [fst snd]. rewrite Hl. intros H; exfalso; apply H; reflexivity. }
  destruct (negb (ms_enc sc)); [eapply failed_raf; reflexivity|].
  destruct pipe.
  - assert (Hp : raf_end false (WMail e :: map (fun _ : srv => WRcpt e) (ms_rcpts sc) ++ [WData e]) = Some false).
    { cbn [raf_end]. rewrite raf_end_app, (raf_end_rcpts e _ false (map_rcpt_only e (ms_rcpts sc))). reflexivity. }
    destruct (is_drop (ms_mail sc) || existsb is_drop (ms_rcpts sc) || is_drop (ms_data sc));
      [apply Hlost; exact Hp | apply after_data_raf; exact Hp].
  - assert (Hm : raf_end false [WMail e] = Some false) by reflexivity.
    destruct (ms_mail sc); try (eapply failed_raf; exact Hm); [|apply Hlost; exact Hm].
    pose proof (raf_end_rcpts e _ false (send_rcpts_only e (ms_rcpts sc))) as Hs.
    destruct (send_rcpts e (ms_rcpts sc)) as [wr alive]. cbn [fst] in Hs.
    assert (Hw : raf_end false (WMail e :: wr) = Some false) by (cbn [raf_end]; exact Hs).
    assert (Hd : raf_end false (WMail e :: wr ++ [WData e]) = Some false).
    { cbn [raf_end]. rewrite raf_end_app, Hs. reflexivity. }
    destruct alive; cbn [negb]; [|apply Hlost; exact Hw].
    destruct (ms_data sc); try (apply after_data_raf; exact Hd). apply Hlost; exact Hd.
Qed.

Lemma smtp_loop_eq : forall pipe reuse rest r sc,
    smtp_loop pipe reuse rest r sc =
    let e := r_env r in
    if ms_pre sc then ([WRequeue e], [ARequeue r], true)
    else
      let (w, d) := deliver pipe e sc in
      let continue (k : N) :=
        if reuse then
          match rest with
          | [] => (w, [ADone r k; AEnter], false)
          | None :: _ => (w, [ADone r k; AEnter; AIdle], true)
          | Some (r', sc') :: rest' =>
              let '(w', a', x') := smtp_loop pipe reuse rest' r' sc' in
              (w ++ w', ADone r k :: AEnter :: APoll r' :: a', x')
          end
        else (w, [ADone r k], true) in
      match d with
      | DOk => continue K_OK
      | DRejected mx true => continue (if mx then K_RCPTS else K_REJECTED)
      | DRejected mx false => (w, [ADone r (if mx then K_RCPTS else K_REJECTED)], true)
      | DLost => (w ++ [WResult e false], [ADone r K_LOST], true)
      end.
Proof. intros. destruct rest; reflexivity. Qed.

Definition loop_wire pipe reuse rest r sc := fst (fst (smtp_loop pipe reuse rest r sc)).
Definition loop_acts pipe reuse rest r sc := snd (fst (smtp_loop pipe reuse rest r sc)).
Definition loop_left pipe reuse rest r sc := snd (smtp_loop pipe reuse rest r sc).

Lemma loop_oaat : forall pipe reuse rest r sc,
    oaat_end None (loop_wire pipe reuse rest r sc) <> None.
Proof.
  intros pipe reuse. induction rest as [|p rest IH]; intros r sc; unfold loop_wire; rewrite smtp_loop_eq;
    cbn zeta; (destruct (ms_pre sc); [cbn; discriminate|]);
    pose proof (deliver_oaat pipe (r_env r) sc) as D; unfold oaat_ok in D;
    destruct (deliver pipe (r_env r) sc) as [w d]; cbn [fst snd] in D;
    destruct (oaat_end None w) as [c'|] eqn:Ew; try contradiction; destruct D as [D1 D2].
  - destruct d as [|mx [|]|]; destruct reuse; cbn [fst snd]; rewrite ?Ew; try discriminate.
    rewrite oaat_end_app, Ew. destruct D1 as [-> | ->]; cbn; rewrite ?N.eqb_refl; discriminate.
    rewrite oaat_end_app, Ew. destruct D1 as [-> | ->]; cbn; rewrite ?N.eqb_refl; discriminate.
  - assert (Hc : d <> DLost -> c' = None) by exact D2.
    destruct d as [|mx [|]|]; destruct reuse; cbn [fst snd]; rewrite ?Ew; try discriminate.
    + destruct p as [[r' sc']|]; [|cbn [fst snd]; rewrite Ew; discriminate].
      specialize (IH r' sc'). unfold loop_wire in IH.
      destruct (smtp_loop pipe true rest r' sc') as [[w' a'] x']. cbn [fst snd] in *.
      rewrite oaat_end_app, Ew, (Hc ltac:(discriminate)). exact IH.
    + destruct p as [[r' sc']|]; [|cbn [fst snd]; rewrite Ew; discriminate].
      specialize (IH r' sc'). unfold loop_wire in IH.
      destruct (smtp_loop pipe true rest r' sc') as [[w' a'] x']. cbn [fst snd] in *.
      rewrite oaat_end_app, Ew, (Hc ltac:(discriminate)). exact IH.
    + rewrite oaat_end_app, Ew. destruct D1 as [-> | ->]; cbn; rewrite ?N.eqb_refl; discriminate.
    + rewrite oaat_end_app, Ew. destruct D1 as [-> | ->]; cbn; rewrite ?N.eqb_refl; discriminate.
Qed.

Lemma loop_raf : forall pipe reuse rest r sc,
    raf_end false (loop_wire pipe reuse rest r sc) <> None.
Proof.
  intros pipe reuse. induction rest as [|p rest IH]; intros r sc; unfold loop_wire; rewrite smtp_loop_eq;
    cbn zeta; (destruct (ms_pre sc); [cbn; discriminate|]);
    pose proof (deliver_raf pipe (r_env r) sc) as D; unfold raf_ok in D;
    destruct (deliver pipe (r_env r) sc) as [w d]; cbn [fst snd] in D;
    destruct (raf_end false w) as [d'|] eqn:Ew; try contradiction.
  - destruct d as [|mx [|]|]; destruct reuse; cbn [fst snd]; rewrite ?Ew; try discriminate.
    rewrite raf_end_app, Ew. cbn. discriminate.
    rewrite raf_end_app, Ew. cbn. discriminate.
  - destruct d as [|mx [|]|]; destruct reuse; cbn [fst snd]; rewrite ?Ew; try discriminate.
    + destruct p as [[r' sc']|]; [|cbn [fst snd]; rewrite Ew; discriminate].
      specialize (IH r' sc'). unfold loop_wire in IH.
      destruct (smtp_loop pipe true rest r' sc') as [[w' a'] x']. cbn [fst snd] in *.
      rewrite raf_end_app, Ew, (D ltac:(discriminate)). exact IH.
    + destruct p as [[r' sc']|]; [|cbn [fst snd]; rewrite Ew; discriminate].
      specialize (IH r' sc'). unfold loop_wire in IH.
      destruct (smtp_loop pipe true rest r' sc') as [[w' a'] x']. cbn [fst snd] in *.
      rewrite raf_end_app, Ew, (D ltac:(discriminate)). exact IH.
    + rewrite raf_end_app, Ew. cbn. discriminate.
    + rewrite raf_end_app, Ew. cbn. discriminate.
Qed.

Lemma req_eqb_refl : forall r, req_eqb r r = true.
Proof. intros [a b]. unfold req_eqb. cbn. rewrite !N.eqb_refl. reflexivity. Qed.

Lemma loop_contract : forall pipe reuse rest r sc tail,
    follows_contract (HHolding r) (loop_acts pipe reuse rest r sc ++ tail) =
    follows_contract (if loop_left pipe reuse rest r sc then HBusy else HPolling) tail.
Proof.
  intros pipe reuse. induction rest as [|p rest IH]; intros r sc tail;
    unfold loop_acts, loop_left; rewrite smtp_loop_eq; cbn zeta;
    (destruct (ms_pre sc); [cbn; rewrite req_eqb_refl; reflexivity|]);
    destruct (deliver pipe (r_env r) sc) as [w d].
  - destruct d as [|mx [|]|]; destruct reuse; cbn; rewrite req_eqb_refl; reflexivity.
  - destruct d as [|mx [|]|]; destruct reuse; cbn [fst snd app follows_contract]; rewrite ?req_eqb_refl; cbn [andb];
      try reflexivity.
    + destruct p as [[r' sc']|]; [|cbn; rewrite req_eqb_refl; reflexivity].
      specialize (IH r' sc' tail). unfold loop_acts, loop_left in IH.
      destruct (smtp_loop pipe true rest r' sc') as [[w' a'] x']. cbn [fst snd] in *.
      cbn [app follows_contract]. rewrite req_eqb_refl. cbn [andb]. exact IH.
    + destruct p as [[r' sc']|]; [|cbn; rewrite req_eqb_refl; reflexivity].
      specialize (IH r' sc' tail). unfold loop_acts, loop_left in IH.
      destruct (smtp_loop pipe true rest r' sc') as [[w' a'] x']. cbn [fst snd] in *.
      cbn [app follows_contract]. rewrite req_eqb_refl. cbn [andb]. exact IH.
Qed.

Definition run_wire pipe reuse cs polls := fst (fst (smtp_run pipe reuse cs polls)).
Definition run_acts pipe reuse cs polls := snd (fst (smtp_run pipe reuse cs polls)).

(* a reused connection carries one message at a time *)
Lemma smtp_one_at_a_time : forall pipe reuse cs polls,
    one_at_a_time None (run_wire pipe reuse cs polls) = true.
Proof.
  intros pipe reuse cs polls. rewrite oaat_end_spec. unfold run_wire, smtp_run.
  destruct polls as [|[[r sc]|] rest]; [reflexivity | | reflexivity].
  destruct (cs_connect cs); cbn [negb]; [|reflexivity].
  destruct (cs_handshake cs); try (cbn; reflexivity).
  pose proof (loop_oaat pipe reuse rest r sc) as L. unfold loop_wire in L.
  destruct (smtp_loop pipe reuse rest r sc) as [[w a] x]. cbn [fst snd] in L.
  destruct (oaat_end None w) as [c|] eqn:Ew; [|contradiction].
  destruct x; cbn [fst snd oaat_end].
  - rewrite oaat_end_app, Ew. reflexivity.
  - rewrite Ew. reflexivity.
Qed.

(* a failed transaction is reset before the next message uses the connection *)
Lemma smtp_reset_after_failure : forall pipe reuse cs polls,
    reset_after_failure false (run_wire pipe reuse cs polls) = true.
Proof.
  intros pipe reuse cs polls. rewrite raf_end_spec. unfold run_wire, smtp_run.
  destruct polls as [|[[r sc]|] rest]; [reflexivity | | reflexivity].
  destruct (cs_connect cs); cbn [negb]; [|reflexivity].
  destruct (cs_handshake cs); try (cbn; reflexivity).
  pose proof (loop_raf pipe reuse rest r sc) as L. unfold loop_wire in L.
  destruct (smtp_loop pipe reuse rest r sc) as [[w a] x]. cbn [fst snd] in L.
  destruct (raf_end false w) as [c|] eqn:Ew; [|contradiction].
  destruct x; cbn [fst snd raf_end].
  - rewrite raf_end_app, Ew. reflexivity.
  - rewrite Ew. reflexivity.
Qed.

(* the SMTP client keeps the pool contract: whatever the server does, each polled request is
   completed (from its own envelope) or put back before the client polls again or exits; and its
   actions never contain the contract violation *)
Lemma smtp_client_contract : forall pipe reuse cs polls c,
    follows_contract HBusy (run_acts pipe reuse cs polls) = true /\
    Forall contract_ev (flat_map (evs_of_act c) (run_acts pipe reuse cs polls)).
Proof.
  intros pipe reuse cs polls c. split.
  - unfold run_acts, smtp_run.
    destruct polls as [|[[r sc]|] rest]; [reflexivity | | reflexivity].
    destruct (cs_connect cs); cbn [negb]; [|cbn; rewrite req_eqb_refl; reflexivity].
    destruct (cs_handshake cs); try (cbn; rewrite req_eqb_refl; reflexivity).
    pose proof (loop_contract pipe reuse rest r sc) as L. unfold loop_acts, loop_left in L.
    destruct (smtp_loop pipe reuse rest r sc) as [[w a] x]. cbn [fst snd] in L.
    destruct x; cbn [fst snd follows_contract].
    + rewrite (L [AExit]). reflexivity.
    + specialize (L []). rewrite app_nil_r in L. rewrite L. reflexivity.
  - apply Forall_forall. intros e He. apply in_flat_map in He. destruct He as [a [_ Ha]].
    destruct a; cbn in Ha; repeat (destruct Ha as [<- | Ha]; [exact I|]); destruct Ha.
Qed.

(* hypotheses-free theorems above; a concrete run for the record: second message rejected at
   RCPT, RSET, third message delivered on the same connection *)
Example smtp_reuse_example :
  let ok := mkMs false true SOk [SOk] SOk SOk true in
  let bad := mkMs false true SOk [SRej] SOk SOk true in
  run_wire false true (mkCs true SOk)
           [Some (mkReq 0 10, ok); Some (mkReq 1 11, bad); Some (mkReq 2 12, ok); None]
  = [WConnect; WHandshake; WMail 10; WRcpt 10; WData 10; WBody 10; WResult 10 true;
     WMail 11; WRcpt 11; WData 11; WEmptyBody 11; WResult 11 false; WRset;
     WMail 12; WRcpt 12; WData 12; WBody 12; WResult 12 true; WQuit; WClose].
Proof. vm_compute. reflexivity. Qed.

(* the rcpt_errors branch of _set_failure: every recipient of message 10 rejected, one with 4xx and
   one with 5xx; the failure is reported per recipient, RSET follows, message 11 uses the same
   connection.  Without that RSET the checker rejects the log. *)
Example smtp_mixed_rejection_example :
  let mixed := mkMs false true SOk [SRej4; SRej] SRej SOk true in
  let ok := mkMs false true SOk [SOk] SOk SOk true in
  run_wire false true (mkCs true SOk) [Some (mkReq 0 10, mixed); Some (mkReq 1 11, ok); None]
  = [WConnect; WHandshake; WMail 10; WRcpt 10; WRcpt 10; WData 10; WResultRcpts 10; WRset;
     WMail 11; WRcpt 11; WData 11; WBody 11; WResult 11 true; WQuit; WClose]
  /\ reset_after_failure false
       [WMail 10; WRcpt 10; WRcpt 10; WData 10; WResultRcpts 10; WMail 11] = false
  /\ snd (deliver true 10 (mkMs false true SOk [SRej; SRej4; SRej] SOk SOk true)) = DRejected true true.
Proof. vm_compute. repeat split. Qed.

(* ================================================================== *)
(* 4. HttpRelayClient                                                 *)

Definition hrun_wire reuse polls := fst (fst (http_run reuse polls)).
Definition hrun_acts reuse polls := snd (fst (http_run reuse polls)).

Lemma http_loop_clean : forall reuse polls conn,
    http_clean HClean (fst (fst (http_loop reuse conn polls))) = true.
Proof.
  intros reuse. induction polls as [|p polls IH]; intros conn; [reflexivity|].
  cbn [http_loop]. destruct p as [[r h]|].
  - destruct h; destruct reuse; destruct conn;
      try (pose proof (IH true) as IH'; destruct (http_loop true true polls) as [[w a] x]; cbn [fst snd] in *);
      cbn [fst snd app http_clean]; rewrite ?N.eqb_refl; cbn [andb http_clean]; try reflexivity; exact IH'.
  - destruct reuse; [|destruct conn; reflexivity].
    pose proof (IH false) as IH'. destruct (http_loop true false polls) as [[w a] x]. cbn [fst snd] in *.
    destruct conn; cbn [app http_clean]; exact IH'.
Qed.

Lemma http_loop_contract : forall reuse polls conn,
    follows_contract HBusy (snd (fst (http_loop reuse conn polls))) = true.
Proof.
  intros reuse. induction polls as [|p polls IH]; intros conn; [reflexivity|].
  cbn [http_loop]. destruct p as [[r h]|].
  - destruct h; destruct reuse; destruct conn;
      try (pose proof (IH true) as IH'; destruct (http_loop true true polls) as [[w a] x]; cbn [fst snd] in *);
      cbn [fst snd follows_contract]; rewrite ?req_eqb_refl; cbn [andb]; try reflexivity; exact IH'.
  - destruct reuse; [|reflexivity].
    pose proof (IH false) as IH'. destruct (http_loop true false polls) as [[w a] x]. cbn [fst snd] in *.
    cbn [follows_contract]. exact IH'.
Qed.

(* on the HTTP client's connection exchanges never overlap, and an exchange that broke off is
   followed by close() before the next request *)
Lemma http_one_exchange_then_reset : forall reuse polls,
    http_clean HClean (hrun_wire reuse polls) = true.
Proof. intros. apply http_loop_clean. Qed.

Lemma http_client_contract : forall reuse polls c,
    follows_contract HBusy (hrun_acts reuse polls) = true /\
    Forall contract_ev (flat_map (evs_of_act c) (hrun_acts reuse polls)).
Proof.
  intros reuse polls c. split; [apply http_loop_contract|].
  apply Forall_forall. intros e He. apply in_flat_map in He. destruct He as [a [_ Ha]].
  destruct a; cbn in Ha; repeat (destruct Ha as [<- | Ha]; [exact I|]); destruct Ha.
Qed.

(* first delivery times out, the connection is closed, the client ends; a checker-rejected log for
   contrast: the next request on the connection that still is inside the broken exchange *)
Example http_reset_example :
  hrun_wire true [Some (mkReq 0 10, HOk); Some (mkReq 1 11, HTimeout)]
  = [HRequest 10; HConnect; HResponse 10; HResultW 10 true; HRequest 11; HResultW 11 false; HCloseW]
  /\ http_clean HClean [HRequest 11; HConnect; HResultW 11 false; HRequest 12] = false.
Proof. vm_compute. split; reflexivity. Qed.

(* ================================================================== *)
(* 5. the reply inside a "connection lost" result                     *)

Lemma lost_sources_own_gen : forall tr last,
    wf_reads tr = true ->
    (forall k, last = Some (k, E421) ->
               match tr with [] => True | r :: _ => rd_kind r = RdLost /\ rd_msg r = k end) ->
    forall m src, In (m, src) (lost_sources error_source last tr) -> src = None \/ src = Some m.
Proof.
  induction tr as [|r tr IH]; intros last Hwf Hinv m src HI; [destruct HI|].
  cbn [wf_reads] in Hwf. apply andb_true_iff in Hwf. destruct Hwf as [Hadj Hwf].
  cbn [lost_sources] in HI. destruct (rd_kind r) as [|c|] eqn:Ek.
  - (* ok read: last unchanged; it cannot be a pending 421 *)
    unfold upd_last in HI. rewrite Ek in HI. apply (IH last Hwf); [|exact HI].
    intros k Hl. specialize (Hinv k Hl). destruct Hinv as [H1 _]. discriminate.
  - (* error read *)
    apply (IH (upd_last last r) Hwf); [|exact HI].
    unfold upd_last. rewrite Ek. intros k Hl. inversion Hl; subst.
    destruct tr as [|b tr']; [exact I|]. apply andb_true_iff in Hadj. destruct Hadj as [H1 H2].
    unfold is_lost in H2. destruct (rd_kind b); try discriminate. split; [reflexivity | apply N.eqb_eq; exact H1].
  - (* failed read: nothing follows *)
    destruct tr as [|b tr']; [|discriminate Hadj].
    destruct HI as [HI | []]. inversion HI; subst.
    unfold error_source. destruct last as [[k [| |]]|]; try (left; reflexivity).
    right. specialize (Hinv k eq_refl). cbn in Hinv. destruct Hinv as [_ ->]. reflexivity.
Qed.

(* the reply a lost-connection result is built from was issued during the SAME message's exchange,
   or is synthetic *)
Lemma lost_result_source_is_own : forall tr,
    wf_reads tr = true ->
    forall m src, In (m, src) (lost_sources error_source None tr) -> src = None \/ src = Some m.
Proof. intros tr Hwf. apply (lost_sources_own_gen tr None Hwf). intros k H. discriminate. Qed.

(* hypotheses satisfiable, and the own-421 case exists: recipient of message 1 answered 421, then
   the connection is gone while message 1 is still in progress *)
Example lost_source_example :
  let tr := [mkRd 0 RdOk; mkRd 0 (RdErr E4xx); mkRd 0 RdOk; mkRd 0 RdOk;
             mkRd 1 RdOk; mkRd 1 (RdErr E421); mkRd 1 RdLost] in
  wf_reads tr = true /\ lost_sources error_source None tr = [(1, Some 1)].
Proof. vm_compute. split; reflexivity. Qed.

(* passing on ANY 4xx is wrong: message 0 had a recipient deferred (450) and was otherwise
   accepted; message 1 loses the connection and would be failed with message 0's reply *)
Lemma any_4xx_is_foreign :
  exists tr, wf_reads tr = true /\
             lost_sources error_source_any4xx None tr = [(1, Some 0)] /\
             lost_sources error_source None tr = [(1, None)].
Proof.
  exists [mkRd 0 RdOk; mkRd 0 (RdErr E4xx); mkRd 0 RdOk; mkRd 0 RdOk; mkRd 0 RdOk; mkRd 1 RdLost].
  vm_compute. repeat split.
Qed.

(* ================================================================== *)
(* 6. check-then-add must be atomic                                   *)
Lemma split_check_and_add_exceeds :
  exists es, s_pool (run (S := split_sys 1) es) = 2.
Proof. exists [SCheck; SCheck; SAdd; SAdd]. vm_compute. reflexivity. Qed.
