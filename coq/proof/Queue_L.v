(* C01 / C03 core: under the relay contract and fair storage announcements, in every
   reachable state every accepted recipient is delivered, failed for good (with the
   bounce flag of its sender) or still outstanding in storage; a message is removed
   only when all its recipients are settled; a delivery attempt never includes a
   settled recipient.  Per-message descriptor + frame reasoning. *)
From Coq Require Import List NArith ZArith Bool Lia ZifyBool ZifyN.
From SV Require Import model.Queue proof.Queue_base.
Import ListNotations.
Open Scope N_scope.

(* ---------- what the state says about one message id ---------- *)
Definition task_of (ts : list task) (i : id) : option task := find (fun t => task_id t =? i) ts.
Definition deliv_of (s : state) (i : id) : list rcpt := map snd (filter (fun p => fst p =? i) (g_deliv s)).
Definition fail_of (s : state) (i : id) : list (rcpt * bool) :=
  map (fun p => (snd (fst p), snd p)) (filter (fun p => fst (fst p) =? i) (g_fail s)).
Definition acc_of (s : state) (i : id) : list (rcpt * bool) :=
  map (fun p => (snd (fst p), snd p)) (filter (fun p => fst (fst p) =? i) (g_acc s)).

Record descr := mkD {
  d_task : option task; d_act : bool; d_qi : bool; d_qd : bool; d_st : option msg;
  d_dl : list rcpt; d_fl : list (rcpt * bool); d_ac : list (rcpt * bool) }.

Definition D (s : state) (i : id) : descr :=
  mkD (task_of (s_tasks s) i) (mem i (s_active s)) (mem i (s_qids s)) (mem i (qids_of (s_queued s)))
      (st_get (s_store s) i) (deliv_of s i) (fail_of s i) (acc_of s i).

Section Good.
  Variable nx : id.
  Variable i : id.
  Variable d : descr.

  Definition unsettled_all (l : list rcpt) : Prop :=
    forall r, In r l -> ~ In r (d_dl d) /\ forall b, ~ In (r, b) (d_fl d).
  Definition all_settled : Prop :=
    forall r sf, In (r, sf) (d_ac d) -> In r (d_dl d) \/ In (r, sf) (d_fl d).
  Definition covers (all : list rcpt) (res : list rres) : Prop :=
    forall r, In r all -> In r (pick is_ok all res) \/ In r (pick is_perm all res) \/ In r (pick is_temp all res).
  Definition part_logged (snd : bool) (all : list rcpt) (res : list rres) : Prop :=
    (forall r, In r (pick is_ok all res) -> In r (d_dl d)) /\
    (forall r, In r (pick is_perm all res) -> In (r, snd) (d_fl d)).

  Definition phase_ok : Prop :=
    match d_task d with
    | None => (d_act d = true -> d_st d = None) /\
              (forall m, d_st d = Some m -> unsettled_all (m_rcpts m)) /\
              (d_st d <> None -> d_qd d = true)
    | Some (TEnq _ snd rcpts) =>
        d_act d = false /\ d_qd d = false /\
        exists m, d_st d = Some m /\ m_rcpts m = rcpts /\ m_sender m = snd /\ unsettled_all rcpts
    | Some (TAttempt _ snd rcpts _) =>
        d_act d = true /\ d_qd d = false /\
        exists m, d_st d = Some m /\ m_rcpts m = rcpts /\ m_sender m = snd /\ unsettled_all rcpts
    | Some (TRetry1 _ snd rc None) =>
        d_act d = true /\ d_qd d = false /\
        exists m, d_st d = Some m /\ m_rcpts m = rc /\ m_sender m = snd /\ unsettled_all rc
    | Some (TRetry1 _ snd rc (Some (all, res))) =>
        d_act d = true /\ d_qd d = false /\
        exists m, d_st d = Some m /\ m_rcpts m = all /\ m_sender m = snd /\ rc = pick is_temp all res /\
                  covers all res /\ part_logged snd all res /\ unsettled_all (unsettled all res)
    | Some (TRetry2 _ rc None _) =>
        d_act d = true /\ d_qd d = false /\
        exists m, d_st d = Some m /\ m_rcpts m = rc /\ unsettled_all rc
    | Some (TRetry2 _ _ (Some (all, res)) _) | Some (TRetry3 _ all res _) =>
        d_act d = true /\ d_qd d = false /\
        exists m, d_st d = Some m /\ m_rcpts m = all /\ part_logged (m_sender m) all res /\
                  unsettled_all (unsettled all res)
    | Some (TDequeue _ _) =>
        d_act d = true /\ d_qd d = false /\ (forall m, d_st d = Some m -> unsettled_all (m_rcpts m))
    | Some (TRemove _) => d_act d = false /\ d_qd d = false /\ all_settled
    | Some (TPartialRemove _) => d_act d = true /\ d_qd d = false /\ all_settled
    end.

  Definition touched : Prop :=
    d_task d <> None \/ d_act d = true \/ d_qi d = true \/ d_qd d = true \/ d_st d <> None \/
    d_ac d <> [] \/ d_dl d <> [] \/ d_fl d <> [].

  Record good : Prop := mkGood {
    g_q1 : d_qd d = true -> d_qi d = true /\ d_act d = false;
    g_q2 : d_qi d = true -> d_qd d = true;
    g_sender : forall m, d_st d = Some m -> forall r sf, In (r, sf) (d_ac d) -> m_sender m = sf;
    g_nodup : forall m, d_st d = Some m -> NoDup (m_rcpts m);
    g_fresh : touched -> i < nx;
    g_noloss : forall r sf, In (r, sf) (d_ac d) ->
               In r (d_dl d) \/ In (r, sf) (d_fl d) \/ exists m, d_st d = Some m /\ In r (m_rcpts m);
    g_phase : phase_ok
  }.
End Good.

Record Linv (s : state) : Prop := mkLinv {
  l_good : forall i, good (s_next s) i (D s i);
  l_tasks_nodup : NoDup (all_ids (s_tasks s));
  l_queued_nodup : NoDup (qids_of (s_queued s))
}.

(* the frame: nothing about j changed *)
Lemma good_frame : forall nx nx' j d, nx <= nx' -> good nx j d -> good nx' j d.
Proof.
  intros nx nx' j d Hn [A B C E F G P]. constructor; auto. intro Ht. specialize (F Ht). lia.
Qed.

(* ---------- list facts for descriptors ---------- *)
Lemma task_of_app : forall a b i, task_of (a ++ b) i = match task_of a i with Some t => Some t | None => task_of b i end.
Proof.
  intros a b i. unfold task_of. induction a as [|x a IH]; cbn; [reflexivity|].
  destruct (task_id x =? i); [reflexivity|exact IH].
Qed.

Lemma task_of_none : forall ts i, task_of ts i = None <-> ~ In i (all_ids ts).
Proof.
  intros ts i. unfold task_of, all_ids. induction ts as [|x ts IH]; cbn; [tauto|].
  destruct (N.eqb_spec (task_id x) i); [split; [discriminate|intro H; exfalso; apply H; left; assumption]|].
  rewrite IH. tauto.
Qed.

Lemma task_of_some : forall ts i t, task_of ts i = Some t -> In t ts /\ task_id t = i.
Proof.
  intros ts i t H. unfold task_of in H. apply find_some in H. destruct H as [H1 H2]. apply N.eqb_eq in H2. tauto.
Qed.

(* with distinct ids, the task found for the id of a member is that member *)
Lemma task_of_member : forall l1 t l2, NoDup (all_ids (l1 ++ t :: l2)) -> task_of (l1 ++ t :: l2) (task_id t) = Some t.
Proof.
  intros l1 t l2 H. rewrite task_of_app.
  assert (Hn : ~ In (task_id t) (all_ids l1)).
  { unfold all_ids in *. rewrite map_app in H. cbn in H. apply NoDup_remove_2 in H. intro Hi. apply H. apply in_app_iff. left. exact Hi. }
  apply task_of_none in Hn. rewrite Hn. unfold task_of. cbn. rewrite N.eqb_refl. reflexivity.
Qed.

Lemma task_of_rest_other : forall l1 t l2 nt j, task_id t <> j -> (forall x, In x nt -> task_id x <> j) ->
  task_of ((l1 ++ l2) ++ nt) j = task_of (l1 ++ t :: l2) j.
Proof.
  intros l1 t l2 nt j Ht Hnt. rewrite !task_of_app.
  assert (E : task_of nt j = None). { apply task_of_none. unfold all_ids. intro Hi. apply in_map_iff in Hi. destruct Hi as [x [E Hx]]. apply (Hnt x Hx E). }
  rewrite E. unfold task_of at 4. cbn. destruct (N.eqb_spec (task_id t) j); [contradiction|].
  destruct (task_of l1 j); [reflexivity|]. fold (task_of l2 j). destruct (task_of l2 j); reflexivity.
Qed.

Lemma task_of_rest_same : forall l1 t l2 nt, NoDup (all_ids (l1 ++ t :: l2)) ->
  task_of ((l1 ++ l2) ++ nt) (task_id t) = task_of nt (task_id t).
Proof.
  intros l1 t l2 nt H. rewrite task_of_app.
  assert (Hn : ~ In (task_id t) (all_ids (l1 ++ l2))).
  { unfold all_ids in *. rewrite map_app in *. cbn in H. apply NoDup_remove_2 in H. exact H. }
  apply task_of_none in Hn. rewrite Hn. reflexivity.
Qed.

Lemma nodup_rest_nt : forall l1 t l2 nt, NoDup (all_ids (l1 ++ t :: l2)) ->
  (nt = [] \/ exists x, nt = [x] /\ task_id x = task_id t) -> NoDup (all_ids ((l1 ++ l2) ++ nt)).
Proof.
  intros l1 t l2 nt H Hnt. unfold all_ids in *. rewrite map_app in H. cbn in H.
  pose proof (NoDup_remove_1 _ _ _ H) as H1. pose proof (NoDup_remove_2 _ _ _ H) as H2.
  rewrite <- map_app in H1, H2. destruct Hnt as [E|[x [E Ex]]]; subst nt; rewrite map_app; cbn.
  - rewrite app_nil_r. exact H1.
  - rewrite Ex. clear -H1 H2. induction (map task_id (l1 ++ l2)) as [|y l IH]; cbn.
    + constructor; [intros []|constructor].
    + inversion H1; subst. constructor.
      * intro Hi. apply in_app_iff in Hi. destruct Hi as [Hi|[Hi|[]]]; [contradiction|]. subst. apply H2. left. reflexivity.
      * apply IH; [assumption|]. intro Hi. apply H2. right. exact Hi.
Qed.

Lemma filter_map_other : forall (A : Type) (f : A -> id) (mk : rcpt -> A) (i j : id) (rs : list rcpt) (l : list A),
  (forall r, f (mk r) = i) -> i <> j ->
  filter (fun p => f p =? j) (map mk rs ++ l) = filter (fun p => f p =? j) l.
Proof.
  intros A f mk i j rs l Hf Hij. rewrite filter_app. induction rs as [|r rs IH]; cbn; [reflexivity|].
  rewrite Hf. destruct (N.eqb_spec i j); [contradiction|exact IH].
Qed.
