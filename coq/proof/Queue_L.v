(* C01 / C03 core: under the relay contract and fair storage announcements, in every
   reachable state every accepted recipient is delivered, failed for good (with the
   bounce flag of its sender) or still outstanding in storage; a message is removed
   only when all its recipients are settled; a delivery attempt never includes a
   settled recipient.  Per-message descriptor + frame reasoning. *)
From Coq Require Import List NArith ZArith Bool Lia ZifyBool ZifyN.
From SV Require Import model.Queue proof.Queue_base.
Import ListNotations.
Open Scope N_scope.

(* ---------- what the state says about one message id ---------- *)
Definition task_of (ts : list task) (i : id) : option task := find (fun t => task_id t =? i) ts.
Definition deliv_l (l : list (id * rcpt)) (i : id) : list rcpt := map snd (filter (fun p => fst p =? i) l).
Definition trip_l (l : list (id * rcpt * bool)) (i : id) : list (rcpt * bool) :=
  map (fun p => (snd (fst p), snd p)) (filter (fun p => fst (fst p) =? i) l).

Record descr := mkD {
  d_task : option task; d_act : bool; d_qi : bool; d_qd : bool; d_st : option msg;
  d_dl : list rcpt; d_fl : list (rcpt * bool); d_ac : list (rcpt * bool) }.

Definition D (s : state) (i : id) : descr :=
  mkD (task_of (s_tasks s) i) (mem i (s_active s)) (mem i (s_qids s)) (mem i (qids_of (s_queued s)))
      (st_get (s_store s) i) (deliv_l (g_deliv s) i) (trip_l (g_fail s) i) (trip_l (g_acc s) i).

Section Good.
  Variable nx : id.
  Variable i : id.
  Variable d : descr.

  Definition unsettled_all (l : list rcpt) : Prop :=
    forall r, In r l -> ~ In r (d_dl d) /\ forall b, ~ In (r, b) (d_fl d).
  Definition all_settled : Prop :=
    forall r sf, In (r, sf) (d_ac d) -> In r (d_dl d) \/ In (r, sf) (d_fl d).
  Definition covers (all : list rcpt) (res : list rres) : Prop :=
    forall r, In r all -> In r (pick is_ok all res) \/ In r (pick is_perm all res) \/ In r (pick is_temp all res).
  Definition part_logged (snd : bool) (all : list rcpt) (res : list rres) : Prop :=
    (forall r, In r (pick is_ok all res) -> In r (d_dl d)) /\
    (forall r, In r (pick is_perm all res) -> In (r, snd) (d_fl d)).

  Definition phase_ok : Prop :=
    match d_task d with
    | None => (d_act d = true -> d_st d = None) /\
              (forall m, d_st d = Some m -> unsettled_all (m_rcpts m)) /\
              (d_st d <> None -> d_qd d = true)
    | Some (TEnq _ snd rcpts) =>
        d_act d = false /\ d_qd d = false /\
        exists m, d_st d = Some m /\ m_rcpts m = rcpts /\ m_sender m = snd /\ unsettled_all rcpts
    | Some (TAttempt _ snd rcpts _) =>
        d_act d = true /\ d_qd d = false /\
        exists m, d_st d = Some m /\ m_rcpts m = rcpts /\ m_sender m = snd /\ unsettled_all rcpts
    | Some (TRetry1 _ snd rc None) =>
        d_act d = true /\ d_qd d = false /\
        exists m, d_st d = Some m /\ m_rcpts m = rc /\ m_sender m = snd /\ unsettled_all rc
    | Some (TRetry1 _ snd rc (Some (all, res))) =>
        d_act d = true /\ d_qd d = false /\
        exists m, d_st d = Some m /\ m_rcpts m = all /\ m_sender m = snd /\ rc = pick is_temp all res /\
                  covers all res /\ part_logged snd all res /\ unsettled_all (unsettled all res)
    | Some (TRetry2 _ rc None _) =>
        d_act d = true /\ d_qd d = false /\
        exists m, d_st d = Some m /\ m_rcpts m = rc /\ unsettled_all rc
    | Some (TRetry2 _ _ (Some (all, res)) _) | Some (TRetry3 _ all res _) =>
        d_act d = true /\ d_qd d = false /\
        exists m, d_st d = Some m /\ m_rcpts m = all /\ part_logged (m_sender m) all res /\
                  unsettled_all (unsettled all res)
    | Some (TDequeue _ _) =>
        d_act d = true /\ d_qd d = false /\ (forall m, d_st d = Some m -> unsettled_all (m_rcpts m))
    | Some (TRemove _) => d_act d = false /\ d_qd d = false /\ all_settled
    | Some (TPartialRemove _) => d_act d = true /\ d_qd d = false /\ all_settled
    end.

  Definition touched : Prop :=
    d_task d <> None \/ d_act d = true \/ d_qi d = true \/ d_qd d = true \/ d_st d <> None \/
    d_ac d <> [] \/ d_dl d <> [] \/ d_fl d <> [].

  Record good : Prop := mkGood {
    g_q1 : d_qd d = true -> d_qi d = true /\ d_act d = false;
    g_q2 : d_qi d = true -> d_qd d = true;
    g_sender : forall m, d_st d = Some m -> forall r sf, In (r, sf) (d_ac d) -> m_sender m = sf;
    g_nodup : forall m, d_st d = Some m -> NoDup (m_rcpts m);
    g_fresh : touched -> i < nx;
    g_noloss : forall r sf, In (r, sf) (d_ac d) ->
               In r (d_dl d) \/ In (r, sf) (d_fl d) \/ exists m, d_st d = Some m /\ In r (m_rcpts m);
    g_phase : phase_ok
  }.
End Good.

Record Linv (s : state) : Prop := mkLinv {
  l_good : forall i, good (s_next s) i (D s i);
  l_tasks_nodup : NoDup (all_ids (s_tasks s));
  l_queued_nodup : NoDup (qids_of (s_queued s))
}.

(* the frame: nothing about j changed *)
Lemma good_frame : forall nx nx' j d, nx <= nx' -> good nx j d -> good nx' j d.
Proof.
  intros nx nx' j d Hn [A B C E F G P]. constructor; auto. intro Ht. specialize (F Ht). lia.
Qed.

(* ---------- list facts for descriptors ---------- *)
Lemma task_of_app : forall a b i, task_of (a ++ b) i = match task_of a i with Some t => Some t | None => task_of b i end.
Proof.
  intros a b i. unfold task_of. induction a as [|x a IH]; cbn; [reflexivity|].
  destruct (task_id x =? i); [reflexivity|exact IH].
Qed.

Lemma task_of_none : forall ts i, task_of ts i = None <-> ~ In i (all_ids ts).
Proof.
  intros ts i. unfold task_of, all_ids. induction ts as [|x ts IH]; cbn; [tauto|].
  destruct (N.eqb_spec (task_id x) i); [split; [discriminate|intro H; exfalso; apply H; left; assumption]|].
  rewrite IH. tauto.
Qed.

Lemma task_of_some : forall ts i t, task_of ts i = Some t -> In t ts /\ task_id t = i.
Proof.
  intros ts i t H. unfold task_of in H. apply find_some in H. destruct H as [H1 H2]. apply N.eqb_eq in H2. tauto.
Qed.

(* with distinct ids, the task found for the id of a member is that member *)
Lemma task_of_member : forall l1 t l2, NoDup (all_ids (l1 ++ t :: l2)) -> task_of (l1 ++ t :: l2) (task_id t) = Some t.
Proof.
  intros l1 t l2 H. rewrite task_of_app.
  assert (Hn : ~ In (task_id t) (all_ids l1)).
  { unfold all_ids in *. rewrite map_app in H. cbn in H. apply NoDup_remove_2 in H. intro Hi. apply H. apply in_app_iff. left. exact Hi. }
  apply task_of_none in Hn. rewrite Hn. unfold task_of. cbn. rewrite N.eqb_refl. reflexivity.
Qed.

Lemma task_of_rest_other : forall l1 t l2 nt j, task_id t <> j -> (forall x, In x nt -> task_id x <> j) ->
  task_of ((l1 ++ l2) ++ nt) j = task_of (l1 ++ t :: l2) j.
Proof.
  intros l1 t l2 nt j Ht Hnt. rewrite !task_of_app.
  assert (E : task_of nt j = None). { apply task_of_none. unfold all_ids. intro Hi. apply in_map_iff in Hi. destruct Hi as [x [E Hx]]. apply (Hnt x Hx E). }
  rewrite E. unfold task_of at 4. cbn. destruct (N.eqb_spec (task_id t) j); [contradiction|].
  destruct (task_of l1 j); [reflexivity|]. fold (task_of l2 j). destruct (task_of l2 j); reflexivity.
Qed.

Lemma task_of_rest_same : forall l1 t l2 nt, NoDup (all_ids (l1 ++ t :: l2)) ->
  task_of ((l1 ++ l2) ++ nt) (task_id t) = task_of nt (task_id t).
Proof.
  intros l1 t l2 nt H. rewrite task_of_app.
  assert (Hn : ~ In (task_id t) (all_ids (l1 ++ l2))).
  { unfold all_ids in *. rewrite map_app in *. cbn in H. apply NoDup_remove_2 in H. exact H. }
  apply task_of_none in Hn. rewrite Hn. reflexivity.
Qed.

Lemma nodup_rest_nt : forall l1 t l2 nt, NoDup (all_ids (l1 ++ t :: l2)) ->
  (nt = [] \/ exists x, nt = [x] /\ task_id x = task_id t) -> NoDup (all_ids ((l1 ++ l2) ++ nt)).
Proof.
  intros l1 t l2 nt H Hnt. unfold all_ids in *. rewrite map_app in H. cbn in H.
  pose proof (NoDup_remove_1 _ _ _ H) as H1. pose proof (NoDup_remove_2 _ _ _ H) as H2.
  rewrite <- map_app in H1, H2. destruct Hnt as [E|[x [E Ex]]]; subst nt; rewrite map_app; cbn.
  - rewrite app_nil_r. exact H1.
  - rewrite Ex. clear -H1 H2. induction (map task_id (l1 ++ l2)) as [|y l IH]; cbn.
    + constructor; [intros []|constructor].
    + inversion H1; subst. constructor.
      * intro Hi. apply in_app_iff in Hi. destruct Hi as [Hi|[Hi|[]]]; [contradiction|]. subst. apply H2. left. reflexivity.
      * apply IH; [assumption|]. intro Hi. apply H2. right. exact Hi.
Qed.

Lemma deliv_l_app : forall a b i, deliv_l (a ++ b) i = deliv_l a i ++ deliv_l b i.
Proof. intros. unfold deliv_l. rewrite filter_app, map_app. reflexivity. Qed.
Lemma trip_l_app : forall a b i, trip_l (a ++ b) i = trip_l a i ++ trip_l b i.
Proof. intros. unfold trip_l. rewrite filter_app, map_app. reflexivity. Qed.

Lemma deliv_l_new_same : forall i rs, deliv_l (map (fun r => (i, r)) rs) i = rs.
Proof. intros i rs. unfold deliv_l. induction rs as [|r rs IH]; cbn; [reflexivity|]. rewrite N.eqb_refl. cbn. rewrite IH. reflexivity. Qed.
Lemma deliv_l_new_other : forall i j rs, i <> j -> deliv_l (map (fun r => (i, r)) rs) j = [].
Proof. intros i j rs H. unfold deliv_l. induction rs as [|r rs IH]; cbn; [reflexivity|]. destruct (N.eqb_spec i j); [contradiction|exact IH]. Qed.
Lemma trip_l_new_same : forall i b rs, trip_l (map (fun r => (i, r, b)) rs) i = map (fun r => (r, b)) rs.
Proof. intros i b rs. unfold trip_l. induction rs as [|r rs IH]; cbn; [reflexivity|]. rewrite N.eqb_refl. cbn. rewrite IH. reflexivity. Qed.
Lemma trip_l_new_other : forall i j b rs, i <> j -> trip_l (map (fun r => (i, r, b)) rs) j = [].
Proof. intros i j b rs H. unfold trip_l. induction rs as [|r rs IH]; cbn; [reflexivity|]. destruct (N.eqb_spec i j); [contradiction|exact IH]. Qed.

Lemma D_eq : forall s s' j,
  task_of (s_tasks s') j = task_of (s_tasks s) j -> mem j (s_active s') = mem j (s_active s) ->
  mem j (s_qids s') = mem j (s_qids s) -> mem j (qids_of (s_queued s')) = mem j (qids_of (s_queued s)) ->
  st_get (s_store s') j = st_get (s_store s) j -> deliv_l (g_deliv s') j = deliv_l (g_deliv s) j ->
  trip_l (g_fail s') j = trip_l (g_fail s) j -> trip_l (g_acc s') j = trip_l (g_acc s) j ->
  D s' j = D s j.
Proof. intros s s' j E1 E2 E3 E4 E5 E6 E7 E8. unfold D. rewrite E1, E2, E3, E4, E5, E6, E7, E8. reflexivity. Qed.

Lemma Linv_local : forall s s' i, Linv s -> s_next s <= s_next s' ->
  (forall j, j <> i -> D s' j = D s j) -> good (s_next s') i (D s' i) ->
  NoDup (all_ids (s_tasks s')) -> NoDup (qids_of (s_queued s')) -> Linv s'.
Proof.
  intros s s' i H Hn Hf Hg N1 N2. constructor; [|exact N1|exact N2].
  intro j. destruct (N.eq_dec j i) as [E|E]; [subst; exact Hg|]. rewrite (Hf j E).
  apply (good_frame (s_next s)); [exact Hn|apply (l_good s H)].
Qed.

Lemma mem_cons_other : forall j i l, j <> i -> mem j (i :: l) = mem j l.
Proof. intros j i l H. cbn. destruct (N.eqb_spec j i); [contradiction|reflexivity]. Qed.

Lemma mem_qids_insort_other : forall j ts i q, j <> i -> mem j (qids_of (insort (ts, i) q)) = mem j (qids_of q).
Proof.
  intros j ts i q H. unfold qids_of. induction q as [|[t k] q IH]; cbn.
  - destruct (N.eqb_spec j i); [contradiction|reflexivity].
  - destruct (ts <? t); cbn.
    + destruct (N.eqb_spec j i); [contradiction|reflexivity].
    + rewrite IH. reflexivity.
Qed.

Lemma mem_qids_insort_same : forall ts i q, mem i (qids_of (insort (ts, i) q)) = true.
Proof.
  intros ts i q. unfold qids_of. induction q as [|[t k] q IH]; cbn.
  - rewrite N.eqb_refl. reflexivity.
  - destruct (ts <? t); cbn; [rewrite N.eqb_refl; reflexivity|rewrite IH; apply orb_true_r].
Qed.

Lemma qids_insort_nodup : forall ts i q, NoDup (qids_of q) -> ~ In i (qids_of q) -> NoDup (qids_of (insort (ts, i) q)).
Proof.
  intros ts i q. induction q as [|[t k] q IH]; intros Hn Hi; cbn.
  - constructor; [intros []|constructor].
  - destruct (ts <? t); cbn.
    + constructor; assumption.
    + cbn in Hn, Hi. inversion Hn; subst. constructor.
      * intro Hk. assert (Hm : mem k (qids_of (insort (ts, i) q)) = true) by (apply mem_In; exact Hk).
        rewrite mem_qids_insort_other in Hm by (intro; subst; apply Hi; left; reflexivity).
        apply mem_In in Hm. contradiction.
      * apply IH; [assumption|]. intro Hx. apply Hi. right. exact Hx.
Qed.

(* ---------- hypotheses on the environment: relay contract, fair announcements ---------- *)
Definition covers_res (all : list rcpt) (res : list rres) : Prop :=
  forall r, In r all -> In r (pick is_ok all res) \/ In r (pick is_perm all res) \/ In r (pick is_temp all res).

Definition ev_ok (s : state) (e : event) : Prop :=
  match e with
  | EWrite _ rcpts _ => NoDup rcpts
  | ERelay i (OPartial res) =>
      forall snd rcpts n, task_of (s_tasks s) i = Some (TAttempt i snd rcpts n) -> covers_res rcpts res
  | EAnnounce _ i =>
      i < s_next s /\
      match task_of (s_tasks s) i with
      | Some (TEnq _ _ _) | Some (TRemove _) => False    (* not while its enqueue() or its removal is in progress *)
      | _ => True
      end
  | _ => True
  end.

Fixpoint ok_run (es : list event) (s : state) : Prop :=
  match es with
  | [] => True
  | e :: es' => ev_ok s e /\ ok_run es' (step s e)
  end.

(* ---------- facts about pick ---------- *)
Lemma pick_In : forall p rs res r, In r (pick p rs res) -> In r rs.
Proof.
  induction rs as [|x rs IH]; intros res r H; cbn in H; [destruct H|].
  destruct (p match res with [] => RJunk | y :: _ => y end); [destruct H as [H|H]; [left; exact H|right; apply (IH _ _ H)]|right; apply (IH _ _ H)].
Qed.

Lemma pick_split : forall p rs res r, In r rs -> In r (pick p rs res) \/ In r (pick (fun x => negb (p x)) rs res).
Proof.
  induction rs as [|x rs IH]; intros res r H; [destruct H|]. cbn.
  destruct (p match res with [] => RJunk | y :: _ => y end) eqn:E; cbn; destruct H as [H|H].
  - left. left. exact H.
  - destruct (IH match res with [] => [] | _ :: t => t end r H) as [A|A]; [left; right; exact A|right; exact A].
  - right. left. exact H.
  - destruct (IH match res with [] => [] | _ :: t => t end r H) as [A|A]; [left; exact A|right; right; exact A].
Qed.

Lemma pick_disjoint : forall p q rs res r, NoDup rs -> (forall x, p x = true -> q x = true -> False) ->
  In r (pick p rs res) -> In r (pick q rs res) -> False.
Proof.
  induction rs as [|x rs IH]; intros res r Hn Hpq Hp Hq; cbn in *; [destruct Hp|].
  inversion Hn as [|? ? Hx Hn']; subst.
  set (y := match res with [] => RJunk | y :: _ => y end) in *.
  set (res' := match res with [] => [] | _ :: t => t end) in *.
  destruct (p y) eqn:Ep; destruct (q y) eqn:Eq.
  - exact (Hpq y Ep Eq).
  - destruct Hp as [Hp|Hp]; [subst; apply Hx; apply (pick_In _ _ _ _ Hq)|apply (IH res' r Hn' Hpq Hp Hq)].
  - destruct Hq as [Hq|Hq]; [subst; apply Hx; apply (pick_In _ _ _ _ Hp)|apply (IH res' r Hn' Hpq Hp Hq)].
  - apply (IH res' r Hn' Hpq Hp Hq).
Qed.

Lemma pick_nodup : forall p rs res, NoDup rs -> NoDup (pick p rs res).
Proof.
  induction rs as [|x rs IH]; intros res Hn; cbn; [constructor|]. inversion Hn; subst.
  destruct (p match res with [] => RJunk | y :: _ => y end); [constructor; [intro Hi; apply pick_In in Hi; contradiction|apply IH; assumption]|apply IH; assumption].
Qed.

Lemma not_settled_neg : forall x, not_settled x = negb (is_settled x).
Proof. reflexivity. Qed.

Lemma settled_ok_perm : forall rs res r, In r (pick is_settled rs res) -> In r (pick is_ok rs res) \/ In r (pick is_perm rs res).
Proof.
  induction rs as [|x rs IH]; intros res r H; cbn in *; [destruct H|].
  set (y := match res with [] => RJunk | y :: _ => y end) in *.
  destruct y; cbn in *.
  - destruct H as [H|H]; [left; left; exact H|destruct (IH _ _ H) as [A|A]; [left; right; exact A|right; exact A]].
  - destruct H as [H|H]; [right; left; exact H|destruct (IH _ _ H) as [A|A]; [left; exact A|right; right; exact A]].
  - apply IH. exact H.
  - apply IH. exact H.
Qed.

Lemma In_map_pair : forall (r : rcpt) (b : bool) rs, In (r, b) (map (fun x => (x, b)) rs) <-> In r rs.
Proof.
  intros r b rs. rewrite in_map_iff. split.
  - intros [x [E Hx]]. inversion E; subst. exact Hx.
  - intro H. exists r. split; [reflexivity|exact H].
Qed.

Lemma In_map_pair_any : forall (r : rcpt) (b b' : bool) rs, In (r, b) (map (fun x => (x, b')) rs) -> In r rs /\ b = b'.
Proof. intros r b b' rs H. apply in_map_iff in H. destruct H as [x [E Hx]]. inversion E; subst. tauto. Qed.

(* ---------- per-case preservation lemmas ---------- *)
Ltac Dnorm :=
  unfold D; proj; rewrite ?aq_tasks, ?aq_active, ?aq_store, ?aq_deliv, ?aq_fail, ?aq_acc;
  cbn [d_task d_act d_qi d_qd d_st d_dl d_fl d_ac].
Ltac Dcbn := cbn [d_task d_act d_qi d_qd d_st d_dl d_fl d_ac].
Ltac Dcbn_in H := cbn [d_task d_act d_qi d_qd d_st d_dl d_fl d_ac] in H.

(* what the invariant says at the id of a task that is in the list *)
Lemma at_member : forall s l1 t l2, Linv s -> s_tasks s = l1 ++ t :: l2 ->
  let i := task_id t in
  NoDup (all_ids (l1 ++ t :: l2)) /\ task_of (s_tasks s) i = Some t /\ good (s_next s) i (D s i).
Proof.
  intros s l1 t l2 H E1 i. pose proof (l_tasks_nodup s H) as Nd. rewrite E1 in Nd.
  split; [exact Nd|]. split; [rewrite E1; apply task_of_member; exact Nd|apply (l_good s H)].
Qed.

Ltac frame_tasks E1 Hj :=
  rewrite E1; apply task_of_rest_other; [cbn; congruence|]; intros x Hx;
  repeat (destruct Hx as [Hx|Hx]; [subst x; cbn; congruence|]); destruct Hx.

Ltac fr Hj :=
  first [ reflexivity
        | apply mem_del_other; exact Hj
        | apply mem_cons_other; exact Hj
        | apply st_get_upd_other; exact Hj
        | apply st_get_del_other; exact Hj
        | (rewrite deliv_l_app, deliv_l_new_other by congruence; reflexivity)
        | (rewrite trip_l_app, trip_l_new_other by congruence; reflexivity)
        | (rewrite deliv_l_app, deliv_l_new_other, trip_l_app, trip_l_new_other by congruence; reflexivity) ].

Lemma touched_task : forall d t, d_task d = Some t -> touched d.
Proof. intros d t H. left. rewrite H. discriminate. Qed.

(* ERelay: whole-message outcomes *)
Lemma L_relay_ok : forall s i snd rcpts n l1 l2,
  Linv s -> s_tasks s = l1 ++ TAttempt i snd rcpts n :: l2 ->
  Linv (q_remove (log_deliv (set_tasks s (l1 ++ l2)) i rcpts) i).
Proof.
  intros s i snd rcpts n l1 l2 H E1.
  destruct (at_member s l1 _ l2 H E1) as [Nd [Htk G]]. cbn [task_id] in Htk, G.
  destruct G as [q1 q2 gs gn gf gl gp]. unfold phase_ok in gp. unfold D in q1, q2, gs, gn, gf, gl, gp. Dcbn_in q1. Dcbn_in q2. Dcbn_in gs. Dcbn_in gn. Dcbn_in gl. Dcbn_in gp.
  rewrite Htk in gp. destruct gp as [Pa [Pq [m [Pst [Prc [Psn Pun]]]]]].
  apply (Linv_local s _ i H).
  - proj. lia.
  - intros j Hj. apply D_eq; proj; [frame_tasks E1 Hj|fr Hj|fr Hj|fr Hj|fr Hj|fr Hj|fr Hj|fr Hj].
  - Dnorm. rewrite (task_of_rest_same l1 (TAttempt i snd rcpts n) l2 [TRemove i] Nd : task_of ((l1 ++ l2) ++ [TRemove i]) i = _).
    unfold task_of. cbn [find task_id]. rewrite N.eqb_refl.
    rewrite !mem_del_same. rewrite deliv_l_app, deliv_l_new_same.
    constructor; Dcbn.
    + intro Hq. rewrite Pq in Hq. discriminate.
    + discriminate.
    + exact gs.
    + exact gn.
    + intros _. apply gf. apply (touched_task _ (TAttempt i snd rcpts n)). exact Htk.
    + intros r sf Hr. destruct (gl r sf Hr) as [A|[A|[m' [A1 A2]]]].
      * left. apply in_app_iff. right. exact A.
      * right. left. exact A.
      * left. apply in_app_iff. left. rewrite Pst in A1. inversion A1; subst m'. rewrite Prc in A2. exact A2.
    + unfold phase_ok. Dcbn. split; [reflexivity|]. split; [exact Pq|].
      unfold all_settled. Dcbn. intros r sf Hr. destruct (gl r sf Hr) as [A|[A|[m' [A1 A2]]]].
      * left. apply in_app_iff. right. exact A.
      * right. exact A.
      * left. apply in_app_iff. left. rewrite Pst in A1. inversion A1; subst m'. rewrite Prc in A2. exact A2.
  - proj. apply (nodup_rest_nt l1 (TAttempt i snd rcpts n) l2 [TRemove i] Nd). right. exists (TRemove i). split; reflexivity.
  - proj. apply (l_queued_nodup s H).
Qed.

Lemma L_relay_perm : forall s i snd rcpts n l1 l2,
  Linv s -> s_tasks s = l1 ++ TAttempt i snd rcpts n :: l2 ->
  Linv (q_remove (log_fail (set_tasks s (l1 ++ l2)) i rcpts snd) i).
Proof.
  intros s i snd rcpts n l1 l2 H E1.
  destruct (at_member s l1 _ l2 H E1) as [Nd [Htk G]]. cbn [task_id] in Htk, G.
  destruct G as [q1 q2 gs gn gf gl gp]. unfold phase_ok in gp. unfold D in q1, q2, gs, gn, gf, gl, gp. Dcbn_in q1. Dcbn_in q2. Dcbn_in gs. Dcbn_in gn. Dcbn_in gl. Dcbn_in gp.
  rewrite Htk in gp. destruct gp as [Pa [Pq [m [Pst [Prc [Psn Pun]]]]]].
  apply (Linv_local s _ i H).
  - proj. lia.
  - intros j Hj. apply D_eq; proj; [frame_tasks E1 Hj|fr Hj|fr Hj|fr Hj|fr Hj|fr Hj|fr Hj|fr Hj].
  - Dnorm. rewrite (task_of_rest_same l1 (TAttempt i snd rcpts n) l2 [TRemove i] Nd : task_of ((l1 ++ l2) ++ [TRemove i]) i = _).
    unfold task_of. cbn [find task_id]. rewrite N.eqb_refl.
    rewrite !mem_del_same. rewrite trip_l_app, trip_l_new_same.
    assert (Hall : forall r sf, In (r, sf) (trip_l (g_acc s) i) ->
              In r (deliv_l (g_deliv s) i) \/ In (r, sf) (map (fun r0 => (r0, snd)) rcpts ++ trip_l (g_fail s) i)).
    { intros r sf Hr. destruct (gl r sf Hr) as [A|[A|[m' [A1 A2]]]].
      - left. exact A.
      - right. apply in_app_iff. right. exact A.
      - right. apply in_app_iff. left. rewrite Pst in A1. inversion A1; subst m'. rewrite Prc in A2.
        rewrite <- (gs m Pst r sf Hr), Psn. apply In_map_pair. exact A2. }
    constructor; Dcbn.
    + intro Hq. rewrite Pq in Hq. discriminate.
    + discriminate.
    + exact gs.
    + exact gn.
    + intros _. apply gf. apply (touched_task _ (TAttempt i snd rcpts n)). exact Htk.
    + intros r sf Hr. destruct (Hall r sf Hr) as [A|A]; [left; exact A|right; left; exact A].
    + unfold phase_ok. Dcbn. split; [reflexivity|]. split; [exact Pq|]. unfold all_settled. Dcbn. exact Hall.
  - proj. apply (nodup_rest_nt l1 (TAttempt i snd rcpts n) l2 [TRemove i] Nd). right. exists (TRemove i). split; reflexivity.
  - proj. apply (l_queued_nodup s H).
Qed.

Lemma L_relay_temp : forall s i snd rcpts n l1 l2,
  Linv s -> s_tasks s = l1 ++ TAttempt i snd rcpts n :: l2 ->
  Linv (set_tasks (set_tasks s (l1 ++ l2)) ((l1 ++ l2) ++ [TRetry1 i snd rcpts None])).
Proof.
  intros s i snd rcpts n l1 l2 H E1.
  destruct (at_member s l1 _ l2 H E1) as [Nd [Htk G]]. cbn [task_id] in Htk, G.
  destruct G as [q1 q2 gs gn gf gl gp]. unfold phase_ok in gp. unfold D in q1, q2, gs, gn, gf, gl, gp. Dcbn_in q1. Dcbn_in q2. Dcbn_in gs. Dcbn_in gn. Dcbn_in gl. Dcbn_in gp.
  rewrite Htk in gp. destruct gp as [Pa [Pq [m [Pst [Prc [Psn Pun]]]]]].
  apply (Linv_local s _ i H).
  - proj. lia.
  - intros j Hj. apply D_eq; proj; [frame_tasks E1 Hj|fr Hj|fr Hj|fr Hj|fr Hj|fr Hj|fr Hj|fr Hj].
  - Dnorm. rewrite (task_of_rest_same l1 (TAttempt i snd rcpts n) l2 [TRetry1 i snd rcpts None] Nd : task_of ((l1 ++ l2) ++ [TRetry1 i snd rcpts None]) i = _).
    unfold task_of. cbn [find task_id]. rewrite N.eqb_refl.
    constructor; Dcbn; [exact q1|exact q2|exact gs|exact gn| |exact gl| ].
    + intros _. apply gf. apply (touched_task _ (TAttempt i snd rcpts n)). exact Htk.
    + unfold phase_ok. Dcbn. split; [exact Pa|]. split; [exact Pq|]. exists m. auto.
  - proj. apply (nodup_rest_nt l1 (TAttempt i snd rcpts n) l2 [TRetry1 i snd rcpts None] Nd). right. eexists. split; reflexivity.
  - proj. apply (l_queued_nodup s H).
Qed.

(* ERelay: per-recipient outcome *)
Lemma L_relay_partial : forall s i snd rcpts n l1 l2 res,
  Linv s -> s_tasks s = l1 ++ TAttempt i snd rcpts n :: l2 -> covers_res rcpts res ->
  let s2 := log_fail (log_deliv (set_tasks s (l1 ++ l2)) i (pick is_ok rcpts res)) i (pick is_perm rcpts res) snd in
  Linv (match pick is_temp rcpts res with
        | [] => set_tasks s2 ((l1 ++ l2) ++ [TPartialRemove i])
        | temps => set_tasks s2 ((l1 ++ l2) ++ [TRetry1 i snd temps (Some (rcpts, res))])
        end).
Proof.
  intros s i snd rcpts n l1 l2 res H E1 Hcov s2.
  destruct (at_member s l1 _ l2 H E1) as [Nd [Htk G]]. cbn [task_id] in Htk, G.
  destruct G as [q1 q2 gs gn gf gl gp]. unfold phase_ok in gp. unfold D in q1, q2, gs, gn, gf, gl, gp. Dcbn_in q1. Dcbn_in q2. Dcbn_in gs. Dcbn_in gn. Dcbn_in gl. Dcbn_in gp.
  rewrite Htk in gp. destruct gp as [Pa [Pq [m [Pst [Prc [Psn Pun]]]]]].
  assert (Hnd : NoDup rcpts) by (rewrite <- Prc; apply (gn m Pst)).
  set (dl' := pick is_ok rcpts res ++ deliv_l (g_deliv s) i).
  set (fl' := map (fun r0 => (r0, snd)) (pick is_perm rcpts res) ++ trip_l (g_fail s) i).
  assert (Hloss : forall r sf, In (r, sf) (trip_l (g_acc s) i) ->
            In r dl' \/ In (r, sf) fl' \/ exists m0, st_get (s_store s) i = Some m0 /\ In r (m_rcpts m0)).
  { intros r sf Hr. destruct (gl r sf Hr) as [A|[A|A]].
    - left. apply in_app_iff. right. exact A.
    - right. left. apply in_app_iff. right. exact A.
    - right. right. exact A. }
  assert (Hplog : (forall r, In r (pick is_ok rcpts res) -> In r dl') /\
                  (forall r, In r (pick is_perm rcpts res) -> In (r, snd) fl')).
  { split; intros r Hr; apply in_app_iff; left; [exact Hr|apply In_map_pair; exact Hr]. }
  assert (Huns : forall r, In r (unsettled rcpts res) -> ~ In r dl' /\ forall b, ~ In (r, b) fl').
  { intros r Hr. assert (Hin : In r rcpts) by (apply (pick_In _ _ _ _ Hr)).
    destruct (Pun r Hin) as [U1 U2]. Dcbn_in U1. Dcbn_in U2. split.
    - intro Hx. apply in_app_iff in Hx. destruct Hx as [Hx|Hx]; [|exact (U1 Hx)].
      apply (pick_disjoint not_settled is_ok rcpts res r Hnd); [intros x; destruct x; cbn; discriminate|exact Hr|exact Hx].
    - intros b Hx. apply in_app_iff in Hx. destruct Hx as [Hx|Hx]; [|exact (U2 b Hx)].
      apply In_map_pair_any in Hx. destruct Hx as [Hx _].
      apply (pick_disjoint not_settled is_perm rcpts res r Hnd); [intros x; destruct x; cbn; discriminate|exact Hr|exact Hx]. }
  assert (Hframe : forall nt, (forall x, In x nt -> task_id x = i) -> forall j, j <> i ->
            D (set_tasks s2 ((l1 ++ l2) ++ nt)) j = D s j).
  { intros nt Hnt j Hj. apply D_eq; subst s2; proj; [|fr Hj|fr Hj|fr Hj|fr Hj|fr Hj|fr Hj|fr Hj].
    rewrite E1. apply task_of_rest_other; [cbn; congruence|]. intros x Hx. rewrite (Hnt x Hx). congruence. }
  destruct (pick is_temp rcpts res) as [|r0 temps] eqn:Et.
  - apply (Linv_local s _ i H).
    + subst s2. proj. lia.
    + apply Hframe. intros x [Hx|[]]. subst x. reflexivity.
    + subst s2. Dnorm. rewrite (task_of_rest_same l1 (TAttempt i snd rcpts n) l2 [TPartialRemove i] Nd : task_of ((l1 ++ l2) ++ [TPartialRemove i]) i = _).
      unfold task_of. cbn [find task_id]. rewrite N.eqb_refl.
      rewrite deliv_l_app, deliv_l_new_same, trip_l_app, trip_l_new_same. fold dl' fl'.
      assert (Hall : forall r sf, In (r, sf) (trip_l (g_acc s) i) -> In r dl' \/ In (r, sf) fl').
      { intros r sf Hr. destruct (Hloss r sf Hr) as [A|[A|[m' [A1 A2]]]]; [left; exact A|right; exact A|].
        rewrite Pst in A1. inversion A1; subst m'. rewrite Prc in A2.
        destruct (Hcov r A2) as [C|[C|C]].
        - left. apply (proj1 Hplog). exact C.
        - right. rewrite <- (gs m Pst r sf Hr), Psn. apply (proj2 Hplog). exact C.
        - rewrite Et in C. destruct C. }
      constructor; Dcbn; [exact q1|exact q2|exact gs|exact gn| | | ].
      * intros _. apply gf. apply (touched_task _ (TAttempt i snd rcpts n)). exact Htk.
      * intros r sf Hr. destruct (Hall r sf Hr) as [A|A]; [left; exact A|right; left; exact A].
      * unfold phase_ok. Dcbn. split; [exact Pa|]. split; [exact Pq|]. unfold all_settled. Dcbn. exact Hall.
    + subst s2. proj. apply (nodup_rest_nt l1 (TAttempt i snd rcpts n) l2 [TPartialRemove i] Nd). right. eexists. split; reflexivity.
    + subst s2. proj. apply (l_queued_nodup s H).
  - apply (Linv_local s _ i H).
    + subst s2. proj. lia.
    + apply Hframe. intros x [Hx|[]]. subst x. reflexivity.
    + subst s2. Dnorm.
      rewrite (task_of_rest_same l1 (TAttempt i snd rcpts n) l2 [TRetry1 i snd (r0 :: temps) (Some (rcpts, res))] Nd
               : task_of ((l1 ++ l2) ++ [TRetry1 i snd (r0 :: temps) (Some (rcpts, res))]) i = _).
      unfold task_of. cbn [find task_id]. rewrite N.eqb_refl.
      rewrite deliv_l_app, deliv_l_new_same, trip_l_app, trip_l_new_same. fold dl' fl'.
      constructor; Dcbn; [exact q1|exact q2|exact gs|exact gn| |exact Hloss| ].
      * intros _. apply gf. apply (touched_task _ (TAttempt i snd rcpts n)). exact Htk.
      * unfold phase_ok. Dcbn. split; [exact Pa|]. split; [exact Pq|]. exists m.
        split; [exact Pst|]. split; [exact Prc|]. split; [exact Psn|]. split; [symmetry; exact Et|].
        split; [exact Hcov|]. split; [unfold part_logged; Dcbn; exact Hplog|]. unfold unsettled_all. Dcbn. exact Huns.
    + subst s2. proj. apply (nodup_rest_nt l1 (TAttempt i snd rcpts n) l2 [TRetry1 i snd (r0 :: temps) (Some (rcpts, res))] Nd). right. eexists. split; reflexivity.
    + subst s2. proj. apply (l_queued_nodup s H).
Qed.

(* ---------- EStep: the retry path ---------- *)
Definition keeps (f : msg -> msg) : Prop := forall m, m_sender (f m) = m_sender m /\ m_rcpts (f m) = m_rcpts m.

Lemma aq_new : forall s ts i, mem i (s_qids s) = false -> mem i (s_active s) = false ->
  add_queued s ts i =
  mkState (s_store s) (insort (ts, i) (s_queued s)) (i :: s_qids s) (s_active s) (s_tasks s)
          (notified (s_sched s)) true (s_clock s) (s_next s) (g_acc s) (g_deliv s) (g_fail s) (g_atts s) (g_removed s).
Proof. intros s ts i H1 H2. unfold add_queued. rewrite H1, H2. reflexivity. Qed.

Lemma not_qd_not_in : forall q i, mem i (qids_of q) = false -> ~ In i (qids_of q).
Proof. intros q i H. apply mem_false_In. exact H. Qed.

(* retry bookkeeping continues: the task of i is replaced by another retry task, the store entry
   changes by f which keeps sender and recipients *)
Lemma L_step_continue : forall s i t t' l1 l2 f,
  Linv s -> s_tasks s = l1 ++ t :: l2 -> task_id t = i -> task_id t' = i -> keeps f ->
  (forall m, st_get (s_store s) i = Some m ->
     phase_ok (D s i) -> d_task (D s i) = Some t ->
     phase_ok (mkD (Some t') (mem i (s_active s)) (mem i (s_qids s)) (mem i (qids_of (s_queued s)))
                   (Some (f m)) (deliv_l (g_deliv s) i) (trip_l (g_fail s) i) (trip_l (g_acc s) i))) ->
  st_get (s_store s) i <> None ->
  Linv (set_tasks (set_store (set_tasks s (l1 ++ l2)) (st_upd (s_store s) i f)) ((l1 ++ l2) ++ [t'])).
Proof.
  intros s i t t' l1 l2 f H E1 Ei Ei' Hk Hph Hst.
  destruct (at_member s l1 _ l2 H E1) as [Nd [Htk G]]. rewrite Ei in Htk, G.
  destruct G as [q1 q2 gs gn gf gl gp].
  destruct (st_get (s_store s) i) as [m|] eqn:Eg; [|contradiction].
  apply (Linv_local s _ i H).
  - proj. lia.
  - intros j Hj. apply D_eq; proj; [|fr Hj|fr Hj|fr Hj|fr Hj|fr Hj|fr Hj|fr Hj].
    rewrite E1. apply task_of_rest_other; [congruence|]. intros x [Hx|[]]. subst x. congruence.
  - Dnorm. pose proof (task_of_rest_same l1 t l2 [t'] Nd) as R. rewrite Ei in R. rewrite R.
    unfold task_of. cbn [find]. rewrite Ei', N.eqb_refl. rewrite st_get_upd_same, Eg. cbn [option_map].
    unfold D in q1, q2, gs, gn, gf, gl. Dcbn_in q1. Dcbn_in q2. Dcbn_in gs. Dcbn_in gn. Dcbn_in gl.
    destruct (Hk m) as [K1 K2].
    constructor; Dcbn; [exact q1|exact q2| | | | | ].
    + intros m' Em r sf Hr. inversion Em; subst m'. rewrite K1. apply (gs m Eg r sf Hr).
    + intros m' Em. inversion Em; subst m'. rewrite K2. apply (gn m Eg).
    + intros _. apply gf. apply (touched_task _ t). unfold D. Dcbn. exact Htk.
    + intros r sf Hr. destruct (gl r sf Hr) as [A|[A|[m' [A1 A2]]]]; [left; exact A|right; left; exact A|].
      right. right. exists (f m). split; [reflexivity|]. rewrite Eg in A1. inversion A1; subst m'. rewrite K2. exact A2.
    + apply (Hph m eq_refl gp). unfold D. Dcbn. exact Htk.
  - proj. apply (nodup_rest_nt l1 t l2 [t'] Nd). right. exists t'. split; [reflexivity|congruence].
  - proj. apply (l_queued_nodup s H).
Qed.

(* retry exhausted: the transiently failed recipients are failed for good, the message is removed *)
Lemma L_step_exhaust : forall s i snd rc dl l1 l2 f,
  Linv s -> s_tasks s = l1 ++ TRetry1 i snd rc dl :: l2 -> keeps f -> st_get (s_store s) i <> None ->
  Linv (q_remove (log_fail (set_store (set_tasks s (l1 ++ l2)) (st_upd (s_store s) i f)) i rc snd) i).
Proof.
  intros s i snd rc dl l1 l2 f H E1 Hk Hst.
  destruct (at_member s l1 _ l2 H E1) as [Nd [Htk G]]. cbn [task_id] in Htk, G.
  destruct G as [q1 q2 gs gn gf gl gp]. unfold phase_ok in gp. unfold D in q1, q2, gs, gn, gf, gl, gp. Dcbn_in q1. Dcbn_in q2. Dcbn_in gs. Dcbn_in gn. Dcbn_in gl. Dcbn_in gp.
  rewrite Htk in gp.
  destruct (st_get (s_store s) i) as [m|] eqn:Eg; [|contradiction]. destruct (Hk m) as [K1 K2].
  set (fl' := map (fun r0 => (r0, snd)) rc ++ trip_l (g_fail s) i).
  assert (Hall : forall r sf, In (r, sf) (trip_l (g_acc s) i) -> In r (deliv_l (g_deliv s) i) \/ In (r, sf) fl').
  { intros r sf Hr. pose proof (gs m eq_refl r sf Hr) as Hsf.
    destruct (gl r sf Hr) as [A|[A|[m' [A1 A2]]]]; [left; exact A|right; apply in_app_iff; right; exact A|].
    inversion A1; subst m'.
    destruct dl as [[all res]|].
    - destruct gp as [Pa [Pq [m1 [Pst [Prc [Psn [Erc [Hcov [[Lok Lperm] Pun]]]]]]]]]. inversion Pst; subst m1.
      rewrite Prc in A2. destruct (Hcov r A2) as [C|[C|C]].
      + left. apply Lok. exact C.
      + right. apply in_app_iff. right. rewrite <- Hsf, Psn. apply Lperm. exact C.
      + right. apply in_app_iff. left. rewrite <- Hsf, Psn. apply In_map_pair. rewrite Erc. exact C.
    - destruct gp as [Pa [Pq [m1 [Pst [Prc [Psn Pun]]]]]]. inversion Pst; subst m1.
      right. apply in_app_iff. left. rewrite <- Hsf, Psn. apply In_map_pair. rewrite <- Prc. exact A2. }
  assert (Pq : mem i (qids_of (s_queued s)) = false) by (destruct dl as [[all res]|]; tauto).
  apply (Linv_local s _ i H).
  - proj. lia.
  - intros j Hj. apply D_eq; proj; [frame_tasks E1 Hj|fr Hj|fr Hj|fr Hj|fr Hj|fr Hj|fr Hj|fr Hj].
  - Dnorm. rewrite (task_of_rest_same l1 (TRetry1 i snd rc dl) l2 [TRemove i] Nd : task_of ((l1 ++ l2) ++ [TRemove i]) i = _).
    unfold task_of. cbn [find task_id]. rewrite N.eqb_refl.
    rewrite !mem_del_same. rewrite st_get_upd_same, Eg. cbn [option_map]. rewrite trip_l_app, trip_l_new_same. fold fl'.
    constructor; Dcbn.
    + intro Hq. rewrite Pq in Hq. discriminate.
    + discriminate.
    + intros m' Em r sf Hr. inversion Em; subst m'. rewrite K1. apply (gs m eq_refl r sf Hr).
    + intros m' Em. inversion Em; subst m'. rewrite K2. apply (gn m eq_refl).
    + intros _. apply gf. apply (touched_task _ (TRetry1 i snd rc dl)). exact Htk.
    + intros r sf Hr. destruct (Hall r sf Hr) as [A|A]; [left; exact A|right; left; exact A].
    + unfold phase_ok. Dcbn. split; [reflexivity|]. split; [exact Pq|]. unfold all_settled. Dcbn. exact Hall.
  - proj. apply (nodup_rest_nt l1 (TRetry1 i snd rc dl) l2 [TRemove i] Nd). right. eexists. split; reflexivity.
  - proj. apply (l_queued_nodup s H).
Qed.

(* last step of the retry path: the store entry changes by f (its recipients become rc'),
   the id leaves active_ids and enters the timetable *)
Lemma L_step_final : forall s i t l1 l2 f when rc',
  Linv s -> s_tasks s = l1 ++ t :: l2 -> task_id t = i ->
  (forall m, m_sender (f m) = m_sender m) ->
  (forall m, st_get (s_store s) i = Some m -> good (s_next s) i (D s i) -> d_task (D s i) = Some t ->
     d_qd (D s i) = false /\ m_rcpts (f m) = rc' /\ NoDup rc' /\
     (forall r, In r rc' -> ~ In r (deliv_l (g_deliv s) i) /\ forall b, ~ In (r, b) (trip_l (g_fail s) i)) /\
     (forall r sf, In (r, sf) (trip_l (g_acc s) i) -> In r (m_rcpts m) ->
        In r rc' \/ In r (deliv_l (g_deliv s) i) \/ In (r, sf) (trip_l (g_fail s) i))) ->
  st_get (s_store s) i <> None ->
  let s1 := set_store (set_tasks s (l1 ++ l2)) (st_upd (s_store s) i f) in
  Linv (add_queued (set_active s1 (del i (s_active s1))) when i).
Proof.
  intros s i t l1 l2 f when rc' H E1 Ei Hsn Hph Hst s1.
  destruct (at_member s l1 _ l2 H E1) as [Nd [Htk G]]. rewrite Ei in Htk, G.
  pose proof G as G0. destruct G as [q1 q2 gs gn gf gl gp].
  destruct (st_get (s_store s) i) as [m|] eqn:Eg; [|contradiction].
  assert (HtkD : d_task (D s i) = Some t) by (unfold D; Dcbn; exact Htk).
  destruct (Hph m eq_refl G0 HtkD) as [Pq [Prc [Pnd [Pun Pcov]]]].
  unfold D in q1, q2, gs, gn, gf, gl, Pq. Dcbn_in q1. Dcbn_in q2. Dcbn_in gs. Dcbn_in gn. Dcbn_in gl. Dcbn_in Pq.
  assert (Pqi : mem i (s_qids s) = false).
  { destruct (mem i (s_qids s)) eqn:E; [|reflexivity]. rewrite (q2 eq_refl) in Pq. discriminate. }
  rewrite aq_new; [|subst s1; proj; exact Pqi|subst s1; proj; apply mem_del_same].
  subst s1. proj.
  apply (Linv_local s _ i H).
  - proj. lia.
  - intros j Hj. apply D_eq; proj; [| fr Hj | fr Hj | apply mem_qids_insort_other; exact Hj |fr Hj|fr Hj|fr Hj|fr Hj].
    rewrite E1. rewrite <- (app_nil_r (l1 ++ l2)). apply task_of_rest_other; [congruence|intros x []].
  - unfold D. proj. Dcbn.
    pose proof (task_of_rest_same l1 t l2 [] Nd) as R. rewrite Ei, app_nil_r in R. rewrite R.
    unfold task_of. cbn [find]. rewrite mem_del_same. cbn [mem]. rewrite N.eqb_refl. cbn [orb].
    rewrite mem_qids_insort_same. rewrite st_get_upd_same, Eg. cbn [option_map].
    constructor; Dcbn.
    + intros _. split; reflexivity.
    + reflexivity.
    + intros m' Em r sf Hr. inversion Em; subst m'. rewrite Hsn. apply (gs m Eg r sf Hr).
    + intros m' Em. inversion Em; subst m'. rewrite Prc. exact Pnd.
    + intros _. apply gf. apply (touched_task _ t). exact HtkD.
    + intros r sf Hr. destruct (gl r sf Hr) as [A|[A|[m' [A1 A2]]]]; [left; exact A|right; left; exact A|].
      rewrite Eg in A1. inversion A1; subst m'. destruct (Pcov r sf Hr A2) as [C|[C|C]].
      * right. right. exists (f m). split; [reflexivity|rewrite Prc; exact C].
      * left. exact C.
      * right. left. exact C.
    + unfold phase_ok. Dcbn. split; [discriminate|]. split; [|reflexivity].
      intros m' Em. inversion Em; subst m'. unfold unsettled_all. Dcbn. rewrite Prc. exact Pun.
  - proj. rewrite <- (app_nil_r (l1 ++ l2)). apply (nodup_rest_nt l1 t l2 [] Nd). left. reflexivity.
  - proj. apply qids_insort_nodup; [apply (l_queued_nodup s H)|apply not_qd_not_in; exact Pq].
Qed.

(* ---------- EWrite / EEnqDone / EGet / ERemove / EAnnounce ---------- *)
Lemma untouched_of_fresh : forall s i, Linv s -> s_next s <= i ->
  task_of (s_tasks s) i = None /\ mem i (s_active s) = false /\ mem i (s_qids s) = false /\
  mem i (qids_of (s_queued s)) = false /\ st_get (s_store s) i = None /\
  deliv_l (g_deliv s) i = [] /\ trip_l (g_fail s) i = [] /\ trip_l (g_acc s) i = [].
Proof.
  intros s i H Hn. pose proof (g_fresh _ _ _ (l_good s H i)) as F. unfold touched, D in F. Dcbn_in F.
  repeat split.
  - destruct (task_of (s_tasks s) i) eqn:E; [|reflexivity]. exfalso. assert (i < s_next s) by (apply F; left; discriminate). lia.
  - destruct (mem i (s_active s)) eqn:E; [|reflexivity]. exfalso. assert (i < s_next s) by (apply F; right; left; reflexivity). lia.
  - destruct (mem i (s_qids s)) eqn:E; [|reflexivity]. exfalso. assert (i < s_next s) by (apply F; right; right; left; reflexivity). lia.
  - destruct (mem i (qids_of (s_queued s))) eqn:E; [|reflexivity]. exfalso. assert (i < s_next s) by (apply F; right; right; right; left; reflexivity). lia.
  - destruct (st_get (s_store s) i) eqn:E; [|reflexivity]. exfalso. assert (i < s_next s) by (apply F; right; right; right; right; left; discriminate). lia.
  - destruct (deliv_l (g_deliv s) i) eqn:E; [reflexivity|]. exfalso. assert (i < s_next s) by (apply F; do 6 right; left; discriminate). lia.
  - destruct (trip_l (g_fail s) i) eqn:E; [reflexivity|]. exfalso. assert (i < s_next s) by (apply F; do 7 right; discriminate). lia.
  - destruct (trip_l (g_acc s) i) eqn:E; [reflexivity|]. exfalso. assert (i < s_next s) by (apply F; do 5 right; left; discriminate). lia.
Qed.

Lemma NoDup_app_snoc' : forall (l : list N) x, NoDup l -> ~ In x l -> NoDup (l ++ [x]).
Proof.
  induction l as [|y l IH]; intros x Hn Hx; cbn; [constructor; [intros []|constructor]|].
  inversion Hn as [|? ? Hy Hl]; subst. constructor.
  - intro Hi. apply in_app_iff in Hi. destruct Hi as [Hi|[Hi|[]]]; [contradiction|]. subst. apply Hx. left. reflexivity.
  - apply IH; [assumption|]. intro Hi. apply Hx. right. exact Hi.
Qed.

Lemma L_write : forall s sender rcpts ts, Linv s -> NoDup rcpts -> Linv (step s (EWrite sender rcpts ts)).
Proof.
  intros s sender rcpts ts H Hnd. unfold step. set (n := s_next s).
  destruct (untouched_of_fresh s n H (N.le_refl _)) as [U1 [U2 [U3 [U4 [U5 [U6 [U7 U8]]]]]]].
  apply (Linv_local s _ n H).
  - proj. lia.
  - intros j Hj. apply D_eq; proj.
    + rewrite task_of_app. destruct (task_of (s_tasks s) j); [reflexivity|]. unfold task_of. cbn [find task_id].
      destruct (N.eqb_spec n j); [congruence|reflexivity].
    + reflexivity.
    + reflexivity.
    + reflexivity.
    + cbn [st_get]. destruct (N.eqb_spec j n); [contradiction|reflexivity].
    + reflexivity.
    + reflexivity.
    + rewrite trip_l_app, trip_l_new_other by congruence. reflexivity.
  - unfold D. proj. Dcbn. rewrite task_of_app, U1. unfold task_of. cbn [find task_id st_get]. rewrite !N.eqb_refl.
    rewrite U2, U3, U4, U6, U7. rewrite trip_l_app, trip_l_new_same, U8, app_nil_r.
    constructor; Dcbn.
    + discriminate.
    + discriminate.
    + intros m Em r sf Hr. inversion Em; subst m. cbn. apply In_map_pair_any in Hr. destruct Hr as [_ E]. symmetry. exact E.
    + intros m Em. inversion Em; subst m. exact Hnd.
    + intros _. subst n. lia.
    + intros r sf Hr. right. right. eexists. split; [reflexivity|]. cbn. apply In_map_pair_any in Hr. tauto.
    + unfold phase_ok. Dcbn. split; [reflexivity|]. split; [reflexivity|]. eexists. split; [reflexivity|]. cbn.
      split; [reflexivity|]. split; [reflexivity|]. unfold unsettled_all. Dcbn. intros r _. split; [intros []|intros b []].
  - proj. unfold all_ids. rewrite map_app. cbn. apply NoDup_app_snoc'.
    + apply (l_tasks_nodup s H).
    + apply task_of_none. exact U1.
  - proj. apply (l_queued_nodup s H).
Qed.

Lemma L_enq_done : forall s i snd rcpts l1 l2,
  Linv s -> s_tasks s = l1 ++ TEnq i snd rcpts :: l2 ->
  mem i (s_active s) = false /\
  Linv (log_att (set_tasks (set_active (set_tasks s (l1 ++ l2)) (i :: s_active s)) ((l1 ++ l2) ++ [TAttempt i snd rcpts 0]))
                (mkAtt i rcpts 0 (s_clock s) CEnqueue)).
Proof.
  intros s i snd rcpts l1 l2 H E1.
  destruct (at_member s l1 _ l2 H E1) as [Nd [Htk G]]. cbn [task_id] in Htk, G.
  destruct G as [q1 q2 gs gn gf gl gp]. unfold phase_ok in gp. unfold D in q1, q2, gs, gn, gf, gl, gp. Dcbn_in q1. Dcbn_in q2. Dcbn_in gs. Dcbn_in gn. Dcbn_in gl. Dcbn_in gp.
  rewrite Htk in gp. destruct gp as [Pa [Pq [m [Pst [Prc [Psn Pun]]]]]].
  split; [exact Pa|].
  apply (Linv_local s _ i H).
  - proj. lia.
  - intros j Hj. apply D_eq; unfold log_att; proj; [frame_tasks E1 Hj|fr Hj|fr Hj|fr Hj|fr Hj|fr Hj|fr Hj|fr Hj].
  - unfold log_att. Dnorm. rewrite (task_of_rest_same l1 (TEnq i snd rcpts) l2 [TAttempt i snd rcpts 0] Nd : task_of ((l1 ++ l2) ++ [TAttempt i snd rcpts 0]) i = _).
    unfold task_of. cbn [find task_id mem]. rewrite N.eqb_refl. cbn [orb].
    constructor; Dcbn.
    + intro Hq. rewrite Pq in Hq. discriminate.
    + exact q2.
    + exact gs.
    + exact gn.
    + intros _. apply gf. apply (touched_task _ (TEnq i snd rcpts)). exact Htk.
    + exact gl.
    + unfold phase_ok. Dcbn. split; [reflexivity|]. split; [exact Pq|]. exists m. auto.
  - unfold log_att. proj. apply (nodup_rest_nt l1 (TEnq i snd rcpts) l2 [TAttempt i snd rcpts 0] Nd). right. eexists. split; reflexivity.
  - unfold log_att. proj. apply (l_queued_nodup s H).
Qed.

Lemma L_get : forall s i c l1 l2,
  Linv s -> s_tasks s = l1 ++ TDequeue i c :: l2 ->
  Linv (match st_get (s_store s) i with
        | None => set_active (set_tasks s (l1 ++ l2)) (del i (s_active s))
        | Some m => log_att (set_tasks (set_tasks s (l1 ++ l2)) ((l1 ++ l2) ++ [TAttempt i (m_sender m) (m_rcpts m) (m_attempts m)]))
                            (mkAtt i (m_rcpts m) (m_attempts m) (s_clock s) c)
        end) /\
  (forall m, st_get (s_store s) i = Some m -> unsettled_all (D s i) (m_rcpts m)).
Proof.
  intros s i c l1 l2 H E1.
  destruct (at_member s l1 _ l2 H E1) as [Nd [Htk G]]. cbn [task_id] in Htk, G.
  destruct G as [q1 q2 gs gn gf gl gp]. unfold phase_ok in gp. unfold D in q1, q2, gs, gn, gf, gl, gp. Dcbn_in q1. Dcbn_in q2. Dcbn_in gs. Dcbn_in gn. Dcbn_in gl. Dcbn_in gp.
  rewrite Htk in gp. destruct gp as [Pa [Pq Pun]].
  split; [|exact Pun].
  destruct (st_get (s_store s) i) as [m|] eqn:Eg.
  - apply (Linv_local s _ i H).
    + unfold log_att. proj. lia.
    + intros j Hj. apply D_eq; unfold log_att; proj; [frame_tasks E1 Hj|fr Hj|fr Hj|fr Hj|fr Hj|fr Hj|fr Hj|fr Hj].
    + unfold log_att. Dnorm.
      rewrite (task_of_rest_same l1 (TDequeue i c) l2 [TAttempt i (m_sender m) (m_rcpts m) (m_attempts m)] Nd
               : task_of ((l1 ++ l2) ++ [TAttempt i (m_sender m) (m_rcpts m) (m_attempts m)]) i = _).
      unfold task_of. cbn [find task_id]. rewrite N.eqb_refl. rewrite Eg.
      constructor; Dcbn; [exact q1|exact q2|exact gs|exact gn| |exact gl| ].
      * intros _. apply gf. apply (touched_task _ (TDequeue i c)). exact Htk.
      * unfold phase_ok. Dcbn. split; [exact Pa|]. split; [exact Pq|]. exists m.
        split; [reflexivity|]. split; [reflexivity|]. split; [reflexivity|]. apply (Pun m eq_refl).
    + unfold log_att. proj. apply (nodup_rest_nt l1 (TDequeue i c) l2 [TAttempt i (m_sender m) (m_rcpts m) (m_attempts m)] Nd). right. eexists. split; reflexivity.
    + unfold log_att. proj. apply (l_queued_nodup s H).
  - apply (Linv_local s _ i H).
    + proj. lia.
    + intros j Hj. apply D_eq; proj; [|fr Hj|fr Hj|fr Hj|fr Hj|fr Hj|fr Hj|fr Hj].
      rewrite E1. rewrite <- (app_nil_r (l1 ++ l2)). apply task_of_rest_other; [cbn; congruence|intros x []].
    + Dnorm. pose proof (task_of_rest_same l1 (TDequeue i c) l2 [] Nd) as R. cbn [task_id] in R. rewrite app_nil_r in R. rewrite R.
      unfold task_of. cbn [find]. rewrite mem_del_same, Eg.
      constructor; Dcbn.
      * intro Hq. rewrite Pq in Hq. discriminate.
      * exact q2.
      * intros m Em. discriminate.
      * intros m Em. discriminate.
      * intros _. apply gf. apply (touched_task _ (TDequeue i c)). exact Htk.
      * exact gl.
      * unfold phase_ok. Dcbn. split; [reflexivity|]. split; [intros m Em; discriminate|]. intro Hx. contradiction.
    + proj. rewrite <- (app_nil_r (l1 ++ l2)). apply (nodup_rest_nt l1 (TDequeue i c) l2 [] Nd). left. reflexivity.
    + proj. apply (l_queued_nodup s H).
Qed.

Lemma L_remove : forall s i t l1 l2,
  Linv s -> s_tasks s = l1 ++ t :: l2 -> is_rm i t = true ->
  Linv (mkState (st_del (s_store s) i) (s_queued s) (s_qids s) (s_active s) (l1 ++ l2) (s_sched s) (s_wake s)
                (s_clock s) (s_next s) (g_acc s) (g_deliv s) (g_fail s) (g_atts s) (i :: g_removed s)) /\
  all_settled (D s i).
Proof.
  intros s i t l1 l2 H E1 Hrm. apply is_rm_id in Hrm. destruct Hrm as [Ei [_ Hr]].
  destruct (at_member s l1 _ l2 H E1) as [Nd [Htk G]]. rewrite Ei in Htk, G.
  destruct G as [q1 q2 gs gn gf gl gp]. unfold phase_ok in gp. unfold D in q1, q2, gs, gn, gf, gl, gp. Dcbn_in q1. Dcbn_in q2. Dcbn_in gs. Dcbn_in gn. Dcbn_in gl. Dcbn_in gp.
  rewrite Htk in gp.
  assert (P : (mem i (s_active s) = true -> True) /\ mem i (qids_of (s_queued s)) = false /\ all_settled (D s i)).
  { destruct t; cbn in Hr; try discriminate; destruct gp as [Pa [Pq Pall]]; (split; [auto|split; [exact Pq|unfold all_settled, D; Dcbn; exact Pall]]). }
  destruct P as [_ [Pq Pall]]. split; [|exact Pall].
  assert (Pact : d_task (D s i) = Some t -> (mem i (s_active s) = true -> st_get (st_del (s_store s) i) i = None)).
  { intros _ _. apply st_get_del_same. }
  apply (Linv_local s _ i H).
  - proj. lia.
  - intros j Hj. apply D_eq; proj; [|fr Hj|fr Hj|fr Hj|fr Hj|fr Hj|fr Hj|fr Hj].
    rewrite E1. rewrite <- (app_nil_r (l1 ++ l2)). apply task_of_rest_other; [congruence|intros x []].
  - unfold D. proj. Dcbn. pose proof (task_of_rest_same l1 t l2 [] Nd) as R. rewrite Ei, app_nil_r in R. rewrite R.
    unfold task_of. cbn [find]. rewrite st_get_del_same.
    constructor; Dcbn.
    + exact q1.
    + exact q2.
    + intros m Em. discriminate.
    + intros m Em. discriminate.
    + intros _. apply gf. apply (touched_task _ t). unfold D. Dcbn. exact Htk.
    + intros r sf Hr0. unfold all_settled, D in Pall. Dcbn_in Pall. destruct (Pall r sf Hr0) as [A|A]; [left; exact A|right; left; exact A].
    + unfold phase_ok. Dcbn. split; [reflexivity|]. split; [intros m Em; discriminate|]. intro Hx. contradiction.
  - proj. rewrite <- (app_nil_r (l1 ++ l2)). apply (nodup_rest_nt l1 t l2 [] Nd). left. reflexivity.
  - proj. apply (l_queued_nodup s H).
Qed.

Lemma L_announce : forall s ts i, Linv s -> ev_ok s (EAnnounce ts i) -> Linv (add_queued s ts i).
Proof.
  intros s ts i H [Hlt Hok].
  destruct (mem i (s_qids s) || mem i (s_active s)) eqn:Eb.
  - unfold add_queued. rewrite Eb. exact H.
  - apply orb_false_iff in Eb. destruct Eb as [Eq Ea]. rewrite aq_new by assumption.
    pose proof (l_good s H i) as G. destruct G as [q1 q2 gs gn gf gl gp]. unfold phase_ok in gp. unfold D in q1, q2, gs, gn, gf, gl, gp. Dcbn_in q1. Dcbn_in q2. Dcbn_in gs. Dcbn_in gn. Dcbn_in gl. Dcbn_in gp.
    assert (Pq : mem i (qids_of (s_queued s)) = false).
    { destruct (mem i (qids_of (s_queued s))) eqn:E; [|reflexivity]. destruct (q1 eq_refl) as [A _]. rewrite A in Eq. discriminate. }
    assert (Htk : task_of (s_tasks s) i = None).
    { destruct (task_of (s_tasks s) i) as [t|] eqn:Et; [|reflexivity]. exfalso.
      destruct t; try (destruct Hok); try (destruct gp as [Pa _]; rewrite Pa in Ea; discriminate).
      - destruct dl as [[all res]|]; destruct gp as [Pa _]; rewrite Pa in Ea; discriminate.
      - destruct dl as [[all res]|]; destruct gp as [Pa _]; rewrite Pa in Ea; discriminate. }
    rewrite Htk in gp. destruct gp as [P1 [P2 P3]].
    apply (Linv_local s _ i H).
    + proj. lia.
    + intros j Hj. apply D_eq; proj; [reflexivity|reflexivity|apply mem_cons_other; exact Hj|apply mem_qids_insort_other; exact Hj|reflexivity|reflexivity|reflexivity|reflexivity].
    + unfold D. proj. Dcbn. rewrite Htk, Ea. cbn [mem]. rewrite N.eqb_refl. cbn [orb]. rewrite mem_qids_insort_same.
      constructor; Dcbn.
      * intros _. split; reflexivity.
      * reflexivity.
      * exact gs.
      * exact gn.
      * intros _. exact Hlt.
      * exact gl.
      * unfold phase_ok. Dcbn. split; [discriminate|]. split; [exact P2|]. reflexivity.
    + proj. apply (l_tasks_nodup s H).
    + proj. apply qids_insort_nodup; [apply (l_queued_nodup s H)|apply not_qd_not_in; exact Pq].
Qed.

(* ---------- ETick / EFlush: a batch of timetable entries is dispatched ---------- *)
Lemma dispatch_not_active : forall s i c, mem i (s_active s) = false ->
  dispatch s i c = set_tasks (set_active s (i :: s_active s)) (s_tasks s ++ [TDequeue i c]).
Proof. intros s i c H. unfold dispatch. rewrite H. reflexivity. Qed.

Lemma fold_dispatch_fresh : forall (f : time * id -> cause) d s,
  (forall e, In e d -> mem (snd e) (s_active s) = false) -> NoDup (map snd d) ->
  fold_left (fun s e => dispatch s (snd e) (f e)) d s =
  set_tasks (set_active s (rev (map snd d) ++ s_active s)) (s_tasks s ++ map (fun e => TDequeue (snd e) (f e)) d).
Proof.
  induction d as [|e d IH]; intros s Ha Hn; cbn [fold_left map rev].
  - cbn. rewrite app_nil_r. destruct s; reflexivity.
  - pose proof (dispatch_not_active s (snd e) (f e) (Ha e (or_introl eq_refl))) as Ed.
    inversion Hn as [|? ? Hx Hn']; subst.
    transitivity (fold_left (fun s e => dispatch s (snd e) (f e)) d
                    (set_tasks (set_active s (snd e :: s_active s)) (s_tasks s ++ [TDequeue (snd e) (f e)]))).
    { f_equal. exact Ed. }
    rewrite IH.
    + proj. rewrite <- !app_assoc. cbn [app]. unfold set_tasks, set_active. cbn. reflexivity.
    + intros e' He'. proj. cbn [mem]. rewrite (Ha e' (or_intror He')).
      destruct (N.eqb_spec (snd e') (snd e)) as [E|E]; [|reflexivity].
      exfalso. apply Hx. rewrite <- E. apply in_map. exact He'.
    + exact Hn'.
Qed.

Lemma mem_app : forall x a b, mem x (a ++ b) = mem x a || mem x b.
Proof. induction a as [|y a IH]; intro b; cbn; [reflexivity|]. rewrite IH. apply orb_assoc. Qed.

Lemma mem_rev : forall x l, mem x (rev l) = mem x l.
Proof.
  intros x l. destruct (mem x l) eqn:E.
  - apply mem_In. apply -> in_rev. apply mem_In. exact E.
  - apply mem_false_In. intro Hi. apply in_rev in Hi. apply mem_In in Hi. congruence.
Qed.

Lemma task_of_map_dq : forall (f : time * id -> cause) d j,
  task_of (map (fun e => TDequeue (snd e) (f e)) d) j =
  match find (fun e => snd e =? j) d with Some e => Some (TDequeue (snd e) (f e)) | None => None end.
Proof.
  intros f d j. unfold task_of. induction d as [|e d IH]; cbn [map find task_id]; [reflexivity|].
  unfold id, time in *. destruct (N.eqb (snd e) j) eqn:E; [reflexivity|exact IH].
Qed.

Lemma nodup_app_inv : forall (a b : list N), NoDup (a ++ b) ->
  NoDup a /\ NoDup b /\ (forall x, In x a -> ~ In x b).
Proof.
  induction a as [|y a IH]; intros b H; cbn in *.
  - split; [constructor|]. split; [exact H|intros x []].
  - inversion H as [|? ? Hy Hab]; subst. destruct (IH b Hab) as [A [B C]]. split; [|split; [exact B|]].
    + constructor; [|exact A]. intro Hi. apply Hy. apply in_app_iff. left. exact Hi.
    + intros x [Hx|Hx] Hb; [subst; apply Hy; apply in_app_iff; right; exact Hb|apply (C x Hx Hb)].
Qed.

Lemma nodup_app_intro : forall (a b : list N), NoDup a -> NoDup b -> (forall x, In x b -> ~ In x a) -> NoDup (a ++ b).
Proof.
  induction a as [|y a IH]; intros b Ha Hb Hd; cbn; [exact Hb|].
  inversion Ha as [|? ? Hy Ha']; subst. constructor.
  - intro Hi. apply in_app_iff in Hi. destruct Hi as [Hi|Hi]; [contradiction|]. apply (Hd y Hi). left. reflexivity.
  - apply IH; [exact Ha'|exact Hb|]. intros x Hx Hi. apply (Hd x Hx). right. exact Hi.
Qed.

Lemma L_dispatch_all : forall (f : time * id -> cause) d r s,
  Linv s -> s_queued s = d ++ r ->
  Linv (set_queue (fold_left (fun s e => dispatch s (snd e) (f e)) d s) r (qids_of r)).
Proof.
  intros f d r s H Eq.
  pose proof (l_queued_nodup s H) as Nq. rewrite Eq in Nq. unfold qids_of in Nq. rewrite map_app in Nq.
  destruct (nodup_app_inv _ _ Nq) as [Nd_d [Nd_r Hdisj]].
  (* what the invariant says about the ids being dispatched *)
  assert (Hd : forall e, In e d ->
            mem (snd e) (s_active s) = false /\ task_of (s_tasks s) (snd e) = None /\
            (forall m, st_get (s_store s) (snd e) = Some m -> unsettled_all (D s (snd e)) (m_rcpts m))).
  { intros e He. pose proof (l_good s H (snd e)) as G. destruct G as [q1 q2 gs gn gf gl gp].
    unfold phase_ok in gp. unfold D in q1, gp. Dcbn_in q1. Dcbn_in gp.
    assert (Hqd : mem (snd e) (qids_of (s_queued s)) = true).
    { apply mem_In. rewrite Eq. unfold qids_of. rewrite map_app. apply in_app_iff. left. apply in_map. exact He. }
    destruct (q1 Hqd) as [_ Ha]. split; [exact Ha|].
    destruct (task_of (s_tasks s) (snd e)) as [t|] eqn:Et.
    - exfalso. destruct t; try (destruct gp as [_ [Pq _]]; rewrite Pq in Hqd; discriminate).
      + destruct dl as [[all res]|]; destruct gp as [_ [Pq _]]; rewrite Pq in Hqd; discriminate.
      + destruct dl as [[all res]|]; destruct gp as [_ [Pq _]]; rewrite Pq in Hqd; discriminate.
    - split; [reflexivity|]. destruct gp as [_ [P2 _]]. unfold unsettled_all, D. Dcbn. exact P2. }
  rewrite fold_dispatch_fresh; [|intros e He; apply (proj1 (Hd e He))|exact Nd_d].
  constructor.
  - intro j. unfold D. proj. Dcbn.
    rewrite task_of_app, task_of_map_dq, mem_app, mem_rev.
    destruct (find (fun e => snd e =? j) d) as [e|] eqn:Ef.
    + (* j is being dispatched *)
      apply find_some in Ef. destruct Ef as [He Ej]. apply N.eqb_eq in Ej. subst j.
      destruct (Hd e He) as [Ha [Ht Hu]]. unfold id, time in *. rewrite Ht.
      assert (Hin : mem (snd e) (map snd d) = true) by (apply mem_In; apply in_map; exact He).
      rewrite Hin. cbn [orb].
      assert (Hnr : mem (snd e) (qids_of r) = false) by (apply mem_false_In; apply Hdisj; apply in_map; exact He).
      rewrite Hnr.
      pose proof (l_good s H (snd e)) as G. destruct G as [q1 q2 gs gn gf gl gp].
      unfold D in gs, gn, gf, gl. Dcbn_in gs. Dcbn_in gn. Dcbn_in gl.
      constructor; Dcbn.
      * discriminate.
      * discriminate.
      * exact gs.
      * exact gn.
      * intros _. apply gf. unfold touched, D. Dcbn. right. right. right. left.
        apply mem_In. rewrite Eq. unfold qids_of. rewrite map_app. apply in_app_iff. left. apply in_map. exact He.
      * exact gl.
      * unfold phase_ok. Dcbn. split; [reflexivity|]. split; [reflexivity|]. exact Hu.
    + (* j untouched: only queued_ids is recomputed, to the same membership *)
      assert (Hnd : mem j (map snd d) = false).
      { apply mem_false_In. intro Hi. apply in_map_iff in Hi. destruct Hi as [e [E He]].
        apply (find_none _ _ Ef e) in He. cbn beta in He. unfold id, time in *. rewrite E, N.eqb_refl in He. discriminate. }
      unfold id, time in *. rewrite Hnd. cbn [orb].
      pose proof (l_good s H j) as G.
      assert (Eqd : mem j (qids_of (s_queued s)) = mem j (qids_of r)).
      { rewrite Eq. unfold qids_of, id, time in *. rewrite map_app, mem_app, Hnd. reflexivity. }
      assert (Eqi : mem j (s_qids s) = mem j (qids_of r)).
      { rewrite <- Eqd. destruct G as [q1 q2 _ _ _ _ _]. unfold D in q1, q2. Dcbn_in q1. Dcbn_in q2.
        destruct (mem j (s_qids s)) eqn:E1; destruct (mem j (qids_of (s_queued s))) eqn:E2; try reflexivity.
        - discriminate (q2 eq_refl).
        - destruct (q1 eq_refl) as [A _]. discriminate A. }
      destruct (task_of (s_tasks s) j) eqn:Et; unfold D in G; rewrite Et, Eqd, Eqi in G; exact G.
  - proj. unfold all_ids. rewrite map_app, map_map. cbn [task_id].
    apply nodup_app_intro; [apply (l_tasks_nodup s H)|exact Nd_d|].
    intros x Hx Hi. apply in_map_iff in Hx. destruct Hx as [e [E He]]. subst x.
    destruct (Hd e He) as [_ [Ht _]]. apply task_of_none in Ht. contradiction.
  - proj. exact Nd_r.
Qed.

(* ---------- the step lemma ---------- *)
Lemma Linv_ext : forall s s', Linv s -> s_tasks s' = s_tasks s -> s_active s' = s_active s -> s_qids s' = s_qids s ->
  s_queued s' = s_queued s -> s_store s' = s_store s -> g_deliv s' = g_deliv s -> g_fail s' = g_fail s ->
  g_acc s' = g_acc s -> s_next s' = s_next s -> Linv s'.
Proof.
  intros s s' H E1 E2 E3 E4 E5 E6 E7 E8 E9. destruct H as [Hg N1 N2]. constructor.
  - intro i. unfold D. rewrite E1, E2, E3, E4, E5, E6, E7, E8, E9. apply Hg.
  - rewrite E1. exact N1.
  - rewrite E4. exact N2.
Qed.

Lemma pick_ext : forall p q rs res, (forall x, p x = q x) -> pick p rs res = pick q rs res.
Proof.
  intros p q rs. induction rs as [|r rs IH]; intros res H; cbn; [reflexivity|].
  rewrite H. rewrite (IH _ H). reflexivity.
Qed.

Definition f_incr (m : msg) : msg := mkMsg (m_sender m) (m_rcpts m) (m_attempts m + 1) (m_ts m).
Definition f_ts (w : time) (m : msg) : msg := mkMsg (m_sender m) (m_rcpts m) (m_attempts m) w.
Definition f_deliv (res : list rres) (m : msg) : msg := mkMsg (m_sender m) (unsettled (m_rcpts m) res) (m_attempts m) (m_ts m).

Lemma step_L : forall s e, Linv s -> ev_ok s e -> Linv (step s e).
Proof.
  intros s e H Hok. destruct e.
  - (* EWrite *) apply L_write; [exact H|exact Hok].
  - (* EEnqDone *)
    unfold step. destruct (take_task (is_enq i) (s_tasks s)) as [[t rest]|] eqn:T; [|exact H].
    destruct t; try exact H.
    apply take_task_spec in T. destruct T as [Hp [l1 [l2 [E1 E2]]]].
    apply is_enq_id in Hp. destruct Hp as [Hid _]. cbn in Hid. subst i0 rest.
    destruct (L_enq_done s i snd rcpts l1 l2 H E1) as [Ha HL]. proj. rewrite Ha. exact HL.
  - (* ERelay *)
    unfold step. destruct (take_task (is_attempt i) (s_tasks s)) as [[t rest]|] eqn:T; [|exact H].
    destruct t; try exact H.
    apply take_task_spec in T. destruct T as [Hp [l1 [l2 [E1 E2]]]].
    apply is_attempt_id in Hp. destruct Hp as [Hid _]. cbn in Hid. subst i0 rest.
    destruct o.
    + apply (L_relay_ok s i snd rcpts n l1 l2 H E1).
    + apply (L_relay_temp s i snd rcpts n l1 l2 H E1).
    + apply (L_relay_perm s i snd rcpts n l1 l2 H E1).
    + apply (L_relay_temp s i snd rcpts n l1 l2 H E1).
    + destruct (at_member s l1 _ l2 H E1) as [_ [Htk _]]. cbn [task_id] in Htk.
      apply (L_relay_partial s i snd rcpts n l1 l2 res H E1). apply (Hok snd rcpts n Htk).
  - (* EStep *)
    unfold step. destruct (take_task (is_retry i) (s_tasks s)) as [[t rest]|] eqn:T; [|exact H].
    apply take_task_spec in T. destruct T as [Hp [l1 [l2 [E1 E2]]]].
    pose proof Hp as Hp0. apply is_retry_id in Hp. destruct Hp as [Hid _]. subst rest.
    destruct (at_member s l1 _ l2 H E1) as [Nd [Htk G]]. rewrite Hid in Htk, G.
    assert (Hst : st_get (s_store s) i <> None).
    { destruct G as [_ _ _ _ _ _ gp]. unfold phase_ok, D in gp. Dcbn_in gp. rewrite Htk in gp.
      destruct t; cbn in Hp0; try discriminate.
      - destruct dl as [[all res]|]; destruct gp as [_ [_ [m [E _]]]]; rewrite E; discriminate.
      - destruct dl as [[all res]|]; destruct gp as [_ [_ [m [E _]]]]; rewrite E; discriminate.
      - destruct gp as [_ [_ [m [E _]]]]; rewrite E; discriminate. }
    destruct (st_get (s_store s) i) as [m0|] eqn:Eg; [|contradiction].
    destruct t; cbn in Hp0; try discriminate; cbn in Hid; subst i0.
    + (* TRetry1 *)
      destruct b as [w|].
      * apply (L_step_continue s i _ (TRetry2 i rcpts dl (s_clock s + w)) l1 l2 f_incr H E1 eq_refl eq_refl).
        -- intro m. split; reflexivity.
        -- intros m Em Hph Htk'. rewrite Eg in Em. inversion Em; subst m. unfold phase_ok in *. Dcbn. rewrite Htk' in Hph.
           destruct dl as [[all res]|].
           ++ destruct Hph as [Pa [Pq [m [Pst [Prc [Psn [Erc [Hcov [Hlog Pun]]]]]]]]].
              unfold D in Pst. Dcbn_in Pst. rewrite Eg in Pst. inversion Pst; subst m.
              split; [exact Pa|]. split; [exact Pq|]. exists (f_incr m0). split; [reflexivity|]. split; [exact Prc|].
              split; [cbn [f_incr m_sender]; rewrite Psn; exact Hlog|exact Pun].
           ++ destruct Hph as [Pa [Pq [m [Pst [Prc [Psn Pun]]]]]].
              unfold D in Pst. Dcbn_in Pst. rewrite Eg in Pst. inversion Pst; subst m.
              split; [exact Pa|]. split; [exact Pq|]. exists (f_incr m0). split; [reflexivity|]. split; [exact Prc|exact Pun].
        -- rewrite Eg. discriminate.
      * apply (L_step_exhaust s i snd rcpts dl l1 l2 f_incr H E1).
        -- intro m. split; reflexivity.
        -- rewrite Eg. discriminate.
    + (* TRetry2 *)
      destruct dl as [[all res]|].
      * apply (L_step_continue s i _ (TRetry3 i all res when) l1 l2 (f_ts when) H E1 eq_refl eq_refl).
        -- intro m. split; reflexivity.
        -- intros m Em Hph Htk'. rewrite Eg in Em. inversion Em; subst m. unfold phase_ok in *. Dcbn. rewrite Htk' in Hph.
           destruct Hph as [Pa [Pq [m [Pst [Prc [Hlog Pun]]]]]].
           unfold D in Pst. Dcbn_in Pst. rewrite Eg in Pst. inversion Pst; subst m.
           split; [exact Pa|]. split; [exact Pq|]. exists (f_ts when m0). split; [reflexivity|]. split; [exact Prc|].
           split; [exact Hlog|exact Pun].
        -- rewrite Eg. discriminate.
      * apply (L_step_final s i _ l1 l2 (f_ts when) when rcpts H E1 eq_refl).
        -- reflexivity.
        -- intros m Em Gd Htk'. rewrite Eg in Em. inversion Em; subst m. destruct Gd as [q1 q2 gs gn gf gl gp].
           unfold phase_ok in gp. rewrite Htk' in gp. destruct gp as [Pa [Pq [m [Pst [Prc Pun]]]]].
           unfold D in Pst. Dcbn_in Pst. rewrite Eg in Pst. inversion Pst; subst m.
           split; [exact Pq|]. split; [exact Prc|]. split; [rewrite <- Prc; apply (gn m0); unfold D; Dcbn; exact Eg|].
           split; [exact Pun|]. intros r sf _ Hr. left. rewrite <- Prc. exact Hr.
        -- rewrite Eg. discriminate.
    + (* TRetry3 *)
      apply (L_step_final s i _ l1 l2 (f_deliv res) when (unsettled all res) H E1 eq_refl).
      * reflexivity.
      * intros m Em Gd Htk'. rewrite Eg in Em. inversion Em; subst m. destruct Gd as [q1 q2 gs gn gf gl gp].
        unfold phase_ok in gp. rewrite Htk' in gp. destruct gp as [Pa [Pq [m [Pst [Prc [[Lok Lperm] Pun]]]]]].
        unfold D in Pst. Dcbn_in Pst. rewrite Eg in Pst. inversion Pst; subst m.
        assert (Hnd : NoDup all) by (rewrite <- Prc; apply (gn m0); unfold D; Dcbn; exact Eg).
        split; [exact Pq|]. split; [cbn [f_deliv m_rcpts]; rewrite Prc; reflexivity|].
        split; [apply pick_nodup; exact Hnd|]. split; [exact Pun|].
        intros r sf Hacc Hr. rewrite Prc in Hr.
        destruct (pick_split not_settled all res r Hr) as [A|A]; [left; exact A|right].
        rewrite (pick_ext _ is_settled) in A by (intro x; destruct x; reflexivity).
        destruct (settled_ok_perm all res r A) as [B|B].
        -- left. apply Lok. exact B.
        -- right. assert (Esf : m_sender m0 = sf) by (apply (gs m0 (eq_trans eq_refl Eg) r sf); exact Hacc).
           rewrite <- Esf. apply Lperm. exact B.
      * rewrite Eg. discriminate.
  - (* EGet *)
    unfold step. destruct (take_task (is_dequeue i) (s_tasks s)) as [[t rest]|] eqn:T; [|exact H].
    destruct t; try exact H.
    apply take_task_spec in T. destruct T as [Hp [l1 [l2 [E1 E2]]]].
    apply is_dequeue_id in Hp. destruct Hp as [Hid _]. cbn in Hid. subst i0 rest.
    destruct (L_get s i c l1 l2 H E1) as [HL _]. destruct (st_get (s_store s) i); exact HL.
  - (* ERemove *)
    unfold step. destruct (take_task (is_rm i) (s_tasks s)) as [[t rest]|] eqn:T; [|exact H].
    pose proof T as T0. apply take_task_spec in T. destruct T as [Hp [l1 [l2 [E1 E2]]]]. subst rest.
    destruct (L_remove s i t l1 l2 H E1 Hp) as [HL _]. exact HL.
  - (* ETick *)
    unfold step. destruct (s_sched s); try exact H.
    apply (Linv_ext (check_ready s)); try (apply wr_tasks || apply wr_active || apply wr_qids || apply wr_queued || apply wr_store || apply wr_next).
    + unfold check_ready. destruct (due_prefix (s_clock s) (s_queued s)) as [d r] eqn:Ed. destruct d as [|e d]; [exact H|].
      apply (L_dispatch_all (fun e => CTimer (fst e))); [exact H|]. 
      clear -Ed. revert Ed. generalize (e :: d). intros d0 Ed. 
      revert d0 r Ed. induction (s_queued s) as [|[t i] q IH]; intros d0 r Ed; cbn in Ed.
      * inversion Ed; reflexivity.
      * destruct (t <=? s_clock s).
        -- destruct (due_prefix (s_clock s) q) as [d1 r1] eqn:E1. inversion Ed; subst. cbn. f_equal. apply IH. reflexivity.
        -- inversion Ed; subst. reflexivity.
    + destruct (wr_ghost (check_ready s)) as [_ [G _]]. exact G.
    + destruct (wr_ghost (check_ready s)) as [_ [_ [G _]]]. exact G.
    + destruct (wr_ghost (check_ready s)) as [G _]. exact G.
  - (* EWakeup *)
    unfold step. destruct (s_sched s) as [|[t|]|]; try exact H.
    + destruct (t <=? s_clock s); [|exact H]. apply (Linv_ext s); auto.
    + apply (Linv_ext s); auto.
  - (* EAdvance *) apply (Linv_ext s); auto.
  - (* EAnnounce *) apply L_announce; assumption.
  - (* EFlush *)
    unfold step. set (s0 := set_sched s (notified (s_sched s)) false).
    assert (H0 : Linv s0) by (apply (Linv_ext s); auto).
    change (@nil id) with (qids_of []).
    apply (L_dispatch_all (fun _ => CFlush)); [exact H0|]. rewrite app_nil_r. reflexivity.
Qed.

(* ---------- theorems ---------- *)
Lemma In_deliv_l : forall l i r, In r (deliv_l l i) <-> In (i, r) l.
Proof.
  intros l i r. unfold deliv_l. rewrite in_map_iff. split.
  - intros [[j x] [E Hx]]. cbn in E. subst x. apply filter_In in Hx. destruct Hx as [Hx Hj]. cbn in Hj. apply N.eqb_eq in Hj. subst. exact Hx.
  - intro H. exists (i, r). split; [reflexivity|]. apply filter_In. split; [exact H|cbn; apply N.eqb_refl].
Qed.

Lemma In_trip_l : forall l i r b, In (r, b) (trip_l l i) <-> In (i, r, b) l.
Proof.
  intros l i r b. unfold trip_l. rewrite in_map_iff. split.
  - intros [[[j x] y] [E Hx]]. cbn in E. inversion E; subst. apply filter_In in Hx. destruct Hx as [Hx Hj]. cbn in Hj. apply N.eqb_eq in Hj. subst. exact Hx.
  - intro H. exists (i, r, b). split; [reflexivity|]. apply filter_In. split; [exact H|cbn; apply N.eqb_refl].
Qed.

Lemma init_L : Linv init.
Proof.
  constructor; [|constructor|constructor]. intro i. unfold D. cbn.
  constructor; cbn; try discriminate; try (intros; contradiction).
  - intros [A|[A|[A|[A|[A|[A|[A|A]]]]]]]; try discriminate; exfalso; apply A; reflexivity.
  - split; [discriminate|]. split; [intros m Em; discriminate|]. intro Hx. contradiction.
Qed.

Lemma run_L : forall es s, Linv s -> ok_run es s -> Linv (run es s).
Proof.
  induction es as [|e es IH]; intros s H Hok; cbn; [exact H|]. destruct Hok as [Ho Hr].
  apply IH; [apply step_L; assumption|exact Hr].
Qed.

(* C01: every accepted recipient is delivered, failed for good with the bounce flag of its
   sender, or still outstanding in storage *)
Lemma no_loss : forall es i r sf, ok_run es init ->
  let s := run es init in
  In (i, r, sf) (g_acc s) ->
  In (i, r) (g_deliv s) \/ In (i, r, sf) (g_fail s) \/ exists m, st_get (s_store s) i = Some m /\ In r (m_rcpts m).
Proof.
  intros es i r sf Hok s Hacc. pose proof (run_L es init init_L Hok) as HL. fold s in HL.
  pose proof (g_noloss _ _ _ (l_good s HL i) r sf) as G. unfold D in G. Dcbn_in G.
  rewrite In_trip_l, In_deliv_l, In_trip_l in G. apply G. exact Hacc.
Qed.

(* under fair announcements: a stored message nobody is working on is in the timetable *)
Lemma stored_idle_is_queued : forall es i, ok_run es init ->
  let s := run es init in
  st_get (s_store s) i <> None -> ~ In i (all_ids (s_tasks s)) -> In i (qids_of (s_queued s)).
Proof.
  intros es i Hok s Hst Hnt. pose proof (run_L es init init_L Hok) as HL. fold s in HL.
  pose proof (g_phase _ _ _ (l_good s HL i)) as P. unfold phase_ok, D in P. Dcbn_in P.
  apply task_of_none in Hnt. rewrite Hnt in P. destruct P as [_ [_ P3]]. apply mem_In. apply P3. exact Hst.
Qed.

(* C01: storage removal happens only when every recipient of the message is settled *)
Lemma removed_only_when_settled : forall es i t rest, ok_run es init ->
  let s := run es init in
  take_task (is_rm i) (s_tasks s) = Some (t, rest) ->
  forall r sf, In (i, r, sf) (g_acc s) -> In (i, r) (g_deliv s) \/ In (i, r, sf) (g_fail s).
Proof.
  intros es i t rest Hok s T r sf Hacc. pose proof (run_L es init init_L Hok) as HL. fold s in HL.
  apply take_task_spec in T. destruct T as [Hp [l1 [l2 [E1 _]]]].
  destruct (L_remove s i t l1 l2 HL E1 Hp) as [_ Hall]. unfold all_settled, D in Hall. Dcbn_in Hall.
  specialize (Hall r sf). rewrite In_trip_l, In_deliv_l, In_trip_l in Hall. apply Hall. exact Hacc.
Qed.

(* C03: a delivery attempt never includes a recipient that is already settled *)
Definition unsettled_in (s : state) (i : id) (r : rcpt) : Prop :=
  ~ In (i, r) (g_deliv s) /\ forall b, ~ In (i, r, b) (g_fail s).

Lemma attempt_from_enqueue_unsettled : forall es i snd rcpts rest, ok_run es init ->
  let s := run es init in
  take_task (is_enq i) (s_tasks s) = Some (TEnq i snd rcpts, rest) ->
  forall r, In r rcpts -> unsettled_in s i r.
Proof.
  intros es i snd rcpts rest Hok s T r Hr. pose proof (run_L es init init_L Hok) as HL. fold s in HL.
  apply take_task_spec in T. destruct T as [_ [l1 [l2 [E1 _]]]].
  destruct (at_member s l1 _ l2 HL E1) as [_ [Htk G]]. cbn [task_id] in Htk, G.
  pose proof (g_phase _ _ _ G) as P. unfold phase_ok, D in P. Dcbn_in P. rewrite Htk in P.
  destruct P as [_ [_ [m [_ [_ [_ Pun]]]]]]. destruct (Pun r Hr) as [U1 U2]. Dcbn_in U1. Dcbn_in U2.
  split; [rewrite <- In_deliv_l; exact U1|intros b; rewrite <- In_trip_l; apply U2].
Qed.

Lemma attempt_from_storage_unsettled : forall es i c rest m, ok_run es init ->
  let s := run es init in
  take_task (is_dequeue i) (s_tasks s) = Some (TDequeue i c, rest) -> st_get (s_store s) i = Some m ->
  forall r, In r (m_rcpts m) -> unsettled_in s i r.
Proof.
  intros es i c rest m Hok s T Eg r Hr. pose proof (run_L es init init_L Hok) as HL. fold s in HL.
  apply take_task_spec in T. destruct T as [_ [l1 [l2 [E1 _]]]].
  destruct (L_get s i c l1 l2 HL E1) as [_ Pun]. destruct (Pun m Eg r Hr) as [U1 U2]. unfold D in U1, U2. Dcbn_in U1. Dcbn_in U2.
  split; [rewrite <- In_deliv_l; exact U1|intros b; rewrite <- In_trip_l; apply U2].
Qed.

(* the two lemmas above cover every attempt: attempts are started by those two events only *)
Lemma attempts_started_by : forall s e a, In a (g_atts (step s e)) ->
  In a (g_atts s) \/
  (exists i snd rcpts rest, e = EEnqDone i /\ take_task (is_enq i) (s_tasks s) = Some (TEnq i snd rcpts, rest) /\
      a = mkAtt i rcpts 0 (s_clock s) CEnqueue) \/
  (exists i c rest m, e = EGet i /\ take_task (is_dequeue i) (s_tasks s) = Some (TDequeue i c, rest) /\
      st_get (s_store s) i = Some m /\ a = mkAtt i (m_rcpts m) (m_attempts m) (s_clock s) c).
Proof.
  intros s e a H. destruct e; unfold step in H.
  - left. exact H.
  - destruct (take_task (is_enq i) (s_tasks s)) as [[t rest]|] eqn:T; [|left; exact H].
    destruct t; try (left; exact H). pose proof T as T0. apply take_task_spec in T0. destruct T0 as [Hp _].
    apply is_enq_id in Hp. destruct Hp as [Hid _]. cbn in Hid. subst i0.
    proj_in H. destruct (mem i (s_active s)); [left; exact H|]. unfold log_att in H. proj_in H.
    destruct H as [H|H]; [|left; exact H]. right. left. exists i, snd, rcpts, rest. auto.
  - destruct (take_task (is_attempt i) (s_tasks s)) as [[t rest]|]; [|left; exact H]. destruct t; try (left; exact H).
    destruct o; try (left; exact H). destruct (pick is_temp rcpts res); left; exact H.
  - destruct (take_task (is_retry i) (s_tasks s)) as [[t rest]|]; [|left; exact H].
    destruct (st_get (s_store s) i); [|left; exact H]. destruct t; try (left; exact H).
    + destruct b; left; exact H.
    + destruct dl as [[all res]|]; [left; exact H|]. rewrite aq_atts in H. left. exact H.
    + rewrite aq_atts in H. left. exact H.
  - destruct (take_task (is_dequeue i) (s_tasks s)) as [[t rest]|] eqn:T; [|left; exact H].
    destruct t; try (left; exact H). pose proof T as T0. apply take_task_spec in T0. destruct T0 as [Hp _].
    apply is_dequeue_id in Hp. destruct Hp as [Hid _]. cbn in Hid. subst i0.
    destruct (st_get (s_store s) i) as [m|] eqn:Eg; [|left; exact H]. unfold log_att in H. proj_in H.
    destruct H as [H|H]; [|left; exact H]. right. right. exists i, c, rest, m. auto.
  - destruct (take_task (is_rm i) (s_tasks s)) as [[t rest]|]; left; exact H.
  - destruct (s_sched s); try (left; exact H). destruct (wr_ghost (check_ready s)) as [_ [_ [_ [G _]]]]. rewrite G in H.
    unfold check_ready in H. destruct (due_prefix (s_clock s) (s_queued s)) as [d r]. destruct d as [|e d]; [left; exact H|]. proj_in H.
    assert (Ea : forall d0 s1, g_atts (fold_left (fun s e => dispatch s (snd e) (CTimer (fst e))) d0 s1) = g_atts s1).
    { induction d0 as [|e0 d0 IH]; intro s1; cbn; [reflexivity|]. rewrite IH. destruct (dispatch_ghost s1 (snd e0) (CTimer (fst e0))) as [_ [_ [_ [G4 _]]]]. exact G4. }
    rewrite Ea in H. left. exact H.
  - destruct (s_sched s) as [|[t|]|]; try (left; exact H). destruct (t <=? s_clock s); left; exact H.
  - left. exact H.
  - rewrite aq_atts in H. left. exact H.
  - proj_in H.
    assert (Ea : forall d0 s1, g_atts (fold_left (fun s (e : time * id) => dispatch s (snd e) CFlush) d0 s1) = g_atts s1).
    { induction d0 as [|e0 d0 IH]; intro s1; cbn; [reflexivity|]. rewrite IH. destruct (dispatch_ghost s1 (snd e0) CFlush) as [_ [_ [_ [G4 _]]]]. exact G4. }
    rewrite Ea in H. left. exact H.
Qed.
