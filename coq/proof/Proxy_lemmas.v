(* Proofs for C18 (PROXY protocol headers are parsed exactly and never
   over-read) over model/Proxy.v. *)
From Coq Require Import List NArith ZArith Bool Arith Lia ZifyBool ZifyN.
From SV Require Import lib.Bytes model.Proxy.
Import ListNotations.
Open Scope N_scope.
Local Arguments firstn : simpl never.
Local Arguments skipn : simpl never.
Ltac Zify.zify_post_hook ::= Z.div_mod_to_equations.

(* ------------------------------------------------------------------ lists *)
Lemma firstn_add : forall (A : Type) (a b : nat) (l : list A),
  firstn (a + b) l = firstn a l ++ firstn b (skipn a l).
Proof.
  intros A a; induction a as [|a IH]; intros b l.
  - reflexivity.
  - destruct l as [|x l].
    + cbn [plus]. rewrite skipn_nil, !firstn_nil. reflexivity.
    + cbn [plus]. rewrite !firstn_cons, skipn_cons, IH. reflexivity.
Qed.

Lemma skipn_add : forall (A : Type) (a b : nat) (l : list A),
  skipn b (skipn a l) = skipn (a + b) l.
Proof.
  intros A a; induction a as [|a IH]; intros b l.
  - reflexivity.
  - destruct l as [|x l].
    + rewrite !skipn_nil. reflexivity.
    + cbn [plus]. rewrite !skipn_cons. apply IH.
Qed.

Lemma firstn_app_le : forall (A : Type) (n : nat) (a b : list A),
  (n <= length a)%nat -> firstn n (a ++ b) = firstn n a.
Proof.
  intros A n a b H. rewrite firstn_app.
  replace (n - length a)%nat with 0%nat by lia. rewrite firstn_O, app_nil_r. reflexivity.
Qed.

Lemma skipn_app_le : forall (A : Type) (n : nat) (a b : list A),
  (n <= length a)%nat -> skipn n (a ++ b) = skipn n a ++ b.
Proof.
  intros A n a b H. rewrite skipn_app.
  replace (n - length a)%nat with 0%nat by lia. reflexivity.
Qed.

Lemma firstn_length_app : forall (A : Type) (a b : list A), firstn (length a) (a ++ b) = a.
Proof.
  intros. rewrite firstn_app_le by lia. apply firstn_all.
Qed.

Lemma skipn_length_app : forall (A : Type) (a b : list A), skipn (length a) (a ++ b) = b.
Proof.
  intros. rewrite skipn_app_le by lia. rewrite skipn_all. reflexivity.
Qed.

(* ------------------------------------------------------------------ recv_into *)
Lemma recv_into_spec : forall data sched n,
  exists m, (m <= n)%nat /\ ((1 <= n)%nat -> (1 <= m)%nat) /\
    recv_into (mk_sock data sched) n = (firstn m data, mk_sock (skipn m data) (tl sched)).
Proof.
  intros data sched n. unfold recv_into. cbn [s_sched s_data].
  destruct sched as [|k sched].
  - exists n. repeat split; lia.
  - exists (Nat.min n (Nat.max 1 (N.to_nat k))). repeat split; lia.
Qed.

(* the socket only moves forward: what a reader took is a prefix of the stream *)
Definition took (s s' : sock) (pre : bytes) : Prop := s_data s = pre ++ s_data s'.

(* ------------------------------------------------------------------ read_fill *)
Lemma read_fill_general : forall fuel target read s r s',
  read_fill fuel target read s = (r, s') ->
  exists pre, took s s' pre /\
    (length read + length pre <= Nat.max target (length read))%nat /\
    match r with
    | Ok x => x = read ++ pre /\ (target <= length x)%nat
    | Raise e => e = EAssert W_EOF
    | OutOfFuel => (fuel < target - length read)%nat
    end.
Proof.
  assert (Hdone : forall target read s r s', (target <=? length read)%nat = true ->
            (Ok read, s) = (r, s') ->
            exists pre, took s s' pre /\
              (length read + length pre <= Nat.max target (length read))%nat /\
              match r with
              | Ok x => x = read ++ pre /\ (target <= length x)%nat
              | Raise e => e = EAssert W_EOF
              | OutOfFuel => False
              end).
  { intros target read s r s' E H. inversion H; subst. apply Nat.leb_le in E.
    exists []. unfold took. rewrite app_nil_r. cbn [length].
    split; [reflexivity|]. split; [lia|]. split; [reflexivity|exact E]. }
  induction fuel as [|f IH]; intros target read s r s' H; cbn [read_fill] in H.
  - destruct (target <=? length read)%nat eqn:E.
    + destruct (Hdone _ _ _ _ _ E H) as (pre & A & B & C). exists pre. split; [exact A|]. split; [exact B|].
      destruct r; [exact C|exact C|contradiction].
    + inversion H; subst. apply Nat.leb_gt in E. exists []. unfold took. cbn [length app].
      split; [reflexivity|]. split; lia.
  - destruct (target <=? length read)%nat eqn:E.
    + destruct (Hdone _ _ _ _ _ E H) as (pre & A & B & C). exists pre. split; [exact A|]. split; [exact B|].
      destruct r; [exact C|exact C|contradiction].
    + apply Nat.leb_gt in E. destruct s as [data sched].
      destruct (recv_into_spec data sched (target - length read)) as (m & Hm1 & Hm2 & Hr).
      rewrite Hr in H.
      assert (Hd : data = firstn m data ++ skipn m data) by (symmetry; apply firstn_skipn).
      assert (Hl : (length (firstn m data) <= m)%nat) by apply firstn_le_length.
      destruct (firstn m data) as [|c chunk] eqn:Ec.
      * inversion H; subst. exists []. unfold took. cbn [s_data app length].
        split; [exact Hd|]. split; [lia|reflexivity].
      * apply IH in H. destruct H as (pre & Ht & Hlen & Hres).
        exists ((c :: chunk) ++ pre). unfold took in *. cbn [s_data] in *.
        rewrite app_length in Hlen. split.
        { rewrite <- app_assoc, <- Ht. exact Hd. }
        split; [rewrite app_length; lia|].
        destruct r as [x|e|].
        { destruct Hres as [Hx Hx2]. split; [rewrite Hx, app_assoc; reflexivity|exact Hx2]. }
        { exact Hres. }
        { rewrite app_length in Hres. cbn [length] in *. lia. }
Qed.

Lemma read_fill_exact : forall fuel target read data sched,
  (target - length read <= fuel)%nat ->
  (target - length read <= length data)%nat ->
  exists sched',
    read_fill fuel target read (mk_sock data sched)
    = (Ok (read ++ firstn (target - length read) data),
       mk_sock (skipn (target - length read) data) sched').
Proof.
  induction fuel as [|f IH]; intros target read data sched Hf Hd; cbn [read_fill].
  - destruct (target <=? length read)%nat eqn:E.
    + apply Nat.leb_le in E. replace (target - length read)%nat with 0%nat by lia.
      rewrite firstn_O, app_nil_r. exists sched. reflexivity.
    + apply Nat.leb_gt in E. lia.
  - destruct (target <=? length read)%nat eqn:E.
    + apply Nat.leb_le in E. replace (target - length read)%nat with 0%nat by lia.
      rewrite firstn_O, app_nil_r. exists sched. reflexivity.
    + apply Nat.leb_gt in E.
      destruct (recv_into_spec data sched (target - length read)) as (m & Hm1 & Hm2 & Hr).
      rewrite Hr.
      assert (Hl : length (firstn m data) = m) by (apply firstn_length_le; lia).
      destruct (firstn m data) as [|c chunk] eqn:Ec.
      * cbn [length] in Hl. lia.
      * destruct (IH target (read ++ c :: chunk) (skipn m data) (tl sched)) as (sched' & Hq).
        { rewrite app_length. lia. }
        { rewrite app_length, skipn_length. lia. }
        exists sched'. rewrite Hq.
        assert (Hn : (target - length read = m + (target - length (read ++ c :: chunk)))%nat)
          by (rewrite app_length; lia).
        rewrite Hn, firstn_add, skipn_add, Ec, <- app_assoc. reflexivity.
Qed.

(* ------------------------------------------------------------------ CR / LF at the end *)
Lemma ends_crlf_snoc : forall l, ends_crlf (l ++ [13; 10]) = true.
Proof. intros. unfold ends_crlf. rewrite rev_app_distr. reflexivity. Qed.

Lemma ends_cr_snoc : forall l, ends_cr (l ++ [13]) = true.
Proof. intros. unfold ends_cr. rewrite rev_app_distr. reflexivity. Qed.

Lemma ends_crlf_inv : forall l, ends_crlf l = true -> exists l0, l = l0 ++ [13; 10].
Proof.
  intros l H. unfold ends_crlf in H.
  destruct (rev l) as [|a [|b t]] eqn:E; try discriminate.
  - destruct a as [|p]; try discriminate. repeat (destruct p; try discriminate).
  - exists (rev t).
    assert (a = 10 /\ b = 13) as [-> ->].
    { destruct a as [|p]; try discriminate.
      destruct p as [p|p|]; try discriminate. destruct p as [p|p|]; try discriminate.
      destruct p as [p|p|]; try discriminate. destruct p as [p|p|]; try discriminate.
      destruct b as [|q]; try discriminate.
      destruct q as [q|q|]; try discriminate. destruct q as [q|q|]; try discriminate.
      destruct q as [q|q|]; try discriminate. destruct q as [q|q|]; try discriminate.
      split; reflexivity. }
    rewrite <- (rev_involutive l), E. cbn [rev]. rewrite <- app_assoc. reflexivity.
Qed.

Lemma has_crlf_app_l : forall a b, has_crlf a = true -> has_crlf (a ++ b) = true.
Proof.
  induction a as [|x a IH]; intros b H; [discriminate|].
  cbn [has_crlf app] in *. apply orb_true_iff in H. apply orb_true_iff.
  destruct H as [H|H].
  - left. destruct a as [|y a]; [discriminate|]. exact H.
  - right. apply IH. exact H.
Qed.

Lemma has_crlf_snoc : forall l, has_crlf (l ++ [13; 10]) = true.
Proof.
  induction l as [|x l IH].
  - reflexivity.
  - cbn [has_crlf app]. rewrite IH. apply orb_true_r.
Qed.

Lemma ends_crlf_has : forall l, ends_crlf l = true -> has_crlf l = true.
Proof. intros l H. destruct (ends_crlf_inv l H) as [l0 ->]. apply has_crlf_snoc. Qed.

(* A complete v1 line as the reader needs it: its only CRLF is the final one. *)
Definition line_ok (line : bytes) : Prop :=
  exists body, line = body ++ [13; 10] /\ has_crlf (body ++ [13]) = false.

Lemma line_ok_prefix : forall line read rest,
  line_ok line -> read ++ rest = line -> rest <> [] -> ends_crlf read = false.
Proof.
  intros line read rest (body & Hl & Hb) Hrr Hne.
  destruct (exists_last Hne) as (rest0 & x & ->).
  subst line. replace (body ++ [13; 10]) with ((body ++ [13]) ++ [10]) in Hrr by (rewrite <- app_assoc; reflexivity).
  rewrite app_assoc in Hrr. apply app_inj_tail in Hrr. destruct Hrr as [Hrr _].
  destruct (ends_crlf read) eqn:E; [|reflexivity].
  apply ends_crlf_has in E. apply (has_crlf_app_l _ rest0) in E. rewrite Hrr in E. congruence.
Qed.

Lemma line_ok_last : forall line read x,
  line_ok line -> read ++ [x] = line -> ends_cr read = true.
Proof.
  intros line read x (body & Hl & _) Hrr. subst line.
  replace (body ++ [13; 10]) with ((body ++ [13]) ++ [10]) in Hrr by (rewrite <- app_assoc; reflexivity).
  apply app_inj_tail in Hrr. destruct Hrr as [-> _]. apply ends_cr_snoc.
Qed.

Lemma line_ok_full : forall line, line_ok line -> ends_crlf line = true.
Proof. intros line (body & -> & _). apply ends_crlf_snoc. Qed.

(* ------------------------------------------------------------------ read_line_loop *)
Lemma line_loop_general : forall fuel read s r s',
  (length read <= 107)%nat ->
  read_line_loop fuel read s = (r, s') ->
  exists pre, took s s' pre /\ (length read + length pre <= 107)%nat /\
    match r with
    | Ok x => x = read ++ pre
    | Raise e => e = EAssert W_EOF
    | OutOfFuel => (fuel + length read < 107)%nat
    end.
Proof.
  induction fuel as [|f IH]; intros read s r s' Hlen H; cbn [read_line_loop] in H.
  - destruct (107 <=? length read)%nat eqn:E.
    + inversion H; subst. exists []. unfold took. rewrite app_nil_r. cbn [length].
      split; [reflexivity|]. split; [lia|reflexivity].
    + inversion H; subst. apply Nat.leb_gt in E. exists []. unfold took. cbn [length app].
      split; [reflexivity|]. split; lia.
  - destruct (107 <=? length read)%nat eqn:E.
    + inversion H; subst. exists []. unfold took. rewrite app_nil_r. cbn [length].
      split; [reflexivity|]. split; [lia|reflexivity].
    + apply Nat.leb_gt in E. destruct s as [data sched].
      set (try_read := Nat.min (107 - length read) (if ends_cr read then 1 else 2)) in H.
      assert (Htry : (1 <= try_read <= 107 - length read)%nat)
        by (unfold try_read; destruct (ends_cr read); lia).
      destruct (recv_into_spec data sched try_read) as (m & Hm1 & Hm2 & Hr).
      rewrite Hr in H.
      assert (Hd : data = firstn m data ++ skipn m data) by (symmetry; apply firstn_skipn).
      assert (Hl : (length (firstn m data) <= m)%nat) by apply firstn_le_length.
      destruct (firstn m data) as [|c chunk] eqn:Ec.
      * inversion H; subst. exists []. unfold took. cbn [s_data app length].
        split; [exact Hd|]. split; [lia|reflexivity].
      * destruct (ends_crlf (read ++ c :: chunk)) eqn:Ecrlf.
        { inversion H; subst. exists (c :: chunk). unfold took. cbn [s_data].
          split; [exact Hd|]. split; [lia|reflexivity]. }
        apply IH in H; [|rewrite app_length; lia].
        destruct H as (pre & Ht & Hlen2 & Hres).
        exists ((c :: chunk) ++ pre). unfold took in *. cbn [s_data] in *.
        rewrite app_length in Hlen2. split.
        { rewrite <- app_assoc, <- Ht. exact Hd. }
        split; [rewrite app_length; lia|].
        destruct r as [x|e|].
        { rewrite Hres, app_assoc. reflexivity. }
        { exact Hres. }
        { rewrite app_length in Hres. cbn [length] in *. lia. }
Qed.

Lemma line_loop_exact : forall fuel line read rest payload sched,
  line_ok line -> read ++ rest = line -> rest <> [] ->
  (length line <= 107)%nat -> (length rest <= fuel)%nat ->
  exists sched',
    read_line_loop fuel read (mk_sock (rest ++ payload) sched) = (Ok line, mk_sock payload sched').
Proof.
  induction fuel as [|f IH]; intros line read rest payload sched Hok Hrr Hne Hlen Hfuel.
  - destruct rest; [congruence|cbn [length] in Hfuel; lia].
  - assert (Hlr : (length read + length rest = length line)%nat) by (rewrite <- Hrr, app_length; reflexivity).
    assert (Hrest : (1 <= length rest)%nat) by (destruct rest; [congruence|cbn [length]; lia]).
    cbn [read_line_loop].
    destruct (107 <=? length read)%nat eqn:E; [apply Nat.leb_le in E; lia|]. clear E.
    set (try_read := Nat.min (107 - length read) (if ends_cr read then 1 else 2)).
    assert (Htry : (1 <= try_read)%nat /\ (try_read <= length rest)%nat).
    { unfold try_read. destruct rest as [|x [|y rest]]; [congruence| |].
      - rewrite (line_ok_last line read x Hok Hrr). cbn [length]. lia.
      - destruct (ends_cr read); cbn [length] in *; lia. }
    destruct (recv_into_spec (rest ++ payload) sched try_read) as (m & Hm1 & Hm2 & Hr).
    rewrite Hr. rewrite firstn_app_le, skipn_app_le by lia.
    assert (Hl : length (firstn m rest) = m) by (apply firstn_length_le; lia).
    destruct (firstn m rest) as [|c chunk] eqn:Ec; [cbn [length] in Hl; lia|].
    assert (Hrr' : (read ++ c :: chunk) ++ skipn m rest = line).
    { rewrite <- app_assoc, <- Ec, firstn_skipn. exact Hrr. }
    destruct (skipn m rest) as [|z rest'] eqn:Es.
    + rewrite app_nil_r in Hrr'. rewrite Hrr', (line_ok_full line Hok). cbn [app].
      eexists. reflexivity.
    + rewrite (line_ok_prefix line _ _ Hok Hrr') by discriminate.
      apply (IH line _ (z :: rest') payload (tl sched) Hok Hrr'); [discriminate|exact Hlen|].
      rewrite <- Es, skipn_length. lia.
Qed.

(* __read_pp_line on a stream that starts with a well-formed line *)
Lemma read_pp_line_exact : forall line initial rest payload sched,
  line_ok line -> initial ++ rest = line ->
  (length initial <= 8)%nat -> (9 <= length line <= 107)%nat ->
  exists sched',
    read_pp_line initial (mk_sock (rest ++ payload) sched) = (Ok line, mk_sock payload sched').
Proof.
  intros line initial rest payload sched Hok Hir Hinit Hlen.
  assert (Hlr : (length initial + length rest = length line)%nat) by (rewrite <- Hir, app_length; reflexivity).
  unfold read_pp_line.
  destruct (read_fill_exact 8 8 initial (rest ++ payload) sched) as (sched1 & Hq); [lia|rewrite app_length; lia|].
  rewrite Hq. rewrite firstn_app_le, skipn_app_le by lia.
  apply line_loop_exact; [exact Hok| | |lia|rewrite skipn_length; lia].
  - rewrite <- app_assoc, firstn_skipn. exact Hir.
  - intro Hnil. apply (f_equal (@length _)) in Hnil. rewrite skipn_length in Hnil. cbn [length] in Hnil. lia.
Qed.

(* ------------------------------------------------------------------ decimal text *)
(* characters of an address / port field: printable ASCII that is not a space *)
Definition field_char (b : N) : bool := (33 <=? b) && (b <? 127).
Definition field_ok (l : bytes) : bool := forallb field_char l.

Lemma field_ok_app : forall a b, field_ok (a ++ b) = field_ok a && field_ok b.
Proof. intros. apply forallb_app. Qed.

Lemma dec_field : forall n, n < 65536 -> field_ok (dec n) = true.
Proof.
  intros n Hn. unfold dec, field_ok, field_char.
  destruct (n <? 10) eqn:E1; [cbn [forallb]; lia|].
  destruct (n <? 100) eqn:E2; [cbn [forallb]; lia|].
  destruct (n <? 1000) eqn:E3; [cbn [forallb]; lia|].
  destruct (n <? 10000) eqn:E4; cbn [forallb]; lia.
Qed.

Lemma is_digit_48 : forall d, d < 10 -> is_digit (48 + d) = true.
Proof. intros. unfold is_digit. lia. Qed.

(* the port check of the repaired __get_pp_port accepts exactly what dec prints *)
Lemma get_pp_port_dec : forall n w1 w2, n < 65536 -> get_pp_port (dec n) w1 w2 = Ok n.
Proof.
  intros n w1 w2 Hn. unfold get_pp_port, port_guard, dec, dec_val.
  destruct (n <? 10) eqn:E1.
  { cbn [forallb dec_val_acc]. rewrite is_digit_48 by lia. cbn [andb].
    replace (negb ((48 + n =? 48) && negb true)) with true by (cbn [negb]; rewrite andb_false_r; reflexivity).
    replace (0 * 10 + (48 + n - 48)) with n by lia.
    replace (n <=? 65535) with true by lia. reflexivity. }
  destruct (n <? 100) eqn:E2.
  { cbn [forallb dec_val_acc]. rewrite !is_digit_48 by lia. cbn [andb negb].
    replace (48 + n / 10 =? 48) with false by lia. cbn [andb negb].
    replace ((0 * 10 + (48 + n / 10 - 48)) * 10 + (48 + n mod 10 - 48)) with n by lia.
    replace (n <=? 65535) with true by lia. reflexivity. }
  destruct (n <? 1000) eqn:E3.
  { cbn [forallb dec_val_acc]. rewrite !is_digit_48 by lia. cbn [andb negb].
    replace (48 + n / 100 =? 48) with false by lia. cbn [andb negb].
    replace (((0 * 10 + (48 + n / 100 - 48)) * 10 + (48 + (n / 10) mod 10 - 48)) * 10 + (48 + n mod 10 - 48)) with n by lia.
    replace (n <=? 65535) with true by lia. reflexivity. }
  destruct (n <? 10000) eqn:E4.
  { cbn [forallb dec_val_acc]. rewrite !is_digit_48 by lia. cbn [andb negb].
    replace (48 + n / 1000 =? 48) with false by lia. cbn [andb negb].
    replace ((((0 * 10 + (48 + n / 1000 - 48)) * 10 + (48 + (n / 100) mod 10 - 48)) * 10 + (48 + (n / 10) mod 10 - 48)) * 10 + (48 + n mod 10 - 48)) with n by lia.
    replace (n <=? 65535) with true by lia. reflexivity. }
  cbn [forallb dec_val_acc]. rewrite !is_digit_48 by lia. cbn [andb negb].
  replace (48 + n / 10000 =? 48) with false by lia. cbn [andb negb].
  replace (((((0 * 10 + (48 + n / 10000 - 48)) * 10 + (48 + (n / 1000) mod 10 - 48)) * 10 + (48 + (n / 100) mod 10 - 48)) * 10 + (48 + (n / 10) mod 10 - 48)) * 10 + (48 + n mod 10 - 48)) with n by lia.
  replace (n <=? 65535) with true by lia. reflexivity.
Qed.

(* ------------------------------------------------------------------ IPv4 text *)
Lemma pton4_digit : forall d s' done cur saw octets,
  d < 10 -> (saw = true -> cur <> 0) -> cur * 10 + d <= 255 -> (saw = false -> octets < 4) ->
  pton4_go ((48 + d) :: s') done cur saw octets
  = pton4_go s' done (cur * 10 + d) true (if saw then octets else octets + 1).
Proof.
  intros d s' done cur saw octets Hd Hcur Hnew Hoct. cbn [pton4_go].
  rewrite is_digit_48 by exact Hd.
  replace (48 + d - 48) with d by lia.
  replace (255 <? cur * 10 + d) with false by lia.
  destruct saw.
  - replace (cur =? 0) with false by (specialize (Hcur eq_refl); lia). reflexivity.
  - cbn [andb]. replace (4 <? octets + 1) with false by (specialize (Hoct eq_refl); lia). reflexivity.
Qed.

Lemma pton4_dot : forall s' done cur octets,
  octets <> 4 ->
  pton4_go (46 :: s') done cur true octets = pton4_go s' (done ++ [cur]) 0 false octets.
Proof.
  intros s' done cur octets H. cbn [pton4_go].
  change (is_digit 46) with false. change (46 =? 46) with true. cbn [andb].
  replace (octets =? 4) with false by lia. reflexivity.
Qed.

Lemma pton4_octet : forall a s' done octets,
  a < 256 -> octets < 4 ->
  pton4_go (dec a ++ s') done 0 false octets = pton4_go s' done a true (octets + 1).
Proof.
  intros a s' done octets Ha Ho. unfold dec.
  destruct (a <? 10) eqn:E1.
  { cbn [app]. rewrite pton4_digit by (try discriminate; lia). f_equal. }
  destruct (a <? 100) eqn:E2.
  { cbn [app]. rewrite pton4_digit by (try discriminate; lia).
    rewrite pton4_digit by (try discriminate; lia). f_equal. lia. }
  destruct (a <? 1000) eqn:E3; [|lia].
  cbn [app]. rewrite pton4_digit by (try discriminate; lia).
  rewrite pton4_digit by (try discriminate; lia).
  rewrite pton4_digit by (try discriminate; lia). f_equal. lia.
Qed.

Lemma pton4_ntop4 : forall a, wf_ip 4 a = true -> pton4 (ntop4 a) = Some a.
Proof.
  intros a H. unfold wf_ip in H. apply andb_true_iff in H. destruct H as [Hl Hb].
  apply Nat.eqb_eq in Hl.
  destruct a as [|a0 [|a1 [|a2 [|a3 [|? ?]]]]]; try discriminate.
  cbn [forallb] in Hb. unfold is_byte in Hb.
  unfold pton4, ntop4. cbn [app].
  rewrite pton4_octet by lia. rewrite pton4_dot by lia.
  rewrite pton4_octet by lia. rewrite pton4_dot by lia.
  rewrite pton4_octet by lia. rewrite pton4_dot by lia.
  rewrite <- (app_nil_r (dec a3)). rewrite pton4_octet by lia.
  reflexivity.
Qed.

Lemma ntop4_field : forall a, wf_ip 4 a = true -> field_ok (ntop4 a) = true.
Proof.
  intros a H. unfold wf_ip in H. apply andb_true_iff in H. destruct H as [Hl Hb].
  apply Nat.eqb_eq in Hl.
  destruct a as [|a0 [|a1 [|a2 [|a3 [|? ?]]]]]; try discriminate.
  cbn [forallb] in Hb. unfold is_byte in Hb.
  unfold ntop4. rewrite !field_ok_app. rewrite !dec_field by lia. reflexivity.
Qed.

(* ------------------------------------------------------------------ fields and split *)
Lemma field_ok_ascii : forall l, field_ok l = true -> forallb (fun b => b <? 128) l = true.
Proof.
  induction l as [|x l IH]; intros H; [reflexivity|].
  cbn [field_ok forallb] in *. apply andb_true_iff in H. destruct H as [Hx Hl].
  rewrite (IH Hl). unfold field_char in Hx. lia.
Qed.

Lemma field_ok_nonul : forall l, field_ok l = true -> existsb (fun b => b =? 0) l = false.
Proof.
  induction l as [|x l IH]; intros H; [reflexivity|].
  cbn [field_ok forallb existsb] in *. apply andb_true_iff in H. destruct H as [Hx Hl].
  rewrite (IH Hl). unfold field_char in Hx. lia.
Qed.

Lemma split_sp_field : forall a, field_ok a = true -> split_sp a = (a, []).
Proof.
  induction a as [|x a IH]; intros H; [reflexivity|].
  cbn [field_ok forallb] in H. apply andb_true_iff in H. destruct H as [Hx Hl].
  cbn [split_sp]. rewrite (IH Hl). unfold field_char in Hx.
  replace (x =? 32) with false by lia. reflexivity.
Qed.

Lemma split_sp_app : forall a r, field_ok a = true ->
  split_sp (a ++ 32 :: r) = (a, fst (split_sp r) :: snd (split_sp r)).
Proof.
  induction a as [|x a IH]; intros r H.
  - cbn [app split_sp]. destruct (split_sp r) as [h t]. reflexivity.
  - cbn [field_ok forallb] in H. apply andb_true_iff in H. destruct H as [Hx Hl].
    cbn [app split_sp]. rewrite (IH r Hl). unfold field_char in Hx.
    replace (x =? 32) with false by lia. reflexivity.
Qed.

Lemma beqb_refl' : forall a, beqb a a = true.
Proof. induction a as [|x a IH]; [reflexivity|]. cbn [beqb]. rewrite IH, N.eqb_refl. reflexivity. Qed.

Lemma starts_with_app : forall p s, starts_with p (p ++ s) = true.
Proof. induction p as [|x p IH]; intros s; [reflexivity|]. cbn [starts_with app]. rewrite IH, N.eqb_refl. reflexivity. Qed.

(* line[6:-2] of "PROXY " + body + CRLF *)
Lemma line_slice : forall body,
  skipn 6 (firstn (length (PROXY_SP ++ body ++ CRLF) - 2) (PROXY_SP ++ body ++ CRLF)) = body.
Proof.
  intros body. rewrite (app_assoc PROXY_SP body CRLF).
  replace (length ((PROXY_SP ++ body) ++ CRLF) - 2)%nat with (length (PROXY_SP ++ body))
    by (rewrite (app_length _ CRLF); cbn [length CRLF]; lia).
  rewrite firstn_length_app. reflexivity.
Qed.

(* ------------------------------------------------------------------ the IPv6 text oracle *)
(* What the theorems assume of inet_ntop/inet_pton(AF_INET6): printing a
   16-byte address gives at most 39 printable non-space ASCII characters that
   parse back to the same address. *)
Definition ip6_oracle (pton6 : bytes -> option bytes) (ntop6 : bytes -> bytes) : Prop :=
  forall a, wf_ip 16 a = true ->
    pton6 (ntop6 a) = Some a /\ field_ok (ntop6 a) = true /\ (length (ntop6 a) <= 39)%nat.

Section WithIp6.
  Variable pton6 : bytes -> option bytes.
  Variable ntop6 : bytes -> bytes.
  Hypothesis H6 : ip6_oracle pton6 ntop6.

  Definition fam_len (f : v1family) : nat := match f with F1Inet => 4%nat | F1Inet6 => 16%nat end.

  Lemma c_ntop_field : forall f a, wf_ip (fam_len f) a = true -> field_ok (c_ntop ntop6 f a) = true.
  Proof. intros [|] a H; [apply ntop4_field; exact H|apply (H6 a H)]. Qed.

  Lemma c_pton_ntop : forall f a, wf_ip (fam_len f) a = true -> c_pton pton6 f (c_ntop ntop6 f a) = Some a.
  Proof. intros [|] a H; [apply pton4_ntop4; exact H|apply (H6 a H)]. Qed.

  Lemma get_pp_ip_ok : forall f a w, wf_ip (fam_len f) a = true ->
    get_pp_ip pton6 ntop6 f (c_ntop ntop6 f a) w = Ok (c_ntop ntop6 f a).
  Proof.
    intros f a w H. unfold get_pp_ip, py_decode_ascii, py_inet_pton.
    rewrite (field_ok_ascii _ (c_ntop_field f a H)).
    rewrite (field_ok_nonul _ (c_ntop_field f a H)).
    rewrite (c_pton_ntop f a H). reflexivity.
  Qed.

  Definition fam_tag (f : v1family) : bytes := match f with F1Inet => TCP4 | F1Inet6 => TCP6 end.

  (* parse_pp_line on a TCP4/TCP6 line *)
  Lemma parse_tcp_line : forall f s d sp dp,
    wf_ip (fam_len f) s = true -> wf_ip (fam_len f) d = true -> sp < 65536 -> dp < 65536 ->
    parse_pp_line pton6 ntop6
      (PROXY_SP ++ (fam_tag f ++ SP ++ c_ntop ntop6 f s ++ SP ++ c_ntop ntop6 f d ++ SP ++ dec sp ++ SP ++ dec dp) ++ CRLF)
    = Ok (AIp (c_ntop ntop6 f s) sp, AIp (c_ntop ntop6 f d) dp).
  Proof.
    intros f s d sp dp Hs Hd Hsp Hdp. unfold parse_pp_line.
    rewrite starts_with_app.
    replace (ends_crlf (PROXY_SP ++ (fam_tag f ++ SP ++ c_ntop ntop6 f s ++ SP ++ c_ntop ntop6 f d ++ SP ++ dec sp ++ SP ++ dec dp) ++ CRLF)) with true
      by (rewrite app_assoc; symmetry; apply ends_crlf_snoc).
    cbn [andb negb]. rewrite line_slice.
    unfold SP. cbn [app].
    assert (Hf : field_ok (fam_tag f) = true) by (destruct f; reflexivity).
    rewrite (split_sp_app _ _ Hf).
    rewrite (split_sp_app _ _ (c_ntop_field f s Hs)).
    rewrite (split_sp_app _ _ (c_ntop_field f d Hd)).
    rewrite (split_sp_app _ _ (dec_field sp Hsp)).
    rewrite (split_sp_field _ (dec_field dp Hdp)).
    cbn [fst snd].
    assert (Hfam : beqb (fam_tag f) UNKNOWN = false /\ get_pp_family (fam_tag f) = Ok f)
      by (destruct f; split; reflexivity).
    destruct Hfam as [Hu Hfam]. rewrite Hu, Hfam.
    rewrite (get_pp_ip_ok f s _ Hs), (get_pp_ip_ok f d _ Hd).
    rewrite (get_pp_port_dec sp _ _ Hsp), (get_pp_port_dec dp _ _ Hdp). reflexivity.
  Qed.

  Lemma parse_unknown_line : forall rest,
    (match rest with [] => true | c :: _ => c =? 32 end) = true ->
    parse_pp_line pton6 ntop6 (PROXY_SP ++ (UNKNOWN ++ rest) ++ CRLF) = Ok (ANone, ANone).
  Proof.
    intros rest Hr. unfold parse_pp_line.
    rewrite starts_with_app.
    replace (ends_crlf (PROXY_SP ++ (UNKNOWN ++ rest) ++ CRLF)) with true
      by (rewrite app_assoc; symmetry; apply ends_crlf_snoc).
    cbn [andb negb]. rewrite line_slice.
    assert (Hsplit : fst (split_sp (UNKNOWN ++ rest)) = UNKNOWN).
    { destruct rest as [|c rest].
      - reflexivity.
      - apply N.eqb_eq in Hr. subst c. rewrite split_sp_app by reflexivity. reflexivity. }
    destruct (split_sp (UNKNOWN ++ rest)) as [p0 ps]. cbn [fst] in Hsplit. subst p0.
    reflexivity.
  Qed.
End WithIp6.

(* ------------------------------------------------------------------ v1 lines are line_ok *)
Lemma has_crlf_nolf : forall l, forallb (fun b => negb (b =? 10)) l = true -> has_crlf l = false.
Proof.
  induction l as [|x l IH]; intros H; [reflexivity|].
  cbn [forallb] in H. apply andb_true_iff in H. destruct H as [Hx Hl].
  cbn [has_crlf]. rewrite (IH Hl). destruct l as [|y l]; [reflexivity|].
  cbn [forallb] in Hl. apply andb_true_iff in Hl. destruct Hl as [Hy _].
  replace (y =? 10) with false by lia. rewrite andb_false_r. reflexivity.
Qed.

Lemma has_crlf_nocr_app : forall a b, forallb (fun x => negb (x =? 13)) a = true ->
  has_crlf (a ++ b) = has_crlf b.
Proof.
  induction a as [|x a IH]; intros b H; [reflexivity|].
  cbn [forallb] in H. apply andb_true_iff in H. destruct H as [Hx Ha].
  cbn [app has_crlf]. rewrite (IH b Ha).
  replace (x =? 13) with false by lia. destruct (a ++ b); reflexivity.
Qed.

Lemma has_crlf_snoc_cr : forall l, has_crlf (l ++ [13]) = has_crlf l.
Proof.
  induction l as [|x l IH]; [reflexivity|].
  cbn [app has_crlf]. rewrite IH. destruct l as [|y l]; [|reflexivity].
  cbn [app]. change (13 =? 10) with false. rewrite andb_false_r. reflexivity.
Qed.

Definition line_char (b : N) : bool := field_char b || (b =? 32).

Lemma field_line_char : forall l, field_ok l = true -> forallb line_char l = true.
Proof.
  induction l as [|x l IH]; intros H; [reflexivity|].
  cbn [field_ok forallb] in *. apply andb_true_iff in H. destruct H as [Hx Hl].
  rewrite (IH Hl). unfold line_char. rewrite Hx. reflexivity.
Qed.

Lemma line_char_nolf : forall l, forallb line_char l = true -> forallb (fun b => negb (b =? 10)) l = true.
Proof.
  induction l as [|x l IH]; intros H; [reflexivity|].
  cbn [forallb] in *. apply andb_true_iff in H. destruct H as [Hx Hl].
  rewrite (IH Hl). unfold line_char, field_char in Hx. lia.
Qed.

Lemma line_ok_of_chars : forall body, forallb line_char body = true -> line_ok (PROXY_SP ++ body ++ CRLF).
Proof.
  intros body H. exists (PROXY_SP ++ body). split; [rewrite <- app_assoc; reflexivity|].
  apply has_crlf_nolf. rewrite !forallb_app. rewrite (line_char_nolf _ H). reflexivity.
Qed.

Lemma dec_length : forall n, (1 <= length (dec n) <= 5)%nat.
Proof.
  intros n. unfold dec.
  destruct (n <? 10); [cbn [length]; lia|]. destruct (n <? 100); [cbn [length]; lia|].
  destruct (n <? 1000); [cbn [length]; lia|]. destruct (n <? 10000); cbn [length]; lia.
Qed.

Lemma dec_length_byte : forall n, n < 256 -> (length (dec n) <= 3)%nat.
Proof.
  intros n H. unfold dec.
  destruct (n <? 10); [cbn [length]; lia|]. destruct (n <? 100); [cbn [length]; lia|].
  destruct (n <? 1000) eqn:E; [cbn [length]; lia|lia].
Qed.

Lemma ntop4_length : forall a, wf_ip 4 a = true -> (length (ntop4 a) <= 15)%nat.
Proof.
  intros a H. unfold wf_ip in H. apply andb_true_iff in H. destruct H as [Hl Hb].
  apply Nat.eqb_eq in Hl.
  destruct a as [|a0 [|a1 [|a2 [|a3 [|? ?]]]]]; try discriminate.
  cbn [forallb] in Hb. unfold is_byte in Hb.
  unfold ntop4. rewrite !app_length. cbn [length].
  pose proof (dec_length_byte a0). pose proof (dec_length_byte a1).
  pose proof (dec_length_byte a2). pose proof (dec_length_byte a3). lia.
Qed.

Section WithIp6b.
  Variable pton6 : bytes -> option bytes.
  Variable ntop6 : bytes -> bytes.
  Hypothesis H6 : ip6_oracle pton6 ntop6.

  Lemma c_ntop_length : forall f a, wf_ip (fam_len f) a = true -> (length (c_ntop ntop6 f a) <= 39)%nat.
  Proof. intros [|] a H; [pose proof (ntop4_length a H); cbn [c_ntop]; lia|apply (H6 a H)]. Qed.

  (* the text between "PROXY " and CRLF *)
  Definition v1_body (h : hdr1) : bytes :=
    match h with
    | V1Tcp4 s d sp dp => TCP4 ++ SP ++ ntop4 s ++ SP ++ ntop4 d ++ SP ++ dec sp ++ SP ++ dec dp
    | V1Tcp6 s d sp dp => TCP6 ++ SP ++ ntop6 s ++ SP ++ ntop6 d ++ SP ++ dec sp ++ SP ++ dec dp
    | V1Unknown rest => UNKNOWN ++ rest
    end.

  Lemma enc_v1_shape : forall h, enc_v1 ntop6 h = PROXY_SP ++ v1_body h ++ CRLF.
  Proof. intros [s d sp dp|s d sp dp|rest]; unfold enc_v1, v1_body; repeat rewrite <- app_assoc; reflexivity. Qed.

  Lemma tcp_body_facts : forall f s d sp dp,
    wf_ip (fam_len f) s = true -> wf_ip (fam_len f) d = true -> sp < 65536 -> dp < 65536 ->
    let body := fam_tag f ++ SP ++ c_ntop ntop6 f s ++ SP ++ c_ntop ntop6 f d ++ SP ++ dec sp ++ SP ++ dec dp in
    forallb line_char body = true /\ (length body <= 96)%nat.
  Proof.
    intros f s d sp dp Hs Hd Hsp Hdp body. subst body. split.
    - rewrite !forallb_app.
      rewrite (field_line_char _ (c_ntop_field pton6 ntop6 H6 f s Hs)).
      rewrite (field_line_char _ (c_ntop_field pton6 ntop6 H6 f d Hd)).
      rewrite (field_line_char _ (dec_field sp Hsp)), (field_line_char _ (dec_field dp Hdp)).
      destruct f; reflexivity.
    - rewrite !app_length.
      pose proof (c_ntop_length f s Hs). pose proof (c_ntop_length f d Hd).
      pose proof (dec_length sp). pose proof (dec_length dp).
      assert (length (fam_tag f) = 4%nat) by (destruct f; reflexivity).
      cbn [length SP]. lia.
  Qed.

  Lemma wf1_line : forall h, wf1 h = true ->
    line_ok (enc_v1 ntop6 h) /\ (9 <= length (enc_v1 ntop6 h) <= 107)%nat /\
    parse_pp_line pton6 ntop6 (enc_v1 ntop6 h) = Ok (expect1 ntop6 h).
  Proof.
    intros h Hwf. rewrite enc_v1_shape.
    destruct h as [s d sp dp|s d sp dp|rest]; cbn [wf1] in Hwf.
    - apply andb_true_iff in Hwf. destruct Hwf as [Hwf Hdp]. apply andb_true_iff in Hwf. destruct Hwf as [Hwf Hsp].
      apply andb_true_iff in Hwf. destruct Hwf as [Hs Hd]. unfold wf_port in *.
      destruct (tcp_body_facts F1Inet s d sp dp Hs Hd) as [Hc Hl]; try lia.
      split; [apply line_ok_of_chars; exact Hc|]. split.
      + rewrite !app_length. cbn [c_ntop fam_tag v1_body] in *. cbn [length PROXY_SP CRLF]. rewrite !app_length in *. cbn [length TCP4 SP] in *. lia.
      + apply (parse_tcp_line pton6 ntop6 H6 F1Inet); try assumption; lia.
    - apply andb_true_iff in Hwf. destruct Hwf as [Hwf Hdp]. apply andb_true_iff in Hwf. destruct Hwf as [Hwf Hsp].
      apply andb_true_iff in Hwf. destruct Hwf as [Hs Hd]. unfold wf_port in *.
      destruct (tcp_body_facts F1Inet6 s d sp dp Hs Hd) as [Hc Hl]; try lia.
      split; [apply line_ok_of_chars; exact Hc|]. split.
      + rewrite !app_length. cbn [c_ntop fam_tag v1_body] in *. cbn [length PROXY_SP CRLF]. rewrite !app_length in *. cbn [length TCP6 SP] in *. lia.
      + apply (parse_tcp_line pton6 ntop6 H6 F1Inet6); try assumption; lia.
    - apply andb_true_iff in Hwf. destruct Hwf as [Hwf Hlen]. apply andb_true_iff in Hwf. destruct Hwf as [Hsp Hcr].
      apply Nat.leb_le in Hlen. apply negb_true_iff in Hcr. cbn [v1_body].
      split.
      + exists (PROXY_SP ++ UNKNOWN ++ rest). split; [repeat rewrite <- app_assoc; reflexivity|].
        repeat rewrite <- app_assoc.
        rewrite (has_crlf_nocr_app PROXY_SP) by reflexivity.
        rewrite (has_crlf_nocr_app UNKNOWN) by reflexivity.
        rewrite has_crlf_snoc_cr. exact Hcr.
      + split.
        * rewrite !app_length. cbn [length PROXY_SP UNKNOWN CRLF]. lia.
        * apply parse_unknown_line. exact Hsp.
  Qed.

  (* process_pp_v1 after [initial] has already been taken from the stream *)
  Lemma process_v1_exact : forall h initial rest payload sched,
    wf1 h = true -> initial ++ rest = enc_v1 ntop6 h -> (length initial <= 8)%nat ->
    exists sched',
      process_pp_v1 pton6 ntop6 initial (mk_sock (rest ++ payload) sched)
      = (Ok (expect1 ntop6 h), mk_sock payload sched').
  Proof.
    intros h initial rest payload sched Hwf Hir Hinit.
    destruct (wf1_line h Hwf) as (Hok & Hlen & Hparse).
    destruct (read_pp_line_exact _ initial rest payload sched Hok Hir Hinit Hlen) as (sched' & Hq).
    exists sched'. unfold process_pp_v1. rewrite Hq, Hparse. reflexivity.
  Qed.
End WithIp6b.

(* ------------------------------------------------------------------ v2 *)
Lemma u16_value : forall n, n / 256 * 256 + n mod 256 = n.
Proof. intros. lia. Qed.

Lemma rev_repeat : forall (A : Type) (x : A) n, rev (repeat x n) = repeat x n.
Proof.
  intros A x n. induction n as [|n IH]; [reflexivity|].
  cbn [repeat rev]. rewrite IH. clear IH.
  induction n as [|n IH]; [reflexivity|]. cbn [repeat app]. rewrite IH. reflexivity.
Qed.

Lemma drop0_repeat : forall n l, drop0 (repeat 0 n ++ l) = drop0 l.
Proof. induction n as [|n IH]; intros l; [reflexivity|]. cbn [repeat app drop0]. apply IH. Qed.

Lemma rstrip0_pad : forall p n,
  (match rev p with 0 :: _ => true | _ => false end) = false -> rstrip0 (p ++ repeat 0 n) = p.
Proof.
  intros p n H. unfold rstrip0. rewrite rev_app_distr, rev_repeat, drop0_repeat.
  destruct (rev p) as [|x r] eqn:E.
  - cbn [drop0 rev]. rewrite <- (rev_involutive p), E. reflexivity.
  - destruct x as [|q]; [discriminate|]. cbn [drop0]. rewrite <- E. apply rev_involutive.
Qed.

Lemma pad108_length : forall p, (length p <= 108)%nat -> length (pad108 p) = 108%nat.
Proof. intros p H. unfold pad108. rewrite app_length, repeat_length. lia. Qed.

Lemma wf_ip_split4 : forall a, wf_ip 4 a = true -> exists a0 a1 a2 a3, a = [a0; a1; a2; a3].
Proof.
  intros a H. unfold wf_ip in H. apply andb_true_iff in H. destruct H as [Hl _]. apply Nat.eqb_eq in Hl.
  destruct a as [|a0 [|a1 [|a2 [|a3 [|? ?]]]]]; try discriminate. eauto.
Qed.

Section V2.
  Variable ntop6 : bytes -> bytes.

  Lemma parse_addr_inet : forall s d sp dp tlv,
    wf_ip 4 s = true -> wf_ip 4 d = true ->
    parse_pp_addresses ntop6 (Some FInet) (s ++ d ++ u16 sp ++ u16 dp ++ tlv)
    = Ok (AIp (ntop4 s) (sp / 256 * 256 + sp mod 256), AIp (ntop4 d) (dp / 256 * 256 + dp mod 256)).
  Proof.
    intros s d sp dp tlv Hs Hd.
    destruct (wf_ip_split4 s Hs) as (s0 & s1 & s2 & s3 & ->).
    destruct (wf_ip_split4 d Hd) as (d0 & d1 & d2 & d3 & ->).
    reflexivity.
  Qed.

  Lemma parse_addr_inet6 : forall s d sp dp tlv,
    wf_ip 16 s = true -> wf_ip 16 d = true ->
    parse_pp_addresses ntop6 (Some FInet6) (s ++ d ++ u16 sp ++ u16 dp ++ tlv)
    = Ok (AIp (ntop6 s) (sp / 256 * 256 + sp mod 256), AIp (ntop6 d) (dp / 256 * 256 + dp mod 256)).
  Proof.
    intros s d sp dp tlv Hs Hd.
    unfold wf_ip in Hs, Hd. apply andb_true_iff in Hs, Hd. destruct Hs as [Hs _], Hd as [Hd _].
    apply Nat.eqb_eq in Hs, Hd.
    do 17 (destruct s as [|? s]; try discriminate).
    do 17 (destruct d as [|? d]; try discriminate).
    reflexivity.
  Qed.

  Lemma parse_addr_unix : forall s d tlv,
    wf_path s = true -> wf_path d = true ->
    parse_pp_addresses ntop6 (Some FUnix) (pad108 s ++ pad108 d ++ tlv) = Ok (APath s, APath d).
  Proof.
    intros s d tlv Hs Hd. unfold wf_path in Hs, Hd.
    apply andb_true_iff in Hs, Hd. destruct Hs as [Hs Hs0], Hd as [Hd Hd0].
    apply andb_true_iff in Hs, Hd. destruct Hs as [Hs _], Hd as [Hd _].
    apply Nat.leb_le in Hs, Hd. apply negb_true_iff in Hs0, Hd0.
    unfold parse_pp_addresses.
    assert (E : firstn 216 (pad108 s ++ pad108 d ++ tlv) = pad108 s ++ pad108 d).
    { rewrite app_assoc.
      replace 216%nat with (length (pad108 s ++ pad108 d)) by (rewrite app_length, !pad108_length by lia; reflexivity).
      apply firstn_length_app. }
    rewrite E.
    assert (HlP := pad108_length s Hs). assert (HlQ := pad108_length d Hd).
    assert (F1 : firstn 108 (pad108 s ++ pad108 d) = pad108 s) by (rewrite <- HlP at 1; apply firstn_length_app).
    assert (F2 : skipn 108 (pad108 s ++ pad108 d) = pad108 d) by (rewrite <- HlP at 1; apply skipn_length_app).
    assert (F3 : length (pad108 s ++ pad108 d) = 216%nat) by (rewrite app_length, HlP, HlQ; reflexivity).
    rewrite F1, F2, F3. cbn [Nat.eqb negb].
    unfold pad108. rewrite !rstrip0_pad by assumption. reflexivity.
  Qed.
End V2.

Definition cmd_of (h : hdr2) : command := match h with V2Local _ => CmdLocal | _ => CmdProxy end.
Definition fam_of (h : hdr2) : option family :=
  match h with
  | V2Inet _ _ _ _ _ _ => Some FInet
  | V2Inet6 _ _ _ _ _ _ => Some FInet6
  | V2Unix _ _ _ _ => Some FUnix
  | V2Unspec _ | V2Local _ => None
  end.
Definition hdr16 (h : hdr2) : bytes :=
  SIG12 ++ [v2_vercmd h; v2_famproto h] ++ u16 (N.of_nat (length (v2_block h))).

Lemma enc_v2_shape : forall h, enc_v2 h = hdr16 h ++ v2_block h.
Proof. intros h. unfold enc_v2, hdr16. repeat rewrite <- app_assoc. reflexivity. Qed.

Lemma wf_proto_cases : forall p, wf_proto p = true -> p = 1 \/ p = 2.
Proof. intros p H. unfold wf_proto in H. lia. Qed.

Lemma parse_hdr16 : forall h, wf2 h = true ->
  exists proto, parse_pp_data (hdr16 h) = Ok (cmd_of h, fam_of h, proto, length (v2_block h)).
Proof.
  intros h Hwf. unfold hdr16, u16.
  set (L := N.of_nat (length (v2_block h))).
  assert (HL : N.to_nat (L / 256 * 256 + L mod 256) = length (v2_block h))
    by (rewrite u16_value; unfold L; apply Nat2N.id).
  destruct h as [pr s d sp dp tlv|pr s d sp dp tlv|pr s d tlv|blob|blob]; cbn [wf2] in Hwf.
  - assert (Hp : wf_proto pr = true) by (repeat (apply andb_true_iff in Hwf; destruct Hwf as [Hwf _]); exact Hwf).
    destruct (wf_proto_cases pr Hp) as [-> | ->]; eexists; cbn [cmd_of fam_of]; rewrite <- HL; reflexivity.
  - assert (Hp : wf_proto pr = true) by (repeat (apply andb_true_iff in Hwf; destruct Hwf as [Hwf _]); exact Hwf).
    destruct (wf_proto_cases pr Hp) as [-> | ->]; eexists; cbn [cmd_of fam_of]; rewrite <- HL; reflexivity.
  - assert (Hp : wf_proto pr = true) by (repeat (apply andb_true_iff in Hwf; destruct Hwf as [Hwf _]); exact Hwf).
    destruct (wf_proto_cases pr Hp) as [-> | ->]; eexists; cbn [cmd_of fam_of]; rewrite <- HL; reflexivity.
  - eexists; cbn [cmd_of fam_of]; rewrite <- HL; reflexivity.
  - eexists; cbn [cmd_of fam_of]; rewrite <- HL; reflexivity.
Qed.

Lemma hdr16_length : forall h, length (hdr16 h) = 16%nat.
Proof. reflexivity. Qed.

Section V2b.
  Variable ntop6 : bytes -> bytes.

  Lemma parse_block : forall h, wf2 h = true ->
    parse_pp_addresses ntop6 (fam_of h) (v2_block h)
    = match expect2 ntop6 h with Raise _ => Ok (ANone, ANone) | r => r end.
  Proof.
    intros h Hwf.
    destruct h as [pr s d sp dp tlv|pr s d sp dp tlv|pr s d tlv|blob|blob]; cbn [wf2] in Hwf; cbn [fam_of v2_block expect2].
    - repeat (apply andb_true_iff in Hwf; let H := fresh "H" in destruct Hwf as [Hwf H]).
      rewrite parse_addr_inet by assumption. rewrite !u16_value. reflexivity.
    - repeat (apply andb_true_iff in Hwf; let H := fresh "H" in destruct Hwf as [Hwf H]).
      rewrite parse_addr_inet6 by assumption. rewrite !u16_value. reflexivity.
    - repeat (apply andb_true_iff in Hwf; let H := fresh "H" in destruct Hwf as [Hwf H]).
      rewrite parse_addr_unix by assumption. reflexivity.
    - reflexivity.
    - reflexivity.
  Qed.

  Lemma process_v2_exact : forall h initial rest payload sched,
    wf2 h = true -> initial ++ rest = enc_v2 h -> (length initial <= 16)%nat ->
    exists sched',
      process_pp_v2 ntop6 initial (mk_sock (rest ++ payload) sched)
      = (expect2 ntop6 h, mk_sock payload sched').
  Proof.
    intros h initial rest payload sched Hwf Hir Hinit.
    rewrite enc_v2_shape in Hir.
    assert (Hlen : (length initial + length rest = 16 + length (v2_block h))%nat).
    { rewrite <- app_length, Hir, app_length, hdr16_length. reflexivity. }
    assert (H16 : initial ++ firstn (16 - length initial) rest = hdr16 h).
    { transitivity (firstn 16 (initial ++ rest)).
      - rewrite firstn_app, (firstn_all2 initial) by lia. reflexivity.
      - rewrite Hir. rewrite <- (hdr16_length h). apply firstn_length_app. }
    assert (Hblk : skipn (16 - length initial) rest = v2_block h).
    { transitivity (skipn 16 (initial ++ rest)).
      - rewrite skipn_app, (skipn_all2 initial) by lia. reflexivity.
      - rewrite Hir. rewrite <- (hdr16_length h). apply skipn_length_app. }
    unfold process_pp_v2, read_pp_data.
    destruct (read_fill_exact 16 16 initial (rest ++ payload) sched) as (sched1 & Hq1); [lia|rewrite app_length; lia|].
    rewrite Hq1. rewrite firstn_app_le, skipn_app_le by lia. rewrite H16, Hblk.
    destruct (parse_hdr16 h Hwf) as (proto & Hp). rewrite Hp.
    destruct (read_fill_exact (length (v2_block h)) (length (v2_block h)) [] (v2_block h ++ payload) sched1) as (sched2 & Hq2);
      [cbn [length]; lia|rewrite app_length; cbn [length]; lia|].
    rewrite Hq2. cbn [length app]. rewrite Nat.sub_0_r, firstn_length_app, skipn_length_app.
    rewrite (parse_block h Hwf).
    exists sched2.
    destruct h as [pr s d sp dp tlv|pr s d sp dp tlv|pr s d tlv|blob|blob]; reflexivity.
  Qed.
End V2b.

(* ------------------------------------------------------------------ every input: bounds and exceptions *)
(* results a handler can deal with: a value, the module's AssertionError, and
   (v2 / dispatcher only) LocalConnection *)
Definition benign1 {A} (r : res A) : Prop :=
  match r with Ok _ => True | Raise (EAssert _) => True | _ => False end.
Definition benign2 {A} (r : res A) : Prop :=
  match r with Ok _ => True | Raise (EAssert _) => True | Raise ELocal => True | _ => False end.

Lemma benign1_2 : forall A (r : res A), benign1 r -> benign2 r.
Proof. intros A [a|[]|]; cbn; tauto. Qed.

Lemma read_pp_line_general : forall initial s r s',
  (length initial <= 8)%nat ->
  read_pp_line initial s = (r, s') ->
  (exists pre, took s s' pre /\ (length initial + length pre <= 107)%nat) /\ benign1 r.
Proof.
  intros initial s r s' Hinit H. unfold read_pp_line in H.
  destruct (read_fill 8 8 initial s) as [r1 s1] eqn:E1.
  destruct (read_fill_general _ _ _ _ _ _ E1) as (pre1 & Ht1 & Hl1 & Hr1).
  destruct r1 as [read|e|].
  - destruct Hr1 as [-> Hge].
    assert (Hlr : (length (initial ++ pre1) <= 107)%nat) by (rewrite app_length; lia).
    destruct (line_loop_general _ _ _ _ _ Hlr H) as (pre2 & Ht2 & Hl2 & Hr2).
    split.
    + exists (pre1 ++ pre2). unfold took in *. split.
      * rewrite Ht1, Ht2, app_assoc. reflexivity.
      * rewrite app_length in *. lia.
    + destruct r as [x|e|]; cbn [benign1]; [exact I|subst e; exact I|lia].
  - inversion H; subst. split.
    + exists pre1. split; [exact Ht1|lia].
    + cbn [benign1]. exact I.
  - lia.
Qed.

Section Total.
  Variable pton6 : bytes -> option bytes.
  Variable ntop6 : bytes -> bytes.

  Lemma get_pp_ip_benign : forall f s w, benign1 (get_pp_ip pton6 ntop6 f s w).
  Proof.
    intros f s w. unfold get_pp_ip, py_decode_ascii, py_inet_pton.
    destruct (forallb (fun b => b <? 128) s); [|exact I].
    destruct (existsb (fun b => b =? 0) s); [exact I|].
    destruct (c_pton pton6 f s); exact I.
  Qed.

  Lemma get_pp_port_benign : forall p w1 w2, benign1 (get_pp_port p w1 w2).
  Proof.
    intros p w1 w2. unfold get_pp_port. destruct (port_guard p); [|exact I].
    destruct (dec_val p <=? 65535); exact I.
  Qed.

  Lemma parse_pp_line_benign : forall line, benign1 (parse_pp_line pton6 ntop6 line).
  Proof.
    intros line. unfold parse_pp_line.
    destruct (negb (starts_with PROXY_SP line && ends_crlf line)); [exact I|].
    destruct (split_sp (skipn 6 (firstn (length line - 2) line))) as [p0 rest].
    destruct (beqb p0 UNKNOWN); [exact I|].
    unfold get_pp_family. destruct (beqb p0 TCP4).
    - destruct rest as [|p1 [|p2 [|p3 [|p4 [|? ?]]]]]; try exact I.
      pose proof (get_pp_ip_benign F1Inet p1 W_SRC_IP) as B1.
      destruct (get_pp_ip pton6 ntop6 F1Inet p1 W_SRC_IP) as [sip|e|]; [|exact B1|exact B1].
      pose proof (get_pp_port_benign p3 W_SRC_PORT W_SRC_RANGE) as B2.
      destruct (get_pp_port p3 W_SRC_PORT W_SRC_RANGE) as [sport|e|]; [|exact B2|exact B2].
      pose proof (get_pp_ip_benign F1Inet p2 W_DST_IP) as B3.
      destruct (get_pp_ip pton6 ntop6 F1Inet p2 W_DST_IP) as [dip|e|]; [|exact B3|exact B3].
      pose proof (get_pp_port_benign p4 W_DST_PORT W_DST_RANGE) as B4.
      destruct (get_pp_port p4 W_DST_PORT W_DST_RANGE) as [dport|e|]; [exact I|exact B4|exact B4].
    - destruct (beqb p0 TCP6); [|exact I].
      destruct rest as [|p1 [|p2 [|p3 [|p4 [|? ?]]]]]; try exact I.
      pose proof (get_pp_ip_benign F1Inet6 p1 W_SRC_IP) as B1.
      destruct (get_pp_ip pton6 ntop6 F1Inet6 p1 W_SRC_IP) as [sip|e|]; [|exact B1|exact B1].
      pose proof (get_pp_port_benign p3 W_SRC_PORT W_SRC_RANGE) as B2.
      destruct (get_pp_port p3 W_SRC_PORT W_SRC_RANGE) as [sport|e|]; [|exact B2|exact B2].
      pose proof (get_pp_ip_benign F1Inet6 p2 W_DST_IP) as B3.
      destruct (get_pp_ip pton6 ntop6 F1Inet6 p2 W_DST_IP) as [dip|e|]; [|exact B3|exact B3].
      pose proof (get_pp_port_benign p4 W_DST_PORT W_DST_RANGE) as B4.
      destruct (get_pp_port p4 W_DST_PORT W_DST_RANGE) as [dport|e|]; [exact I|exact B4|exact B4].
  Qed.

  Lemma process_v1_general : forall initial s r s',
    (length initial <= 8)%nat ->
    process_pp_v1 pton6 ntop6 initial s = (r, s') ->
    (exists pre, took s s' pre /\ (length initial + length pre <= 107)%nat) /\ benign1 r.
  Proof.
    intros initial s r s' Hinit H. unfold process_pp_v1 in H.
    destruct (read_pp_line initial s) as [r1 s1] eqn:E1.
    destruct (read_pp_line_general _ _ _ _ Hinit E1) as [Hpre Hb].
    destruct r1 as [line|e|]; inversion H; subst.
    - split; [exact Hpre|apply parse_pp_line_benign].
    - split; [exact Hpre|exact Hb].
    - split; [exact Hpre|exact Hb].
  Qed.
End Total.

Lemma beqb_true : forall a b, beqb a b = true -> a = b.
Proof.
  induction a as [|x a IH]; intros [|y b] H; try discriminate; [reflexivity|].
  cbn [beqb] in H. apply andb_true_iff in H. destruct H as [Hx Hab].
  apply N.eqb_eq in Hx. subst y. f_equal. apply IH. exact Hab.
Qed.

(* what __parse_pp_data can answer for a 16-byte block, and the link between
   the length it returns and the declared length of the stream *)
Lemma parse_pp_data_cases : forall data, length data = 16%nat ->
  match parse_pp_data data with
  | Ok (_, _, _, n) => forall rest, declared (data ++ rest) = n
  | Raise (EAssert _) => True
  | _ => False
  end.
Proof.
  intros data Hlen. unfold parse_pp_data.
  destruct (beqb (firstn 12 data) SIG12) eqn:Esig; cbn [negb]; [|exact I].
  apply beqb_true in Esig.
  assert (Hd : data = firstn 12 data ++ skipn 12 data) by (symmetry; apply firstn_skipn).
  assert (Hs : length (skipn 12 data) = 4%nat) by (rewrite skipn_length; lia).
  destruct (skipn 12 data) as [|b12 [|b13 [|b14 [|b15 [|? ?]]]]]; try discriminate.
  rewrite Esig in Hd.
  destruct (negb (N.land b12 240 =? 32)); [exact I|].
  destruct (match N.land b12 15 with 0 => Some CmdLocal | 1 => Some CmdProxy | _ => None end) as [c|]; [|exact I].
  destruct ((match c with CmdLocal => true | CmdProxy => false end)
            || Bool.eqb (is_none (match N.land b13 240 with 16 => Some FInet | 32 => Some FInet6 | 48 => Some FUnix | _ => None end))
                        (is_none (match N.land b13 15 with 1 => Some 1 | 2 => Some 2 | _ => None end))); [|exact I].
  intros rest. rewrite Hd. reflexivity.
Qed.

Lemma parse_pp_addresses_cases : forall ntop6 fam d,
  match parse_pp_addresses ntop6 fam d with
  | Ok _ => True
  | Raise EStruct => True
  | _ => False
  end.
Proof.
  intros ntop6 fam d. unfold parse_pp_addresses.
  destruct fam as [[| |]|]; try exact I.
  - destruct (negb (length (firstn 12 d) =? 12)%nat); exact I.
  - destruct (negb (length (firstn 36 d) =? 36)%nat); exact I.
  - destruct (negb (length (firstn 216 d) =? 216)%nat); exact I.
Qed.

Lemma starts_with_app_true : forall p a b, starts_with p a = true -> starts_with p (a ++ b) = true.
Proof.
  induction p as [|x p IH]; intros a b H; [reflexivity|].
  destruct a as [|y a]; [discriminate|]. cbn [starts_with app] in *.
  apply andb_true_iff in H. destruct H as [Hx Hp]. rewrite Hx, (IH a b Hp). reflexivity.
Qed.

Lemma starts_with_app_long : forall p a b, (length p <= length a)%nat ->
  starts_with p (a ++ b) = starts_with p a.
Proof.
  induction p as [|x p IH]; intros a b H; [reflexivity|].
  destruct a as [|y a]; [cbn [length] in H; lia|]. cbn [starts_with app].
  rewrite (IH a b) by (cbn [length] in H; lia). reflexivity.
Qed.

Section Total2.
  Variable ntop6 : bytes -> bytes.

  Lemma process_v2_general : forall initial s r s',
    (length initial <= 16)%nat ->
    process_pp_v2 ntop6 initial s = (r, s') ->
    (exists pre, took s s' pre /\
       (length initial + length pre <= 16 + declared (initial ++ s_data s))%nat) /\ benign2 r.
  Proof.
    intros initial s r s' Hinit H. unfold process_pp_v2, read_pp_data in H.
    destruct (read_fill 16 16 initial s) as [r1 s1] eqn:E1.
    destruct (read_fill_general _ _ _ _ _ _ E1) as (pre1 & Ht1 & Hl1 & Hr1).
    destruct r1 as [data|e|].
    - destruct Hr1 as [-> Hge].
      assert (Hd16 : length (initial ++ pre1) = 16%nat) by (rewrite app_length in *; lia).
      pose proof (parse_pp_data_cases _ Hd16) as Hp.
      destruct (parse_pp_data (initial ++ pre1)) as [[[[cmd fam] proto] addr_len]|e|].
      + specialize (Hp (s_data s1)).
        assert (Hdecl : declared (initial ++ s_data s) = addr_len).
        { unfold took in Ht1. rewrite Ht1, app_assoc. exact Hp. }
        destruct (read_fill addr_len addr_len [] s1) as [r2 s2] eqn:E2.
        destruct (read_fill_general _ _ _ _ _ _ E2) as (pre2 & Ht2 & Hl2 & Hr2).
        cbn [length] in Hl2, Hr2.
        assert (Hpre : exists pre, took s s2 pre /\ (length initial + length pre <= 16 + declared (initial ++ s_data s))%nat).
        { exists (pre1 ++ pre2). unfold took in *. split.
          - rewrite Ht1, Ht2, app_assoc. reflexivity.
          - rewrite Hdecl. rewrite app_length in *. lia. }
        destruct r2 as [addr_data|e|].
        * pose proof (parse_pp_addresses_cases ntop6 fam addr_data) as Ha.
          destruct (parse_pp_addresses ntop6 fam addr_data) as [ret|e|].
          { destruct cmd; inversion H; subst; split; try exact Hpre; exact I. }
          { destruct e; try contradiction. inversion H; subst. split; [exact Hpre|exact I]. }
          { contradiction. }
        * subst e. inversion H; subst. split; [exact Hpre|exact I].
        * lia.
      + destruct e; try contradiction. inversion H; subst. split; [|exact I].
        exists pre1. split; [exact Ht1|]. rewrite app_length in *. lia.
      + contradiction.
    - subst e. inversion H; subst. split; [|exact I].
      exists pre1. split; [exact Ht1|lia].
    - lia.
  Qed.

  Variable pton6 : bytes -> option bytes.

  Lemma process_auto_general : forall s r s',
    process_auto pton6 ntop6 s = (r, s') ->
    (exists pre, took s s' pre /\
       (length pre <= if starts_with PROXY_SP (s_data s) then 107 else 16 + declared (s_data s))%nat) /\ benign2 r.
  Proof.
    intros s r s' H. unfold process_auto in H.
    destruct (read_fill 8 8 [] s) as [r0 s0] eqn:E0.
    destruct (read_fill_general _ _ _ _ _ _ E0) as (pre0 & Ht0 & Hl0 & Hr0).
    cbn [length] in Hl0.
    destruct r0 as [initial|e|].
    - destruct Hr0 as [Hi Hge]. cbn [app] in Hi. subst initial.
      assert (H8 : length pre0 = 8%nat) by lia.
      unfold took in Ht0.
      destruct (starts_with PROXY_SP pre0) eqn:Ep.
      + destruct (process_v1_general pton6 ntop6 pre0 s0 r s' ltac:(lia) H) as [(pre & Ht & Hl) Hb].
        split; [|apply benign1_2; exact Hb].
        exists (pre0 ++ pre). unfold took in *. split.
        * rewrite Ht0, Ht, app_assoc. reflexivity.
        * rewrite Ht0, (starts_with_app_true _ _ _ Ep). rewrite app_length. lia.
      + assert (Hnp : starts_with PROXY_SP (s_data s) = false).
        { rewrite Ht0, starts_with_app_long by (rewrite H8; cbn [length PROXY_SP]; lia). exact Ep. }
        rewrite Hnp.
        destruct (beqb pre0 SIG8) eqn:Es.
        * destruct (process_v2_general pre0 s0 r s' ltac:(lia) H) as [(pre & Ht & Hl) Hb].
          split; [|exact Hb].
          exists (pre0 ++ pre). unfold took in *. split.
          { rewrite Ht0, Ht, app_assoc. reflexivity. }
          { rewrite Ht0. rewrite app_length. exact Hl. }
        * inversion H; subst. split; [|exact I].
          exists pre0. split; [exact Ht0|lia].
    - subst e. inversion H; subst. split; [|exact I].
      exists pre0. split; [exact Ht0|]. destruct (starts_with PROXY_SP (s_data s)); lia.
    - lia.
  Qed.
End Total2.

(* ------------------------------------------------------------------ the property theorems *)
Definition consumed (s s' : sock) : nat := (length (s_data s) - length (s_data s'))%nat.

(* outcomes of handle() the property allows *)
Definition settled (h : hres) : Prop :=
  match h with
  | HAddr _ | HInvalid _ | HLocal => True
  | HEscape _ | HFuel => False
  end.

Lemma consumed_app : forall hdr payload sched sched',
  consumed (mk_sock (hdr ++ payload) sched) (mk_sock payload sched') = length hdr.
Proof. intros. unfold consumed. cbn [s_data]. rewrite app_length. lia. Qed.

Lemma read_initial_exact : forall data sched, (8 <= length data)%nat ->
  exists sched1, read_fill 8 8 [] (mk_sock data sched) = (Ok (firstn 8 data), mk_sock (skipn 8 data) sched1).
Proof.
  intros data sched H.
  destruct (read_fill_exact 8 8 [] data sched) as (sched1 & Hq); [cbn [length]; lia|cbn [length]; lia|].
  exists sched1. exact Hq.
Qed.

Section Theorems.
  Variable pton6 : bytes -> option bytes.
  Variable ntop6 : bytes -> bytes.
  Hypothesis H6 : ip6_oracle pton6 ntop6.

  Lemma v1_exact : forall h payload sched, wf1 h = true ->
    exists s',
      process_pp_v1 pton6 ntop6 [] (mk_sock (enc_v1 ntop6 h ++ payload) sched) = (Ok (expect1 ntop6 h), s') /\
      handle_v1 pton6 ntop6 (mk_sock (enc_v1 ntop6 h ++ payload) sched) = (HAddr (fst (expect1 ntop6 h)), s') /\
      s_data s' = payload /\
      consumed (mk_sock (enc_v1 ntop6 h ++ payload) sched) s' = length (enc_v1 ntop6 h).
  Proof.
    intros h payload sched Hwf.
    destruct (process_v1_exact pton6 ntop6 H6 h [] (enc_v1 ntop6 h) payload sched Hwf eq_refl) as (sched' & Hq);
      [cbn [length]; lia|].
    exists (mk_sock payload sched'). split; [exact Hq|]. split.
    - unfold handle_v1. rewrite Hq. destruct (expect1 ntop6 h). reflexivity.
    - split; [reflexivity|apply consumed_app].
  Qed.

  Lemma v2_exact : forall h payload sched, wf2 h = true ->
    exists s',
      process_pp_v2 ntop6 [] (mk_sock (enc_v2 h ++ payload) sched) = (expect2 ntop6 h, s') /\
      handle_v2 ntop6 (mk_sock (enc_v2 h ++ payload) sched)
        = (match expect2 ntop6 h with Ok (src, _) => HAddr src | _ => HLocal end, s') /\
      s_data s' = payload /\
      consumed (mk_sock (enc_v2 h ++ payload) sched) s' = length (enc_v2 h).
  Proof.
    intros h payload sched Hwf.
    destruct (process_v2_exact ntop6 h [] (enc_v2 h) payload sched Hwf eq_refl) as (sched' & Hq);
      [cbn [length]; lia|].
    exists (mk_sock payload sched'). split; [exact Hq|]. split.
    - unfold handle_v2, finish. rewrite Hq. destruct h; reflexivity.
    - split; [reflexivity|apply consumed_app].
  Qed.

  Lemma auto_v1 : forall h payload sched, wf1 h = true ->
    exists s',
      process_auto pton6 ntop6 (mk_sock (enc_v1 ntop6 h ++ payload) sched) = (Ok (expect1 ntop6 h), s') /\
      s_data s' = payload.
  Proof.
    intros h payload sched Hwf.
    destruct (wf1_line pton6 ntop6 H6 h Hwf) as (_ & Hlen & _).
    unfold process_auto.
    destruct (read_initial_exact (enc_v1 ntop6 h ++ payload) sched) as (sched1 & Hq); [rewrite app_length; lia|].
    rewrite Hq. rewrite firstn_app_le, skipn_app_le by lia.
    assert (Hsw : starts_with PROXY_SP (firstn 8 (enc_v1 ntop6 h)) = true).
    { rewrite enc_v1_shape. reflexivity. }
    rewrite Hsw.
    destruct (process_v1_exact pton6 ntop6 H6 h (firstn 8 (enc_v1 ntop6 h)) (skipn 8 (enc_v1 ntop6 h)) payload sched1 Hwf)
      as (sched' & Hq2); [apply firstn_skipn|rewrite firstn_length; lia|].
    exists (mk_sock payload sched'). split; [exact Hq2|reflexivity].
  Qed.

  Lemma auto_v2 : forall h payload sched, wf2 h = true ->
    exists s',
      process_auto pton6 ntop6 (mk_sock (enc_v2 h ++ payload) sched) = (expect2 ntop6 h, s') /\
      s_data s' = payload.
  Proof.
    intros h payload sched Hwf.
    assert (Hlen : (16 <= length (enc_v2 h))%nat) by (rewrite enc_v2_shape, app_length, hdr16_length; lia).
    unfold process_auto.
    destruct (read_initial_exact (enc_v2 h ++ payload) sched) as (sched1 & Hq); [rewrite app_length; lia|].
    rewrite Hq. rewrite firstn_app_le, skipn_app_le by lia.
    assert (Hsw : starts_with PROXY_SP (firstn 8 (enc_v2 h)) = false) by reflexivity.
    assert (Hbq : beqb (firstn 8 (enc_v2 h)) SIG8 = true) by reflexivity.
    rewrite Hsw, Hbq.
    destruct (process_v2_exact ntop6 h (firstn 8 (enc_v2 h)) (skipn 8 (enc_v2 h)) payload sched1 Hwf)
      as (sched' & Hq2); [apply firstn_skipn|rewrite firstn_length; lia|].
    exists (mk_sock payload sched'). split; [exact Hq2|reflexivity].
  Qed.
End Theorems.

Section EveryV2.
  Variable ntop6 : bytes -> bytes.

  Lemma finish_settled : forall r s', benign2 r -> settled (fst (finish (r, s'))).
  Proof.
    intros [[src dst]|e|] s' H; cbn [finish fst settled]; try exact I.
    - destruct e; cbn in *; tauto.
    - contradiction.
  Qed.

  Lemma bounded_v2 : forall s, exists pre,
    s_data s = pre ++ s_data (snd (handle_v2 ntop6 s)) /\ (length pre <= 16 + declared (s_data s))%nat.
  Proof.
    intros s. unfold handle_v2.
    destruct (process_pp_v2 ntop6 [] s) as [r s'] eqn:E.
    destruct (process_v2_general ntop6 [] s r s' ltac:(cbn [length]; lia) E) as [(pre & Ht & Hl) _].
    exists pre. cbn [length app] in Hl. split; [|lia].
    unfold finish. destruct r as [[src dst]|[]|]; exact Ht.
  Qed.

  Lemma total_v2 : forall s, settled (fst (handle_v2 ntop6 s)).
  Proof.
    intros s. unfold handle_v2.
    destruct (process_pp_v2 ntop6 [] s) as [r s'] eqn:E.
    destruct (process_v2_general ntop6 [] s r s' ltac:(cbn [length]; lia) E) as [_ Hb].
    apply finish_settled. exact Hb.
  Qed.
End EveryV2.

Section Every.
  Variable pton6 : bytes -> option bytes.
  Variable ntop6 : bytes -> bytes.

  Lemma bounded_v1 : forall s, exists pre,
    s_data s = pre ++ s_data (snd (handle_v1 pton6 ntop6 s)) /\ (length pre <= 107)%nat.
  Proof.
    intros s. unfold handle_v1.
    destruct (process_pp_v1 pton6 ntop6 [] s) as [r s'] eqn:E.
    destruct (process_v1_general pton6 ntop6 [] s r s' ltac:(cbn [length]; lia) E) as [(pre & Ht & Hl) _].
    exists pre. cbn [length] in Hl. split; [|lia].
    destruct r as [[src dst]|[]|]; exact Ht.
  Qed.

  Lemma bounded_auto : forall s, exists pre,
    s_data s = pre ++ s_data (snd (handle_auto pton6 ntop6 s)) /\
    (length pre <= if starts_with PROXY_SP (s_data s) then 107 else 16 + declared (s_data s))%nat.
  Proof.
    intros s. unfold handle_auto.
    destruct (process_auto pton6 ntop6 s) as [r s'] eqn:E.
    destruct (process_auto_general ntop6 pton6 s r s' E) as [(pre & Ht & Hl) _].
    exists pre. split; [|exact Hl].
    unfold finish. destruct r as [[src dst]|[]|]; exact Ht.
  Qed.

  Lemma total_v1 : forall s,
    match fst (handle_v1 pton6 ntop6 s) with HAddr _ | HInvalid _ => True | _ => False end.
  Proof.
    intros s. unfold handle_v1.
    destruct (process_pp_v1 pton6 ntop6 [] s) as [r s'] eqn:E.
    destruct (process_v1_general pton6 ntop6 [] s r s' ltac:(cbn [length]; lia) E) as [_ Hb].
    destruct r as [[src dst]|[]|]; cbn in *; tauto.
  Qed.

  Lemma total_auto : forall s, settled (fst (handle_auto pton6 ntop6 s)).
  Proof.
    intros s. unfold handle_auto.
    destruct (process_auto pton6 ntop6 s) as [r s'] eqn:E.
    destruct (process_auto_general ntop6 pton6 s r s' E) as [_ Hb].
    apply finish_settled. exact Hb.
  Qed.
End Every.

(* ------------------------------------------------------------------ the hypotheses are satisfiable *)
Example wf1_tcp4_example : wf1 (V1Tcp4 [192; 168; 0; 1] [10; 0; 0; 255] 56324 25) = true.
Proof. reflexivity. Qed.
Example wf1_tcp6_example :
  wf1 (V1Tcp6 [32; 1; 13; 184; 0; 0; 0; 0; 0; 0; 0; 0; 0; 0; 0; 1] [0; 0; 0; 0; 0; 0; 0; 0; 0; 0; 255; 255; 1; 2; 3; 4] 65535 0) = true.
Proof. reflexivity. Qed.
Example wf1_unknown_example : wf1 (V1Unknown [32; 120; 13; 121]) = true.
Proof. reflexivity. Qed.
Example wf2_inet_example : wf2 (V2Inet 1 [1; 2; 3; 4] [5; 6; 7; 8] 4321 25 [4; 0; 1; 0]) = true.
Proof. reflexivity. Qed.
Example wf2_unix_example : wf2 (V2Unix 2 [47; 97] [0; 98] [1; 2; 3]) = true.
Proof. reflexivity. Qed.
Example wf2_local_example : wf2 (V2Local [1; 2]) = true.
Proof. reflexivity. Qed.

Lemma hexval_hexdig : forall d, d < 16 -> hexval (hexdig d) = Some d.
Proof.
  intros d H. unfold hexdig, hexval, is_digit.
  destruct (d <? 10) eqn:E.
  - replace ((48 <=? 48 + d) && (48 + d <=? 57)) with true by lia. f_equal. lia.
  - replace ((48 <=? 87 + d) && (87 + d <=? 57)) with false by lia.
    replace ((97 <=? 87 + d) && (87 + d <=? 102)) with true by lia. f_equal. lia.
Qed.

(* ================================================================== *)
(* The glibc IPv6 text algorithms of model/Proxy.v satisfy ip6_oracle. *)

Definition wbytes (ws : list N) : bytes := flat_map (fun w => [w / 256; w mod 256]) ws.
Definition cgroups (ws : list N) : bytes := flat_map (fun w => 58 :: hex w) ws.
Definition groups (ws : list N) : bytes :=
  match ws with [] => [] | w :: r => hex w ++ cgroups r end.
Definition words_ok (ws : list N) : Prop := Forall (fun w => w < 65536) ws.

Lemma hexdig_not_colon : forall d, d < 16 -> (hexdig d =? 58) = false.
Proof. intros d H. unfold hexdig. destruct (d <? 10) eqn:E; lia. Qed.

Lemma hex_step : forall d s ct tp cp seen val,
  d < 16 -> seen < 4 -> val * 16 + d <= 65535 ->
  pton6_go (hexdig d :: s) ct tp cp seen val = pton6_go s ct tp cp (seen + 1) (val * 16 + d).
Proof.
  intros d s ct tp cp seen val Hd Hs Hv. cbn [pton6_go]. rewrite hexval_hexdig by exact Hd.
  replace (seen =? 4) with false by lia. replace (65535 <? val * 16 + d) with false by lia. reflexivity.
Qed.

Lemma hex_group : forall w s ct tp cp, w < 65536 ->
  exists n, 1 <= n <= 4 /\ pton6_go (hex w ++ s) ct tp cp 0 0 = pton6_go s ct tp cp n w.
Proof.
  intros w s ct tp cp Hw. unfold hex.
  destruct (w <? 16) eqn:E1.
  { exists 1. split; [lia|]. cbn [app]. rewrite hex_step by lia. f_equal. }
  destruct (w <? 256) eqn:E2.
  { exists 2. split; [lia|]. cbn [app]. rewrite !hex_step by lia. f_equal. lia. }
  destruct (w <? 4096) eqn:E3.
  { exists 3. split; [lia|]. cbn [app]. rewrite !hex_step by lia. f_equal. lia. }
  exists 4. split; [lia|]. cbn [app]. rewrite !hex_step by lia. f_equal. lia.
Qed.

Lemma hex_head : forall w, w < 65536 -> exists d t, d < 16 /\ hex w = hexdig d :: t.
Proof.
  intros w Hw. unfold hex.
  destruct (w <? 16) eqn:E1; [exists w; eexists; split; [lia|reflexivity]|].
  destruct (w <? 256) eqn:E2; [exists (w / 16); eexists; split; [lia|reflexivity]|].
  destruct (w <? 4096) eqn:E3; [exists (w / 256); eexists; split; [lia|reflexivity]|].
  exists (w / 4096); eexists; split; [lia|reflexivity].
Qed.

Lemma colon_sep : forall s ct tp cp n w,
  1 <= n -> s <> [] -> (length tp + 2 <= 16)%nat ->
  pton6_go (58 :: s) ct tp cp n w = pton6_go s s (tp ++ [w / 256; w mod 256]) cp 0 0.
Proof.
  intros s ct tp cp n w Hn Hs Hl. cbn [pton6_go].
  change (hexval 58) with (@None N). change (58 =? 58) with true. cbv iota.
  replace (n =? 0) with false by lia.
  destruct s as [|c s]; [congruence|].
  replace (16 <? length tp + 2)%nat with false by (symmetry; apply Nat.ltb_ge; lia). reflexivity.
Qed.

Lemma colon_double : forall s ct tp val,
  pton6_go (58 :: s) ct tp None 0 val = pton6_go s s tp (Some (length tp)) 0 val.
Proof. intros. reflexivity. Qed.

Lemma wbytes_app : forall a b, wbytes (a ++ b) = wbytes a ++ wbytes b.
Proof. intros. apply flat_map_app. Qed.

Lemma wbytes_length : forall ws, length (wbytes ws) = (2 * length ws)%nat.
Proof. unfold wbytes. induction ws as [|w ws IH]; [reflexivity|]. cbn [flat_map app length]. rewrite IH. lia. Qed.

(* a non-empty run of groups, starting at a token boundary *)
Lemma parse_groups : forall r w s ct tp cp,
  words_ok (w :: r) -> (length tp + 2 * length r <= 16)%nat ->
  exists ct' n, 1 <= n <= 4 /\
    pton6_go (groups (w :: r) ++ s) ct tp cp 0 0
    = pton6_go s ct' (tp ++ wbytes (removelast (w :: r))) cp n (last (w :: r) 0).
Proof.
  induction r as [|w2 r IH]; intros w s ct tp cp Hok Hlen.
  - inversion Hok; subst. cbn [groups cgroups flat_map]. rewrite app_nil_r.
    destruct (hex_group w s ct tp cp H1) as (n & Hn & Hq).
    exists ct, n. split; [exact Hn|]. rewrite Hq. cbn [removelast wbytes flat_map last]. rewrite app_nil_r. reflexivity.
  - inversion Hok; subst.
    assert (Hg : groups (w :: w2 :: r) ++ s = hex w ++ 58 :: (groups (w2 :: r) ++ s)).
    { unfold groups, cgroups. cbn [flat_map app]. repeat rewrite <- app_assoc. cbn [app].
      repeat rewrite <- app_assoc. reflexivity. }
    rewrite Hg.
    destruct (hex_group w (58 :: (groups (w2 :: r) ++ s)) ct tp cp H1) as (n & Hn & Hq).
    rewrite Hq. cbn [length] in Hlen.
    rewrite colon_sep; [|lia| |lia].
    2:{ inversion H2; subst. destruct (hex_head w2 H3) as (d & t & _ & Hh).
        cbn [groups]. rewrite Hh. discriminate. }
    destruct (IH w2 s (groups (w2 :: r) ++ s) (tp ++ [w / 256; w mod 256]) cp H2) as (ct' & n' & Hn' & Hq').
    { rewrite app_length. cbn [length]. lia. }
    exists ct', n'. split; [exact Hn'|]. rewrite Hq'.
    change (removelast (w :: w2 :: r)) with (w :: removelast (w2 :: r)).
    change (last (w :: w2 :: r) 0) with (last (w2 :: r) 0).
    cbn [wbytes flat_map]. rewrite <- !app_assoc. reflexivity.
Qed.

Lemma wbytes_snoc : forall r w, wbytes (removelast (w :: r)) ++ [last (w :: r) 0 / 256; last (w :: r) 0 mod 256] = wbytes (w :: r).
Proof.
  induction r as [|w2 r IH]; intros w; [reflexivity|].
  change (removelast (w :: w2 :: r)) with (w :: removelast (w2 :: r)).
  change (last (w :: w2 :: r) 0) with (last (w2 :: r) 0).
  change (wbytes (w :: removelast (w2 :: r))) with ([w / 256; w mod 256] ++ wbytes (removelast (w2 :: r))).
  change (wbytes (w :: w2 :: r)) with ([w / 256; w mod 256] ++ wbytes (w2 :: r)).
  rewrite <- app_assoc, IH. reflexivity.
Qed.

Lemma removelast_length : forall (A : Type) (x : A) l, length (removelast (x :: l)) = length l.
Proof.
  intros A x l. revert x. induction l as [|y l IH]; intros x; [reflexivity|].
  change (removelast (x :: y :: l)) with (x :: removelast (y :: l)). cbn [length]. rewrite IH. reflexivity.
Qed.

(* the loop on a whole string made of groups *)
Lemma go_groups_end : forall w r ct tp cp,
  words_ok (w :: r) -> (length tp + 2 * length r + 2 <= 16)%nat ->
  exists st, pton6_go (groups (w :: r)) ct tp cp 0 0 = Some st /\
    exists n, 1 <= n <= 4 /\ st = (tp ++ wbytes (removelast (w :: r)), cp, n, last (w :: r) 0).
Proof.
  intros w r ct tp cp Hok Hlen.
  destruct (parse_groups r w [] ct tp cp Hok ltac:(lia)) as (ct' & n & Hn & Hq).
  rewrite app_nil_r in Hq. rewrite Hq. cbn [pton6_go]. eexists. split; [reflexivity|].
  exists n. split; [exact Hn|reflexivity].
Qed.

Lemma finish_pending : forall tp cp n w r,
  1 <= n -> (length tp + 2 * length r + 2 <= 16)%nat ->
  pton6_finish (tp ++ wbytes (removelast (w :: r)), cp, n, last (w :: r) 0)
  = pton6_finish (tp ++ wbytes (w :: r), cp, 0, 0).
Proof.
  intros tp cp n w r Hn Hlen. unfold pton6_finish.
  replace (0 <? n) with true by lia. change (0 <? 0) with false. cbv iota.
  replace (16 <? length (tp ++ wbytes (removelast (w :: r))) + 2)%nat with false.
  2:{ symmetry. apply Nat.ltb_ge. rewrite app_length, wbytes_length, removelast_length. lia. }
  rewrite <- app_assoc, wbytes_snoc. reflexivity.
Qed.

Lemma start_group : forall w r s, words_ok (w :: r) ->
  pton6_start (groups (w :: r) ++ s) = Some (groups (w :: r) ++ s).
Proof.
  intros w r s Hok. inversion Hok; subst.
  destruct (hex_head w H1) as (d & t & Hd & Hh).
  cbn [groups]. rewrite Hh. cbn [app pton6_start]. rewrite hexdig_not_colon by exact Hd. reflexivity.
Qed.

Lemma pton6_plain : forall w r, length r = 7%nat -> words_ok (w :: r) ->
  glibc_pton6 (groups (w :: r)) = Some (wbytes (w :: r)).
Proof.
  intros w r Hl Hok. unfold glibc_pton6.
  rewrite <- (app_nil_r (groups (w :: r))), start_group by exact Hok. rewrite app_nil_r.
  destruct (go_groups_end w r (groups (w :: r)) [] None Hok) as (st & Hgo & n & Hn & Hst); [cbn [length]; lia|].
  rewrite Hgo, Hst, finish_pending by (cbn [length]; lia).
  cbn [app]. unfold pton6_finish. change (0 <? 0) with false. cbv iota.
  rewrite wbytes_length. cbn [length]. rewrite Hl. reflexivity.
Qed.

Lemma finish_dc : forall tp X v, (length tp + length X < 16)%nat ->
  pton6_finish (tp ++ X, Some (length tp), 0, v)
  = Some (tp ++ repeat 0 (16 - length tp - length X) ++ X).
Proof.
  intros tp X v H. unfold pton6_finish. change (0 <? 0) with false. cbv iota.
  replace (length (tp ++ X) =? 16)%nat with false by (symmetry; apply Nat.eqb_neq; rewrite app_length; lia).
  rewrite firstn_length_app, skipn_length_app.
  replace (16 - length (tp ++ X))%nat with (16 - length tp - length X)%nat by (rewrite app_length; lia).
  replace (Nat.eqb (length (tp ++ repeat 0 (16 - length tp - length X) ++ X)) 16) with true; [reflexivity|].
  symmetry. apply Nat.eqb_eq. rewrite !app_length, repeat_length. lia.
Qed.

(* everything after the "::" *)
Lemma after_dc : forall B ct tp, words_ok B -> (length tp + 2 * length B <= 14)%nat ->
  exists st, pton6_go (groups B) ct tp (Some (length tp)) 0 0 = Some st /\
    pton6_finish st = Some (tp ++ repeat 0 (16 - length tp - 2 * length B) ++ wbytes B).
Proof.
  intros B ct tp Hok Hlen. destruct B as [|w r].
  - cbn [groups pton6_go]. eexists. split; [reflexivity|].
    rewrite <- (app_nil_r tp) at 1. rewrite finish_dc by (cbn [length]; lia).
    cbn [length wbytes flat_map]. replace (16 - length tp - 2 * 0)%nat with (16 - length tp - 0)%nat by lia. reflexivity.
  - cbn [length] in Hlen.
    destruct (go_groups_end w r ct tp (Some (length tp)) Hok) as (st & Hgo & n & Hn & Hst); [lia|].
    exists st. split; [exact Hgo|]. rewrite Hst, finish_pending by lia.
    rewrite finish_dc by (rewrite wbytes_length; cbn [length]; lia).
    rewrite wbytes_length. reflexivity.
Qed.

Lemma pton6_dc : forall A B, words_ok A -> words_ok B -> (length A + length B <= 7)%nat ->
  glibc_pton6 (groups A ++ 58 :: 58 :: groups B)
  = Some (wbytes A ++ repeat 0 (16 - 2 * length A - 2 * length B) ++ wbytes B).
Proof.
  intros A B HA HB Hlen. unfold glibc_pton6. destruct A as [|w r].
  - cbn [groups app pton6_start]. change (58 =? 58) with true. cbv iota.
    rewrite colon_double. cbn [length].
    destruct (after_dc B (groups B) [] HB) as (st & Hgo & Hfin); [cbn [length] in *; lia|].
    cbn [length] in Hgo. rewrite Hgo, Hfin. cbn [length wbytes flat_map app]. reflexivity.
  - rewrite start_group by exact HA. cbn [length] in Hlen.
    destruct (parse_groups r w (58 :: 58 :: groups B) (groups (w :: r) ++ 58 :: 58 :: groups B) [] None HA)
      as (ct' & n & Hn & Hq); [cbn [length]; lia|].
    rewrite Hq. cbn [app].
    rewrite colon_sep; [|lia|discriminate|rewrite wbytes_length, removelast_length; lia].
    rewrite wbytes_snoc, colon_double.
    destruct (after_dc B (groups B) (wbytes (w :: r)) HB) as (st & Hgo & Hfin);
      [rewrite wbytes_length; cbn [length]; lia|].
    rewrite Hgo, Hfin. rewrite wbytes_length. reflexivity.
Qed.

(* the dotted quad at the end of an encapsulated IPv4 address *)
Lemma dec_digit_step : forall d s ct tp cp seen val,
  d < 10 -> seen < 4 -> val * 16 + d <= 65535 ->
  pton6_go ((48 + d) :: s) ct tp cp seen val = pton6_go s ct tp cp (seen + 1) (val * 16 + d).
Proof.
  intros d s ct tp cp seen val Hd Hs Hv. cbn [pton6_go]. unfold hexval. rewrite is_digit_48 by exact Hd.
  replace (48 + d - 48) with d by lia.
  replace (seen =? 4) with false by lia. replace (65535 <? val * 16 + d) with false by lia. reflexivity.
Qed.

Lemma dec_as_hex : forall o s ct tp cp, o < 256 ->
  exists n v, pton6_go (dec o ++ s) ct tp cp 0 0 = pton6_go s ct tp cp n v.
Proof.
  intros o s ct tp cp Ho. unfold dec.
  destruct (o <? 10) eqn:E1; [cbn [app]; rewrite dec_digit_step by lia; eauto|].
  destruct (o <? 100) eqn:E2; [cbn [app]; rewrite !dec_digit_step by lia; eauto|].
  destruct (o <? 1000) eqn:E3; [cbn [app]; rewrite !dec_digit_step by lia; eauto|lia].
Qed.

Lemma dot_v4 : forall s ct tp cp n v a4, (length tp + 4 <= 16)%nat -> pton4 ct = Some a4 ->
  pton6_go (46 :: s) ct tp cp n v = Some (tp ++ a4, cp, 0, v).
Proof.
  intros s ct tp cp n v a4 Hl Hp. cbn [pton6_go].
  change (hexval 46) with (@None N). change (46 =? 58) with false. change (46 =? 46) with true. cbv iota.
  replace (length tp + 4 <=? 16)%nat with true by (symmetry; apply Nat.leb_le; lia).
  cbn [andb]. rewrite Hp. reflexivity.
Qed.

Lemma go_v4 : forall v4 tp cp, wf_ip 4 v4 = true -> (length tp + 4 <= 16)%nat ->
  exists v, pton6_go (ntop4 v4) (ntop4 v4) tp cp 0 0 = Some (tp ++ v4, cp, 0, v).
Proof.
  intros v4 tp cp Hwf Hl. pose proof (pton4_ntop4 v4 Hwf) as Hp.
  destruct (wf_ip_split4 v4 Hwf) as (a0 & a1 & a2 & a3 & ->).
  unfold wf_ip in Hwf. apply andb_true_iff in Hwf. destruct Hwf as [_ Hb].
  cbn [forallb] in Hb. unfold is_byte in Hb.
  remember (ntop4 [a0; a1; a2; a3]) as ct eqn:Hct.
  assert (Hct' : ct = dec a0 ++ 46 :: (dec a1 ++ [46] ++ dec a2 ++ [46] ++ dec a3)) by (rewrite Hct; reflexivity).
  clear Hct.
  destruct (dec_as_hex a0 (46 :: (dec a1 ++ [46] ++ dec a2 ++ [46] ++ dec a3)) ct tp cp ltac:(lia)) as (n & v & Hq).
  exists v. rewrite Hct' at 1. rewrite Hq. apply dot_v4; assumption.
Qed.

Lemma pton6_emb6 : forall v4, wf_ip 4 v4 = true ->
  glibc_pton6 (58 :: 58 :: ntop4 v4) = Some (repeat 0 12 ++ v4).
Proof.
  intros v4 Hwf. unfold glibc_pton6. cbn [pton6_start]. change (58 =? 58) with true. cbv iota.
  rewrite colon_double. cbn [length].
  destruct (go_v4 v4 [] (Some 0%nat) Hwf ltac:(cbn [length]; lia)) as (v & Hgo).
  rewrite Hgo. cbn [app].
  assert (Hl : length v4 = 4%nat).
  { unfold wf_ip in Hwf. apply andb_true_iff in Hwf. destruct Hwf as [Hl _]. apply Nat.eqb_eq in Hl. exact Hl. }
  etransitivity; [apply (finish_dc [] v4 v); cbn [length]; lia|]. cbn [length app]. rewrite Hl. reflexivity.
Qed.

Lemma ntop4_nonempty : forall v4, wf_ip 4 v4 = true -> ntop4 v4 <> [].
Proof.
  intros v4 Hwf. destruct (wf_ip_split4 v4 Hwf) as (a0 & a1 & a2 & a3 & ->).
  unfold ntop4. pose proof (dec_length a0). destruct (dec a0); [cbn [length] in *; lia|discriminate].
Qed.

Lemma pton6_emb5 : forall v4, wf_ip 4 v4 = true ->
  glibc_pton6 (58 :: 58 :: hex 65535 ++ 58 :: ntop4 v4) = Some (repeat 0 10 ++ [255; 255] ++ v4).
Proof.
  intros v4 Hwf. unfold glibc_pton6. cbn [pton6_start]. change (58 =? 58) with true. cbv iota.
  rewrite colon_double. cbn [length].
  destruct (hex_group 65535 (58 :: ntop4 v4) (hex 65535 ++ 58 :: ntop4 v4) [] (Some 0%nat) ltac:(lia)) as (n & Hn & Hq).
  rewrite Hq. rewrite colon_sep; [|lia|apply ntop4_nonempty; exact Hwf|cbn [length]; lia].
  cbn [app]. change (65535 / 256) with 255. change (65535 mod 256) with 255.
  destruct (go_v4 v4 [255; 255] (Some 0%nat) Hwf ltac:(cbn [length]; lia)) as (v & Hgo).
  rewrite Hgo.
  assert (Hl : length v4 = 4%nat).
  { unfold wf_ip in Hwf. apply andb_true_iff in Hwf. destruct Hwf as [Hl _]. apply Nat.eqb_eq in Hl. exact Hl. }
  etransitivity; [apply (finish_dc [] ([255; 255] ++ v4) v); cbn [length app]; lia|]. cbn [length app]. rewrite Hl. reflexivity.
Qed.

(* ------------------------------------------------------------------ inet_ntop6: the shape of its output *)
Lemma render_none : forall ws i v4, (0 < i)%nat -> render6 i ws None false v4 = cgroups ws.
Proof.
  induction ws as [|w ws IH]; intros i v4 Hi; [reflexivity|].
  cbn [render6]. replace (i =? 0)%nat with false by (symmetry; apply Nat.eqb_neq; lia).
  rewrite andb_false_r. rewrite IH by lia. reflexivity.
Qed.

Lemma render_after : forall ws i b l v4, (b + l <= i)%nat -> (0 < i)%nat ->
  render6 i ws (Some (b, l)) false v4 = cgroups ws.
Proof.
  induction ws as [|w ws IH]; intros i b l v4 Hbl Hi; [reflexivity|].
  cbn [render6].
  replace (i <? b + l)%nat with false by (symmetry; apply Nat.ltb_ge; lia). rewrite andb_false_r.
  replace (i =? 0)%nat with false by (symmetry; apply Nat.eqb_neq; lia).
  rewrite andb_false_r. rewrite IH by lia. reflexivity.
Qed.

Lemma render_inside : forall run rest i b l v4, (b < i)%nat -> (i + length run = b + l)%nat ->
  render6 i (run ++ rest) (Some (b, l)) false v4 = render6 (b + l) rest (Some (b, l)) false v4.
Proof.
  induction run as [|x run IH]; intros rest i b l v4 Hb Hl.
  - cbn [length app] in *. replace i with (b + l)%nat by lia. reflexivity.
  - cbn [length] in Hl. cbn [app render6].
    replace (b <=? i)%nat with true by (symmetry; apply Nat.leb_le; lia).
    replace (i <? b + l)%nat with true by (symmetry; apply Nat.ltb_lt; lia).
    replace (i =? b)%nat with false by (symmetry; apply Nat.eqb_neq; lia).
    cbn [andb app]. apply IH; lia.
Qed.

Lemma render_run : forall run rest b l v4, (1 <= length run)%nat -> length run = l ->
  render6 b (run ++ rest) (Some (b, l)) false v4 = 58 :: cgroups rest.
Proof.
  intros run rest b l v4 H1 Hl. destruct run as [|x run]; [cbn [length] in H1; lia|].
  cbn [length] in Hl. cbn [app render6].
  replace (b <=? b)%nat with true by (symmetry; apply Nat.leb_le; lia).
  replace (b <? b + l)%nat with true by (symmetry; apply Nat.ltb_lt; lia).
  rewrite Nat.eqb_refl. cbn [andb app]. f_equal.
  destruct run as [|y run].
  - cbn [app]. cbn [length] in *. apply render_after; lia.
  - cbn [length] in *. rewrite render_inside by (cbn [length]; lia). apply render_after; lia.
Qed.

Lemma render_before : forall pre rest i b l v4, (0 < i)%nat -> (i + length pre <= b)%nat ->
  render6 i (pre ++ rest) (Some (b, l)) false v4
  = cgroups pre ++ render6 (i + length pre) rest (Some (b, l)) false v4.
Proof.
  induction pre as [|w pre IH]; intros rest i b l v4 Hi Hb.
  - cbn [app length cgroups flat_map]. rewrite Nat.add_0_r. reflexivity.
  - cbn [length] in Hb. cbn [app render6].
    replace (b <=? i)%nat with false by (symmetry; apply Nat.leb_gt; lia). cbn [andb].
    replace (i =? 0)%nat with false by (symmetry; apply Nat.eqb_neq; lia).
    rewrite andb_false_r. rewrite IH by lia.
    unfold cgroups. cbn [flat_map app length]. rewrite <- app_assoc.
    replace (S i + length pre)%nat with (i + S (length pre))%nat by lia. reflexivity.
Qed.

(* ws = A ++ run ++ B, the run being the "::" *)
Lemma render_shape : forall A run B l v4, (1 <= l)%nat -> length run = l ->
  render6 0 (A ++ run ++ B) (Some (length A, l)) false v4 = groups A ++ 58 :: cgroups B.
Proof.
  intros A run B l v4 H1 Hl. destruct A as [|w A].
  - cbn [app length groups]. apply render_run; lia.
  - cbn [app length render6 Nat.leb andb Nat.eqb groups].
    rewrite (render_before A (run ++ B) 1 (S (length A)) l v4) by lia.
    replace (1 + length A)%nat with (S (length A)) by lia.
    rewrite render_run by lia. rewrite <- app_assoc. reflexivity.
Qed.

Definition run_check (ws : list N) (r : zrun) : bool :=
  match r with
  | None => true
  | Some (b, l) => (2 <=? l)%nat && (b + l <=? 8)%nat && forallb (fun w => w =? 0) (firstn l (skipn b ws))
  end.

Lemma best_run_check : forall w0 w1 w2 w3 w4 w5 w6 w7,
  run_check [w0; w1; w2; w3; w4; w5; w6; w7] (best_run [w0; w1; w2; w3; w4; w5; w6; w7]) = true.
Proof.
  intros.
  destruct w0, w1, w2, w3, w4, w5, w6, w7; vm_compute; reflexivity.
Qed.

Lemma zeros_repeat : forall l, forallb (fun w => w =? 0) l = true -> l = repeat 0 (length l).
Proof.
  induction l as [|x l IH]; intros H; [reflexivity|].
  cbn [forallb] in H. apply andb_true_iff in H. destruct H as [Hx Hl].
  apply N.eqb_eq in Hx. subst x. cbn [length repeat]. f_equal. apply IH. exact Hl.
Qed.

Lemma wbytes_repeat0 : forall n, wbytes (repeat 0 n) = repeat 0 (2 * n).
Proof.
  induction n as [|n IH]; [reflexivity|].
  replace (2 * S n)%nat with (S (S (2 * n))) by lia. cbn [repeat]. rewrite <- IH. reflexivity.
Qed.

Lemma hexdig_field' : forall d, d < 16 -> field_char (hexdig d) = true.
Proof. intros d H. unfold hexdig, field_char. destruct (d <? 10) eqn:E; lia. Qed.

Lemma hex_field : forall w, w < 65536 -> field_ok (hex w) = true /\ (1 <= length (hex w) <= 4)%nat.
Proof.
  intros w Hw. unfold hex, field_ok.
  destruct (w <? 16) eqn:E1; [cbn [forallb length]; rewrite hexdig_field' by lia; split; [reflexivity|lia]|].
  destruct (w <? 256) eqn:E2; [cbn [forallb length]; rewrite !hexdig_field' by lia; split; [reflexivity|lia]|].
  destruct (w <? 4096) eqn:E3; [cbn [forallb length]; rewrite !hexdig_field' by lia; split; [reflexivity|lia]|].
  cbn [forallb length]; rewrite !hexdig_field' by lia; split; [reflexivity|lia].
Qed.

Lemma cgroups_field : forall ws, words_ok ws ->
  field_ok (cgroups ws) = true /\ (length (cgroups ws) <= 5 * length ws)%nat.
Proof.
  induction ws as [|w ws IH]; intros Hok; [split; [reflexivity|cbn [length cgroups flat_map]; lia]|].
  inversion Hok; subst. destruct (IH H2) as [Hf Hl]. destruct (hex_field w H1) as [Hhf Hhl].
  unfold cgroups in *. cbn [flat_map app]. split.
  - change (field_ok (58 :: hex w ++ flat_map (fun w0 => 58 :: hex w0) ws))
      with (field_char 58 && field_ok (hex w ++ flat_map (fun w0 => 58 :: hex w0) ws)).
    rewrite field_ok_app, Hhf, Hf. reflexivity.
  - cbn [length]. rewrite app_length. lia.
Qed.

Lemma groups_field : forall ws, words_ok ws ->
  field_ok (groups ws) = true /\ (length (groups ws) + 1 <= 5 * length ws + (if length ws =? 0 then 1 else 0))%nat.
Proof.
  intros [|w r] Hok; [split; reflexivity|].
  inversion Hok; subst. destruct (cgroups_field r H2) as [Hf Hl]. destruct (hex_field w H1) as [Hhf Hhl].
  cbn [groups]. rewrite field_ok_app, Hhf, Hf. split; [reflexivity|].
  rewrite app_length. cbn [length Nat.eqb]. lia.
Qed.

Definition emb_flag (best : zrun) (ws : list N) : bool :=
  match best with
  | Some (O, 6%nat) => true
  | Some (O, 5%nat) => nth 5 ws 0 =? 65535
  | _ => false
  end.

Lemma ntop6w_unfold : forall ws v4,
  ntop6w ws v4 = render6 0 ws (best_run ws) (emb_flag (best_run ws) ws) v4
                 ++ (match best_run ws with Some (b, l) => if (b + l =? 8)%nat then [58] else [] | None => [] end).
Proof. reflexivity. Qed.

Lemma emb_flag_true : forall b l ws, emb_flag (Some (b, l)) ws = true ->
  b = 0%nat /\ (l = 6%nat \/ (l = 5%nat /\ nth 5 ws 0 = 65535)).
Proof.
  intros b l ws H. unfold emb_flag in H.
  destruct b as [|b]; [|discriminate]. split; [reflexivity|].
  destruct l as [|[|[|[|[|[|[|l]]]]]]]; try discriminate.
  - right. split; [reflexivity|]. apply N.eqb_eq. exact H.
  - left. reflexivity.
Qed.

(* the four forms inet_ntop6 produces, with what they stand for *)
Inductive shape (ws : list N) (v4 : bytes) (text : bytes) : Prop :=
| ShPlain : text = groups ws -> shape ws v4 text
| ShRun (A B : list N) :
    text = groups A ++ 58 :: 58 :: groups B -> (length A + length B <= 6)%nat ->
    words_ok A -> words_ok B ->
    wbytes ws = wbytes A ++ repeat 0 (16 - 2 * length A - 2 * length B) ++ wbytes B -> shape ws v4 text
| ShEmb6 : text = 58 :: 58 :: ntop4 v4 -> wbytes ws = repeat 0 12 ++ v4 -> shape ws v4 text
| ShEmb5 : text = 58 :: 58 :: hex 65535 ++ 58 :: ntop4 v4 -> wbytes ws = repeat 0 10 ++ [255; 255] ++ v4 -> shape ws v4 text.

Lemma ntop6w_shape : forall w0 w1 w2 w3 w4 w5 w6 w7,
  let ws := [w0; w1; w2; w3; w4; w5; w6; w7] in
  let v4 := wbytes [w6; w7] in
  words_ok ws -> shape ws v4 (ntop6w ws v4).
Proof.
  intros w0 w1 w2 w3 w4 w5 w6 w7 ws v4 Hok.
  pose proof (best_run_check w0 w1 w2 w3 w4 w5 w6 w7) as Hc. fold ws in Hc.
  rewrite ntop6w_unfold.
  destruct (best_run ws) as [[b l]|] eqn:E.
  2:{ apply ShPlain. unfold emb_flag. subst ws. rewrite app_nil_r. reflexivity. }
  cbn [run_check] in Hc. apply andb_true_iff in Hc. destruct Hc as [Hc Hz].
  apply andb_true_iff in Hc. destruct Hc as [Hl2 Hbl]. apply Nat.leb_le in Hl2, Hbl.
  destruct (emb_flag (Some (b, l)) ws) eqn:Ef.
  - destruct (emb_flag_true _ _ _ Ef) as [-> [-> | [-> Hw5]]].
    + (* ::a.b.c.d *)
      subst ws. unfold firstn, skipn in Hz. cbn [forallb] in Hz.
      repeat (apply andb_true_iff in Hz; let H := fresh "Hz" in destruct Hz as [H Hz]).
      apply N.eqb_eq in Hz0, Hz1, Hz2, Hz3, Hz4, Hz5. subst.
      apply ShEmb6; [|reflexivity].
      change (0 + 6 =? 8)%nat with false. cbv iota. rewrite app_nil_r. reflexivity.
    + subst ws. cbn [nth] in Hw5. unfold firstn, skipn in Hz. cbn [forallb] in Hz.
      repeat (apply andb_true_iff in Hz; let H := fresh "Hz" in destruct Hz as [H Hz]).
      apply N.eqb_eq in Hz0, Hz1, Hz2, Hz3, Hz4. subst.
      apply ShEmb5; [|reflexivity].
      change (0 + 5 =? 8)%nat with false. cbv iota. rewrite app_nil_r. reflexivity.
  - set (A := firstn b ws). set (run := firstn l (skipn b ws)). set (B := skipn l (skipn b ws)).
    assert (Hws : ws = A ++ run ++ B).
    { unfold A, run, B. rewrite firstn_skipn, firstn_skipn. reflexivity. }
    assert (HlA : length A = b) by (unfold A; apply firstn_length_le; subst ws; cbn [length]; lia).
    assert (Hlr : length run = l).
    { unfold run. apply firstn_length_le. rewrite skipn_length. subst ws. cbn [length]. lia. }
    assert (HlB : (length B = 8 - b - l)%nat).
    { unfold B. rewrite !skipn_length. subst ws. cbn [length]. lia. }
    assert (Hrun : run = repeat 0 l) by (rewrite <- Hlr; apply zeros_repeat; exact Hz).
    assert (HokA : words_ok A /\ words_ok B).
    { unfold words_ok in *. rewrite Hws in Hok. apply Forall_app in Hok. destruct Hok as [HA Hr].
      apply Forall_app in Hr. destruct Hr as [_ HB]. split; assumption. }
    destruct HokA as [HokA HokB].
    apply (ShRun _ _ _ A B); try assumption; [|lia|].
    + rewrite Hws at 1. rewrite <- HlA. rewrite render_shape by lia.
      rewrite HlA. destruct B as [|wb rb].
      * cbn [length] in HlB. replace (b + l =? 8)%nat with true by (symmetry; apply Nat.eqb_eq; lia).
        cbn [cgroups flat_map groups]. rewrite <- app_assoc. reflexivity.
      * cbn [length] in HlB. replace (b + l =? 8)%nat with false by (symmetry; apply Nat.eqb_neq; lia).
        rewrite app_nil_r. reflexivity.
    + rewrite Hws at 1. rewrite !wbytes_app, Hrun, wbytes_repeat0.
      replace (16 - 2 * length A - 2 * length B)%nat with (2 * l)%nat by lia. reflexivity.
Qed.

Lemma shape_ok : forall ws v4 text,
  length ws = 8%nat -> words_ok ws -> wf_ip 4 v4 = true -> shape ws v4 text ->
  glibc_pton6 text = Some (wbytes ws) /\ field_ok text = true /\ (length text <= 39)%nat.
Proof.
  intros ws v4 text Hl Hok Hv4 [Ht | A B Ht HAB HA HB Hw | Ht Hw | Ht Hw]; subst text.
  - destruct ws as [|w r]; [discriminate|]. cbn [length] in Hl.
    split; [apply pton6_plain; [lia|exact Hok]|].
    destruct (groups_field (w :: r) Hok) as [Hf Hlen]. split; [exact Hf|].
    cbn [length] in Hlen. replace (length r) with 7%nat in Hlen by lia. cbn [Nat.eqb] in Hlen. lia.
  - split; [rewrite pton6_dc by (try assumption; lia); rewrite Hw; reflexivity|].
    destruct (groups_field A HA) as [HfA HlA]. destruct (groups_field B HB) as [HfB HlB].
    split.
    + rewrite field_ok_app, HfA.
      change (field_ok (58 :: 58 :: groups B)) with (field_char 58 && (field_char 58 && field_ok (groups B))).
      rewrite HfB. reflexivity.
    + rewrite app_length. cbn [length].
      destruct (length A =? 0)%nat, (length B =? 0)%nat; lia.
  - split; [rewrite pton6_emb6 by exact Hv4; rewrite Hw; reflexivity|].
    split.
    + change (field_ok (58 :: 58 :: ntop4 v4)) with (field_char 58 && (field_char 58 && field_ok (ntop4 v4))).
      rewrite ntop4_field by exact Hv4. reflexivity.
    + cbn [length]. pose proof (ntop4_length v4 Hv4). lia.
  - split; [rewrite pton6_emb5 by exact Hv4; rewrite Hw; reflexivity|].
    split.
    + change (field_ok (58 :: 58 :: hex 65535 ++ 58 :: ntop4 v4))
        with (field_char 58 && (field_char 58 && field_ok (hex 65535 ++ 58 :: ntop4 v4))).
      rewrite field_ok_app.
      change (field_ok (58 :: ntop4 v4)) with (field_char 58 && field_ok (ntop4 v4)).
      rewrite ntop4_field by exact Hv4. reflexivity.
    + cbn [length]. rewrite app_length. cbn [length]. pose proof (ntop4_length v4 Hv4).
      change (length (hex 65535)) with 4%nat. lia.
Qed.

(* the glibc algorithms of the model are an instance of the IPv6 oracle *)
Lemma glibc_ip6_oracle : ip6_oracle glibc_pton6 glibc_ntop6.
Proof.
  intros a Hwf. unfold wf_ip in Hwf. apply andb_true_iff in Hwf. destruct Hwf as [Hl Hb].
  apply Nat.eqb_eq in Hl.
  do 17 (destruct a as [|? a]; try discriminate). clear Hl.
  cbn [forallb] in Hb. unfold is_byte in Hb.
  repeat (apply andb_true_iff in Hb; let H := fresh "Hb" in destruct Hb as [H Hb]). clear Hb.
  unfold glibc_ntop6. cbn [words_of]. unfold skipn.
  set (w0 := n * 256 + n0). set (w1 := n1 * 256 + n2). set (w2 := n3 * 256 + n4). set (w3 := n5 * 256 + n6).
  set (w4 := n7 * 256 + n8). set (w5 := n9 * 256 + n10). set (w6 := n11 * 256 + n12). set (w7 := n13 * 256 + n14).
  assert (Hv4 : [n11; n12; n13; n14] = wbytes [w6; w7]).
  { unfold wbytes, w6, w7. cbn [flat_map app]. repeat (f_equal; try lia). }
  assert (Ha : [n; n0; n1; n2; n3; n4; n5; n6; n7; n8; n9; n10; n11; n12; n13; n14]
               = wbytes [w0; w1; w2; w3; w4; w5; w6; w7]).
  { unfold wbytes, w0, w1, w2, w3, w4, w5, w6, w7. cbn [flat_map app]. repeat (f_equal; try lia). }
  rewrite Ha, Hv4.
  apply (shape_ok [w0; w1; w2; w3; w4; w5; w6; w7] (wbytes [w6; w7])).
  - reflexivity.
  - unfold words_ok, w0, w1, w2, w3, w4, w5, w6, w7. repeat (constructor; try lia).
  - rewrite <- Hv4. unfold wf_ip, is_byte. cbn [length Nat.eqb forallb]. lia.
  - apply ntop6w_shape.
    unfold words_ok, w0, w1, w2, w3, w4, w5, w6, w7. repeat (constructor; try lia).
Qed.

(* the hypothesis of the exactness theorems is satisfiable - by the very
   functions the extracted model runs *)
Example ip6_oracle_satisfiable : ip6_oracle glibc_pton6 glibc_ntop6.
Proof. exact glibc_ip6_oracle. Qed.

(* ================================================================== *)
(* Coroutine form = big-step form; concurrent connections are independent. *)

Lemma run_p_fill : forall fuel target read k s,
  run_proc (p_fill fuel target read k) s
  = let '(r, s1) := read_fill fuel target read s in run_proc (k r) s1.
Proof.
  induction fuel as [|f IH]; intros target read k s; cbn [p_fill read_fill].
  - destruct (target <=? length read)%nat; reflexivity.
  - destruct (target <=? length read)%nat; [reflexivity|].
    cbn [run_proc]. destruct (recv_into s (target - length read)) as [chunk s'].
    destruct chunk as [|c chunk]; [reflexivity|]. apply IH.
Qed.

Lemma run_p_line_loop : forall fuel read k s,
  run_proc (p_line_loop fuel read k) s
  = let '(r, s1) := read_line_loop fuel read s in run_proc (k r) s1.
Proof.
  induction fuel as [|f IH]; intros read k s; cbn [p_line_loop read_line_loop].
  - destruct (107 <=? length read)%nat; reflexivity.
  - destruct (107 <=? length read)%nat; [reflexivity|].
    cbn [run_proc].
    destruct (recv_into s (Nat.min (107 - length read) (if ends_cr read then 1 else 2))) as [chunk s'].
    destruct chunk as [|c chunk]; [reflexivity|].
    destruct (ends_crlf (read ++ c :: chunk)); [reflexivity|]. apply IH.
Qed.

Lemma run_p_read_pp_line : forall initial k s,
  run_proc (p_read_pp_line initial k) s
  = let '(r, s1) := read_pp_line initial s in run_proc (k r) s1.
Proof.
  intros initial k s. unfold p_read_pp_line, read_pp_line. rewrite run_p_fill.
  destruct (read_fill 8 8 initial s) as [[read|e|] s1]; [|reflexivity|reflexivity].
  apply run_p_line_loop.
Qed.

Section Refines.
  Variable pton6 : bytes -> option bytes.
  Variable ntop6 : bytes -> bytes.

  Lemma run_p_process_v1 : forall initial s,
    run_proc (p_process_v1 pton6 ntop6 initial) s = process_pp_v1 pton6 ntop6 initial s.
  Proof.
    intros initial s. unfold p_process_v1, process_pp_v1. rewrite run_p_read_pp_line.
    destruct (read_pp_line initial s) as [[line|e|] s1]; reflexivity.
  Qed.

  Lemma run_p_process_v2 : forall initial s,
    run_proc (p_process_v2 ntop6 initial) s = process_pp_v2 ntop6 initial s.
  Proof.
    intros initial s. unfold p_process_v2, process_pp_v2, read_pp_data. rewrite run_p_fill.
    destruct (read_fill 16 16 initial s) as [[data|e|] s1]; cbn [run_proc].
    - destruct (parse_pp_data data) as [[[[cmd fam] proto] addr_len]|e|]; cbn [run_proc].
      + rewrite run_p_fill.
        destruct (read_fill addr_len addr_len [] s1) as [[addr_data|e|] s2]; cbn [run_proc].
        * destruct (parse_pp_addresses ntop6 fam addr_data) as [ret|e|].
          { destruct cmd; reflexivity. }
          { destruct e; reflexivity. }
          { reflexivity. }
        * destruct e; reflexivity.
        * reflexivity.
      + destruct e; reflexivity.
      + reflexivity.
    - destruct e; reflexivity.
    - reflexivity.
  Qed.

  Lemma run_p_process_auto : forall s,
    run_proc (p_process_auto pton6 ntop6) s = process_auto pton6 ntop6 s.
  Proof.
    intros s. unfold p_process_auto, process_auto. rewrite run_p_fill.
    destruct (read_fill 8 8 [] s) as [[initial|e|] s1]; [|reflexivity|reflexivity].
    destruct (starts_with PROXY_SP initial); [apply run_p_process_v1|].
    destruct (beqb initial SIG8); [apply run_p_process_v2|reflexivity].
  Qed.
End Refines.

(* ------------------------------------------------------------------ interleavings *)
Fixpoint iter_step (n : nat) (c : conn) : conn :=
  match n with O => c | S n' => iter_step n' (step_conn c) end.

Definition count_pick (i : nat) (picks : list nat) : nat := count_occ Nat.eq_dec picks i.

Lemma step_nth_same : forall cs i d, (i < length cs)%nat ->
  nth i (step_nth i cs) d = step_conn (nth i cs d).
Proof.
  induction cs as [|c cs IH]; intros i d H; [cbn [length] in H; lia|].
  destruct i as [|i]; [reflexivity|]. cbn [step_nth nth]. apply IH. cbn [length] in H. lia.
Qed.

Lemma step_nth_other : forall cs i j d, i <> j -> nth j (step_nth i cs) d = nth j cs d.
Proof.
  induction cs as [|c cs IH]; intros i j d H; [reflexivity|].
  destruct i as [|i]; destruct j as [|j]; try reflexivity; try congruence.
  cbn [step_nth nth]. apply IH. congruence.
Qed.

Lemma step_nth_length : forall cs i, length (step_nth i cs) = length cs.
Proof.
  induction cs as [|c cs IH]; intros i; [reflexivity|].
  destruct i as [|i]; cbn [step_nth length]; [reflexivity|]. rewrite IH. reflexivity.
Qed.

(* whatever the schedule does with the other connections, connection j has
   simply made as many of its own steps as the schedule gave it *)
Lemma run_conns_nth : forall picks cs j d, (j < length cs)%nat ->
  nth j (run_conns picks cs) d = iter_step (count_pick j picks) (nth j cs d).
Proof.
  induction picks as [|i picks IH]; intros cs j d Hj; [reflexivity|].
  cbn [run_conns]. rewrite IH by (rewrite step_nth_length; exact Hj).
  unfold count_pick. cbn [count_occ]. destruct (Nat.eq_dec i j) as [->|Hne].
  - cbn [iter_step]. rewrite step_nth_same by exact Hj. reflexivity.
  - rewrite step_nth_other by exact Hne. reflexivity.
Qed.

Lemma run_proc_step : forall c, run_proc (fst (step_conn c)) (snd (step_conn c)) = run_proc (fst c) (snd c).
Proof.
  intros [p s]. unfold step_conn. cbn [fst snd]. destruct p as [r|n k]; [reflexivity|].
  cbn [run_proc]. destruct (recv_into s n) as [chunk s']. reflexivity.
Qed.

Lemma run_proc_iter : forall n c,
  run_proc (fst (iter_step n c)) (snd (iter_step n c)) = run_proc (fst c) (snd c).
Proof.
  induction n as [|n IH]; intros c; [reflexivity|].
  cbn [iter_step]. rewrite IH. apply run_proc_step.
Qed.

(* a reader that has finished in a concurrent run has the result, and has left
   its socket in the state, of running alone on its own byte stream and read sizes *)
Lemma connections_independent : forall picks cs j p s r s',
  nth_error cs j = Some (p, s) ->
  nth_error (run_conns picks cs) j = Some (PDone r, s') ->
  run_proc p s = (r, s').
Proof.
  intros picks cs j p s r s' Hj Hr.
  assert (Hlen : (j < length cs)%nat) by (apply nth_error_Some; congruence).
  pose proof (run_conns_nth picks cs j (p, s) Hlen) as Hn.
  assert (E1 : @nth conn j cs (p, s) = (p, s)) by exact (nth_error_nth cs j (p, s) Hj).
  assert (E2 : @nth conn j (run_conns picks cs) (p, s) = (PDone r, s'))
    by exact (nth_error_nth (run_conns picks cs) j (p, s) Hr).
  rewrite E2, E1 in Hn.
  pose proof (run_proc_iter (count_pick j picks) (p, s)) as Hi.
  rewrite <- Hn in Hi. cbn [fst snd run_proc] in Hi. symmetry. exact Hi.
Qed.


(* ================================================================== *)
(* handle(): the wrapped handler is called exactly once (never for LOCAL). *)

Lemma run_h_lift : forall p k h s,
  run_h (lift p k) h s = let '(r, s1) := run_proc p s in run_h (k r) h s1.
Proof.
  induction p as [r|n f IH]; intros k h s.
  - reflexivity.
  - cbn [lift run_h run_proc]. destruct (recv_into s n) as [chunk s']. apply IH.
Qed.

Lemma run_h_call_once : forall a h s,
  run_h (call_once a) h s = let '(o, s2) := h a s in (end_of o, s2, [(a, s)]).
Proof. intros a h s. unfold call_once. cbn [run_h]. destruct (h a s) as [o s2]. reflexivity. Qed.

Section Handler.
  Variable pton6 : bytes -> option bytes.
  Variable ntop6 : bytes -> bytes.
  Variable h : handler.

  Lemma handle_v1_once : forall s,
    run_h (p_handle_v1 pton6 ntop6) h s = after_parse h (handle_v1 pton6 ntop6 s).
  Proof.
    intros s. unfold p_handle_v1, handle_v1. rewrite run_h_lift, run_p_process_v1.
    destruct (process_pp_v1 pton6 ntop6 [] s) as [[[src dst]|e|] s1]; cbn [p_finish_v1 after_parse].
    - apply run_h_call_once.
    - destruct e; first [reflexivity | apply run_h_call_once].
    - reflexivity.
  Qed.

  Lemma finish_once : forall r s1,
    run_h (p_finish r) h s1 = after_parse h (finish (r, s1)).
  Proof.
    intros [[src dst]|e|] s1; cbn [p_finish finish after_parse].
    - apply run_h_call_once.
    - destruct e; first [reflexivity | apply run_h_call_once].
    - reflexivity.
  Qed.

  Lemma handle_v2_once : forall s,
    run_h (p_handle_v2 ntop6) h s = after_parse h (handle_v2 ntop6 s).
  Proof.
    intros s. unfold p_handle_v2, handle_v2. rewrite run_h_lift, run_p_process_v2.
    destruct (process_pp_v2 ntop6 [] s) as [r s1]. apply finish_once.
  Qed.

  Lemma handle_auto_once : forall s,
    run_h (p_handle_auto pton6 ntop6) h s = after_parse h (handle_auto pton6 ntop6 s).
  Proof.
    intros s. unfold p_handle_auto, handle_auto. rewrite run_h_lift, run_p_process_auto.
    destruct (process_auto pton6 ntop6 s) as [r s1]. apply finish_once.
  Qed.
End Handler.

(* with C18_total: exactly one call, with the parser's address, on the socket
   as the parser left it, and handle() ends as the wrapped handler ended;
   no call (and a normal return) exactly for LOCAL *)
Definition called_once (h : handler) (x : hres * sock) (out : hend * sock * list (addr * sock)) : Prop :=
  match handler_arg (fst x) with
  | Some a => snd out = [(a, snd x)] /\ (fst (fst out), snd (fst out)) = (end_of (fst (h a (snd x))), snd (h a (snd x)))
  | None => fst x = HLocal /\ out = (HReturned, snd x, [])
  end.

Lemma after_parse_once : forall h x, settled (fst x) -> called_once h x (after_parse h x).
Proof.
  intros h [hr s1] Hs. unfold called_once. destruct hr as [a|w| |e|]; cbn [fst snd handler_arg after_parse settled] in *.
  - destruct (h a s1) as [o s2]. split; reflexivity.
  - destruct (h ANone s1) as [o s2]. split; reflexivity.
  - split; reflexivity.
  - contradiction.
  - contradiction.
Qed.
