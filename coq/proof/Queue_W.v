(* The scheduler loop never sleeps through a due entry (no lost wake-up), the
   timetable stays sorted, and a scheduler iteration dispatches every due entry. *)
From Coq Require Import List NArith ZArith Bool Lia ZifyBool ZifyN.
From SV Require Import model.Queue proof.Queue_base.
Import ListNotations.
Open Scope N_scope.

Fixpoint sorted (q : list (time * id)) : Prop :=
  match q with
  | [] => True
  | e :: q' => (forall x, In x q' -> fst e <= fst x) /\ sorted q'
  end.

Lemma In_insort : forall x e q, In x (insort e q) <-> x = e \/ In x q.
Proof.
  intros x e q. induction q as [|[t k] q IH]; cbn.
  - split; intros [H|H]; auto.
  - destruct (fst e <? t); cbn.
    + split; intros [H|H]; auto.
    + rewrite IH. tauto.
Qed.

Lemma insort_sorted : forall e q, sorted q -> sorted (insort e q).
Proof.
  intros e q. induction q as [|[t k] q IH]; intro H; cbn.
  - split; [intros x []|exact I].
  - destruct H as [H1 H2]. destruct (fst e <? t) eqn:E.
    + cbn. split; [|split; assumption]. intros x [Hx|Hx].
      * subst x. cbn. lia.
      * specialize (H1 x Hx). cbn in H1. lia.
    + cbn. split; [|apply IH; exact H2]. intros x Hx. apply In_insort in Hx. destruct Hx as [Hx|Hx].
      * subst x. cbn. lia.
      * apply H1. exact Hx.
Qed.

Lemma due_prefix_spec : forall now q d r, sorted q -> due_prefix now q = (d, r) ->
  q = d ++ r /\ sorted r /\ (forall x, In x d -> fst x <= now) /\ (forall x, In x r -> now < fst x).
Proof.
  induction q as [|[t i] q IH]; intros d r Hs H; cbn in H.
  - inversion H; subst. repeat split; auto; intros x [].
  - destruct Hs as [H1 H2]. destruct (t <=? now) eqn:E.
    + destruct (due_prefix now q) as [d0 r0] eqn:Ed. inversion H; subst.
      destruct (IH d0 r eq_refl H2 eq_refl) as [A [B [C D]]] || destruct (IH d0 r H2 eq_refl) as [A [B [C D]]].
      split; [cbn; f_equal; exact A|]. split; [exact B|]. split; [|exact D].
      intros x [Hx|Hx]; [subst x; cbn; lia|apply C; exact Hx].
    + inversion H; subst. split; [reflexivity|]. split; [split; assumption|]. split; [intros x []|].
      intros x [Hx|Hx]; [subst x; cbn; lia|specialize (H1 x Hx); cbn in H1; lia].
Qed.

Definition Winv (s : state) : Prop :=
  sorted (s_queued s) /\
  match s_sched s with
  | SWait d => s_wake s = false /\
               match d with
               | None => s_queued s = []
               | Some t => forall e, In e (s_queued s) -> t <= fst e
               end
  | _ => True
  end.

Definition Wst (s : state) := (s_queued s, s_sched s, s_wake s).

Lemma Winv_ext : forall s s', Winv s -> Wst s' = Wst s -> Winv s'.
Proof. intros s s' H E. unfold Wst in E. inversion E as [[E1 E2 E3]]. unfold Winv. rewrite E1, E2, E3. exact H. Qed.

Lemma Winv_add_queued : forall s ts i, Winv s -> Winv (add_queued s ts i).
Proof.
  intros s ts i [H1 H2]. unfold add_queued. destruct (_ || _); [split; assumption|]. unfold Winv. cbn.
  split; [apply insort_sorted; exact H1|]. destruct (s_sched s); cbn; exact I.
Qed.

Lemma fold_dispatch_Wst : forall (f : time * id -> cause) d s,
  Wst (fold_left (fun s e => dispatch s (snd e) (f e)) d s) = Wst s.
Proof.
  induction d as [|e d IH]; intro s; cbn; [reflexivity|]. rewrite IH. unfold Wst.
  rewrite dispatch_queued, dispatch_sched, dispatch_wake. reflexivity.
Qed.

Lemma Winv_wait_ready : forall s, sorted (s_queued s) -> s_sched s = SRun -> Winv (wait_ready s).
Proof.
  intros s Hs Hr. unfold wait_ready. destruct (s_queued s) as [|[t j] q] eqn:Eq.
  - destruct (s_wake s); unfold Winv; cbn; rewrite Eq; cbn; auto.
  - destruct (s_clock s <? t) eqn:E.
    + destruct (s_wake s); unfold Winv; cbn; rewrite Eq; (split; [exact Hs|]); [exact I|].
      split; [reflexivity|]. intros e [He|He]; [subst e; cbn; lia|]. destruct Hs as [H1 _]. apply (H1 e He).
    + unfold Winv. rewrite Eq, Hr. split; [exact Hs|exact I].
Qed.

Lemma step_W : forall s e, Winv s -> Winv (step s e).
Proof.
  intros s e H. destruct e; unfold step.
  - apply (Winv_ext s); [exact H|reflexivity].
  - destruct (take_task (is_enq i) (s_tasks s)) as [[t rest]|]; [|exact H]. destruct t; try exact H.
    proj. destruct (mem i (s_active s)); apply (Winv_ext s); try exact H; reflexivity.
  - destruct (take_task (is_attempt i) (s_tasks s)) as [[t rest]|]; [|exact H]. destruct t; try exact H.
    destruct o; try (apply (Winv_ext s); [exact H|reflexivity]).
    destruct (pick is_temp rcpts res); apply (Winv_ext s); try exact H; reflexivity.
  - destruct (take_task (is_retry i) (s_tasks s)) as [[t rest]|]; [|exact H].
    destruct (st_get (s_store s) i); [|apply (Winv_ext s); [exact H|reflexivity]].
    destruct t; try exact H.
    + destruct b; apply (Winv_ext s); try exact H; reflexivity.
    + destruct dl as [[all res]|]; [apply (Winv_ext s); [exact H|reflexivity]|].
      apply Winv_add_queued. apply (Winv_ext s); [exact H|reflexivity].
    + apply Winv_add_queued. apply (Winv_ext s); [exact H|reflexivity].
  - destruct (take_task (is_dequeue i) (s_tasks s)) as [[t rest]|]; [|exact H]. destruct t; try exact H.
    destruct (st_get (s_store s) i); apply (Winv_ext s); try exact H; reflexivity.
  - destruct (take_task (is_rm i) (s_tasks s)) as [[t rest]|]; [|exact H]. apply (Winv_ext s); [exact H|reflexivity].
  - (* ETick *)
    destruct (s_sched s) eqn:Es; try exact H. destruct H as [Hs _].
    apply Winv_wait_ready.
    + unfold check_ready. destruct (due_prefix (s_clock s) (s_queued s)) as [d r] eqn:Ed.
      destruct d as [|e d]; [exact Hs|]. proj. destruct (due_prefix_spec _ _ _ _ Hs Ed) as [_ [B _]]. exact B.
    + unfold check_ready. destruct (due_prefix (s_clock s) (s_queued s)) as [d r] eqn:Ed.
      destruct d as [|e d]; [exact Es|]. proj.
      pose proof (fold_dispatch_Wst (fun e => CTimer (fst e)) (e :: d) s) as W. unfold Wst in W. inversion W as [[W1 W2 W3]].
      cbn [fold_left]. rewrite W2. exact Es.
  - (* EWakeup *)
    destruct H as [Hs Hw]. destruct (s_sched s) as [|[t|]|] eqn:Es; try (split; [exact Hs|rewrite Es; exact Hw]).
    + destruct (t <=? s_clock s); [split; [exact Hs|cbn; exact I]|split; [exact Hs|rewrite Es; exact Hw]].
    + split; [exact Hs|cbn; exact I].
  - apply (Winv_ext s); [exact H|reflexivity].
  - apply Winv_add_queued. exact H.
  - (* EFlush *)
    set (s0 := set_sched s (notified (s_sched s)) false).
    assert (E0 : s_queued s0 = s_queued s) by reflexivity.
    pose proof (fold_dispatch_Wst (fun _ => CFlush) (s_queued s0) s0) as W.
    unfold Wst in W. assert (W2 : s_sched (fold_left (fun s e => dispatch s (snd e) CFlush) (s_queued s0) s0) = s_sched s0) by congruence.
    unfold Winv. proj. split; [exact I|]. rewrite W2. subst s0. proj. destruct (s_sched s); cbn; exact I.
Qed.

Lemma init_W : Winv init.
Proof. split; cbn; exact I. Qed.

Lemma run_W : forall es s, Winv s -> Winv (run es s).
Proof. induction es as [|e es IH]; intros s H; cbn; [exact H|]. apply IH. apply step_W. exact H. Qed.

(* a due entry never leaves the scheduler asleep: either it is running / already
   notified, or its wait has expired *)
Lemma due_wakes : forall es ts i,
  let s := run es init in
  In (ts, i) (s_queued s) -> ts <= s_clock s ->
  match s_sched s with
  | SWait None => False
  | SWait (Some t) => t <= s_clock s       (* EWakeup is enabled *)
  | _ => True
  end.
Proof.
  intros es ts i s Hin Hdue. destruct (run_W es init init_W) as [_ Hw]. fold s in Hw.
  destruct (s_sched s) as [|[t|]|]; auto.
  - destruct Hw as [_ Hw]. specialize (Hw (ts, i) Hin). cbn in Hw. lia.
  - destruct Hw as [_ Hw]. rewrite Hw in Hin. destruct Hin.
Qed.

Lemma wakeup_runs : forall s t, s_sched s = SWait (Some t) -> t <= s_clock s -> s_sched (step s EWakeup) = SRun.
Proof. intros s t E H. unfold step. rewrite E. destruct (N.leb_spec t (s_clock s)); [reflexivity|lia]. Qed.

Lemma dispatch_active_mono : forall s i c j, mem j (s_active s) = true -> mem j (s_active (dispatch s i c)) = true.
Proof.
  intros s i c j H. unfold dispatch. destruct (mem i (s_active s)); [exact H|]. proj. cbn [mem]. rewrite H. apply orb_true_r.
Qed.
Lemma dispatch_marks : forall s i c, mem i (s_active (dispatch s i c)) = true.
Proof.
  intros s i c. unfold dispatch. destruct (mem i (s_active s)) eqn:E; [exact E|]. proj. cbn [mem]. rewrite N.eqb_refl. reflexivity.
Qed.

Lemma fold_dispatch_active : forall (f : time * id -> cause) d s j,
  (mem j (s_active s) = true \/ In j (map snd d)) ->
  mem j (s_active (fold_left (fun s e => dispatch s (snd e) (f e)) d s)) = true.
Proof.
  induction d as [|e d IH]; intros s j H; cbn.
  - destruct H as [H|[]]. exact H.
  - apply IH. destruct H as [H|[H|H]].
    + left. apply dispatch_active_mono. exact H.
    + left. subst j. apply dispatch_marks.
    + right. exact H.
Qed.

(* one iteration of the running scheduler dispatches every due entry: it leaves the
   timetable and its id is active (a read of it was spawned, or an attempt was in progress) *)
Lemma tick_dispatches_due : forall es ts i,
  let s := run es init in
  s_sched s = SRun -> In (ts, i) (s_queued s) -> ts <= s_clock s ->
  let s' := step s ETick in
  ~ In (ts, i) (s_queued s') /\ mem i (s_active s') = true.
Proof.
  intros es ts i s Hr Hin Hdue s'. destruct (run_W es init init_W) as [Hs _]. fold s in Hs.
  subst s'. unfold step. rewrite Hr. rewrite wr_queued, wr_active. unfold check_ready.
  destruct (due_prefix (s_clock s) (s_queued s)) as [d r] eqn:Ed.
  destruct (due_prefix_spec _ _ _ _ Hs Ed) as [A [B [C D]]].
  assert (Hd : In (ts, i) d).
  { rewrite A in Hin. apply in_app_iff in Hin. destruct Hin as [Hin|Hin]; [exact Hin|]. specialize (D _ Hin). cbn in D. lia. }
  destruct d as [|e d]; [destruct Hd|]. proj. split.
  - intro Hx. specialize (D _ Hx). cbn in D. lia.
  - apply (fold_dispatch_active (fun e => CTimer (fst e))). right. apply in_map_iff. exists (ts, i). split; [reflexivity|exact Hd].
Qed.
