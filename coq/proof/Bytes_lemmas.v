(* Lemmas about the line primitives of lib/Bytes.v *)
From Coq Require Import List NArith Bool Lia.
From SV Require Import lib.Bytes.
Import ListNotations.
Open Scope N_scope.

Definition nolf (l : bytes) : Prop := Forall (fun b => b <> 10) l.

Lemma beqb_refl : forall a, beqb a a = true.
Proof. induction a as [|x a IH]; cbn; [reflexivity|]. rewrite N.eqb_refl, IH. reflexivity. Qed.

Lemma beqb_eq : forall a b, beqb a b = true <-> a = b.
Proof.
  induction a as [|x a IH]; destruct b as [|y b]; cbn; split; intro H; try reflexivity; try discriminate.
  - apply andb_true_iff in H. destruct H as [H1 H2]. apply N.eqb_eq in H1. apply IH in H2. subst. reflexivity.
  - inversion H; subst. rewrite N.eqb_refl. cbn. apply IH. reflexivity.
Qed.

Lemma split_lf_nolf : forall s, nolf s -> split_lf s = ([], s).
Proof.
  induction s as [|b s IH]; intro H; cbn; [reflexivity|].
  inversion H as [|? ? Hb Hs]; subst. rewrite (IH Hs).
  destruct (N.eqb_spec b 10) as [E|E]; [contradiction|reflexivity].
Qed.

Lemma split_lf_line : forall l s, nolf l ->
  split_lf (l ++ 10 :: s) = (l :: fst (split_lf s), snd (split_lf s)).
Proof.
  induction l as [|b l IH]; intros s H; cbn.
  - destruct (split_lf s) as [ls t]. reflexivity.
  - inversion H as [|? ? Hb Hl]; subst. rewrite (IH s Hl). cbn.
    destruct (N.eqb_spec b 10) as [E|E]; [contradiction|reflexivity].
Qed.

Lemma split_lf_unraw_app : forall ls s, Forall nolf ls ->
  split_lf (unraw ls ++ s) = (ls ++ fst (split_lf s), snd (split_lf s)).
Proof.
  induction ls as [|l ls IH]; intros s H; cbn.
  - destruct (split_lf s); reflexivity.
  - inversion H as [|? ? Hl Hls]; subst. unfold unraw in *. cbn.
    rewrite <- !app_assoc. cbn. rewrite split_lf_line by assumption.
    rewrite (IH s Hls). reflexivity.
Qed.

Lemma split_lf_sound : forall s ls t, split_lf s = (ls, t) ->
  unraw ls ++ t = s /\ Forall nolf ls /\ nolf t.
Proof.
  induction s as [|b s IH]; intros ls t H; cbn in H.
  - inversion H; subst. split; [reflexivity|split; constructor].
  - destruct (split_lf s) as [ls0 t0] eqn:E. destruct (IH ls0 t0 eq_refl) as [H1 [H2 H3]].
    destruct (N.eqb_spec b 10) as [Eb|Eb].
    + inversion H; subst. split; [reflexivity|split].
      * constructor; [constructor|assumption].
      * assumption.
    + destruct ls0 as [|l ls']; inversion H; subst.
      * split; [reflexivity|split; [constructor|constructor; assumption]].
      * inversion H2 as [|? ? Hl Hls]; subst. split; [reflexivity|split].
        -- constructor; [constructor; assumption|assumption].
        -- assumption.
Qed.

Lemma split_lf_app : forall a x ls t, split_lf a = (ls, t) ->
  split_lf (a ++ x) = (ls ++ fst (split_lf (t ++ x)), snd (split_lf (t ++ x))).
Proof.
  intros a x ls t H. destruct (split_lf_sound a ls t H) as [H1 [H2 H3]].
  rewrite <- H1 at 1. rewrite <- app_assoc. apply split_lf_unraw_app. assumption.
Qed.

Lemma unraw_app : forall a b, unraw (a ++ b) = unraw a ++ unraw b.
Proof. intros. unfold unraw. rewrite map_app, concat_app. reflexivity. Qed.

Lemma strip_cr_snoc : forall l, strip_cr (l ++ [13]) = l.
Proof.
  induction l as [|x l IH]; [reflexivity|].
  cbn [app]. destruct l as [|y l']; [reflexivity|].
  change (strip_cr (x :: (y :: l') ++ [13])) with (x :: strip_cr ((y :: l') ++ [13])).
  rewrite IH. reflexivity.
Qed.

Lemma strip_cr_cons2 : forall x y l, strip_cr (x :: y :: l) = x :: strip_cr (y :: l).
Proof. reflexivity. Qed.

Lemma nolf_app : forall a b, nolf (a ++ b) <-> nolf a /\ nolf b.
Proof. intros. unfold nolf. apply Forall_app. Qed.

Lemma join_cons : forall sep l L, L <> [] -> join sep (l :: L) = l ++ sep ++ join sep L.
Proof. intros sep l L H. destruct L; [contradiction|reflexivity]. Qed.

Lemma join_snoc : forall sep L l, L <> [] -> join sep (L ++ [l]) = join sep L ++ sep ++ l.
Proof.
  induction L as [|a L IH]; intros l H; [contradiction|].
  destruct L as [|b L'].
  - reflexivity.
  - assert (Hne : (b :: L') ++ [l] <> []) by (intro Hc; apply app_eq_nil in Hc; destruct Hc as [Hc _]; discriminate Hc).
    change ((a :: b :: L') ++ [l]) with (a :: ((b :: L') ++ [l])).
    rewrite (join_cons sep a ((b :: L') ++ [l])) by exact Hne.
    rewrite IH by (intro Hc; discriminate Hc).
    rewrite (join_cons sep a (b :: L')) by (intro Hc; discriminate Hc).
    rewrite <- !app_assoc. reflexivity.
Qed.
