(* Facts about the generated Unicode class tables (gen/UnicodeTables.v) needed to
   instantiate the Reply-object theorems.  Re-proved against the regenerated
   tables on every build. *)
From Coq Require Import List NArith ZArith Bool Lia ZifyBool ZifyN.
From SV Require Import gen.UnicodeTables.
Import ListNotations.
Open Scope N_scope.

Definition rdisj1 (r : N * N) (b : list (N * N)) : bool :=
  forallb (fun q => (snd r <? fst q) || (snd q <? fst r)) b.
Definition rdisj (a b : list (N * N)) : bool := forallb (fun r => rdisj1 r b) a.

Lemma rdisj1_sound : forall lo hi b c, rdisj1 (lo, hi) b = true -> lo <= c <= hi -> in_ranges b c = false.
Proof.
  intros lo hi b c. induction b as [|[lo2 hi2] b IH]; intros H Hc; [reflexivity|].
  cbn in H. apply andb_true_iff in H. destruct H as [H1 H2].
  cbn [in_ranges]. rewrite (IH H2 Hc). cbn in H1. lia.
Qed.

Lemma rdisj_sound : forall a b c, rdisj a b = true -> in_ranges a c = true -> in_ranges b c = false.
Proof.
  induction a as [|[lo hi] a IH]; intros b c H Hc; [discriminate|].
  cbn in H. apply andb_true_iff in H. destruct H as [H1 H2].
  cbn [in_ranges] in Hc. apply orb_true_iff in Hc. destruct Hc as [Hc|Hc].
  - apply (rdisj1_sound lo hi); [exact H1|lia].
  - apply IH; assumption.
Qed.

Lemma udigit_46 : udigit 46 = false. Proof. vm_compute. reflexivity. Qed.
Lemma udigit_48 : udigit 48 = true. Proof. vm_compute. reflexivity. Qed.
Lemma uspace_32 : uspace 32 = true. Proof. vm_compute. reflexivity. Qed.
Lemma uspace_10 : uspace 10 = true. Proof. vm_compute. reflexivity. Qed.
Lemma uspace_13 : uspace 13 = true. Proof. vm_compute. reflexivity. Qed.
Lemma digit_space_disjoint : forall c, udigit c = true -> uspace c = false.
Proof.
  intros c H. unfold udigit, uspace in *. apply (rdisj_sound udigit_ranges); [vm_compute; reflexivity|exact H].
Qed.
(* '2', '4', '5' (the class digits of an enhanced status code) are \d *)
Lemma udigit_245 : forall k, ((k =? 50) || (k =? 52) || (k =? 53)) = true -> udigit k = true.
Proof.
  intros k H.
  apply orb_true_iff in H. destruct H as [H|H]; [apply orb_true_iff in H; destruct H as [H|H]|];
    apply N.eqb_eq in H; subst k; vm_compute; reflexivity.
Qed.
