(* Proofs about model/Tls.v (property C08). *)
From Coq Require Import List NArith ZArith Bool Lia.
From Coq Require Import ZifyBool ZifyN.
From SV Require Import lib.Bytes model.Reply model.Server model.Tls.
Import ListNotations.
Open Scope N_scope.

(* ================================================================== part 2 *)
(* ---------- tagged bytes *)
Lemma all_tls_app : forall a b, all_tls (a ++ b) = all_tls a && all_tls b.
Proof. intros; unfold all_tls; apply forallb_app. Qed.

Lemma all_tls_tag : forall s, all_tls (tag_with ChTls s) = true.
Proof. induction s as [|x s IH]; cbn; auto. Qed.

Lemma t_take_line_split : forall s l r, t_take_line s = Some (l, r) -> s = l ++ r.
Proof.
  induction s as [|x s IH]; cbn; intros l r H; [discriminate|].
  destruct (fst x =? 10).
  - inversion H; subst; reflexivity.
  - destruct (t_take_line s) as [[l' r']|] eqn:E; [|discriminate].
    inversion H; subst. cbn. f_equal. apply IH. reflexivity.
Qed.

Lemma recv_line_on_tls : forall chunks buf l r cs,
  all_tls buf = true -> recv_line_on ChTls buf chunks = Some (l, r, cs) ->
  all_tls l = true /\ all_tls r = true.
Proof.
  induction chunks as [|ch chunks IH]; intros buf l r cs Hb H; cbn in H.
  - destruct (t_take_line buf) as [[l' r']|] eqn:E; [|discriminate].
    inversion H; subst. apply t_take_line_split in E. subst buf.
    rewrite all_tls_app in Hb. apply andb_true_iff in Hb. exact Hb.
  - destruct (t_take_line buf) as [[l' r']|] eqn:E.
    + inversion H; subst. apply t_take_line_split in E. subst buf.
      rewrite all_tls_app in Hb. apply andb_true_iff in Hb. exact Hb.
    + destruct ch as [|c ch]; [discriminate|].
      eapply IH; [|exact H]. rewrite all_tls_app, Hb, all_tls_tag. reflexivity.
Qed.

(* ---------- base64 *)
Definition byte_ok (b : N) : Prop := b < 256.

Lemma b64_val_chr : forall v, v < 64 -> b64_val (b64_chr v) = Some v.
Proof.
  intros v Hv.
  assert (H : forallb (fun v => match b64_val (b64_chr v) with Some w => w =? v | None => false end)
                      (map N.of_nat (seq 0 64)) = true) by (vm_compute; reflexivity).
  rewrite forallb_forall in H.
  specialize (H v). 
  assert (In v (map N.of_nat (seq 0 64))).
  { apply in_map_iff. exists (N.to_nat v). split; [lia|]. apply in_seq. lia. }
  specialize (H H0). destruct (b64_val (b64_chr v)); [|discriminate].
  apply N.eqb_eq in H. congruence.
Qed.

Lemma b64_chr_not_pad : forall v, v < 64 -> (b64_chr v =? 61) = false.
Proof.
  intros v Hv. unfold b64_chr.
  destruct (v <? 26) eqn:E1; [lia|]. destruct (v <? 52) eqn:E2; [lia|].
  destruct (v <? 62) eqn:E3; [lia|]. destruct (v =? 62) eqn:E4; lia.
Qed.

(* ================================================================== part 3 *)
Ltac Zify.zify_post_hook ::= Z.div_mod_to_equations.

Lemma b64_go_data : forall v s quad left pads, v < 64 ->
  b64_go (b64_chr v :: s) quad left pads =
  if quad =? 0 then b64_go s 1 v 0
  else let '(b, q', l') :=
         if quad =? 1 then (left * 4 + v / 16, 2, v mod 16)
         else if quad =? 2 then (left * 16 + v / 4, 3, v mod 4)
         else (left * 64 + v, 0, 0) in
       match b64_go s q' l' 0 with Some r => Some (b :: r) | None => None end.
Proof.
  intros v s quad left pads Hv. cbn [b64_go].
  rewrite (b64_chr_not_pad v Hv), (b64_val_chr v Hv). reflexivity.
Qed.

Lemma list_ind3 : forall (A : Type) (P : list A -> Prop),
  P [] -> (forall a, P [a]) -> (forall a b, P [a; b]) ->
  (forall a b c s, P s -> P (a :: b :: c :: s)) -> forall s, P s.
Proof.
  intros A P H0 H1 H2 H3.
  fix IH 1. intros [|a [|b [|c s]]]; [exact H0|exact (H1 a)|exact (H2 a b)|exact (H3 a b c s (IH s))].
Qed.

Lemma b64_roundtrip : forall s, Forall byte_ok s -> b64_dec (b64_enc s) = Some s.
Proof.
  unfold b64_dec. induction s as [|a|a b|a b c s IH] using list_ind3; intros Hs.
  - reflexivity.
  - inversion Hs as [|? ? Ha _]; subst. unfold byte_ok in Ha. cbn [b64_enc].
    rewrite b64_go_data by lia. cbn [N.eqb]. rewrite b64_go_data by lia. cbn.
    f_equal. f_equal. lia.
  - inversion Hs as [|? ? Ha Hs']; subst. inversion Hs' as [|? ? Hb _]; subst.
    unfold byte_ok in *. cbn [b64_enc].
    rewrite b64_go_data by lia. cbn [N.eqb]. rewrite b64_go_data by lia. cbn [N.eqb Pos.eqb].
    rewrite b64_go_data by lia. cbn.
    f_equal. f_equal; [lia|]. f_equal. lia.
  - inversion Hs as [|? ? Ha Hs1]; subst. inversion Hs1 as [|? ? Hb Hs2]; subst.
    inversion Hs2 as [|? ? Hc Hs3]; subst. unfold byte_ok in *. cbn [b64_enc].
    rewrite b64_go_data by lia. cbn [N.eqb]. rewrite b64_go_data by lia. cbn [N.eqb Pos.eqb].
    rewrite b64_go_data by lia. cbn [N.eqb Pos.eqb]. rewrite b64_go_data by lia. cbn [N.eqb Pos.eqb].
    assert (E1 : (c / 64 + b mod 16 * 4) mod 4 = c / 64) by lia.
    replace ((b mod 16 * 4 + c / 64) mod 4 * 64 + c mod 64) with c by lia.
    replace (((a mod 4 * 16 + b / 16) mod 16) * 16 + (b mod 16 * 4 + c / 64) / 4) with b by lia.
    replace (a / 4 * 4 + (a mod 4 * 16 + b / 16) / 16) with a by lia.
    rewrite (IH Hs3). reflexivity.
Qed.

Lemma b64_enc_not_star : forall s, beqb (b64_enc s) STAR = false.
Proof. intros [|a [|b [|c s]]]; cbn; try reflexivity; destruct (b64_chr (a / 4) =? 42); reflexivity. Qed.

(* ================================================================== part 6 *)
Definition tl_all (ls : list tbytes) : Prop := Forall (fun l => all_tls l = true) ls.

Lemma t_lines_tls : forall s ls t, t_lines s = (ls, t) -> all_tls s = true ->
  tl_all ls /\ all_tls t = true.
Proof.
  induction s as [|x s IH]; cbn; intros ls t H Hs.
  - inversion H; subst. split; [constructor|reflexivity].
  - apply andb_true_iff in Hs. destruct Hs as [Hx Hs].
    destruct (t_lines s) as [ls' t'] eqn:E.
    destruct (IH ls' t' eq_refl Hs) as [Hl Ht].
    destruct (fst x =? 10).
    + inversion H; subst. split; [|exact Ht]. constructor; [|exact Hl]. cbn. rewrite Hx. reflexivity.
    + destruct ls' as [|l ls''].
      * inversion H; subst. split; [constructor|]. cbn. rewrite Hx. exact Ht.
      * inversion H; subst. inversion Hl; subst. split; [|exact Ht].
        constructor; [|assumption]. cbn. rewrite Hx. assumption.
Qed.

Lemma concat_tls : forall ls, tl_all ls -> all_tls (concat ls) = true.
Proof.
  induction ls as [|l ls IH]; cbn; intros H; [reflexivity|].
  inversion H; subst. rewrite all_tls_app, H2. apply IH. assumption.
Qed.

Lemma k_scan_tls : forall ls code used, all_tls used = true -> tl_all ls ->
  match k_scan code used ls with
  | KDone _ u rest => all_tls u = true /\ tl_all rest
  | KMore _ u => all_tls u = true
  | KBad => True
  end.
Proof.
  induction ls as [|l ls IH]; cbn; intros code used Hu Hl; [exact Hu|].
  inversion Hl; subst.
  destruct (parse_reply_line (removelast (untag l))) as [[[c sep] txt]|]; [|exact I].
  destruct (code_conflict code c); [exact I|].
  assert (Hul : all_tls (used ++ l) = true) by (rewrite all_tls_app, Hu; assumption).
  destruct (sep =? 45).
  - apply IH; assumption.
  - split; assumption.
Qed.

Lemma k_recv_tls : forall chunks code used buf cd u b cs,
  all_tls used = true -> all_tls buf = true ->
  k_recv ChTls code used buf chunks = KOk cd u b cs ->
  all_tls u = true /\ all_tls b = true.
Proof.
  induction chunks as [|ch chunks IH]; intros code used buf cd u b cs Hu Hb H; cbn in H;
    destruct (t_lines buf) as [ls tail] eqn:E;
    destruct (t_lines_tls _ _ _ E Hb) as [Hl Ht];
    pose proof (k_scan_tls ls code used Hu Hl) as HS;
    destruct (k_scan code used ls) as [cd' u' rest| |cd' u']; try discriminate.
  - inversion H; subst. destruct HS as [H1 H2]. split; [exact H1|].
    rewrite all_tls_app, Ht, concat_tls by assumption. reflexivity.
  - inversion H; subst. destruct HS as [H1 H2]. split; [exact H1|].
    rewrite all_tls_app, Ht, concat_tls by assumption. reflexivity.
  - destruct ch as [|c0 ch]; [discriminate|].
    eapply IH; [exact HS| |exact H]. rewrite all_tls_app, Ht, all_tls_tag. reflexivity.
Qed.

Definition KInv (ks : kstate) : Prop := k_enc ks = true -> all_tls (k_buf ks) = true.

Lemma k_step_ok : forall hs ks op ks' o, KInv ks -> k_step hs ks op = (ks', o) ->
  KInv ks' /\ (ko_enc o = true -> all_tls (ko_used o) = true) /\ ko_enc o = k_enc ks.
Proof.
  intros hs ks op ks' o HI H. unfold k_step in H.
  destruct (k_recv (chan_of (k_enc ks)) None [] (k_buf ks) (chunks_of (k_enc ks) (k_wire ks)))
    as [code used buf cs| |] eqn:E.
  - assert (HT : k_enc ks = true -> all_tls used = true /\ all_tls buf = true).
    { intros He. rewrite He in E. cbn in E. exact (k_recv_tls _ None [] _ _ _ _ _ eq_refl (HI He) E). }
    destruct op.
    + inversion H; subst; cbn. repeat split; auto; unfold KInv; cbn; intros He; apply HT, He.
    + destruct (beqb code C220); [destruct hs|]; inversion H; subst; cbn;
        (repeat split; auto; unfold KInv; cbn; intros He; try reflexivity; apply HT, He).
  - inversion H; subst; cbn. repeat split; auto.
  - inversion H; subst; cbn. repeat split; auto.
Qed.

Lemma k_run_ok : forall hs ops ks, KInv ks ->
  Forall (fun o => ko_enc o = true -> all_tls (ko_used o) = true) (k_run hs ks ops).
Proof.
  induction ops as [|op ops IH]; intros ks HI; cbn; [constructor|].
  destruct (k_step hs ks op) as [ks' o] eqn:E.
  destruct (k_step_ok _ _ _ _ _ HI E) as (HI' & HQ & _).
  destruct (ko_fin o); constructor; auto.
Qed.

Theorem client_no_plaintext_after_tls : forall hs w ops,
  Forall (fun o => ko_enc o = true -> all_tls (ko_used o) = true) (k_run hs (k_init w) ops).
Proof. intros. apply k_run_ok. unfold KInv, k_init; cbn. discriminate. Qed.

(* ================================================================== part 1 *)
Ltac atom x :=
  lazymatch x with
  | negb ?y => atom y
  | ?y && _ => atom y
  | ?y || _ => atom y
  | _ => destruct x eqn:?
  end.
Ltac brk_on x :=
  lazymatch x with
  | context [match ?y with _ => _ end] => brk_on y
  | _ => lazymatch type of x with
         | bool => atom x
         | _ => destruct x eqn:?
         end
  end.
Ltac brk1 :=
  match goal with
  | |- context [match ?x with _ => _ end] => brk_on x
  end.
Ltac eqb_subst :=
  repeat match goal with
  | H : (?c =? ?k) = true |- _ => apply N.eqb_eq in H; subst
  end.
Local Opaque gather_params utf8_dec find_gt match_path_prefix check_size py_int get_param too_big N.eqb N.leb N.ltb.

Definition fresh (st : sstate) : Prop := forall a, s_ehlo (sv st) = Some a -> e_ehlo (ed st) = Some a.

Definition frame (st st' : sstate) : Prop :=
  s_encrypted (sv st') = s_encrypted (sv st) /\
  s_authed (sv st') = s_authed (sv st) /\
  e_auth (ed st') = e_auth (ed st) /\
  e_tls (ed st') = e_tls (ed st) /\
  (x_starttls (ex st') = true -> x_starttls (ex st) = true) /\
  (fresh st -> fresh st').

Ltac fr_leaf := unfold frame, fresh; cbn; repeat split; auto; try congruence;
  try (intros; eqb_subst; congruence).

Lemma frame_refl : forall st, frame st st.
Proof. intros; fr_leaf. Qed.

Lemma frame_handle : forall st it,
  classify (it_line it) <> CStarttls -> classify (it_line it) <> CAuth ->
  frame st (r_st (handle_command st it)).
Proof.
  intros st it H1 H2. unfold handle_command.
  destruct (classify (it_line it)) eqn:Hc; try congruence; clear H1 H2.
  - unfold command_EHLO. repeat (brk1; cbn); fr_leaf.
  - unfold command_HELO. repeat (brk1; cbn); fr_leaf.
  - unfold command_MAIL. repeat (brk1; cbn); fr_leaf.
  - unfold command_RCPT. repeat (brk1; cbn); fr_leaf.
  - unfold command_DATA, get_message_data, session_HAVE_DATA. repeat (brk1; cbn); fr_leaf.
  - unfold command_RSET. repeat (brk1; cbn); fr_leaf.
  - fr_leaf.
  - unfold command_QUIT. repeat (brk1; cbn); fr_leaf.
  - fr_leaf.
  - fr_leaf.
Qed.

(* ================================================================== part 4 *)
Local Opaque gather_params utf8_dec find_gt match_path_prefix check_size py_int get_param too_big N.eqb N.leb N.ltb b64_dec b64_enc.

Definition gate (st : sstate) (m : mech) : Prop :=
  x_auth (ex st) = true /\ is_some (s_ehlo (sv st)) = true /\ s_authed (sv st) = false /\
  s_mail (sv st) = false /\ (m_insecure m = true -> s_encrypted (sv st) = true).

Definition mode_ok (st : sstate) (m : mode) : Prop :=
  match m with MAuthWait mm _ _ => gate st mm | _ => True end.

Definition has_235 (es : list tevent) : Prop := exists enc c, In (TAuth enc c (Some 235)) es.

Record ok_step (st : sstate) (r : sres) : Prop := {
  ok_enc : s_encrypted (sv (sr_st r)) = true ->
           s_encrypted (sv st) = true \/
           (sr_flush r = true /\ sr_st r = tls_state st /\ sr_mode r = MCmd /\
            In (TCall true EvTls) (sr_events r));
  ok_stls : x_starttls (ex (sr_st r)) = true -> x_starttls (ex st) = true;
  ok_fresh : fresh st -> fresh (sr_st r);
  ok_authed : s_authed (sv (sr_st r)) = true -> s_authed (sv st) = true \/ has_235 (sr_events r);
  ok_eauth : e_auth (ed (sr_st r)) = e_auth (ed st) \/
             exists enc c, In (TAuth enc c (Some 235)) (sr_events r) /\ e_auth (ed (sr_st r)) = Some (cr_cid c);
  ok_mode : mode_ok (sr_st r) (sr_mode r);
  ok_tauth : forall enc c code, In (TAuth enc c code) (sr_events r) ->
             enc = s_encrypted (sv st) /\ exists m, gate st m
}.

Lemma ok_of_frame : forall st st' rs ch es x,
  frame st st' -> ok_step st (mk_s st' MCmd rs ch (map (TCall (s_encrypted (sv st))) es) x false).
Proof.
  intros st st' rs ch es x (F1 & F2 & F3 & F4 & F5 & F6).
  constructor; cbn; auto.
  - intros H. left. congruence.
  - intros H. left. congruence.
  - intros enc c code H. apply in_map_iff in H. destruct H as (? & H & _). discriminate.
Qed.

Lemma ok_just : forall st c, ok_step st (s_just st c).
Proof.
  intros. unfold s_just. change (@nil tevent) with (map (TCall (s_encrypted (sv st))) []).
  apply ok_of_frame. apply frame_refl.
Qed.

Section S.
  Variable mechs : bytes -> option mech.
  Variable nv : env.

  Lemma ok_finish : forall st c m, gate st m -> ok_step st (auth_finish nv st c).
  Proof.
    intros st c m G. unfold auth_finish.
    destruct (apply_verdict (nv_vf nv KAuth (cr_cid c)) 235) as [code|] eqn:E.
    - constructor; cbn.
      + intros H. left. destruct (code =? 235); exact H.
      + auto.
      + unfold fresh; cbn. intros Hf a. destruct (code =? 235); cbn; apply Hf.
      + intros H. destruct (code =? 235) eqn:E2; [|left; exact H].
        right. apply N.eqb_eq in E2; subst. exists (s_encrypted (sv st)), c. left. reflexivity.
      + destruct (code =? 235) eqn:E2; [|left; reflexivity].
        right. apply N.eqb_eq in E2; subst. exists (s_encrypted (sv st)), c. split; [left; reflexivity|reflexivity].
      + exact I.
      + intros enc c0 code0 [H|[]]. inversion H; subst. split; [reflexivity|exists m; exact G].
    - constructor; cbn; auto.
      + intros enc c0 code0 [H|[]]. inversion H; subst. split; [reflexivity|exists m; exact G].
  Qed.

  Lemma ok_turn : forall st m resps, gate st m -> ok_step st (auth_turn nv st m resps).
  Proof.
    intros st m resps G. unfold auth_turn.
    destruct (m_attempt m resps); try apply ok_just.
    - eapply ok_finish; eauto.
    - constructor; cbn; auto. intros ? ? ? [].
  Qed.

  Lemma ok_response : forall st m resps chal resp, gate st m ->
    ok_step st (auth_response nv st m resps chal resp).
  Proof.
    intros st m resps chal resp G. unfold auth_response.
    destruct (beqb resp STAR); [apply ok_just|].
    destruct (b64_dec resp); [|apply ok_just]. apply ok_turn; exact G.
  Qed.

  Lemma ok_AUTH : forall st arg, ok_step st (t_command_AUTH mechs nv st arg).
  Proof.
    intros st arg. unfold t_command_AUTH.
    destruct (x_auth (ex st)) eqn:Ex; cbn [negb]; [|apply ok_just].
    destruct (is_some (s_ehlo (sv st))) eqn:Eh; cbn [negb orb]; [|apply ok_just].
    destruct (s_authed (sv st)) eqn:Ea; cbn [orb]; [apply ok_just|].
    destruct (s_mail (sv st)) eqn:Em; [apply ok_just|].
    destruct (nonempty arg); cbn [negb]; [|apply ok_just].
    destruct (parse_auth_arg (arg_bytes arg)) as [|n|n a]; [apply ok_just| |].
    - destruct (mechs n) as [m|]; [|apply ok_just].
      destruct (m_insecure m && negb (s_encrypted (sv st))) eqn:Ei; [apply ok_just|].
      apply ok_turn. repeat split; auto. intros Hi. rewrite Hi in Ei. cbn in Ei.
      destruct (s_encrypted (sv st)); [reflexivity|discriminate].
    - destruct (mechs n) as [m|]; [|apply ok_just].
      destruct (m_insecure m && negb (s_encrypted (sv st))) eqn:Ei; [apply ok_just|].
      assert (G : gate st m).
      { repeat split; auto. intros Hi. rewrite Hi in Ei. cbn in Ei.
        destruct (s_encrypted (sv st)); [reflexivity|discriminate]. }
      destruct (m_attempt m []); try apply ok_just.
      + eapply ok_finish; eauto.
      + apply ok_response; exact G.
  Qed.

  Lemma ok_STARTTLS : forall st arg v hs, ok_step st (t_command_STARTTLS st arg v hs).
  Proof.
    intros st arg v hs. unfold t_command_STARTTLS.
    destruct (x_starttls (ex st)); cbn [negb]; [|apply ok_just].
    destruct (nonempty arg); [apply ok_just|].
    destruct (is_some (s_ehlo (sv st))); cbn [negb]; [|apply ok_just].
    destruct (apply_verdict v 220) as [c|].
    2:{ constructor; cbn; auto. intros ? ? ? []. }
    destruct (is_close c).
    { constructor; cbn; auto. intros ? ? ? []. }
    destruct (c =? 220); cbn [negb].
    2:{ constructor; cbn; auto. intros ? ? ? []. }
    destruct hs; cbn [negb].
    - constructor; cbn; auto.
      + intros _. right. repeat split; auto.
      + discriminate.
      + unfold fresh; cbn. discriminate.
      + intros ? ? ? [H|[]]; discriminate.
    - constructor; cbn; auto. intros ? ? ? [].
  Qed.

  Lemma ok_data_start : forall st arg, ok_step st (t_data_start nv st arg).
  Proof.
    intros st arg. unfold t_data_start.
    destruct (nonempty arg); [apply ok_just|].
    destruct (negb (s_mail (sv st)) || negb (s_rcpt (sv st))); [apply ok_just|].
    destruct (apply_verdict (nv_vf nv KData []) 354) as [c|].
    - destruct (is_close c); [|destruct (c =? 354)].
      + change [TCall (s_encrypted (sv st)) (EvCall KData [] [] (Some c))]
          with (map (TCall (s_encrypted (sv st))) [EvCall KData [] [] (Some c)]).
        apply ok_of_frame, frame_refl.
      + constructor; cbn; auto. intros ? ? ? [H|[]]; discriminate.
      + change [TCall (s_encrypted (sv st)) (EvCall KData [] [] (Some c))]
          with (map (TCall (s_encrypted (sv st))) [EvCall KData [] [] (Some c)]).
        apply ok_of_frame, frame_refl.
    - change [TCall (s_encrypted (sv st)) (EvCall KData [] [] None)]
          with (map (TCall (s_encrypted (sv st))) [EvCall KData [] [] None]).
      apply ok_of_frame, frame_refl.
  Qed.

  Lemma frame_gmd : forall st it pr pe, frame st (r_st (get_message_data st it pr pe)).
  Proof.
    intros. unfold get_message_data, session_HAVE_DATA. repeat (brk1; cbn); fr_leaf.
  Qed.

  Lemma ok_data_line : forall st acc raw, ok_step st (t_data_line nv st acc raw).
  Proof.
    intros st acc raw. unfold t_data_line. destruct (is_eod raw).
    - unfold of_res. apply ok_of_frame, frame_gmd.
    - constructor; cbn; auto. intros ? ? ? [].
  Qed.

  Lemma ok_exec : forall st l, ok_step st (t_exec_cmd mechs nv st l).
  Proof.
    intros st l. unfold t_exec_cmd.
    destruct (classify l) eqn:Hc;
      try (unfold of_res; apply ok_of_frame, frame_handle; cbn; rewrite Hc; discriminate).
    - apply ok_STARTTLS.
    - apply ok_AUTH.
    - apply ok_data_start.
  Qed.

  Lemma ok_dispatch : forall st m consumed, mode_ok st m ->
    ok_step st (t_dispatch mechs nv st m consumed).
  Proof.
    intros st m consumed Hm. destruct m; cbn [t_dispatch].
    - apply ok_exec.
    - apply ok_response. exact Hm.
    - apply ok_data_line.
  Qed.
End S.

(* ================================================================== part 5 *)
Local Opaque gather_params utf8_dec find_gt match_path_prefix check_size py_int get_param too_big N.eqb N.leb N.ltb b64_dec b64_enc.

(* invariant of every reachable session state *)
Record Inv (ts : tstate) : Prop := {
  i_buf : t_enc ts = true -> all_tls (t_buf ts) = true;
  i_stls : t_enc ts = true -> x_starttls (ex (t_st ts)) = false;
  i_mode : mode_ok (t_st ts) (t_mode ts);
  i_fresh : fresh (t_st ts)
}.

(* what holds of every step *)
Record StepOk (x : tstate * tout * tstate) : Prop := {
  q_tls : to_enc (snd (fst x)) = true -> all_tls (to_line (snd (fst x))) = true;
  q_encflag : to_enc (snd (fst x)) = t_enc (fst (fst x));
  q_greeted : t_enc (fst (fst x)) = false -> t_enc (snd x) = true ->
              t_st (snd x) = tls_state (t_st (fst (fst x))) /\ t_buf (snd x) = [] /\
              t_mode (snd x) = MCmd /\ In (TCall true EvTls) (to_events (snd (fst x)));
  q_authed : s_authed (sv (t_st (snd x))) = true ->
             s_authed (sv (t_st (fst (fst x)))) = true \/ has_235 (to_events (snd (fst x)));
  q_eauth : e_auth (ed (t_st (snd x))) = e_auth (ed (t_st (fst (fst x)))) \/
            exists enc c, In (TAuth enc c (Some 235)) (to_events (snd (fst x))) /\
                          e_auth (ed (t_st (snd x))) = Some (cr_cid c);
  q_tauth : forall enc c code, In (TAuth enc c code) (to_events (snd (fst x))) ->
            enc = t_enc (fst (fst x)) /\ exists m, gate (t_st (fst (fst x))) m
}.

Section S.
  Variable mechs : bytes -> option mech.
  Variable nv : env.

  Lemma t_step_ok : forall ts ts' o, Inv ts -> t_step mechs nv ts = (ts', o) ->
    Inv ts' /\ StepOk (ts, o, ts').
  Proof.
    intros ts ts' o HI H. unfold t_step in H.
    destruct (recv_line_on (chan_of (t_enc ts)) (t_buf ts) (chunks_of (t_enc ts) (t_wire ts)))
      as [[[consumed rest] cs]|] eqn:ER.
    - pose proof (ok_dispatch mechs nv (t_st ts) (t_mode ts) consumed (i_mode ts HI)) as OK.
      set (r := t_dispatch mechs nv (t_st ts) (t_mode ts) consumed) in *.
      inversion H; subst ts' o; clear H.
      assert (HT : t_enc ts = true -> all_tls consumed = true /\ all_tls rest = true).
      { intros He. rewrite He in ER. cbn in ER. eapply recv_line_on_tls; [|exact ER].
        apply (i_buf ts HI He). }
      split.
      + constructor; unfold t_enc; cbn.
        * intros He. destruct (sr_flush r) eqn:Ef; [reflexivity|].
          destruct (ok_enc _ _ OK He) as [He0|(Hf & _)]; [|congruence].
          apply HT. exact He0.
        * intros He. destruct (ok_enc _ _ OK He) as [He0|(_ & Hs & _)].
          -- destruct (x_starttls (ex (sr_st r))) eqn:Ex; [|reflexivity].
             apply (ok_stls _ _ OK) in Ex. rewrite (i_stls ts HI He0) in Ex. discriminate.
          -- rewrite Hs. reflexivity.
        * apply (ok_mode _ _ OK).
        * apply (ok_fresh _ _ OK). apply (i_fresh ts HI).
      + constructor; cbn.
        * intros He. apply HT. exact He.
        * reflexivity.
        * unfold t_enc at 2; cbn. intros H0 H1.
          destruct (ok_enc _ _ OK H1) as [He0|(Hf & Hs & Hm & Hin)].
          -- unfold t_enc in H0. congruence.
          -- rewrite Hf. auto.
        * apply (ok_authed _ _ OK).
        * apply (ok_eauth _ _ OK).
        * apply (ok_tauth _ _ OK).
    - inversion H; subst ts' o; clear H. split; [exact HI|].
      constructor; cbn; auto.
      + intros H0 H1. congruence.
      + intros ? ? ? [].
  Qed.

  Lemma t_loop_ok : forall fuel ts, Inv ts -> Forall StepOk (t_loop mechs fuel nv ts).
  Proof.
    induction fuel as [|f IH]; intros ts HI; cbn; [constructor|].
    destruct (t_step mechs nv ts) as [ts' o] eqn:E.
    destruct (t_step_ok ts ts' o HI E) as [HI' HQ].
    destruct (to_fin o); constructor; auto.
  Qed.

  (* states after steps all satisfy Inv *)
  Lemma t_loop_inv : forall fuel ts, Inv ts ->
    Forall (fun x => Inv (fst (fst x)) /\ Inv (snd x)) (t_loop mechs fuel nv ts).
  Proof.
    induction fuel as [|f IH]; intros ts HI; cbn; [constructor|].
    destruct (t_step mechs nv ts) as [ts' o] eqn:E.
    destruct (t_step_ok ts ts' o HI E) as [HI' HQ].
    destruct (to_fin o); constructor; auto.
  Qed.

  Lemma fresh_banner : forall vb st, fresh st -> fresh (r_st (command_BANNER vb st)).
  Proof.
    intros vb st Hf. unfold command_BANNER. destruct (apply_verdict vb 220) as [c|]; cbn; [|exact Hf].
    destruct (c =? 220); exact Hf.
  Qed.

  Lemma banner_state : forall vb st,
    s_encrypted (sv (r_st (command_BANNER vb st))) = s_encrypted (sv st) /\
    ex (r_st (command_BANNER vb st)) = ex st /\
    s_authed (sv (r_st (command_BANNER vb st))) = s_authed (sv st) /\
    e_auth (ed (r_st (command_BANNER vb st))) = e_auth (ed st).
  Proof.
    intros vb st. unfold command_BANNER. destruct (apply_verdict vb 220) as [c|]; cbn; auto.
    destruct (c =? 220); cbn; auto.
  Qed.

  Lemma session_ok : forall fuel cfg w,
    Forall StepOk (t_session mechs fuel cfg nv w) /\
    Forall (fun x => Inv (fst (fst x)) /\ Inv (snd x)) (t_session mechs fuel cfg nv w).
  Proof.
    intros fuel cfg w. unfold t_session.
    assert (I0 : Inv (t_init cfg w)).
    { constructor; unfold t_enc, fresh; cbn; try discriminate; auto. }
    set (imm := cfg_context cfg && cfg_tls_immediately cfg).
    destruct (imm && negb (nv_hs nv)) eqn:E1.
    - split.
      + constructor; [|constructor]. constructor; cbn; auto; try discriminate. intros ? ? ? [].
      + constructor; [|constructor]. cbn. split; exact I0.
    - set (st1 := if imm then encrypted_state (init_state cfg) else init_state cfg).
      set (r := command_BANNER (nv_vf nv KBanner []) st1).
      destruct (banner_state (nv_vf nv KBanner []) st1) as (B1 & B2 & B3 & B4). fold r in B1, B2, B3, B4.
      assert (Hst1 : s_encrypted (sv st1) = imm /\ x_starttls (ex st1) = cfg_context cfg && negb (cfg_tls_immediately cfg) /\
                     fresh st1).
      { unfold st1. destruct imm; cbn; repeat split; auto; unfold fresh; cbn; discriminate. }
      destruct Hst1 as (S1 & S2 & S5).
      assert (HX : imm = true -> x_starttls (ex st1) = false).
      { rewrite S2. unfold imm. intros Hi. apply andb_true_iff in Hi. destruct Hi as [Hc Ht].
        rewrite Hc, Ht. reflexivity. }
      set (tsb := {| t_st := st1; t_mode := MCmd; t_buf := []; t_wire := w |}).
      set (ts1 := {| t_st := r_st r; t_mode := MCmd; t_buf := []; t_wire := w |}).
      assert (Ib : Inv tsb).
      { constructor; unfold t_enc; cbn; auto. rewrite S1. exact HX. }
      assert (I1 : Inv ts1).
      { constructor; unfold t_enc; cbn; auto.
        - rewrite B1, B2, S1. exact HX.
        - apply fresh_banner. exact S5. }
      assert (Q0 : forall rs f,
                 StepOk (tsb, banner_out imm rs
                           ((if imm then [TCall true EvTls] else []) ++ map (TCall imm) (r_events r)) f, ts1)).
      { intros rs f. constructor; unfold t_enc; cbn.
        - reflexivity.
        - auto.
        - intros H0 H1. congruence.
        - intros H. left. congruence.
        - left. congruence.
        - intros enc c code H. apply in_app_or in H. destruct H as [H|H].
          + destruct imm; [destruct H as [H|[]]; discriminate|destruct H].
          + apply in_map_iff in H. destruct H as (? & H & _). discriminate. }
      destruct (r_exc r); (split; [constructor; [apply Q0|]|constructor; [cbn; split; assumption|]]);
        try constructor; try (apply t_loop_ok; exact I1); try (apply t_loop_inv; exact I1).
  Qed.
End S.

(* ================================================================== part 7 *)
Local Opaque b64_dec b64_enc.

Definition err5 (c : N) : Prop := 500 <= c /\ c <= 599.

(* the command was refused: one 5xx reply, no handler, no challenge, nothing changed *)
Definition refused (st : sstate) (r : sres) : Prop :=
  sr_st r = st /\ sr_mode r = MCmd /\ sr_events r = [] /\ sr_exc r = XNone /\ sr_chal r = [] /\
  sr_flush r = false /\ exists c, sr_replies r = [c] /\ err5 c.

Lemma refused_just : forall st c, err5 c -> refused st (s_just st c).
Proof. intros st c H. unfold refused, s_just; cbn. repeat split; auto. exists c. auto. Qed.

Ltac e5 := unfold err5; lia.

(* an AUTH line or an answer line: either the application was asked, or exactly one 334 / 5xx
   reply was sent and the session goes on *)
Definition auth_shape (r : sres) : Prop :=
  (exists enc c code, sr_events r = [TAuth enc c code]) \/
  (sr_events r = [] /\ sr_exc r = XNone /\ exists c, sr_replies r = [c] /\ (c = 334 \/ err5 c)).

Lemma shape_just : forall st c, err5 c -> auth_shape (s_just st c).
Proof. intros. right. cbn. repeat split; auto. exists c. auto. Qed.

Section S.
  Variable mechs : bytes -> option mech.
  Variable nv : env.

  Lemma shape_finish : forall st c, auth_shape (auth_finish nv st c).
  Proof.
    intros. unfold auth_finish. left.
    destruct (apply_verdict (nv_vf nv KAuth (cr_cid c)) 235); cbn; eauto.
  Qed.

  Lemma shape_turn : forall st m resps, auth_shape (auth_turn nv st m resps).
  Proof.
    intros. unfold auth_turn. destruct (m_attempt m resps).
    - apply shape_finish.
    - right. cbn. repeat split; auto. exists 334. auto.
    - apply shape_just; e5.
    - apply shape_just; e5.
  Qed.

  Lemma shape_response : forall st m resps chal resp, auth_shape (auth_response nv st m resps chal resp).
  Proof.
    intros. unfold auth_response. destruct (beqb resp STAR); [apply shape_just; e5|].
    destruct (b64_dec resp); [apply shape_turn|apply shape_just; e5].
  Qed.

  Lemma shape_AUTH : forall st arg, auth_shape (t_command_AUTH mechs nv st arg).
  Proof.
    intros. unfold t_command_AUTH.
    destruct (negb (x_auth (ex st))); [apply shape_just; e5|].
    destruct (negb (is_some (s_ehlo (sv st))) || s_authed (sv st) || s_mail (sv st)); [apply shape_just; e5|].
    destruct (negb (nonempty arg)); [apply shape_just; e5|].
    destruct (parse_auth_arg (arg_bytes arg)) as [|n|n a]; [apply shape_just; e5| |];
      (destruct (mechs n) as [m|]; [|apply shape_just; e5]);
      (destruct (m_insecure m && negb (s_encrypted (sv st))); [apply shape_just; e5|]).
    - apply shape_turn.
    - destruct (m_attempt m []); [apply shape_finish|apply shape_response|apply shape_just; e5|apply shape_just; e5].
  Qed.

  (* gating *)
  Lemma auth_refused_state : forall st arg,
    s_ehlo (sv st) = None \/ s_authed (sv st) = true \/ s_mail (sv st) = true ->
    refused st (t_command_AUTH mechs nv st arg).
  Proof.
    intros st arg H. unfold t_command_AUTH.
    destruct (negb (x_auth (ex st))); [apply refused_just; e5|].
    replace (negb (is_some (s_ehlo (sv st))) || s_authed (sv st) || s_mail (sv st)) with true.
    - apply refused_just; e5.
    - destruct H as [H|[H|H]]; rewrite H; cbn; auto using orb_true_r.
      destruct (negb (is_some (s_ehlo (sv st)))); cbn; auto using orb_true_r.
  Qed.

  Definition mech_named (arg : option bytes) (n : bytes) : Prop :=
    parse_auth_arg (arg_bytes arg) = PName n \/ exists a, parse_auth_arg (arg_bytes arg) = PArg n a.

  Lemma auth_refused_insecure : forall st arg n m,
    mech_named arg n -> mechs n = Some m -> m_insecure m = true -> s_encrypted (sv st) = false ->
    refused st (t_command_AUTH mechs nv st arg).
  Proof.
    intros st arg n m Hn Hm Hi He. unfold t_command_AUTH.
    destruct (negb (x_auth (ex st))); [apply refused_just; e5|].
    destruct (negb (is_some (s_ehlo (sv st))) || s_authed (sv st) || s_mail (sv st)); [apply refused_just; e5|].
    destruct (negb (nonempty arg)); [apply refused_just; e5|].
    destruct Hn as [Hn|[a Hn]]; rewrite Hn, Hm, Hi, He; cbn; apply refused_just; e5.
  Qed.

  Lemma auth_refused_unknown : forall st arg,
    parse_auth_arg (arg_bytes arg) = PBad \/ (exists n, mech_named arg n /\ mechs n = None) ->
    refused st (t_command_AUTH mechs nv st arg).
  Proof.
    intros st arg H. unfold t_command_AUTH.
    destruct (negb (x_auth (ex st))); [apply refused_just; e5|].
    destruct (negb (is_some (s_ehlo (sv st))) || s_authed (sv st) || s_mail (sv st)); [apply refused_just; e5|].
    destruct (negb (nonempty arg)); [apply refused_just; e5|].
    destruct H as [H|(n & [Hn|[a Hn]] & Hm)].
    - rewrite H. apply refused_just; e5.
    - rewrite Hn, Hm. apply refused_just; e5.
    - rewrite Hn, Hm. apply refused_just; e5.
  Qed.

  (* a bare AUTH (D11) *)
  Lemma auth_bare : forall st, refused st (t_command_AUTH mechs nv st None).
  Proof.
    intros st. unfold t_command_AUTH.
    destruct (negb (x_auth (ex st))); [apply refused_just; e5|].
    destruct (negb (is_some (s_ehlo (sv st))) || s_authed (sv st) || s_mail (sv st)); [apply refused_just; e5|].
    cbn. apply refused_just; e5.
  Qed.

  (* step level *)
  Definition is_auth_step (ts : tstate) (consumed : tbytes) : Prop :=
    match t_mode ts with
    | MCmd => classify (parse_line (line_of consumed)) = CAuth
    | MAuthWait _ _ _ => True
    | MData _ => False
    end.

  Lemma step_auth_shape : forall ts ts' o,
    t_step mechs nv ts = (ts', o) -> to_fin o <> TLost -> is_auth_step ts (to_line o) ->
    (exists enc c code, to_events o = [TAuth enc c code]) \/
    (to_events o = [] /\ to_fin o = TContinue /\
     exists c, to_replies o = [c] /\ (c = 334 \/ err5 c)).
  Proof.
    intros ts ts' o H Hl Ha. unfold t_step in H.
    destruct (recv_line_on (chan_of (t_enc ts)) (t_buf ts) (chunks_of (t_enc ts) (t_wire ts)))
      as [[[consumed rest] cs]|]; [|inversion H; subst; cbn in Hl; congruence].
    inversion H; subst ts' o; clear H. cbn in *.
    assert (S : auth_shape (t_dispatch mechs nv (t_st ts) (t_mode ts) consumed)).
    { unfold is_auth_step in Ha. destruct (t_mode ts); cbn [t_dispatch].
      - unfold t_exec_cmd. rewrite Ha. apply shape_AUTH.
      - apply shape_response.
      - destruct Ha. }
    destruct S as [S|(S1 & S2 & c & S3 & S4)]; [left; exact S|right].
    rewrite S1, S2, S3. cbn. repeat split; auto. exists c. auto.
  Qed.
End S.

(* ================================================================== part 8 *)
Local Opaque b64_dec b64_enc.

Definition ev_of (x : tstate * tout * tstate) : list tevent := to_events (snd (fst x)).
Definition pre_of (x : tstate * tout * tstate) : tstate := fst (fst x).
Definition post_of (x : tstate * tout * tstate) : tstate := snd x.

Section S.
  Variable mechs : bytes -> option mech.
  Variable nv : env.

  (* ---------- authenticated only after a 235 kept by the application *)
  Lemma loop_authed : forall fuel ts, Inv ts -> forall pre x post,
    t_loop mechs fuel nv ts = pre ++ x :: post ->
    s_authed (sv (t_st (post_of x))) = true ->
    s_authed (sv (t_st ts)) = true \/ exists y, In y (pre ++ [x]) /\ has_235 (ev_of y).
  Proof.
    induction fuel as [|f IH]; intros ts HI pre x post H Ha; cbn in H.
    - destruct pre; discriminate.
    - destruct (t_step mechs nv ts) as [ts' o] eqn:E.
      destruct (t_step_ok mechs nv ts ts' o HI E) as [HI' HQ].
      assert (H' : (ts, o, ts') :: (match to_fin o with TContinue => t_loop mechs f nv ts' | _ => [] end)
                   = pre ++ x :: post) by (destruct (to_fin o); exact H).
      clear H. destruct pre as [|p pre]; cbn in H'; inversion H'; subst.
      + destruct (q_authed _ HQ Ha) as [Hb|Hb]; [left; exact Hb|].
        right. exists (ts, o, ts'). split; [left; reflexivity|exact Hb].
      + destruct (to_fin o); try (destruct pre; discriminate).
        destruct (IH ts' HI' pre x post H1 Ha) as [Hb|(y & Hy & Hb)].
        * destruct (q_authed _ HQ Hb) as [Hc|Hc]; [left; exact Hc|].
          right. exists (ts, o, ts'). split; [left; reflexivity|exact Hc].
        * right. exists y. split; [right; exact Hy|exact Hb].
  Qed.

  Lemma session_shape : forall fuel cfg w, exists b rest,
    t_session mechs fuel cfg nv w = b :: rest /\
    s_authed (sv (t_st (post_of b))) = false /\
    (rest = [] \/ (rest = t_loop mechs fuel nv (post_of b) /\ Inv (post_of b))).
  Proof.
    intros fuel cfg w.
    pose proof (session_ok mechs nv fuel cfg w) as [_ HInv].
    unfold t_session in *.
    set (imm := cfg_context cfg && cfg_tls_immediately cfg) in *.
    destruct (imm && negb (nv_hs nv)).
    - eexists; eexists; split; [reflexivity|]. cbn. auto.
    - set (st1 := if imm then encrypted_state (init_state cfg) else init_state cfg) in *.
      set (r := command_BANNER (nv_vf nv KBanner []) st1) in *.
      destruct (banner_state (nv_vf nv KBanner []) st1) as (B1 & B2 & B3 & B4). fold r in B1, B2, B3, B4.
      assert (A0 : s_authed (sv (r_st r)) = false).
      { rewrite B3. unfold st1. destruct imm; reflexivity. }
      destruct (r_exc r); eexists; eexists; (split; [reflexivity|]); cbn; (split; [exact A0|]); auto.
      right. split; [reflexivity|]. inversion HInv; subst. cbn in H1. apply H1.
  Qed.

  Theorem session_authed : forall fuel cfg w pre x post,
    t_session mechs fuel cfg nv w = pre ++ x :: post ->
    s_authed (sv (t_st (post_of x))) = true ->
    exists y, In y (pre ++ [x]) /\ has_235 (ev_of y).
  Proof.
    intros fuel cfg w pre x post H Ha.
    destruct (session_shape fuel cfg w) as (b & rest & Hs & Hb & Hr).
    rewrite Hs in H. destruct pre as [|p pre]; cbn in H; injection H as H1 H2.
    - subst. congruence.
    - subst p. destruct Hr as [Hr|[Hr HI]]; [subst; destruct pre; discriminate|].
      rewrite Hr in H2. destruct (loop_authed fuel _ HI pre x post H2 Ha) as [Hc|(y & Hy & Hc)].
      + congruence.
      + exists y. split; [right; exact Hy|exact Hc].
  Qed.
End S.

(* ================================================================== part 9 *)
(* ---------- credentials *)
(* the mechanism run on the SASL responses themselves *)
Fixpoint mech_run (m : mech) (resps : list (bytes * bytes)) (rs : list bytes)
  : mres * list (bytes * bytes) :=
  match m_attempt m resps with
  | MChal d => match rs with
               | r :: rs' => mech_run m (resps ++ [(d, r)]) rs'
               | [] => (MChal d, resps)
               end
  | x => (x, resps)
  end.

Section S.
  Variable nv : env.

  (* the server's side of the exchange, fed with the client's lines *)
  Fixpoint feed (st : sstate) (r : sres) (lines : list bytes) : sres :=
    match sr_mode r, lines with
    | MAuthWait m resps chal, l :: ls => feed st (auth_response nv st m resps chal l) ls
    | _, _ => r
    end.

  Definition spec_result (st : sstate) (m : mech) (x : mres * list (bytes * bytes)) : sres :=
    match x with
    | (MCreds c, _) => auth_finish nv st c
    | (MChal d, resps) => mk_s st (MAuthWait m resps d) [334] [b64_enc d] [] XNone false
    | (_, _) => s_just st 501
    end.

  Lemma response_enc : forall st m resps chal r, Forall byte_ok r ->
    auth_response nv st m resps chal (b64_enc r) = auth_turn nv st m (resps ++ [(chal, r)]).
  Proof.
    intros. unfold auth_response. rewrite b64_enc_not_star, b64_roundtrip by assumption. reflexivity.
  Qed.

  Lemma finish_mode : forall st c, sr_mode (auth_finish nv st c) = MCmd.
  Proof. intros. unfold auth_finish. destruct (apply_verdict _ _); reflexivity. Qed.

  Lemma feed_cmd : forall st r ls, sr_mode r = MCmd -> feed st r ls = r.
  Proof. intros st r ls H. destruct ls; cbn; rewrite H; reflexivity. Qed.

  Lemma feed_exact : forall st m rs resps, Forall (Forall byte_ok) rs ->
    feed st (auth_turn nv st m resps) (map b64_enc rs) = spec_result st m (mech_run m resps rs).
  Proof.
    intros st m rs. induction rs as [|r rs IH]; intros resps Hrs.
    - cbn [map mech_run]. unfold auth_turn.
      destruct (m_attempt m resps); cbn [spec_result]; try reflexivity.
      apply feed_cmd, finish_mode.
    - inversion Hrs as [|? ? Hr Hrs']; subst. cbn [map mech_run]. unfold auth_turn at 1.
      destruct (m_attempt m resps) eqn:E; cbn [spec_result].
      + apply feed_cmd, finish_mode.
      + cbn [feed sr_mode mk_s]. rewrite response_enc by assumption. apply IH. assumption.
      + reflexivity.
      + reflexivity.
  Qed.

  (* an initial response given with the AUTH command *)
  Lemma feed_exact_initial : forall st m d r0 rs,
    m_attempt m [] = MChal d -> Forall byte_ok r0 -> Forall (Forall byte_ok) rs ->
    feed st (auth_response nv st m [] d (b64_enc r0)) (map b64_enc rs)
    = spec_result st m (mech_run m [] (r0 :: rs)).
  Proof.
    intros st m d r0 rs Hm H0 Hrs. rewrite response_enc by assumption.
    cbn [mech_run]. rewrite Hm. apply feed_exact. assumption.
  Qed.

  (* whatever the exchange, the credentials the application sees are what the mechanism
     returned for the decoded lines *)
  Lemma finish_event : forall st c enc c' code,
    In (TAuth enc c' code) (sr_events (auth_finish nv st c)) -> c' = c.
  Proof.
    intros st c enc c' code H. unfold auth_finish in H.
    destruct (apply_verdict _ _); cbn in H; destruct H as [H|[]]; inversion H; reflexivity.
  Qed.
End S.

(* ---------- the PLAIN message, arbitrary Unicode *)
Definition no_nul (s : bytes) : Prop := Forall (fun b => b <> 0) s.

Lemma split_nul_nonul : forall s, no_nul s -> split_nul s = [s].
Proof.
  induction s as [|c s IH]; intros H; cbn; [reflexivity|].
  inversion H; subst. destruct (c =? 0) eqn:E; [apply N.eqb_eq in E; congruence|].
  rewrite IH by assumption. reflexivity.
Qed.

Lemma split_nul_app : forall a s, no_nul a -> split_nul (a ++ 0 :: s) = a :: split_nul s.
Proof.
  induction a as [|c a IH]; intros s H; cbn; [reflexivity|].
  inversion H; subst. destruct (c =? 0) eqn:E; [apply N.eqb_eq in E; congruence|].
  rewrite IH by assumption. reflexivity.
Qed.

Lemma plain_exact : forall ch zid cid sec rest,
  no_nul zid -> no_nul cid -> no_nul sec -> cid <> [] ->
  is_utf8 zid = true -> is_utf8 cid = true -> is_utf8 sec = true ->
  plain_attempt ((ch, zid ++ 0 :: cid ++ 0 :: sec) :: rest) =
  MCreds {| cr_kind := 0; cr_cid := cid; cr_secret := sec;
            cr_zid := match zid with [] => cid | _ => zid end |}.
Proof.
  intros ch zid cid sec rest Hz Hc Hs Hne Uz Uc Us. unfold plain_attempt.
  rewrite split_nul_app, split_nul_app, split_nul_nonul by assumption.
  destruct cid as [|c0 cid]; [congruence|]. rewrite Uz, Uc, Us. reflexivity.
Qed.

(* ---------- state after the handshake *)
Lemma tls_state_greeted : forall st,
  s_ehlo (sv (tls_state st)) = None /\ s_mail (sv (tls_state st)) = false /\
  s_rcpt (sv (tls_state st)) = false /\ x_starttls (ex (tls_state st)) = false /\
  e_env (ed (tls_state st)) = None /\ s_encrypted (sv (tls_state st)) = true /\
  e_tls (ed (tls_state st)) = true /\ s_bannered (sv (tls_state st)) = s_bannered (sv st).
Proof. intros. cbn. repeat split. Qed.

Definition greeted (st : sstate) : Prop :=
  s_ehlo (sv st) = None /\ s_mail (sv st) = false /\ s_rcpt (sv st) = false /\
  x_starttls (ex st) = false.

Local Opaque gather_params utf8_dec find_gt match_path_prefix check_size py_int get_param too_big N.eqb N.leb N.ltb.

(* in that state MAIL, RCPT, DATA, AUTH and STARTTLS reach no handler and change nothing *)
Lemma greeted_refuses : forall mechs nv st l, greeted st ->
  match classify l with CMail | CRcpt | CData | CAuth | CStarttls => True | _ => False end ->
  sr_st (t_exec_cmd mechs nv st l) = st /\ sr_events (t_exec_cmd mechs nv st l) = [] /\
  sr_mode (t_exec_cmd mechs nv st l) = MCmd.
Proof.
  intros mechs nv st l (G1 & G2 & G3 & G4) Hc. unfold t_exec_cmd.
  destruct (classify l) eqn:E; try destruct Hc.
  - unfold t_command_STARTTLS. rewrite G4. cbn. auto.
  - pose proof (auth_refused_state mechs nv st (l_arg l) (or_introl G1)) as (R1 & R2 & R3 & _). auto.
  - unfold of_res, handle_command. cbn [cmd_item it_line it_v1]. rewrite E. unfold command_MAIL.
    rewrite G1. cbn. repeat (brk1; cbn); auto.
  - unfold of_res, handle_command. cbn [cmd_item it_line it_v1]. rewrite E. unfold command_RCPT.
    rewrite G2. cbn. repeat (brk1; cbn); auto.
  - unfold t_data_start. rewrite G2. cbn. destruct (nonempty (l_arg l)); cbn; auto.
Qed.
(* ================================================================== the property theorems *)
Local Transparent N.eqb N.leb N.ltb b64_dec b64_enc utf8_dec.

Section Final.
  Variable mechs : bytes -> option mech.
  Variable nv : env.

  Theorem no_plaintext_after_tls_server : forall fuel cfg w x,
    In x (t_session mechs fuel cfg nv w) ->
    to_enc (snd (fst x)) = t_enc (pre_of x) /\
    (to_enc (snd (fst x)) = true -> all_tls (to_line (snd (fst x))) = true) /\
    (t_enc (post_of x) = true -> all_tls (t_buf (post_of x)) = true).
  Proof.
    intros fuel cfg w x Hx. destruct (session_ok mechs nv fuel cfg w) as [H1 H2].
    rewrite Forall_forall in H1, H2. specialize (H1 x Hx). destruct (H2 x Hx) as [_ HI].
    split; [apply (q_encflag _ H1)|]. split; [apply (q_tls _ H1)|apply (i_buf _ HI)].
  Qed.

  Theorem state_after_tls : forall fuel cfg w x,
    In x (t_session mechs fuel cfg nv w) ->
    (t_enc (pre_of x) = false -> t_enc (post_of x) = true ->
       s_ehlo (sv (t_st (post_of x))) = None /\ s_mail (sv (t_st (post_of x))) = false /\
       s_rcpt (sv (t_st (post_of x))) = false /\ x_starttls (ex (t_st (post_of x))) = false /\
       e_env (ed (t_st (post_of x))) = None /\ e_tls (ed (t_st (post_of x))) = true /\
       t_buf (post_of x) = [] /\ t_mode (post_of x) = MCmd /\ In (TCall true EvTls) (ev_of x)) /\
    (t_enc (post_of x) = true -> x_starttls (ex (t_st (post_of x))) = false).
  Proof.
    intros fuel cfg w x Hx. destruct (session_ok mechs nv fuel cfg w) as [H1 H2].
    rewrite Forall_forall in H1, H2. specialize (H1 x Hx). destruct (H2 x Hx) as [_ HI].
    split; [|apply (i_stls _ HI)].
    intros Ha Hb. destruct (q_greeted _ H1 Ha Hb) as (Hs & Hbuf & Hm & Hin).
    unfold post_of. rewrite Hs.
    destruct (tls_state_greeted (t_st (fst (fst x)))) as (G1 & G2 & G3 & G4 & G5 & G6 & G7 & _).
    repeat split; assumption.
  Qed.

  Theorem tauth_gated : forall fuel cfg w x enc c code,
    In x (t_session mechs fuel cfg nv w) -> In (TAuth enc c code) (ev_of x) ->
    enc = t_enc (pre_of x) /\ exists m, gate (t_st (pre_of x)) m.
  Proof.
    intros fuel cfg w x enc c code Hx Hin. destruct (session_ok mechs nv fuel cfg w) as [H1 _].
    rewrite Forall_forall in H1. exact (q_tauth _ (H1 x Hx) enc c code Hin).
  Qed.

  Theorem eauth_only_on_235 : forall fuel cfg w x,
    In x (t_session mechs fuel cfg nv w) ->
    e_auth (ed (t_st (post_of x))) = e_auth (ed (t_st (pre_of x))) \/
    exists enc c, In (TAuth enc c (Some 235)) (ev_of x) /\
                  e_auth (ed (t_st (post_of x))) = Some (cr_cid c).
  Proof.
    intros fuel cfg w x Hx. destruct (session_ok mechs nv fuel cfg w) as [H1 _].
    rewrite Forall_forall in H1. exact (q_eauth _ (H1 x Hx)).
  Qed.

  Theorem edge_identity_fresh : forall fuel cfg w x,
    In x (t_session mechs fuel cfg nv w) -> fresh (t_st (post_of x)).
  Proof.
    intros fuel cfg w x Hx. destruct (session_ok mechs nv fuel cfg w) as [_ H2].
    rewrite Forall_forall in H2. destruct (H2 x Hx) as [_ HI]. apply (i_fresh _ HI).
  Qed.
End Final.

(* ---------- concrete sessions: witnesses and satisfiability of the hypotheses *)
Definition bsl (l : list N) : bytes := l.
Definition keep_env (hs : bool) : env :=
  {| nv_vf := fun _ _ => VKeep; nv_queued := fun _ => VKeep; nv_qf := fun _ => QOk; nv_hs := hs;
     nv_stls := VKeep |}.
Definition ex_cfg (imm : bool) : config :=
  {| cfg_context := true; cfg_tls_immediately := imm; cfg_tls_imm_ok := true; cfg_auth := true;
     cfg_max_size := None |}.
Definition ex_mechs := std_mechs true [].

(* "EHLO a\r\nSTARTTLS\r\n" *)
Definition W_EHLO_STARTTLS : bytes :=
  [69;72;76;79;32;97;13;10; 83;84;65;82;84;84;76;83;13;10].
(* "EHLO a\r\nAUTH PLAIN AHUAcA==\r\n"   (AHUAcA== = NUL u NUL p) *)
Definition W_EHLO_AUTH : bytes :=
  [69;72;76;79;32;97;13;10; 65;85;84;72;32;80;76;65;73;78;32;65;72;85;65;99;65;61;61;13;10].

Definition tr_starttls := t_session ex_mechs 40 (ex_cfg false) (keep_env true)
                                    {| w_plain := [W_EHLO_STARTTLS]; w_tls := [] |}.
Definition tr_auth_tls := t_session ex_mechs 40 (ex_cfg true) (keep_env true)
                                    {| w_plain := []; w_tls := [W_EHLO_AUTH] |}.
Definition tr_auth_clear := t_session ex_mechs 40 (ex_cfg false) (keep_env true)
                                    {| w_plain := [W_EHLO_AUTH]; w_tls := [] |}.

(* the handshake step exists (hypotheses of state_after_tls), and the edge still holds the
   identity given in clear text afterwards *)
Example ex_handshake_step :
  existsb (fun x => negb (t_enc (pre_of x)) && t_enc (post_of x) &&
                    is_some (e_ehlo (ed (t_st (post_of x)))) &&
                    negb (is_some (s_ehlo (sv (t_st (post_of x))))))
          tr_starttls = true.
Proof. vm_compute. reflexivity. Qed.

Theorem edge_ehlo_survives : exists mechs nv fuel cfg w x,
  In x (t_session mechs fuel cfg nv w) /\ t_enc (pre_of x) = false /\ t_enc (post_of x) = true /\
  e_ehlo (ed (t_st (post_of x))) <> None.
Proof.
  exists ex_mechs, (keep_env true), 40%nat, (ex_cfg false), {| w_plain := [W_EHLO_STARTTLS]; w_tls := [] |}.
  pose proof ex_handshake_step as H. apply existsb_exists in H. destruct H as (x & Hx & Hb).
  exists x. split; [exact Hx|].
  repeat (apply andb_true_iff in Hb; destruct Hb as [Hb ?]).
  repeat split.
  - destruct (t_enc (pre_of x)); [discriminate|reflexivity].
  - assumption.
  - destruct (e_ehlo (ed (t_st (post_of x)))); [discriminate|discriminate].
Qed.

(* AUTH PLAIN over immediate TLS is accepted: the session ends authenticated, the handler saw
   (u, p, u) with the encryption flag set *)
Example ex_auth_tls :
  existsb (fun x => s_authed (sv (t_st (post_of x))) &&
                    match ev_of x with
                    | [TAuth true c (Some 235)] =>
                        beqb (cr_cid c) [117] && beqb (cr_secret c) [112] && beqb (cr_zid c) [117]
                    | _ => false
                    end) tr_auth_tls = true.
Proof. vm_compute. reflexivity. Qed.

(* the same bytes in clear text: 504, nobody is asked, not authenticated *)
Example ex_auth_clear :
  forallb (fun x => negb (s_authed (sv (t_st (post_of x)))) &&
                    match ev_of x with [TAuth _ _ _] => false | _ => true end) tr_auth_clear = true /\
  existsb (fun x => match to_replies (snd (fst x)) with [504] => true | _ => false end) tr_auth_clear = true.
Proof. split; vm_compute; reflexivity. Qed.

Definition ex_gate_state : sstate :=
  {| sv := {| s_bannered := true; s_ehlo := Some [97]; s_mail := false; s_rcpt := false;
              s_authed := false; s_encrypted := true |};
     ex := {| x_base := true; x_starttls := false; x_auth := true; x_size := None |};
     ed := {| e_env := None; e_ehlo := Some [97]; e_auth := None; e_esmtp := true; e_tls := true |} |}.

Example ex_gate : gate ex_gate_state {| m_insecure := true; m_attempt := plain_attempt |}.
Proof. unfold gate; cbn. repeat split; reflexivity. Qed.

Example ex_refused_hyp : exists arg n m st,
  mech_named arg n /\ ex_mechs n = Some m /\ m_insecure m = true /\ s_encrypted (sv st) = false.
Proof.
  exists (Some N_PLAIN), N_PLAIN, {| m_insecure := true; m_attempt := plain_attempt |},
         (init_state (ex_cfg false)).
  repeat split. left. reflexivity.
Qed.

Example ex_plain_unicode :   (* zid empty, cid = U+00E9 U+4E2D, secret = U+1F600 *)
  plain_attempt [([], [] ++ 0 :: [195;169;228;184;173] ++ 0 :: [240;159;152;128])] =
  MCreds {| cr_kind := 0; cr_cid := [195;169;228;184;173]; cr_secret := [240;159;152;128];
            cr_zid := [195;169;228;184;173] |}.
Proof. vm_compute. reflexivity. Qed.

Example ex_feed : forall nv st,
  feed nv st (auth_turn nv st {| m_insecure := true; m_attempt := login_attempt |} [])
       (map b64_enc [[117]; [112]]) =
  auth_finish nv st {| cr_kind := 0; cr_cid := [117]; cr_secret := [112]; cr_zid := [117] |}.
Proof.
  intros. rewrite feed_exact.
  - reflexivity.
  - repeat constructor; unfold byte_ok; lia.
Qed.

(* ================================================================== part 10: the EHLO identity
   Server.ehlo_as becomes (or changes to) a name only in a step in which the EHLO/HELO handler
   was called with that name and left the reply at 250. *)
Local Opaque gather_params utf8_dec find_gt match_path_prefix check_size py_int get_param too_big N.eqb N.leb N.ltb b64_dec b64_enc.

Definition hello_ev (nv : env) (a : bytes) (es : list tevent) : Prop :=
  exists enc k, (k = KEhlo \/ k = KHelo) /\ In (TCall enc (EvCall k a [] (Some 250))) es /\
                apply_verdict (nv_vf nv k a) 250 = Some 250.

Definition ehlo_just (nv : env) (st : sstate) (r : sres) : Prop :=
  forall a, s_ehlo (sv (sr_st r)) = Some a -> s_ehlo (sv st) = Some a \/ hello_ev nv a (sr_events r).

Lemma ej_same : forall nv st r, s_ehlo (sv (sr_st r)) = s_ehlo (sv st) -> ehlo_just nv st r.
Proof. intros nv st r H a Ha. left. congruence. Qed.

Section EJ.
  Variable mechs : bytes -> option mech.
  Variable nv : env.

  Lemma ej_handle : forall st l,
    classify l <> CStarttls -> classify l <> CAuth -> classify l <> CData ->
    ehlo_just nv st (of_res (s_encrypted (sv st)) (handle_command st (cmd_item nv l))).
  Proof.
    intros st l H1 H2 H3. unfold handle_command. cbn [cmd_item it_line it_v1].
    destruct (classify l) eqn:Hc; try congruence; clear H1 H2 H3.
    - (* EHLO *)
      unfold command_EHLO.
      destruct (negb (s_bannered (sv st))); [apply ej_same; reflexivity|].
      destruct (negb (nonempty (l_arg l))); [apply ej_same; reflexivity|].
      destruct (utf8_dec match l_arg l with Some a => a | None => [] end); [|apply ej_same; reflexivity].
      unfold arg_bytes.
      destruct (apply_verdict (nv_vf nv KEhlo match l_arg l with Some b => b | None => [] end) 250) as [c|] eqn:Ev;
        [|apply ej_same; reflexivity].
      destruct (c =? 250) eqn:Ec; [|apply ej_same; unfold of_res, mk; cbn; try rewrite Ec; reflexivity].
      apply N.eqb_eq in Ec; subst c. intros a Ha. right. cbn in Ha.
      change (250 =? 250) with true in Ha. cbn in Ha. inversion Ha; subst a.
      exists (s_encrypted (sv st)), KEhlo. split; [left; reflexivity|]. split; [cbn; left; reflexivity|exact Ev].
    - (* HELO *)
      unfold command_HELO.
      destruct (negb (s_bannered (sv st))); [apply ej_same; reflexivity|].
      destruct (negb (nonempty (l_arg l))); [apply ej_same; reflexivity|].
      destruct (utf8_dec match l_arg l with Some a => a | None => [] end); [|apply ej_same; reflexivity].
      unfold arg_bytes.
      destruct (apply_verdict (nv_vf nv KHelo match l_arg l with Some b => b | None => [] end) 250) as [c|] eqn:Ev;
        [|apply ej_same; reflexivity].
      destruct (c =? 250) eqn:Ec; [|apply ej_same; unfold of_res, mk; cbn; try rewrite Ec; reflexivity].
      apply N.eqb_eq in Ec; subst c. intros a Ha. right. cbn in Ha.
      change (250 =? 250) with true in Ha. cbn in Ha. inversion Ha; subst a.
      exists (s_encrypted (sv st)), KHelo. split; [right; reflexivity|]. split; [cbn; left; reflexivity|exact Ev].
    - apply ej_same. unfold command_MAIL. repeat (brk1; cbn); reflexivity.
    - apply ej_same. unfold command_RCPT. repeat (brk1; cbn); reflexivity.
    - apply ej_same. unfold command_RSET. repeat (brk1; cbn); reflexivity.
    - apply ej_same. reflexivity.
    - apply ej_same. unfold command_QUIT. repeat (brk1; cbn); reflexivity.
    - apply ej_same. reflexivity.
    - apply ej_same. reflexivity.
  Qed.

  Lemma ej_finish : forall st c, ehlo_just nv st (auth_finish nv st c).
  Proof.
    intros. apply ej_same. unfold auth_finish.
    destruct (apply_verdict _ _) as [code|]; cbn; [destruct (code =? 235)|]; reflexivity.
  Qed.

  Lemma ej_turn : forall st m resps, ehlo_just nv st (auth_turn nv st m resps).
  Proof.
    intros. unfold auth_turn. destruct (m_attempt m resps); try (apply ej_same; reflexivity). apply ej_finish.
  Qed.

  Lemma ej_response : forall st m resps chal resp, ehlo_just nv st (auth_response nv st m resps chal resp).
  Proof.
    intros. unfold auth_response. destruct (beqb resp STAR); [apply ej_same; reflexivity|].
    destruct (b64_dec resp); [apply ej_turn|apply ej_same; reflexivity].
  Qed.

  Lemma ej_AUTH : forall st arg, ehlo_just nv st (t_command_AUTH mechs nv st arg).
  Proof.
    intros. unfold t_command_AUTH.
    destruct (negb (x_auth (ex st))); [apply ej_same; reflexivity|].
    destruct (negb (is_some (s_ehlo (sv st))) || s_authed (sv st) || s_mail (sv st)); [apply ej_same; reflexivity|].
    destruct (negb (nonempty arg)); [apply ej_same; reflexivity|].
    destruct (parse_auth_arg (arg_bytes arg)) as [|n|n a]; [apply ej_same; reflexivity| |];
      (destruct (mechs n) as [m|]; [|apply ej_same; reflexivity]);
      (destruct (m_insecure m && negb (s_encrypted (sv st))); [apply ej_same; reflexivity|]).
    - apply ej_turn.
    - destruct (m_attempt m []); [apply ej_finish|apply ej_response|apply ej_same; reflexivity|apply ej_same; reflexivity].
  Qed.

  Lemma ej_STARTTLS : forall st arg v hs, ehlo_just nv st (t_command_STARTTLS st arg v hs).
  Proof.
    intros. unfold t_command_STARTTLS.
    destruct (negb (x_starttls (ex st))); [apply ej_same; reflexivity|].
    destruct (nonempty arg); [apply ej_same; reflexivity|].
    destruct (negb (is_some (s_ehlo (sv st)))); [apply ej_same; reflexivity|].
    destruct (apply_verdict v 220) as [c|]; [|apply ej_same; reflexivity].
    destruct (is_close c); [apply ej_same; reflexivity|].
    destruct (negb (c =? 220)); [apply ej_same; reflexivity|].
    destruct (negb hs); [apply ej_same; reflexivity|].
    intros a Ha. cbn in Ha. discriminate.
  Qed.

  Lemma ej_dispatch : forall st m consumed, ehlo_just nv st (t_dispatch mechs nv st m consumed).
  Proof.
    intros st m consumed. destruct m; cbn [t_dispatch].
    - unfold t_exec_cmd. destruct (classify (parse_line (line_of consumed))) eqn:Hc;
        try (apply ej_handle; rewrite Hc; discriminate).
      + apply ej_STARTTLS.
      + apply ej_AUTH.
      + apply ej_same. unfold t_data_start. repeat (brk1; cbn); reflexivity.
    - apply ej_response.
    - apply ej_same. unfold t_data_line. destruct (is_eod (raw_of consumed)); [|reflexivity].
      unfold of_res, get_message_data, session_HAVE_DATA. repeat (brk1; cbn); reflexivity.
  Qed.

  Lemma step_ehlo : forall ts ts' o a, t_step mechs nv ts = (ts', o) ->
    s_ehlo (sv (t_st ts')) = Some a ->
    s_ehlo (sv (t_st ts)) = Some a \/ hello_ev nv a (to_events o).
  Proof.
    intros ts ts' o a H Ha. unfold t_step in H.
    destruct (recv_line_on (chan_of (t_enc ts)) (t_buf ts) (chunks_of (t_enc ts) (t_wire ts)))
      as [[[consumed rest] cs]|]; inversion H; subst ts' o; clear H; cbn in *; [|left; exact Ha].
    exact (ej_dispatch (t_st ts) (t_mode ts) consumed a Ha).
  Qed.

  Lemma loop_ehlo : forall fuel ts pre x post a,
    t_loop mechs fuel nv ts = pre ++ x :: post ->
    s_ehlo (sv (t_st (post_of x))) = Some a ->
    s_ehlo (sv (t_st ts)) = Some a \/ exists y, In y (pre ++ [x]) /\ hello_ev nv a (ev_of y).
  Proof.
    induction fuel as [|f IH]; intros ts pre x post a H Ha; cbn in H.
    - destruct pre; discriminate.
    - destruct (t_step mechs nv ts) as [ts' o] eqn:E.
      assert (H' : (ts, o, ts') :: (match to_fin o with TContinue => t_loop mechs f nv ts' | _ => [] end)
                   = pre ++ x :: post) by (destruct (to_fin o); exact H).
      clear H. destruct pre as [|p pre]; cbn in H'; injection H' as H1 H2.
      + subst x. destruct (step_ehlo _ _ _ _ E Ha) as [Hb|Hb]; [left; exact Hb|].
        right. exists (ts, o, ts'). split; [left; reflexivity|exact Hb].
      + subst p. destruct (to_fin o); try (destruct pre; discriminate).
        destruct (IH ts' pre x post a H2 Ha) as [Hb|(y & Hy & Hb)].
        * destruct (step_ehlo _ _ _ _ E Hb) as [Hc|Hc]; [left; exact Hc|].
          right. exists (ts, o, ts'). split; [left; reflexivity|exact Hc].
        * right. exists y. split; [right; exact Hy|exact Hb].
  Qed.

  Lemma banner_ehlo : forall vb st, s_ehlo (sv (r_st (command_BANNER vb st))) = s_ehlo (sv st).
  Proof.
    intros. unfold command_BANNER. destruct (apply_verdict vb 220) as [c|]; cbn; [|reflexivity].
    destruct (c =? 220); reflexivity.
  Qed.

  (* in any session: an EHLO identity after a step was given by an accepted EHLO/HELO of that
     step or an earlier one *)
  Theorem session_ehlo : forall fuel cfg w pre x post a,
    t_session mechs fuel cfg nv w = pre ++ x :: post ->
    s_ehlo (sv (t_st (post_of x))) = Some a ->
    exists y, In y (pre ++ [x]) /\ hello_ev nv a (ev_of y).
  Proof.
    intros fuel cfg w pre x post a H Ha. unfold t_session in H.
    set (imm := cfg_context cfg && cfg_tls_immediately cfg) in *.
    destruct (imm && negb (nv_hs nv)).
    - destruct pre as [|p [|q pre]]; inversion H; subst. cbn in Ha. discriminate.
    - set (st1 := if imm then encrypted_state (init_state cfg) else init_state cfg) in *.
      assert (E0 : s_ehlo (sv (r_st (command_BANNER (nv_vf nv KBanner []) st1))) = None).
      { rewrite banner_ehlo. unfold st1. destruct imm; reflexivity. }
      destruct (r_exc (command_BANNER (nv_vf nv KBanner []) st1));
        (destruct pre as [|p pre]; cbn in H; injection H as H1 H2;
         [subst x; cbn in Ha; congruence|]);
        try (destruct pre; discriminate).
      destruct (loop_ehlo _ _ _ _ _ _ H2 Ha) as [Hb|(y & Hy & Hb)].
      + cbn in Hb. congruence.
      + exists y. split; [right; exact Hy|exact Hb].
  Qed.

  (* if the application accepts no greeting at all, there is never an EHLO identity - whatever
     the client sends, STARTTLS and immediate TLS included - and so AUTH, MAIL and STARTTLS are
     refused throughout *)
  Theorem rejected_greetings_no_identity : forall fuel cfg w x,
    (forall k a, (k = KEhlo \/ k = KHelo) -> apply_verdict (nv_vf nv k a) 250 <> Some 250) ->
    In x (t_session mechs fuel cfg nv w) -> s_ehlo (sv (t_st (post_of x))) = None.
  Proof.
    intros fuel cfg w x Hrej Hx. apply in_split in Hx. destruct Hx as (pre & post & Hx).
    destruct (s_ehlo (sv (t_st (post_of x)))) as [a|] eqn:Ha; [|reflexivity].
    destruct (session_ehlo _ _ _ _ _ _ _ Hx Ha) as (y & _ & enc & k & Hk & _ & Hv).
    exfalso. exact (Hrej k a Hk Hv).
  Qed.
End EJ.

Example ex_rejected_greeting :   (* "EHLO a" rejected with 550, then AUTH PLAIN: 503, nobody asked *)
  let nv := {| nv_vf := fun k _ => match k with KEhlo => VCode 550 | _ => VKeep end;
               nv_queued := fun _ => VKeep; nv_qf := fun _ => QOk; nv_hs := true; nv_stls := VKeep |} in
  let tr := t_session ex_mechs 40 (ex_cfg true) nv {| w_plain := []; w_tls := [W_EHLO_AUTH] |} in
  map (fun x => to_replies (snd (fst x))) tr = [[220]; [550]; [503]; []] /\
  forallb (fun x => match ev_of x with [TAuth _ _ _] => false | _ => true end) tr = true.
Proof. split; vm_compute; reflexivity. Qed.

(* ================================================================== part 11: an AUTH exchange does not
   depend on earlier attempts.  The session state has no slot in which an earlier AUTH line could
   leave anything (between commands the mode is MCmd); what an AUTH command and each answer line
   do is a function of the line, of the gate-relevant part of the state and - for answer lines -
   of the responses of THIS exchange. *)
Definition gate_view (st : sstate) : bool * bool * bool * bool * bool :=
  (x_auth (ex st), is_some (s_ehlo (sv st)), s_authed (sv st), s_mail (sv st), s_encrypted (sv st)).

Definition auth_view (r : sres) : list N * list bytes * list tevent * exc * mode * bool :=
  (sr_replies r, sr_chal r, sr_events r, sr_exc r, sr_mode r, sr_flush r).

Section IND.
  Variable mechs : bytes -> option mech.
  Variable nv : env.

  Lemma view_finish : forall st1 st2 c, s_encrypted (sv st1) = s_encrypted (sv st2) ->
    auth_view (auth_finish nv st1 c) = auth_view (auth_finish nv st2 c).
  Proof.
    intros st1 st2 c He. unfold auth_finish, auth_view. rewrite He.
    destruct (apply_verdict (nv_vf nv KAuth (cr_cid c)) 235); reflexivity.
  Qed.

  Lemma view_turn : forall st1 st2 m resps, s_encrypted (sv st1) = s_encrypted (sv st2) ->
    auth_view (auth_turn nv st1 m resps) = auth_view (auth_turn nv st2 m resps).
  Proof.
    intros st1 st2 m resps He. unfold auth_turn.
    destruct (m_attempt m resps); try reflexivity. apply view_finish; exact He.
  Qed.

  Lemma view_response : forall st1 st2 m resps chal resp, s_encrypted (sv st1) = s_encrypted (sv st2) ->
    auth_view (auth_response nv st1 m resps chal resp) = auth_view (auth_response nv st2 m resps chal resp).
  Proof.
    intros st1 st2 m resps chal resp He. unfold auth_response.
    destruct (beqb resp STAR); [reflexivity|].
    destruct (b64_dec resp); [apply view_turn; exact He|reflexivity].
  Qed.

  Theorem auth_command_independent : forall st1 st2 arg, gate_view st1 = gate_view st2 ->
    auth_view (t_command_AUTH mechs nv st1 arg) = auth_view (t_command_AUTH mechs nv st2 arg).
  Proof.
    intros st1 st2 arg H. unfold gate_view in H. injection H as H1 H2 H3 H4 H5.
    unfold t_command_AUTH. rewrite H1, H2, H3, H4, H5.
    destruct (negb (x_auth (ex st2))); [reflexivity|].
    destruct (negb (is_some (s_ehlo (sv st2))) || s_authed (sv st2) || s_mail (sv st2)); [reflexivity|].
    destruct (negb (nonempty arg)); [reflexivity|].
    destruct (parse_auth_arg (arg_bytes arg)) as [|n|n a]; [reflexivity| |];
      (destruct (mechs n) as [m|]; [|reflexivity]);
      (destruct (m_insecure m && negb (s_encrypted (sv st2))); [reflexivity|]).
    - apply view_turn; exact H5.
    - destruct (m_attempt m []); try reflexivity; [apply view_finish|apply view_response]; exact H5.
  Qed.

  (* the state an exchange leaves depends on the state before it only through the same update *)
  Theorem auth_command_state : forall st arg,
    sr_st (t_command_AUTH mechs nv st arg) = st \/
    exists c, In (TAuth (s_encrypted (sv st)) c (Some 235)) (sr_events (t_command_AUTH mechs nv st arg)) /\
              sr_st (t_command_AUTH mechs nv st arg) =
              {| sv := set_authed true (sv st); ex := ex st; ed := set_e_auth (Some (cr_cid c)) (ed st) |}.
  Proof.
    assert (F : forall st c, sr_st (auth_finish nv st c) = st \/
              exists c0, In (TAuth (s_encrypted (sv st)) c0 (Some 235)) (sr_events (auth_finish nv st c)) /\
                         sr_st (auth_finish nv st c) =
                         {| sv := set_authed true (sv st); ex := ex st; ed := set_e_auth (Some (cr_cid c0)) (ed st) |}).
    { intros st c. unfold auth_finish. destruct (apply_verdict (nv_vf nv KAuth (cr_cid c)) 235) as [code|]; [|left; reflexivity].
      destruct (code =? 235) eqn:E.
      - apply N.eqb_eq in E; subst. right. exists c. cbn. split; [left; reflexivity|reflexivity].
      - left. cbn. destruct st as [s x d]; reflexivity. }
    assert (T : forall st m resps, sr_st (auth_turn nv st m resps) = st \/
              exists c0, In (TAuth (s_encrypted (sv st)) c0 (Some 235)) (sr_events (auth_turn nv st m resps)) /\
                         sr_st (auth_turn nv st m resps) =
                         {| sv := set_authed true (sv st); ex := ex st; ed := set_e_auth (Some (cr_cid c0)) (ed st) |}).
    { intros st m resps. unfold auth_turn. destruct (m_attempt m resps); try (left; reflexivity). apply F. }
    intros st arg. unfold t_command_AUTH.
    destruct (negb (x_auth (ex st))); [left; reflexivity|].
    destruct (negb (is_some (s_ehlo (sv st))) || s_authed (sv st) || s_mail (sv st)); [left; reflexivity|].
    destruct (negb (nonempty arg)); [left; reflexivity|].
    destruct (parse_auth_arg (arg_bytes arg)) as [|n|n a]; [left; reflexivity| |];
      (destruct (mechs n) as [m|]; [|left; reflexivity]);
      (destruct (m_insecure m && negb (s_encrypted (sv st))); [left; reflexivity|]).
    - apply T.
    - destruct (m_attempt m []); try (left; reflexivity); [apply F|].
      unfold auth_response. destruct (beqb a STAR); [left; reflexivity|].
      destruct (b64_dec a); [apply T|left; reflexivity].
  Qed.
End IND.

(* two AUTH PLAIN attempts in one immediate-TLS session, the first refused (unknown mechanism with an
   initial response), the second in challenge form: the second one is challenged *)
Example ex_second_attempt_challenged :
  let w := (* "EHLO a\r\nAUTH NTLM AHUAcA==\r\nAUTH PLAIN\r\n" *)
      [69;72;76;79;32;97;13;10; 65;85;84;72;32;78;84;76;77;32;65;72;85;65;99;65;61;61;13;10;
       65;85;84;72;32;80;76;65;73;78;13;10] in
  map (fun x => to_replies (snd (fst x)))
      (t_session ex_mechs 60 (ex_cfg true) (keep_env true) {| w_plain := []; w_tls := [w] |})
  = [[220]; [250]; [504]; [334]; []].
Proof. vm_compute. reflexivity. Qed.

(* ================================================================== part 12: base64.b64encode output is one line *)
Local Transparent N.eqb N.leb N.ltb b64_enc.

Lemma b64_chr_no_break : forall v, b64_chr v <> 10 /\ b64_chr v <> 13 /\ b64_chr v <> 32.
Proof.
  intros v. unfold b64_chr.
  destruct (v <? 26) eqn:E1; [lia|]. destruct (v <? 52) eqn:E2; [lia|].
  destruct (v <? 62) eqn:E3; [lia|]. destruct (v =? 62) eqn:E4; lia.
Qed.

Definition line_safe (c : N) : Prop := c <> 10 /\ c <> 13 /\ c <> 32.

(* no CR, no LF, no blank, whatever the length of the input: a response is ONE line *)
Lemma b64_enc_one_line : forall s, Forall line_safe (b64_enc s).
Proof.
  assert (P : line_safe 61) by (unfold line_safe; lia).
  induction s as [|a|a b|a b c s IH] using list_ind3; cbn [b64_enc];
    repeat (constructor; try apply b64_chr_no_break; try exact P). exact IH.
Qed.

Lemma b64_enc_length : forall s, length (b64_enc s) = (4 * ((length s + 2) / 3))%nat.
Proof.
  induction s as [|a|a b|a b c s IH] using list_ind3; try reflexivity.
  cbn [b64_enc length]. rewrite IH.
  replace (S (S (S (length s))) + 2)%nat with (length s + 2 + 1 * 3)%nat by lia.
  rewrite Nat.div_add by lia. lia.
Qed.
