(* Proofs about model/Disk.v: the number codec round trip, the file-system
   commands (locality), temp->rename atomicity of AioFile.dump, the per
   operation Hoare-style lemmas, and the crash-safety invariant (C04). *)
From Coq Require Import List NArith Bool Lia PeanoNat DecimalN DecimalPos Permutation.
From Coq Require Import ZifyBool ZifyN.
From SV Require Import lib.Assoc model.StoreCore model.Disk.
From SV Require Import proof.Assoc_lemmas proof.Rounds_lemmas proof.Prog_lemmas.
Import ListNotations.
Open Scope N_scope.

Local Arguments firstn : simpl never.
Local Arguments skipn : simpl never.

(* ================================================================ codec *)
Lemma digits_uint_digits u : digits_uint (uint_digits u) = Some u.
Proof. induction u; cbn [uint_digits digits_uint]; try rewrite IHu; reflexivity. Qed.

Lemma uint_digits_no_semi u : forall x, In x (uint_digits u) -> x <> SEMI.
Proof.
  induction u; cbn [uint_digits In]; intros x H; try (destruct H as [<-|H]; [unfold SEMI; lia|apply IHu; exact H]).
  destruct H.
Qed.

Lemma to_uint_nonnil n : uint_digits (N.to_uint n) <> [].
Proof.
  destruct n as [|p]; [cbn; discriminate|].
  cbn [N.to_uint]. pose proof (DecimalPos.Unsigned.to_uint_nonnil p) as H.
  destruct (Pos.to_uint p); cbn [uint_digits]; try discriminate. congruence.
Qed.

Lemma dec_nums_aux_digits ds rest cur :
  (forall x, In x ds -> x <> SEMI) ->
  dec_nums_aux (ds ++ rest) cur = dec_nums_aux rest (rev ds ++ cur).
Proof.
  revert cur; induction ds as [|d ds IH]; intros cur H; [reflexivity|].
  cbn [app dec_nums_aux]. destruct (d =? SEMI) eqn:E.
  - exfalso. apply (H d); [left; reflexivity|lia].
  - rewrite IH by (intros x Hx; apply H; right; exact Hx).
    cbn [rev]. rewrite <- app_assoc. reflexivity.
Qed.

Lemma dec_enc_nums l : dec_nums (enc_nums l) = Some l.
Proof.
  unfold dec_nums. induction l as [|n l IH]; [reflexivity|].
  cbn [enc_nums]. rewrite dec_nums_aux_digits by apply uint_digits_no_semi.
  rewrite app_nil_r.
  destruct (rev (uint_digits (N.to_uint n))) as [|x xs] eqn:Er.
  - exfalso. apply (to_uint_nonnil n). rewrite <- (rev_involutive (uint_digits (N.to_uint n))), Er. reflexivity.
  - cbn [dec_nums_aux]. rewrite N.eqb_refl, <- Er, rev_involutive, digits_uint_digits, IH.
    rewrite DecimalN.Unsigned.of_to. reflexivity.
Qed.

Lemma enc_nums_nonempty l : l <> [] -> enc_nums l <> [].
Proof.
  destruct l as [|n l]; [congruence|]. intros _. cbn [enc_nums].
  destruct (uint_digits (N.to_uint n)); discriminate.
Qed.

Lemma nc_dec_enc_meta m : nc_dec_meta (nc_enc_meta m) = Some m.
Proof.
  unfold nc_dec_meta, nc_enc_meta. rewrite dec_enc_nums.
  destruct m as [ts att [l|]]; reflexivity.
Qed.

Lemma rcpts_of_nums_enc rs rest :
  rcpts_of_nums (length rs) (nums_of_rcpts rs ++ rest) = Some (rs, rest).
Proof.
  induction rs as [|r rs IH]; [reflexivity|].
  cbn [length nums_of_rcpts rcpts_of_nums app]. rewrite Nat2N.id.
  rewrite <- app_assoc.
  destruct (Nat.ltb (length (r ++ nums_of_rcpts rs ++ rest)) (length r)) eqn:E.
  - apply Nat.ltb_lt in E. rewrite app_length in E. lia.
  - rewrite skipn_app, skipn_all, Nat.sub_diag. cbn [app]. change (skipn 0 ?x) with x.
    rewrite IH. rewrite firstn_app, firstn_all, Nat.sub_diag. change (firstn 0 ?x) with (@nil N).
    rewrite app_nil_r. reflexivity.
Qed.

Lemma nc_dec_enc_env e : nc_dec_env (nc_enc_env e) = Some e.
Proof.
  unfold nc_dec_env, nc_enc_env. rewrite dec_enc_nums.
  destruct e as [s rs c]. unfold nums_of_env. cbn [e_sender e_rcpts e_content]. cbn [env_of_nums].
  rewrite Nat2N.id.
  destruct (Nat.ltb (length (s ++ N.of_nat (length rs) :: nums_of_rcpts rs ++ c)) (length s)) eqn:E.
  - apply Nat.ltb_lt in E. rewrite app_length in E. lia.
  - rewrite skipn_app, skipn_all, Nat.sub_diag. cbn [app]. change (skipn 0 ?x) with x.
    cbv beta iota. rewrite Nat2N.id, rcpts_of_nums_enc.
    rewrite firstn_app, firstn_all, Nat.sub_diag. change (firstn 0 ?x) with (@nil N).
    rewrite app_nil_r. reflexivity.
Qed.

Lemma nc_enc_meta_nonempty m : nc_enc_meta m <> [].
Proof. apply enc_nums_nonempty. discriminate. Qed.
Lemma nc_enc_env_nonempty e : nc_enc_env e <> [].
Proof. apply enc_nums_nonempty. discriminate. Qed.

(* ================================================================ paths *)
Lemma path_eqb_eq a b : path_eqb a b = true <-> a = b.
Proof.
  destruct a, b; cbn [path_eqb]; split; intros H; try discriminate;
    try (apply N.eqb_eq in H; subst; reflexivity); inversion H; subst; apply N.eqb_refl.
Qed.

Lemma path_eqb_refl a : path_eqb a a = true.
Proof. apply path_eqb_eq. reflexivity. Qed.

Lemma path_eq_dec (a b : path) : {a = b} + {a <> b}.
Proof. exact (keq_dec path path_eqb path_eqb_eq a b). Qed.

Definition fset (s : fs) p d : fs := aset path_eqb s p d.
Definition fdel (s : fs) p : fs := adel path_eqb s p.

Lemma fget_fset s p d q : fget (fset s p d) q = if path_eqb p q then Some d else fget s q.
Proof. apply (lookup_set path bytes path_eqb path_eqb_eq). Qed.
Lemma fget_fdel s p q : fget (fdel s p) q = if path_eqb p q then None else fget s q.
Proof. apply (lookup_del path bytes path_eqb path_eqb_eq). Qed.
Lemma fget_fset_same s p d : fget (fset s p d) p = Some d.
Proof. rewrite fget_fset, path_eqb_refl. reflexivity. Qed.
Lemma fget_fset_other s p d q : p <> q -> fget (fset s p d) q = fget s q.
Proof. intros H. rewrite fget_fset. rewrite (keqb_neq _ path_eqb path_eqb_eq _ _ H). reflexivity. Qed.
Lemma fget_fdel_same s p : fget (fdel s p) p = None.
Proof. rewrite fget_fdel, path_eqb_refl. reflexivity. Qed.
Lemma fget_fdel_other s p q : p <> q -> fget (fdel s p) q = fget s q.
Proof. intros H. rewrite fget_fdel. rewrite (keqb_neq _ path_eqb path_eqb_eq _ _ H). reflexivity. Qed.

Lemma amem_fget s p : amem path_eqb s p = match fget s p with Some _ => true | None => false end.
Proof. reflexivity. Qed.

Lemma env_ids_raw_In s id : In id (env_ids_raw s) <-> fget s (PEnv id) <> None.
Proof.
  induction s as [|[p b] s IH]; cbn [env_ids_raw].
  - split; [intros []|intros H; exfalso; apply H; reflexivity].
  - unfold fget in *. cbn [alookup]. destruct p as [i|i|t]; cbn [path_eqb].
    + cbn [In]. destruct (i =? id) eqn:E.
      * apply N.eqb_eq in E. subst. split; [discriminate|left; reflexivity].
      * rewrite IH. split; [intros [H|H]; [lia|exact H]|right; assumption].
    + exact IH.
    + exact IH.
Qed.

Lemma env_ids_perm s : Permutation.Permutation (nodup N.eq_dec (env_ids_raw s)) (env_ids s).
Proof.
  unfold env_ids. eapply Permutation.Permutation_trans; [apply sort_desc_perm_self|apply Permutation.Permutation_rev].
Qed.

Lemma env_ids_In s id : In id (env_ids s) <-> fget s (PEnv id) <> None.
Proof.
  rewrite <- env_ids_raw_In. split; intros H.
  - apply (nodup_In N.eq_dec). eapply Permutation.Permutation_in; [apply Permutation.Permutation_sym, env_ids_perm|exact H].
  - eapply Permutation.Permutation_in; [apply env_ids_perm|]. apply (nodup_In N.eq_dec). exact H.
Qed.

Lemma env_ids_NoDup s : NoDup (env_ids s).
Proof. eapply Permutation.Permutation_NoDup; [apply env_ids_perm|apply NoDup_nodup]. Qed.

(* ---- the commands, through fget *)
Definition dloc (s : fs) (p : path) : option bytes := fget s p.

Lemma dexec_frame s c f q : dfp c = Some f -> f q = false -> dloc (fst (dexec s c)) q = dloc s q.
Proof.
  unfold dloc. destruct c; cbn [dfp dexec]; intros Hf Hq; inversion Hf; subst f; clear Hf; try reflexivity.
  - destruct (amem path_eqb s (PTmp t)); cbn [fst]; [reflexivity|].
    apply fget_fset_other. intros E. rewrite E, path_eqb_refl in Hq. discriminate.
  - destruct (fget s (PTmp t)); cbn [fst]; [|reflexivity].
    apply fget_fset_other. intros E. rewrite E, path_eqb_refl in Hq. discriminate.
  - apply orb_false_iff in Hq as [Hq1' Hq2'].
    assert (Hq1 : path_eqb (PTmp t) q = false) by exact Hq1'.
    assert (Hq2 : path_eqb p q = false) by exact Hq2'.
    destruct (fget s (PTmp t)); cbn [fst]; [|reflexivity].
    change (fget (fset (fdel s (PTmp t)) p b) q = fget s q).
    rewrite fget_fset, Hq2, fget_fdel, Hq1. reflexivity.
  - cbn [fst]. change (fget (fdel s p) q = fget s q).
    assert (Hq' : path_eqb p q = false) by exact Hq. rewrite fget_fdel, Hq'. reflexivity.
Qed.

Lemma dexec_local s t c f :
  dfp c = Some f -> (forall q, f q = true -> dloc s q = dloc t q) ->
  snd (dexec s c) = snd (dexec t c) /\
  forall q, f q = true -> dloc (fst (dexec s c)) q = dloc (fst (dexec t c)) q.
Proof.
  unfold dloc. destruct c; cbn [dfp dexec]; intros Hf Hag; inversion Hf; subst f; clear Hf.
  - rewrite !amem_fget, (Hag p (path_eqb_refl p)). split; [reflexivity|exact Hag].
  - rewrite !amem_fget, (Hag (PTmp t0) (path_eqb_refl _)).
    destruct (fget t (PTmp t0)); cbn [fst snd]; [split; [reflexivity|exact Hag]|].
    split; [reflexivity|]. intros q Hq. apply path_eqb_eq in Hq. subst q.
    change (fget (fset s (PTmp t0) []) (PTmp t0) = fget (fset t (PTmp t0) []) (PTmp t0)).
    rewrite !fget_fset_same. reflexivity.
  - rewrite (Hag (PTmp t0) (path_eqb_refl _)).
    destruct (fget t (PTmp t0)); cbn [fst snd]; [|split; [reflexivity|exact Hag]].
    split; [reflexivity|]. intros q Hq. apply path_eqb_eq in Hq. subst q.
    change (fget (fset s (PTmp t0) (pwrite b off chunk)) (PTmp t0) = fget (fset t (PTmp t0) (pwrite b off chunk)) (PTmp t0)).
    rewrite !fget_fset_same. reflexivity.
  - assert (Ht : fget s (PTmp t0) = fget t (PTmp t0)) by (apply Hag; cbn [path_eqb]; rewrite N.eqb_refl; reflexivity).
    rewrite Ht. destruct (fget t (PTmp t0)) as [b|]; cbn [fst snd]; [|split; [reflexivity|exact Hag]].
    split; [reflexivity|]. intros q Hq.
    change (fget (fset (fdel s (PTmp t0)) p b) q = fget (fset (fdel t (PTmp t0)) p b) q).
    assert (Hq' : path_eqb (PTmp t0) q || path_eqb p q = true) by exact Hq.
    rewrite !fget_fset. destruct (path_eqb p q) eqn:E1; [reflexivity|].
    rewrite !fget_fdel. destruct (path_eqb (PTmp t0) q) eqn:E2; [reflexivity|]. discriminate.
  - cbn [fst snd]. split; [reflexivity|exact Hag].
  - cbn [fst snd]. split; [reflexivity|]. intros q Hq. apply path_eqb_eq in Hq. subst q.
    change (fget (fdel s p) p = fget (fdel t p) p). rewrite !fget_fdel_same. reflexivity.
  - cbn [fst snd]. rewrite (Hag p (path_eqb_refl p)). split; [reflexivity|exact Hag].
Qed.

(* ====================================== operations, Hoare style (okrun) *)
Definition agree_but (ps : list path) (s s' : fs) : Prop :=
  forall q, ~ In q ps -> fget s' q = fget s q.

Lemma agree_but_refl ps s : agree_but ps s s.
Proof. intros q _. reflexivity. Qed.

Lemma agree_but_weaken ps ps' s s' :
  (forall q, In q ps -> In q ps') -> agree_but ps s s' -> agree_but ps' s s'.
Proof. intros Hsub H q Hq. apply H. intros Hin. apply Hq, Hsub, Hin. Qed.

Lemma agree_but_trans ps s1 s2 s3 : agree_but ps s1 s2 -> agree_but ps s2 s3 -> agree_but ps s1 s3.
Proof. intros H1 H2 q Hq. rewrite (H2 q Hq). apply H1, Hq. Qed.

Lemma agree_but_fset ps s p d : In p ps -> agree_but ps s (fset s p d).
Proof. intros Hin q Hq. apply fget_fset_other. intros ->. contradiction. Qed.

Lemma agree_but_fdel ps s p : In p ps -> agree_but ps s (fdel s p).
Proof. intros Hin q Hq. apply fget_fdel_other. intros ->. contradiction. Qed.

Lemma pwrite_end d ch : pwrite d (N.of_nat (length d)) ch = d ++ ch.
Proof.
  unfold pwrite. rewrite Nat2N.id, firstn_all, Nat.sub_diag. cbn [repeat app].
  rewrite skipn_all2 by lia. rewrite app_nil_r. reflexivity.
Qed.

Section DiskProofs.
  Variable enc_env : envelope -> bytes.
  Variable dec_env : bytes -> option envelope.
  Variable enc_meta : meta -> bytes.
  Variable dec_meta : bytes -> option meta.
  Variable chunk : wcfg.
  Hypothesis dec_enc_env : forall e, dec_env (enc_env e) = Some e.
  Hypothesis dec_enc_meta : forall m, dec_meta (enc_meta m) = Some m.
  Hypothesis enc_env_nonempty : forall e, enc_env e <> [].
  Hypothesis enc_meta_nonempty : forall m, enc_meta m <> [].
  Hypothesis chunk_pos : wcfg_ok chunk.

  Notation dprog_of := (disk_prog enc_env dec_env enc_meta dec_meta chunk).
  Notation write_loop := (write_loop chunk).
  Notation dump := (dump chunk).

  Section Hoare.
    Variable I : list (op * res) -> op -> fs -> Prop.
    Variable B : list (op * res) -> fs -> Prop.
    Notation okrun := (okrun fs dcmd dans dexec I B).

    (* AioFile.dump: while the temp file is being written nothing but the temp
       file changes; the rename installs the complete data atomically *)
    Lemma okrun_write_loop d o p t k data s :
      p <> PTmp t ->
      (forall s', agree_but [PTmp t] s s' -> I d o s') ->
      (forall s2, agree_but [PTmp t; p] s s2 -> fget s2 p = Some data -> fget s2 (PTmp t) = None ->
                  I d o s2 /\ okrun d o s2 k) ->
      forall fuel rest sofar off s1,
        agree_but [PTmp t] s s1 -> fget s1 (PTmp t) = Some sofar -> off = N.of_nat (length sofar) ->
        sofar ++ rest = data -> rest <> [] -> (length rest <= fuel)%nat ->
        okrun d o s1 (write_loop fuel t off rest p k).
    Proof.
      intros Hp HI HK. induction fuel as [|f IH]; intros rest sofar off s1 Hag Hget Hoff Hdata Hne Hlen.
      { destruct rest; [congruence|cbn [length] in Hlen; lia]. }
      destruct rest as [|x r]; [congruence|]. destruct chunk_pos as [Hc Hnf].
      destruct (w_chunk chunk) as [|c] eqn:Ec; [congruence|].
      cbn [Disk.write_loop]. rewrite Ec, firstn_cons. unfold written.
      destruct (w_fault chunk t off (length (x :: firstn c r))) as [w0|] eqn:Ew; [|exfalso; eapply Hnf; exact Ew].
      set (n := length (x :: firstn c r)) in *.
      set (w := if (Nat.ltb 0 w0 && Nat.ltb w0 n)%bool then w0 else n).
      assert (Hn : (1 <= n <= length (x :: r))%nat).
      { unfold n. cbn [length]. rewrite firstn_length. lia. }
      assert (Hw : (1 <= w <= n)%nat).
      { unfold w. destruct (Nat.ltb 0 w0 && Nat.ltb w0 n)%bool eqn:E; [|lia].
        apply andb_prop in E as [E1 E2]. apply Nat.ltb_lt in E1. apply Nat.ltb_lt in E2. lia. }
      destruct w as [|w']; [lia|]. rewrite firstn_cons.
      apply ok_do; [apply HI; exact Hag|].
      intros s' a E. cbn [dexec] in E. rewrite Hget in E. inversion E; subst s' a; clear E.
      subst off. rewrite pwrite_end.
      set (piece := x :: firstn w' r) in *.
      set (s2 := aset path_eqb s1 (PTmp t) (sofar ++ piece)).
      assert (Hag2 : agree_but [PTmp t] s s2).
      { eapply agree_but_trans; [exact Hag|]. apply (agree_but_fset [PTmp t] s1). left; reflexivity. }
      assert (Hget2 : fget s2 (PTmp t) = Some (sofar ++ piece)) by apply fget_fset_same.
      assert (Hsplit : piece ++ skipn (S w') (x :: r) = x :: r).
      { unfold piece. rewrite <- firstn_cons. apply firstn_skipn. }
      assert (Hpl : length piece = S w').
      { unfold piece. rewrite <- firstn_cons, firstn_length. lia. }
      destruct (skipn (S w') (x :: r)) as [|y r'] eqn:Er.
      - apply ok_do; [apply HI; exact Hag2|].
        intros s' a E. cbn [dexec] in E. rewrite Hget2 in E. inversion E; subst s' a; clear E.
        rewrite app_nil_r in Hsplit.
        match goal with |- okrun _ _ ?st _ => assert (HK' : I d o st /\ okrun d o st k) end.
        2:{ destruct HK' as [HI' HK']. apply ok_do; [exact HI'|].
            intros s' a E. cbn [dexec] in E. inversion E; subst s' a. exact HK'. }
        apply HK.
        + intros q Hq. change (fget (fset (fdel s2 (PTmp t)) p (sofar ++ piece)) q = fget s q).
          rewrite fget_fset_other by (intros ->; apply Hq; right; left; reflexivity).
          rewrite fget_fdel_other by (intros <-; apply Hq; left; reflexivity).
          apply Hag2. intros [<-|[]]. apply Hq. left; reflexivity.
        + change (fget (fset (fdel s2 (PTmp t)) p (sofar ++ piece)) p = Some data).
          rewrite fget_fset_same, Hsplit. congruence.
        + change (fget (fset (fdel s2 (PTmp t)) p (sofar ++ piece)) (PTmp t) = None).
          rewrite fget_fset_other by exact Hp. apply fget_fdel_same.
      - assert (Hl : (length (y :: r') <= f)%nat).
        { rewrite <- Er, skipn_length. cbn [length] in *. lia. }
        destruct f as [|f']; [cbn [length] in Hl; lia|].
        apply (IH (y :: r') (sofar ++ piece)); try assumption.
        + rewrite app_length, Hpl. lia.
        + rewrite <- app_assoc, Hsplit. exact Hdata.
        + discriminate.
    Qed.

    Lemma okrun_dump d o p t k data s :
      p <> PTmp t -> data <> [] -> fget s (PTmp t) = None ->
      (forall s', agree_but [PTmp t] s s' -> I d o s') ->
      (forall s2, agree_but [PTmp t; p] s s2 -> fget s2 p = Some data -> fget s2 (PTmp t) = None ->
                  I d o s2 /\ okrun d o s2 k) ->
      okrun d o s (dump data p t k).
    Proof.
      intros Hp Hne Hfree HI HK. unfold Disk.dump.
      apply ok_do; [apply HI, agree_but_refl|].
      intros s' a E. cbn [dexec] in E. rewrite amem_fget, Hfree in E. inversion E; subst s' a; clear E.
      apply (okrun_write_loop d o p t k data s Hp HI HK (length data) data [] 0).
      - apply (agree_but_fset [PTmp t] s). left; reflexivity.
      - apply fget_fset_same.
      - reflexivity.
      - reflexivity.
      - exact Hne.
      - lia.
    Qed.

    (* read-modify-write of the meta file *)
    Lemma okrun_update d o id tmps t f result s m :
      tmps = t :: tl tmps -> fget s (PMeta id) = Some (enc_meta m) -> fget s (PTmp t) = None ->
      (forall s', agree_but [PTmp t] s s' -> I d o s') ->
      (forall s2, agree_but [PTmp t; PMeta id] s s2 -> fget s2 (PMeta id) = Some (enc_meta (f m)) ->
                  fget s2 (PTmp t) = None -> I d o s2 /\ B (d ++ [(o, result (f m))]) s2) ->
      okrun d o s (update_meta enc_meta dec_meta chunk id tmps f result).
    Proof.
      intros Ht Hm Hfree HI HB. unfold update_meta, read_meta.
      apply ok_do; [apply HI, agree_but_refl|].
      intros s' a E. cbn [dexec] in E. inversion E; subst s' a; clear E.
      rewrite Hm, dec_enc_meta, Ht.
      apply okrun_dump; try assumption; [discriminate|apply enc_meta_nonempty|].
      intros s2 H1 H2 H3. destruct (HB s2 H1 H2 H3) as [Hi Hb]. split; [exact Hi|apply ok_ret; exact Hb].
    Qed.

    Lemma okrun_update_missing d o id tmps f result s :
      fget s (PMeta id) = None -> I d o s -> B (d ++ [(o, RMissing)]) s ->
      okrun d o s (update_meta enc_meta dec_meta chunk id tmps f result).
    Proof.
      intros Hm HI HB. unfold update_meta, read_meta. apply ok_do; [exact HI|].
      intros s' a E. cbn [dexec] in E. inversion E; subst s' a; clear E.
      rewrite Hm. apply ok_ret. exact HB.
    Qed.

    (* write(): the candidates in `pre` exist and are skipped; id is free *)
    Lemma okrun_write d o e ts pre id post t1 t2 tmps s :
      (forall c, In c pre -> fget s (PEnv c) <> None) -> fget s (PEnv id) = None ->
      fget s (PTmp t1) = None -> fget s (PTmp t2) = None ->
      (forall s', agree_but [PTmp t1] s s' -> I d o s') ->
      (forall s', agree_but [PTmp t1; PTmp t2; PEnv id] s s' -> fget s' (PEnv id) = Some (enc_env e) -> I d o s') ->
      (forall s2, agree_but [PTmp t1; PTmp t2; PEnv id; PMeta id] s s2 ->
                  fget s2 (PEnv id) = Some (enc_env e) ->
                  fget s2 (PMeta id) = Some (enc_meta (mkMeta ts 0 None)) ->
                  fget s2 (PTmp t1) = None -> fget s2 (PTmp t2) = None ->
                  I d o s2 /\ B (d ++ [(o, RId id)]) s2) ->
      okrun d o s (d_write enc_env enc_meta chunk e ts (pre ++ id :: post) (t1 :: t2 :: tmps)).
    Proof.
      intros Hpre Hid Hf1 Hf2 HI1 HI2 HB.
      induction pre as [|c pre IH]; cbn [app d_write].
      - apply ok_do; [apply HI1, agree_but_refl|].
        intros s' a E. cbn [dexec] in E. rewrite amem_fget, Hid in E. inversion E; subst s' a; clear E.
        apply okrun_dump; try assumption; [discriminate|apply enc_env_nonempty|].
        intros s1 A1 G1 F1.
        split.
        { apply HI2; [|exact G1]. intros q Hq. apply A1. intros [<-|[<-|[]]]; apply Hq; [left; reflexivity|right; right; left; reflexivity]. }
        assert (F2 : fget s1 (PTmp t2) = None).
        { destruct (N.eq_dec t1 t2) as [->|Hne]; [exact F1|].
          rewrite A1; [exact Hf2|]. intros [E|[E|[]]]; inversion E; congruence. }
        apply okrun_dump; try assumption; [discriminate|apply enc_meta_nonempty| |].
        + intros s' A'. apply HI2.
          * intros q Hq. rewrite A'; [apply A1|].
            -- intros [<-|[<-|[]]]; apply Hq; [left; reflexivity|right; right; left; reflexivity].
            -- intros [<-|[]]. apply Hq. right; left; reflexivity.
          * rewrite A'; [exact G1|]. intros [E|[]]; discriminate.
        + intros s2 A2 G2 F2'.
          match goal with |- _ /\ okrun _ _ _ (Ret ?r) => assert (HB' : I d o s2 /\ B (d ++ [(o, r)]) s2) end.
          2:{ destruct HB' as [Hi Hb]. split; [exact Hi|apply ok_ret; exact Hb]. }
          apply HB.
          * intros q Hq. rewrite A2; [apply A1|].
            -- intros [<-|[<-|[]]]; apply Hq; [left; reflexivity|right; right; left; reflexivity].
            -- intros [<-|[<-|[]]]; apply Hq; [right; left; reflexivity|right; right; right; left; reflexivity].
          * rewrite A2; [exact G1|]. intros [E|[E|[]]]; discriminate.
          * exact G2.
          * destruct (N.eq_dec t1 t2) as [->|Hne]; [exact F2'|].
            rewrite A2; [exact F1|]. intros [E|[E|[]]]; inversion E; congruence.
          * exact F2'.
      - apply ok_do; [apply HI1, agree_but_refl|].
        intros s' a E. cbn [dexec] in E. rewrite amem_fget in E.
        destruct (fget s (PEnv c)) eqn:Ec; [|exfalso; apply (Hpre c); [left; reflexivity|exact Ec]].
        inversion E; subst s' a; clear E. apply IH. intros c' Hc'. apply Hpre. right; exact Hc'.
    Qed.

    Lemma okrun_write_noid d o e ts cands tmps s :
      (forall c, In c cands -> fget s (PEnv c) <> None) -> I d o s -> B (d ++ [(o, RNoId)]) s ->
      okrun d o s (d_write enc_env enc_meta chunk e ts cands tmps).
    Proof.
      intros Hpre HI HB. induction cands as [|c cands IH]; cbn [d_write]; [apply ok_ret; exact HB|].
      apply ok_do; [exact HI|].
      intros s' a E. cbn [dexec] in E. rewrite amem_fget in E.
      destruct (fget s (PEnv c)) eqn:Ec; [|exfalso; apply (Hpre c); [left; reflexivity|exact Ec]].
      inversion E; subst s' a; clear E. apply IH. intros c' Hc'. apply Hpre. right; exact Hc'.
    Qed.

    Lemma okrun_remove d o id s :
      I d o s -> I d o (fdel s (PEnv id)) -> B (d ++ [(o, RUnit)]) (fdel (fdel s (PEnv id)) (PMeta id)) ->
      okrun d o s (dprog_of (ORemove id)).
    Proof.
      intros H1 H2 HB. cbn [disk_prog]. apply ok_do; [exact H1|].
      intros s' a E. cbn [dexec] in E. inversion E; subst s' a; clear E.
      apply ok_do; [exact H2|].
      intros s' a E. cbn [dexec] in E. inversion E; subst s' a; clear E.
      apply ok_ret. exact HB.
    Qed.

    (* programs that only read *)
    Inductive readonly : dprog -> Prop :=
    | ro_ret r : readonly (Ret r)
    | ro_exists p k : (forall a, readonly (k a)) -> readonly (Do (CExists p) k)
    | ro_read p k : (forall a, readonly (k a)) -> readonly (Do (CRead p) k)
    | ro_listdir k : (forall a, readonly (k a)) -> readonly (Do CListdir k).

    Lemma readonly_run p s : readonly p -> fst (run dexec p s) = s.
    Proof.
      induction 1 as [r|q k Hk IH|q k Hk IH|k Hk IH]; cbn [run dexec]; try reflexivity; apply IH.
    Qed.

    Lemma okrun_readonly d o p s :
      readonly p -> I d o s -> B (d ++ [(o, snd (run dexec p s))]) s -> okrun d o s p.
    Proof.
      intros Hro HI. induction Hro as [r|q k Hk IH|q k Hk IH|k Hk IH]; cbn [run dexec]; intros HB.
      - apply ok_ret. exact HB.
      - apply ok_do; [exact HI|]. intros s' a E. cbn [dexec] in E. inversion E; subst. apply IH. exact HB.
      - apply ok_do; [exact HI|]. intros s' a E. cbn [dexec] in E. inversion E; subst. apply IH. exact HB.
      - apply ok_do; [exact HI|]. intros s' a E. cbn [dexec] in E. inversion E; subst. apply IH. exact HB.
    Qed.

    Lemma readonly_get id : readonly (d_get dec_env dec_meta id).
    Proof.
      unfold d_get, read_meta. apply ro_read. intros a.
      destruct a as [| |b|[b|]|l]; try apply ro_ret.
      destruct (dec_meta b); [|apply ro_ret].
      apply ro_read. intros a. destruct a as [| |b'|[b'|]|l']; try apply ro_ret.
      destruct (dec_env b'); [|apply ro_ret]. destruct (accum_get _ _); apply ro_ret.
    Qed.

    Lemma readonly_load_loop ids acc : readonly (load_loop dec_meta ids acc).
    Proof.
      revert acc; induction ids as [|id ids IH]; intros acc; cbn [load_loop]; [apply ro_ret|].
      apply ro_read. intros a. destruct a as [| |b|[b|]|l]; try apply IH.
      destruct (dec_meta b); [apply IH|apply ro_ret].
    Qed.

    Lemma readonly_load now : readonly (dprog_of (OLoad now)).
    Proof.
      cbn [disk_prog]. apply ro_listdir. intros a. destruct a; try apply ro_ret. apply readonly_load_loop.
    Qed.

    (* sequential execution from the Hoare triple *)
    Lemma okrun_run d o s p : okrun d o s p -> B (d ++ [(o, snd (run dexec p s))]) (fst (run dexec p s)).
    Proof.
      induction 1 as [s r HB|s c k HI Hk IH]; cbn [run fst snd]; [exact HB|].
      destruct (dexec s c) as [s' a] eqn:E. apply IH. reflexivity.
    Qed.
  End Hoare.

  (* ---- what get() and load() return, from the files *)
  Definition load_entry (s : fs) (id : N) : list (N * N) :=
    match fget s (PMeta id) with
    | Some b => match dec_meta b with Some m => [(m_ts m, id)] | None => [] end
    | None => []
    end.
  Definition load_list (s : fs) (ids : list N) : list (N * N) := flat_map (load_entry s) ids.

  (* no meta file of the listed ids is unreadable *)
  Definition metas_ok (s : fs) : Prop :=
    forall id b, fget s (PMeta id) = Some b -> dec_meta b <> None.

  Lemma load_loop_run s ids acc :
    metas_ok s ->
    run dexec (load_loop dec_meta ids acc) s = (s, RLoad (rev acc ++ load_list s ids)).
  Proof.
    intros Hok. revert acc; induction ids as [|id ids IH]; intros acc; cbn [load_loop run load_list flat_map].
    - rewrite app_nil_r. reflexivity.
    - cbn [dexec]. unfold load_entry. destruct (fget s (PMeta id)) as [b|] eqn:E.
      + destruct (dec_meta b) as [m|] eqn:Ed; [|exfalso; apply (Hok id b E Ed)].
        rewrite IH. cbn [rev]. rewrite <- app_assoc. reflexivity.
      + rewrite IH. reflexivity.
  Qed.

  Lemma load_run s now :
    metas_ok s -> run dexec (dprog_of (OLoad now)) s = (s, RLoad (load_list s (env_ids s))).
  Proof. intros Hok. cbn [disk_prog run dexec]. rewrite load_loop_run by exact Hok. reflexivity. Qed.

  Lemma In_load_list s ids t id :
    In (t, id) (load_list s ids) <->
    In id ids /\ exists b m, fget s (PMeta id) = Some b /\ dec_meta b = Some m /\ m_ts m = t.
  Proof.
    unfold load_list. rewrite in_flat_map. split.
    - intros (j & Hj & Hin). unfold load_entry in Hin.
      destruct (fget s (PMeta j)) as [b|] eqn:E; [|destruct Hin].
      destruct (dec_meta b) as [m|] eqn:Ed; [|destruct Hin].
      destruct Hin as [Hin|[]]. inversion Hin; subst. split; [exact Hj|]. exists b, m. repeat split; assumption.
    - intros (Hin & b & m & E & Ed & Ht). exists id. split; [exact Hin|].
      unfold load_entry. rewrite E, Ed. left. rewrite Ht. reflexivity.
  Qed.

  Lemma NoDup_load_list s ids : NoDup ids -> NoDup (load_list s ids).
  Proof.
    induction 1 as [|id ids Hni Hnd IH]; cbn [load_list flat_map]; [constructor|].
    unfold load_entry at 1. destruct (fget s (PMeta id)) as [b|]; [|exact IH].
    destruct (dec_meta b) as [m|]; [|exact IH]. cbn [app]. constructor; [|exact IH].
    intros Hin. apply In_load_list in Hin. destruct Hin as [Hin _]. contradiction.
  Qed.

  Lemma get_run_nometa s id : fget s (PMeta id) = None -> run dexec (d_get dec_env dec_meta id) s = (s, RMissing).
  Proof. intros E. unfold d_get, read_meta. cbn [run dexec]. rewrite E. reflexivity. Qed.

  Lemma get_run_noenv s id m :
    fget s (PMeta id) = Some (enc_meta m) -> fget s (PEnv id) = None ->
    run dexec (d_get dec_env dec_meta id) s = (s, RMissing).
  Proof.
    intros E1 E2. unfold d_get, read_meta. cbn [run dexec]. rewrite E1, dec_enc_meta. cbn [run dexec].
    rewrite E2. reflexivity.
  Qed.

  Lemma get_run_live s id e m :
    fget s (PMeta id) = Some (enc_meta m) -> fget s (PEnv id) = Some (enc_env e) ->
    run dexec (d_get dec_env dec_meta id) s =
    (s, match accum_get (deliv_list m) (e_rcpts e) with
        | Some l => RGot (with_rcpts e l) (m_att m)
        | None => RIndexErr
        end).
  Proof.
    intros E1 E2. unfold d_get, read_meta. cbn [run dexec]. rewrite E1, dec_enc_meta. cbn [run dexec].
    rewrite E2, dec_enc_env. destruct (accum_get (deliv_list m) (e_rcpts e)); reflexivity.
  Qed.

  (* recover depends only on the two files of the id *)
  Lemma get_run_ext s s' id :
    fget s' (PMeta id) = fget s (PMeta id) -> fget s' (PEnv id) = fget s (PEnv id) ->
    snd (run dexec (d_get dec_env dec_meta id) s') = snd (run dexec (d_get dec_env dec_meta id) s).
  Proof.
    intros E1 E2. unfold d_get, read_meta. cbn [run dexec]. rewrite E1.
    destruct (fget s (PMeta id)) as [b|]; [|reflexivity].
    destruct (dec_meta b) as [m|]; [|reflexivity]. cbn [run dexec]. rewrite E2.
    destruct (fget s (PEnv id)) as [b'|]; [|reflexivity].
    destruct (dec_env b') as [e|]; [|reflexivity].
    destruct (accum_get (deliv_list m) (e_rcpts e)); reflexivity.
  Qed.

  Lemma disk_view_ext s s' id :
    fget s' (PMeta id) = fget s (PMeta id) -> fget s' (PEnv id) = fget s (PEnv id) ->
    disk_view dec_env dec_meta s' id = disk_view dec_env dec_meta s id.
  Proof. intros E1 E2. unfold disk_view. rewrite E1, E2. reflexivity. Qed.
End DiskProofs.
