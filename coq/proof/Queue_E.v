(* Never early: a delivery attempt caused by the timetable starts at a clock value
   at or after the due time of the entry that caused it; the retry path re-queues
   with exactly the time it computed from the backoff answer and wrote to storage. *)
From Coq Require Import List NArith ZArith Bool Lia ZifyBool ZifyN.
From SV Require Import model.Queue proof.Queue_base proof.Queue_W.
Import ListNotations.
Open Scope N_scope.

Definition Einv (s : state) : Prop :=
  (forall i due, In (TDequeue i (CTimer due)) (s_tasks s) -> due <= s_clock s) /\
  (forall a due, In a (g_atts s) -> a_cause a = CTimer due -> due <= a_now a).

Lemma Einv_frame : forall s s', Einv s -> s_clock s <= s_clock s' ->
  (forall i due, In (TDequeue i (CTimer due)) (s_tasks s') -> In (TDequeue i (CTimer due)) (s_tasks s)) ->
  g_atts s' = g_atts s -> Einv s'.
Proof.
  intros s s' [H1 H2] Hc Ht Ha. split.
  - intros i due Hi. specialize (H1 i due (Ht i due Hi)). lia.
  - rewrite Ha. exact H2.
Qed.

Lemma dq_snoc_nondq : forall (rest : list task) x i c,
  (forall j c', x <> TDequeue j c') -> In (TDequeue i c) (rest ++ [x]) -> In (TDequeue i c) rest.
Proof.
  intros rest x i c Hx H. apply in_app_iff in H. destruct H as [H|[H|[]]]; [exact H|]. exfalso. apply (Hx i c). exact H.
Qed.

Lemma In_rest : forall (x : task) l1 t l2, In x (l1 ++ l2) -> In x (l1 ++ t :: l2).
Proof. intros x l1 t l2 H. apply in_app_iff in H. apply in_app_iff. destruct H; [left|right; right]; assumption. Qed.

Lemma Einv_dispatch_timer : forall s i due, Einv s -> due <= s_clock s -> Einv (dispatch s i (CTimer due)).
Proof.
  intros s i due [H1 H2] Hd. unfold dispatch. destruct (mem i (s_active s)); [split; assumption|]. split; proj.
  - intros j d Hj. apply in_app_iff in Hj. destruct Hj as [Hj|[Hj|[]]]; [apply (H1 j d Hj)|]. inversion Hj; subst. exact Hd.
  - exact H2.
Qed.

Lemma Einv_dispatch_flush : forall s i, Einv s -> Einv (dispatch s i CFlush).
Proof.
  intros s i [H1 H2]. unfold dispatch. destruct (mem i (s_active s)); [split; assumption|]. split; proj.
  - intros j d Hj. apply in_app_iff in Hj. destruct Hj as [Hj|[Hj|[]]]; [apply (H1 j d Hj)|]. discriminate Hj.
  - exact H2.
Qed.

Lemma fold_dispatch_timer_E : forall d s, Einv s -> (forall e, In e d -> fst e <= s_clock s) ->
  Einv (fold_left (fun s e => dispatch s (snd e) (CTimer (fst e))) d s) /\
  s_clock (fold_left (fun s e => dispatch s (snd e) (CTimer (fst e))) d s) = s_clock s.
Proof.
  induction d as [|e d IH]; intros s H Hd; cbn; [split; [exact H|reflexivity]|].
  destruct (IH (dispatch s (snd e) (CTimer (fst e)))) as [A B].
  - apply Einv_dispatch_timer; [exact H|apply Hd; left; reflexivity].
  - intros x Hx. rewrite dispatch_clock. apply Hd. right. exact Hx.
  - split; [exact A|]. exact (eq_trans B (dispatch_clock _ _ _)).
Qed.

Lemma fold_dispatch_flush_E : forall d s, Einv s ->
  Einv (fold_left (fun s (e : time * id) => dispatch s (snd e) CFlush) d s).
Proof. induction d as [|e d IH]; intros s H; cbn; [exact H|]. apply IH. apply Einv_dispatch_flush. exact H. Qed.

Ltac nondq := let j := fresh in let c := fresh in intros j c; discriminate.

Lemma step_E : forall s e, Winv s -> Einv s -> Einv (step s e).
Proof.
  intros s e HW H. destruct e; unfold step.
  - (* EWrite *)
    apply (Einv_frame s); proj; [exact H|lia| |reflexivity].
    intros i due Hi. apply (dq_snoc_nondq _ (TEnq (s_next s) sender rcpts)); [nondq|exact Hi].
  - (* EEnqDone *)
    destruct (take_task (is_enq i) (s_tasks s)) as [[t rest]|] eqn:T; [|exact H]. destruct t; try exact H.
    apply take_task_spec in T. destruct T as [_ [l1 [l2 [E1 E2]]]]. subst rest.
    proj. destruct (mem i (s_active s)).
    + apply (Einv_frame s); proj; [exact H|lia| |reflexivity]. intros j due Hj. rewrite E1. apply In_rest. exact Hj.
    + destruct H as [H1 H2]. split; proj.
      * intros j due Hj. apply (H1 j due). rewrite E1. apply In_rest. apply (dq_snoc_nondq _ (TAttempt i snd rcpts 0)); [nondq|exact Hj].
      * intros a due [Ha|Ha] Hc; [subst a; discriminate Hc|apply (H2 a due Ha Hc)].
  - (* ERelay *)
    destruct (take_task (is_attempt i) (s_tasks s)) as [[t rest]|] eqn:T; [|exact H]. destruct t; try exact H.
    apply take_task_spec in T. destruct T as [_ [l1 [l2 [E1 E2]]]]. subst rest.
    destruct o.
    + apply (Einv_frame s); proj; [exact H|lia| |reflexivity]. intros j due Hj. rewrite E1. apply In_rest. apply (dq_snoc_nondq _ (TRemove i)); [nondq|exact Hj].
    + apply (Einv_frame s); proj; [exact H|lia| |reflexivity]. intros j due Hj. rewrite E1. apply In_rest. apply (dq_snoc_nondq _ (TRetry1 i snd rcpts None)); [nondq|exact Hj].
    + apply (Einv_frame s); proj; [exact H|lia| |reflexivity]. intros j due Hj. rewrite E1. apply In_rest. apply (dq_snoc_nondq _ (TRemove i)); [nondq|exact Hj].
    + apply (Einv_frame s); proj; [exact H|lia| |reflexivity]. intros j due Hj. rewrite E1. apply In_rest. apply (dq_snoc_nondq _ (TRetry1 i snd rcpts None)); [nondq|exact Hj].
    + destruct (pick is_temp rcpts res) as [|r0 temps].
      * apply (Einv_frame s); proj; [exact H|lia| |reflexivity]. intros j due Hj. rewrite E1. apply In_rest. apply (dq_snoc_nondq _ (TPartialRemove i)); [nondq|exact Hj].
      * apply (Einv_frame s); proj; [exact H|lia| |reflexivity]. intros j due Hj. rewrite E1. apply In_rest.
        apply (dq_snoc_nondq _ (TRetry1 i snd (r0 :: temps) (Some (rcpts, res)))); [nondq|exact Hj].
  - (* EStep *)
    destruct (take_task (is_retry i) (s_tasks s)) as [[t rest]|] eqn:T; [|exact H].
    apply take_task_spec in T. destruct T as [Hp [l1 [l2 [E1 E2]]]]. subst rest.
    destruct (st_get (s_store s) i).
    2:{ apply (Einv_frame s); proj; [exact H|lia| |reflexivity]. intros j due Hj. rewrite E1. apply In_rest. exact Hj. }
    destruct t; cbn in Hp; try discriminate.
    + destruct b as [w|].
      * apply (Einv_frame s); proj; [exact H|lia| |reflexivity]. intros j due Hj. rewrite E1. apply In_rest.
        apply (dq_snoc_nondq _ (TRetry2 i rcpts dl (s_clock s + w))); [nondq|exact Hj].
      * apply (Einv_frame s); proj; [exact H|lia| |reflexivity]. intros j due Hj. rewrite E1. apply In_rest.
        apply (dq_snoc_nondq _ (TRemove i)); [nondq|exact Hj].
    + destruct dl as [[all res]|].
      * apply (Einv_frame s); proj; [exact H|lia| |reflexivity]. intros j due Hj. rewrite E1. apply In_rest.
        apply (dq_snoc_nondq _ (TRetry3 i all res when)); [nondq|exact Hj].
      * apply (Einv_frame s); rewrite ?aq_clock, ?aq_tasks, ?aq_atts; proj; [exact H|lia| |reflexivity].
        intros j due Hj. rewrite E1. apply In_rest. exact Hj.
    + apply (Einv_frame s); rewrite ?aq_clock, ?aq_tasks, ?aq_atts; proj; [exact H|lia| |reflexivity].
      intros j due Hj. rewrite E1. apply In_rest. exact Hj.
  - (* EGet *)
    destruct (take_task (is_dequeue i) (s_tasks s)) as [[t rest]|] eqn:T; [|exact H]. destruct t; try exact H.
    apply take_task_spec in T. destruct T as [Hp [l1 [l2 [E1 E2]]]]. subst rest.
    destruct (st_get (s_store s) i) as [m|].
    + destruct H as [H1 H2]. split; proj.
      * intros j due Hj. apply (H1 j due). rewrite E1. apply In_rest.
        apply (dq_snoc_nondq _ (TAttempt i (m_sender m) (m_rcpts m) (m_attempts m))); [nondq|exact Hj].
      * intros a due [Ha|Ha] Hc; [|apply (H2 a due Ha Hc)]. subst a. cbn in Hc. subst c. cbn.
        apply (H1 i0 due). rewrite E1. apply in_app_iff. right. left. reflexivity.
    + apply (Einv_frame s); proj; [exact H|lia| |reflexivity]. intros j due Hj. rewrite E1. apply In_rest. exact Hj.
  - (* ERemove *)
    destruct (take_task (is_rm i) (s_tasks s)) as [[t rest]|] eqn:T; [|exact H].
    apply take_task_spec in T. destruct T as [Hp [l1 [l2 [E1 E2]]]]. subst rest.
    apply (Einv_frame s); proj; [exact H|lia| |reflexivity]. intros j due Hj. rewrite E1. apply In_rest. exact Hj.
  - (* ETick *)
    destruct (s_sched s); try exact H.
    assert (Hc : Einv (check_ready s) /\ s_clock (check_ready s) = s_clock s).
    { unfold check_ready. destruct (due_prefix (s_clock s) (s_queued s)) as [d r] eqn:Ed.
      destruct HW as [Hs _]. destruct (due_prefix_spec _ _ _ _ Hs Ed) as [_ [_ [C _]]].
      destruct d as [|e d]; [split; [exact H|reflexivity]|].
      destruct (fold_dispatch_timer_E (e :: d) s H C) as [A B]. split; [|proj; exact B].
      destruct A as [A1 A2]. split; proj; [exact A1|exact A2]. }
    destruct Hc as [Hc1 Hc2]. apply (Einv_frame (check_ready s)); [exact Hc1|rewrite wr_clock; lia|rewrite wr_tasks; auto|].
    destruct (wr_ghost (check_ready s)) as [_ [_ [_ [G _]]]]. exact G.
  - (* EWakeup *)
    destruct (s_sched s) as [|[t|]|]; try exact H. destruct (t <=? s_clock s); exact H.
  - (* EAdvance *) apply (Einv_frame s); proj; [exact H|lia|auto|reflexivity].
  - (* EAnnounce *) apply (Einv_frame s); rewrite ?aq_clock, ?aq_tasks, ?aq_atts; [exact H|lia|auto|reflexivity].
  - (* EFlush *)
    set (s0 := set_sched s (notified (s_sched s)) false).
    assert (H0 : Einv s0) by exact H.
    pose proof (fold_dispatch_flush_E (s_queued s0) s0 H0) as [A1 A2]. split; proj; [|exact A2].
    intros j due Hj. specialize (A1 j due Hj).
    assert (Ec : forall d s1, s_clock (fold_left (fun s (e : time * id) => dispatch s (snd e) CFlush) d s1) = s_clock s1).
    { induction d as [|e d IH]; intro s1; cbn; [reflexivity|]. rewrite IH. apply dispatch_clock. }
    rewrite Ec. rewrite Ec in A1. exact A1.
Qed.

Lemma init_E : Einv init.
Proof. split; cbn; [intros i due []|intros a due []]. Qed.

Lemma run_WE : forall es s, Winv s -> Einv s -> Winv (run es s) /\ Einv (run es s).
Proof.
  induction es as [|e es IH]; intros s HW HE; cbn; [split; assumption|].
  apply IH; [apply step_W; exact HW|apply step_E; assumption].
Qed.

Lemma never_early : forall es a due,
  In a (g_atts (run es init)) -> a_cause a = CTimer due -> due <= a_now a.
Proof. intros es a due Ha Hc. destruct (run_WE es init init_W init_E) as [_ [_ H2]]. apply (H2 a due Ha Hc). Qed.

(* the retry path: the time it re-queues with is the clock value when backoff answered
   plus the answer, and the same value was written to storage by set_timestamp *)
Lemma retry_time_from_backoff : forall s i snd rcpts dl w l1 l2,
  s_tasks s = l1 ++ TRetry1 i snd rcpts dl :: l2 -> (forall t, In t l1 -> is_retry i t = false) ->
  st_get (s_store s) i <> None ->
  In (TRetry2 i rcpts dl (s_clock s + w)) (s_tasks (step s (EStep i (Some w)))).
Proof.
  intros s i snd rcpts dl w l1 l2 E Hl1 Hst. unfold step.
  assert (T : take_task (is_retry i) (s_tasks s) = Some (TRetry1 i snd rcpts dl, l1 ++ l2)).
  { rewrite E. clear E. induction l1 as [|x l1 IH]; cbn.
    - rewrite N.eqb_refl. reflexivity.
    - rewrite (Hl1 x (or_introl eq_refl)). rewrite IH; [reflexivity|]. intros t Ht. apply Hl1. right. exact Ht. }
  rewrite T. destruct (st_get (s_store s) i); [|contradiction]. proj. apply in_app_iff. right. left. reflexivity.
Qed.
