(* Proofs about the slot discipline of the Queue's bounded pools (model/QueuePools.v). *)
From Coq Require Import List Arith Bool Lia.
From SV Require Import model.QueuePools.
Import ListNotations.

Lemma ptask_eqb_eq : forall a b, ptask_eqb a b = true -> a = b.
Proof.
  intros a b H; destruct a, b; cbn in H; try discriminate; try reflexivity;
    apply Nat.eqb_eq in H; subst; reflexivity.
Qed.
Lemma ptask_eqb_refl : forall a, ptask_eqb a a = true.
Proof. destruct a; cbn; auto using Nat.eqb_refl. Qed.

Lemma has_In : forall t l, has t l = true <-> In t l.
Proof.
  intros t l; induction l as [|x l IH]; cbn; [split; [discriminate|tauto]|].
  rewrite orb_true_iff, IH. split; intros [H|H]; auto.
  - left. symmetry. apply ptask_eqb_eq. exact H.
  - subst. left. apply ptask_eqb_refl.
Qed.

(* ---------- a stuck state stays stuck: no event is enabled ---------- *)
Lemma enabled_moves : forall s e, enabled s e = true -> existsb (can_move s) (ptasks s) = true.
Proof.
  intros s e H. apply existsb_exists.
  destruct e as [i|i|i|i|i|i]; cbn [enabled] in H; try (apply andb_true_iff in H; destruct H as [H A]).
  - exists (PDeqWantS i). split; [apply has_In; exact H|]. unfold can_move; cbn. rewrite H, A. reflexivity.
  - exists (PDeqGet i). split; [apply has_In; exact H|]. unfold can_move; cbn. exact H.
  - exists (PDeqWantR i). split; [apply has_In; exact H|]. unfold can_move; cbn. rewrite H, A. reflexivity.
  - exists (PAttRun i). split; [apply has_In; exact H|]. unfold can_move; cbn. exact H.
  - exists (PAttWantS i). split; [apply has_In; exact H|]. unfold can_move; cbn. rewrite H, A. reflexivity.
  - exists (PSto i). split; [apply has_In; exact H|]. unfold can_move; cbn. exact H.
Qed.

Lemma stuck_step : forall s e, stuck s = true -> pstep s e = s.
Proof.
  intros s e H. unfold stuck in H. apply andb_true_iff in H. destruct H as [_ H].
  apply negb_true_iff in H. unfold pstep.
  destruct (enabled s e) eqn:E; [|reflexivity].
  apply enabled_moves in E. congruence.
Qed.

Lemma stuck_forever : forall es s, stuck s = true -> prun es s = s.
Proof.
  induction es as [|e es IH]; intros s H; cbn; [reflexivity|].
  rewrite stuck_step by exact H. apply IH. exact H.
Qed.

(* ---------- D10: the bounded configuration deadlocks ---------- *)
Lemma d10_deadlock :
  let s := prun d10_sched d10_start in
  stuck s = true /\ ptasks s = [PWaitStore; PAttWantS 0; PDeqWantR 1] /\
  free_s s = Some 0 /\ free_r s = Some 0 /\ forall es, prun es s = s.
Proof.
  cbv zeta. split; [vm_compute; reflexivity|]. split; [vm_compute; reflexivity|].
  split; [vm_compute; reflexivity|]. split; [vm_compute; reflexivity|].
  intros es. apply stuck_forever. vm_compute. reflexivity.
Qed.

(* ---------- unbounded pools (the configuration model/Queue.v covers) are never stuck ---------- *)
Lemma work_can_move_unbounded : forall s t, free_s s = None -> free_r s = None ->
  In t (ptasks s) -> is_work t = true -> can_move s t = true.
Proof.
  intros s t Hs Hr Hin Hw. apply has_In in Hin.
  destruct t; cbn in Hw; try discriminate; unfold can_move; cbn; rewrite ?Hs, ?Hr, Hin; reflexivity.
Qed.

Lemma unbounded_never_stuck : forall s, free_s s = None -> free_r s = None -> stuck s = false.
Proof.
  intros s Hs Hr. unfold stuck. destruct (existsb is_work (ptasks s)) eqn:W; [|reflexivity].
  apply existsb_exists in W. destruct W as [t [Hin Hw]]. cbn.
  apply negb_false_iff. apply existsb_exists. exists t. split; [exact Hin|].
  apply work_can_move_unbounded; assumption.
Qed.

Lemma unbounded_stays : forall os s, free_s s = None -> free_r s = None ->
  free_s (pruns os s) = None /\ free_r (pruns os s) = None.
Proof.
  induction os as [|o os IH]; intros s Hs Hr; cbn; [auto|]. apply IH.
  - destruct o as [e|i|i]; cbn.
    + unfold pstep. destruct (enabled s e); cbn; [|exact Hs]. destruct e; cbn; rewrite ?Hs; reflexivity.
    + exact Hs.
    + unfold add_attempt. destruct (avail (free_r s)); cbn; exact Hs.
  - destruct o as [e|i|i]; cbn.
    + unfold pstep. destruct (enabled s e); cbn; [|exact Hr]. destruct e; cbn; rewrite ?Hr; reflexivity.
    + exact Hr.
    + unfold add_attempt. destruct (avail (free_r s)); cbn; rewrite ?Hr; reflexivity.
Qed.

(* ---------- slot accounting: free + holders = capacity ---------- *)
Definition is_wait (t : ptask) : bool := match t with PWaitStore => true | _ => false end.
Definition acc (f : option nat) (held cap : nat) : Prop := match f with None => True | Some n => n + held = cap end.
Record PInv (cs cr : nat) (s : pstate) : Prop := mkPInv {
  pi_s : acc (free_s s) (count holds_s (ptasks s)) cs;
  pi_r : acc (free_r s) (count holds_r (ptasks s)) cr;
  pi_w : count is_wait (ptasks s) <= 1 }.

Lemma count_app : forall f l1 l2, count f (l1 ++ l2) = count f l1 + count f l2.
Proof. intros; unfold count; rewrite filter_app, app_length; reflexivity. Qed.

Definition b2n (b : bool) : nat := if b then 1 else 0.
Lemma count_repl : forall f t t' l, has t l = true ->
  count f (repl t t' l) + b2n (f t) = count f l + b2n (f t').
Proof.
  intros f t t' l; induction l as [|x l IH]; cbn; [discriminate|]. intros H.
  destruct (ptask_eqb t x) eqn:E.
  - apply ptask_eqb_eq in E; subst x. unfold count; cbn. destruct (f t), (f t'); cbn; lia.
  - cbn in H. specialize (IH H). unfold count in *; cbn. destruct (f x); cbn; lia.
Qed.
Lemma count_rem1 : forall f t l, has t l = true -> count f (rem1 t l) + b2n (f t) = count f l.
Proof.
  intros f t l; induction l as [|x l IH]; cbn; [discriminate|]. intros H.
  destruct (ptask_eqb t x) eqn:E.
  - apply ptask_eqb_eq in E; subst x. unfold count; cbn. destruct (f t); cbn; lia.
  - cbn in H. specialize (IH H). unfold count in *; cbn. destruct (f x); cbn; lia.
Qed.

Lemma avail_pos : forall n, avail (Some n) = true -> 0 < n.
Proof. intros n H; destruct n; [discriminate|lia]. Qed.

Lemma pstep_inv : forall cs cr s e, PInv cs cr s -> PInv cs cr (pstep s e).
Proof.
  intros cs cr s e [Is Ir Iw]. unfold pstep. destruct (enabled s e) eqn:E; cbn [negb]; [|constructor; assumption].
  destruct e as [i|i|i|i|i|i]; cbn [enabled] in E; try (apply andb_true_iff in E; destruct E as [E A]);
    constructor; cbn [free_s free_r ptasks].
  (* EAcqS *)
  - pose proof (count_repl holds_s _ (PDeqGet i) _ E) as C. cbn in C.
    destruct (free_s s) as [n|]; cbn in *; [|exact I]. apply avail_pos in A. lia.
  - pose proof (count_repl holds_r _ (PDeqGet i) _ E) as C. cbn in C.
    destruct (free_r s) as [n|]; cbn in *; [lia|exact I].
  - pose proof (count_repl is_wait _ (PDeqGet i) _ E) as C. cbn in C. lia.
  (* EGot *)
  - pose proof (count_repl holds_s _ (PDeqWantR i) _ E) as C. cbn in C.
    destruct (free_s s) as [n|]; cbn in *; [lia|exact I].
  - pose proof (count_repl holds_r _ (PDeqWantR i) _ E) as C. cbn in C.
    destruct (free_r s) as [n|]; cbn in *; [lia|exact I].
  - pose proof (count_repl is_wait _ (PDeqWantR i) _ E) as C. cbn in C. lia.
  (* EAcqR *)
  - pose proof (count_repl holds_s _ (PAttRun i) _ E) as C. cbn in C.
    destruct (free_s s) as [n|]; cbn in *; [lia|exact I].
  - pose proof (count_repl holds_r _ (PAttRun i) _ E) as C. cbn in C.
    destruct (free_r s) as [n|]; cbn in *; [|exact I]. apply avail_pos in A. lia.
  - pose proof (count_repl is_wait _ (PAttRun i) _ E) as C. cbn in C. lia.
  (* EDone *)
  - pose proof (count_repl holds_s _ (PAttWantS i) _ E) as C. cbn in C.
    destruct (free_s s) as [n|]; cbn in *; [lia|exact I].
  - pose proof (count_repl holds_r _ (PAttWantS i) _ E) as C. cbn in C.
    destruct (free_r s) as [n|]; cbn in *; [lia|exact I].
  - pose proof (count_repl is_wait _ (PAttWantS i) _ E) as C. cbn in C. lia.
  (* EAcqS2 *)
  - pose proof (count_repl holds_s _ (PSto i) _ E) as C. cbn in C.
    destruct (free_s s) as [n|]; cbn in *; [|exact I]. apply avail_pos in A. lia.
  - pose proof (count_repl holds_r _ (PSto i) _ E) as C. cbn in C.
    destruct (free_r s) as [n|]; cbn in *; [lia|exact I].
  - pose proof (count_repl is_wait _ (PSto i) _ E) as C. cbn in C. lia.
  (* EFin *)
  - pose proof (count_rem1 holds_s _ _ E) as C. cbn in C.
    destruct (free_s s) as [n|]; cbn in *; [lia|exact I].
  - pose proof (count_rem1 holds_r _ _ E) as C. cbn in C.
    destruct (free_r s) as [n|]; cbn in *; [lia|exact I].
  - pose proof (count_rem1 is_wait _ _ E) as C. cbn in C. lia.
Qed.

Lemma count1 : forall f t, count f [t] = b2n (f t).
Proof. intros; unfold count; cbn; destruct (f t); reflexivity. Qed.

Lemma papply_inv : forall cs cr s o, PInv cs cr s -> PInv cs cr (papply s o).
Proof.
  intros cs cr s o I. destruct o as [e|i|i]; cbn [papply]; [apply pstep_inv; exact I| |].
  - destruct I as [Is Ir Iw]. constructor; cbn [add_dispatch free_s free_r ptasks]; rewrite count_app, count1; cbn [holds_s holds_r is_wait b2n].
    + destruct (free_s s); cbn in *; [lia|exact I].
    + destruct (free_r s); cbn in *; [lia|exact I].
    + lia.
  - unfold add_attempt. destruct (avail (free_r s)) eqn:A; [|exact I].
    destruct I as [Is Ir Iw]. constructor; cbn [free_s free_r ptasks]; rewrite count_app, count1; cbn [holds_s holds_r is_wait b2n].
    + destruct (free_s s); cbn in *; [lia|exact I].
    + destruct (free_r s) as [n|]; cbn in *; [|exact I]. apply avail_pos in A. lia.
    + lia.
Qed.

Lemma pruns_inv : forall cs cr os s, PInv cs cr s -> PInv cs cr (pruns os s).
Proof.
  intros cs cr os; induction os as [|o os IH]; intros s I; cbn; [exact I|].
  apply IH. apply papply_inv. exact I.
Qed.

Lemma pinit_inv : forall cs cr waits, (waits = true -> 1 <= cs) ->
  PInv cs cr (pinit (Some cs) (Some cr) waits) /\ PInv cs cr (pinit (Some cs) None waits).
Proof.
  intros cs cr waits H. destruct waits; cbn; split; constructor; cbn; try lia; try exact I;
    specialize (H eq_refl); lia.
Qed.

(* ---------- with an unbounded relay pool and at least two store slots nothing ever gets stuck ---------- *)
Lemma count_le_all : forall f g l, (forall t, In t l -> f t = true -> g t = true) -> count f l <= count g l.
Proof.
  intros f g l; induction l as [|x l IH]; intros H; unfold count in *; cbn; [lia|].
  assert (IH' : length (filter f l) <= length (filter g l)) by (apply IH; intros t Ht; apply H; right; exact Ht).
  destruct (f x) eqn:Fx; [rewrite (H x (or_introl eq_refl) Fx); cbn; lia|destruct (g x); cbn; lia].
Qed.

Lemma relay_unbounded_never_stuck : forall cs cr s, 2 <= cs -> PInv cs cr s -> free_r s = None -> stuck s = false.
Proof.
  intros cs cr s Hcs [Is Ir Iw] Hr. unfold stuck.
  destruct (existsb is_work (ptasks s)) eqn:W; [|reflexivity]. cbn.
  apply negb_false_iff. destruct (existsb (can_move s) (ptasks s)) eqn:M; [reflexivity|exfalso].
  (* nobody can move: every holder of a store slot is the wait task, and no slot is free *)
  assert (NM : forall t, In t (ptasks s) -> can_move s t = false).
  { intros t Ht. destruct (can_move s t) eqn:C; [|reflexivity].
    assert (existsb (can_move s) (ptasks s) = true) by (apply existsb_exists; exists t; auto). congruence. }
  assert (HW : count holds_s (ptasks s) <= count is_wait (ptasks s)).
  { apply count_le_all. intros t Ht Hh. specialize (NM t Ht). apply has_In in Ht.
    destruct t; cbn in Hh; try discriminate; try reflexivity; unfold can_move in NM; cbn in NM;
      rewrite ?Ht, ?Hr in NM; cbn in NM; discriminate. }
  apply existsb_exists in W. destruct W as [t [Ht Hw]]. specialize (NM t Ht). pose proof Ht as Hin. apply has_In in Ht.
  destruct (free_s s) as [n|] eqn:Fs.
  - cbn in Is. destruct n as [|n].
    + lia.
    + destruct t; cbn in Hw; try discriminate; unfold can_move in NM; cbn in NM; rewrite ?Ht, ?Hr, ?Fs in NM; cbn in NM; discriminate.
  - destruct t; cbn in Hw; try discriminate; unfold can_move in NM; cbn in NM; rewrite ?Ht, ?Hr, ?Fs in NM; cbn in NM; discriminate.
Qed.

(* what a stuck state looks like: no free slot of a pool somebody waits for *)
Lemma stuck_needs_full_pool : forall s, stuck s = true ->
  (exists i, In (PDeqWantR i) (ptasks s) /\ free_r s = Some 0) \/
  (exists i, (In (PDeqWantS i) (ptasks s) \/ In (PAttWantS i) (ptasks s)) /\ free_s s = Some 0).
Proof.
  intros s H. unfold stuck in H. apply andb_true_iff in H. destruct H as [W M].
  apply negb_true_iff in M. apply existsb_exists in W. destruct W as [t [Ht Hw]].
  assert (NM : can_move s t = false).
  { destruct (can_move s t) eqn:C; [|reflexivity].
    assert (existsb (can_move s) (ptasks s) = true) by (apply existsb_exists; exists t; auto). congruence. }
  pose proof Ht as Hin. apply has_In in Ht.
  destruct t; cbn in Hw; try discriminate; unfold can_move in NM; cbn in NM; rewrite ?Ht in NM; cbn in NM; try discriminate.
  - right. exists i. split; [left; exact Hin|]. destruct (free_s s) as [[|n]|]; cbn in NM; try discriminate; reflexivity.
  - left. exists i. split; [exact Hin|]. destruct (free_r s) as [[|n]|]; cbn in NM; try discriminate; reflexivity.
  - right. exists i. split; [right; exact Hin|]. destruct (free_s s) as [[|n]|]; cbn in NM; try discriminate; reflexivity.
Qed.

(* the premises of relay_unbounded_never_stuck and d10 are met by real configurations *)
Example ex_relay_unbounded : let s := pruns [OAttempt 0; ODispatch 1; OEv (EAcqS 1); OEv (EGot 1); OEv (EDone 0)] (pinit (Some 2) None true) in
  PInv 2 0 s /\ free_r s = None /\ stuck s = false /\ existsb is_work (ptasks s) = true.
Proof.
  cbv zeta. split; [apply pruns_inv; apply (pinit_inv 2 0 true); intros; lia|].
  split; [vm_compute; reflexivity|]. split; vm_compute; reflexivity.
Qed.
