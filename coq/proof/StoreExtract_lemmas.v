(* The logging scheduler of extract/E_Disk.v computes the same state and
   threads as StoreCore.sched (it only adds the log). *)
From Coq Require Import List NArith.
From SV Require Import lib.Val model.Store extract.E_Store extract.E_Disk.
Import ListNotations.

Lemma set_nth_same {A} (l : list A) : forall i x, nth_error l i = Some x -> set_nth i x l = l.
Proof.
  induction l as [|y l IH]; intros i x E; destruct i; cbn in *; try discriminate.
  - inversion E; reflexivity.
  - rewrite (IH i x E). reflexivity.
Qed.

Lemma sched_log_sched chunk sch : forall s ths,
  fst (sched_log chunk sch s ths) =
  sched dexec (disk_next nc_enc_env nc_dec_env nc_enc_meta nc_dec_meta chunk) sch s ths.
Proof.
  induction sch as [|i sch IH]; intros s ths; cbn [sched_log sched]; [reflexivity|].
  destruct (nth_error ths i) as [th|] eqn:E; [|apply IH].
  unfold astep. destruct (disk_next nc_enc_env nc_dec_env nc_enc_meta nc_dec_meta chunk th) as [[c k]|].
  - destruct (dexec s c) as [s' a]. specialize (IH s' (set_nth i (k a) ths)).
    destruct (sched_log chunk sch s' (set_nth i (k a) ths)) as [[s2 ths2] lg]. exact IH.
  - rewrite (set_nth_same ths i th E). apply IH.
Qed.
