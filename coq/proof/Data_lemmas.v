(* Proofs for property C05 (DATA framing): model/Data.v.
   Parts: A byte/line lemmas (split_lf, last2) . B sender = canonical dot
   stuffing . C reader: chunk merging, closed form of the state, incremental =
   batch . D the batch spec read_spec . E round trip. *)
From Coq Require Import List NArith Bool Arith Lia ZifyBool ZifyN.
From SV Require Import lib.Bytes model.Data.
Import ListNotations.
Open Scope N_scope.
Local Arguments firstn : simpl never.
Local Arguments skipn : simpl never.

(* ====================================================================== *)
(* A. bytes and lines                                                      *)
(* ====================================================================== *)

Definition nolf (s : bytes) : bool := forallb (fun b => negb (b =? 10)) s.

Lemma split_lf_cons b s : split_lf (b :: s) =
  if b =? 10 then ([] :: fst (split_lf s), snd (split_lf s))
  else match fst (split_lf s) with
       | [] => ([], b :: snd (split_lf s))
       | l :: ls' => ((b :: l) :: ls', snd (split_lf s))
       end.
Proof. cbn [split_lf]. destruct (split_lf s) as [ls t]. reflexivity. Qed.

Lemma split_lf_nil : split_lf [] = ([], []).
Proof. reflexivity. Qed.

Lemma nolf_cons b s : nolf (b :: s) = negb (b =? 10) && nolf s.
Proof. reflexivity. Qed.

Lemma nolf_app a b : nolf (a ++ b) = nolf a && nolf b.
Proof. unfold nolf. apply forallb_app. Qed.

Lemma split_lf_nolf s : nolf s = true -> split_lf s = ([], s).
Proof.
  induction s as [|b s IH]; intros H; [reflexivity|].
  rewrite nolf_cons in H. apply andb_true_iff in H. destruct H as [Hb Hs].
  rewrite split_lf_cons, (IH Hs). cbn [fst snd].
  destruct (b =? 10); [discriminate|reflexivity].
Qed.

(* the first line of a stream *)
Lemma split_lf_line l r : nolf l = true ->
  split_lf (l ++ 10 :: r) = (l :: fst (split_lf r), snd (split_lf r)).
Proof.
  induction l as [|b l IH]; intros H.
  - cbn [app]. rewrite split_lf_cons. reflexivity.
  - rewrite nolf_cons in H. apply andb_true_iff in H. destruct H as [Hb Hl].
    cbn [app]. rewrite split_lf_cons, (IH Hl). cbn [fst snd].
    destruct (b =? 10); [discriminate|reflexivity].
Qed.

Definition merge_split (p q : list bytes * bytes) : list bytes * bytes :=
  match fst q with
  | [] => (fst p, snd p ++ snd q)
  | l1 :: lb' => (fst p ++ (snd p ++ l1) :: lb', snd q)
  end.

(* lines of a concatenation: the unfinished tail of the first string is glued
   to the first line of the second *)
Lemma split_lf_app a b : split_lf (a ++ b) = merge_split (split_lf a) (split_lf b).
Proof.
  induction a as [|x a IH].
  - cbn [app]. rewrite split_lf_nil. unfold merge_split. cbn [fst snd app].
    destruct (split_lf b) as [lb tb]. cbn [fst snd]. destruct lb; reflexivity.
  - cbn [app]. rewrite !split_lf_cons, IH. unfold merge_split.
    destruct (split_lf a) as [la ta]. destruct (split_lf b) as [lb tb]. cbn [fst snd].
    destruct (x =? 10).
    + destruct lb; reflexivity.
    + destruct la as [|l la]; destruct lb as [|l1 lb]; reflexivity.
Qed.

Lemma unraw_cons l ls : unraw (l :: ls) = l ++ 10 :: unraw ls.
Proof. unfold unraw. cbn [map concat]. rewrite <- app_assoc. reflexivity. Qed.

Lemma unraw_app a b : unraw (a ++ b) = unraw a ++ unraw b.
Proof. unfold unraw. rewrite map_app, concat_app. reflexivity. Qed.

(* split_lf is a decomposition into LF-free pieces *)
Lemma split_lf_spec s :
  s = unraw (fst (split_lf s)) ++ snd (split_lf s)
  /\ forallb nolf (fst (split_lf s)) = true /\ nolf (snd (split_lf s)) = true.
Proof.
  induction s as [|b s (IHe & IHl & IHt)]; [repeat split; reflexivity|].
  rewrite split_lf_cons. destruct (b =? 10) eqn:Hb.
  - cbn [fst snd]. apply N.eqb_eq in Hb. subst b.
    rewrite unraw_cons. cbn [app forallb]. rewrite IHl, IHt. repeat split. f_equal. exact IHe.
  - destruct (fst (split_lf s)) as [|l ls] eqn:Hf; cbn [fst snd].
    + cbn [unraw map concat app] in *. rewrite nolf_cons, Hb, IHt. repeat split. f_equal. exact IHe.
    + rewrite unraw_cons in *. cbn [app forallb] in *. rewrite nolf_cons, Hb. cbn [negb andb].
      repeat split; [f_equal; exact IHe | exact IHl | exact IHt].
Qed.

Lemma split_lf_snoc_lf s :
  split_lf (s ++ [10]) = (fst (split_lf s) ++ [snd (split_lf s)], []).
Proof.
  rewrite split_lf_app. unfold merge_split.
  change (split_lf [10]) with ([@nil N], @nil N). cbn [fst snd]. rewrite app_nil_r. reflexivity.
Qed.

(* ---- last2 ---- *)
Lemma last2_cons3 a b c l : last2 (a :: b :: c :: l) = last2 (b :: c :: l).
Proof. reflexivity. Qed.

Lemma last2_length l : (length (last2 l) <= 2)%nat.
Proof.
  induction l as [|a l IH]; [cbn; lia|].
  destruct l as [|b l]; [cbn; lia|]. destruct l as [|c l]; [cbn; lia|].
  rewrite last2_cons3. exact IH.
Qed.

Lemma last2_short l : (length l <= 2)%nat -> last2 l = l.
Proof. destruct l as [|a [|b [|c l]]]; cbn [length]; intros; try reflexivity; lia. Qed.

Lemma last2_app_long a b : (2 <= length b)%nat -> last2 (a ++ b) = last2 b.
Proof.
  intros H. induction a as [|x a IH]; [reflexivity|].
  cbn [app]. destruct (a ++ b) as [|y [|z r]] eqn:E.
  - apply (f_equal (@length _)) in E. rewrite app_length in E. cbn in E. lia.
  - apply (f_equal (@length _)) in E. rewrite app_length in E. cbn in E. lia.
  - rewrite last2_cons3. exact IH.
Qed.

Lemma last2_idem l : last2 (last2 l) = last2 l.
Proof. apply last2_short, last2_length. Qed.

Lemma last2_app_last2 a b : last2 (last2 a ++ b) = last2 (a ++ b).
Proof.
  induction a as [|x a IH]; [reflexivity|].
  destruct a as [|y a]; [reflexivity|]. destruct a as [|z a]; [reflexivity|].
  rewrite last2_cons3, IH. cbn [app]. rewrite last2_cons3. reflexivity.
Qed.

Lemma last2_len2 l : (2 <= length l)%nat -> length (last2 l) = 2%nat.
Proof.
  induction l as [|a l IH]; cbn [length]; [lia|].
  destruct l as [|b l]; cbn [length]; [lia|]. destruct l as [|c l]; [reflexivity|].
  intros _. rewrite last2_cons3. apply IH. cbn [length]. lia.
Qed.

Lemma last2_suffix l : exists p, l = p ++ last2 l.
Proof.
  induction l as [|a l [p IH]]; [exists []; reflexivity|].
  destruct l as [|b l]; [exists []; reflexivity|]. destruct l as [|c l]; [exists []; reflexivity|].
  rewrite last2_cons3. exists (a :: p). cbn [app]. f_equal. exact IH.
Qed.

Lemma last2_nil l : last2 l = [] -> l = [].
Proof.
  intros H. destruct l as [|a l]; [reflexivity|].
  destruct (Nat.le_gt_cases 2 (length (a :: l))) as [L|L].
  - apply last2_len2 in L. rewrite H in L. discriminate.
  - rewrite last2_short in H by lia. exact H.
Qed.

Lemma beqb_eq a b : beqb a b = true -> a = b.
Proof.
  revert b. induction a as [|x a IH]; destruct b as [|y b]; cbn [beqb]; intros H; try discriminate; [reflexivity|].
  apply andb_true_iff in H. destruct H as [H1 H2]. apply N.eqb_eq in H1. subst y. f_equal. apply IH, H2.
Qed.

Lemma beqb_refl a : beqb a a = true.
Proof. induction a as [|x a IH]; [reflexivity|]. cbn [beqb]. rewrite N.eqb_refl, IH. reflexivity. Qed.

(* a prefix at least as long as a is an extension of a *)
Lemma prefix_long (u v a t : bytes) :
  u ++ v = a ++ t -> (length a <= length u)%nat -> exists t', u = a ++ t'.
Proof.
  intros E L. exists (skipn (length a) u).
  rewrite <- (firstn_skipn (length a) u) at 1. f_equal.
  assert (H : firstn (length a) (u ++ v) = firstn (length a) (a ++ t)) by (rewrite E; reflexivity).
  rewrite firstn_app in H. replace (length a - length u)%nat with O in H by lia.
  rewrite firstn_O, app_nil_r in H. rewrite H.
  rewrite firstn_app, Nat.sub_diag, firstn_O, app_nil_r. apply firstn_all.
Qed.

(* ====================================================================== *)
(* B. the sender is canonical dot stuffing                                 *)
(* ====================================================================== *)

(* canonical dot stuffing: a dot at the beginning of a line is doubled;
   `bol` says whether the string starts at a line boundary *)
Fixpoint stuff (bol : bool) (s : bytes) : bytes :=
  match s with
  | [] => []
  | a :: s' => (if bol && (a =? DOT) then [DOT] else []) ++ a :: stuff (a =? 10) s'
  end.

Fixpoint bol_after (b : bool) (x : bytes) : bool :=
  match x with [] => b | a :: x' => bol_after (a =? 10) x' end.

Lemma stuff_app b x y : stuff b (x ++ y) = stuff b x ++ stuff (bol_after b x) y.
Proof.
  revert b. induction x as [|a x IH]; intros b; [reflexivity|].
  cbn [app stuff bol_after]. rewrite IH, <- app_assoc. reflexivity.
Qed.

Lemma bol_after_app b x y : bol_after b (x ++ y) = bol_after (bol_after b x) y.
Proof. revert b. induction x as [|a x IH]; intros b; [reflexivity|]. cbn [app bol_after]. apply IH. Qed.

Lemma at_bol_flag x : at_bol x -> bol_after true x = true.
Proof.
  intros [E|[x' E]]; subst x; [reflexivity|]. rewrite bol_after_app. reflexivity.
Qed.

Definition starts_dot (s : bytes) : bool := match s with a :: _ => a =? DOT | [] => false end.

Lemma stuff_nodot b s : starts_dot s = false -> stuff b s = stuff false s.
Proof.
  destruct s as [|a s]; [reflexivity|]. cbn [starts_dot stuff]. intros H. rewrite H, andb_false_r. reflexivity.
Qed.

Lemma stuff_true s : stuff true s = (if starts_dot s then [DOT] else []) ++ stuff false s.
Proof. destruct s as [|a s]; [reflexivity|]. cbn [starts_dot stuff andb app]. destruct (a =? DOT); reflexivity. Qed.

Lemma stuff_false_nolf l : nolf l = true -> stuff false l = l.
Proof.
  induction l as [|a l IH]; intros H; [reflexivity|].
  rewrite nolf_cons in H. apply andb_true_iff in H. destruct H as [Ha Hl].
  cbn [stuff andb app]. destruct (a =? 10); [discriminate|]. rewrite (IH Hl). reflexivity.
Qed.

(* ---- _process_part ---- *)
Lemma find_nldot_stuff s :
  match find_nldot s with
  | None => stuff false s = s
  | Some k => (k + 2 <= length s)%nat /\
              stuff false s = firstn (k + 2) s ++ [DOT] ++ stuff false (skipn (k + 2) s)
  end.
Proof.
  induction s as [|a s IH]; [reflexivity|].
  cbn [find_nldot]. destruct s as [|b s]; [reflexivity|].
  destruct ((a =? 10) && (b =? DOT)) eqn:Hab.
  - apply andb_true_iff in Hab. destruct Hab as [Ha Hb].
    apply N.eqb_eq in Ha, Hb. subst a b. split; [cbn [length]; lia|]. reflexivity.
  - assert (E : stuff false (a :: b :: s) = a :: stuff false (b :: s)).
    { cbn [stuff andb app]. f_equal. destruct (a =? 10); cbn [andb] in *; [rewrite Hab|]; reflexivity. }
    rewrite E. destruct (find_nldot (b :: s)) as [k|].
    + destruct IH as [L IH]. split; [cbn [length] in *; lia|].
      change (S k + 2)%nat with (S (k + 2)). rewrite firstn_cons, skipn_cons. cbn [app]. f_equal. exact IH.
    + f_equal. exact IH.
Qed.

Lemma process_loop_stuff fuel : forall s, (length s <= fuel)%nat -> concat (process_loop fuel s) = stuff false s.
Proof.
  induction fuel as [|f IH]; intros s L.
  - destruct s; [reflexivity|cbn in L; lia].
  - cbn [process_loop]. destruct s as [|a s]; [reflexivity|].
    pose proof (find_nldot_stuff (a :: s)) as F. destruct (find_nldot (a :: s)) as [k|].
    + destruct F as [Lk F]. cbn [concat]. rewrite IH, F; [reflexivity|].
      rewrite skipn_length. lia.
    + cbn [concat]. rewrite app_nil_r. symmetry. exact F.
Qed.

Lemma process_part_stuff p : concat (process_part p) = stuff true p.
Proof.
  unfold process_part. rewrite concat_app, process_loop_stuff by lia. rewrite stuff_true.
  destruct p as [|b p]; [reflexivity|]. cbn [starts_dot]. destruct (b =? DOT); reflexivity.
Qed.

Lemma concat_flat_map {A} (f : A -> list bytes) l :
  concat (flat_map f l) = concat (map (fun p => concat (f p)) l).
Proof. induction l as [|x l IH]; [reflexivity|]. cbn [flat_map map concat]. rewrite concat_app, IH. reflexivity. Qed.

Lemma dot_parts_at_bol_prefix ps p : dot_parts_at_bol (ps ++ [p]) -> dot_parts_at_bol ps.
Proof.
  intros H pre q post E. apply (H pre q (post ++ [p])). rewrite E, <- app_assoc. reflexivity.
Qed.

Lemma stuff_parts parts : dot_parts_at_bol parts ->
  concat (map (stuff true) parts) = stuff true (concat parts).
Proof.
  induction parts as [|p ps IH] using rev_ind; intros H; [reflexivity|].
  rewrite map_app, !concat_app, (IH (dot_parts_at_bol_prefix _ _ H)). cbn [map concat].
  rewrite !app_nil_r, stuff_app. f_equal.
  destruct (starts_dot p) eqn:D.
  - destruct p as [|a p]; [discriminate|]. cbn [starts_dot] in D. apply N.eqb_eq in D. subst a.
    rewrite (at_bol_flag _ (H ps p [] eq_refl)). reflexivity.
  - rewrite (stuff_nodot true _ D), (stuff_nodot (bol_after true (concat ps)) _ D). reflexivity.
Qed.

Lemma calc_last_two_loop_spec rparts : forall ret, (length ret < 2)%nat ->
  calc_last_two_loop rparts ret = last2 (concat (rev rparts) ++ ret).
Proof.
  induction rparts as [|p r IH]; intros ret L.
  - cbn [calc_last_two_loop rev concat app]. symmetry. apply last2_short. lia.
  - cbn [calc_last_two_loop rev]. rewrite concat_app. cbn [concat]. rewrite app_nil_r, <- app_assoc.
    destruct (2 <=? length (last2 p ++ ret))%nat eqn:C.
    + apply Nat.leb_le in C. rewrite last2_app_last2. symmetry. apply last2_app_long.
      rewrite app_length in *. pose proof (last2_length p).
      destruct (Nat.le_gt_cases 2 (length p)) as [G|G]; [lia|]. rewrite (last2_short p) in C by lia. exact C.
    + apply Nat.leb_gt in C. rewrite IH by exact C.
      rewrite app_length in C. destruct (Nat.le_gt_cases 2 (length p)) as [G|G].
      * rewrite (last2_len2 _ G) in C. lia.
      * rewrite (last2_short p) by lia. reflexivity.
Qed.

Lemma calc_last_two_spec parts : calc_last_two parts = last2 (concat parts).
Proof.
  unfold calc_last_two. rewrite calc_last_two_loop_spec by (cbn; lia).
  rewrite rev_involutive, app_nil_r. reflexivity.
Qed.

Definition end_marker_of (m : bytes) : bytes :=
  match last2 m with
  | [] => [DOT; 13; 10]
  | _ => if beqb (last2 m) CRLF then [DOT; 13; 10] else [13; 10; DOT; 13; 10]
  end.

(* the wire bytes: stuffed message, then the end marker chosen from its last two bytes *)
Lemma send_spec parts : dot_parts_at_bol parts ->
  send parts = stuff true (concat parts) ++ end_marker_of (concat parts).
Proof.
  intros H. unfold send, sender_pieces. rewrite concat_app, concat_flat_map.
  rewrite (map_ext _ (stuff true) process_part_stuff), (stuff_parts _ H).
  cbn [concat]. rewrite app_nil_r. unfold calc_end_marker, end_marker_of.
  rewrite calc_last_two_spec. reflexivity.
Qed.

(* ====================================================================== *)
(* C. the reader                                                           *)
(* ====================================================================== *)

(* between two effects of the reader len(self.lines) is i or i+1 *)
Definition shape (st : dr) : Prop := (idx st <= length (lines st) <= S (idx st))%nat.
Definition closed (st : dr) : Prop := length (lines st) = idx st.
Definition opened (st : dr) : Prop := length (lines st) = S (idx st).

Lemma add_at_length k x ls : length (add_at k x ls) = length ls.
Proof. revert k. induction ls as [|l ls IH]; intros k; [reflexivity|]. destruct k; cbn [add_at length]; [reflexivity|]. rewrite IH. reflexivity. Qed.

Lemma set_at_length k x ls : length (set_at k x ls) = length ls.
Proof. revert k. induction ls as [|l ls IH]; intros k; [reflexivity|]. destruct k; cbn [set_at length]; [reflexivity|]. rewrite IH. reflexivity. Qed.

Lemma add_at_twice k x y ls : add_at k y (add_at k x ls) = add_at k (x ++ y) ls.
Proof.
  revert k. induction ls as [|l ls IH]; intros k; [reflexivity|].
  destruct k; cbn [add_at]; [rewrite app_assoc; reflexivity|]. rewrite IH. reflexivity.
Qed.

Lemma add_at_snoc P x y : add_at (length P) y (P ++ [x]) = P ++ [x ++ y].
Proof. induction P as [|l P IH]; [reflexivity|]. cbn [length app add_at]. rewrite IH. reflexivity. Qed.

Lemma set_at_snoc P x y : set_at (length P) y (P ++ [x]) = P ++ [y].
Proof. induction P as [|l P IH]; [reflexivity|]. cbn [length app set_at]. rewrite IH. reflexivity. Qed.

Lemma append_line_opened x st : shape st -> opened (append_line x st).
Proof.
  unfold shape, opened, append_line. intros [H1 H2].
  destruct (length (lines st) <=? idx st)%nat eqn:C; cbn [lines idx].
  - apply Nat.leb_le in C. rewrite app_length. cbn [length]. lia.
  - apply Nat.leb_gt in C. rewrite add_at_length. lia.
Qed.

Lemma handle_closed st : opened st -> closed (handle_finished_line st).
Proof.
  unfold opened, closed, handle_finished_line. intros H.
  destruct (eod st); [cbn [lines idx]; exact H|].
  destruct (is_eod _); [cbn [lines idx]; exact H|].
  destruct (nth (idx st) (lines st) []) as [|b l]; [cbn [lines idx]; exact H|].
  destruct (b =? DOT); cbn [lines idx]; [rewrite set_at_length|]; exact H.
Qed.

Lemma closed_shape st : closed st -> shape st.
Proof. unfold closed, shape. lia. Qed.
Lemma opened_shape st : opened st -> shape st.
Proof. unfold opened, shape. lia. Qed.

Lemma finished_line_closed st l : shape st -> closed (finished_line st l).
Proof. intros H. apply handle_closed, append_line_opened, H. Qed.

Lemma fold_finished_shape ls : forall st, shape st -> shape (fold_left finished_line ls st).
Proof.
  induction ls as [|l ls IH]; intros st H; [exact H|].
  cbn [fold_left]. apply IH, closed_shape, finished_line_closed, H.
Qed.

(* two consecutive _append_line calls are one *)
Lemma append_line_twice x y st : shape st ->
  append_line y (append_line x st) = append_line (x ++ y) st.
Proof.
  destruct st as [L i e]. unfold shape, append_line. cbn [lines idx eod]. intros [H1 H2].
  destruct (length L <=? i)%nat eqn:C; cbn [lines idx eod].
  - apply Nat.leb_le in C. assert (E : i = length L) by lia. subst i.
    rewrite app_length. cbn [length].
    replace (length L + 1 <=? length L)%nat with false by (symmetry; apply Nat.leb_gt; lia).
    rewrite add_at_snoc. reflexivity.
  - rewrite add_at_length, C, add_at_twice. reflexivity.
Qed.

Lemma add_lines_shape p st : shape st -> opened (add_lines p st).
Proof.
  intros H. unfold add_lines. destruct (split_lf p) as [ls tl].
  apply append_line_opened, fold_finished_shape, H.
Qed.

(* feeding a ++ b in one piece = feeding a, then b *)
Lemma add_lines_app a b st : shape st -> add_lines (a ++ b) st = add_lines b (add_lines a st).
Proof.
  intros H. unfold add_lines. rewrite split_lf_app. unfold merge_split.
  destruct (split_lf a) as [la ta]. destruct (split_lf b) as [lb tb]. cbn [fst snd].
  pose proof (fold_finished_shape la st H) as Hs.
  destruct lb as [|l1 lb].
  - cbn [fold_left]. rewrite append_line_twice by exact Hs. reflexivity.
  - rewrite fold_left_app. cbn [fold_left]. f_equal. f_equal.
    unfold finished_line. rewrite append_line_twice by exact Hs. rewrite <- app_assoc. reflexivity.
Qed.

(* ---- closed form of the reader state ---- *)
Definition addlf (l : bytes) : bytes := l ++ [10].

Fixpoint done_lines (ls : list bytes) : list bytes :=
  match ls with
  | [] => []
  | l :: ls' => if is_eod (l ++ [10]) then map addlf (l :: ls')
                else undot (l ++ [10]) :: done_lines ls'
  end.

Fixpoint find_eod (ls : list bytes) : option nat :=
  match ls with
  | [] => None
  | l :: ls' => if is_eod (l ++ [10]) then Some O
                else match find_eod ls' with Some k => Some (S k) | None => None end
  end.

Definition proc (e : option nat) (ls : list bytes) : list bytes :=
  match e with None => done_lines ls | Some _ => map addlf ls end.
Definition eod_after (e : option nat) (k : nat) (ls : list bytes) : option nat :=
  match e with
  | Some x => Some x
  | None => match find_eod ls with Some j => Some (k + j)%nat | None => None end
  end.

Lemma done_lines_length ls : length (done_lines ls) = length ls.
Proof.
  induction ls as [|l ls IH]; [reflexivity|]. cbn [done_lines].
  destruct (is_eod _); [apply map_length|]. cbn [length]. rewrite IH. reflexivity.
Qed.

Lemma finished_line_closed_form P e l :
  finished_line (mkdr P (length P) e) l =
  match e with
  | Some e0 => mkdr (P ++ [l ++ [10]]) (S (length P)) (Some e0)
  | None => if is_eod (l ++ [10]) then mkdr (P ++ [l ++ [10]]) (S (length P)) (Some (length P))
            else mkdr (P ++ [undot (l ++ [10])]) (S (length P)) None
  end.
Proof.
  unfold finished_line, append_line. cbn [lines idx eod]. rewrite Nat.leb_refl.
  unfold handle_finished_line. cbn [lines idx eod]. rewrite nth_middle.
  destruct e as [e0|]; [reflexivity|].
  destruct (is_eod (l ++ [10])); [reflexivity|].
  unfold undot. destruct (l ++ [10]) as [|b x]; [reflexivity|].
  destruct (b =? DOT); [rewrite set_at_snoc|]; reflexivity.
Qed.

Lemma fold_closed_form ls : forall P e,
  fold_left finished_line ls (mkdr P (length P) e) =
  mkdr (P ++ proc e ls) (length P + length ls) (eod_after e (length P) ls).
Proof.
  induction ls as [|l ls IH]; intros P e.
  - cbn [fold_left]. destruct e; cbn [proc done_lines map eod_after find_eod length];
      rewrite app_nil_r, Nat.add_0_r; reflexivity.
  - cbn [fold_left]. rewrite finished_line_closed_form.
    assert (LS : forall x : bytes, S (length P) = length (P ++ [x])) by (intros; rewrite app_length; cbn [length]; lia).
    destruct e as [e0|].
    + rewrite (LS (l ++ [10])), IH. cbn [proc map eod_after length]. rewrite <- app_assoc.
      f_equal. rewrite app_length. cbn [length]. lia.
    + cbn [proc done_lines eod_after find_eod]. destruct (is_eod (l ++ [10])).
      * rewrite (LS (l ++ [10])), IH. cbn [proc map eod_after length]. rewrite <- app_assoc.
        f_equal; [rewrite app_length; cbn [length]; lia | rewrite Nat.add_0_r; reflexivity].
      * rewrite (LS (undot (l ++ [10]))), IH. cbn [proc eod_after length]. rewrite <- app_assoc.
        rewrite app_length. cbn [length app].
        f_equal; [lia|]. destruct (find_eod ls); [f_equal; lia|reflexivity].
Qed.

(* the freshly built reader ([b''], 0) behaves like ([], 0) *)
Lemma add_lines_init s : add_lines s dr_init = add_lines s (mkdr [] O None).
Proof.
  unfold add_lines. destruct (split_lf s) as [ls tl]. destruct ls as [|l ls]; reflexivity.
Qed.

(* state after everything in s has gone through add_lines, in any pieces *)
Definition batch (s : bytes) : dr := add_lines s dr_init.

Lemma shape_init : shape dr_init.
Proof. unfold shape. cbn. lia. Qed.

Lemma batch_app s c : batch (s ++ c) = add_lines c (batch s).
Proof. apply add_lines_app, shape_init. Qed.

Lemma batch_closed_form s :
  batch s = mkdr (done_lines (fst (split_lf s)) ++ [snd (split_lf s)])
                 (length (fst (split_lf s))) (find_eod (fst (split_lf s))).
Proof.
  unfold batch. rewrite add_lines_init. unfold add_lines.
  destruct (split_lf s) as [ls tl]. cbn [fst snd].
  change (mkdr [] O None) with (mkdr [] (length (@nil bytes)) None).
  rewrite fold_closed_form. cbn [app length Nat.add proc eod_after].
  unfold append_line. cbn [lines idx eod]. rewrite done_lines_length, Nat.leb_refl.
  f_equal. destruct (find_eod ls); reflexivity.
Qed.

(* ====================================================================== *)
(* D. the batch specification read_spec                                    *)
(* ====================================================================== *)

Lemma read_spec_unfold s :
  read_spec s = match scan (fst (split_lf s)) with
                | Some (d, r) => Some (d, unraw r ++ snd (split_lf s))
                | None => None
                end.
Proof. unfold read_spec. destruct (split_lf s). reflexivity. Qed.

(* reading a stream line by line *)
Lemma read_spec_line l r : nolf l = true ->
  read_spec (l ++ 10 :: r) =
  if is_eod (l ++ [10]) then Some ([], r)
  else match read_spec r with
       | Some (d, r') => Some (undot (l ++ [10]) ++ d, r')
       | None => None
       end.
Proof.
  intros H. rewrite (read_spec_unfold (l ++ 10 :: r)), (read_spec_unfold r), (split_lf_line _ _ H).
  cbn [fst snd scan]. destruct (is_eod (l ++ [10])).
  - cbn [app]. f_equal. f_equal. symmetry. apply split_lf_spec.
  - destruct (scan (fst (split_lf r))) as [[d r']|]; reflexivity.
Qed.

Lemma scan_app ls more d r : scan ls = Some (d, r) -> scan (ls ++ more) = Some (d, r ++ more).
Proof.
  revert d r. induction ls as [|l ls IH]; intros d r H; [discriminate|].
  cbn [scan app] in *. destruct (is_eod (l ++ [10])).
  - injection H as <- <-. reflexivity.
  - destruct (scan ls) as [[d' r']|]; [|discriminate]. injection H as <- <-.
    rewrite (IH d' r' eq_refl). reflexivity.
Qed.

(* once the end-of-data line is there, later bytes do not change the result *)
Lemma read_spec_app_some s x d r : read_spec s = Some (d, r) -> read_spec (s ++ x) = Some (d, r ++ x).
Proof.
  rewrite (read_spec_unfold s), (read_spec_unfold (s ++ x)), split_lf_app. unfold merge_split.
  destruct (split_lf_spec x) as (Ex & _ & _).
  destruct (split_lf s) as [ls tl]. destruct (split_lf x) as [lx tx]. cbn [fst snd] in *.
  destruct (scan ls) as [[d' r']|] eqn:S; [|discriminate]. intros H. injection H as <- <-.
  destruct lx as [|l1 lx]; cbn [fst snd].
  - rewrite S. cbn [unraw map concat app] in Ex. subst x. rewrite app_assoc. reflexivity.
  - rewrite (scan_app _ _ _ _ S). f_equal. f_equal. subst x.
    rewrite unraw_app, !unraw_cons, <- !app_assoc. cbn [app]. reflexivity.
Qed.

(* scan against the closed form of the reader state *)
Lemma scan_done ls tl :
  match find_eod ls with
  | None => scan ls = None
  | Some e => exists d r, scan ls = Some (d, r)
               /\ concat (firstn e (done_lines ls ++ [tl])) = d
               /\ concat (skipn (S e) (done_lines ls ++ [tl])) = unraw r ++ tl
  end.
Proof.
  induction ls as [|l ls IH]; [reflexivity|].
  cbn [find_eod scan done_lines]. destruct (is_eod (l ++ [10])).
  - exists [], ls. split; [reflexivity|]. split; [reflexivity|].
    cbn [map app]. rewrite skipn_cons, skipn_O, concat_app. cbn [concat]. rewrite app_nil_r. reflexivity.
  - destruct (find_eod ls) as [e|].
    + destruct IH as (d & r & S & F & K). exists (undot (l ++ [10]) ++ d), r. rewrite S.
      split; [reflexivity|]. cbn [app]. rewrite firstn_cons, skipn_cons. cbn [concat]. rewrite F. split; [reflexivity|exact K].
    + rewrite IH. reflexivity.
Qed.

Lemma batch_none s : eod (batch s) = None -> read_spec s = None.
Proof.
  rewrite batch_closed_form, read_spec_unfold. cbn [eod]. intros H.
  pose proof (scan_done (fst (split_lf s)) (snd (split_lf s))) as D. rewrite H in D. rewrite D. reflexivity.
Qed.

Lemma batch_some s e : eod (batch s) = Some e -> read_spec s = Some (return_all (batch s) e).
Proof.
  rewrite batch_closed_form, read_spec_unfold. cbn [eod]. intros H.
  pose proof (scan_done (fst (split_lf s)) (snd (split_lf s))) as D. rewrite H in D.
  destruct D as (d & r & S & F & K). rewrite S. unfold return_all. cbn [lines]. rewrite F, K. reflexivity.
Qed.

(* read_spec only returns what its description says (soundness of the spec):
   the stream is  non-EOD lines ++ EOD line ++ rest,  data = the lines undotted *)
Lemma scan_sound ls0 d r0 : scan ls0 = Some (d, r0) ->
  exists ls e, ls0 = ls ++ e :: r0
    /\ forallb (fun l => negb (is_eod (l ++ [10]))) ls = true
    /\ is_eod (e ++ [10]) = true
    /\ d = concat (map (fun l => undot (l ++ [10])) ls).
Proof.
  revert d r0. induction ls0 as [|l ls0 IH]; intros d r0 H; [discriminate|].
  cbn [scan] in H. destruct (is_eod (l ++ [10])) eqn:E.
  - injection H as <- <-. exists [], l. repeat split. exact E.
  - destruct (scan ls0) as [[d' r']|]; [|discriminate]. injection H as <- <-.
    destruct (IH d' r' eq_refl) as (ls & e & E1 & E2 & E3 & E4).
    exists (l :: ls), e. cbn [app forallb map concat]. rewrite E, E2. subst. repeat split. exact E3.
Qed.

Lemma read_spec_sound s d r : read_spec s = Some (d, r) ->
  exists ls e, s = unraw ls ++ (e ++ [10]) ++ r
    /\ forallb nolf ls = true /\ nolf e = true
    /\ forallb (fun l => negb (is_eod (l ++ [10]))) ls = true
    /\ is_eod (e ++ [10]) = true
    /\ d = concat (map (fun l => undot (l ++ [10])) ls).
Proof.
  rewrite read_spec_unfold. destruct (split_lf_spec s) as (Es & Hl & Ht).
  destruct (scan (fst (split_lf s))) as [[d' r']|] eqn:S; [|discriminate]. intros H. injection H as <- <-.
  destruct (scan_sound _ _ _ S) as (ls & e & E1 & E2 & E3 & E4).
  exists ls, e. rewrite E1 in Es, Hl. rewrite forallb_app in Hl. apply andb_true_iff in Hl.
  destruct Hl as [Hl1 Hl2]. cbn [forallb] in Hl2. apply andb_true_iff in Hl2.
  repeat split; try tauto.
  rewrite Es at 1. rewrite unraw_app, unraw_cons, <- !app_assoc. reflexivity.
Qed.

(* ---- the receive loop ---- *)
Lemma recv_loop_eq ms size st sock :
  recv_loop ms size st sock =
  match eod st with
  | Some e => let '(d, rb) := return_all st e in ROk d rb sock
  | None =>
      match sock with
      | [] => RLost
      | piece :: sock' =>
          match piece with
          | [] => RLost
          | _ :: _ =>
              if too_big ms (size + N.of_nat (length piece)) then RTooBig sock'
              else recv_loop ms (size + N.of_nat (length piece)) (add_lines piece st) sock'
          end
      end
  end.
Proof. destruct sock; reflexivity. Qed.

Definition nonempty (c : bytes) : Prop := c <> [].

(* incremental = batch: with no size limit the outcome of DataReader.recv()
   is read_spec of the whole byte stream *)
Lemma recv_loop_batch chunks : forall s size, Forall nonempty chunks ->
  outcome (recv_loop None size (batch s) chunks) = read_spec (s ++ concat chunks).
Proof.
  induction chunks as [|c cs IH]; intros s size NE; rewrite recv_loop_eq.
  - destruct (eod (batch s)) as [e|] eqn:E.
    + pose proof (batch_some _ _ E) as B. destruct (return_all (batch s) e) as [d rb].
      cbn [outcome concat]. rewrite !app_nil_r. symmetry. exact B.
    + cbn [outcome concat]. rewrite app_nil_r. symmetry. apply batch_none, E.
  - inversion NE as [|? ? NEc NEcs]; subst.
    destruct (eod (batch s)) as [e|] eqn:E.
    + pose proof (batch_some _ _ E) as B. destruct (return_all (batch s) e) as [d rb].
      cbn [outcome]. symmetry. apply read_spec_app_some, B.
    + destruct c as [|b c]; [exfalso; apply NEc; reflexivity|].
      cbn [too_big]. rewrite <- batch_app, IH by exact NEcs.
      cbn [concat]. rewrite app_assoc. reflexivity.
Qed.

(* exact consumption, any stream: recv() stops reading from the socket with
   the piece that completes the end-of-data line *)
Lemma recv_loop_consumption chunks : forall s size d rb rest,
  recv_loop None size (batch s) chunks = ROk d rb rest ->
  exists used, chunks = used ++ rest
    /\ read_spec (s ++ concat used) = Some (d, rb)
    /\ (used = [] \/ read_spec (s ++ concat (removelast used)) = None).
Proof.
  induction chunks as [|c cs IH]; intros s size d rb rest; rewrite recv_loop_eq.
  - destruct (eod (batch s)) as [e|] eqn:E; [|discriminate].
    pose proof (batch_some _ _ E) as B. destruct (return_all (batch s) e) as [d' rb'].
    intros H. injection H as <- <- <-. exists []. cbn [concat app]. rewrite app_nil_r. auto.
  - destruct (eod (batch s)) as [e|] eqn:E.
    + pose proof (batch_some _ _ E) as B. destruct (return_all (batch s) e) as [d' rb'].
      intros H. injection H as <- <- <-. exists []. cbn [concat app]. rewrite app_nil_r. auto.
    + destruct c as [|b c]; [discriminate|]. cbn [too_big]. rewrite <- batch_app. intros H.
      destruct (IH _ _ _ _ _ H) as (used & E1 & E2 & E3). exists ((b :: c) :: used).
      split; [cbn [app]; f_equal; exact E1|]. split; [cbn [concat]; rewrite app_assoc; exact E2|].
      right. destruct used as [|u used].
      * cbn [removelast concat]. rewrite app_nil_r. apply batch_none, E.
      * destruct E3 as [E3|E3]; [discriminate|].
        change (removelast ((b :: c) :: u :: used)) with ((b :: c) :: removelast (u :: used)).
        cbn [concat]. rewrite app_assoc. exact E3.
Qed.

(* ====================================================================== *)
(* E. round trip                                                           *)
(* ====================================================================== *)

Lemma stuff_true_nolf l : nolf l = true ->
  stuff true l = (if starts_dot l then [DOT] else []) ++ l.
Proof. intros H. rewrite stuff_true, (stuff_false_nolf _ H). reflexivity. Qed.

Lemma nolf_stuff_true l : nolf l = true -> nolf (stuff true l) = true.
Proof. intros H. rewrite (stuff_true_nolf _ H), nolf_app, H. destruct (starts_dot l); reflexivity. Qed.

(* a stuffed line, possibly continued by x (x = [] or [CR]), is never the
   end-of-data line and loses exactly the added dot *)
Lemma stuffed_line l x : nolf l = true -> starts_dot (x ++ [10]) = false ->
  is_eod (stuff true l ++ x ++ [10]) = false /\ undot (stuff true l ++ x ++ [10]) = l ++ x ++ [10].
Proof.
  intros H Hx. rewrite (stuff_true_nolf _ H). destruct l as [|a l].
  - cbn [starts_dot app]. destruct (x ++ [10]) as [|b y]; [split; reflexivity|].
    cbn [starts_dot] in Hx. cbn [is_eod undot]. rewrite Hx. split; reflexivity.
  - cbn [starts_dot]. destruct (a =? DOT) eqn:Ha.
    + apply N.eqb_eq in Ha. subst a. cbn [app is_eod undot]. rewrite N.eqb_refl. cbn [andb].
      split; [|reflexivity]. destruct (l ++ x ++ [10]) as [|c y] eqn:E.
      * destruct l; [destruct x|]; discriminate.
      * cbn [eod_tail]. reflexivity.
    + cbn [app is_eod undot]. rewrite Ha. split; reflexivity.
Qed.

(* lines in front do not disturb what follows *)
Lemma read_spec_stuffed_lines ls : forall tl Y d r, forallb nolf ls = true ->
  read_spec (stuff true tl ++ Y) = Some (d, r) ->
  read_spec (stuff true (unraw ls ++ tl) ++ Y) = Some (unraw ls ++ d, r).
Proof.
  induction ls as [|l ls IH]; intros tl Y d r Hl H; [exact H|].
  cbn [forallb] in Hl. apply andb_true_iff in Hl. destruct Hl as [Hl Hls].
  rewrite unraw_cons, <- app_assoc, stuff_app. cbn [app].
  assert (E : stuff (bol_after true l) (10 :: unraw ls ++ tl) = 10 :: stuff true (unraw ls ++ tl)).
  { cbn [stuff]. rewrite andb_false_r. reflexivity. }
  rewrite E, <- app_assoc. cbn [app].
  rewrite read_spec_line by (apply nolf_stuff_true, Hl).
  destruct (stuffed_line l [] Hl eq_refl) as [E1 E2]. cbn [app] in E1, E2.
  rewrite E1, E2, (IH tl Y d r Hls H). f_equal. f_equal. rewrite <- !app_assoc. reflexivity.
Qed.

Lemma read_spec_dot_crlf t : read_spec ([DOT; 13; 10] ++ t) = Some ([], t).
Proof. change ([DOT; 13; 10] ++ t) with ([DOT; 13] ++ 10 :: t). rewrite read_spec_line; reflexivity. Qed.

(* the heart of the round trip, on the batch spec *)
Lemma read_spec_send m t :
  read_spec (stuff true m ++ end_marker_of m ++ t) = Some (expected m, t).
Proof.
  unfold end_marker_of, expected, ends_crlf.
  destruct (last2 m) as [|x y] eqn:L2.
  { apply last2_nil in L2. rewrite L2. apply read_spec_dot_crlf. }
  destruct m as [|m0 m']; [discriminate L2|].
  rewrite <- L2. clear L2 x y.
  remember (m0 :: m') as m eqn:Hm. clear Hm m0 m'.
  destruct (split_lf_spec m) as (Em & Hl & Ht).
  remember (fst (split_lf m)) as ls eqn:Els. remember (snd (split_lf m)) as tl eqn:Etl.
  destruct (beqb (last2 m) CRLF) eqn:C.
  - (* m ends with CRLF: no unfinished last line *)
    apply beqb_eq in C. destruct (last2_suffix m) as [p Ep]. rewrite C in Ep.
    assert (T : tl = []).
    { rewrite Etl, Ep. change CRLF with ([13] ++ [10]). rewrite app_assoc, split_lf_snoc_lf. reflexivity. }
    rewrite T, app_nil_r in Em.
    pose proof (read_spec_stuffed_lines ls [] _ [] t Hl (read_spec_dot_crlf t)) as F.
    rewrite !app_nil_r, <- Em in F. exact F.
  - assert (F : read_spec (stuff true tl ++ [13; 10; DOT; 13; 10] ++ t) = Some (tl ++ CRLF, t)).
    { change ([13; 10; DOT; 13; 10] ++ t) with ([13] ++ 10 :: [DOT; 13; 10] ++ t).
      rewrite app_assoc, read_spec_line by (rewrite nolf_app, nolf_stuff_true by exact Ht; reflexivity).
      destruct (stuffed_line tl [13] Ht eq_refl) as [E1 E2].
      rewrite <- app_assoc, E1, E2, read_spec_dot_crlf, app_nil_r. reflexivity. }
    pose proof (read_spec_stuffed_lines ls tl _ _ t Hl F) as G.
    rewrite <- Em in G.
    replace (unraw ls ++ tl ++ CRLF) with (m ++ CRLF) in G
      by (rewrite Em at 1; rewrite <- app_assoc; reflexivity).
    exact G.
Qed.

Lemma read_spec_wire parts t : dot_parts_at_bol parts ->
  read_spec (send parts ++ t) = Some (expected (concat parts), t).
Proof. intros H. rewrite (send_spec _ H), <- app_assoc. apply read_spec_send. Qed.

(* ---------------------------------------------------------------------- *)
(* the property theorems (restated in prop/C05.v)                          *)
(* ---------------------------------------------------------------------- *)

Lemma dr_recv_batch buf chunks : Forall nonempty chunks ->
  outcome (dr_recv None buf chunks) = read_spec (buf ++ concat chunks).
Proof. intros H. unfold dr_recv. apply (recv_loop_batch chunks buf 0 H). Qed.

Lemma roundtrip parts t buf chunks :
  dot_parts_at_bol parts -> Forall nonempty chunks ->
  buf ++ concat chunks = send parts ++ t ->
  exists rb rest, dr_recv None buf chunks = ROk (expected (concat parts)) rb rest
                  /\ rb ++ concat rest = t.
Proof.
  intros Hp Hc E. pose proof (dr_recv_batch buf chunks Hc) as B.
  rewrite E, (read_spec_wire _ _ Hp) in B.
  destruct (dr_recv None buf chunks) as [d rb rest| |rest]; try discriminate.
  cbn [outcome] in B. injection B as -> <-. exists rb, rest. split; reflexivity.
Qed.

Lemma consumption_any_stream buf chunks d rb rest :
  dr_recv None buf chunks = ROk d rb rest ->
  exists used, chunks = used ++ rest
    /\ read_spec (buf ++ concat used) = Some (d, rb)
    /\ (used = [] \/ read_spec (buf ++ concat (removelast used)) = None).
Proof. unfold dr_recv. apply recv_loop_consumption. Qed.

Lemma exact_consumption parts t buf chunks d rb rest :
  dot_parts_at_bol parts ->
  buf ++ concat chunks = send parts ++ t ->
  dr_recv None buf chunks = ROk d rb rest ->
  exists used, chunks = used ++ rest
    /\ buf ++ concat used = send parts ++ rb
    /\ t = rb ++ concat rest
    /\ (used = [] \/ (length (buf ++ concat (removelast used)) < length (send parts))%nat).
Proof.
  intros Hp E R. destruct (consumption_any_stream _ _ _ _ _ R) as (used & E1 & E2 & E3).
  unfold bytes in *.
  exists used. split; [exact E1|].
  pose proof (read_spec_app_some _ (concat rest) _ _ E2) as F.
  rewrite <- app_assoc, <- concat_app, <- E1, E, (read_spec_wire _ _ Hp) in F.
  injection F as Fd Ft.
  assert (K : buf ++ concat used = send parts ++ rb).
  { apply (app_inv_tail (concat rest)). rewrite <- !app_assoc, <- concat_app, <- E1, <- Ft. exact E. }
  split; [exact K|]. split; [exact Ft|].
  destruct used as [|u0 used']; [left; reflexivity|right].
  destruct E3 as [E3|E3]; [discriminate|].
  destruct (Nat.lt_ge_cases (length (buf ++ concat (removelast (u0 :: used')))) (length (send parts))) as [G|G]; [exact G|exfalso].
  pose proof (@app_removelast_last _ (u0 :: used') [] ltac:(discriminate)) as RL.
  rewrite RL, concat_app, app_assoc in K.
  destruct (prefix_long _ _ _ _ K G) as [t' Et'].
  rewrite Et', (read_spec_wire _ _ Hp) in E3. discriminate.
Qed.

Lemma segmentation_independent buf chunks buf' chunks' :
  Forall nonempty chunks -> Forall nonempty chunks' ->
  buf ++ concat chunks = buf' ++ concat chunks' ->
  outcome (dr_recv None buf chunks) = outcome (dr_recv None buf' chunks').
Proof. intros H H' E. rewrite !dr_recv_batch by assumption. rewrite E. reflexivity. Qed.

(* the property's "split at line boundaries" is a special case of the guard *)
Lemma at_bol_concat pre : (forall q, In q pre -> at_bol q) -> at_bol (concat pre).
Proof.
  induction pre as [|q pre IH] using rev_ind; intros H; [left; reflexivity|].
  rewrite concat_app. cbn [concat]. rewrite app_nil_r.
  destruct (H q) as [Eq|[q' Eq]]; [apply in_or_app; right; left; reflexivity| |].
  - subst q. rewrite app_nil_r. apply IH. intros q Hq. apply H, in_or_app. left. exact Hq.
  - right. exists (concat pre ++ q'). rewrite Eq, app_assoc. reflexivity.
Qed.

Lemma line_split_ok parts : line_split parts -> dot_parts_at_bol parts.
Proof.
  intros H pre p post E. apply at_bol_concat. intros q Hq.
  destruct (in_split _ _ Hq) as (l1 & l2 & El). subst pre parts.
  apply (H l1 q (l2 ++ (DOT :: p) :: post)); [rewrite <- app_assoc; reflexivity|].
  destruct l2; discriminate.
Qed.

(* a single part is always admissible, so is any split of a dot-free message *)
Lemma single_part_ok m : dot_parts_at_bol [m].
Proof.
  intros pre p post E. destruct pre as [|a pre]; [left; reflexivity|].
  destruct pre; discriminate.
Qed.

(* the guard is needed: a part that begins with a dot in the middle of a line
   gets that dot doubled by DataSender._process_part, and the reader (rightly)
   does not remove it *)
Lemma midline_dot_part_altered :
  outcome (dr_recv None [] [send [[97]; [DOT; 98]]]) = Some ([97; DOT; DOT; 98; 13; 10], [])
  /\ expected (concat [[97]; [DOT; 98]]) = [97; DOT; 98; 13; 10].
Proof. split; vm_compute; reflexivity. Qed.

(* ---- hypotheses are satisfiable by non-trivial values ---- *)
Example ex_parts : list bytes := [[DOT; 97; 13; 10]; []; [DOT; 10]; [98; DOT; 13]; [10; DOT]].
Example ex_parts_line_split_false_but_ok : dot_parts_at_bol ex_parts.
Proof.
  intros pre p post E. unfold ex_parts in E.
  destruct pre as [|a0 pre]; [left; reflexivity|].
  destruct pre as [|a1 pre]; [injection E as <- _; right; exists [DOT; 97; 13]; reflexivity|].
  destruct pre as [|a2 pre]; [injection E as <- <- _; right; exists [DOT; 97; 13]; reflexivity|].
  destruct pre as [|a3 pre]; [injection E as _ _ _ E; discriminate|].
  destruct pre as [|a4 pre]; [injection E as _ _ _ _ E; discriminate|].
  destruct pre; discriminate.
Qed.
Example ex_line_split : line_split [[DOT; 97; 13; 10]; []; [DOT; 10]; [DOT; DOT]].
Proof.
  intros pre p post E NE.
  destruct pre as [|a0 pre]; [injection E as <- _; right; exists [DOT; 97; 13]; reflexivity|].
  destruct pre as [|a1 pre]; [injection E as _ <- _; left; reflexivity|].
  destruct pre as [|a2 pre]; [injection E as _ _ <- _; right; exists [DOT]; reflexivity|].
  destruct pre as [|a3 pre]; [injection E as _ _ _ _ <-; exfalso; apply NE; reflexivity|].
  destruct pre; discriminate.
Qed.
Example ex_roundtrip_hyps :
  let t := [81; 13; 10] in
  let w := send ex_parts ++ t in
  Forall nonempty [firstn 3 (skipn 2 w); skipn 5 w] /\ firstn 2 w ++ concat [firstn 3 (skipn 2 w); skipn 5 w] = send ex_parts ++ t
  /\ dr_recv None (firstn 2 w) [firstn 3 (skipn 2 w); skipn 5 w]
     = ROk (expected (concat ex_parts)) t [].
Proof.
  cbv zeta. split; [repeat constructor; unfold nonempty; vm_compute; discriminate|].
  split; vm_compute; reflexivity.
Qed.
Example ex_consumption_hyp :
  dr_recv None [97; 10] [[DOT]; [10; 81]; [82]] = ROk [97; 10] [81] [[82]].
Proof. reflexivity. Qed.
Example ex_segmentation_hyps :
  let s := [DOT; DOT; 97; 10; DOT; 13; 10; 81] in
  Forall nonempty [firstn 5 s; skipn 5 s] /\ Forall nonempty (map (fun b => [b]) (skipn 1 s))
  /\ [] ++ concat [firstn 5 s; skipn 5 s] = firstn 1 s ++ concat (map (fun b => [b]) (skipn 1 s))
  /\ outcome (dr_recv None [] [firstn 5 s; skipn 5 s]) = Some ([DOT; 97; 10], [81]).
Proof.
  cbv zeta. split; [repeat constructor; discriminate|]. split; [repeat constructor; discriminate|].
  split; reflexivity.
Qed.
Example ex_read_spec_some : read_spec [97; 10; DOT; DOT; 10; DOT; 32; 13; 10; 81; 10] = Some ([97; 10; DOT; 10], [81; 10]).
Proof. reflexivity. Qed.
