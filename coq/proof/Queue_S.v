(* Single flight: at most one delivery attempt of a message is in progress, in every
   reachable state, for every schedule. *)
From Coq Require Import List NArith Bool Lia.
From SV Require Import model.Queue proof.Queue_base.
Import ListNotations.
Open Scope N_scope.

Definition Sinv' (ts : list task) (act : list id) : Prop :=
  NoDup (live_ids ts) /\ forall i, In i (live_ids ts) -> mem i act = true.
Definition Sinv (s : state) : Prop := Sinv' (s_tasks s) (s_active s).

Lemma live_ids_split : forall l1 t l2,
  live_ids (l1 ++ t :: l2) = live_ids l1 ++ (if is_live t then [task_id t] else []) ++ live_ids l2.
Proof. intros. unfold live_ids. rewrite ids_of_app, ids_of_cons. reflexivity. Qed.

Lemma S_drop_live : forall l1 t l2 act, Sinv' (l1 ++ t :: l2) act -> is_live t = true ->
  Sinv' (l1 ++ l2) act /\ ~ In (task_id t) (live_ids (l1 ++ l2)).
Proof.
  intros l1 t l2 act [Hn Ha] Hl. rewrite live_ids_split, Hl in Hn. rewrite live_ids_split, Hl in Ha.
  unfold Sinv'. unfold live_ids in *. rewrite ids_of_app.
  apply NoDup_remove in Hn. destruct Hn as [Hn Hni]. split; [split|].
  - exact Hn.
  - intros i Hi. apply Ha. apply in_app_iff in Hi. apply in_app_iff. destruct Hi; [left|right; right]; assumption.
  - exact Hni.
Qed.

Lemma S_drop_nonlive : forall l1 t l2 act, Sinv' (l1 ++ t :: l2) act -> is_live t = false -> Sinv' (l1 ++ l2) act.
Proof.
  intros l1 t l2 act H Hl. unfold Sinv' in *. rewrite live_ids_split, Hl in H. cbn [app] in H.
  unfold live_ids in *. rewrite ids_of_app. exact H.
Qed.

Lemma S_add_nonlive : forall ts t act, Sinv' ts act -> is_live t = false -> Sinv' (ts ++ [t]) act.
Proof.
  intros ts t act H Hl. unfold Sinv', live_ids in *. rewrite ids_of_app, ids_of_cons, Hl. cbn. rewrite app_nil_r. exact H.
Qed.

Lemma NoDup_app_snoc : forall (l : list N) x, NoDup l -> ~ In x l -> NoDup (l ++ [x]).
Proof.
  induction l as [|y l IH]; intros x Hn Hx; cbn; [constructor; [intros []|constructor]|].
  inversion Hn as [|? ? Hy Hl]; subst. constructor.
  - intro Hi. apply in_app_iff in Hi. destruct Hi as [Hi|[Hi|[]]]; [contradiction|]. subst. apply Hx. left. reflexivity.
  - apply IH; [assumption|]. intro Hi. apply Hx. right. exact Hi.
Qed.

Lemma S_add_live : forall ts t act, Sinv' ts act -> is_live t = true -> ~ In (task_id t) (live_ids ts) ->
  mem (task_id t) act = true -> Sinv' (ts ++ [t]) act.
Proof.
  intros ts t act [Hn Ha] Hl Hni Hm. unfold Sinv', live_ids in *. rewrite ids_of_app, ids_of_cons, Hl. cbn. split.
  - apply NoDup_app_snoc; assumption.
  - intros i Hi. apply in_app_iff in Hi. destruct Hi as [Hi|[Hi|[]]]; [apply Ha; exact Hi|subst; exact Hm].
Qed.

Lemma S_del_active : forall ts act i, Sinv' ts act -> ~ In i (live_ids ts) -> Sinv' ts (del i act).
Proof.
  intros ts act i [Hn Ha] Hni. split; [exact Hn|]. intros j Hj.
  rewrite mem_del_other; [apply Ha; exact Hj|]. intro E. subst. contradiction.
Qed.

Lemma S_cons_active : forall ts act i, Sinv' ts act -> Sinv' ts (i :: act).
Proof. intros ts act i [Hn Ha]. split; [exact Hn|]. intros j Hj. cbn. rewrite (Ha j Hj). apply orb_true_r. Qed.

Lemma S_not_active_not_live : forall ts act i, Sinv' ts act -> mem i act = false -> ~ In i (live_ids ts).
Proof. intros ts act i [_ Ha] Hm Hi. rewrite (Ha i Hi) in Hm. discriminate. Qed.

Lemma dispatch_S : forall s i c, Sinv s -> Sinv (dispatch s i c).
Proof.
  intros s i c H. unfold Sinv, dispatch. destruct (mem i (s_active s)) eqn:E; [exact H|]. cbn.
  apply S_add_live; [apply S_cons_active; exact H|reflexivity| |cbn; rewrite N.eqb_refl; reflexivity].
  cbn. apply (S_not_active_not_live _ (s_active s)); assumption.
Qed.

Lemma fold_dispatch_S : forall (f : time * id -> cause) d s, Sinv s ->
  Sinv (fold_left (fun s e => dispatch s (snd e) (f e)) d s).
Proof. induction d as [|e d IH]; intros s H; cbn; [exact H|]. apply IH. apply dispatch_S. exact H. Qed.

Ltac S_take H T :=
  apply take_task_spec in T; destruct T as [?Hp [?l1 [?l2 [?E1 ?E2]]]];
  unfold Sinv in H; rewrite E1 in H.

Lemma step_S : forall s e, Sinv s -> Sinv (step s e).
Proof.
  intros s e H. destruct e; unfold step.
  - (* EWrite *) unfold Sinv. cbn. apply S_add_nonlive; [exact H|reflexivity].
  - (* EEnqDone *)
    destruct (take_task (is_enq i) (s_tasks s)) as [[t rest]|] eqn:T; [|exact H].
    destruct t; try exact H. S_take H T. apply is_enq_id in Hp. destruct Hp as [Hid [Hl _]]. cbn in Hid. subst i0.
    pose proof (S_drop_nonlive _ _ _ _ H Hl) as H1. rewrite <- E2 in H1.
    cbn [set_tasks s_active]. destruct (mem i (s_active s)) eqn:Em.
    + unfold Sinv. cbn. exact H1.
    + unfold Sinv. cbn. apply S_add_live; [apply S_cons_active; exact H1|reflexivity| |cbn; rewrite N.eqb_refl; reflexivity].
      cbn. apply (S_not_active_not_live _ (s_active s)); assumption.
  - (* ERelay *)
    destruct (take_task (is_attempt i) (s_tasks s)) as [[t rest]|] eqn:T; [|exact H].
    destruct t; try exact H. S_take H T. apply is_attempt_id in Hp. destruct Hp as [Hid Hl]. cbn in Hid. subst i0.
    destruct (S_drop_live _ _ _ _ H Hl) as [H1 Hni]. rewrite <- E2 in H1, Hni. cbn in Hni.
    destruct o; unfold Sinv; cbn.
    + apply S_add_nonlive; [apply S_del_active; assumption|reflexivity].
    + apply S_add_live; [exact H1|reflexivity|exact Hni|]. cbn. apply H. rewrite live_ids_split. cbn. apply in_app_iff. right. left. reflexivity.
    + apply S_add_nonlive; [apply S_del_active; assumption|reflexivity].
    + apply S_add_live; [exact H1|reflexivity|exact Hni|]. cbn. apply H. rewrite live_ids_split. cbn. apply in_app_iff. right. left. reflexivity.
    + destruct (pick is_temp rcpts res); cbn.
      * apply S_add_nonlive; [exact H1|reflexivity].
      * apply S_add_live; [exact H1|reflexivity|exact Hni|]. cbn. apply H. rewrite live_ids_split. cbn. apply in_app_iff. right. left. reflexivity.
  - (* EStep *)
    destruct (take_task (is_retry i) (s_tasks s)) as [[t rest]|] eqn:T; [|exact H].
    pose proof T as T0. S_take H T. pose proof Hp as Hp0. apply is_retry_id in Hp. destruct Hp as [Hid Hl].
    destruct (S_drop_live _ _ _ _ H Hl) as [H1 Hni]. rewrite <- E2 in H1, Hni. rewrite Hid in Hni.
    assert (Hact : mem i (s_active s) = true).
    { apply H. rewrite live_ids_split, Hl, Hid. apply in_app_iff. right. left. reflexivity. }
    destruct (st_get (s_store s) i); [|unfold Sinv; cbn; exact H1].
    destruct t; cbn in Hp0; try discriminate; cbn in Hid; subst i0.
    + destruct b; unfold Sinv; cbn.
      * apply S_add_live; [exact H1|reflexivity|exact Hni|exact Hact].
      * apply S_add_nonlive; [apply S_del_active; assumption|reflexivity].
    + destruct dl as [[all res]|]; unfold Sinv.
      * cbn. apply S_add_live; [exact H1|reflexivity|exact Hni|exact Hact].
      * rewrite aq_tasks, aq_active. cbn. apply S_del_active; assumption.
    + unfold Sinv. rewrite aq_tasks, aq_active. cbn. apply S_del_active; assumption.
  - (* EGet *)
    destruct (take_task (is_dequeue i) (s_tasks s)) as [[t rest]|] eqn:T; [|exact H].
    destruct t; try exact H. S_take H T. apply is_dequeue_id in Hp. destruct Hp as [Hid Hl]. cbn in Hid. subst i0.
    destruct (S_drop_live _ _ _ _ H Hl) as [H1 Hni]. rewrite <- E2 in H1, Hni. cbn in Hni.
    destruct (st_get (s_store s) i); unfold Sinv; cbn.
    + apply S_add_live; [exact H1|reflexivity|exact Hni|]. cbn. apply H. rewrite live_ids_split. cbn. apply in_app_iff. right. left. reflexivity.
    + apply S_del_active; assumption.
  - (* ERemove *)
    destruct (take_task (is_rm i) (s_tasks s)) as [[t rest]|] eqn:T; [|exact H].
    S_take H T. apply is_rm_id in Hp. destruct Hp as [Hid [Hl _]].
    unfold Sinv. cbn. rewrite E2. apply (S_drop_nonlive _ _ _ _ H Hl).
  - (* ETick *)
    destruct (s_sched s); try exact H. unfold Sinv. rewrite wr_tasks, wr_active.
    unfold check_ready. destruct (due_prefix (s_clock s) (s_queued s)) as [d r]. destruct d as [|e d]; [exact H|].
    cbn [set_queue s_tasks s_active]. apply (fold_dispatch_S (fun e => CTimer (fst e))). exact H.
  - (* EWakeup *)
    destruct (s_sched s) as [|[t|]|]; try exact H; [destruct (t <=? s_clock s); exact H].
  - (* EAdvance *) exact H.
  - (* EAnnounce *) unfold Sinv. rewrite aq_tasks, aq_active. exact H.
  - (* EFlush *)
    unfold Sinv. cbn [set_queue s_tasks s_active]. apply (fold_dispatch_S (fun _ => CFlush)). exact H.
Qed.

Lemma init_S : Sinv init.
Proof. split; [constructor|intros i []]. Qed.

Lemma run_S : forall es s, Sinv s -> Sinv (run es s).
Proof. induction es as [|e es IH]; intros s H; cbn; [exact H|]. apply IH. apply step_S. exact H. Qed.

(* count of delivery attempts of i in progress *)
Definition live_count (i : id) (s : state) : nat := count_occ N.eq_dec (live_ids (s_tasks s)) i.

Lemma single_flight : forall es i, (live_count i (run es init) <= 1)%nat.
Proof.
  intros es i. pose proof (run_S es init init_S) as [Hn _]. unfold live_count.
  rewrite (NoDup_count_occ N.eq_dec) in Hn. apply Hn.
Qed.

(* stated on the relay calls proper: two TAttempt tasks of one id never coexist *)
Lemma no_two_attempts : forall es i l1 l2 l3 s1 r1 n1 s2 r2 n2,
  s_tasks (run es init) = l1 ++ TAttempt i s1 r1 n1 :: l2 ++ TAttempt i s2 r2 n2 :: l3 -> False.
Proof.
  intros es i l1 l2 l3 s1 r1 n1 s2 r2 n2 E. pose proof (run_S es init init_S) as [Hn _]. rewrite E in Hn.
  rewrite live_ids_split in Hn. cbn in Hn. apply NoDup_remove_2 in Hn. apply Hn.
  apply in_app_iff. right. rewrite live_ids_split. cbn. apply in_app_iff. right. left. reflexivity.
Qed.
