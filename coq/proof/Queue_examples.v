(* Non-vacuity examples and refutations for the queue theorems. *)
From Coq Require Import List NArith Bool Lia.
From SV Require Import model.Queue proof.Queue_base proof.Queue_L proof.Queue_W.
Import ListNotations.
Open Scope N_scope.

(* a fair, contract-abiding schedule with two partial-delivery rounds:
   [1;2;3] -> 1 delivered, 2 transient, 3 permanent; retry; 2 delivered *)
Definition ex_sched : list event :=
  [ EWrite true [1; 2; 3] 0; EEnqDone 0; ERelay 0 (OPartial [ROk; RTemp; RPerm]);
    EStep 0 (Some 5); EStep 0 None; EStep 0 None;       (* incr+backoff 5, set_timestamp, set_recipients_delivered + re-queue *)
    ETick; EAdvance 5; EWakeup; ETick; EGet 0; ERelay 0 OWholeOk; ERemove 0 ].

Lemma covers_ex : covers_res [1; 2; 3] [ROk; RTemp; RPerm].
Proof. intros r [H|[H|[H|[]]]]; subst; cbn; auto. Qed.

Example ex_sched_ok : ok_run ex_sched init.
Proof.
  cbn. repeat split; try exact I.
  - repeat constructor; cbn; intuition discriminate.
  - intros snd rcpts n H. cbn in H. inversion H; subst. apply covers_ex.
Qed.

Example ex_sched_result :
  let s := run ex_sched init in
  g_deliv s = [(0, 2); (0, 1)] /\ g_fail s = [(0, 3, true)] /\ s_store s = [] /\
  map (fun a => (a_rcpts a, a_n a, a_now a)) (g_atts s) = [([2], 1, 5); ([1; 2; 3], 0, 0)].
Proof. vm_compute. repeat split; reflexivity. Qed.

(* C03: an announcement that races the lazy removal of a delivered message (unfair) makes the
   queue attempt the delivered recipient again: the fairness hypothesis is needed *)
Definition unfair_sched : list event :=
  [ EWrite true [1] 0; EEnqDone 0; ERelay 0 OWholeOk; EAnnounce 0 0; ETick; EGet 0 ].

Lemma unfair_announce_resend :
  let s := run unfair_sched init in
  In (0, 1) (g_deliv s) /\ exists l1 l2, s_tasks s = l1 ++ TAttempt 0 true [1] 0 :: l2.
Proof. vm_compute. split; [left; reflexivity|]. exists [TRemove 0], []. reflexivity. Qed.

Lemma unfair_sched_not_ok : ~ ok_run unfair_sched init.
Proof. cbn. intros [_ [_ [_ [[_ H] _]]]]. exact H. Qed.

(* C01: a relay result outside the contract (a recipient with neither a success nor a relay
   error) loses that recipient: the contract hypothesis is needed *)
Definition junk_sched : list event :=
  [ EWrite true [1; 2] 0; EEnqDone 0; ERelay 0 (OPartial [ROk; RJunk]); ERemove 0 ].

Lemma junk_result_loses :
  let s := run junk_sched init in
  In (0, 2, true) (g_acc s) /\ ~ In (0, 2) (g_deliv s) /\ (forall b, ~ In (0, 2, b) (g_fail s)) /\ st_get (s_store s) 0 = None.
Proof. vm_compute. split; [right; left; reflexivity|]. split; [intros [H|[]]; discriminate|]. split; [intros b []|reflexivity]. Qed.

(* C12: flush dispatches every waiting entry at once *)
Lemma flush_attempts_all : forall s,
  let s' := step s EFlush in
  s_queued s' = [] /\ s_qids s' = [] /\ forall e, In e (s_queued s) -> mem (snd e) (s_active s') = true.
Proof.
  intros s s'. subst s'. unfold step. proj. split; [reflexivity|]. split; [reflexivity|].
  intros e He. apply (fold_dispatch_active (fun _ => CFlush)). right. apply in_map. exact He.
Qed.

Example flush_example :
  let s := run [EWrite true [1] 0; EEnqDone 0; ERelay 0 OWholeTemp; EStep 0 (Some 100); EStep 0 None; EFlush] init in
  s_queued s = [] /\ s_tasks s = [TDequeue 0 CFlush].
Proof. vm_compute. split; reflexivity. Qed.
