(* Generic lemmas about programs over a substrate (model/StoreCore.v, Section
   Prog): non-interference of agents with disjoint footprints under every
   schedule, and threads run alone. *)
From Coq Require Import List NArith Bool Lia PeanoNat.
From SV Require Import model.StoreCore.
Import ListNotations.

Lemma nth_error_set_nth_same {A} n (x : A) l : (n < length l)%nat -> nth_error (set_nth n x l) n = Some x.
Proof.
  revert n; induction l as [|y l IH]; intros n H; cbn [length] in H; [lia|].
  destruct n; cbn [set_nth nth_error]; [reflexivity|apply IH; lia].
Qed.

Lemma nth_error_set_nth_other {A} n m (x : A) l : n <> m -> nth_error (set_nth n x l) m = nth_error l m.
Proof.
  revert n m; induction l as [|y l IH]; intros n m H; [destruct n; reflexivity|].
  destruct n, m; cbn [set_nth nth_error]; try reflexivity; [congruence|apply IH; congruence].
Qed.

Lemma length_set_nth {A} n (x : A) l : length (set_nth n x l) = length l.
Proof.
  revert n; induction l as [|y l IH]; intros n; [destruct n; reflexivity|].
  destruct n; cbn [set_nth length]; [reflexivity|rewrite IH; reflexivity].
Qed.

Section NonInterference.
  Variables (St Cmd Ans Key L : Type).
  Variable exec : St -> Cmd -> St * Ans.
  (* what of the substrate lives at a key, and which keys a command touches *)
  Variable loc : St -> Key -> L.
  Variable fp : Cmd -> option (Key -> bool).
  Hypothesis exec_frame : forall s c f k,
      fp c = Some f -> f k = false -> loc (fst (exec s c)) k = loc s k.
  Hypothesis exec_local : forall s t c f,
      fp c = Some f -> (forall k, f k = true -> loc s k = loc t k) ->
      snd (exec s c) = snd (exec t c) /\
      forall k, f k = true -> loc (fst (exec s c)) k = loc (fst (exec t c)) k.

  Variable Ag : Type.
  Variable next : Ag -> option (Cmd * (Ans -> Ag)).
  (* Own F a: agent a, now and after any answers, only issues commands whose
     footprint lies inside F *)
  Variable Own : (Key -> bool) -> Ag -> Prop.
  Hypothesis own_step : forall F a c k,
      Own F a -> next a = Some (c, k) ->
      (exists f, fp c = Some f /\ forall x, f x = true -> F x = true) /\ forall ans, Own F (k ans).

  Notation astep := (astep exec next).
  Notation asteps := (asteps exec next).
  Notation sched := (sched exec next).

  Lemma asteps_snoc n s a :
    asteps (S n) s a = let (s1, a1) := asteps n s a in astep s1 a1.
  Proof.
    revert s a; induction n as [|n IH]; intros s a.
    - cbn [StoreCore.asteps]. destruct (astep s a); reflexivity.
    - change (asteps (S (S n)) s a) with (let (s', a') := astep s a in asteps (S n) s' a').
      change (asteps (S n) s a) with (let (s', a') := astep s a in asteps n s' a').
      destruct (astep s a) as [s' a']. apply IH.
  Qed.

  Variable s0 : St.
  Variable ags0 : list Ag.
  Variable Fs : list (Key -> bool).
  Hypothesis own0 : forall i a F, nth_error ags0 i = Some a -> nth_error Fs i = Some F -> Own F a.
  Hypothesis same_len : length Fs = length ags0.
  Hypothesis disjoint : forall i j Fi Fj k,
      i <> j -> nth_error Fs i = Some Fi -> nth_error Fs j = Some Fj -> Fi k = true -> Fj k = false.

  (* the combined state seen through agent i's keys is the state of agent i
     running alone for some number of steps; keys nobody owns are untouched *)
  Definition NI (s : St) (ags : list Ag) : Prop :=
    length ags = length ags0 /\
    (forall i a F, nth_error ags0 i = Some a -> nth_error Fs i = Some F ->
       exists n si ai, asteps n s0 a = (si, ai) /\ nth_error ags i = Some ai /\ Own F ai /\
                       forall k, F k = true -> loc s k = loc si k) /\
    (forall k, (forall i F, nth_error Fs i = Some F -> F k = false) -> loc s k = loc s0 k).

  Lemma NI_init : NI s0 ags0.
  Proof.
    split; [reflexivity|]. split.
    - intros i a F Ha HF. exists O, s0, a. cbn [StoreCore.asteps].
      repeat split; try assumption. eapply own0; eassumption.
    - reflexivity.
  Qed.

  Lemma NI_step s ags i a :
    NI s ags -> nth_error ags i = Some a ->
    NI (fst (astep s a)) (set_nth i (snd (astep s a)) ags).
  Proof.
    intros (Hlen & Hag & Hout) Hi.
    assert (Hil : (i < length ags)%nat) by (apply nth_error_Some; congruence).
    destruct (nth_error ags0 i) as [a0|] eqn:Ea0; [|apply nth_error_None in Ea0; lia].
    destruct (nth_error Fs i) as [Fi|] eqn:EFi; [|apply nth_error_None in EFi; lia].
    destruct (Hag i a0 Fi Ea0 EFi) as (n & si & ai & Hrun & Hnth & Hown & Hloc).
    rewrite Hi in Hnth. inversion Hnth; subst ai. clear Hnth.
    unfold StoreCore.astep. destruct (next a) as [[c k]|] eqn:En.
    2:{ cbn [fst snd]. split; [rewrite length_set_nth; exact Hlen|]. split; [|exact Hout].
        intros j aj Fj Haj HFj. destruct (Hag j aj Fj Haj HFj) as (n' & sj & aj' & R1 & R2 & R3 & R4).
        exists n', sj, aj'. repeat split; try assumption.
        destruct (Nat.eq_dec i j) as [->|Hne].
        - rewrite nth_error_set_nth_same by exact Hil. congruence.
        - rewrite nth_error_set_nth_other by exact Hne. exact R2. }
    destruct (own_step Fi a c k Hown En) as ((f & Hf & Hsub) & Hownk).
    destruct (exec_local s si c f Hf) as (Hans & Hloc').
    { intros x Hx. apply Hloc. apply Hsub. exact Hx. }
    destruct (exec s c) as [s' ans] eqn:Es. destruct (exec si c) as [si' ans'] eqn:Esi.
    cbn [fst snd] in *. subst ans'.
    split; [rewrite length_set_nth; exact Hlen|]. split.
    - intros j aj Fj Haj HFj. destruct (Nat.eq_dec i j) as [<-|Hne].
      + rewrite Ea0 in Haj. inversion Haj; subst aj. rewrite EFi in HFj. inversion HFj; subst Fj.
        exists (S n), si', (k ans). split.
        * rewrite asteps_snoc, Hrun. unfold StoreCore.astep. rewrite En, Esi. reflexivity.
        * split; [apply nth_error_set_nth_same; exact Hil|]. split; [apply Hownk|].
          intros x Hx. destruct (f x) eqn:Efx.
          -- apply Hloc'. exact Efx.
          -- pose proof (exec_frame s c f x Hf Efx) as E1. rewrite Es in E1. cbn [fst] in E1.
             pose proof (exec_frame si c f x Hf Efx) as E2. rewrite Esi in E2. cbn [fst] in E2.
             rewrite E1, E2. apply Hloc. exact Hx.
      + destruct (Hag j aj Fj Haj HFj) as (n' & sj & aj' & R1 & R2 & R3 & R4).
        exists n', sj, aj'. split; [exact R1|]. split; [rewrite nth_error_set_nth_other by exact Hne; exact R2|].
        split; [exact R3|]. intros x Hx.
        assert (Efx : f x = false).
        { destruct (f x) eqn:Efx; [|reflexivity].
          pose proof (disjoint i j Fi Fj x Hne EFi HFj (Hsub x Efx)). congruence. }
        pose proof (exec_frame s c f x Hf Efx) as E1. rewrite Es in E1. cbn [fst] in E1.
        rewrite E1. apply R4. exact Hx.
    - intros x Hx.
      assert (Efx : f x = false).
      { destruct (f x) eqn:Efx; [|reflexivity].
        specialize (Hsub x Efx). rewrite (Hx i Fi EFi) in Hsub. discriminate. }
      pose proof (exec_frame s c f x Hf Efx) as E1. rewrite Es in E1. cbn [fst] in E1.
      rewrite E1. apply Hout. exact Hx.
  Qed.

  Lemma NI_sched sch : forall s ags, NI s ags -> NI (fst (sched sch s ags)) (snd (sched sch s ags)).
  Proof.
    induction sch as [|i sch IH]; intros s ags H; [exact H|].
    cbn [StoreCore.sched]. destruct (nth_error ags i) as [a|] eqn:Ei; [|apply IH; exact H].
    pose proof (NI_step s ags i a H Ei) as H'.
    destruct (astep s a) as [s' a']. apply IH. exact H'.
  Qed.

  Theorem non_interference sch : NI (fst (sched sch s0 ags0)) (snd (sched sch s0 ags0)).
  Proof. apply NI_sched, NI_init. Qed.
End NonInterference.

(* ----------------------------------------------------- programs as agents *)
Section ProgAgents.
  Variables (St Cmd Ans Key R : Type).
  Variable fp : Cmd -> option (Key -> bool).

  Inductive confined (F : Key -> bool) : prog Cmd Ans R -> Prop :=
  | conf_ret r : confined F (Ret r)
  | conf_do c k f : fp c = Some f -> (forall x, f x = true -> F x = true) ->
                    (forall a, confined F (k a)) -> confined F (Do c k).

  Lemma confined_step F p c k :
    confined F p -> prog_next p = Some (c, k) ->
    (exists f, fp c = Some f /\ forall x, f x = true -> F x = true) /\ forall a, confined F (k a).
  Proof.
    intros H E. destruct H as [r|c' k' f Hf Hs Hk]; cbn [prog_next] in E; [discriminate|].
    inversion E; subst. split; [exists f; split; assumption|exact Hk].
  Qed.

  Lemma confined_mono (F G : Key -> bool) p :
    (forall x, F x = true -> G x = true) -> confined F p -> confined G p.
  Proof.
    intros HFG H. induction H as [r|c k f Hf Hs Hk IH]; [constructor|].
    econstructor; [exact Hf| |exact IH]. intros x Hx. apply HFG, Hs, Hx.
  Qed.
End ProgAgents.

Arguments confined {Cmd Ans Key R} fp F p.

Section ThreadAgents.
  Variables (Cmd Ans Key : Type).
  Variable fp : Cmd -> option (Key -> bool).
  Variable prog_of : op -> prog Cmd Ans res.

  Definition th_confined (F : Key -> bool) (th : thread Cmd Ans) : Prop :=
    (forall o p, th_cur th = Some (o, p) -> confined fp F p) /\
    Forall (fun o => confined fp F (prog_of o)) (th_todo th).

  Lemma settle_confined F d o p todo :
    confined fp F p -> Forall (fun o => confined fp F (prog_of o)) todo ->
    th_confined F (settle d o p todo).
  Proof.
    intros Hp Ht. destruct p as [r|c k]; cbn [settle]; split; cbn [th_cur th_todo]; try assumption.
    - intros o' p' E; discriminate.
    - intros o' p' E; inversion E; subst. exact Hp.
  Qed.

  Lemma th_confined_step F th c k :
    th_confined F th -> th_next prog_of th = Some (c, k) ->
    (exists f, fp c = Some f /\ forall x, f x = true -> F x = true) /\ forall a, th_confined F (k a).
  Proof.
    intros (Hc & Ht) E. unfold th_next in E.
    destruct (th_cur th) as [[o p]|] eqn:Ec.
    - destruct p as [r|c' k']; [discriminate|]. inversion E; subst c' k.
      pose proof (Hc o _ eq_refl) as Hp. inversion Hp as [|? ? f Hf Hs Hk]; subst.
      split; [exists f; split; assumption|]. intros a. apply settle_confined; [apply Hk|exact Ht].
    - destruct (th_todo th) as [|o rest] eqn:Et; [discriminate|].
      inversion Ht as [|? ? Ho Hrest]; subst.
      destruct (prog_of o) as [r|c' k'] eqn:Ep; [discriminate|]. inversion E; subst c' k.
      inversion Ho as [|? ? f Hf Hs Hk]; subst.
      split; [exists f; split; assumption|]. intros a. apply settle_confined; [apply Hk|exact Hrest].
  Qed.

  Lemma th_start_confined F ops :
    Forall (fun o => confined fp F (prog_of o)) ops -> th_confined F (th_start ops).
  Proof. intros H. split; [intros o p E; discriminate|exact H]. Qed.
End ThreadAgents.

(* ------------------------------------------- a thread running alone *)
Section Solo.
  Variables (St Cmd Ans : Type).
  Variable exec : St -> Cmd -> St * Ans.
  Variable prog_of : op -> prog Cmd Ans res.

  Notation tstep := (astep exec (th_next prog_of)).
  Notation tsteps := (asteps exec (th_next prog_of)).

  (* An invariant of a thread run alone, in the style of a Hoare logic over
     programs: B holds between operations (as a function of the completed
     operations), and while operation o is in flight the rest of its program
     p satisfies `okrun (I d o) (Q d o)`: I before every further command, Q
     when it returns. *)
  Variable I : list (op * res) -> op -> St -> Prop.
  Variable B : list (op * res) -> St -> Prop.

  Inductive okrun (d : list (op * res)) (o : op) : St -> prog Cmd Ans res -> Prop :=
  | ok_ret s r : B (d ++ [(o, r)]) s -> okrun d o s (Ret r)
  | ok_do s c k : I d o s -> (forall s' a, exec s c = (s', a) -> okrun d o s' (k a)) -> okrun d o s (Do c k).

  Definition th_inv (todo_ok : list (op * res) -> list op -> Prop) (s : St) (th : thread Cmd Ans) : Prop :=
    todo_ok (th_done th) (match th_cur th with Some (o, _) => o :: th_todo th | None => th_todo th end) /\
    match th_cur th with
    | None => B (th_done th) s
    | Some (o, p) => okrun (th_done th) o s p /\ exists c k, p = Do c k
    end.

  Variable todo_ok : list (op * res) -> list op -> Prop.
  (* starting the next operation from a between-operations state *)
  Hypothesis start_ok : forall d o rest s,
      todo_ok d (o :: rest) -> B d s -> okrun d o s (prog_of o).
  Hypothesis todo_next : forall d o r rest, todo_ok d (o :: rest) -> todo_ok (d ++ [(o, r)]) rest.

  Lemma settle_inv d o p rest s :
    todo_ok d (o :: rest) -> okrun d o s p -> th_inv todo_ok s (settle d o p rest).
  Proof.
    intros Ht Hp. destruct p as [r|c k]; cbn [settle]; split; cbn [th_done th_cur th_todo].
    - eapply todo_next; exact Ht.
    - inversion Hp; subst; assumption.
    - exact Ht.
    - split; [exact Hp|eauto].
  Qed.

  Lemma th_inv_step s th : th_inv todo_ok s th -> th_inv todo_ok (fst (tstep s th)) (snd (tstep s th)).
  Proof.
    intros (Ht & Hc). unfold astep, th_next.
    destruct (th_cur th) as [[o p]|] eqn:Ec.
    - destruct Hc as (Hp & c & k & ->). inversion Hp as [|? ? ? Hi Hk]; subst.
      destruct (exec s c) as [s' a] eqn:Es. cbn [fst snd].
      apply settle_inv; [exact Ht|apply Hk; first [exact Es|reflexivity]].
    - destruct (th_todo th) as [|o rest] eqn:Et.
      + cbn [fst snd]. split; [rewrite Ec, Et; exact Ht|rewrite Ec; exact Hc].
      + pose proof (start_ok _ _ _ _ Ht Hc) as Hs.
        destruct (prog_of o) as [r|c k] eqn:Ep.
        * cbn [fst snd]. split; [rewrite Ec, Et; exact Ht|rewrite Ec; exact Hc].
        * inversion Hs as [|? ? ? Hi Hk]; subst.
          destruct (exec s c) as [s' a] eqn:Es. cbn [fst snd].
          apply settle_inv; [exact Ht|apply Hk; first [exact Es|reflexivity]].
  Qed.

  Lemma th_inv_steps n s th :
    th_inv todo_ok s th -> th_inv todo_ok (fst (tsteps n s th)) (snd (tsteps n s th)).
  Proof.
    revert s th; induction n as [|n IH]; intros s th H; [exact H|].
    cbn [asteps]. pose proof (th_inv_step s th H) as H'.
    destruct (tstep s th) as [s' th']. apply IH. exact H'.
  Qed.

  Lemma th_inv_start s ops : todo_ok [] ops -> B [] s -> th_inv todo_ok s (th_start ops).
  Proof. intros Ht Hb. split; [exact Ht|exact Hb]. Qed.

  (* while an operation is in flight, I holds *)
  Lemma th_inv_cur s th o p : th_inv todo_ok s th -> th_cur th = Some (o, p) -> I (th_done th) o s.
  Proof.
    intros (_ & Hc) E. rewrite E in Hc. destruct Hc as (Hp & c & k & ->).
    inversion Hp; subst; assumption.
  Qed.
End Solo.

(* --------------------------------- sequential runs and finished threads *)
Section SeqRun.
  Variables (St Cmd Ans : Type).
  Variable exec : St -> Cmd -> St * Ans.
  Variable prog_of : op -> prog Cmd Ans res.

  Fixpoint seq_run (s : St) (ops : list op) : St * list res :=
    match ops with
    | [] => (s, [])
    | o :: ops' => let (s1, x) := run exec (prog_of o) s in
                   let (s2, xs) := seq_run s1 ops' in (s2, x :: xs)
    end.

  Lemma seq_run_app s a b :
    seq_run s (a ++ b) =
    let (s1, xs) := seq_run s a in let (s2, ys) := seq_run s1 b in (s2, xs ++ ys).
  Proof.
    revert s; induction a as [|o a IH]; intros s; cbn [app seq_run].
    - destruct (seq_run s b); reflexivity.
    - destruct (run exec (prog_of o) s) as [s1 x]. rewrite IH.
      destruct (seq_run s1 a) as [s2 xs]. destruct (seq_run s2 b) as [s3 ys]. reflexivity.
  Qed.

  Lemma okrun_triv (I : list (op * res) -> op -> St -> Prop) (B : list (op * res) -> St -> Prop) d o :
    (forall s, I d o s) ->
    forall p s, B (d ++ [(o, snd (run exec p s))]) (fst (run exec p s)) -> okrun St Cmd Ans exec I B d o s p.
  Proof.
    intros HI. induction p as [r|c k IH]; intros s HB; cbn [run fst snd] in HB.
    - apply ok_ret. exact HB.
    - apply ok_do; [apply HI|]. intros s' a E. rewrite E in HB. apply IH. exact HB.
  Qed.

  Variable s0 : St.
  Variable ops : list op.
  Hypothesis starts : Forall (fun o => exists c k, prog_of o = Do c k) ops.

  Definition seqB (d : list (op * res)) (s : St) : Prop := seq_run s0 (map fst d) = (s, map snd d).
  Definition seq_todo (d : list (op * res)) (todo : list op) : Prop := map fst d ++ todo = ops.

  Lemma solo_inv n :
    th_inv St Cmd Ans exec (fun _ _ _ => True) seqB seq_todo
           (fst (asteps exec (th_next prog_of) n s0 (th_start ops)))
           (snd (asteps exec (th_next prog_of) n s0 (th_start ops))).
  Proof.
    apply (th_inv_steps St Cmd Ans exec prog_of (fun _ _ _ => True) seqB seq_todo).
    - intros d o rest s Ht Hb. apply okrun_triv; [intros; exact I|].
      unfold seqB in *. rewrite map_app, seq_run_app, Hb. cbn [map fst seq_run].
      destruct (run exec (prog_of o) s) as [s1 x]. cbn [fst snd]. rewrite map_app. reflexivity.
    - intros d o r rest Ht. unfold seq_todo in *. rewrite map_app, <- app_assoc. exact Ht.
    - apply th_inv_start; reflexivity.
  Qed.

  (* a thread that has nothing left to do has done exactly the sequential run *)
  Lemma solo_finished n s th :
    asteps exec (th_next prog_of) n s0 (th_start ops) = (s, th) -> th_next prog_of th = None ->
    map fst (th_done th) = ops /\ seq_run s0 ops = (s, map snd (th_done th)).
  Proof.
    intros E Hn. pose proof (solo_inv n) as (Ht & Hc). rewrite E in Ht, Hc. cbn [fst snd] in Ht, Hc.
    unfold th_next in Hn. destruct (th_cur th) as [[o p]|] eqn:Ec.
    - destruct Hc as (_ & c & k & ->). discriminate.
    - unfold seq_todo in Ht. destruct (th_todo th) as [|o rest] eqn:Et.
      + rewrite app_nil_r in Ht. split; [exact Ht|]. unfold seqB in Hc. rewrite Ht in Hc. exact Hc.
      + exfalso. rewrite Forall_forall in starts.
        destruct (starts o) as (c & k & Ep); [rewrite <- Ht; apply in_or_app; right; left; reflexivity|].
        rewrite Ep in Hn. discriminate.
  Qed.
End SeqRun.

(* ------------------ threads with disjoint footprints under any schedule *)
Section Interleave.
  Variables (St Cmd Ans Key L : Type).
  Variable exec : St -> Cmd -> St * Ans.
  Variable loc : St -> Key -> L.
  Variable fp : Cmd -> option (Key -> bool).
  Hypothesis exec_frame : forall s c f k,
      fp c = Some f -> f k = false -> loc (fst (exec s c)) k = loc s k.
  Hypothesis exec_local : forall s t c f,
      fp c = Some f -> (forall k, f k = true -> loc s k = loc t k) ->
      snd (exec s c) = snd (exec t c) /\
      forall k, f k = true -> loc (fst (exec s c)) k = loc (fst (exec t c)) k.
  Variable prog_of : op -> prog Cmd Ans res.

  Variable s0 : St.
  Variable specs : list ((Key -> bool) * list op).
  Hypothesis conf : Forall (fun sp => Forall (fun o => confined fp (fst sp) (prog_of o)) (snd sp)) specs.
  Hypothesis disj : forall i j spi spj k,
      i <> j -> nth_error specs i = Some spi -> nth_error specs j = Some spj ->
      fst spi k = true -> fst spj k = false.

  Theorem interleave_solo sch :
    let out := sched exec (th_next prog_of) sch s0 (map (fun sp => th_start (snd sp)) specs) in
    (forall i F ops, nth_error specs i = Some (F, ops) ->
       exists n si th, asteps exec (th_next prog_of) n s0 (th_start ops) = (si, th) /\
                       nth_error (snd out) i = Some th /\
                       forall k, F k = true -> loc (fst out) k = loc si k) /\
    (forall k, (forall i sp, nth_error specs i = Some sp -> fst sp k = false) -> loc (fst out) k = loc s0 k).
  Proof.
    intros out.
    pose proof (non_interference St Cmd Ans Key L exec loc fp exec_frame exec_local
                  (thread Cmd Ans) (th_next prog_of) (th_confined Cmd Ans Key fp prog_of)
                  (th_confined_step Cmd Ans Key fp prog_of)
                  s0 (map (fun sp => th_start (snd sp)) specs) (map fst specs)) as HNI.
    assert (A1 : forall i a F, nth_error (map (fun sp => th_start (snd sp)) specs) i = Some a ->
                               nth_error (map fst specs) i = Some F -> th_confined Cmd Ans Key fp prog_of F a).
    { intros i a F Ha HF. rewrite nth_error_map in Ha, HF.
      destruct (nth_error specs i) as [[F' ops]|] eqn:E; [|discriminate].
      cbn [option_map fst snd] in Ha, HF. inversion Ha; inversion HF; subst.
      apply th_start_confined. rewrite Forall_forall in conf.
      apply (conf (F, ops)). eapply nth_error_In; exact E. }
    assert (A2 : length (map fst specs) = length (map (fun sp => @th_start Cmd Ans (snd sp)) specs))
      by (rewrite !map_length; reflexivity).
    assert (A3 : forall i j Fi Fj k, i <> j -> nth_error (map fst specs) i = Some Fi ->
                                     nth_error (map fst specs) j = Some Fj -> Fi k = true -> Fj k = false).
    { intros i j Fi Fj k Hne Hi Hj Hk. rewrite nth_error_map in Hi, Hj.
      destruct (nth_error specs i) as [spi|] eqn:Ei; [|discriminate].
      destruct (nth_error specs j) as [spj|] eqn:Ej; [|discriminate].
      cbn [option_map] in Hi, Hj. inversion Hi; inversion Hj; subst.
      eapply disj; eassumption. }
    pose proof (HNI A1 A2 A3 sch) as H. unfold NI in H. fold out in H.
    destruct H as (_ & Hag & Hout). split.
    - intros i F ops E.
      destruct (Hag i (th_start ops) F) as (n & si & ai & R1 & R2 & _ & R4).
      + rewrite nth_error_map, E. reflexivity.
      + rewrite nth_error_map, E. reflexivity.
      + exists n, si, ai. repeat split; assumption.
    - intros k Hk. apply Hout. intros i F HF. rewrite nth_error_map in HF.
      destruct (nth_error specs i) as [sp|] eqn:E; [|discriminate]. inversion HF; subst. eapply Hk; exact E.
  Qed.
End Interleave.

(* a program run step by step: I before every command, B when it has returned *)
Section ProgSteps.
  Variables (St Cmd Ans : Type).
  Variable exec : St -> Cmd -> St * Ans.
  Variable I : list (op * res) -> op -> St -> Prop.
  Variable B : list (op * res) -> St -> Prop.

  Lemma okrun_asteps d o n : forall s p,
    okrun St Cmd Ans exec I B d o s p ->
    match snd (asteps exec prog_next n s p) with
    | Ret r => B (d ++ [(o, r)]) (fst (asteps exec prog_next n s p))
    | Do _ _ => I d o (fst (asteps exec prog_next n s p))
    end.
  Proof.
    induction n as [|n IH]; intros s p H; cbn [asteps].
    - cbn [fst snd]. destruct H; assumption.
    - unfold astep. destruct H as [s r HB|s c k HI Hk]; cbn [prog_next].
      + apply IH. apply ok_ret. exact HB.
      + destruct (exec s c) as [s' a] eqn:E. apply IH. apply Hk. reflexivity.
  Qed.
End ProgSteps.

(* ------------------------------------------------ read-only agents *)
(* Threads that only issue commands leaving the substrate unchanged (load,
   get) can be erased from any schedule: state and the other threads are what
   the schedule without their steps produces. *)
Lemma set_nth_app1 {A} i (x : A) l1 l2 : (i < length l1)%nat -> set_nth i x (l1 ++ l2) = set_nth i x l1 ++ l2.
Proof.
  revert i; induction l1 as [|y l1 IH]; intros i H; cbn [length] in H; [lia|].
  destruct i; cbn [app set_nth]; [reflexivity|rewrite IH by lia; reflexivity].
Qed.

Lemma set_nth_app2 {A} i (x : A) l1 l2 : (length l1 <= i)%nat -> set_nth i x (l1 ++ l2) = l1 ++ set_nth (i - length l1) x l2.
Proof.
  revert i; induction l1 as [|y l1 IH]; intros i H; cbn [length app].
  - rewrite Nat.sub_0_r. reflexivity.
  - cbn [length] in H. destruct i; [lia|]. cbn [set_nth Nat.sub]. rewrite IH by lia. reflexivity.
Qed.

Lemma Forall_set_nth {A} (P : A -> Prop) i x l : P x -> Forall P l -> Forall P (set_nth i x l).
Proof.
  intros Hx H; revert i; induction H as [|y l Hy Hl IH]; intros i; [destruct i; constructor|].
  destruct i; cbn [set_nth]; constructor; auto.
Qed.

Section Readers.
  Variables (St Cmd Ans : Type).
  Variable exec : St -> Cmd -> St * Ans.
  Variable Ag : Type.
  Variable next : Ag -> option (Cmd * (Ans -> Ag)).
  Variable ro : Ag -> Prop.
  Hypothesis ro_step : forall a c k, ro a -> next a = Some (c, k) ->
      (forall s, fst (exec s c) = s) /\ forall ans, ro (k ans).

  Lemma readers_erase sch : forall s owners readers,
    Forall ro readers ->
    exists readers', Forall ro readers' /\ length readers' = length readers /\
      sched exec next sch s (owners ++ readers) =
      (fst (sched exec next (filter (fun i => Nat.ltb i (length owners)) sch) s owners),
       snd (sched exec next (filter (fun i => Nat.ltb i (length owners)) sch) s owners) ++ readers').
  Proof.
    induction sch as [|i sch IH]; intros s owners readers Hro; cbn [filter sched].
    - exists readers. split; [exact Hro|]. split; reflexivity.
    - destruct (Nat.ltb i (length owners)) eqn:Ei.
      + apply Nat.ltb_lt in Ei. cbn [sched]. rewrite nth_error_app1 by exact Ei.
        destruct (nth_error owners i) as [a|] eqn:Ea; [|apply nth_error_None in Ea; lia].
        destruct (astep exec next s a) as [s' a'].
        rewrite set_nth_app1 by exact Ei.
        destruct (IH s' (set_nth i a' owners) readers Hro) as (rs & H1 & H2 & H3).
        rewrite length_set_nth in H3. exists rs. repeat split; assumption.
      + apply Nat.ltb_ge in Ei. rewrite nth_error_app2 by exact Ei.
        destruct (nth_error readers (i - length owners)) as [a|] eqn:Ea; [|apply IH; exact Hro].
        assert (Ha : ro a) by (rewrite Forall_forall in Hro; apply Hro; eapply nth_error_In; exact Ea).
        unfold astep. destruct (next a) as [[c k]|] eqn:En.
        * destruct (ro_step a c k Ha En) as [Hs Hk]. specialize (Hs s).
          destruct (exec s c) as [s' ans]. cbn [fst] in Hs. subst s'.
          rewrite set_nth_app2 by exact Ei.
          destruct (IH s owners (set_nth (i - length owners) (k ans) readers)) as (rs & H1 & H2 & H3).
          { apply Forall_set_nth; [apply Hk|exact Hro]. }
          rewrite length_set_nth in H2. exists rs. repeat split; assumption.
        * rewrite set_nth_app2 by exact Ei.
          destruct (IH s owners (set_nth (i - length owners) a readers)) as (rs & H1 & H2 & H3).
          { apply Forall_set_nth; assumption. }
          rewrite length_set_nth in H2. exists rs. repeat split; assumption.
  Qed.
End Readers.

Section ReadOnlyProgs.
  Variables (St Cmd Ans : Type).
  Variable exec : St -> Cmd -> St * Ans.
  Variable prog_of : op -> prog Cmd Ans res.

  Inductive ro_prog : prog Cmd Ans res -> Prop :=
  | rop_ret r : ro_prog (Ret r)
  | rop_do c k : (forall s, fst (exec s c) = s) -> (forall a, ro_prog (k a)) -> ro_prog (Do c k).

  Lemma ro_prog_run p s : ro_prog p -> fst (run exec p s) = s.
  Proof.
    induction 1 as [r|c k Hc Hk IH]; cbn [run]; [reflexivity|].
    specialize (Hc s). destruct (exec s c) as [s' a]. cbn [fst] in Hc. subst s'. apply IH.
  Qed.

  Definition th_ro (th : thread Cmd Ans) : Prop :=
    (forall o p, th_cur th = Some (o, p) -> ro_prog p) /\
    Forall (fun o => ro_prog (prog_of o)) (th_todo th).

  Lemma settle_ro d o p todo : ro_prog p -> Forall (fun o => ro_prog (prog_of o)) todo -> th_ro (settle d o p todo).
  Proof.
    intros Hp Ht. destruct p as [r|c k]; cbn [settle]; split; cbn [th_cur th_todo]; try assumption.
    - intros o' p' E; discriminate.
    - intros o' p' E; inversion E; subst. exact Hp.
  Qed.

  Lemma th_ro_step th c k :
    th_ro th -> th_next prog_of th = Some (c, k) -> (forall s, fst (exec s c) = s) /\ forall a, th_ro (k a).
  Proof.
    intros (Hc & Ht) E. unfold th_next in E.
    destruct (th_cur th) as [[o p]|] eqn:Ec.
    - destruct p as [r|c' k']; [discriminate|]. inversion E; subst c' k.
      pose proof (Hc o _ eq_refl) as Hp. inversion Hp as [|? ? H1 H2]; subst.
      split; [exact H1|]. intros a. apply settle_ro; [apply H2|exact Ht].
    - destruct (th_todo th) as [|o rest] eqn:Et; [discriminate|].
      inversion Ht as [|? ? Ho Hrest]; subst.
      destruct (prog_of o) as [r|c' k'] eqn:Ep; [discriminate|]. inversion E; subst c' k.
      inversion Ho as [|? ? H1 H2]; subst.
      split; [exact H1|]. intros a. apply settle_ro; [apply H2|exact Hrest].
  Qed.

  Lemma th_start_ro ops : Forall (fun o => ro_prog (prog_of o)) ops -> th_ro (th_start ops).
  Proof. intros H. split; [intros o p E; discriminate|exact H]. Qed.

  Lemma sched_length sc : forall s (ths : list (thread Cmd Ans)),
    length (snd (sched exec (th_next prog_of) sc s ths)) = length ths.
  Proof.
    induction sc as [|i sc IH]; intros s ths; cbn [sched snd]; [reflexivity|].
    destruct (nth_error ths i) as [a|]; [|apply IH].
    destruct (astep exec (th_next prog_of) s a) as [s' a']. rewrite IH, length_set_nth. reflexivity.
  Qed.

  (* reader threads are invisible to everybody else, under every schedule *)
  Theorem readers_invisible sch s (owners : list (thread Cmd Ans)) (reader_ops : list (list op)) :
    Forall (Forall (fun o => ro_prog (prog_of o))) reader_ops ->
    let own_sch := filter (fun i => Nat.ltb i (length owners)) sch in
    fst (sched exec (th_next prog_of) sch s (owners ++ map th_start reader_ops)) =
      fst (sched exec (th_next prog_of) own_sch s owners) /\
    firstn (length owners) (snd (sched exec (th_next prog_of) sch s (owners ++ map th_start reader_ops))) =
      snd (sched exec (th_next prog_of) own_sch s owners).
  Proof.
    intros Hro own_sch.
    destruct (readers_erase St Cmd Ans exec (thread Cmd Ans) (th_next prog_of) th_ro th_ro_step sch s owners
                (map th_start reader_ops)) as (rs & _ & _ & E).
    { rewrite Forall_map. eapply Forall_impl; [|exact Hro]. intros ops H. apply th_start_ro. exact H. }
    fold own_sch in E. rewrite E. cbn [fst snd]. split; [reflexivity|].
    assert (L : length (snd (sched exec (th_next prog_of) own_sch s owners)) = length owners).
    { apply sched_length. }
    rewrite <- L, firstn_app, firstn_all, Nat.sub_diag. cbn [firstn]. apply app_nil_r.
  Qed.
End ReadOnlyProgs.
