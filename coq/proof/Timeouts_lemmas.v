(* C14 -- proofs about model/Timeouts.v (table independent; the obligations over the
   regenerated table are discharged in prop/C14.v by vm_compute). *)
From Coq Require Import List NArith Bool String Lia ZifyBool ZifyN.
From SV Require Import lib.Bytes model.Timeouts.
Import ListNotations.
Open Scope N_scope.

(* ================================================================= server *)

Definition open_ev (e : event) : Prop := ev_time e <> None.

Lemma anchor_from_app : forall pre1 pre2 a,
  anchor_from a (pre1 ++ pre2) = anchor_from (anchor_from a pre1) pre2.
Proof. intros. unfold anchor_from. apply fold_left_app. Qed.

Lemma phase_from_app : forall pre1 pre2 p,
  phase_from p (pre1 ++ pre2) = phase_from (phase_from p pre1) pre2.
Proof. intros. unfold phase_from. apply fold_left_app. Qed.

Definition at_time (t : N) (e : event) : Prop := ev_time e = Some t.

Lemma at_time_open : forall t evs, Forall (at_time t) evs -> Forall open_ev evs.
Proof.
  intros t evs H. induction H as [|e l He Hl IH]; constructor; auto.
  unfold open_ev, at_time in *. congruence.
Qed.

Lemma anchor_at_time : forall t evs a,
  Forall (at_time t) evs -> evs <> [] -> anchor_from a evs = t.
Proof.
  intros t evs. induction evs as [|e l IH]; intros a H Hne; [congruence|].
  inversion H as [|e' l' He Hl]; subst.
  unfold anchor_from. cbn [fold_left]. unfold at_time in He. rewrite He.
  destruct l as [|e2 l2]; [reflexivity|].
  apply (IH t Hl). discriminate.
Qed.

Section ServerProofs.
  Variable S : Type.
  Variable interp : S -> bytes -> S * action.
  Variable data_done : S -> S.

  Let sst := sst S.
  Let step_byte := step_byte S interp data_done.
  Let feed := feed S interp data_done.
  Let run := run S interp data_done.

  (* what one byte does *)
  Lemma step_byte_spec : forall now (st : sst) b st' evs closed,
    step_byte now st b = (st', evs, closed) ->
    (closed = false ->
       Forall (at_time now) evs /\ armed st' = anchor_from (armed st) evs
       /\ ph st' = phase_from (ph st) evs)
    /\ (closed = true -> evs = [EClosed now WQuit] /\ ph st = PCmd).
  Proof.
    intros now st b st' evs closed H.
    unfold step_byte, Timeouts.step_byte in H.
    destruct (b =? 10) eqn:Hb.
    - destruct (ph st) eqn:Hph.
      + destruct (interp (ist st) (strip_cr (rev (rcur st)))) as [s' a] eqn:Hi.
        destruct a; inversion H; subst; clear H; split; intro Hc; try discriminate.
        * repeat split; try reflexivity. repeat constructor.
        * repeat split; try reflexivity. repeat constructor.
        * split; reflexivity.
      + destruct (is_eod (rev (rcur st))) eqn:He; inversion H; subst; clear H;
          (split; intro Hc; [|discriminate]).
        * repeat split; try reflexivity. repeat constructor.
        * cbn. repeat split; constructor.
    - inversion H; subst; clear H. split; intro Hc; [|discriminate].
      cbn. repeat split; constructor.
  Qed.

  Lemma feed_spec : forall now bs (st : sst) st' evs closed,
    feed now st bs = (st', evs, closed) ->
    (closed = false ->
       Forall (at_time now) evs /\ armed st' = anchor_from (armed st) evs
       /\ ph st' = phase_from (ph st) evs)
    /\ (closed = true ->
          exists pre, evs = pre ++ [EClosed now WQuit] /\ Forall (at_time now) pre
                      /\ phase_from (ph st) pre = PCmd).
  Proof.
    intros now bs. induction bs as [|b bs IH]; intros st st' evs closed H.
    - cbn in H. inversion H; subst. split; intro Hc; [|discriminate].
      cbn. repeat split; constructor.
    - unfold feed in H. cbn [Timeouts.feed] in H.
      fold (step_byte now st b) in H.
      destruct (step_byte now st b) as [[st1 ev1] c1] eqn:Hs.
      apply step_byte_spec in Hs. destruct Hs as [Hs0 Hs1].
      destruct c1.
      + inversion H; subst; clear H. split; intro Hc; [discriminate|].
        destruct (Hs1 eq_refl) as [He Hp]. subst evs.
        exists []. cbn. repeat split; auto.
      + destruct (Hs0 eq_refl) as [Ht1 [Ha1 Hp1]].
        fold (feed now st1 bs) in H.
        destruct (feed now st1 bs) as [[st2 ev2] c2] eqn:Hf.
        inversion H; subst; clear H.
        apply IH in Hf. destruct Hf as [Hf0 Hf1].
        split; intro Hc.
        * destruct (Hf0 Hc) as [Ht2 [Ha2 Hp2]].
          repeat split.
          -- apply Forall_app; split; assumption.
          -- rewrite anchor_from_app, <- Ha1. exact Ha2.
          -- rewrite phase_from_app, <- Hp1. exact Hp2.
        * destruct (Hf1 Hc) as [pre [He [Htp Hpp]]].
          exists (ev1 ++ pre). repeat split.
          -- rewrite He. apply app_assoc.
          -- apply Forall_app; split; assumption.
          -- rewrite phase_from_app, <- Hp1. exact Hpp.
  Qed.

  Lemma limit_some : forall Tc dcfg p,
    exists l, limit_of {| c_cmd := Some Tc; c_data := dcfg |} p = Some l.
  Proof.
    intros Tc dcfg p. destruct p; cbn.
    - eauto.
    - unfold eff_data. cbn. destruct dcfg as [d|]; [destruct (d =? 0)|]; eauto.
  Qed.

  (* the session always ends, with one closing event, no later than the limit of its
     last phase after its last completed step *)
  Lemma run_spec : forall Tc dcfg input now (st : sst),
    let cfg := {| c_cmd := Some Tc; c_data := dcfg |} in
    exists pre t w l,
      run cfg now st input = pre ++ [EClosed t w]
      /\ Forall open_ev pre
      /\ limit_of cfg (phase_from (ph st) pre) = Some l
      /\ t <= anchor_from (armed st) pre + l
      /\ (w = WTimeout -> t = anchor_from (armed st) pre + l).
  Proof.
    intros Tc dcfg input. cbv zeta.
    induction input as [|[dl ch] rest IH]; intros now st.
    - destruct (limit_some Tc dcfg (ph st)) as [l Hl].
      unfold run. cbn [Timeouts.run]. unfold deadline. rewrite Hl.
      exists [], (armed st + l), WTimeout, l. cbn. repeat split; auto. lia.
    - destruct (limit_some Tc dcfg (ph st)) as [l Hl].
      unfold run. cbn [Timeouts.run]. unfold deadline. rewrite Hl.
      destruct (armed st + l <=? now + dl) eqn:Hexp.
      + exists [], (armed st + l), WTimeout, l. cbn. repeat split; auto. lia.
      + destruct ch as [|c0 ch'].
        * exists [], (now + dl), WEof, l. cbn. repeat split; auto; [lia|discriminate].
        * fold (feed (now + dl) st (c0 :: ch')).
          destruct (feed (now + dl) st (c0 :: ch')) as [[st' evs] closed] eqn:Hf.
          apply feed_spec in Hf. destruct Hf as [Hf0 Hf1].
          destruct closed.
          -- destruct (Hf1 eq_refl) as [pre [He [Htp Hpp]]].
             destruct (limit_some Tc dcfg PCmd) as [l' Hl'].
             exists pre, (now + dl), WQuit, l'. rewrite Hpp.
             repeat split; auto.
             ++ eapply at_time_open; eassumption.
             ++ destruct pre as [|e0 pre0].
                ** cbn. cbn in Hpp. rewrite Hpp in Hl. rewrite Hl in Hl'.
                   inversion Hl'; subst. lia.
                ** rewrite (anchor_at_time (now + dl) (e0 :: pre0)); auto; [lia|discriminate].
             ++ discriminate.
          -- destruct (Hf0 eq_refl) as [Ht [Ha Hp]].
             fold (run {| c_cmd := Some Tc; c_data := dcfg |} (now + dl) st' rest).
             destruct (IH (now + dl) st') as [pre [t [w [l2 [Hr [Ho [Hl2 [Hle Heq]]]]]]]].
             exists (evs ++ pre), t, w, l2.
             repeat split.
             ++ rewrite Hr. apply app_assoc.
             ++ apply Forall_app; split; [eapply at_time_open; eassumption|assumption].
             ++ rewrite phase_from_app, <- Hp. exact Hl2.
             ++ rewrite anchor_from_app, <- Ha. exact Hle.
             ++ rewrite anchor_from_app, <- Ha. exact Heq.
  Qed.

  Lemma server_bound : forall (s0 : S) Tc dcfg input,
    let cfg := {| c_cmd := Some Tc; c_data := dcfg |} in
    exists pre t w l,
      run_server S interp data_done cfg s0 input = pre ++ [EClosed t w]
      /\ Forall open_ev pre
      /\ limit_of cfg (phase_from PCmd pre) = Some l
      /\ t <= anchor_from 0 pre + l
      /\ (w = WTimeout -> t = anchor_from 0 pre + l).
  Proof.
    intros s0 Tc dcfg input. cbv zeta. unfold run_server.
    exact (run_spec Tc dcfg input 0 (mk_sst PCmd [] 0 s0)).
  Qed.

  (* a peer that trickles bytes but never finishes a line: however the bytes are
     timed, the session is closed with 421 exactly command_timeout after it began *)
  Definition no_lf (ch : bytes) : Prop := ch <> [] /\ Forall (fun b => (b =? 10) = false) ch.

  Lemma feed_no_lf : forall now ch (st : sst),
    Forall (fun b => (b =? 10) = false) ch ->
    exists r, feed now st ch = (mk_sst (ph st) r (armed st) (ist st), [], false).
  Proof.
    intros now ch. induction ch as [|b ch IH]; intros st H.
    - exists (rcur st). destruct st; reflexivity.
    - inversion H as [|b' ch' Hb Hch]; subst.
      unfold feed. cbn [Timeouts.feed]. unfold Timeouts.step_byte. rewrite Hb.
      destruct (IH (mk_sst (ph st) (b :: rcur st) (armed st) (ist st)) Hch) as [r Hr].
      unfold feed in Hr. rewrite Hr. cbn. eauto.
  Qed.

  Lemma run_no_line : forall Tc dcfg input now (st : sst),
    ph st = PCmd -> Forall (fun dc => no_lf (snd dc)) input ->
    run {| c_cmd := Some Tc; c_data := dcfg |} now st input = [EClosed (armed st + Tc) WTimeout].
  Proof.
    intros Tc dcfg input. induction input as [|[dl ch] rest IH]; intros now st Hph H.
    - unfold run. cbn [Timeouts.run]. unfold deadline. rewrite Hph. reflexivity.
    - inversion H as [|x l Hx Hl]; subst. destruct Hx as [Hne Hlf]. cbn [snd] in *.
      unfold run. cbn [Timeouts.run]. unfold deadline. rewrite Hph. cbn [limit_of c_cmd].
      destruct (armed st + Tc <=? now + dl); [reflexivity|].
      destruct ch as [|c0 ch']; [congruence|].
      destruct (feed_no_lf (now + dl) (c0 :: ch') st Hlf) as [r Hr].
      unfold feed in Hr. rewrite Hr.
      fold (run {| c_cmd := Some Tc; c_data := dcfg |} (now + dl)
                (mk_sst (ph st) r (armed st) (ist st)) rest).
      rewrite (IH (now + dl) (mk_sst (ph st) r (armed st) (ist st)) Hph Hl). reflexivity.
  Qed.

  Lemma server_no_line : forall (s0 : S) Tc dcfg input,
    Forall (fun dc => no_lf (snd dc)) input ->
    run_server S interp data_done {| c_cmd := Some Tc; c_data := dcfg |} s0 input
    = [EClosed Tc WTimeout].
  Proof.
    intros s0 Tc dcfg input H. unfold run_server.
    exact (run_no_line Tc dcfg input 0 (mk_sst PCmd [] 0 s0) eq_refl H).
  Qed.
End ServerProofs.

(* hypotheses are satisfiable / the model does something: EHLO, MAIL, RCPT, DATA, then a
   body trickled one byte per 90 units with data_timeout 100: closed 100 after DATA began,
   although no gap between two bytes ever reached the timeout *)
Example server_data_trickle :
  smtp_run {| c_cmd := Some 100; c_data := None |}
    [(10, [69;72;76;79;32;120;13;10]);                               (* EHLO x *)
     (10, [77;65;73;76;32;70;82;79;77;58;60;97;62;13;10]);           (* MAIL FROM:<a> *)
     (10, [82;67;80;84;32;84;79;58;60;98;62;13;10]);                 (* RCPT TO:<b> *)
     (10, [68;65;84;65;13;10]);                                      (* DATA *)
     (90, [97]); (90, [98]); (90, [99])]
  = [ECmd 10; ECmd 20; ECmd 30; EDataBegin 40; EClosed 140 WTimeout].
Proof. vm_compute. reflexivity. Qed.

Example server_no_line_example :
  no_lf [72] /\
  smtp_run {| c_cmd := Some 100; c_data := Some 500 |} [(90, [72]); (90, [69]); (90, [76])]
  = [EClosed 100 WTimeout].
Proof. split; [split; [discriminate|repeat constructor]|vm_compute; reflexivity]. Qed.

(* ================================================================= client *)

Lemma attempt_bound : forall cfg stages i now ds,
  forallb (stage_guarded cfg) stages = true ->
  match run_attempt cfg i now stages ds with
  | CDone t | CTimedOut _ t => t <= now + sum_limits cfg stages
  | CStuck _ => False
  end.
Proof.
  intros cfg stages. induction stages as [|s ss IH]; intros i now ds H.
  - cbn. lia.
  - cbn [forallb] in H. apply andb_true_iff in H. destruct H as [Hs Hss].
    unfold stage_guarded in Hs.
    cbn [run_attempt sum_limits fold_right].
    fold (sum_limits cfg ss).
    destruct (take_wait (cs_waits s) ds) as [wt ds'].
    destruct (scope_limit cfg (cs_scope s)) as [T|]; [|discriminate].
    destruct wt as [x|].
    + destruct (x <? T) eqn:Hx.
      * specialize (IH (Datatypes.S i) (now + x) ds' Hss).
        destruct (run_attempt cfg (Datatypes.S i) (now + x) ss ds'); first [lia | exact IH].
      * lia.
    + lia.
Qed.

(* the guard hypothesis is necessary: a stage outside every scope whose awaited reply
   never comes blocks for ever, whatever follows *)
Lemma attempt_unguarded_stuck : forall cfg s post i now ds,
  scope_limit cfg (cs_scope s) = None -> cs_waits s <> O ->
  run_attempt cfg i now (s :: post) (None :: ds) = CStuck i.
Proof.
  intros cfg s post i now ds Hs Hw. cbn [run_attempt].
  destruct (cs_waits s) as [|w]; [congruence|]. cbn [take_wait]. rewrite Hs. reflexivity.
Qed.

Lemma sum_limits_app : forall cfg a b,
  sum_limits cfg (a ++ b) = sum_limits cfg a + sum_limits cfg b.
Proof.
  intros cfg a b. induction a as [|s a IH]; [reflexivity|].
  cbn [app]. unfold sum_limits in *. cbn [fold_right]. rewrite IH.
  destruct (scope_limit cfg (cs_scope s)); lia.
Qed.

Lemma sum_limits_repeat : forall cfg s n T,
  scope_limit cfg (cs_scope s) = Some T ->
  sum_limits cfg (repeat s n) = N.of_nat n * T.
Proof.
  intros cfg s n T H. induction n as [|n IH]; [reflexivity|].
  cbn [repeat]. unfold sum_limits in *. cbn [fold_right]. rewrite H, IH. lia.
Qed.

Lemma forallb_guarded_app : forall cfg a b,
  forallb (stage_guarded cfg) (a ++ b) = forallb (stage_guarded cfg) a && forallb (stage_guarded cfg) b.
Proof. intros. apply forallb_app. Qed.

Lemma texpr_eqb_eq : forall a b, texpr_eqb a b = true -> a = b.
Proof.
  intros a b H. destruct a, b; try discriminate; try reflexivity.
  cbn in H. apply String.eqb_eq in H. subst. reflexivity.
Qed.

Definition expected_scope (m : string) : option texpr :=
  match find (fun me => String.eqb (fst me) m) expected_scopes with
  | Some me => Some (snd me)
  | None => None
  end.

Definition ideal_stages (a : acfg) : list cstage :=
  map (fun mw => mk_cstage (expected_scope (fst mw)) (snd mw)) (attempt_path a).

Lemma path_methods_expected : forall a mw,
  In mw (attempt_path a) -> exists e, In (fst mw, e) expected_scopes.
Proof.
  intros a mw H. unfold attempt_path in H.
  assert (K : forall m, In m (map fst expected_scopes) -> exists e, In (m, e) expected_scopes).
  { intros m Hm. apply in_map_iff in Hm. destruct Hm as [[m' e] [Hf Hi]]. cbn in Hf. subst.
    exists e. exact Hi. }
  apply K. clear K.
  repeat (apply in_app_or in H; destruct H as [H|H]);
    repeat match goal with
           | H : In _ (if ?c then _ else _) |- _ => destruct c
           | H : In _ (repeat _ _) |- _ => apply repeat_spec in H; subst
           | H : In _ (_ :: _) |- _ => destruct H as [H|H]; [subst|]
           | H : In _ [] |- _ => destruct H
           end; cbn; tauto.
Qed.

Lemma stages_of_ideal : forall tbl a,
  path_scopes_ok tbl (client_class a) = true -> stages_of tbl a = ideal_stages a.
Proof.
  intros tbl a H. unfold stages_of, ideal_stages. apply map_ext_in. intros mw Hin.
  f_equal.
  destruct (path_methods_expected a mw Hin) as [e He].
  unfold path_scopes_ok in H. rewrite forallb_forall in H.
  specialize (H (fst mw, e) He). cbn [fst snd] in H.
  destruct (method_scope tbl (client_class a) (fst mw)) as [e'|]; [|discriminate].
  apply texpr_eqb_eq in H. subst e'.
  (* expected_scope (fst mw) = Some e: keys of expected_scopes are distinct *)
  unfold expected_scopes in He. cbn [In] in He.
  repeat (destruct He as [He|He]; [inversion He as [[Hm Hee]]; reflexivity|]).
  destruct He.
Qed.

Lemma ideal_guarded : forall cfg a, forallb (stage_guarded cfg) (ideal_stages a) = true.
Proof.
  intros cfg a. unfold ideal_stages, attempt_path.
  rewrite !map_app, !forallb_guarded_app.
  destruct (a_tls_immediately a), (a_starttls a), (a_auth a), (a_reject a), (a_helo a); cbn;
    rewrite ?andb_true_r; try reflexivity;
    (induction (a_nrcpt a) as [|n IHn]; [reflexivity|cbn; exact IHn]).
Qed.

Lemma map_repeat' : forall {A B} (f : A -> B) x n, map f (repeat x n) = repeat (f x) n.
Proof. intros A B f x n. induction n as [|n IH]; [reflexivity|cbn; rewrite IH; reflexivity]. Qed.

Lemma ideal_sum : forall cfg a, sum_limits cfg (ideal_stages a) = attempt_limit cfg a.
Proof.
  intros cfg a. destruct a as [ti st au pi lm rj n he].
  unfold attempt_limit. remember (N.of_nat (n_command_stages _)) as K eqn:HK.
  unfold n_command_stages in HK.
  unfold ideal_stages, attempt_path.
  cbn [a_tls_immediately a_starttls a_auth a_pipelining a_lmtp a_reject a_nrcpt a_helo] in *.
  rewrite !map_app, !sum_limits_app, map_repeat'.
  rewrite (sum_limits_repeat cfg _ n (t_command cfg)) by reflexivity.
  destruct ti, st, au, rj, he; cbn [andb negb] in HK; cbn; lia.
Qed.

(* the delivery attempt of the relay client, with the scopes read from a table that
   passes path_scopes_ok, returns within connect + #command stages * command + data *)
Lemma client_bound_of_table : forall tbl a cfg ds,
  path_scopes_ok tbl (client_class a) = true ->
  match run_attempt cfg 0 0 (stages_of tbl a) ds with
  | CDone t | CTimedOut _ t => t <= attempt_limit cfg a
  | CStuck _ => False
  end.
Proof.
  intros tbl a cfg ds H. rewrite (stages_of_ideal tbl a H).
  pose proof (attempt_bound cfg (ideal_stages a) 0 0 ds (ideal_guarded cfg a)) as B.
  rewrite ideal_sum in B.
  destruct (run_attempt cfg 0 0 (ideal_stages a) ds); first [lia | exact B].
Qed.

(* configuration: an omitted data_timeout falls back to the command timeout *)
Lemma eff_data_fallback : forall u r,
  r_data r = None -> t_data (eff_ccfg u r) = t_command (eff_ccfg u r).
Proof. intros u r H. unfold eff_ccfg. cbn. rewrite H. reflexivity. Qed.

Example fallback_chain_examples :
  chain_ok ["data_timeout"; "command_timeout"]%string = true
  /\ chain_ok ["data_timeout"]%string = false
  /\ timeouts_have_fallback [mk_site "C" "_send" "send_data" KExchange (Some (TData, 1)) 2]
                            [("C"%string, TData, ["data_timeout"%string])] = false.
Proof. vm_compute. repeat split; reflexivity. Qed.

(* examples: the hypotheses are satisfiable by non-trivial values *)
Definition ex_cfg : ccfg := {| t_connect := 50; t_command := 100; t_data := 300; t_single := 0 |}.
Definition ex_acfg : acfg := mk_acfg false false false true false false 2 false.

Example attempt_bound_example :
  forallb (stage_guarded ex_cfg) (ideal_stages ex_acfg) = true
  /\ List.length (ideal_stages ex_acfg) = 8%nat
  /\ run_attempt ex_cfg 0 0 (ideal_stages ex_acfg)
       [Some 1; Some 2; Some 3; Some 30; Some 30; Some 30; None] = CTimedOut 6 106.
Proof. vm_compute. repeat split; reflexivity. Qed.

(* D18 as it was: _send_message_data with its _flush_pipeline outside the scope has no
   common scope; with PIPELINING the end-of-data reply is awaited there *)
Example attempt_unguarded_example :
  run_attempt ex_cfg 0 0
    (firstn 7 (ideal_stages ex_acfg) ++ [mk_cstage None 1])
    [Some 1; Some 2; Some 3; Some 30; Some 30; Some 30; Some 5; None] = CStuck 7.
Proof. vm_compute. reflexivity. Qed.

(* ================================================================= table *)

(* a miniature table: a helper with an unscoped blocking call is guarded iff every call
   path to it passes through a scope *)
Definition mini_ok : list site :=
  [mk_site "P" "attempt" "_try" KCall None 1;
   mk_site "P" "_try" "_exec" KCall (Some (TSingle, 2)) 3;
   mk_site "P" "_exec" "communicate" KProc None 4].
Definition mini_bad : list site :=
  mini_ok ++ [mk_site "P" "attempt" "_exec" KCall None 5].

Example mini_ok_guarded : all_guarded [] mini_ok = true /\ method_scope mini_ok "P" "_exec" = Some TSingle.
Proof. vm_compute. split; reflexivity. Qed.

Example mini_bad_unguarded :
  map s_callee (unguarded mini_bad) = ["communicate"%string]
  /\ all_guarded [] mini_bad = false
  /\ all_guarded [("_exec"%string, "communicate"%string)] mini_bad = true.
Proof. vm_compute. repeat split; reflexivity. Qed.

(* a wait inside a handler that catches Timeout is not bounded by the scope around the
   `try` nor by the caller's scope (seeded change C14-3: p.wait() after the timer fired) *)
Definition mini_expired : list site :=
  [mk_site "P" "attempt" "_try" KCall None 1;
   mk_site "P" "_try" "_exec" KCall (Some (TSingle, 2)) 3;
   mk_site "P" "_exec" "communicate" KProc None 4;
   mk_site "P" "_exec" "wait" KProc (Some (TExpired, 5)) 6].

Example mini_expired_unguarded :
  map s_callee (unguarded mini_expired) = ["wait"%string]
  /\ method_scope mini_expired "P" "_exec" = None.
Proof. vm_compute. split; reflexivity. Qed.

(* a scope whose expression is not a configured timeout does not guard *)
Example literal_timeout_is_no_guard :
  all_guarded [] [mk_site "C" "_run" "get_banner" KExchange (Some (TOther "None", 1)) 2] = false.
Proof. vm_compute. reflexivity. Qed.
