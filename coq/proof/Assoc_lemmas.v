(* Lemmas about lib/Assoc.v. *)
From Coq Require Import List Bool.
From SV Require Import lib.Assoc.
Import ListNotations.

Section AssocLemmas.
  Variables (K V : Type).
  Variable keqb : K -> K -> bool.
  Hypothesis keqb_eq : forall a b, keqb a b = true <-> a = b.

  Lemma keqb_refl a : keqb a a = true.
  Proof. apply keqb_eq. reflexivity. Qed.

  Lemma keqb_neq a b : a <> b -> keqb a b = false.
  Proof. intros H. destruct (keqb a b) eqn:E; [apply keqb_eq in E; contradiction|reflexivity]. Qed.

  Lemma keqb_false a b : keqb a b = false -> a <> b.
  Proof. intros E ->. rewrite keqb_refl in E. discriminate. Qed.

  Lemma keq_dec (a b : K) : {a = b} + {a <> b}.
  Proof. destruct (keqb a b) eqn:E; [left; apply keqb_eq; exact E|right; apply keqb_false; exact E]. Qed.

  Notation lookup := (alookup keqb).
  Notation del := (adel keqb).
  Notation set := (aset keqb).
  Notation mem := (amem keqb).

  Lemma lookup_del_same (m : amap K V) k : lookup (del m k) k = None.
  Proof.
    induction m as [|[k' v] m IH]; [reflexivity|]. cbn [adel].
    destruct (keqb k' k) eqn:E; [exact IH|]. cbn [alookup]. rewrite E. exact IH.
  Qed.

  Lemma lookup_del_other (m : amap K V) k j : k <> j -> lookup (del m k) j = lookup m j.
  Proof.
    intros Hn. induction m as [|[k' v] m IH]; [reflexivity|]. cbn [adel alookup].
    destruct (keqb k' k) eqn:E.
    - apply keqb_eq in E. subst k'. rewrite (keqb_neq _ _ Hn). exact IH.
    - cbn [alookup]. destruct (keqb k' j); [reflexivity|exact IH].
  Qed.

  Lemma lookup_set_same (m : amap K V) k v : lookup (set m k v) k = Some v.
  Proof. unfold aset. cbn [alookup]. rewrite keqb_refl. reflexivity. Qed.

  Lemma lookup_set_other (m : amap K V) k j v : k <> j -> lookup (set m k v) j = lookup m j.
  Proof. intros Hn. unfold aset. cbn [alookup]. rewrite (keqb_neq _ _ Hn). apply lookup_del_other. exact Hn. Qed.

  Lemma lookup_set (m : amap K V) k j v :
    lookup (set m k v) j = if keqb k j then Some v else lookup m j.
  Proof.
    destruct (keqb k j) eqn:E.
    - apply keqb_eq in E. subst. apply lookup_set_same.
    - apply lookup_set_other. apply keqb_false. exact E.
  Qed.

  Lemma lookup_del (m : amap K V) k j :
    lookup (del m k) j = if keqb k j then None else lookup m j.
  Proof.
    destruct (keqb k j) eqn:E.
    - apply keqb_eq in E. subst. apply lookup_del_same.
    - apply lookup_del_other. apply keqb_false. exact E.
  Qed.

  Lemma mem_lookup (m : amap K V) k : mem m k = true <-> lookup m k <> None.
  Proof. unfold amem. destruct (lookup m k); split; intros H; try reflexivity; try discriminate; congruence. Qed.

  Lemma mem_false_lookup (m : amap K V) k : mem m k = false <-> lookup m k = None.
  Proof. unfold amem. destruct (lookup m k); split; intros H; try reflexivity; discriminate. Qed.

  Lemma lookup_in_keys (m : amap K V) k : lookup m k <> None <-> In k (akeys m).
  Proof.
    induction m as [|[k' v] m IH]; cbn [alookup akeys map fst In].
    - split; [congruence|intros []].
    - destruct (keqb k' k) eqn:E.
      + apply keqb_eq in E. subst. split; [left; reflexivity|discriminate].
      + rewrite IH. split; [right; assumption|].
        intros [->|H]; [rewrite keqb_refl in E; discriminate|exact H].
  Qed.

  Lemma lookup_In (m : amap K V) k v : lookup m k = Some v -> In (k, v) m.
  Proof.
    induction m as [|[k' v'] m IH]; cbn [alookup]; [discriminate|].
    destruct (keqb k' k) eqn:E.
    - apply keqb_eq in E. subst. intros H; inversion H; left; reflexivity.
    - intros H; right; apply IH; exact H.
  Qed.

  Lemma In_lookup_nodup (m : amap K V) k v : NoDup (akeys m) -> In (k, v) m -> lookup m k = Some v.
  Proof.
    induction m as [|[k' v'] m IH]; cbn [akeys map fst]; intros Hnd Hin; [destruct Hin|].
    inversion Hnd as [|? ? Hni Hnd']; subst. cbn [alookup]. destruct Hin as [E|Hin].
    - inversion E; subst. rewrite keqb_refl. reflexivity.
    - destruct (keqb k' k) eqn:E.
      + apply keqb_eq in E. subst. exfalso. apply Hni. change (In k (akeys m)).
        apply lookup_in_keys. rewrite (IH Hnd' Hin). discriminate.
      + apply IH; assumption.
  Qed.

  Lemma keys_del_subset (m : amap K V) k j : In j (akeys (del m k)) -> In j (akeys m).
  Proof.
    induction m as [|[k' v] m IH]; cbn [adel akeys map fst In]; [intros []|].
    destruct (keqb k' k); cbn [akeys map fst In]; intros H.
    - right. apply IH. exact H.
    - destruct H as [H|H]; [left; exact H|right; apply IH; exact H].
  Qed.

  Lemma nodup_del (m : amap K V) k : NoDup (akeys m) -> NoDup (akeys (del m k)).
  Proof.
    induction m as [|[k' v] m IH]; cbn [adel akeys map fst]; intros H; [constructor|].
    inversion H as [|? ? Hni Hnd]; subst.
    destruct (keqb k' k); [apply IH; exact Hnd|].
    cbn [akeys map fst]. constructor; [|apply IH; exact Hnd].
    intros Hin. apply Hni. eapply keys_del_subset. exact Hin.
  Qed.

  Lemma nodup_set (m : amap K V) k v : NoDup (akeys m) -> NoDup (akeys (set m k v)).
  Proof.
    intros H. unfold aset. cbn [akeys map fst]. constructor; [|apply nodup_del; exact H].
    intros Hin. change (In k (akeys (del m k))) in Hin. apply lookup_in_keys in Hin.
    rewrite lookup_del_same in Hin. congruence.
  Qed.

  Lemma del_absent (m : amap K V) k : lookup m k = None -> del m k = m.
  Proof.
    induction m as [|[k' v] m IH]; cbn [alookup adel]; [reflexivity|].
    destruct (keqb k' k); [discriminate|]. intros H. rewrite IH by exact H. reflexivity.
  Qed.
End AssocLemmas.

(* instances *)
From Coq Require Import NArith.
Lemma Neqb_eq : forall a b : N, N.eqb a b = true <-> a = b.
Proof. intros a b. apply N.eqb_eq. Qed.
