(* Proofs for property C06 (model/Hop.v).  Statements of the property theorems
   are repeated in prop/C06.v. *)
From Coq Require Import List NArith ZArith Bool Arith Lia ZifyBool ZifyN.
From SV Require Import lib.Bytes gen.UnicodeTables model.Hop.
From SV Require model.Reply model.Data model.Envelope.
From SV Require Import proof.Bytes_lemmas proof.Unicode_lemmas.
From SV Require proof.Reply_lemmas proof.Data_lemmas proof.Envelope_lemmas.
Import ListNotations.
Open Scope N_scope.

Local Arguments firstn : simpl never.
Local Arguments skipn : simpl never.

(* ====================================================================== *)
(* 0.  list helpers                                                        *)
(* ====================================================================== *)

Lemma drop_while_stop : forall p c r, p c = false -> drop_while p (c :: r) = c :: r.
Proof. intros p c r H. cbn. rewrite H. reflexivity. Qed.

Lemma drop_while_all : forall p a r, forallb p a = true -> drop_while p (a ++ r) = drop_while p r.
Proof.
  induction a as [|x a IH]; intros r H; [reflexivity|].
  cbn in H. apply andb_true_iff in H. destruct H as [H1 H2]. cbn. rewrite H1. apply IH, H2.
Qed.

Lemma drop_while_all_nil : forall p a, forallb p a = true -> drop_while p a = [].
Proof. intros p a H. rewrite <- (app_nil_r a). rewrite drop_while_all by exact H. reflexivity. Qed.

(* head of r does not satisfy p (or r is empty) *)
Definition stops (p : N -> bool) (r : list N) : Prop :=
  match r with [] => True | c :: _ => p c = false end.

Lemma span_app : forall p a r, forallb p a = true -> stops p r -> span p (a ++ r) = (a, r).
Proof.
  induction a as [|x a IH]; intros r H S.
  - cbn. destruct r as [|c r]; [reflexivity|]. cbn in S. cbn. rewrite S. reflexivity.
  - cbn in H. apply andb_true_iff in H. destruct H as [H1 H2]. cbn. rewrite H1.
    rewrite (IH r H2 S). reflexivity.
Qed.

Lemma span_all : forall p a, forallb p a = true -> span p a = (a, []).
Proof. intros p a H. rewrite <- (app_nil_r a) at 1. apply span_app; [exact H|exact I]. Qed.

Lemma rstrip_snoc : forall p s c, p c = false -> rstrip p (s ++ [c]) = s ++ [c].
Proof.
  intros p s c H. unfold rstrip. rewrite rev_app_distr. cbn. rewrite H.
  change (c :: rev s) with ([c] ++ rev s). rewrite rev_app_distr, rev_involutive. reflexivity.
Qed.

Lemma rstrip_nil : forall p, rstrip p [] = [].
Proof. reflexivity. Qed.

(* a list that ends with a byte not in the class *)
Definition ends_ok (p : N -> bool) (s : list N) : Prop := exists s0 c, s = s0 ++ [c] /\ p c = false.

Lemma ends_ok_app : forall p a s, ends_ok p s -> ends_ok p (a ++ s).
Proof. intros p a s [s0 [c [E H]]]. exists (a ++ s0), c. rewrite E, app_assoc. split; [reflexivity|exact H]. Qed.

Lemma ends_ok_rstrip : forall p s, ends_ok p s -> rstrip p s = s.
Proof. intros p s [s0 [c [E H]]]. subst. apply rstrip_snoc, H. Qed.

Lemma ends_ok_last : forall p s c, p c = false -> ends_ok p (s ++ [c]).
Proof. intros p s c H. exists s, c. split; [reflexivity|exact H]. Qed.

Lemma last_or_app : forall d s c, last_or d (s ++ [c]) = c.
Proof. intros d s. revert d. induction s as [|x s IH]; intros d c; cbn; [reflexivity|apply IH]. Qed.

Lemma forallb_app2 : forall (p : N -> bool) a b, forallb p (a ++ b) = forallb p a && forallb p b.
Proof. intros. apply forallb_app. Qed.

Lemma forallb_imp : forall (p q : N -> bool) l,
  (forall x, p x = true -> q x = true) -> forallb p l = true -> forallb q l = true.
Proof.
  intros p q l H. induction l as [|x l IH]; intro F; [reflexivity|].
  cbn in *. apply andb_true_iff in F. destruct F as [F1 F2]. rewrite (H x F1), (IH F2). reflexivity.
Qed.

Lemma Forall_forallb : forall (p : N -> bool) l, Forall (fun x => p x = true) l <-> forallb p l = true.
Proof.
  intros p l. split.
  - induction 1 as [|x l Hx Hl IH]; [reflexivity|]. cbn. rewrite Hx, IH. reflexivity.
  - induction l as [|x l IH]; intro H; [constructor|]. cbn in H. apply andb_true_iff in H.
    destruct H as [H1 H2]. constructor; [exact H1|apply IH, H2].
Qed.

(* ====================================================================== *)
(* 1.  Base64                                                              *)
(* ====================================================================== *)

Lemma b64val_chr : forall i, i < 64 -> b64val (b64chr i) = Some i /\ (b64chr i =? 61) = false.
Proof.
  intros i H. unfold b64chr.
  destruct (i <? 26) eqn:E1.
  { unfold b64val, is_upper. replace ((65 <=? 65 + i) && (65 + i <=? 90)) with true by lia.
    split; [f_equal; lia|lia]. }
  destruct (i <? 52) eqn:E2.
  { unfold b64val, is_upper, is_lower.
    replace ((65 <=? 71 + i) && (71 + i <=? 90)) with false by lia.
    replace ((97 <=? 71 + i) && (71 + i <=? 122)) with true by lia.
    split; [f_equal; lia|lia]. }
  destruct (i <? 62) eqn:E3.
  { unfold b64val, is_upper, is_lower, is_digit.
    replace ((65 <=? i - 4) && (i - 4 <=? 90)) with false by lia.
    replace ((97 <=? i - 4) && (i - 4 <=? 122)) with false by lia.
    replace ((48 <=? i - 4) && (i - 4 <=? 57)) with true by lia.
    split; [f_equal; lia|lia]. }
  destruct (i =? 62) eqn:E4.
  { apply N.eqb_eq in E4. subst. split; reflexivity. }
  assert (i = 63) by lia. subst. split; reflexivity.
Qed.

Lemma b64chr_ascii : forall i, i < 64 -> b64chr i <? 128 = true.
Proof.
  intros i H. unfold b64chr.
  destruct (i <? 26) eqn:E1; [lia|]. destruct (i <? 52) eqn:E2; [lia|].
  destruct (i <? 62) eqn:E3; [lia|]. destruct (i =? 62); reflexivity.
Qed.

(* the characters base64 text is made of: alphabet and "=" *)
Definition b64c (c : N) : bool := is_alnum c || (c =? 43) || (c =? 47) || (c =? 61).

Lemma b64chr_b64c : forall i, i < 64 -> b64c (b64chr i) = true.
Proof.
  intros i H. unfold b64chr, b64c, is_alnum, is_alpha, is_upper, is_lower, is_digit.
  destruct (i <? 26) eqn:E1; [lia|]. destruct (i <? 52) eqn:E2; [lia|].
  destruct (i <? 62) eqn:E3; [lia|]. destruct (i =? 62); reflexivity.
Qed.

(* one step of the decoder on an alphabet character *)
Lemma b64loop_chr : forall i s q l p, i < 64 ->
  b64loop (b64chr i :: s) q l p =
  match q with
  | Q0 => b64loop s Q1 i 0
  | Q1 => bcons (l * 4 + i / 16) (b64loop s Q2 (i mod 16) 0)
  | Q2 => bcons (l * 16 + i / 4) (b64loop s Q3 (i mod 4) 0)
  | Q3 => bcons (l * 64 + i) (b64loop s Q0 0 0)
  end.
Proof.
  intros i s q l p H. destruct (b64val_chr i H) as [V E]. cbn [b64loop]. rewrite E, V. reflexivity.
Qed.

Definition is_byte (b : N) : Prop := b < 256.

Lemma triple_ind : forall (P : list N -> Prop),
  P [] -> (forall a, P [a]) -> (forall a b, P [a; b]) ->
  (forall a b c s, P s -> P (a :: b :: c :: s)) -> forall s, P s.
Proof.
  intros P H0 H1 H2 H3 s.
  assert (G : P s /\ (forall a, P (a :: s)) /\ (forall a b, P (a :: b :: s))).
  { induction s as [|x s [IH1 [IH2 IH3]]].
    - split; [exact H0|split; [exact H1|exact H2]].
    - split; [apply IH2|split; [intro a; apply IH3|intros a b; apply H3, IH1]]. }
  exact (proj1 G).
Qed.

Lemma b64_roundtrip : forall s, Forall is_byte s -> b64dec (b64enc s) = B64Ok s.
Proof.
  unfold b64dec. intro s. induction s as [|a|a b|a b c s IH] using triple_ind; intro F.
  - reflexivity.
  - inversion F as [|? ? Ha _]; subst. unfold is_byte in Ha.
    cbn [b64enc]. rewrite b64loop_chr by lia. rewrite b64loop_chr by lia.
    cbn [b64loop N.eqb Pos.eqb N.leb N.compare]. cbn. f_equal. f_equal. lia.
  - inversion F as [|? ? Ha F2]; subst. inversion F2 as [|? ? Hb _]; subst. unfold is_byte in *.
    cbn [b64enc]. rewrite b64loop_chr by lia. rewrite b64loop_chr by lia. rewrite b64loop_chr by lia.
    cbn. f_equal. f_equal; [lia|f_equal; lia].
  - inversion F as [|? ? Ha F2]; subst. inversion F2 as [|? ? Hb F3]; subst.
    inversion F3 as [|? ? Hc F4]; subst. unfold is_byte in *.
    cbn [b64enc]. rewrite b64loop_chr by lia. rewrite b64loop_chr by lia.
    rewrite b64loop_chr by lia. rewrite b64loop_chr by lia. rewrite (IH F4). cbn [bcons].
    f_equal. f_equal; [lia|f_equal; [lia|f_equal; lia]].
Qed.

Lemma b64enc_chars : forall s, Forall is_byte s -> forallb b64c (b64enc s) = true.
Proof.
  intro s. induction s as [|a|a b|a b c s IH] using triple_ind; intro F.
  - reflexivity.
  - inversion F as [|? ? Ha _]; subst. unfold is_byte in Ha. cbn [b64enc forallb].
    rewrite !b64chr_b64c by lia. reflexivity.
  - inversion F as [|? ? Ha F2]; subst. inversion F2 as [|? ? Hb _]; subst. unfold is_byte in *.
    cbn [b64enc forallb]. rewrite !b64chr_b64c by lia. reflexivity.
  - inversion F as [|? ? Ha F2]; subst. inversion F2 as [|? ? Hb F3]; subst.
    inversion F3 as [|? ? Hc F4]; subst. unfold is_byte in *.
    cbn [b64enc forallb]. rewrite !b64chr_b64c by lia. rewrite (IH F4). reflexivity.
Qed.

Lemma b64enc_nonempty : forall s, s <> [] -> b64enc s <> [].
Proof. intros [|a [|b [|c s]]] H; [contradiction| | |]; cbn; discriminate. Qed.

(* ====================================================================== *)
(* 2.  Extensions: parse_string (build_string h e) = (h, e)                *)
(* ====================================================================== *)

Lemma not_space_of_ranges : forall rs c,
  rdisj rs uspace_ranges = true -> in_ranges rs c = true -> uspace c = false.
Proof. intros rs c D H. unfold uspace. exact (rdisj_sound rs uspace_ranges c D H). Qed.

Lemma kwchar_not_space : forall c, is_kwchar c = true -> uspace c = false.
Proof.
  intros c H. apply (not_space_of_ranges [(45, 45); (48, 57); (65, 90); (97, 122)]); [vm_compute; reflexivity|].
  unfold is_kwchar, is_alnum, is_alpha, is_upper, is_lower, is_digit in H. cbn [in_ranges]. lia.
Qed.

Lemma uspace_32 : uspace 32 = true. Proof. vm_compute. reflexivity. Qed.

(* extension names as servers hold them: [A-Z0-9][A-Z0-9-]* *)
Definition name_char1 (c : N) : bool := is_upper c || is_digit c.
Definition name_char (c : N) : bool := is_upper c || is_digit c || (c =? 45).
Definition ext_name_ok (k : text) : bool :=
  match k with c :: r => name_char1 c && forallb name_char r | [] => false end.
(* parameters: absent, or a non-empty text without line feed that neither begins
   nor ends with white space *)
Definition param_ok (v : option text) : bool :=
  match v with
  | None => true
  | Some [] => false
  | Some (c :: r) => negb (uspace c) && negb (uspace (last_or c r)) && forallb (fun x => negb (x =? 10)) (c :: r)
  end.
Definition wf_exts (e : exts) : Prop :=
  forallb (fun kv => ext_name_ok (fst kv) && param_ok (snd kv)) e = true /\ NoDup (map fst e).
Definition header_ok (h : text) : Prop := h <> [] /\ nolf h.

Lemma name_char_kw : forall c, name_char c = true -> is_kwchar c = true.
Proof. intros c H. unfold name_char, is_kwchar, is_alnum, is_alpha, is_upper, is_lower, is_digit in *. lia. Qed.

Lemma name_char_upper : forall c, name_char c = true -> to_upper c = c.
Proof. intros c H. unfold name_char, to_upper, is_upper, is_lower, is_digit in *.
  destruct ((97 <=? c) && (c <=? 122)) eqn:E; [lia|reflexivity]. Qed.

Lemma name_char_nolf : forall c, name_char c = true -> c <> 10.
Proof. intros c H. unfold name_char, is_upper, is_digit in H. lia. Qed.

Lemma name_ok_inv : forall k, ext_name_ok k = true ->
  exists c r, k = c :: r /\ is_alnum c = true /\ forallb name_char (c :: r) = true.
Proof.
  intros [|c r] H; [discriminate|]. cbn [ext_name_ok] in H. apply andb_true_iff in H. destruct H as [H1 H2].
  exists c, r. split; [reflexivity|]. split.
  - unfold name_char1, is_alnum, is_alpha, is_upper, is_lower, is_digit in *. lia.
  - cbn [forallb]. rewrite H2. unfold name_char1, name_char in *. rewrite H1. reflexivity.
Qed.

Lemma upper_names : forall k, forallb name_char k = true -> upper k = k.
Proof.
  induction k as [|c k IH]; intro H; [reflexivity|]. cbn in H. apply andb_true_iff in H.
  destruct H as [H1 H2]. unfold upper in *. cbn. rewrite (name_char_upper c H1), (IH H2). reflexivity.
Qed.

Lemma last_or_cons : forall c r, exists s0, c :: r = s0 ++ [last_or c r].
Proof.
  intros c r. revert c. induction r as [|x r IH]; intro c.
  - exists []. reflexivity.
  - destruct (IH x) as [s0 E]. exists (c :: s0). cbn [last_or]. rewrite <- app_comm_cons, <- E. reflexivity.
Qed.

Lemma parse_ext_line_shape : forall c r rest,
  uspace c = false -> is_alnum c = true -> forallb is_kwchar (c :: r) = true -> stops is_kwchar rest ->
  parse_ext_line ((c :: r) ++ rest) = Some (c :: r, rstrip uspace (drop_while uspace rest)).
Proof.
  intros c r rest Hsp Hc Hkw St. unfold parse_ext_line. cbn [app].
  rewrite drop_while_stop by exact Hsp. rewrite Hc.
  change (c :: r ++ rest) with ((c :: r) ++ rest). rewrite (span_app is_kwchar (c :: r) rest Hkw St).
  reflexivity.
Qed.

Lemma param_ok_inv : forall vc vr, param_ok (Some (vc :: vr)) = true ->
  uspace vc = false /\ uspace (last_or vc vr) = false /\ forallb (fun x => negb (x =? 10)) (vc :: vr) = true.
Proof.
  intros vc vr H. unfold param_ok in H. apply andb_true_iff in H. destruct H as [H H3].
  apply andb_true_iff in H. destruct H as [H1 H2].
  split; [destruct (uspace vc); [discriminate|reflexivity]|].
  split; [destruct (uspace (last_or vc vr)); [discriminate|reflexivity]|exact H3].
Qed.

Lemma parse_ext_line_ok : forall k v, ext_name_ok k = true -> param_ok v = true ->
  parse_ext_line (ext_line (k, v)) = Some (k, match v with Some x => x | None => [] end).
Proof.
  intros k v Hk Hv. destruct (name_ok_inv k Hk) as [c [r [Ek [Hc Hall]]]].
  assert (Hkw : forallb is_kwchar (c :: r) = true).
  { apply (forallb_imp name_char); [apply name_char_kw|exact Hall]. }
  assert (Hsp : uspace c = false).
  { apply kwchar_not_space. cbn [forallb] in Hkw. apply andb_true_iff in Hkw. tauto. }
  unfold ext_line. cbn [fst snd]. subst k.
  destruct v as [[|vc vr]|].
  - discriminate.
  - destruct (param_ok_inv vc vr Hv) as [Hv1 [Hv2 _]].
    rewrite parse_ext_line_shape; [|exact Hsp|exact Hc|exact Hkw|cbn; reflexivity].
    f_equal. f_equal. cbn [app drop_while]. rewrite uspace_32, Hv1.
    apply ends_ok_rstrip. destruct (last_or_cons vc vr) as [s0 E]. rewrite E.
    apply ends_ok_last. exact Hv2.
  - rewrite <- (app_nil_r (c :: r)) at 1.
    rewrite parse_ext_line_shape; [|exact Hsp|exact Hc|exact Hkw|exact I]. reflexivity.
Qed.

Lemma ext_add_absent : forall k v acc, ~ In k (map fst acc) -> ext_add k v acc = acc ++ [(k, v)].
Proof.
  intros k v. induction acc as [|[k' v'] acc IH]; intro H; [reflexivity|].
  cbn in *. destruct (beqb k' k) eqn:E.
  - apply beqb_eq in E. exfalso. apply H. left. exact E.
  - rewrite IH by (intro Hin; apply H; right; exact Hin). reflexivity.
Qed.

Lemma fold_ps : forall e c h acc,
  forallb (fun kv => ext_name_ok (fst kv) && param_ok (snd kv)) e = true ->
  NoDup (map fst acc ++ map fst e) ->
  fold_left ps_step (map ext_line e) (Some (c :: h), acc) = (Some (c :: h), acc ++ e).
Proof.
  induction e as [|[k v] e IH]; intros c h acc W D.
  - cbn. rewrite app_nil_r. reflexivity.
  - cbn in W. apply andb_true_iff in W. destruct W as [W1 W2].
    apply andb_true_iff in W1. destruct W1 as [Wk Wv].
    cbn [map fold_left]. unfold ps_step at 2. cbn [fst snd].
    rewrite (parse_ext_line_ok k v Wk Wv).
    destruct (name_ok_inv k Wk) as [kc [kr [Ek [_ Hall]]]].
    rewrite upper_names by (rewrite Ek; exact Hall).
    assert (Hv : match (match v with Some x => x | None => [] end) with [] => None | _ :: _ => Some (match v with Some x => x | None => [] end) end = v).
    { destruct v as [[|vc vr]|]; [discriminate|reflexivity|reflexivity]. }
    rewrite Hv.
    cbn [map] in D.
    rewrite ext_add_absent.
    + rewrite IH; [rewrite <- app_assoc; reflexivity|exact W2|].
      rewrite map_app. cbn [map fst]. rewrite <- app_assoc. exact D.
    + intro Hin. apply NoDup_remove_2 in D. apply D. apply in_or_app. left. exact Hin.
Qed.

Lemma split_lf_join : forall ls, ls <> [] -> Forall nolf ls ->
  split_lf (join CRLF ls ++ CRLF) = (map (fun l => l ++ [13]) ls, []).
Proof.
  induction ls as [|l ls IH]; intros Hne F; [contradiction|].
  inversion F as [|? ? Hl Hls]; subst.
  assert (Hl13 : nolf (l ++ [13])).
  { apply nolf_app. split; [exact Hl|]. constructor; [discriminate|constructor]. }
  destruct ls as [|l2 ls'].
  - cbn [join map]. change CRLF with ([13] ++ [10]). rewrite app_assoc.
    change ((l ++ [13]) ++ [10]) with ((l ++ [13]) ++ 10 :: []).
    rewrite split_lf_line by exact Hl13. reflexivity.
  - rewrite join_cons by discriminate. rewrite <- !app_assoc.
    change (CRLF ++ join CRLF (l2 :: ls') ++ CRLF) with ([13] ++ 10 :: (join CRLF (l2 :: ls') ++ CRLF)).
    rewrite app_assoc. rewrite split_lf_line by exact Hl13.
    rewrite IH by (discriminate || exact Hls). reflexivity.
Qed.

Lemma map_strip_cr_snoc : forall ls, map strip_cr (map (fun l => l ++ [13]) ls) = ls.
Proof.
  induction ls as [|l ls IH]; [reflexivity|]. cbn. rewrite strip_cr_snoc, IH. reflexivity.
Qed.

Lemma ext_line_nolf : forall k v, ext_name_ok k = true -> param_ok v = true -> nolf (ext_line (k, v)).
Proof.
  intros k v Hk Hv. destruct (name_ok_inv k Hk) as [c [r [Ek [_ Hall]]]].
  assert (Nk : nolf k).
  { rewrite Ek. apply Forall_forall. intros x Hx. apply name_char_nolf.
    apply (proj1 (forallb_forall name_char (c :: r)) Hall x Hx). }
  unfold ext_line. cbn [fst snd]. destruct v as [[|vc vr]|]; [exact Nk| |exact Nk].
  destruct (param_ok_inv vc vr Hv) as [_ [_ Hlf]].
  apply nolf_app. split; [exact Nk|]. apply nolf_app. split; [constructor; [discriminate|constructor]|].
  apply Forall_forall. intros x Hx.
  pose proof (proj1 (forallb_forall _ (vc :: vr)) Hlf x Hx) as Hn. cbn in Hn. lia.
Qed.

Theorem ext_roundtrip : forall h e, header_ok h -> wf_exts e ->
  parse_string [] (build_string h e) = (h, e).
Proof.
  intros h e [Hne Hnl] [W D]. unfold parse_string, build_string.
  assert (F : Forall nolf (h :: map ext_line e)).
  { constructor; [exact Hnl|]. apply Forall_forall. intros l Hl. apply in_map_iff in Hl.
    destruct Hl as [[k v] [El Hin]]. subst l.
    pose proof (proj1 (forallb_forall _ e) W (k, v) Hin) as Hkv. cbn in Hkv.
    apply andb_true_iff in Hkv. destruct Hkv as [Hk Hv]. apply ext_line_nolf; assumption. }
  rewrite split_lf_join by (discriminate || exact F). cbn [fst]. rewrite map_strip_cr_snoc.
  destruct h as [|c h]; [contradiction|].
  cbn [fold_left].
  change (ps_step (None, []) (c :: h)) with (Some (c :: h), @nil (text * option text)).
  rewrite fold_ps by (exact W || exact D). reflexivity.
Qed.

(* ====================================================================== *)
(* 3.  UTF-8 facts, the quote scanner, the Mailbox grammar                 *)
(* ====================================================================== *)

Import Reply.

Lemma enc1_ascii : forall c, c < 128 -> utf8_enc1 c = [c].
Proof. intros c H. unfold utf8_enc1. replace (c <? 128) with true by lia. reflexivity. Qed.

Lemma enc1_high : forall c, 128 <= c -> Forall (fun b => 128 <= b) (utf8_enc1 c).
Proof.
  intros c H. unfold utf8_enc1. replace (c <? 128) with false by lia.
  destruct (c <? 2048); [|destruct (c <? 65536)]; repeat constructor; lia.
Qed.

Lemma enc1_byte : forall c, valid_cp c = true -> Forall is_byte (utf8_enc1 c).
Proof.
  intros c H. unfold valid_cp in H. unfold utf8_enc1, is_byte.
  destruct (c <? 128) eqn:E1; [repeat constructor; lia|].
  destruct (c <? 2048) eqn:E2; [repeat constructor; lia|].
  destruct (c <? 65536) eqn:E3; repeat constructor; lia.
Qed.

Lemma enc_app : forall a b, utf8_enc (a ++ b) = utf8_enc a ++ utf8_enc b.
Proof. intros. unfold utf8_enc. apply flat_map_app. Qed.

Lemma enc_cons : forall c t, utf8_enc (c :: t) = utf8_enc1 c ++ utf8_enc t.
Proof. reflexivity. Qed.

Lemma enc_ascii : forall t, is_ascii_text t = true -> utf8_enc t = t.
Proof.
  induction t as [|c t IH]; intro H; [reflexivity|]. unfold is_ascii_text in *. cbn [forallb] in H.
  apply andb_true_iff in H. destruct H as [H1 H2]. rewrite enc_cons, enc1_ascii by lia. cbn. rewrite IH by exact H2. reflexivity.
Qed.

Lemma enc_forall : forall (P : N -> Prop) t,
  (forall c, In c t -> Forall P (utf8_enc1 c)) -> Forall P (utf8_enc t).
Proof.
  intros P t. induction t as [|c t IH]; intro H; [constructor|].
  rewrite enc_cons. apply Forall_app. split; [apply H; left; reflexivity|apply IH; intros x Hx; apply H; right; exact Hx].
Qed.

(* ---- the scanner as a state machine ---- *)
Fixpoint qstate (q e : bool) (s : bytes) : option (bool * bool) :=
  match s with
  | [] => Some (q, e)
  | c :: s' =>
      if negb q then (if c =? 62 then None else qstate (c =? 34) false s')
      else if e then qstate true false s'
      else if c =? 92 then qstate true true s'
      else qstate (negb (c =? 34)) false s'
  end.

Definition pre_app (p : bytes) (o : option (bytes * bytes)) : option (bytes * bytes) :=
  match o with Some (a, r) => Some (p ++ a, r) | None => None end.

Lemma cons_fst_pre : forall c o, cons_fst c o = pre_app [c] o.
Proof. intros c [[a r]|]; reflexivity. Qed.

Lemma pre_app_app : forall p1 p2 o, pre_app p1 (pre_app p2 o) = pre_app (p1 ++ p2) o.
Proof. intros p1 p2 [[a r]|]; cbn; [rewrite app_assoc|]; reflexivity. Qed.

Lemma find_gt_app : forall s q e q' e' r, qstate q e s = Some (q', e') ->
  find_gt q e (s ++ r) = pre_app s (find_gt q' e' r).
Proof.
  induction s as [|c s IH]; intros q e q' e' r H.
  - cbn in H. inversion H; subst. cbn [app]. destruct (find_gt q' e' r) as [[a t]|]; reflexivity.
  - cbn [qstate] in H. cbn [app find_gt]. destruct (negb q) eqn:Eq.
    + destruct (c =? 62) eqn:Ec; [discriminate|]. rewrite (IH _ _ _ _ r H), cons_fst_pre, pre_app_app. reflexivity.
    + destruct e.
      * rewrite (IH _ _ _ _ r H), cons_fst_pre, pre_app_app. reflexivity.
      * destruct (c =? 92); rewrite (IH _ _ _ _ r H), cons_fst_pre, pre_app_app; reflexivity.
Qed.

Lemma find_gt_end : forall s r, qstate false false s = Some (false, false) ->
  find_gt false false (s ++ 62 :: r) = Some (s, r).
Proof. intros s r H. rewrite (find_gt_app s false false false false (62 :: r) H). cbn. rewrite app_nil_r. reflexivity. Qed.

Lemma qstate_app : forall a b q e,
  qstate q e (a ++ b) = match qstate q e a with Some (q', e') => qstate q' e' b | None => None end.
Proof.
  induction a as [|c a IH]; intros b q e; [reflexivity|]. cbn [app qstate].
  destruct (negb q); [destruct (c =? 62); [reflexivity|apply IH]|].
  destruct e; [apply IH|]. destruct (c =? 92); apply IH.
Qed.

Definition unq_plain (b : N) : Prop := b <> 34 /\ b <> 62.
Definition q_plain (b : N) : Prop := b <> 34 /\ b <> 92.

Lemma qstate_unq : forall s, Forall unq_plain s -> qstate false false s = Some (false, false).
Proof.
  induction 1 as [|c s [H1 H2] Hs IH]; [reflexivity|]. cbn.
  replace (c =? 62) with false by lia. replace (c =? 34) with false by lia. exact IH.
Qed.

Lemma qstate_q : forall s, Forall q_plain s -> qstate true false s = Some (true, false).
Proof.
  induction 1 as [|c s [H1 H2] Hs IH]; [reflexivity|]. cbn.
  replace (c =? 92) with false by lia. replace (c =? 34) with false by lia. exact IH.
Qed.

(* ---- characters of a well-formed address ---- *)
Definition okc (u : bool) (c : N) : bool := ((32 <=? c) && (c <? 127)) || uni u c.
Definition plainc (u : bool) (c : N) : bool := okc u c && negb (c =? 34) && negb (c =? 62).

Lemma okc_valid : forall u c, okc u c = true -> valid_cp c = true.
Proof. intros u c H. unfold okc, uni in H. unfold valid_cp, is_surrogate in *. destruct u; lia. Qed.

Lemma okc_ascii : forall c, okc false c = true -> c <? 128 = true.
Proof. intros c H. unfold okc, uni in H. cbn [andb] in H. lia. Qed.

Lemma okc_enc1 : forall u c, okc u c = true -> Forall (fun b => 32 <= b < 256) (utf8_enc1 c).
Proof.
  intros u c H. destruct (c <? 128) eqn:E.
  - rewrite enc1_ascii by lia. unfold okc, uni in H. constructor; [|constructor]. destruct u; lia.
  - pose proof (enc1_high c ltac:(lia)) as Hh. pose proof (enc1_byte c (okc_valid u c H)) as Hb.
    rewrite Forall_forall in *. intros b Hin. specialize (Hh b Hin). specialize (Hb b Hin). unfold is_byte in Hb. lia.
Qed.

Lemma plainc_enc1 : forall u c, plainc u c = true -> Forall unq_plain (utf8_enc1 c).
Proof.
  intros u c H. unfold plainc in H. destruct (c <? 128) eqn:E.
  - rewrite enc1_ascii by lia. constructor; [|constructor]. unfold unq_plain. lia.
  - pose proof (enc1_high c ltac:(lia)) as Hh. rewrite Forall_forall in *. intros b Hin.
    specialize (Hh b Hin). unfold unq_plain. lia.
Qed.

Lemma plainc_okc : forall u c, plainc u c = true -> okc u c = true.
Proof. intros u c H. unfold plainc in H. apply andb_true_iff in H. destruct H as [H _]. apply andb_true_iff in H. tauto. Qed.

Lemma plain_scan : forall u t, forallb (plainc u) t = true -> qstate false false (utf8_enc t) = Some (false, false).
Proof.
  intros u t H. apply qstate_unq. apply enc_forall. intros c Hin. apply (plainc_enc1 u).
  exact (proj1 (forallb_forall _ t) H c Hin).
Qed.

Lemma atext_plain : forall u c, atext u c = true -> plainc u c = true.
Proof.
  intros u c H. unfold atext, is_alnum, is_alpha, is_upper, is_lower, is_digit in H.
  unfold plainc, okc. unfold uni in *. unfold valid_cp, is_surrogate in *. destruct u; lia.
Qed.

Lemma dot_string_plain : forall u l need, dot_string u need l = true -> forallb (plainc u) l = true.
Proof.
  induction l as [|c l IH]; intros need H; [reflexivity|]. cbn [dot_string] in H. cbn [forallb].
  destruct (atext u c) eqn:Ea.
  - rewrite (atext_plain u c Ea), (IH _ H). reflexivity.
  - destruct ((c =? 46) && negb need) eqn:Ed; [|discriminate].
    rewrite (IH _ H). assert (c = 46) by lia. subst. destruct u; reflexivity.
Qed.

Lemma let_dig_plain : forall u c, let_dig u c = true -> plainc u c = true.
Proof.
  intros u c H. unfold let_dig, is_alnum, is_alpha, is_upper, is_lower, is_digit in H.
  unfold plainc, okc. unfold uni in *. unfold valid_cp, is_surrogate in *. destruct u; lia.
Qed.

Lemma domain_name_plain : forall u d st, domain_name u st d = true -> forallb (plainc u) d = true.
Proof.
  induction d as [|c d IH]; intros st H; [reflexivity|]. cbn [domain_name] in H. cbn [forallb].
  destruct (let_dig u c) eqn:El.
  - rewrite (let_dig_plain u c El), (IH _ H). reflexivity.
  - destruct ((c =? 45) && negb (st =? 0)) eqn:E1.
    + rewrite (IH _ H). assert (c = 45) by lia. subst. destruct u; reflexivity.
    + destruct ((c =? 46) && (st =? 1)) eqn:E2; [|discriminate].
      rewrite (IH _ H). assert (c = 46) by lia. subst. destruct u; reflexivity.
Qed.

Lemma dcontent_plain : forall u c, dcontent c = true -> plainc u c = true.
Proof. intros u c H. unfold dcontent in H. unfold plainc, okc. lia. Qed.

Lemma addr_literal_plain : forall u d, addr_literal d = true -> forallb (plainc u) d = true.
Proof.
  intros u d H. unfold addr_literal in H. destruct d as [|b s]; [discriminate|].
  destruct (N.eq_dec b 91) as [->|Hb].
  2:{ exfalso. destruct b as [|p]; [discriminate|]. do 7 (destruct p as [p|p|]; try discriminate); congruence. }
  destruct (rev s) as [|x m] eqn:Er; [discriminate|].
  destruct (N.eq_dec x 93) as [->|Hx].
  2:{ exfalso. destruct x as [|p]; [discriminate|]. do 7 (destruct p as [p|p|]; try discriminate); congruence. }
  apply andb_true_iff in H. destruct H as [_ Hm].
  assert (Es : s = rev m ++ [93]).
  { rewrite <- (rev_involutive s), Er. reflexivity. }
  subst s. cbn [forallb]. rewrite forallb_app2. cbn [forallb].
  replace (plainc u 91) with true by (destruct u; reflexivity).
  replace (plainc u 93) with true by (destruct u; reflexivity).
  rewrite andb_true_r. cbn [andb].
  apply forallb_forall. intros c Hc. apply in_rev in Hc.
  apply dcontent_plain. exact (proj1 (forallb_forall _ m) Hm c Hc).
Qed.

Lemma wf_domain_plain : forall u d, wf_domain u d = true -> forallb (plainc u) d = true.
Proof.
  intros u d H. unfold wf_domain in H. apply orb_true_iff in H. destruct H as [H|H].
  - exact (domain_name_plain u d 0 H).
  - exact (addr_literal_plain u d H).
Qed.

Lemma split_at_app : forall a l d, split_at a = Some (l, d) -> a = l ++ 64 :: d.
Proof.
  induction a as [|c a IH]; intros l d H; [discriminate|]. cbn [split_at] in H.
  destruct (c =? 64) eqn:E.
  - inversion H; subst. assert (c = 64) by lia. subst. reflexivity.
  - destruct (split_at a) as [[a1 b1]|]; [|discriminate]. inversion H; subst.
    rewrite (IH a1 d eq_refl). reflexivity.
Qed.

(* the quoted local part: what quoted_tail consumed keeps the scanner in step *)
Lemma quoted_tail_scan : forall u n s r, (length s <= n)%nat -> quoted_tail u s = Some r ->
  exists p, s = p ++ r /\ forallb (okc u) p = true /\ qstate true false (utf8_enc p) = Some (false, false).
Proof.
  intros u n. induction n as [|n IH]; intros s r L H.
  - destruct s; [discriminate|cbn in L; lia].
  - destruct s as [|c s]; [discriminate|]. cbn [quoted_tail] in H.
    destruct (c =? 34) eqn:E34.
    + inversion H; subst. assert (c = 34) by lia. subst. exists [34]. split; [reflexivity|].
      split; [destruct u; reflexivity|reflexivity].
    + destruct (c =? 92) eqn:E92.
      * destruct s as [|d s]; [discriminate|]. destruct (qpair2 d) eqn:Eq; [|discriminate].
        cbn in L. destruct (IH s r ltac:(lia) H) as [p [Es [Hok Hq]]].
        assert (c = 92) by lia. subst c. exists (92 :: d :: p). split; [rewrite Es; reflexivity|].
        unfold qpair2 in Eq. split.
        -- cbn [forallb]. rewrite Hok. replace (okc u 92) with true by (destruct u; reflexivity).
           unfold okc. replace ((32 <=? d) && (d <? 127)) with true by lia. reflexivity.
        -- rewrite !enc_cons. rewrite (enc1_ascii 92) by lia. rewrite (enc1_ascii d) by lia.
           cbn [app qstate negb]. cbn. exact Hq.
      * destruct (qtext u c) eqn:Et; [|discriminate]. cbn in L.
        destruct (IH s r ltac:(lia) H) as [p [Es [Hok Hq]]].
        exists (c :: p). split; [rewrite Es; reflexivity|].
        assert (Hc : okc u c = true).
        { unfold qtext in Et. unfold okc. unfold uni in *. unfold valid_cp, is_surrogate in *. destruct u; lia. }
        split; [cbn [forallb]; rewrite Hc, Hok; reflexivity|].
        rewrite enc_cons, qstate_app.
        assert (Hp : Forall q_plain (utf8_enc1 c)).
        { destruct (c <? 128) eqn:E.
          - rewrite enc1_ascii by lia. constructor; [|constructor]. unfold q_plain. lia.
          - pose proof (enc1_high c ltac:(lia)) as Hh. rewrite Forall_forall in *. intros b Hin.
            specialize (Hh b Hin). unfold q_plain. lia. }
        rewrite (qstate_q _ Hp). exact Hq.
Qed.

Lemma wf_mailbox_scan : forall u a, wf_mailbox u a = true ->
  forallb (okc u) a = true /\ qstate false false (utf8_enc a) = Some (false, false).
Proof.
  intros u a H. unfold wf_mailbox in H.
  assert (Hplain : forall l d, a = l ++ 64 :: d -> dot_string u true l = true -> wf_domain u d = true ->
                   forallb (okc u) a = true /\ qstate false false (utf8_enc a) = Some (false, false)).
  { intros l d Ea Hl Hd.
    assert (Hp : forallb (plainc u) a = true).
    { subst a. rewrite forallb_app2. cbn [forallb]. rewrite (dot_string_plain u l true Hl), (wf_domain_plain u d Hd).
      destruct u; reflexivity. }
    split; [apply (forallb_imp (plainc u)); [apply plainc_okc|exact Hp]|apply (plain_scan u), Hp]. }
  destruct a as [|c s].
  - cbn in H. discriminate.
  - destruct (c =? 34) eqn:E34.
    + assert (c = 34) by lia. subst c.
      destruct (quoted_tail u s) as [[|at_ d]|] eqn:Eq; try discriminate.
      apply andb_true_iff in H. destruct H as [Hat Hd]. assert (at_ = 64) by lia. subst at_.
      destruct (quoted_tail_scan u (length s) s (64 :: d) (le_n _) Eq) as [p [Es [Hok Hq]]].
      pose proof (wf_domain_plain u d Hd) as Hpd.
      split.
      * cbn [forallb]. rewrite Es, forallb_app2, Hok. cbn [forallb].
        rewrite (forallb_imp (plainc u) (okc u) d (plainc_okc u) Hpd). destruct u; reflexivity.
      * rewrite enc_cons, (enc1_ascii 34) by lia. cbn [app qstate negb]. cbn.
        rewrite Es, enc_app, qstate_app, Hq.
        apply (plain_scan u). cbn [forallb]. rewrite Hpd. destruct u; reflexivity.
    + assert (Hsp : match split_at (c :: s) with
                    | Some (l, d) => dot_string u true l && wf_domain u d
                    | None => false end = true).
      { destruct c as [|p]; [exact H|]. do 7 (try (destruct p as [p|p|]; try exact H)). all: try exact H. all: cbn in E34; discriminate. }
      destruct (split_at (c :: s)) as [[l d]|] eqn:Es; [|discriminate].
      apply andb_true_iff in Hsp. destruct Hsp as [Hl Hd].
      exact (Hplain l d (split_at_app _ _ _ Es) Hl Hd).
Qed.

(* what the client's encoding of a well-formed address looks like *)
Definition wire_ok (a : text) (bs : bytes) : Prop :=
  utf8_dec bs = Some a /\ Forall (fun b => 32 <= b < 256) bs /\
  (a = [] -> bs = []) /\ qstate false false bs = Some (false, false).

Lemma encode_wf_chars : forall u a, forallb (okc u) a = true -> qstate false false (utf8_enc a) = Some (false, false) ->
  exists bs, encode u a = Some bs /\ wire_ok a bs.
Proof.
  intros u a Hok Hq.
  assert (Hv : forallb valid_cp a = true) by (apply (forallb_imp (okc u)); [apply okc_valid|exact Hok]).
  assert (Hdec : utf8_dec (utf8_enc a) = Some a).
  { apply Reply_lemmas.utf8_dec_enc. apply Forall_forallb. exact Hv. }
  assert (Hb : Forall (fun b => 32 <= b < 256) (utf8_enc a)).
  { apply enc_forall. intros c Hin. apply (okc_enc1 u). exact (proj1 (forallb_forall _ a) Hok c Hin). }
  assert (He : a = [] -> utf8_enc a = []) by (intro; subst; reflexivity).
  unfold encode. destruct u.
  - rewrite Hv. exists (utf8_enc a). split; [reflexivity|]. repeat split; assumption.
  - assert (Ha : is_ascii_text a = true) by (apply (forallb_imp (okc false)); [apply okc_ascii|exact Hok]).
    rewrite Ha. exists a. rewrite (enc_ascii a Ha) in *. split; [reflexivity|]. repeat split; assumption.
Qed.

Lemma encode_mailbox : forall u a, wf_mailbox u a = true -> exists bs, encode u a = Some bs /\ wire_ok a bs.
Proof. intros u a H. destruct (wf_mailbox_scan u a H) as [H1 H2]. apply encode_wf_chars; assumption. Qed.

Lemma encode_sender : forall u a, wf_sender u a = true -> exists bs, encode u a = Some bs /\ wire_ok a bs.
Proof.
  intros u a H. destruct a as [|c s].
  - apply encode_wf_chars; reflexivity.
  - apply encode_mailbox. exact H.
Qed.

(* ====================================================================== *)
(* 4.  MAIL / RCPT: what the client writes is what the server reads        *)
(* ====================================================================== *)

Lemma take_line_nolf : forall l r, nolf l -> take_line (l ++ 10 :: r) = Some (l, r).
Proof.
  induction l as [|b l IH]; intros r H; [reflexivity|].
  inversion H as [|? ? Hb Hl]; subst. cbn [app take_line].
  destruct (N.eqb_spec b 10) as [E|E]; [contradiction|]. rewrite (IH r Hl). reflexivity.
Qed.

Lemma recv_line_sent : forall c t, nolf c -> recv_line (send_command c ++ t) = Some (c, t).
Proof.
  intros c t H. unfold recv_line, send_command.
  replace ((c ++ CRLF) ++ t) with ((c ++ [13]) ++ 10 :: t) by (unfold CRLF; rewrite <- !app_assoc; reflexivity).
  rewrite take_line_nolf.
  - rewrite strip_cr_snoc. reflexivity.
  - apply nolf_app. split; [exact H|]. constructor; [discriminate|constructor].
Qed.

Definition nonws (b : N) : bool := negb (is_ws b).

Lemma ends_ok_nonws : forall s, s <> [] -> forallb nonws s = true -> ends_ok is_ws s.
Proof.
  intros [|c r] Hne H; [contradiction|]. destruct (last_or_cons c r) as [s0 E]. rewrite E.
  apply ends_ok_last. rewrite E in H. rewrite forallb_app2 in H. apply andb_true_iff in H.
  destruct H as [_ H]. cbn in H. unfold nonws in H. destruct (is_ws (last_or c r)); [discriminate|reflexivity].
Qed.

Lemma parse_command_arg : forall name c rest,
  name <> [] -> forallb is_alpha name = true -> is_ws c = false -> ends_ok is_ws (c :: rest) ->
  parse_command (name ++ 32 :: c :: rest) = Cmd (upper name) (Some (c :: rest)).
Proof.
  intros name c rest Hne Ha Hc He. unfold parse_command.
  rewrite (span_app is_alpha name (32 :: c :: rest) Ha) by reflexivity.
  destruct name as [|n0 name']; [contradiction|].
  change (is_ws 32) with true. cbn [drop_while]. change (is_ws 32) with true. cbn iota. rewrite Hc.
  rewrite (ends_ok_rstrip is_ws (c :: rest) He). reflexivity.
Qed.

Definition FROM_LT : bytes := [70; 82; 79; 77; 58; 60].
Definition TO_LT : bytes := [84; 79; 58; 60].

Lemma match_from_lit : forall x, match_from (FROM_LT ++ x) = Some x.
Proof. reflexivity. Qed.
Lemma match_to_lit : forall x, match_to (TO_LT ++ x) = Some x.
Proof. reflexivity. Qed.

(* ---- _gather_params on what the client appends ---- *)
Lemma gp_nil : forall f pw acc, gp f pw [] acc = acc.
Proof. destruct f; reflexivity. Qed.

Lemma gp_space : forall f pw s acc, gp (S f) pw (32 :: s) acc = gp f false s acc.
Proof. reflexivity. Qed.

Lemma gp_kv : forall f c k v r acc,
  is_alnum c = true -> forallb is_kwchar (c :: k) = true ->
  v <> [] -> forallb is_valchar v = true -> stops is_valchar r ->
  gp (S f) false ((c :: k) ++ 61 :: v ++ r) acc
  = gp f (is_word (last_or 0 v)) r (p_set (upper (c :: k)) (PVal v) acc).
Proof.
  intros f c k v r acc Hc Hk Hv Hval Hr. cbn [gp app]. rewrite Hc. cbn [negb andb].
  change (c :: k ++ 61 :: v ++ r) with ((c :: k) ++ 61 :: v ++ r).
  rewrite (span_app is_kwchar (c :: k) (61 :: v ++ r) Hk) by reflexivity.
  cbn iota beta. change (61 =? 61) with true. cbn iota.
  rewrite (span_app is_valchar v r Hval Hr). destruct v as [|v0 v']; [contradiction|]. reflexivity.
Qed.

Lemma gp_k_end : forall f c k acc,
  is_alnum c = true -> forallb is_kwchar (c :: k) = true ->
  gp (S f) false ((c :: k) ++ [61]) acc = p_set (upper (c :: k)) PTrue acc.
Proof.
  intros f c k acc Hc Hk. cbn [gp app]. rewrite Hc. cbn [negb andb].
  change (c :: k ++ [61]) with ((c :: k) ++ [61]).
  rewrite (span_app is_kwchar (c :: k) [61] Hk) by reflexivity.
  cbn iota beta. change (61 =? 61) with true. cbn iota. cbn [span].
  destruct f as [|f]; [reflexivity|]. cbn [gp]. change (is_alnum 61) with false. cbn [andb]. apply gp_nil.
Qed.

(* fuel: anything above the length of the text gives the same result *)
Lemma span_length : forall p s a r, span p s = (a, r) -> length s = (length a + length r)%nat.
Proof.
  induction s as [|c s IH]; intros a r H; cbn [span] in H.
  - inversion H; subst. reflexivity.
  - destruct (p c).
    + destruct (span p s) as [a0 r0] eqn:E. inversion H; subst. cbn [length]. rewrite (IH a0 r eq_refl). reflexivity.
    + inversion H; subst. reflexivity.
Qed.

Lemma gp_fuel : forall f1 f2 pw s acc, (length s < f1)%nat -> (length s < f2)%nat ->
  gp f1 pw s acc = gp f2 pw s acc.
Proof.
  induction f1 as [|f1 IH]; intros f2 pw s acc H1 H2; [lia|].
  destruct f2 as [|f2]; [lia|]. cbn [gp].
  destruct s as [|c s']; [reflexivity|]. cbn [length] in H1, H2.
  destruct (is_alnum c && negb pw) eqn:Ec.
  - destruct (span is_kwchar (c :: s')) as [kw r1] eqn:Es.
    pose proof (span_length _ _ _ _ Es) as L1. cbn [length] in L1.
    assert (Hkw : (1 <= length kw)%nat).
    { cbn [span] in Es. assert (is_kwchar c = true).
      { apply andb_true_iff in Ec. destruct Ec as [Ec _]. unfold is_kwchar. rewrite Ec. reflexivity. }
      rewrite H in Es. destruct (span is_kwchar s') as [a0 r0]. inversion Es; subst. cbn [length]. lia. }
    destruct r1 as [|eq r2]; [reflexivity|]. cbn [length] in L1.
    destruct (eq =? 61).
    + destruct (span is_valchar r2) as [v r3] eqn:Ev.
      pose proof (span_length _ _ _ _ Ev) as L2.
      destruct v as [|v0 v']; apply IH; cbn [length] in *; lia.
    + apply IH; cbn [length]; lia.
  - apply IH; lia.
Qed.

(* decimal digits *)
Lemma dec_loop_shape : forall fuel n acc, exists p, dec_loop fuel n acc = p ++ acc /\ forallb is_digit p = true.
Proof.
  induction fuel as [|f IH]; intros n acc.
  - exists []. split; reflexivity.
  - cbn [dec_loop]. assert (Hd : is_digit (48 + n mod 10) = true) by (unfold is_digit; lia).
    destruct (n <? 10).
    + exists [48 + n mod 10]. split; [reflexivity|]. cbn [forallb]. rewrite Hd. reflexivity.
    + destruct (IH (n / 10) ((48 + n mod 10) :: acc)) as [p [E Hp]].
      exists (p ++ [48 + n mod 10]). rewrite E, <- app_assoc. split; [reflexivity|].
      rewrite forallb_app2, Hp. cbn [forallb]. rewrite Hd. reflexivity.
Qed.

Lemma dec_of_N_digits : forall n, dec_of_N n <> [] /\ forallb is_digit (dec_of_N n) = true.
Proof.
  intro n. unfold dec_of_N. cbn [dec_loop].
  assert (Hd : is_digit (48 + n mod 10) = true) by (unfold is_digit; lia).
  destruct (n <? 10).
  - split; [discriminate|]. cbn [forallb]. rewrite Hd. reflexivity.
  - destruct (dec_loop_shape (N.to_nat (N.size n)) (n / 10) [48 + n mod 10]) as [p [E Hp]]. rewrite E.
    split; [destruct p; discriminate|]. rewrite forallb_app2, Hp. cbn [forallb]. rewrite Hd. reflexivity.
Qed.

Lemma digit_valchar : forall c, is_digit c = true -> is_valchar c = true.
Proof. intros c H. unfold is_digit in H. unfold is_valchar. lia. Qed.
Lemma valchar_nonws : forall c, is_valchar c = true -> nonws c = true.
Proof. intros c H. unfold is_valchar in H. unfold nonws, is_ws. lia. Qed.
Lemma valchar_ge32 : forall c, is_valchar c = true -> 32 <= c.
Proof. intros c H. unfold is_valchar in H. lia. Qed.

Lemma hexd_valchar : forall d, d < 16 -> is_valchar (hexd d) = true.
Proof. intros d H. unfold hexd, is_valchar. destruct (d <? 10) eqn:E; lia. Qed.

Lemma xtext_valchar : forall x, Forall is_byte x -> forallb is_valchar (xtext x) = true.
Proof.
  induction 1 as [|b x Hb Hx IH]; [reflexivity|]. unfold xtext in *. cbn [flat_map]. rewrite forallb_app2, IH, andb_true_r.
  unfold xtext1. unfold is_byte in Hb. destruct (xtext_plain b) eqn:E.
  - cbn [forallb]. unfold xtext_plain in E. unfold is_valchar. lia.
  - cbn [forallb]. rewrite !hexd_valchar by lia. reflexivity.
Qed.

(* the parameters the server ends up with *)
Definition size_params (e : exts) (size : option N) : params :=
  match size with
  | Some n => if ext_mem X_SIZE e then [(X_SIZE, PVal (dec_of_N n))] else []
  | None => []
  end.
Definition auth_value (x : bytes) : pval := match xtext x with [] => PTrue | _ :: _ => PVal (xtext x) end.
Definition auth_params (e : exts) (auth : option (option text)) : params :=
  match auth with
  | Some au =>
      if ext_mem X_AUTH e then
        match au with
        | None => [(X_AUTH, PVal [60; 62])]
        | Some t => match encode (ext_mem X_SMTPUTF8 e) t with
                    | Some x => [(X_AUTH, auth_value x)]
                    | None => []
                    end
        end
      else []
  | None => []
  end.
Definition mail_params (e : exts) (size : option N) (auth : option (option text)) : params :=
  size_params e size ++ auth_params e auth.
(* the AUTH= mailbox, when there is one, can be encoded *)
Definition auth_ok (e : exts) (auth : option (option text)) : Prop :=
  match auth with
  | Some (Some t) => ext_mem X_AUTH e = true -> encode (ext_mem X_SMTPUTF8 e) t <> None
  | _ => True
  end.

Lemma encode_bytes : forall u t x, encode u t = Some x -> Forall is_byte x.
Proof.
  intros u t x H. unfold encode in H. destruct u.
  - destruct (forallb valid_cp t) eqn:E; [|discriminate]. inversion H; subst.
    apply enc_forall. intros c Hin. apply enc1_byte. exact (proj1 (forallb_forall _ t) E c Hin).
  - destruct (is_ascii_text t) eqn:E; [|discriminate]. inversion H; subst.
    apply Forall_forall. intros c Hin. pose proof (proj1 (forallb_forall _ x) E c Hin) as Hc. unfold is_byte. cbn beta in Hc. lia.
Qed.

(* one optional piece " KEY=value" appended by the client *)
Definition piece (key v : bytes) : bytes := 32 :: key ++ 61 :: v.

(* facts about a tail made of such pieces: bytes >= 32, does not end in white
   space (after the ">"), and what _gather_params makes of it (any fuel) *)
Record tail_facts (tl : bytes) (acc ps : params) : Prop := {
  tf_ge32 : Forall (fun b => 32 <= b) tl;
  tf_ends : tl = [] \/ ends_ok is_ws tl;
  tf_params : forall f pw, (length tl < f)%nat -> gp f pw tl acc = ps
}.

Lemma tail_nil : forall acc, tail_facts [] acc acc.
Proof. intro acc. constructor; [constructor|left; reflexivity|intros; apply gp_nil]. Qed.

Lemma tail_piece : forall kc kr v tl acc ps,
  is_alnum kc = true -> forallb is_kwchar (kc :: kr) = true -> forallb (fun b => 32 <=? b) (kc :: kr) = true ->
  forallb is_valchar v = true ->
  (tl = [] \/ exists r, tl = 32 :: r) ->
  tail_facts tl (p_set (upper (kc :: kr)) (match v with [] => PTrue | _ => PVal v end) acc) ps ->
  (v = [] -> tl = []) ->
  tail_facts (piece (kc :: kr) v ++ tl) acc ps.
Proof.
  intros kc kr v tl acc ps Hc Hk Hk32 Hv Htl [T1 T2 T3] Hvt.
  constructor.
  - unfold piece. change (32 :: (kc :: kr) ++ 61 :: v) with ([32] ++ (kc :: kr) ++ [61] ++ v).
    rewrite !Forall_app. repeat split; try exact T1.
    + repeat constructor; lia.
    + apply Forall_forall. intros b Hin. pose proof (proj1 (forallb_forall _ _) Hk32 b Hin) as Hb. cbn beta in Hb. lia.
    + repeat constructor; lia.
    + apply Forall_forall. intros b Hin. apply valchar_ge32. exact (proj1 (forallb_forall _ _) Hv b Hin).
  - right. destruct T2 as [->|T2].
    + rewrite app_nil_r. unfold piece. change (32 :: (kc :: kr) ++ 61 :: v) with ((32 :: kc :: kr) ++ 61 :: v).
      apply ends_ok_app. apply ends_ok_nonws; [discriminate|]. cbn [forallb].
      rewrite (forallb_imp is_valchar nonws _ valchar_nonws Hv). reflexivity.
    + apply ends_ok_app. exact T2.
  - intros f pw Hf. unfold piece in *.
    assert (L : length ((32 :: (kc :: kr) ++ 61 :: v) ++ tl) = S (S (length kr) + S (length v + length tl))).
    { repeat (rewrite app_length || cbn [length app]). lia. }
    rewrite L in Hf. clear L. cbn [app].
    destruct f as [|f]; [lia|]. rewrite gp_space.
    destruct f as [|f]; [lia|].
    destruct v as [|v0 v'].
    + rewrite (Hvt eq_refl) in *. rewrite app_nil_r. change (kc :: kr ++ [61]) with ((kc :: kr) ++ [61]).
      rewrite gp_k_end by assumption. rewrite <- (T3 1%nat false ltac:(cbn; lia)). rewrite gp_nil. reflexivity.
    + rewrite <- app_assoc. cbn [app]. change (kc :: kr ++ 61 :: v0 :: v' ++ tl) with ((kc :: kr) ++ 61 :: (v0 :: v') ++ tl).
      rewrite gp_kv; [|exact Hc|exact Hk|discriminate|exact Hv|].
      * apply T3. cbn [length] in Hf. lia.
      * destruct Htl as [->|[r ->]]; [exact I|reflexivity].
Qed.

Lemma auth_tail : forall e auth ap acc, auth_part e auth = Some ap ->
  (forall v, p_set X_AUTH v acc = acc ++ [(X_AUTH, v)]) ->
  tail_facts ap acc (acc ++ auth_params e auth) /\ (ap = [] \/ exists r, ap = 32 :: r).
Proof.
  intros e auth ap acc Hap Hset. unfold auth_part in Hap. unfold auth_params.
  assert (Hn : tail_facts [] acc (acc ++ []) /\ (@nil N = [] \/ exists r, @nil N = 32 :: r)).
  { rewrite app_nil_r. split; [apply tail_nil|left; reflexivity]. }
  destruct auth as [au|]; [|inversion Hap; subst; exact Hn].
  destruct (ext_mem X_AUTH e); [|inversion Hap; subst; exact Hn].
  destruct au as [t|].
  - destruct (encode (ext_mem X_SMTPUTF8 e) t) as [x|] eqn:Ex; [|discriminate].
    assert (Eap : ap = AUTH_EQ ++ xtext x) by congruence. subst ap. clear Hap.
    pose proof (xtext_valchar x (encode_bytes _ _ _ Ex)) as Hv.
    split; [|right; eexists; reflexivity].
    change (AUTH_EQ ++ xtext x) with (piece (65 :: [85; 84; 72]) (xtext x)).
    rewrite <- (app_nil_r (piece (65 :: [85; 84; 72]) (xtext x))).
    apply tail_piece; [reflexivity|reflexivity|reflexivity|exact Hv|left; reflexivity| |reflexivity].
    change (upper [65; 85; 84; 72]) with X_AUTH. rewrite Hset. unfold auth_value. apply tail_nil.
  - assert (Eap : ap = AUTH_EQ ++ [60; 62]) by congruence. subst ap. clear Hap.
    split; [|right; eexists; reflexivity].
    change (AUTH_EQ ++ [60; 62]) with (piece (65 :: [85; 84; 72]) [60; 62]).
    rewrite <- (app_nil_r (piece (65 :: [85; 84; 72]) [60; 62])).
    apply tail_piece; [reflexivity|reflexivity|reflexivity|reflexivity|left; reflexivity| |discriminate].
    change (upper [65; 85; 84; 72]) with X_AUTH. rewrite Hset. apply tail_nil.
Qed.

Lemma mail_tail : forall e size auth ap, auth_part e auth = Some ap ->
  tail_facts (size_part e size ++ ap) [] (mail_params e size auth).
Proof.
  intros e size auth ap Hap. unfold mail_params, size_part, size_params.
  assert (H0 : tail_facts ap [] ([] ++ auth_params e auth)).
  { apply (auth_tail e auth ap [] Hap). reflexivity. }
  destruct size as [n|]; [|exact H0]. destruct (ext_mem X_SIZE e); [|exact H0].
  destruct (dec_of_N_digits n) as [Dne Dd].
  pose proof (forallb_imp is_digit is_valchar _ digit_valchar Dd) as Dv.
  destruct (auth_tail e auth ap [(X_SIZE, PVal (dec_of_N n))] Hap) as [T Hsh]; [reflexivity|].
  change (SIZE_EQ ++ dec_of_N n) with (piece (83 :: [73; 90; 69]) (dec_of_N n)).
  apply tail_piece; [reflexivity|reflexivity|reflexivity|exact Dv|exact Hsh| |intro E; contradiction].
  change (upper [83; 73; 90; 69]) with X_SIZE.
  destruct (dec_of_N n) as [|d0 ds]; [contradiction|]. exact T.
Qed.

Lemma ge32_nolf : forall s, Forall (fun b => 32 <= b) s -> nolf s.
Proof. intros s H. unfold nolf. eapply Forall_impl; [|exact H]. intros b Hb. cbn beta in Hb. lia. Qed.

(* the generic step: a command "NAME SP prefix< addr > tail" through the server *)
Lemma path_line : forall (name pfx : bytes) (m : bytes -> option bytes) a bs tl ps t,
  name <> [] -> forallb is_alpha name = true ->
  (exists p0 pr, pfx = p0 :: pr /\ is_ws p0 = false) ->
  Forall (fun b => 32 <= b) pfx ->
  (forall x, m (pfx ++ x) = Some x) ->
  wire_ok a bs -> tail_facts tl [] ps ->
  recv_line (send_command (name ++ 32 :: pfx ++ bs ++ [62] ++ tl) ++ t)
    = Some (name ++ 32 :: pfx ++ bs ++ [62] ++ tl, t)
  /\ parse_command (name ++ 32 :: pfx ++ bs ++ [62] ++ tl) = Cmd (upper name) (Some (pfx ++ bs ++ [62] ++ tl))
  /\ parse_path m (pfx ++ bs ++ [62] ++ tl) = AOk a ps.
Proof.
  intros name pfx m a bs tl ps t Hne Ha [p0 [pr [Ep Hp0]]] Hp32 Hm [Hdec [Hb [_ Hq]]] [T1 T2 T3].
  split; [|split].
  - apply recv_line_sent. apply ge32_nolf.
    apply Forall_app. split.
    + apply Forall_forall. intros b Hin. pose proof (proj1 (forallb_forall _ _) Ha b Hin) as Hal.
      unfold is_alpha, is_upper, is_lower in Hal. lia.
    + constructor; [lia|]. rewrite !Forall_app. repeat split; try assumption.
      * eapply Forall_impl; [|exact Hb]. intros b Hb'. cbn beta in Hb'. lia.
      * repeat constructor; lia.
  - subst pfx. rewrite <- app_comm_cons. apply parse_command_arg; try assumption.
    rewrite app_comm_cons. apply ends_ok_app. apply ends_ok_app.
    destruct T2 as [->|T2]; [apply (ends_ok_last is_ws [] 62); reflexivity|apply (ends_ok_app is_ws [62]), T2].
  - unfold parse_path. rewrite Hm. cbn [app]. rewrite (find_gt_end bs tl Hq). rewrite Hdec.
    unfold gather_params. rewrite (T3 (S (length tl)) false (Nat.lt_succ_diag_r _)). reflexivity.
Qed.

Theorem mail_roundtrip : forall e a size auth,
  wf_sender (ext_mem X_SMTPUTF8 e) a = true -> auth_ok e auth ->
  exists line, build_mail e a size auth = Some line /\
    forall t, server_line (send_command line ++ t) = LMail (AOk a (mail_params e size auth)) t.
Proof.
  intros e a size auth Hwf Hau.
  destruct (encode_sender _ a Hwf) as [bs [Hen Hw]].
  assert (Hap : exists ap, auth_part e auth = Some ap).
  { unfold auth_part. unfold auth_ok in Hau. destruct auth as [[tx|]|]; try (eexists; reflexivity).
    - destruct (ext_mem X_AUTH e); [|eexists; reflexivity].
      destruct (encode (ext_mem X_SMTPUTF8 e) tx); [eexists; reflexivity|]. exfalso. apply Hau; reflexivity.
    - destruct (ext_mem X_AUTH e); eexists; reflexivity. }
  destruct Hap as [ap Hap].
  unfold build_mail. rewrite Hen, Hap. eexists. split; [reflexivity|]. intro t.
  pose proof (mail_tail e size auth ap Hap) as HT.
  destruct (path_line C_MAIL FROM_LT match_from a bs (size_part e size ++ ap) _ t
              ltac:(discriminate) eq_refl ltac:(exists 70, [82; 79; 77; 58; 60]; split; reflexivity)
              ltac:(repeat constructor; lia) match_from_lit Hw HT) as [L1 [L2 L3]].
  change (MAIL_FROM ++ bs ++ [62] ++ size_part e size ++ ap)
    with (C_MAIL ++ 32 :: FROM_LT ++ bs ++ [62] ++ size_part e size ++ ap).
  unfold server_line. rewrite L1, L2. change (upper C_MAIL) with C_MAIL.
  change (beqb C_MAIL C_MAIL) with true. cbn iota. unfold parse_mail. rewrite L3. reflexivity.
Qed.

Theorem rcpt_roundtrip : forall e a,
  wf_mailbox (ext_mem X_SMTPUTF8 e) a = true ->
  exists line, build_rcpt e a = Some line /\
    forall t, server_line (send_command line ++ t) = LRcpt (AOk a []) t.
Proof.
  intros e a Hwf. destruct (encode_mailbox _ a Hwf) as [bs [Hen Hw]].
  unfold build_rcpt. rewrite Hen. eexists. split; [reflexivity|]. intro t.
  destruct (path_line C_RCPT TO_LT match_to a bs [] [] t
              ltac:(discriminate) eq_refl ltac:(exists 84, [79; 58; 60]; split; reflexivity)
              ltac:(repeat constructor; lia) match_to_lit Hw (tail_nil [])) as [L1 [L2 L3]].
  rewrite !app_nil_r in *.
  change (RCPT_TO ++ bs ++ [62]) with (C_RCPT ++ 32 :: TO_LT ++ bs ++ [62]).
  unfold server_line. rewrite L1, L2. change (upper C_RCPT) with C_RCPT.
  change (beqb C_RCPT C_MAIL) with false. change (beqb C_RCPT C_RCPT) with true. cbn iota.
  unfold parse_rcpt. rewrite L3. reflexivity.
Qed.

(* what the repair of D16 is needed for: the unrepaired scanner cuts a valid
   mailbox at the first greater-than sign that follows a quoted pair;
   the witness is the mailbox  DQUOTE a BACKSLASH DQUOTE b GT c DQUOTE @ x *)
Definition d16_witness : text := [34; 97; 92; 34; 98; 62; 99; 34; 64; 120].
Definition d16_arg : bytes := FROM_LT ++ d16_witness ++ [62].
Lemma d16_unrepaired :
  wf_mailbox false d16_witness = true /\
  build_mail [] d16_witness None None = Some (C_MAIL ++ 32 :: d16_arg) /\
  parse_mail_d16 d16_arg = AOk [34; 97; 92; 34; 98] [([67], PTrue); ([88], PTrue)] /\
  parse_mail d16_arg = AOk d16_witness [].
Proof. repeat split; vm_compute; reflexivity. Qed.

(* ====================================================================== *)
(* 5.  HTTP: envelope headers and the reply header                         *)
(* ====================================================================== *)

Definition b64t (t : text) : text := b64enc (utf8_enc t).

Lemma valid_enc_bytes : forall t, forallb valid_cp t = true -> Forall is_byte (utf8_enc t).
Proof. intros t H. apply enc_forall. intros c Hin. apply enc1_byte. exact (proj1 (forallb_forall _ t) H c Hin). Qed.

Lemma b64c_not_space : forall c, b64c c = true -> uspace c = false.
Proof.
  intros c H. apply (not_space_of_ranges [(43, 43); (47, 57); (61, 61); (65, 90); (97, 122)]); [vm_compute; reflexivity|].
  unfold b64c, is_alnum, is_alpha, is_upper, is_lower, is_digit in H. cbn [in_ranges]. lia.
Qed.
Lemma b64c_not_sep : forall c, b64c c = true -> is_sepc c = false.
Proof. intros c H. unfold b64c, is_alnum, is_alpha, is_upper, is_lower, is_digit in H. unfold is_sepc. lia. Qed.
Lemma b64c_ascii : forall c, b64c c = true -> (c <? 128) = true.
Proof. intros c H. unfold b64c, is_alnum, is_alpha, is_upper, is_lower, is_digit in H. lia. Qed.

Lemma r_b64encode_ok : forall t, forallb valid_cp t = true -> r_b64encode t = Some (b64t t).
Proof. intros t H. unfold r_b64encode. rewrite H. reflexivity. Qed.

Lemma b64t_chars : forall t, forallb valid_cp t = true -> forallb b64c (b64t t) = true.
Proof. intros t H. apply b64enc_chars, valid_enc_bytes, H. Qed.

Lemma w_b64decode_ok : forall t, forallb valid_cp t = true -> w_b64decode (b64t t) = DOk t.
Proof.
  intros t H. unfold w_b64decode.
  assert (Ha : is_ascii_text (b64t t) = true).
  { unfold is_ascii_text. apply (forallb_imp b64c); [apply b64c_ascii|apply b64t_chars, H]. }
  rewrite Ha. unfold b64t. rewrite (b64_roundtrip _ (valid_enc_bytes t H)).
  rewrite Reply_lemmas.utf8_dec_enc by (apply Forall_forallb; exact H). reflexivity.
Qed.

(* a merge separator the edge's split pattern  \s*[,;]\s*  matches as a whole *)
Definition sep_ok (sep : text) : Prop :=
  exists w1 s w2, sep = w1 ++ s :: w2 /\ forallb uspace w1 = true /\ is_sepc s = true /\ forallb uspace w2 = true.

Lemma sepc_not_space : forall s, is_sepc s = true -> uspace s = false.
Proof.
  intros s H. unfold is_sepc in H. assert (s = 44 \/ s = 59) as [->| ->] by lia; vm_compute; reflexivity.
Qed.

Lemma try_sep_b64 : forall c s, b64c c = true -> try_sep (c :: s) = None.
Proof.
  intros c s H. unfold try_sep. rewrite drop_while_stop by (apply b64c_not_space, H).
  rewrite (b64c_not_sep c H). reflexivity.
Qed.

Lemma try_sep_sep : forall sep rest, sep_ok sep -> stops uspace rest -> try_sep (sep ++ rest) = Some rest.
Proof.
  intros sep rest [w1 [s [w2 [E [H1 [Hs H2]]]]]] St. subst sep. unfold try_sep.
  rewrite <- app_assoc. rewrite drop_while_all by exact H1. cbn [app].
  rewrite drop_while_stop by (apply sepc_not_space, Hs). rewrite Hs.
  rewrite drop_while_all by exact H2. destruct rest as [|c r]; [reflexivity|].
  cbn in St. rewrite drop_while_stop by exact St. reflexivity.
Qed.

Lemma split_first_piece : forall x sep rest, forallb b64c x = true -> sep_ok sep -> stops uspace rest ->
  split_first (x ++ sep ++ rest) = (x, Some rest).
Proof.
  induction x as [|c x IH]; intros sep rest Hx Hs St.
  - cbn [app]. destruct (sep ++ rest) as [|c0 r0] eqn:E.
    + destruct Hs as [w1 [s [w2 [E2 _]]]]. subst sep. destruct w1; discriminate.
    + cbn [split_first]. rewrite <- E. rewrite (try_sep_sep sep rest Hs St). reflexivity.
  - cbn [forallb] in Hx. apply andb_true_iff in Hx. destruct Hx as [Hc Hx].
    cbn [app split_first]. rewrite (try_sep_b64 c _ Hc). rewrite (IH sep rest Hx Hs St). reflexivity.
Qed.

Lemma split_first_last : forall x, forallb b64c x = true -> split_first x = (x, None).
Proof.
  induction x as [|c x IH]; intro Hx; [reflexivity|].
  cbn [forallb] in Hx. apply andb_true_iff in Hx. destruct Hx as [Hc Hx].
  cbn [split_first]. rewrite (try_sep_b64 c _ Hc), (IH Hx). reflexivity.
Qed.

Definition b64piece (x : text) : Prop := x <> [] /\ forallb b64c x = true.

Lemma re_split_join : forall sep xs f, sep_ok sep -> xs <> [] -> Forall b64piece xs -> (length xs <= f)%nat ->
  re_split f (join sep xs) = xs.
Proof.
  intros sep xs. induction xs as [|x xs IH]; intros f Hs Hne F L; [contradiction|].
  inversion F as [|? ? [Hx1 Hx2] Fx]; subst.
  destruct f as [|f]; [cbn in L; lia|]. cbn [length] in L.
  destruct xs as [|x2 xs'].
  - cbn [join re_split]. rewrite (split_first_last x Hx2). reflexivity.
  - rewrite join_cons by discriminate. cbn [re_split].
    assert (St : stops uspace (join sep (x2 :: xs'))).
    { inversion Fx as [|? ? [Hy1 Hy2] _]; subst. destruct x2 as [|y0 y']; [contradiction|].
      cbn [forallb] in Hy2. apply andb_true_iff in Hy2. destruct Hy2 as [Hy0 _].
      destruct xs'; cbn; apply b64c_not_space, Hy0. }
    rewrite (split_first_piece x sep _ Hx2 Hs St).
    rewrite IH; [reflexivity|exact Hs|discriminate|exact Fx|cbn [length] in *; lia].
Qed.

Lemma join_length : forall sep xs, Forall b64piece xs -> (length xs <= length (join sep xs))%nat.
Proof.
  intros sep xs. induction xs as [|x xs IH]; intro F; [cbn; lia|].
  inversion F as [|? ? [Hx1 _] Fx]; subst. destruct x as [|x0 x']; [contradiction|].
  destruct xs as [|x2 xs'].
  - cbn. lia.
  - rewrite join_cons by discriminate. specialize (IH Fx). rewrite !app_length. cbn [length] in *. lia.
Qed.

Lemma decode_all_ok : forall rs, Forall (fun r => forallb valid_cp r = true) rs ->
  decode_all (map b64t rs) = RcOk rs.
Proof.
  induction 1 as [|r rs Hr Hrs IH]; [reflexivity|]. cbn [map decode_all].
  rewrite (w_b64decode_ok r Hr), IH. reflexivity.
Qed.

Lemma omap_b64 : forall rs, Forall (fun r => forallb valid_cp r = true) rs ->
  omap r_b64encode rs = Some (map b64t rs).
Proof.
  induction 1 as [|r rs Hr Hrs IH]; [reflexivity|]. cbn [omap map]. rewrite (r_b64encode_ok r Hr), IH. reflexivity.
Qed.

Lemma filter_rcpt_all : forall vs,
  filter (fun h : text * text => beqb (cgi_name (fst h)) (cgi_name H_RCPT)) (map (fun r => (H_RCPT, r)) vs)
  = map (fun r => (H_RCPT, r)) vs.
Proof. induction vs as [|v vs IH]; [reflexivity|]. cbn [map filter fst]. rewrite beqb_refl, IH. reflexivity. Qed.

Lemma filter_rcpt_none : forall vs,
  filter (fun h : text * text => beqb (cgi_name (fst h)) (cgi_name H_SENDER)) (map (fun r => (H_RCPT, r)) vs) = [].
Proof.
  induction vs as [|v vs IH]; [reflexivity|]. cbn [map filter fst].
  change (beqb (cgi_name H_RCPT) (cgi_name H_SENDER)) with false. exact IH.
Qed.

Lemma map_snd_rcpt : forall vs : list text, map snd (map (fun r => (H_RCPT, r)) vs) = vs.
Proof. induction vs as [|v vs IH]; [reflexivity|]. cbn. rewrite IH. reflexivity. Qed.

(* valid text that is not empty: what a recipient is at least *)
Definition rcpt_text (r : text) : Prop := r <> [] /\ forallb valid_cp r = true.

Lemma b64t_piece : forall r, rcpt_text r -> b64piece (b64t r).
Proof.
  intros r [Hne Hv]. split; [|apply b64t_chars, Hv]. apply b64enc_nonempty.
  destruct r as [|c r]; [contradiction|]. rewrite enc_cons. unfold utf8_enc1.
  destruct (c <? 128); [discriminate|]. destruct (c <? 2048); [discriminate|]. destruct (c <? 65536); discriminate.
Qed.

Definition hdr_list (ehlo s : text) (vs : list text) (n : N) : list (text * text) :=
  (H_CLEN, dec_of_N n) :: (H_CTYPE, V_RFC822) :: (H_EHLO, ehlo) :: (H_SENDER, s) :: map (fun r => (H_RCPT, r)) vs.

Lemma environ_get_sender : forall sep ehlo s vs n,
  environ_get sep (hdr_list ehlo s vs n) (cgi_name H_SENDER) = Some s.
Proof.
  intros. unfold environ_get, hdr_list. cbn [filter fst].
  change (beqb (cgi_name H_CLEN) (cgi_name H_SENDER)) with false.
  change (beqb (cgi_name H_CTYPE) (cgi_name H_SENDER)) with false.
  change (beqb (cgi_name H_EHLO) (cgi_name H_SENDER)) with false.
  change (beqb (cgi_name H_SENDER) (cgi_name H_SENDER)) with true.
  cbn iota. rewrite filter_rcpt_none. reflexivity.
Qed.

Lemma environ_get_rcpt : forall sep ehlo s vs n, vs <> [] ->
  environ_get sep (hdr_list ehlo s vs n) (cgi_name H_RCPT) = Some (join sep vs).
Proof.
  intros sep ehlo s vs n Hne. unfold environ_get, hdr_list. cbn [filter fst].
  change (beqb (cgi_name H_CLEN) (cgi_name H_RCPT)) with false.
  change (beqb (cgi_name H_CTYPE) (cgi_name H_RCPT)) with false.
  change (beqb (cgi_name H_EHLO) (cgi_name H_RCPT)) with false.
  change (beqb (cgi_name H_SENDER) (cgi_name H_RCPT)) with false.
  cbn iota. rewrite filter_rcpt_all.
  destruct vs as [|v vs']; [contradiction|].
  change (map (fun r : text => (H_RCPT, r)) (v :: vs')) with ((H_RCPT, v) :: map (fun r : text => (H_RCPT, r)) vs').
  cbn iota. f_equal. f_equal.
  change ((H_RCPT, v) :: map (fun r : text => (H_RCPT, r)) vs') with (map (fun r : text => (H_RCPT, r)) (v :: vs')).
  apply map_snd_rcpt.
Qed.

Theorem http_envelope_roundtrip : forall sep ehlo sender rcpts h b,
  sep_ok sep -> forallb valid_cp sender = true -> rcpts <> [] -> Forall rcpt_text rcpts ->
  exists hs, build_headers ehlo sender rcpts h b = Some hs /\
             http_addresses sep hs = (DOk sender, RcOk rcpts).
Proof.
  intros sep ehlo sender rcpts h b Hs Hv Hne F.
  assert (Fv : Forall (fun r => forallb valid_cp r = true) rcpts).
  { eapply Forall_impl; [|exact F]. intros r [_ H]. exact H. }
  unfold build_headers. rewrite (r_b64encode_ok sender Hv), (omap_b64 rcpts Fv).
  eexists. split; [reflexivity|]. unfold http_addresses.
  change ((H_CLEN, dec_of_N (N.of_nat (length h + length b))) :: (H_CTYPE, V_RFC822) :: (H_EHLO, ehlo)
          :: (H_SENDER, b64t sender) :: map (fun r => (H_RCPT, r)) (map b64t rcpts))
    with (hdr_list ehlo (b64t sender) (map b64t rcpts) (N.of_nat (length h + length b))).
  assert (Hmne : map b64t rcpts <> []) by (destruct rcpts; [contradiction|discriminate]).
  rewrite environ_get_sender, (environ_get_rcpt _ _ _ _ _ Hmne).
  f_equal.
  - unfold get_sender. apply w_b64decode_ok, Hv.
  - assert (Fp : Forall b64piece (map b64t rcpts)).
    { apply Forall_forall. intros x Hx. apply in_map_iff in Hx. destruct Hx as [r [<- Hr]].
      apply b64t_piece. exact (proj1 (Forall_forall _ _) F r Hr). }
    unfold get_recipients.
    destruct (join sep (map b64t rcpts)) as [|j0 js] eqn:Ej.
    { pose proof (join_length sep _ Fp) as L. rewrite Ej in L. destruct rcpts; [contradiction|cbn in L; lia]. }
    rewrite <- Ej. rewrite (re_split_join sep _ _ Hs Hmne Fp).
    + apply decode_all_ok, Fv.
    + pose proof (join_length sep _ Fp). lia.
Qed.

(* ---- X-Smtp-Reply ---- *)
Definition code3 (code : text) : Prop :=
  exists d1 d2 d3, code = [d1; d2; d3] /\ 49 <= d1 <= 53 /\ is_digit d2 = true /\ is_digit d3 = true.

Lemma digit_udigit : forall d, is_digit d = true -> udigit d = true.
Proof.
  intros d H. unfold is_digit in H.
  assert (d = 48 \/ d = 49 \/ d = 50 \/ d = 51 \/ d = 52 \/ d = 53 \/ d = 54 \/ d = 55 \/ d = 56 \/ d = 57) by lia.
  repeat (destruct H0 as [->|H0]; [vm_compute; reflexivity|]). subst. vm_compute. reflexivity.
Qed.

Lemma uspace_59 : uspace 59 = false. Proof. vm_compute. reflexivity. Qed.

Theorem reply_header_code : forall code msg, code3 code ->
  parse_reply_header (build_reply_header code msg) = RHCode code.
Proof.
  intros code msg [d1 [d2 [d3 [E [H1 [H2 H3]]]]]]. subst code.
  assert (U1 : udigit d1 = true) by (apply digit_udigit; unfold is_digit; lia).
  pose proof (digit_udigit d2 H2) as U2. pose proof (digit_udigit d3 H3) as U3.
  unfold parse_reply_header, build_reply_header. cbn [app].
  rewrite drop_while_stop by (apply digit_space_disjoint, U1).
  rewrite U1, U2, U3. cbn [andb]. rewrite drop_while_stop by exact uspace_59.
  change (59 =? 59) with true. cbn iota.
  replace ((49 <=? d1) && (d1 <=? 53)) with true by lia. reflexivity.
Qed.

(* the class of a three-digit code decides what the relay reports *)
Definition report_of (code : text) : relay_report :=
  if starts_with [50] code then RepOk (Some code)
  else if starts_with [53] code then RepPermanent (Some code)
  else RepTransient (Some code).

Theorem http_code_reported : forall code msg, code3 code ->
  process_response (http_status code) (build_reply_header code msg) = report_of code.
Proof.
  intros code msg Hc. unfold process_response. rewrite (reply_header_code code msg Hc).
  destruct Hc as [d1 [d2 [d3 [E [H1 [H2 H3]]]]]]. subst code.
  unfold http_status, report_of. cbn [starts_with].
  destruct (N.eqb_spec 50 d1) as [E50|E50]; cbn [andb].
  - reflexivity.
  - destruct (N.eqb_spec 52 d1) as [E52|E52]; cbn [andb].
    + subst d1. reflexivity.
    + destruct (N.eqb_spec 53 d1) as [E53|E53]; cbn [andb].
      * destruct (beqb [d1; d2; d3] [53; 51; 53]); reflexivity.
      * replace (beqb [d1; d2; d3] [53; 51; 53]) with false; [reflexivity|].
        cbn [beqb]. destruct (N.eqb_spec d1 53); [exfalso; apply E53; symmetry; assumption|reflexivity].
Qed.

(* ====================================================================== *)
(* 6.  The hop: composition with C05 (DATA), C20 (envelope), C17 (replies) *)
(* ====================================================================== *)

Lemma wf_mailbox_text : forall u a, wf_mailbox u a = true -> rcpt_text a.
Proof.
  intros u a H. destruct (wf_mailbox_scan u a H) as [Hok _]. split.
  - intro E. subst. discriminate.
  - apply (forallb_imp (okc u)); [apply okc_valid|exact Hok].
Qed.

Lemma wf_sender_valid : forall u a, wf_sender u a = true -> forallb valid_cp a = true.
Proof.
  intros u [|c s] H; [reflexivity|]. exact (proj2 (wf_mailbox_text u (c :: s) H)).
Qed.

Lemma rcpt_lines_ok : forall ce rcpts,
  Forall (fun r => wf_mailbox (ext_mem X_SMTPUTF8 ce) r = true) rcpts ->
  rcpt_lines ce rcpts = Some rcpts /\ exists l, omap (build_rcpt ce) rcpts = Some l.
Proof.
  intros ce rcpts. induction 1 as [|r rs Hr Hrs [IH1 [l IH2]]]; [split; [reflexivity|exists []; reflexivity]|].
  destruct (rcpt_roundtrip ce r Hr) as [line [Hb Hl]]. cbn [rcpt_lines omap]. rewrite Hb.
  specialize (Hl []). rewrite app_nil_r in Hl. rewrite Hl, IH1, IH2. split; [reflexivity|eexists; reflexivity].
Qed.

Lemma gen_fields_last2 : forall fs B,
  Data.ends_crlf (Envelope.gen_fields fs ++ B) = true \/ Data.ends_crlf (Envelope.gen_fields fs ++ B) = false.
Proof. intros. destruct (Data.ends_crlf _); auto. Qed.

Lemma dot_parts_two : forall G B, (exists s, G = s ++ [10]) -> Data.dot_parts_at_bol [G; B].
Proof.
  intros G B [s Es] pre p post E. destruct pre as [|x pre].
  - left. reflexivity.
  - destruct pre as [|y pre].
    + cbn in E. inversion E; subst. right. exists s. cbn. rewrite app_nil_r. reflexivity.
    + exfalso. cbn in E. inversion E as [[E1 E2]]. destruct pre; discriminate.
Qed.

Section HopFacts.
  Variable hdr : Type.
  Variable hparse : bytes -> hdr * option bytes.
  Variable hgen : hdr -> bytes.
  Hypothesis Hcodec : Envelope.codec_ok hparse hgen.

  (* what the edge is given for the body B: B itself if the message ends with
     CRLF, else B followed by CRLF (C05) *)
  Definition body_received (fs : list Envelope.field) (B : bytes) : bytes :=
    if Data.ends_crlf (Envelope.gen_fields fs ++ B) then B else B ++ CRLF.

  Lemma expected_gen : forall fs B,
    Data.expected (Envelope.gen_fields fs ++ B) = Envelope.gen_fields fs ++ body_received fs B.
  Proof.
    intros fs B. unfold Data.expected, body_received.
    destruct (Envelope.gen_fields fs ++ B) as [|x m] eqn:E.
    - exfalso. unfold Envelope.gen_fields in E. destruct (Envelope.render _); discriminate.
    - rewrite <- E. destruct (Data.ends_crlf (Envelope.gen_fields fs ++ B)); [reflexivity|].
      rewrite <- app_assoc. reflexivity.
  Qed.

  Theorem smtp_hop_ok : forall ce fs blank B sender rcpts t buf chunks,
    Envelope.wf_block fs = true -> Envelope.blank_ok blank ->
    wf_sender (ext_mem X_SMTPUTF8 ce) sender = true ->
    Forall (fun r => wf_mailbox (ext_mem X_SMTPUTF8 ce) r = true) rcpts ->
    (ext_mem X_8BITMIME ce = false -> Envelope.has_8bit B = false) ->
    let e := Envelope.parse hdr hparse sender rcpts (Envelope.render fs ++ blank ++ B) in
    Forall (fun c => c <> []) chunks ->
    buf ++ concat chunks = data_wire hdr hgen e ++ t ->
    Envelope.flatten hdr hgen e = (Envelope.gen_fields fs, B) /\
    exists e', smtp_hop hdr hparse ce e buf chunks = Delivered e' /\
      Envelope.e_sender e' = sender /\ Envelope.e_rcpts e' = rcpts /\
      Envelope.flatten hdr hgen e' = (Envelope.gen_fields fs, body_received fs B) /\
      Envelope.join (Envelope.flatten hdr hgen e') = Data.expected (Envelope.join (Envelope.flatten hdr hgen e)).
  Proof.
    intros ce fs blank B sender rcpts t buf chunks Hwf Hbl Hs Hr H8 e Hch Hwire.
    destruct (Envelope_lemmas.parse_wf hdr hparse hgen Hcodec fs blank B sender rcpts Hwf Hbl) as (P1 & P2 & P3 & P4).
    fold e in P1, P2, P3, P4.
    assert (Hflat : Envelope.flatten hdr hgen e = (Envelope.gen_fields fs, B)).
    { unfold Envelope.flatten. rewrite P3, P4. reflexivity. }
    split; [exact Hflat|].
    unfold smtp_hop.
    (* _handle_encoding *)
    assert (H7 : negb (ext_mem X_8BITMIME ce) && negb (forallb Envelope.is_ascii (Envelope.e_message e)) = false).
    { rewrite P4, Envelope_lemmas.ascii_8bit. destruct (ext_mem X_8BITMIME ce); [reflexivity|].
      rewrite (H8 eq_refl). reflexivity. }
    rewrite H7.
    (* MAIL *)
    destruct (mail_roundtrip ce sender None (Some None) Hs I) as [mc [Hm Hl]].
    rewrite P1, Hm. specialize (Hl []). rewrite app_nil_r in Hl. rewrite Hl.
    (* RCPT *)
    destruct (rcpt_lines_ok ce rcpts Hr) as [R1 [l R2]]. rewrite P2, R2, R1.
    (* DATA *)
    unfold data_wire in Hwire. rewrite Hflat in Hwire.
    assert (Hd : Data.dot_parts_at_bol [Envelope.gen_fields fs; B]).
    { apply dot_parts_two. unfold Envelope.gen_fields, CRLF. exists (Envelope.render (Envelope.hnorm_fields fs) ++ [13]).
      rewrite <- app_assoc. reflexivity. }
    destruct (Data_lemmas.roundtrip [Envelope.gen_fields fs; B] t buf chunks Hd Hch Hwire) as [rb [rest [Hrecv _]]].
    rewrite Hrecv. cbn [concat]. rewrite app_nil_r. rewrite expected_gen.
    set (d := Envelope.gen_fields fs ++ body_received fs B).
    assert (Ed : d = Envelope.render (Envelope.hnorm_fields fs) ++ CRLF ++ body_received fs B)
      by (unfold d, Envelope.gen_fields; rewrite <- app_assoc; reflexivity).
    eexists. split; [reflexivity|]. rewrite Ed.
    destruct (Envelope_lemmas.parse_wf hdr hparse hgen Hcodec (Envelope.hnorm_fields fs) CRLF (body_received fs B) sender rcpts
                (Envelope_lemmas.wf_hnorm_fields fs Hwf) (Envelope_lemmas.crlf_blank_ok)) as (Q1 & Q2 & Q3 & Q4).
    split; [exact Q1|]. split; [exact Q2|].
    assert (Hf' : Envelope.flatten hdr hgen
                    (Envelope.parse hdr hparse sender rcpts
                       (Envelope.render (Envelope.hnorm_fields fs) ++ CRLF ++ body_received fs B))
                  = (Envelope.gen_fields fs, body_received fs B)).
    { unfold Envelope.flatten. rewrite Q3, Q4. unfold Envelope.gen_fields. rewrite Envelope_lemmas.hnorm_fields_idem. reflexivity. }
    split; [exact Hf'|]. rewrite Hf', Hflat. unfold Envelope.join. cbn [fst snd]. symmetry. apply expected_gen.
  Qed.

  Theorem http_hop_ok : forall sep ehlo fs blank B sender rcpts,
    Envelope.wf_block fs = true -> Envelope.blank_ok blank -> sep_ok sep ->
    forallb valid_cp sender = true -> rcpts <> [] -> Forall rcpt_text rcpts ->
    let e := Envelope.parse hdr hparse sender rcpts (Envelope.render fs ++ blank ++ B) in
    exists e', http_hop hdr hparse hgen sep ehlo e = Delivered e' /\
      Envelope.e_sender e' = sender /\ Envelope.e_rcpts e' = rcpts /\
      Envelope.flatten hdr hgen e' = Envelope.flatten hdr hgen e.
  Proof.
    intros sep ehlo fs blank B sender rcpts Hwf Hbl Hsep Hs Hne Hr e.
    destruct (Envelope_lemmas.parse_wf hdr hparse hgen Hcodec fs blank B sender rcpts Hwf Hbl) as (P1 & P2 & P3 & P4).
    fold e in P1, P2, P3, P4.
    assert (Hflat : Envelope.flatten hdr hgen e = (Envelope.gen_fields fs, B)).
    { unfold Envelope.flatten. rewrite P3, P4. reflexivity. }
    unfold http_hop. rewrite Hflat, P1, P2.
    destruct (http_envelope_roundtrip sep ehlo sender rcpts (Envelope.gen_fields fs) B Hsep Hs Hne Hr) as [hs [Hb Ha]].
    rewrite Hb, Ha. eexists. split; [reflexivity|].
    replace (Envelope.gen_fields fs ++ B) with (Envelope.render (Envelope.hnorm_fields fs) ++ CRLF ++ B)
      by (unfold Envelope.gen_fields; rewrite <- app_assoc; reflexivity).
    destruct (Envelope_lemmas.parse_wf hdr hparse hgen Hcodec (Envelope.hnorm_fields fs) CRLF B sender rcpts
                (Envelope_lemmas.wf_hnorm_fields fs Hwf) (Envelope_lemmas.crlf_blank_ok)) as (Q1 & Q2 & Q3 & Q4).
    split; [exact Q1|]. split; [exact Q2|].
    unfold Envelope.flatten at 1. rewrite Q3, Q4. unfold Envelope.gen_fields. rewrite Envelope_lemmas.hnorm_fields_idem. reflexivity.
  Qed.
End HopFacts.

(* ---- the extensions the client ends up with (EHLO reply over the wire, C17) ---- *)
Lemma norm_join : forall ls, Forall nolf ls -> norm (join CRLF ls) = join CRLF ls.
Proof.
  induction ls as [|l ls IH]; intro F; [reflexivity|]. inversion F as [|? ? Hl Hls]; subst.
  destruct ls as [|l2 ls'].
  - cbn [join]. apply Reply_lemmas.norm_nolf, Hl.
  - rewrite join_cons by discriminate.
    change (l ++ CRLF ++ join CRLF (l2 :: ls')) with (l ++ [13] ++ 10 :: join CRLF (l2 :: ls')).
    rewrite app_assoc. rewrite Reply_lemmas.norm_line.
    + rewrite strip_cr_snoc, (IH Hls). rewrite <- app_assoc. reflexivity.
    + apply nolf_app. split; [exact Hl|]. constructor; [discriminate|constructor].
Qed.

Definition exts_text_ok (e : exts) : Prop :=
  Forall (fun kv => Reply_lemmas.valid_text (fst kv) /\
                    match snd kv with Some v => Reply_lemmas.valid_text v | None => True end) e.

Lemma valid_join : forall ls, Forall Reply_lemmas.valid_text ls -> Reply_lemmas.valid_text (join CRLF ls).
Proof.
  induction ls as [|l ls IH]; intro F; [constructor|]. inversion F as [|? ? Hl Hls]; subst.
  destruct ls as [|l2 ls']; [exact Hl|]. rewrite join_cons by discriminate.
  unfold Reply_lemmas.valid_text in *. apply Forall_app. split; [exact Hl|].
  apply Forall_app. split; [repeat constructor|apply IH, Hls].
Qed.

Lemma ext_line_valid : forall kv,
  Reply_lemmas.valid_text (fst kv) -> match snd kv with Some v => Reply_lemmas.valid_text v | None => True end ->
  Reply_lemmas.valid_text (ext_line kv).
Proof.
  intros [k v] Hk Hv. unfold ext_line. cbn [fst snd] in *. destruct v as [[|c v]|]; try exact Hk.
  unfold Reply_lemmas.valid_text in *. apply Forall_app. split; [exact Hk|]. apply Forall_app. split; [repeat constructor|exact Hv].
Qed.

Theorem client_exts_ok : forall greeting adv t buf chunks,
  header_ok greeting -> Reply_lemmas.valid_text greeting -> wf_exts adv -> exts_text_ok adv ->
  Reply_lemmas.nonempty_chunks chunks ->
  buf ++ concat chunks = ehlo_reply_wire greeting adv ++ t ->
  client_exts false greeting adv buf chunks = Some adv.
Proof.
  intros g adv t buf chunks Hh Hvg Hw Hvt Hch Hwire. unfold client_exts, ehlo_reply_wire in *.
  assert (Hcode : Reply_lemmas.is_code [50; 53; 48]).
  { exists 50, 53, 48. repeat split; reflexivity. }
  destruct (Reply_lemmas.send_recv_inc [50; 53; 48] _ t buf chunks Hcode Hch Hwire) as [b' [ch' [Hr _]]].
  rewrite Hr. rewrite Reply_lemmas.norm_enc.
  assert (Fl : Forall nolf (g :: map ext_line adv)).
  { destruct Hh as [_ Hnl]. destruct Hw as [W _]. constructor; [exact Hnl|]. apply Forall_forall. intros l Hl.
    apply in_map_iff in Hl. destruct Hl as [[k v] [El Hin]]. subst l.
    pose proof (proj1 (forallb_forall _ adv) W (k, v) Hin) as Hkv. cbn [fst snd] in Hkv.
    apply andb_true_iff in Hkv. destruct Hkv as [Hk Hv]. apply ext_line_nolf; assumption. }
  unfold build_string. rewrite (norm_join _ Fl).
  rewrite Reply_lemmas.utf8_dec_enc.
  - fold (build_string g adv). rewrite (ext_roundtrip g adv Hh Hw). reflexivity.
  - apply valid_join. constructor; [exact Hvg|]. apply Forall_forall. intros l Hl.
    apply in_map_iff in Hl. destruct Hl as [kv [El Hin]]. subst l.
    destruct (proj1 (Forall_forall _ adv) Hvt kv Hin) as [H1 H2]. apply ext_line_valid; assumption.
Qed.

(* ====================================================================== *)
(* 7.  The hypotheses of the theorems are satisfiable                      *)
(* ====================================================================== *)

(* an EHLO text with parameters *)
Example ext_hyps : header_ok [72; 105] /\
  wf_exts [(X_8BITMIME, None); (X_SIZE, Some [49; 48; 48]); (X_AUTH, Some [80; 76; 65; 73; 78; 32; 76; 79; 71; 73; 78])]
  /\ exts_text_ok [(X_8BITMIME, None); (X_SIZE, Some [49; 48; 48]); (X_AUTH, Some [80; 76; 65; 73; 78; 32; 76; 79; 71; 73; 78])].
Proof.
  split; [split; [discriminate|repeat constructor; discriminate]|]. split.
  - split; [vm_compute; reflexivity|]. repeat constructor; cbn; intuition discriminate.
  - repeat constructor.
Qed.

(* quoted local part with a quoted pair and ">", UTF-8 mailbox, null sender *)
Example addr_hyps :
  wf_mailbox false d16_witness = true /\ wf_sender false [] = true /\
  wf_mailbox true [233; 64; 26085; 26412; 46; 106; 112] = true /\
  wf_mailbox false [97; 64; 91; 49; 57; 50; 46; 48; 46; 50; 46; 49; 93] = true /\
  auth_ok [(X_AUTH, None)] (Some (Some [117; 43; 61; 64; 120])).
Proof. repeat split; try (vm_compute; reflexivity). intros _. vm_compute. discriminate. Qed.

Example sep_hyps : sep_ok [44] /\ sep_ok [32; 59; 9] /\ rcpt_text d16_witness /\ code3 [52; 53; 49].
Proof.
  split; [exists [], 44, []; repeat split; reflexivity|].
  split; [exists [32], 59, [9]; repeat split; reflexivity|].
  split; [split; [discriminate|vm_compute; reflexivity]|].
  exists 52, 53, 49. repeat split; (reflexivity || lia).
Qed.

(* the hop: a two-field header block, an 8-bit body, the class codec of model/Envelope.v *)
Example hop_hyps :
  let fs := [Envelope.mkfield [83] [120] true []; Envelope.mkfield [84; 111] [97; 233] false [([32; 98], true)]] in
  Envelope.codec_ok Envelope.hparse_c Envelope.hgen_c /\
  Envelope.wf_block fs = true /\ Envelope.blank_ok [10] /\
  wf_sender (ext_mem X_SMTPUTF8 [(X_SMTPUTF8, None); (X_8BITMIME, None)]) [233; 64; 120] = true /\
  (ext_mem X_8BITMIME [(X_SMTPUTF8, None); (X_8BITMIME, None)] = false -> Envelope.has_8bit [46; 200; 10] = false).
Proof.
  cbv zeta. split; [exact Envelope_lemmas.codec_c_ok|]. split; [vm_compute; reflexivity|]. split; [left; reflexivity|].
  split; [vm_compute; reflexivity|]. intro H. vm_compute in H. discriminate.
Qed.

(* ---- str(n) is the decimal numeral of n ---- *)
Lemma dva_app : forall p a r, dec_val_acc a (p ++ r) = dec_val_acc (dec_val_acc a p) r.
Proof. induction p as [|d p IH]; intros a r; [reflexivity|]. cbn [app dec_val_acc]. apply IH. Qed.

Lemma dec_loop_val : forall fuel n acc, n < 2 ^ N.of_nat fuel ->
  exists p, dec_loop fuel n acc = p ++ acc /\ forall a, dec_val_acc a p = a * 10 ^ N.of_nat (length p) + n.
Proof.
  induction fuel as [|f IH]; intros n acc H.
  - cbn in H. assert (n = 0) by lia. subst. exists []. split; [reflexivity|]. intro a. cbn. lia.
  - cbn [dec_loop]. destruct (n <? 10) eqn:E.
    + exists [48 + n mod 10]. split; [reflexivity|]. intro a. cbn [dec_val_acc length].
      change (N.of_nat 1) with 1. rewrite N.pow_1_r. lia.
    + assert (Hq : n / 10 < 2 ^ N.of_nat f).
      { rewrite Nat2N.inj_succ, N.pow_succ_r' in H. lia. }
      destruct (IH (n / 10) ((48 + n mod 10) :: acc) Hq) as [p [Ep Hp]].
      exists (p ++ [48 + n mod 10]). rewrite Ep, <- app_assoc. split; [reflexivity|].
      intro a. rewrite dva_app, Hp. cbn [dec_val_acc]. rewrite app_length. cbn [length].
      rewrite Nat.add_1_r, Nat2N.inj_succ, N.pow_succ_r'.
      set (X := 10 ^ N.of_nat (length p)). 
      replace (48 + n mod 10 - 48) with (n mod 10) by lia.
      pose proof (N.div_mod n 10 ltac:(lia)) as Hd. 
      rewrite N.mul_add_distr_r. rewrite <- N.mul_assoc. rewrite (N.mul_comm X 10). lia.
Qed.

Lemma dec_val_of_N : forall n, dec_val (dec_of_N n) = n.
Proof.
  intro n. unfold dec_of_N, dec_val.
  destruct (dec_loop_val (S (N.to_nat (N.size n))) n []) as [p [Ep Hp]].
  - rewrite Nat2N.inj_succ, N2Nat.id, N.pow_succ_r'. pose proof (N.size_gt n). lia.
  - rewrite Ep, app_nil_r, Hp. lia.
Qed.

(* ---- whatever three-digit code the edge's queue gave: that code is what attempt() carries ---- *)
Definition report_code (r : relay_report) : option text :=
  match r with
  | RepOk c | RepPermanent c | RepTransient c => c
  | RepValueError => None
  end.
Definition report_is_success (r : relay_report) : bool := match r with RepOk _ => true | _ => false end.

Theorem http_reported_code : forall code msg, code3 code ->
  report_code (process_response (http_status code) (build_reply_header code msg)) = Some code /\
  report_is_success (process_response (http_status code) (build_reply_header code msg)) = starts_with [50] code.
Proof.
  intros code msg H. rewrite (http_code_reported code msg H). unfold report_of.
  destruct (starts_with [50] code); [split; reflexivity|]. destruct (starts_with [53] code); split; reflexivity.
Qed.
