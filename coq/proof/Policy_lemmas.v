(* Proofs for property C16 over model/Policy.v. *)
From Coq Require Import List NArith Bool Lia Permutation.
From Coq Require Import ZifyBool ZifyN.
From SV Require Import lib.Bytes model.Policy.
Import ListNotations.
Open Scope N_scope.

(* ------------------------------------------------------------------ *)
(* generic list facts                                                  *)
(* ------------------------------------------------------------------ *)

Lemma NoDup_app_intro : forall (A : Type) (a b : list A),
  NoDup a -> NoDup b -> (forall x, In x a -> In x b -> False) -> NoDup (a ++ b).
Proof.
  induction a as [|x a IH]; intros b Ha Hb Hd; cbn [app]; [exact Hb|].
  inversion Ha as [|? ? Hx Ha']; subst. constructor.
  - intros Hin. apply in_app_or in Hin as [Hin|Hin]; [exact (Hx Hin)|].
    exact (Hd x (or_introl eq_refl) Hin).
  - apply IH; auto. intros y Hy. apply Hd. right. exact Hy.
Qed.

Lemma NoDup_app_disj : forall (A : Type) (a b : list A) x,
  NoDup (a ++ b) -> In x a -> In x b -> False.
Proof.
  induction a as [|y a IH]; intros b x H Ha Hb; [inversion Ha|].
  cbn [app] in H. inversion H as [|? ? Hy H']; subst. destruct Ha as [->|Ha].
  - apply Hy. apply in_or_app. right. exact Hb.
  - exact (IH b x H' Ha Hb).
Qed.

Lemma NoDup_app_l : forall (A : Type) (a b : list A), NoDup (a ++ b) -> NoDup a.
Proof.
  induction a as [|y a IH]; intros b H; [constructor|].
  cbn [app] in H. inversion H as [|? ? Hy H']; subst. constructor.
  - intros Hin. apply Hy. apply in_or_app. left. exact Hin.
  - exact (IH b H').
Qed.

Lemma NoDup_app_r : forall (A : Type) (a b : list A), NoDup (a ++ b) -> NoDup b.
Proof.
  induction a as [|y a IH]; intros b H; [exact H|].
  cbn [app] in H. inversion H; subst. apply IH. assumption.
Qed.

Lemma flat_map_map_comm : forall (A B C : Type) (f : B -> C) (g : A -> list B) (l : list A),
  flat_map (fun x => map f (g x)) l = map f (flat_map g l).
Proof.
  intros. induction l as [|x l IH]; cbn [flat_map]; [reflexivity|]. rewrite map_app, IH. reflexivity.
Qed.

Lemma concat_singletons : forall (A : Type) (l : list A), concat (map (fun r => [r]) l) = l.
Proof. induction l as [|x l IH]; cbn; [reflexivity|]. rewrite IH. reflexivity. Qed.

Lemma Forall_app_intro : forall (A : Type) (P : A -> Prop) a b, Forall P a -> Forall P b -> Forall P (a ++ b).
Proof. intros. apply Forall_app. split; assumption. Qed.

(* ------------------------------------------------------------------ *)
(* identities                                                          *)
(* ------------------------------------------------------------------ *)

Definition allids (l : list env) : list N := flat_map ids l.

Lemma allids_app : forall a b, allids (a ++ b) = allids a ++ allids b.
Proof. intros. apply flat_map_app. Qed.

Lemma allids_perm : forall a b, Permutation a b -> Permutation (allids a) (allids b).
Proof. intros. apply Permutation_flat_map. assumption. Qed.

Lemma In_eid_allids : forall l x, In x l -> In (eid x) (allids l).
Proof.
  intros l x H. unfold allids. apply in_flat_map. exists x. split; [exact H|]. left. reflexivity.
Qed.

Lemma In_ids_allids : forall l x i, In x l -> In i (ids x) -> In i (allids l).
Proof. intros l x i H Hi. unfold allids. apply in_flat_map. exists x. auto. Qed.

Lemma NoDup_allids_eid : forall l, NoDup (allids l) -> NoDup (map eid l).
Proof.
  induction l as [|x l IH]; intros H; [constructor|].
  change (allids (x :: l)) with (ids x ++ allids l) in H.
  cbn [map]. constructor.
  - intros Hin. apply in_map_iff in Hin as (y & Ey & Hy).
    apply (NoDup_app_disj _ _ _ (eid x) H); [left; reflexivity|].
    rewrite <- Ey. apply In_eid_allids. exact Hy.
  - apply IH. exact (NoDup_app_r _ _ _ H).
Qed.

(* ------------------------------------------------------------------ *)
(* the results list                                                    *)
(* ------------------------------------------------------------------ *)

Lemma find_eid_Some : forall i l x, find_eid i l = Some x -> In x l /\ eid x = i.
Proof.
  induction l as [|y l IH]; intros x H; cbn [find_eid] in H; [discriminate|].
  destruct (eid y =? i) eqn:E.
  - inversion H; subst. split; [left; reflexivity|]. lia.
  - destruct (IH x H) as [H1 H2]. split; [right; exact H1|exact H2].
Qed.

Lemma find_eid_In : forall l x, NoDup (map eid l) -> In x l -> find_eid (eid x) l = Some x.
Proof.
  induction l as [|y l IH]; intros x Hn Hin; [inversion Hin|].
  cbn [map] in Hn. inversion Hn as [|? ? Hy Hn']; subst. cbn [find_eid].
  destruct Hin as [->|Hin].
  - rewrite N.eqb_refl. reflexivity.
  - destruct (eid y =? eid x) eqn:E.
    + exfalso. apply Hy. apply in_map_iff. exists x. split; [lia|exact Hin].
    + exact (IH x Hn' Hin).
Qed.

Lemma remove_eid_perm : forall i l x, find_eid i l = Some x -> Permutation l (x :: remove_eid i l).
Proof.
  induction l as [|y l IH]; intros x H; cbn [find_eid remove_eid] in *; [discriminate|].
  destruct (eid y =? i) eqn:E.
  - inversion H; subst. apply Permutation_refl.
  - eapply perm_trans; [apply perm_skip; exact (IH x H)|apply perm_swap].
Qed.

Lemma replace_absent : forall e' l, ~ In (eid e') (map eid l) -> replace_eid e' l = l.
Proof.
  induction l as [|z l IH]; intros H; [reflexivity|].
  cbn [replace_eid map] in *. destruct (eid z =? eid e') eqn:Ez.
  - exfalso. apply H. left. lia.
  - f_equal. apply IH. intros Hin. apply H. right. exact Hin.
Qed.

Lemma replace_eid_perm : forall e' l x,
  NoDup (map eid l) -> find_eid (eid e') l = Some x ->
  Permutation (replace_eid e' l) (e' :: remove_eid (eid e') l).
Proof.
  induction l as [|y l IH]; intros x Hn H; [discriminate|].
  cbn [map] in Hn. inversion Hn as [|? ? Hy Hn']; subst.
  change (replace_eid e' (y :: l)) with ((if eid y =? eid e' then e' else y) :: replace_eid e' l).
  cbn [find_eid remove_eid] in *.
  destruct (eid y =? eid e') eqn:E.
  - rewrite replace_absent; [apply Permutation_refl|]. assert (eid y = eid e') by lia. congruence.
  - eapply perm_trans; [apply perm_skip; exact (IH x Hn' H)|apply perm_swap].
Qed.

(* ------------------------------------------------------------------ *)
(* the policies                                                        *)
(* ------------------------------------------------------------------ *)

Section PolicyFacts.
  Variable rule : Type.
  Variable subn : rule -> bytes -> bytes * N.
  Variable lower : bytes -> bytes.
  Variable date_of mid_of recv_of : env -> bytes.

  Notation policy := (policy rule).
  Notation apply := (apply rule subn lower date_of mid_of recv_of).
  Notation recurse := (recurse rule subn lower date_of mid_of recv_of).
  Notation run_policies := (run_policies rule subn lower date_of mid_of recv_of).
  Notation rw := (rw rule subn).
  Notation rw_chain := (rw_chain rule subn).
  Notation fwd_rcpt := (fwd_rcpt rule subn).
  Notation hdr_ok := (hdr_ok rule).
  Notation hdr_chain_ok := (hdr_chain_ok rule).
  Notation st := (st).

  (* --- copies --- *)
  Definition same_content (e c : env) : Prop := sender c = sender e /\ body c = body e /\ hdr c = hdr e.

  Lemma copies_spec : forall groups n e cs n',
    copies n e groups = (cs, n') -> Forall (fun g => g <> []) groups ->
    n <= n' /\ map rcpts cs = groups /\ Forall (same_content e) cs
    /\ Forall (fun i => n <= i /\ i < n') (allids cs) /\ NoDup (allids cs).
  Proof.
    induction groups as [|g gs IH]; intros n e cs n' H Hne; cbn [copies] in H.
    - inversion H; subst. cbn. repeat split; try constructor. lia.
    - inversion Hne as [|? ? Hg Hgs]; subst.
      unfold copy in H. destruct (copies (n + 4) e gs) as [cs' n2] eqn:EC. inversion H; subst. clear H.
      destruct (IH (n + 4) e cs' n' EC Hgs) as (H1 & H2 & H3 & H4 & H5).
      split; [lia|]. split.
      + cbn [map rcpts]. rewrite H2. destruct g; [congruence|reflexivity].
      + split; [constructor; [repeat split|exact H3]|].
        change (allids (?c :: cs')) with (ids c ++ allids cs'). cbn [ids eid rid hid cid].
        split.
        * apply Forall_app_intro.
          -- unfold ids. cbn [eid rid hid cid]. repeat (constructor; [lia|]). constructor.
          -- eapply Forall_impl; [|exact H4]. cbn. intros i Hi. lia.
        * apply NoDup_app_intro; [|exact H5|].
          -- unfold ids. cbn [eid rid hid cid].
             repeat (constructor; [cbn; intros Hx; repeat destruct Hx as [Hx|Hx]; lia|]). constructor.
          -- intros i Hi Hj. rewrite Forall_forall in H4. specialize (H4 i Hj).
             unfold ids in Hi. cbn in Hi. repeat destruct Hi as [Hi|Hi]; try lia.
  Qed.

  Lemma copies_rcpts : forall groups n e cs n',
    copies n e groups = (cs, n') -> Forall (fun g => g <> []) groups -> flat_map rcpts cs = concat groups.
  Proof.
    intros groups n e cs n' H Hne. destruct (copies_spec groups n e cs n' H Hne) as (_ & H2 & _).
    rewrite flat_map_concat_map, H2. reflexivity.
  Qed.

  Lemma singletons_ne : forall (l : list bytes), Forall (fun g : list bytes => g <> []) (map (fun r => [r]) l).
  Proof. induction l; cbn; constructor; [discriminate|assumption]. Qed.

  (* --- domain groups --- *)
  Definition G (g : list (bytes * list bytes)) : list bytes := concat (map snd g).

  Lemma add_group_perm : forall d r g, Permutation (G (add_group d r g)) (r :: G g).
  Proof.
    induction g as [|[d' rs] g IH]; cbn [add_group].
    - apply Permutation_refl.
    - destruct (beqb d d').
      + unfold G. cbn [map snd concat]. rewrite <- app_assoc. cbn [app].
        apply Permutation_sym. apply Permutation_middle.
      + unfold G in *. cbn [map snd concat].
        eapply perm_trans; [apply Permutation_app_head; exact IH|].
        apply Permutation_sym. apply Permutation_middle.
  Qed.

  Lemma add_group_ne : forall d r g,
    Forall (fun x : bytes * list bytes => snd x <> []) g -> Forall (fun x : bytes * list bytes => snd x <> []) (add_group d r g).
  Proof.
    induction g as [|[d' rs] g IH]; intros H; cbn [add_group].
    - constructor; [discriminate|constructor].
    - inversion H as [|? ? H1 H2]; subst. destruct (beqb d d').
      + constructor; [|exact H2]. cbn. destruct rs; discriminate.
      + constructor; [exact H1|exact (IH H2)].
  Qed.

  Notation domain_groups := (domain_groups lower).

  Lemma domain_groups_spec : forall rs g bad g' bad',
    domain_groups rs g bad = (g', bad') ->
    Forall (fun x : bytes * list bytes => snd x <> []) g ->
    Permutation (G g' ++ bad') (G g ++ bad ++ rs) /\ Forall (fun x : bytes * list bytes => snd x <> []) g'.
  Proof.
    induction rs as [|r rs IH]; intros g bad g' bad' H Hne; cbn [Policy.domain_groups] in H.
    - inversion H; subst. rewrite app_nil_r. split; [apply Permutation_refl|exact Hne].
    - destruct (get_domain lower r) as [d|].
      + destruct (IH _ _ _ _ H (add_group_ne d r g Hne)) as [P1 P2]. split; [|exact P2].
        eapply perm_trans; [exact P1|].
        eapply perm_trans; [apply Permutation_app_tail; apply add_group_perm|].
        cbn [app]. rewrite !app_assoc. apply Permutation_middle.
      + destruct (IH _ _ _ _ H Hne) as [P1 P2]. split; [|exact P2].
        eapply perm_trans; [exact P1|]. rewrite <- !app_assoc. cbn [app]. apply Permutation_refl.
  Qed.

  (* --- apply --- *)
  Definition outs (e' : env) (ret : option (list env)) : list env :=
    match ret with Some (y :: l) => y :: l | _ => [e'] end.

  Definition same_sb (e y : env) : Prop := sender y = sender e /\ body y = body e.

  Record apply_facts (p : policy) (n : N) (e e' : env) (ret : option (list env)) (n' : N) : Prop := {
    af_mono : n <= n';
    af_eid : eid e' = eid e;
    af_rcpts : Permutation (flat_map rcpts (outs e' ret)) (map (rw p) (rcpts e));
    af_content : Forall (fun y => same_sb e y /\ hdr_ok p (hdr e) (hdr y)) (outs e' ret);
    af_nodup : NoDup (allids (outs e' ret));
    af_ids : Forall (fun i => In i (ids e) \/ (n <= i /\ i < n')) (allids (outs e' ret))
  }.

  Lemma ids_self : forall e, Forall (fun i => In i (ids e) \/ False) (ids e).
  Proof. intros e. apply Forall_forall. intros i Hi. left. exact Hi. Qed.

  Lemma kept_facts : forall p n e e',
    eid e' = eid e -> rid e' = rid e -> hid e' = hid e -> cid e' = cid e ->
    sender e' = sender e -> body e' = body e ->
    rcpts e' = map (rw p) (rcpts e) -> hdr_ok p (hdr e) (hdr e') ->
    NoDup (ids e) -> apply_facts p n e e' None n.
  Proof.
    intros p n e e' H1 H2 H3 H4 H5 H6 H7 H8 Hn.
    assert (Ei : ids e' = ids e) by (unfold ids; congruence).
    constructor; cbn [outs allids flat_map]; rewrite ?app_nil_r.
    - lia.
    - exact H1.
    - rewrite H7. apply Permutation_refl.
    - constructor; [|constructor]. split; [split; assumption|assumption].
    - rewrite Ei. exact Hn.
    - rewrite Ei. apply Forall_forall. intros i Hi. left. exact Hi.
  Qed.

  Lemma map_rw_id : forall p l, (forall r, rw p r = r) -> map (rw p) l = l.
  Proof. intros p l H. rewrite <- (map_id l) at 2. apply map_ext. exact H. Qed.

  Lemma split_facts : forall p n e groups cs n',
    (forall r, rw p r = r) -> (forall h, hdr_ok p h h) ->
    copies n e groups = (cs, n') -> Forall (fun g => g <> []) groups -> groups <> [] ->
    Permutation (concat groups) (rcpts e) ->
    apply_facts p n e e (Some cs) n'.
  Proof.
    intros p n e groups cs n' Hrw Hh HC Hne Hgs HP.
    destruct (copies_spec groups n e cs n' HC Hne) as (H1 & H2 & H3 & H4 & H5).
    assert (Ecs : outs e (Some cs) = cs).
    { destruct cs as [|c cs]; [|reflexivity]. destruct groups; [congruence|discriminate]. }
    constructor; rewrite ?Ecs.
    - exact H1.
    - reflexivity.
    - rewrite (copies_rcpts groups n e cs n' HC Hne), (map_rw_id p _ Hrw). exact HP.
    - eapply Forall_impl; [|exact H3]. intros y (Ha & Hb & Hc). split; [split; assumption|].
      rewrite Hc. apply Hh.
    - exact H5.
    - eapply Forall_impl; [|exact H4]. cbn. intros i Hi. right. exact Hi.
  Qed.

  Lemma hdr_ok_refl_nonhdr : forall p : policy,
    match p with PDate | PMid | PReceived => False | _ => True end -> forall h, hdr_ok p h h.
  Proof. intros p Hp h. destruct p; cbn in *; try reflexivity; contradiction. Qed.

  Lemma apply_ok : forall p n e e' ret n',
    apply p n e = (e', ret, n') ->
    NoDup (ids e) -> Forall (fun i => i < n) (ids e) ->
    apply_facts p n e e' ret n'.
  Proof.
    intros p n e e' ret n' H Hn Hlt. destruct p; cbn [Policy.apply] in H.
    - (* RecipientSplit *)
      destruct (rcpts e) as [|r1 [|r2 rest]] eqn:ER.
      + inversion H; subst. apply kept_facts; auto. rewrite ER. reflexivity. reflexivity.
      + inversion H; subst. apply kept_facts; auto. rewrite ER. reflexivity. reflexivity.
      + destruct (copies n e (map (fun r => [r]) (r1 :: r2 :: rest))) as [cs n2] eqn:EC.
        inversion H; subst. eapply split_facts; try exact EC; try reflexivity.
        * apply singletons_ne.
        * discriminate.
        * rewrite concat_singletons, ER. apply Permutation_refl.
    - (* RecipientDomainSplit *)
      destruct (Policy.domain_groups lower (rcpts e) [] []) as [g bad] eqn:ED.
      destruct (domain_groups_spec _ _ _ _ _ ED (Forall_nil _)) as [P1 P2]. cbn [G map concat app] in P1.
      destruct (N.of_nat (length g) + N.of_nat (length bad) <=? 1) eqn:EL.
      + inversion H; subst. apply kept_facts; auto. rewrite map_rw_id; reflexivity. reflexivity.
      + destruct (copies n e (map snd g ++ map (fun r => [r]) bad)) as [cs n2] eqn:EC.
        inversion H; subst. eapply split_facts; try exact EC; try reflexivity.
        * apply Forall_app_intro; [|apply singletons_ne].
          apply Forall_forall. intros x Hx. apply in_map_iff in Hx as (y & <- & Hy).
          rewrite Forall_forall in P2. exact (P2 y Hy).
        * destruct g; destruct bad; cbn in *; try discriminate; try lia.
        * rewrite concat_app, concat_singletons. exact P1.
    - (* Forward *)
      inversion H; subst. apply kept_facts; auto. reflexivity.
    - (* AddDateHeader *)
      destruct (has_header n_date (hdr e)) eqn:EH; inversion H; subst;
        (apply kept_facts; auto; [rewrite map_rw_id; reflexivity|cbn [Policy.hdr_ok]; rewrite EH]).
      + reflexivity.
      + eexists. reflexivity.
    - (* AddMessageIdHeader *)
      destruct (has_header n_mid (hdr e)) eqn:EH; inversion H; subst;
        (apply kept_facts; auto; [rewrite map_rw_id; reflexivity|cbn [Policy.hdr_ok]; rewrite EH]).
      + reflexivity.
      + eexists. reflexivity.
    - (* AddReceivedHeader *)
      inversion H; subst. apply kept_facts; auto. rewrite map_rw_id; reflexivity.
      cbn [Policy.hdr_ok]. eexists. reflexivity.
    - (* returns [envelope] *)
      inversion H; subst. constructor; cbn [outs allids flat_map]; rewrite ?app_nil_r.
      + lia.
      + reflexivity.
      + rewrite map_rw_id; [apply Permutation_refl|reflexivity].
      + constructor; [|constructor]. split; [split; reflexivity|reflexivity].
      + exact Hn.
      + apply Forall_forall. intros i Hi. left. exact Hi.
    - (* keeps the input, copies for the rest *)
      destruct (rcpts e) as [|r1 [|r2 rest]] eqn:ER.
      + inversion H; subst. apply kept_facts; auto. rewrite ER. reflexivity. reflexivity.
      + inversion H; subst. apply kept_facts; auto. rewrite ER. reflexivity. reflexivity.
      + set (e1 := set_rcpts e [r1] n) in *.
        destruct (copies (n + 1) e1 (map (fun r => [r]) (r2 :: rest))) as [cs n2] eqn:EC.
        inversion H; subst. clear H.
        destruct (copies_spec _ _ _ _ _ EC (singletons_ne _)) as (H1 & H2 & H3 & H4 & H5).
        unfold ids in Hlt. inversion Hlt as [|? ? L1 Hlt1]; subst. inversion Hlt1 as [|? ? L2 Hlt2]; subst.
        inversion Hlt2 as [|? ? L3 Hlt3]; subst. inversion Hlt3 as [|? ? L4 _]; subst.
        constructor; cbn [outs].
        * lia.
        * reflexivity.
        * cbn [flat_map]. rewrite (copies_rcpts _ _ _ _ _ EC (singletons_ne _)), concat_singletons.
          rewrite map_rw_id by reflexivity. rewrite ER. apply Permutation_refl.
        * constructor.
          -- split; [split; reflexivity|reflexivity].
          -- eapply Forall_impl; [|exact H3]. intros y (Ha & Hb & Hc). split; [split; assumption|].
             cbn [Policy.hdr_ok]. exact Hc.
        * change (allids (e1 :: cs)) with (ids e1 ++ allids cs).
          apply NoDup_app_intro; [| exact H5 |].
          -- unfold e1, ids. cbn [eid rid hid cid set_rcpts].
             unfold ids in Hn. inversion Hn as [|? ? N1 Hn1]; subst. inversion Hn1 as [|? ? N2 Hn2]; subst.
             inversion Hn2 as [|? ? N3 Hn3]; subst.
             constructor; [|constructor; [|exact Hn2]].
             ++ cbn. intros [Hx|[Hx|[Hx|[]]]]; [lia| |].
                ** apply N1. right. left. exact Hx.
                ** apply N1. right. right. left. exact Hx.
             ++ cbn. intros [Hx|[Hx|[]]]; lia.
          -- intros i Hi Hj. rewrite Forall_forall in H4. specialize (H4 i Hj).
             unfold e1, ids in Hi. cbn in Hi. repeat destruct Hi as [Hi|Hi]; try lia.
        * change (allids (e1 :: cs)) with (ids e1 ++ allids cs). apply Forall_app_intro.
          -- unfold e1, ids. cbn [eid rid hid cid set_rcpts].
             constructor; [left; left; reflexivity|]. constructor; [right; lia|].
             constructor; [left; right; right; left; reflexivity|].
             constructor; [left; right; right; right; left; reflexivity|constructor].
          -- eapply Forall_impl; [|exact H4]. cbn. intros i Hi. right. lia.
  Qed.

  (* --- the invariant of _run_policies --- *)
  Definition Inv (s : st) : Prop :=
    failed s = false /\ NoDup (allids (results s)) /\ Forall (fun i => i < next s) (allids (results s)).

  Definition elem_ok (chain : list policy) (e y : env) : Prop :=
    same_sb e y /\ hdr_chain_ok chain (hdr e) (hdr y).

  Definition post (chain : list policy) (e : env) (cur : N) (s s' : st) : Prop :=
    Inv s' /\ next s <= next s' /\
    exists E, Permutation (results s') (remove_eid cur (results s) ++ E)
      /\ Permutation (flat_map rcpts E) (map (rw_chain chain) (rcpts e))
      /\ Forall (elem_ok chain e) E
      /\ Forall (fun i => In i (ids e) \/ next s <= i) (allids E).

  (* one step: e (in results) is replaced by o *)
  Lemma step_inv : forall (e : env) (rest o : list env) (n n' : N),
    NoDup (allids (e :: rest)) -> Forall (fun i => i < n) (allids (e :: rest)) -> n <= n' ->
    NoDup (allids o) -> Forall (fun i => In i (ids e) \/ (n <= i /\ i < n')) (allids o) ->
    NoDup (allids (o ++ rest)) /\ Forall (fun i => i < n') (allids (o ++ rest)).
  Proof.
    intros e rest o n n' Hn Hlt Hle Ho Hio.
    change (allids (e :: rest)) with (ids e ++ allids rest) in Hn, Hlt.
    apply Forall_app in Hlt as [Hlt1 Hlt2].
    rewrite allids_app. split.
    - apply NoDup_app_intro; [exact Ho|exact (NoDup_app_r _ _ _ Hn)|].
      intros i Hi Hj. rewrite Forall_forall in Hio, Hlt2. destruct (Hio i Hi) as [Hin|Hge].
      + exact (NoDup_app_disj _ _ _ i Hn Hin Hj).
      + specialize (Hlt2 i Hj). cbn in Hlt2. lia.
    - apply Forall_app_intro.
      + apply Forall_forall. intros i Hi. rewrite Forall_forall in Hio, Hlt1.
        destruct (Hio i Hi) as [Hin|Hge]; [specialize (Hlt1 i Hin); cbn in Hlt1; lia|lia].
      + eapply Forall_impl; [|exact Hlt2]. cbn. intros i Hi. lia.
  Qed.

  Lemma nodup_lt_perm : forall l l' (n : N),
    Permutation l l' -> NoDup (allids l) -> Forall (fun i => i < n) (allids l) ->
    NoDup (allids l') /\ Forall (fun i => i < n) (allids l').
  Proof.
    intros l l' n HP Hn Hlt. split.
    - exact (Permutation_NoDup (allids_perm _ _ HP) Hn).
    - exact (Permutation_Forall (allids_perm _ _ HP) Hlt).
  Qed.

  Lemma elem_ok_step : forall p chain e x y,
    same_sb e x -> hdr_ok p (hdr e) (hdr x) -> elem_ok chain x y -> elem_ok (p :: chain) e y.
  Proof.
    intros p chain e x y [S1 S2] Hh [[T1 T2] Hc]. split.
    - split; congruence.
    - cbn [Policy.hdr_chain_ok]. exists (hdr x). split; assumption.
  Qed.

  Lemma recurse_ok : forall chain s cur e,
    Inv s -> find_eid cur (results s) = Some e -> post chain e cur s (recurse chain cur s).
  Proof.
    induction chain as [|p chain IH]; intros s cur e HI Hf.
    - (* end of the chain *)
      cbn [Policy.recurse]. split; [exact HI|]. split; [lia|].
      exists [e]. split; [|split; [|split]].
      + eapply perm_trans; [exact (remove_eid_perm _ _ _ Hf)|]. apply Permutation_cons_append.
      + cbn [flat_map Policy.rw_chain]. rewrite app_nil_r, map_id. apply Permutation_refl.
      + constructor; [|constructor]. split; [split; reflexivity|reflexivity].
      + cbn [allids flat_map]. rewrite app_nil_r. apply Forall_forall. intros i Hi. left. exact Hi.
    - destruct HI as (HF & HN & HL).
      cbn [Policy.recurse]. rewrite Hf.
      destruct (apply p (next s) e) as [[e' ret] n'] eqn:EA.
      set (rest := remove_eid cur (results s)).
      assert (HPr : Permutation (results s) (e :: rest)) by exact (remove_eid_perm _ _ _ Hf).
      destruct (nodup_lt_perm _ _ _ HPr HN HL) as [HN1 HL1].
      assert (Hide : NoDup (ids e)) by exact (NoDup_app_l _ _ _ HN1).
      assert (Hlte : Forall (fun i => i < next s) (ids e)).
      { change (allids (e :: rest)) with (ids e ++ allids rest) in HL1. apply Forall_app in HL1 as [H1 _]. exact H1. }
      destruct (apply_ok p (next s) e e' ret n' EA Hide Hlte) as [A1 A2 A3 A4 A5 A6].
      destruct (find_eid_Some _ _ _ Hf) as [Hin Hcur].
      destruct (step_inv e rest (outs e' ret) (next s) n' HN1 HL1 A1 A5 A6) as [HN2 HL2].
      (* the fold over the returned envelopes, with a frame R *)
      assert (FOLD : forall l s1 R, Inv s1 -> Permutation (results s1) (l ++ R) ->
                let s2 := fold_left (fun s0 x => recurse chain (eid x) s0) l s1 in
                Inv s2 /\ next s1 <= next s2 /\
                exists EE, Permutation (results s2) (R ++ EE)
                  /\ Permutation (flat_map rcpts EE) (flat_map (fun x => map (rw_chain chain) (rcpts x)) l)
                  /\ Forall (fun y => exists x, In x l /\ elem_ok chain x y) EE
                  /\ Forall (fun i => (exists x, In x l /\ In i (ids x)) \/ next s1 <= i) (allids EE)).
      { induction l as [|x l IHl]; intros s1 R HI1 HP1.
        - cbn [fold_left]. split; [exact HI1|]. split; [lia|]. exists []. rewrite app_nil_r.
          split; [exact HP1|]. split; [apply Permutation_refl|]. split; constructor.
        - cbn [fold_left].
          assert (HI1' := HI1). destruct HI1' as (_ & HNx & _).
          assert (Hinx : In x (results s1)).
          { eapply Permutation_in; [apply Permutation_sym; exact HP1|]. left. reflexivity. }
          assert (Hfx : find_eid (eid x) (results s1) = Some x) by (apply find_eid_In; [apply NoDup_allids_eid; exact HNx|exact Hinx]).
          destruct (IH s1 (eid x) x HI1 Hfx) as (HIa & Hla & Ea & PEa & PRa & POa & PIa).
          assert (HPa : Permutation (results (recurse chain (eid x) s1)) (l ++ (R ++ Ea))).
          { eapply perm_trans; [exact PEa|]. rewrite app_assoc. apply Permutation_app_tail.
            apply (Permutation_cons_inv (a := x)).
            eapply perm_trans; [apply Permutation_sym; exact (remove_eid_perm _ _ _ Hfx)|exact HP1]. }
          destruct (IHl _ _ HIa HPa) as (HIb & Hlb & Eb & PEb & PRb & POb & PIb).
          split; [exact HIb|]. split; [lia|]. exists (Ea ++ Eb). split; [|split; [|split]].
          + rewrite app_assoc. exact PEb.
          + cbn [flat_map]. rewrite flat_map_app. apply Permutation_app; assumption.
          + apply Forall_app_intro.
            * eapply Forall_impl; [|exact POa]. intros y Hy. exists x. split; [left; reflexivity|exact Hy].
            * eapply Forall_impl; [|exact POb]. intros y (z & Hz & Hy). exists z. split; [right; exact Hz|exact Hy].
          + rewrite allids_app. apply Forall_app_intro.
            * eapply Forall_impl; [|exact PIa]. cbn. intros i [Hi|Hi]; [left; exists x; split; [left; reflexivity|exact Hi]|right; exact Hi].
            * eapply Forall_impl; [|exact PIb]. cbn. intros i [(z & Hz & Hi)|Hi]; [left; exists z; split; [right; exact Hz|exact Hi]|right; lia]. }
      (* common conclusion from a FOLD result over l = outs *)
      assert (CONC : forall s1, results s1 = rest ++ outs e' ret \/ (Permutation (results s1) (outs e' ret ++ rest)) ->
                next s1 = n' -> failed s1 = failed s ->
                post (p :: chain) e cur s (fold_left (fun s0 x => recurse chain (eid x) s0) (outs e' ret) s1)).
      { intros s1 Hres Hnx Hfl.
        assert (HP1 : Permutation (results s1) (outs e' ret ++ rest)).
        { destruct Hres as [->|HP]; [apply Permutation_app_comm|exact HP]. }
        assert (HI1 : Inv s1).
        { split; [congruence|]. rewrite Hnx.
          exact (nodup_lt_perm _ _ _ (Permutation_sym HP1) HN2 HL2). }
        destruct (FOLD _ s1 rest HI1 HP1) as (HIb & Hlb & EE & PE & PR & PO & PI).
        split; [exact HIb|]. split; [lia|]. exists EE. split; [exact PE|]. split; [|split].
        - eapply perm_trans; [exact PR|]. rewrite flat_map_map_comm.
          replace (map (rw_chain (p :: chain)) (rcpts e)) with (map (rw_chain chain) (map (rw p) (rcpts e)))
            by (rewrite map_map; reflexivity).
          apply Permutation_map. exact A3.
        - apply Forall_forall. intros y Hy. rewrite Forall_forall in PO, A4.
          destruct (PO y Hy) as (x & Hx & Hok). destruct (A4 x Hx) as [Hsb Hh].
          exact (elem_ok_step p chain e x y Hsb Hh Hok).
        - apply Forall_forall. intros i Hi. rewrite Forall_forall in PI, A6.
          destruct (PI i Hi) as [(x & Hx & Hix)|Hge].
          + destruct (A6 i (In_ids_allids _ x i Hx Hix)) as [Hl|Hr]; [left; exact Hl|right; lia].
          + right. lia. }
      assert (Ecur : eid e' = cur) by congruence.
      assert (HPk : Permutation (replace_eid e' (results s)) (e' :: rest)).
      { unfold rest. rewrite <- Ecur.
        apply (replace_eid_perm e' (results s) e); [apply NoDup_allids_eid; exact HN|rewrite Ecur; exact Hf]. }
      destruct ret as [[|y l]|]; cbn [outs] in CONC.
      + (* returned an empty list: falsy *)
        specialize (CONC (mkst (replace_eid e' (results s)) n' (failed s)) (or_intror HPk) eq_refl eq_refl).
        cbn [fold_left] in CONC. rewrite Ecur in CONC. exact CONC.
      + exact (CONC (mkst (rest ++ y :: l) n' (failed s)) (or_introl eq_refl) eq_refl eq_refl).
      + specialize (CONC (mkst (replace_eid e' (results s)) n' (failed s)) (or_intror HPk) eq_refl eq_refl).
        cbn [fold_left] in CONC. rewrite Ecur in CONC. exact CONC.
  Qed.

  (* ---------------- the property theorems ---------------- *)

  Definition fresh_input (e : env) (n0 : N) : Prop := NoDup (ids e) /\ Forall (fun i => i < n0) (ids e).

  Lemma run_ok : forall chain n0 e, fresh_input e n0 ->
    let s := run_policies chain n0 e in
    Inv s /\ exists E, Permutation (results s) E
      /\ Permutation (flat_map rcpts E) (map (rw_chain chain) (rcpts e))
      /\ Forall (elem_ok chain e) E.
  Proof.
    intros chain n0 e [Hn Hl]. unfold Policy.run_policies.
    assert (HI : Inv (mkst [e] n0 false)).
    { split; [reflexivity|]. cbn [results next allids flat_map]. rewrite app_nil_r. split; assumption. }
    assert (Hf : find_eid (eid e) (results (mkst [e] n0 false)) = Some e).
    { cbn. rewrite N.eqb_refl. reflexivity. }
    destruct (recurse_ok chain _ _ _ HI Hf) as (H1 & _ & E & PE & PR & PO & _).
    split; [exact H1|]. exists E. cbn [results remove_eid] in PE. rewrite N.eqb_refl in PE. cbn [app] in PE.
    auto.
  Qed.

  (* conservation: every (rewritten) recipient exactly once, same sender and body; results.remove never fails *)
  Lemma conservation : forall chain n0 e, fresh_input e n0 ->
    let s := run_policies chain n0 e in
    failed s = false
    /\ Permutation (flat_map rcpts (results s)) (map (rw_chain chain) (rcpts e))
    /\ Forall (fun x => sender x = sender e /\ body x = body e) (results s).
  Proof.
    intros chain n0 e Hf s. destruct (run_ok chain n0 e Hf) as ((HF & _ & _) & E & PE & PR & PO). fold s in HF, PE.
    split; [exact HF|]. split.
    - eapply perm_trans; [apply Permutation_flat_map; exact PE|exact PR].
    - eapply Permutation_Forall; [apply Permutation_sym; exact PE|].
      eapply Forall_impl; [|exact PO]. intros x [Hs _]. exact Hs.
  Qed.

  (* no sharing: the identities of all envelope objects, recipient lists, header objects and client
     dicts of the results are pairwise different *)
  Lemma no_sharing : forall chain n0 e, fresh_input e n0 ->
    NoDup (flat_map ids (results (run_policies chain n0 e))).
  Proof. intros chain n0 e Hf. destruct (run_ok chain n0 e Hf) as ((_ & HN & _) & _). exact HN. Qed.

  (* header rules *)
  Lemma has_header_names : forall name h, has_header name h = has_name name (map fst h).
  Proof.
    intros name h. unfold has_header, has_name. induction h as [|x h IH]; cbn [map existsb]; [reflexivity|].
    rewrite IH. reflexivity.
  Qed.

  Lemma repeat_snoc : forall (A : Type) (x : A) k, repeat x k ++ [x] = x :: repeat x k.
  Proof. intros. induction k as [|k IH]; cbn; [reflexivity|]. rewrite IH. reflexivity. Qed.

  Lemma hdr_chain_shape : forall chain h h',
    hdr_chain_ok chain h h' ->
    exists pre suf, h' = pre ++ h ++ suf
      /\ map fst pre = repeat n_received (n_received_of rule chain)
      /\ map fst suf = appended rule chain (map fst h).
  Proof.
    induction chain as [|p chain IH]; intros h h' H; cbn [Policy.hdr_chain_ok] in H.
    - subst. exists [], []. rewrite app_nil_r. repeat split.
    - destruct H as (h1 & H1 & H2). destruct (IH h1 h' H2) as (pre & suf & E & Ep & Es).
      assert (SAME : h1 = h -> is_received rule p = false ->
                     appended rule (p :: chain) (map fst h) = appended rule chain (map fst h) ->
                     exists pre suf, h' = pre ++ h ++ suf
                       /\ map fst pre = repeat n_received (n_received_of rule (p :: chain))
                       /\ map fst suf = appended rule (p :: chain) (map fst h)).
      { intros -> Hr Ha. exists pre, suf. unfold n_received_of in *. cbn [filter]. rewrite Hr, Ha. auto. }
      destruct p; cbn [Policy.hdr_ok] in H1; try (apply SAME; [exact H1|reflexivity|reflexivity]).
      + (* Date *)
        rewrite has_header_names in H1. destruct (has_name n_date (map fst h)) eqn:EH.
        * apply SAME; [exact H1|reflexivity|]. cbn [Policy.appended]. rewrite EH. reflexivity.
        * destruct H1 as (v & ->). exists pre, ((n_date, v) :: suf). split; [|split].
          -- rewrite E, <- !app_assoc. reflexivity.
          -- exact Ep.
          -- cbn [map fst Policy.appended]. rewrite EH. rewrite Es, map_app. reflexivity.
      + (* Message-Id *)
        rewrite has_header_names in H1. destruct (has_name n_mid (map fst h)) eqn:EH.
        * apply SAME; [exact H1|reflexivity|]. cbn [Policy.appended]. rewrite EH. reflexivity.
        * destruct H1 as (v & ->). exists pre, ((n_mid, v) :: suf). split; [|split].
          -- rewrite E, <- !app_assoc. reflexivity.
          -- exact Ep.
          -- cbn [map fst Policy.appended]. rewrite EH. rewrite Es, map_app. reflexivity.
      + (* Received *)
        destruct H1 as (v & ->). exists (pre ++ [(n_received, v)]), suf. split; [|split].
        * rewrite E, <- !app_assoc. reflexivity.
        * rewrite map_app. etransitivity; [exact (f_equal (fun l => l ++ [n_received]) Ep)|]. unfold n_received_of. cbn [filter is_received length map fst].
          apply repeat_snoc.
        * rewrite Es. reflexivity.
  Qed.

  (* every resulting envelope: the original header list kept whole and in order, one Received per
     AddReceivedHeader in front of it, Date / Message-Id behind it exactly when absent (case-insensitively)
     at that point of the chain *)
  Lemma headers_rule : forall chain n0 e x, fresh_input e n0 ->
    In x (results (run_policies chain n0 e)) ->
    exists pre suf, hdr x = pre ++ hdr e ++ suf
      /\ map fst pre = repeat n_received (n_received_of rule chain)
      /\ map fst suf = appended rule chain (map fst (hdr e)).
  Proof.
    intros chain n0 e x Hf Hx. destruct (run_ok chain n0 e Hf) as (_ & E & PE & _ & PO).
    rewrite Forall_forall in PO. destruct (PO x (Permutation_in _ PE Hx)) as [_ Hc].
    exact (hdr_chain_shape chain _ _ Hc).
  Qed.

  (* --- a new Received header is placed first --- *)
  Lemma hdr_chain_app : forall c1 c2 h h',
    hdr_chain_ok (c1 ++ c2) h h' <-> exists h1, hdr_chain_ok c1 h h1 /\ hdr_chain_ok c2 h1 h'.
  Proof.
    induction c1 as [|p c1 IH]; intros c2 h h'; cbn [app Policy.hdr_chain_ok].
    - split.
      + intros H. exists h. split; [reflexivity|exact H].
      + intros (h1 & -> & H). exact H.
    - split.
      + intros (h0 & H0 & H). apply IH in H. destruct H as (h1 & H1 & H2).
        exists h1. split; [exists h0; split; assumption|exact H2].
      + intros (h1 & (h0 & H0 & H1) & H2). exists h0. split; [exact H0|]. apply IH. exists h1. split; assumption.
  Qed.

  Lemma last_received : forall chain : list policy,
    existsb (is_received rule) chain = true ->
    exists c1 c2, chain = c1 ++ PReceived :: c2 /\ existsb (is_received rule) c2 = false.
  Proof.
    induction chain as [|p chain IH]; cbn [existsb]; intros H; [discriminate|].
    destruct (existsb (is_received rule) chain) eqn:EC.
    - destruct (IH eq_refl) as (c1 & c2 & -> & H2). exists (p :: c1), c2. split; [reflexivity|exact H2].
    - rewrite orb_false_r in H. destruct p; try discriminate. exists [], chain. split; [reflexivity|exact EC].
  Qed.

  Lemma no_received_count : forall chain : list policy,
    existsb (is_received rule) chain = false -> n_received_of rule chain = 0%nat.
  Proof.
    unfold n_received_of. induction chain as [|p chain IH]; cbn [existsb filter]; intros H; [reflexivity|].
    apply orb_false_iff in H. destruct H as [H1 H2]. rewrite H1. exact (IH H2).
  Qed.

  (* chain = c1 ++ PReceived :: c2, no AddReceivedHeader in c2: every written envelope starts with the field
     that this LAST application put on top of the header list h1 as c1 had left it (h1: earlier Received
     fields, the original fields whole and in order, what c1 appended); c2 only appends behind it *)
  Lemma received_placed_first : forall chain n0 e x, fresh_input e n0 ->
    In PReceived chain -> In x (results (run_policies chain n0 e)) ->
    exists c1 c2 v h1 suf,
      chain = c1 ++ PReceived :: c2 /\ existsb (is_received rule) c2 = false
      /\ hdr x = (n_received, v) :: h1 ++ suf
      /\ hdr_chain_ok c1 (hdr e) h1
      /\ map fst suf = appended rule c2 (n_received :: map fst h1)
      /\ exists pre1 suf1, h1 = pre1 ++ hdr e ++ suf1
           /\ map fst pre1 = repeat n_received (n_received_of rule c1)
           /\ map fst suf1 = appended rule c1 (map fst (hdr e)).
  Proof.
    intros chain n0 e x Hf Hin Hx.
    assert (HE : existsb (is_received rule) chain = true).
    { apply existsb_exists. exists PReceived. split; [exact Hin|reflexivity]. }
    destruct (last_received chain HE) as (c1 & c2 & EC & H2).
    destruct (run_ok chain n0 e Hf) as (_ & E & PE & _ & PO).
    rewrite Forall_forall in PO. destruct (PO x (Permutation_in _ PE Hx)) as [_ Hc].
    rewrite EC in Hc. apply hdr_chain_app in Hc. destruct Hc as (h1 & Hc1 & Hc2).
    cbn [Policy.hdr_chain_ok Policy.hdr_ok] in Hc2. destruct Hc2 as (h2 & (v & ->) & Hc2).
    destruct (hdr_chain_shape c2 _ _ Hc2) as (pre & suf & E2 & Ep & Es).
    rewrite (no_received_count c2 H2) in Ep. cbn [repeat] in Ep. apply map_eq_nil in Ep. subst pre.
    exists c1, c2, v, h1, suf. split; [exact EC|]. split; [exact H2|]. split; [exact E2|]. split; [exact Hc1|].
    split; [exact Es|]. exact (hdr_chain_shape c1 _ _ Hc1).
  Qed.

  Lemma received_apply : forall n e,
    apply PReceived n e = (set_hdr e ((n_received, recv_of e) :: hdr e), None, n).
  Proof. reflexivity. Qed.

  (* Forward: first matching rule wins; no matching rule: unchanged *)
  Definition hits (ru : rule) (r : bytes) : bool :=
    let '(nr, ch) := subn ru r in negb (null nr) && (0 <? ch).

  Lemma forward_first_match : forall pre ru post r,
    Forall (fun q => hits q r = false) pre -> hits ru r = true ->
    fwd_rcpt (pre ++ ru :: post) r = fst (subn ru r).
  Proof.
    induction pre as [|q pre IH]; intros ru post r Hp Hh; cbn [app Policy.fwd_rcpt].
    - unfold hits in Hh. destruct (subn ru r) as [nr ch]. rewrite Hh. reflexivity.
    - inversion Hp as [|? ? Hq Hp']; subst. unfold hits in Hq. destruct (subn q r) as [nr ch].
      rewrite Hq. exact (IH ru post r Hp' Hh).
  Qed.

  Lemma forward_unmatched : forall rules r, Forall (fun q => hits q r = false) rules -> fwd_rcpt rules r = r.
  Proof.
    induction rules as [|q rules IH]; intros r Hp; cbn [Policy.fwd_rcpt]; [reflexivity|].
    inversion Hp as [|? ? Hq Hp']; subst. unfold hits in Hq. destruct (subn q r) as [nr ch].
    rewrite Hq. exact (IH r Hp').
  Qed.

  Lemma forward_apply : forall rules n e,
    apply (PForward rules) n e = (set_rcpts e (map (fwd_rcpt rules) (rcpts e)) (rid e), None, n).
  Proof. reflexivity. Qed.

  (* a rule that MATCHES (changes > 0) but reproduces the same text still wins: the scan stops,
     whatever the later rules would do to the recipient *)
  Lemma forward_identity_match_stops : forall pre ru post r ch,
    Forall (fun q => hits q r = false) pre -> subn ru r = (r, ch) -> r <> [] -> 0 < ch ->
    fwd_rcpt (pre ++ ru :: post) r = r /\ fwd_rcpt (pre ++ ru :: post) r = fwd_rcpt (pre ++ [ru]) r.
  Proof.
    intros pre ru post r ch Hp Hs Hr Hc.
    assert (Hh : hits ru r = true).
    { unfold hits. rewrite Hs. destruct r as [|b r']; [congruence|]. cbn [null negb andb].
      apply N.ltb_lt. exact Hc. }
    rewrite (forward_first_match pre ru post r Hp Hh), (forward_first_match pre ru [] r Hp Hh), Hs.
    split; reflexivity.
  Qed.

  (* --- Date / Message-Id: presence of the NAME decides, not the value --- *)
  Lemma has_header_intro : forall name nm v h1 h2,
    ieq nm name = true -> has_header name (h1 ++ (nm, v) :: h2) = true.
  Proof.
    intros name nm v h1 h2 H. unfold has_header. rewrite existsb_app. cbn [existsb fst]. rewrite H.
    rewrite orb_true_l. apply orb_true_r.
  Qed.

  Lemma present_suppresses : forall nm v h1 h2 n e,
    hdr e = h1 ++ (nm, v) :: h2 ->
    (ieq nm n_date = true -> apply PDate n e = (e, None, n))
    /\ (ieq nm n_mid = true -> apply PMid n e = (e, None, n)).
  Proof.
    intros nm v h1 h2 n e E. split; intros H; cbn [Policy.apply]; rewrite E, (has_header_intro _ nm v h1 h2 H); reflexivity.
  Qed.

  Lemma names_named : forall name h, map fst (named name h) = filter (fun nm => ieq nm name) (map fst h).
  Proof.
    intros name h. unfold named. induction h as [|x h IH]; cbn [filter map]; [reflexivity|].
    destruct (ieq (fst x) name); cbn [map]; rewrite IH; reflexivity.
  Qed.

  Lemma named_app : forall name a b, named name (a ++ b) = named name a ++ named name b.
  Proof. intros. unfold named. apply filter_app. Qed.

  Lemma named_nil : forall name h, filter (fun nm => ieq nm name) (map fst h) = [] -> named name h = [].
  Proof. intros name h H. rewrite <- names_named in H. eapply map_eq_nil. exact H. Qed.

  Lemma has_name_false_filter : forall name ns, has_name name ns = false -> filter (fun nm => ieq nm name) ns = [].
  Proof.
    intros name ns. unfold has_name. induction ns as [|x ns IH]; cbn [existsb filter]; [reflexivity|].
    intros H. apply orb_false_iff in H. destruct H as [H1 H2]. rewrite H1. exact (IH H2).
  Qed.

  Lemma filter_repeat_received : forall name k,
    ieq n_received name = false -> filter (fun nm => ieq nm name) (repeat n_received k) = [].
  Proof. intros name k H. induction k as [|k IH]; cbn [repeat filter]; [reflexivity|]. rewrite H. exact IH. Qed.

  Lemma has_name_snoc : forall name ns x, has_name name (ns ++ [x]) = has_name name ns || ieq x name.
  Proof. intros. unfold has_name. rewrite existsb_app. cbn [existsb]. rewrite orb_false_r. reflexivity. Qed.

  (* a chain appends no Date to a message that has one, and exactly one (at its first AddDateHeader)
     to a message that has none; same for Message-Id *)
  Lemma appended_date_present : forall chain ns,
    has_name n_date ns = true -> filter (fun nm => ieq nm n_date) (appended rule chain ns) = [].
  Proof.
    induction chain as [|p chain IH]; intros ns H; [reflexivity|].
    destruct p; cbn [Policy.appended]; try (apply IH; exact H).
    - rewrite H. apply IH. exact H.
    - destruct (has_name n_mid ns); [apply IH; exact H|].
      cbn [filter]. change (ieq n_mid n_date) with false. cbv iota. apply IH. rewrite has_name_snoc, H. reflexivity.
  Qed.

  Lemma appended_mid_present : forall chain ns,
    has_name n_mid ns = true -> filter (fun nm => ieq nm n_mid) (appended rule chain ns) = [].
  Proof.
    induction chain as [|p chain IH]; intros ns H; [reflexivity|].
    destruct p; cbn [Policy.appended]; try (apply IH; exact H).
    - destruct (has_name n_date ns); [apply IH; exact H|].
      cbn [filter]. change (ieq n_date n_mid) with false. cbv iota. apply IH. rewrite has_name_snoc, H. reflexivity.
    - rewrite H. apply IH. exact H.
  Qed.

  Lemma appended_date_absent : forall chain ns,
    has_name n_date ns = false ->
    filter (fun nm => ieq nm n_date) (appended rule chain ns) = if existsb (is_date rule) chain then [n_date] else [].
  Proof.
    induction chain as [|p chain IH]; intros ns H; [reflexivity|].
    destruct p; cbn [Policy.appended existsb is_date orb]; try (apply IH; exact H).
    - rewrite H. cbn [filter]. change (ieq n_date n_date) with true. cbv iota.
      rewrite appended_date_present; [reflexivity|]. rewrite has_name_snoc. apply orb_true_r.
    - destruct (has_name n_mid ns); [apply IH; exact H|].
      cbn [filter]. change (ieq n_mid n_date) with false. cbv iota. apply IH. rewrite has_name_snoc, H. reflexivity.
  Qed.

  Lemma appended_mid_absent : forall chain ns,
    has_name n_mid ns = false ->
    filter (fun nm => ieq nm n_mid) (appended rule chain ns) = if existsb (is_mid rule) chain then [n_mid] else [].
  Proof.
    induction chain as [|p chain IH]; intros ns H; [reflexivity|].
    destruct p; cbn [Policy.appended existsb is_mid orb]; try (apply IH; exact H).
    - destruct (has_name n_date ns); [apply IH; exact H|].
      cbn [filter]. change (ieq n_date n_mid) with false. cbv iota. apply IH. rewrite has_name_snoc, H. reflexivity.
    - rewrite H. cbn [filter]. change (ieq n_mid n_mid) with true. cbv iota.
      rewrite appended_mid_present; [reflexivity|]. rewrite has_name_snoc. apply orb_true_r.
  Qed.

  (* every written envelope of every chain: a Date / Message-Id field that is present in the original
     (with ANY value, also the empty one, in any capitalisation) stays the only such field(s), untouched *)
  Lemma present_kept : forall chain n0 e x, fresh_input e n0 ->
    In x (results (run_policies chain n0 e)) ->
    (has_header n_date (hdr e) = true -> named n_date (hdr x) = named n_date (hdr e))
    /\ (has_header n_mid (hdr e) = true -> named n_mid (hdr x) = named n_mid (hdr e)).
  Proof.
    intros chain n0 e x Hf Hx. destruct (headers_rule chain n0 e x Hf Hx) as (pre & suf & E & Ep & Es).
    split; intros H; rewrite has_header_names in H; rewrite E, !named_app.
    - rewrite (named_nil n_date pre), (named_nil n_date suf); [apply app_nil_r| |].
      + rewrite Es. apply appended_date_present. exact H.
      + rewrite Ep. apply filter_repeat_received. reflexivity.
    - rewrite (named_nil n_mid pre), (named_nil n_mid suf); [apply app_nil_r| |].
      + rewrite Es. apply appended_mid_present. exact H.
      + rewrite Ep. apply filter_repeat_received. reflexivity.
  Qed.

  (* ... and a message without one gets exactly one iff the chain has the policy (however often) *)
  Lemma absent_added_once : forall chain n0 e x, fresh_input e n0 ->
    In x (results (run_policies chain n0 e)) ->
    (has_header n_date (hdr e) = false ->
       map fst (named n_date (hdr x)) = if existsb (is_date rule) chain then [n_date] else [])
    /\ (has_header n_mid (hdr e) = false ->
       map fst (named n_mid (hdr x)) = if existsb (is_mid rule) chain then [n_mid] else []).
  Proof.
    intros chain n0 e x Hf Hx. destruct (headers_rule chain n0 e x Hf Hx) as (pre & suf & E & Ep & Es).
    split; intros H; rewrite has_header_names in H; rewrite E, !named_app, !map_app, !names_named, Ep, Es.
    - rewrite filter_repeat_received by reflexivity. rewrite (has_name_false_filter _ _ H).
      cbn [app]. apply appended_date_absent. exact H.
    - rewrite filter_repeat_received by reflexivity. rewrite (has_name_false_filter _ _ H).
      cbn [app]. apply appended_mid_absent. exact H.
  Qed.

  (* a policy returning its input among its outputs *)
  Lemma self_is_noop_at_head : forall chain n0 e,
    run_policies (PSelf :: chain) n0 e = run_policies chain n0 e.
  Proof.
    intros. unfold Policy.run_policies. cbn [Policy.recurse results find_eid]. rewrite N.eqb_refl.
    cbn [Policy.apply fold_left results next failed remove_eid]. rewrite N.eqb_refl. reflexivity.
  Qed.

  Lemma keepsplit_returns_input : forall n e r1 r2 rest,
    rcpts e = r1 :: r2 :: rest ->
    exists e' l n', apply PKeepSplit n e = (e', Some l, n') /\ In e' l /\ eid e' = eid e /\ rcpts e' = [r1].
  Proof.
    intros n e r1 r2 rest ER. cbn [Policy.apply]. rewrite ER.
    destruct (copies (n + 1) (set_rcpts e [r1] n) (map (fun r => [r]) (r2 :: rest))) as [cs n2].
    eexists _, _, _. split; [reflexivity|]. split; [left; reflexivity|]. split; reflexivity.
  Qed.
  (* --- several messages, one chain --- *)
  Notation run_messages := (run_messages rule subn lower date_of mid_of recv_of).

  Lemma run_bounds : forall chain n0 e lo, fresh_input e n0 ->
    Forall (fun i => lo <= i) (ids e) -> lo <= n0 ->
    let s := run_policies chain n0 e in
    NoDup (allids (results s)) /\ Forall (fun i => lo <= i /\ i < next s) (allids (results s)) /\ n0 <= next s.
  Proof.
    intros chain n0 e lo [Hn Hl] Hlo Hle. unfold Policy.run_policies.
    assert (HI : Inv (mkst [e] n0 false)).
    { split; [reflexivity|]. cbn [results next allids flat_map]. rewrite app_nil_r. split; assumption. }
    assert (Hf : find_eid (eid e) (results (mkst [e] n0 false)) = Some e).
    { cbn. rewrite N.eqb_refl. reflexivity. }
    destruct (recurse_ok chain _ _ _ HI Hf) as ((_ & HN & HL) & Hnx & E & PE & _ & _ & PI).
    cbn [results remove_eid next] in PE, PI, Hnx. rewrite N.eqb_refl in PE. cbn [app] in PE.
    split; [exact HN|]. split; [|exact Hnx].
    apply Forall_forall. intros i Hi. split.
    - assert (HiE : In i (allids E)) by exact (Permutation_in _ (allids_perm _ _ PE) Hi).
      rewrite Forall_forall in PI, Hlo. destruct (PI i HiE) as [Hin|Hge]; [exact (Hlo i Hin)|lia].
    - rewrite Forall_forall in HL. exact (HL i Hi).
  Qed.

  Lemma mk_input_fresh : forall n m, fresh_input (mk_input n m) (n + 4) /\ Forall (fun i => n <= i) (ids (mk_input n m)).
  Proof.
    intros n m. unfold fresh_input, ids, mk_input. cbn [eid rid hid cid]. split; [split|].
    - repeat (constructor; [cbn; intros Hx; repeat destruct Hx as [Hx|Hx]; lia|]). constructor.
    - repeat (constructor; [lia|]). constructor.
    - repeat (constructor; [lia|]). constructor.
  Qed.

  (* envelopes of different messages (and of the same message) share no object *)
  Lemma messages_no_sharing : forall chain ms n,
    NoDup (allids (flat_map results (run_messages chain n ms)))
    /\ Forall (fun i => n <= i) (allids (flat_map results (run_messages chain n ms))).
  Proof.
    induction ms as [|m ms IH]; intros n; cbn [Policy.run_messages flat_map].
    - split; constructor.
    - destruct (mk_input_fresh n m) as [Hf Hlo].
      destruct (run_bounds chain (n + 4) (mk_input n m) n Hf Hlo ltac:(lia)) as (HN & HB & Hnx).
      destruct (IH (next (run_policies chain (n + 4) (mk_input n m)))) as [IN IB].
      rewrite allids_app. split.
      + apply NoDup_app_intro; [exact HN|exact IN|].
        intros i Hi Hj. rewrite Forall_forall in HB, IB. specialize (HB i Hi). specialize (IB i Hj). cbn in IB. lia.
      + apply Forall_app_intro.
        * eapply Forall_impl; [|exact HB]. cbn. intros i Hi. lia.
        * eapply Forall_impl; [|exact IB]. cbn. intros i Hi. lia.
  Qed.

  (* --- messages with the configuration of their moment --- *)
  Notation run_configured := (run_configured rule subn lower date_of mid_of recv_of).

  Lemma messages_as_configured : forall chain ms n,
    run_messages chain n ms = run_configured n (map (fun m => (chain, m)) ms).
  Proof.
    induction ms as [|m ms IH]; intros n; cbn [Policy.run_messages Policy.run_configured map]; [reflexivity|].
    rewrite IH. reflexivity.
  Qed.

  Lemma configured_no_sharing : forall cms n,
    NoDup (allids (flat_map results (run_configured n cms)))
    /\ Forall (fun i => n <= i) (allids (flat_map results (run_configured n cms))).
  Proof.
    induction cms as [|[chain m] cms IH]; intros n; cbn [Policy.run_configured flat_map].
    - split; constructor.
    - destruct (mk_input_fresh n m) as [Hf Hlo].
      destruct (run_bounds chain (n + 4) (mk_input n m) n Hf Hlo ltac:(lia)) as (HN & HB & Hnx).
      destruct (IH (next (run_policies chain (n + 4) (mk_input n m)))) as [IN IB].
      rewrite allids_app. split.
      + apply NoDup_app_intro; [exact HN|exact IN|].
        intros i Hi Hj. rewrite Forall_forall in HB, IB. specialize (HB i Hi). specialize (IB i Hj). cbn in IB. lia.
      + apply Forall_app_intro.
        * eapply Forall_impl; [|exact HB]. cbn. intros i Hi. lia.
        * eapply Forall_impl; [|exact IB]. cbn. intros i Hi. lia.
  Qed.

  (* every message is rewritten by the rules in force at ITS moment *)
  Lemma configured_conservation : forall cms n,
    Forall2 (fun cm s => failed s = false
                         /\ Permutation (flat_map rcpts (results s)) (map (rw_chain (fst cm)) (m_rcpts (snd cm)))
                         /\ Forall (fun x => sender x = m_sender (snd cm) /\ body x = m_body (snd cm)) (results s))
            cms (run_configured n cms).
  Proof.
    induction cms as [|[chain m] cms IH]; intros n; cbn [Policy.run_configured]; constructor.
    - exact (conservation chain (n + 4) (mk_input n m) (proj1 (mk_input_fresh n m))).
    - apply IH.
  Qed.

End PolicyFacts.

(* ------------------------------------------------------------------ *)
(* the policies are stateless: renaming the objects of the input renames *)
(* the objects of the output and changes nothing else                   *)
(* ------------------------------------------------------------------ *)
Section Stateless.
  Variable rule : Type.
  Variable subn : rule -> bytes -> bytes * N.
  Variable lower : bytes -> bytes.
  Variable date_of mid_of recv_of : env -> bytes.
  (* the generated header texts depend on what the envelope contains, not on which objects hold it *)
  Hypothesis Hdate : forall d e, date_of (shift_env d e) = date_of e.
  Hypothesis Hmid : forall d e, mid_of (shift_env d e) = mid_of e.
  Hypothesis Hrecv : forall d e, recv_of (shift_env d e) = recv_of e.

  Notation apply := (apply rule subn lower date_of mid_of recv_of).
  Notation recurse := (recurse rule subn lower date_of mid_of recv_of).
  Notation run_policies := (run_policies rule subn lower date_of mid_of recv_of).
  Notation run_messages := (run_messages rule subn lower date_of mid_of recv_of).

  Lemma eqb_shift : forall a b d, (a + d =? b + d) = (a =? b).
  Proof. intros. destruct (N.eqb_spec a b), (N.eqb_spec (a + d) (b + d)); try reflexivity; lia. Qed.

  Lemma shift_set_rcpts : forall d e rs r, set_rcpts (shift_env d e) rs (r + d) = shift_env d (set_rcpts e rs r).
  Proof. reflexivity. Qed.
  Lemma shift_set_hdr : forall d e h, set_hdr (shift_env d e) h = shift_env d (set_hdr e h).
  Proof. reflexivity. Qed.

  Lemma copies_shift : forall d e gs n,
    copies (n + d) (shift_env d e) gs = (map (shift_env d) (fst (copies n e gs)), snd (copies n e gs) + d).
  Proof.
    intros d e. induction gs as [|g gs IH]; intros n; cbn [copies]; [reflexivity|].
    unfold copy. replace (n + d + 4) with (n + 4 + d) by lia. rewrite IH.
    destruct (copies (n + 4) e gs) as [cs n2]. cbn [fst snd map]. f_equal. f_equal.
    unfold shift_env. cbn [eid rid hid cid sender rcpts hdr body]. f_equal; lia.
  Qed.

  Lemma apply_shift : forall p d n e,
    apply p (n + d) (shift_env d e)
    = let '(e', ret, n') := apply p n e in (shift_env d e', option_map (map (shift_env d)) ret, n' + d).
  Proof.
    intros p d n e. destruct p; cbn [Policy.apply].
    - (* RecipientSplit *)
      change (rcpts (shift_env d e)) with (rcpts e).
      destruct (rcpts e) as [|r1 [|r2 rs]]; [reflexivity|reflexivity|].
      rewrite copies_shift. destruct (copies n e _) as [cs n2]. reflexivity.
    - (* RecipientDomainSplit *)
      change (rcpts (shift_env d e)) with (rcpts e).
      destruct (domain_groups lower (rcpts e) [] []) as [g bad].
      destruct (N.of_nat (length g) + N.of_nat (length bad) <=? 1); [reflexivity|].
      rewrite copies_shift. destruct (copies n e _) as [cs n2]. reflexivity.
    - reflexivity.
    - change (hdr (shift_env d e)) with (hdr e). rewrite Hdate. destruct (has_header n_date (hdr e)); reflexivity.
    - change (hdr (shift_env d e)) with (hdr e). rewrite Hmid. destruct (has_header n_mid (hdr e)); reflexivity.
    - change (hdr (shift_env d e)) with (hdr e). rewrite Hrecv. reflexivity.
    - reflexivity.
    - (* KeepSplit *)
      change (rcpts (shift_env d e)) with (rcpts e).
      destruct (rcpts e) as [|r1 [|r2 rs]]; [reflexivity|reflexivity|].
      rewrite shift_set_rcpts. replace (n + d + 1) with (n + 1 + d) by lia. rewrite copies_shift.
      destruct (copies (n + 1) (set_rcpts e [r1] n) _) as [cs n2]. reflexivity.
  Qed.

  Lemma find_eid_shift : forall d i l,
    find_eid (i + d) (map (shift_env d) l) = option_map (shift_env d) (find_eid i l).
  Proof.
    intros d i. induction l as [|x l IH]; cbn [map find_eid]; [reflexivity|].
    change (eid (shift_env d x)) with (eid x + d). rewrite eqb_shift. destruct (eid x =? i); [reflexivity|exact IH].
  Qed.

  Lemma remove_eid_shift : forall d i l,
    remove_eid (i + d) (map (shift_env d) l) = map (shift_env d) (remove_eid i l).
  Proof.
    intros d i. induction l as [|x l IH]; cbn [map remove_eid]; [reflexivity|].
    change (eid (shift_env d x)) with (eid x + d). rewrite eqb_shift. destruct (eid x =? i); [reflexivity|].
    cbn [map]. rewrite IH. reflexivity.
  Qed.

  Lemma replace_eid_shift : forall d e' l,
    replace_eid (shift_env d e') (map (shift_env d) l) = map (shift_env d) (replace_eid e' l).
  Proof.
    intros d e' l. unfold replace_eid. rewrite !map_map. apply map_ext. intros x.
    change (eid (shift_env d x)) with (eid x + d). change (eid (shift_env d e')) with (eid e' + d).
    rewrite eqb_shift. destruct (eid x =? eid e'); reflexivity.
  Qed.

  Lemma recurse_shift : forall d chain cur s,
    recurse chain (cur + d) (shift_st d s) = shift_st d (recurse chain cur s).
  Proof.
    intros d. induction chain as [|p chain IH]; intros cur s; cbn [Policy.recurse]; [reflexivity|].
    change (next (shift_st d s)) with (next s + d). change (results (shift_st d s)) with (map (shift_env d) (results s)).
    change (failed (shift_st d s)) with (failed s). rewrite find_eid_shift.
    destruct (find_eid cur (results s)) as [e|]; cbn [option_map]; [|reflexivity].
    rewrite apply_shift. destruct (apply p (next s) e) as [[e' ret] n'].
    assert (FOLD : forall l s1,
      fold_left (fun s0 x => recurse chain (eid x) s0) (map (shift_env d) l) (shift_st d s1)
      = shift_st d (fold_left (fun s0 x => recurse chain (eid x) s0) l s1)).
    { induction l as [|x l IHl]; intros s1; cbn [map fold_left]; [reflexivity|].
      change (eid (shift_env d x)) with (eid x + d). rewrite IH. apply IHl. }
    destruct ret as [[|y l]|]; cbn [option_map map].
    - rewrite replace_eid_shift. exact (IH cur (mkst (replace_eid e' (results s)) n' (failed s))).
    - rewrite remove_eid_shift.
      change (shift_env d y :: map (shift_env d) l) with (map (shift_env d) (y :: l)).
      rewrite <- map_app.
      exact (FOLD (y :: l) (mkst (remove_eid cur (results s) ++ y :: l) n' (failed s))).
    - rewrite replace_eid_shift. exact (IH cur (mkst (replace_eid e' (results s)) n' (failed s))).
  Qed.

  Lemma run_shift : forall d chain n0 e,
    run_policies chain (n0 + d) (shift_env d e) = shift_st d (run_policies chain n0 e).
  Proof.
    intros. unfold Policy.run_policies. change (eid (shift_env d e)) with (eid e + d).
    exact (recurse_shift d chain (eid e) (mkst [e] n0 false)).
  Qed.

  Lemma outcome_shift : forall d s, outcome (shift_st d s) = outcome s.
  Proof.
    intros d s. unfold outcome, Policy.shift_st. cbn [failed results]. f_equal. rewrite map_map. apply map_ext. reflexivity.
  Qed.

  Lemma mk_input_shift : forall n m, mk_input n m = shift_env n (mk_input 0 m).
  Proof. intros. unfold mk_input, shift_env. cbn [eid rid hid cid sender rcpts hdr body]. f_equal; lia. Qed.

  (* each message of a sequence comes out exactly as it does alone through a new Queue *)
  Notation run_configured := (run_configured rule subn lower date_of mid_of recv_of).

  Lemma stateless_configured : forall cms n,
    map outcome (run_configured n cms)
    = map (fun cm => outcome (run_policies (fst cm) 4 (mk_input 0 (snd cm)))) cms.
  Proof.
    induction cms as [|[chain m] cms IH]; intros n; cbn [Policy.run_configured map fst snd]; [reflexivity|].
    rewrite IH. f_equal. rewrite mk_input_shift. replace (n + 4) with (4 + n) by lia.
    rewrite run_shift. apply outcome_shift.
  Qed.

  Lemma stateless : forall chain ms n,
    map (outcome) (run_messages chain n ms)
    = map (fun m => outcome (run_policies chain 4 (mk_input 0 m))) ms.
  Proof.
    induction ms as [|m ms IH]; intros n; cbn [Policy.run_messages map]; [reflexivity|].
    rewrite IH. f_equal. rewrite mk_input_shift. replace (n + 4) with (4 + n) by lia.
    rewrite run_shift. apply outcome_shift.
  Qed.
End Stateless.

(* ------------------------------------------------------------------ *)
(* the hypotheses are satisfiable: a concrete envelope, a toy subn      *)
(* ------------------------------------------------------------------ *)

(* rule = (exact address, replacement): subn replaces a recipient equal to the first component *)
Definition toy_subn (ru : bytes * bytes) (r : bytes) : bytes * N :=
  if beqb (fst ru) r then (snd ru, 1) else (r, 0).
Definition toy_lower (d : bytes) : bytes := map to_lower d.
Definition toy_val (_ : env) : bytes := [63].

(* recipients a@X, b@x, c (no domain), a@X (duplicate); one Date header *)
Definition ex_env : env :=
  mkenv 0 [115] [[97;64;88]; [98;64;120]; [99]; [97;64;88]] 1 [([100;65;84;69], [49])] 2 3 [104;105].

Example ex_fresh : fresh_input ex_env 4.
Proof.
  split.
  - unfold ids, ex_env. cbn [eid rid hid cid].
    repeat (constructor; [cbn; lia|]). constructor.
  - unfold ids, ex_env. cbn [eid rid hid cid]. repeat (constructor; [reflexivity|]). constructor.
Qed.

Example ex_hits : hits _ toy_subn ([99], [99;64;121]) [99] = true.
Proof. reflexivity. Qed.

Example ex_run :
  let chain := [PDomainSplit; PForward [([99], [99;64;121])]; PReceived; PSplit; PDate; PMid] in
  let s := run_policies _ toy_subn toy_lower toy_val toy_val toy_val chain 4 ex_env in
  map rcpts (results s) = [[[99;64;121]]; [[97;64;88]]; [[98;64;120]]; [[97;64;88]]]
  /\ map (fun x => map fst (hdr x)) (results s)
     = repeat [n_received; [100;65;84;69]; n_mid] 4
  /\ failed s = false.
Proof. vm_compute. repeat split. Qed.

(* a matching identity rule in front of a catch-all: c -> c, then c -> c@y; the catch-all alone rewrites *)
Example ex_identity_stops :
  toy_subn ([99], [99]) [99] = ([99], 1)
  /\ fwd_rcpt _ toy_subn [([99], [99]); ([99], [99;64;121])] [99] = [99]
  /\ fwd_rcpt _ toy_subn [([99], [99;64;121])] [99] = [99;64;121].
Proof. vm_compute. repeat split. Qed.

(* an EMPTY "DATE" field below another field, an empty "message-id": present, nothing is added anywhere *)
Definition ex_env_empty : env :=
  mkenv 0 [115] [[97;64;88]; [98;64;120]] 1 [([83], [120]); ([68;65;84;69], []); ([109;101;115;115;97;103;101;45;105;100], [])] 2 3 [104;105].
Example ex_empty_present :
  ieq [68;65;84;69] n_date = true /\ ieq [109;101;115;115;97;103;101;45;105;100] n_mid = true
  /\ has_header n_date (hdr ex_env_empty) = true /\ has_header n_mid (hdr ex_env_empty) = true
  /\ let s := run_policies _ toy_subn toy_lower toy_val toy_val toy_val [PDate; PSplit; PMid; PReceived; PDate; PMid] 4 ex_env_empty in
     map (fun x => map fst (hdr x)) (results s)
     = repeat [n_received; [83]; [68;65;84;69]; [109;101;115;115;97;103;101;45;105;100]] 2.
Proof. vm_compute. repeat split. Qed.

(* a message with Return-Path above its Received field and a lower-case received further down; Received twice
   in the chain: both new fields in front of everything, the original block untouched behind them *)
Definition ex_env_trace : env :=
  mkenv 0 [115] [[97;64;88]; [98;64;120]] 1
        [([82;101;116;117;114;110;45;80;97;116;104], [60;62]); (n_received, [49]); ([83], [120]); ([114;101;99;101;105;118;101;100], [50])] 2 3 [104;105].
Example ex_received_first :
  let s := run_policies _ toy_subn toy_lower toy_val toy_val toy_val [PReceived; PSplit; PDate; PReceived; PMid] 4 ex_env_trace in
  map (fun x => map fst (hdr x)) (results s)
  = repeat [n_received; n_received; [82;101;116;117;114;110;45;80;97;116;104]; n_received; [83]; [114;101;99;101;105;118;101;100]; n_date; n_mid] 2.
Proof. vm_compute. repeat split. Qed.

(* the same two-domain message three times through one chain with a split and a Forward behind it:
   three times the same outcome, 3 x (1 input + 2 copies) x 4 objects all different *)
Example ex_messages :
  let chain := [PDomainSplit; PForward [([99], [99;64;121])]; PReceived] in
  let m := mkmsg [115] [[97;64;88]; [98;64;120]; [99]] [] [104;105] in
  let ss := run_messages _ toy_subn toy_lower toy_val toy_val toy_val chain 0 [m; m; m] in
  map outcome ss = repeat (false, [([115], [[97;64;88]; [98;64;120]], [(n_received, [63])], [104;105]);
                                        ([115], [[99;64;121]], [(n_received, [63])], [104;105])]) 3
  /\ length (flat_map ids (flat_map results ss)) = 24%nat
  /\ (forall d e, toy_val (shift_env d e) = toy_val e).
Proof. vm_compute. repeat split. Qed.

(* a rule added between two messages is in force for the second: c is left alone, then c -> c@y *)
Example ex_configured :
  let m := mkmsg [115] [[97;64;88]; [99]] [] [104;105] in
  let ss := run_configured _ toy_subn toy_lower toy_val toy_val toy_val 0
              [([PForward []; PSplit], m); ([PForward [([99], [99;64;121])]; PSplit], m)] in
  map (fun s => map rcpts (results s)) ss = [[[[97;64;88]]; [[99]]]; [[[97;64;88]]; [[99;64;121]]]].
Proof. vm_compute. reflexivity. Qed.
