(* Proofs for property C20 over model/Envelope.v. *)
From Coq Require Import List NArith Bool Lia.
From Coq Require Import ZifyBool ZifyN.
From SV Require Import lib.Bytes model.Envelope.
Import ListNotations.
Open Scope N_scope.

(* ------------------------------------------------------------------ *)
(* A.  The boundary search on a block of non-blank lines               *)
(* ------------------------------------------------------------------ *)

Definition plainb (b : N) : bool := negb (b =? 10) && negb (b =? 13).
Definition nonws (b : N) : bool := negb (is_ws b).
Definition okline (l : hline) : bool := forallb plainb (fst l) && existsb nonws (fst l).

Lemma pre_nil : forall o, pre [] o = o.
Proof. intros [[m r]|]; reflexivity. Qed.

Lemma pre_pre : forall p q o, pre p (pre q o) = pre (p ++ q) o.
Proof. intros p q [[m r]|]; cbn; [rewrite app_assoc|]; reflexivity. Qed.

Lemma search_cons : forall b s,
  search (b :: s) = match match_here (b :: s) with Some r => Some r | None => pre [b] (search s) end.
Proof. reflexivity. Qed.

Lemma match_tail_okline : forall c rest,
  forallb plainb c = true -> existsb nonws c = true -> match_tail (c ++ rest) = None.
Proof.
  induction c as [|a c IH]; cbn [forallb existsb app match_tail]; intros rest Hp Hn.
  - discriminate.
  - apply andb_prop in Hp as [Ha Hp].
    destruct (a =? 10) eqn:E10.
    + unfold plainb in Ha. rewrite E10 in Ha. discriminate.
    + destruct (is_ws a) eqn:W.
      * unfold nonws in Hn. rewrite W in Hn. cbn in Hn. rewrite (IH rest Hp Hn). reflexivity.
      * reflexivity.
Qed.

Lemma match_here_plain : forall b s, plainb b = true -> match_here (b :: s) = None.
Proof.
  intros b s H. unfold plainb in H. apply andb_prop in H as [H1 H2].
  cbn [match_here]. destruct (b =? 10); [discriminate|]. destruct (b =? 13); [discriminate|]. reflexivity.
Qed.

Lemma search_plain : forall c s, forallb plainb c = true -> search (c ++ s) = pre c (search s).
Proof.
  induction c as [|a c IH]; intros s H.
  - cbn [app]. rewrite pre_nil. reflexivity.
  - cbn [forallb] in H. apply andb_prop in H as [Ha H].
    cbn [app]. rewrite search_cons, (match_here_plain _ _ Ha), (IH s H), pre_pre. reflexivity.
Qed.

Lemma search_eol : forall e rest,
  search (eol e ++ rest) =
  match match_tail rest with
  | Some (m, r) => Some (eol e ++ m, r)
  | None => pre (eol e) (search rest)
  end.
Proof.
  intros [|] rest; cbn [eol app].
  - rewrite search_cons. cbn [match_here]. change (13 =? 10) with false. change (13 =? 13) with true.
    change (10 =? 10) with true. cbv iota.
    destruct (match_tail rest) as [[m r]|] eqn:T; cbn [pre app].
    + reflexivity.
    + rewrite search_cons. cbn [match_here]. change (10 =? 10) with true. cbv iota.
      rewrite T. cbn [pre]. rewrite pre_pre. reflexivity.
  - rewrite search_cons. cbn [match_here]. change (10 =? 10) with true. cbv iota.
    destruct (match_tail rest) as [[m r]|] eqn:T; cbn [pre app]; reflexivity.
Qed.

Lemma match_tail_blank : forall blank B, blank_ok blank -> match_tail (blank ++ B) = Some (blank, B).
Proof. intros blank B [->| ->]; reflexivity. Qed.

Lemma render_lines_cons : forall l ls, render_lines (l :: ls) = fst l ++ eol (snd l) ++ render_lines ls.
Proof. intros. unfold render_lines, render_line. cbn [map concat]. rewrite <- app_assoc. reflexivity. Qed.

(* the boundary-search lemma: in a block of lines each of which has a byte that
   is not white space, followed by a blank line, the first match of
   \r?\n\s*?\n is the end of the last line plus the blank line *)
Lemma search_block : forall ls blank B,
  ls <> [] -> forallb okline ls = true -> blank_ok blank ->
  search (render_lines ls ++ blank ++ B) = Some (render_lines ls ++ blank, B).
Proof.
  induction ls as [|[c e] ls IH]; intros blank B Hne Hok Hb.
  - congruence.
  - cbn [forallb] in Hok. apply andb_prop in Hok as [Hl Hok].
    unfold okline in Hl. cbn [fst] in Hl. apply andb_prop in Hl as [Hp _].
    rewrite render_lines_cons. cbn [fst snd]. rewrite <- !app_assoc.
    rewrite (search_plain _ _ Hp), search_eol.
    destruct ls as [|[c2 e2] ls'].
    + change (render_lines []) with (@nil N). cbn [app].
      rewrite (match_tail_blank _ _ Hb). cbn [pre]. reflexivity.
    + assert (Hok2 := Hok). cbn [forallb] in Hok2. apply andb_prop in Hok2 as [Hl2 _].
      unfold okline in Hl2. cbn [fst] in Hl2. apply andb_prop in Hl2 as [Hp2 Hn2].
      rewrite (render_lines_cons (c2, e2) ls') at 1. cbn [fst snd]. rewrite <- !app_assoc.
      rewrite (match_tail_okline _ _ Hp2 Hn2).
      assert (Hne' : (c2, e2) :: ls' <> []) by discriminate.
      specialize (IH blank B Hne' Hok Hb).
      rewrite IH. cbn [pre]. rewrite <- ?app_assoc. reflexivity.
Qed.

(* --- well-formed blocks consist of such lines --- *)

Lemma name_char_plain : forall b, name_char b = true -> plainb b = true /\ nonws b = true /\ is_blank b = false /\ (b =? 58) = false.
Proof. intros b. unfold name_char, plainb, nonws, is_ws, is_blank. lia. Qed.

Lemma val_char_plain : forall b, val_char b = true -> plainb b = true.
Proof. intros b. unfold val_char, plainb. lia. Qed.

Lemma val_char_nonws : forall b, val_char b = true -> is_blank b = false -> nonws b = true.
Proof. intros b. unfold val_char, nonws, is_ws, is_blank. lia. Qed.

Lemma forallb_impl : forall (p q : N -> bool) l,
  (forall b, p b = true -> q b = true) -> forallb p l = true -> forallb q l = true.
Proof.
  intros p q l H. induction l as [|a l IH]; cbn; [reflexivity|].
  intros H1. apply andb_prop in H1 as [Ha Hl]. rewrite (H _ Ha), (IH Hl). reflexivity.
Qed.

Lemma exists_nonblank_nonws : forall c,
  forallb val_char c = true -> existsb (fun b => negb (is_blank b)) c = true -> existsb nonws c = true.
Proof.
  induction c as [|a c IH]; cbn; [discriminate|].
  intros Hv He. apply andb_prop in Hv as [Ha Hv].
  destruct (is_blank a) eqn:Bl; cbn in He.
  - rewrite (IH Hv He). apply orb_true_r.
  - rewrite (val_char_nonws _ Ha Bl). reflexivity.
Qed.

Lemma wf_cont_okline : forall l, xwf_cont l = true -> okline l = true.
Proof.
  intros l H. unfold xwf_cont in H.
  apply andb_prop in H as [H He]. apply andb_prop in H as [_ Hv].
  unfold okline. rewrite (forallb_impl _ _ _ val_char_plain Hv), (exists_nonblank_nonws _ Hv He). reflexivity.
Qed.

Record wf_field_facts (f : field) : Prop := {
  wff_name_ne : f_name f <> [];
  wff_name : forallb name_char (f_name f) = true;
  wff_val : forallb val_char (f_val f) = true;
  wff_val_start : starts_blank (f_val f) = false;
  wff_cont : forallb xwf_cont (f_cont f) = true
}.

Lemma wf_field_inv : forall f, xwf_field f = true -> wf_field_facts f.
Proof.
  intros f H. unfold xwf_field in H.
  apply andb_prop in H as [H H6]. apply andb_prop in H as [H H4].
  apply andb_prop in H as [H H3]. apply andb_prop in H as [H1 H2].
  constructor; auto.
  - destruct (f_name f); [discriminate|discriminate].
  - destruct (starts_blank (f_val f)); [discriminate|reflexivity].
Qed.

Lemma first_line_okline : forall f, xwf_field f = true -> okline (first_line f, f_eol f) = true.
Proof.
  intros f H. destruct (wf_field_inv f H) as [Hne Hn Hv _ _].
  unfold okline, first_line. cbn [fst]. apply andb_true_intro. split.
  - rewrite !forallb_app. rewrite (forallb_impl _ _ _ (fun b Hb => proj1 (name_char_plain b Hb)) Hn).
    rewrite (forallb_impl _ _ _ val_char_plain Hv). reflexivity.
  - destruct (f_name f) as [|a n]; [congruence|]. cbn [forallb] in Hn. apply andb_prop in Hn as [Ha _].
    cbn [app existsb]. destruct (name_char_plain a Ha) as (_ & Hw & _). rewrite Hw. reflexivity.
Qed.

Lemma forallb_okline_app : forall a b, forallb okline (a ++ b) = forallb okline a && forallb okline b.
Proof. intros. apply forallb_app. Qed.

Lemma block_lines_ok : forall fs, forallb xwf_field fs = true -> forallb okline (block_lines fs) = true.
Proof.
  induction fs as [|f fs IH]; cbn [forallb block_lines flat_map]; [reflexivity|].
  intros H. apply andb_prop in H as [Hf Hfs].
  change (flat_map field_lines fs) with (block_lines fs).
  rewrite forallb_app. rewrite (IH Hfs), andb_true_r.
  unfold field_lines. cbn [forallb]. rewrite (first_line_okline f Hf). cbn [andb].
  destruct (wf_field_inv f Hf) as [_ _ _ _ Hc].
  clear -Hc. induction (f_cont f) as [|l ls IHl]; cbn [forallb] in *; [reflexivity|].
  apply andb_prop in Hc as [Hl Hls]. rewrite (wf_cont_okline l Hl), (IHl Hls). reflexivity.
Qed.

Lemma wf_block_inv : forall fs, wf_block fs = true -> fs <> [] /\ forallb wf_field fs = true.
Proof.
  intros fs H. unfold wf_block in H. apply andb_prop in H as [H1 H2]. split; [|exact H2].
  destruct fs; [discriminate|discriminate].
Qed.

Lemma block_lines_ne : forall fs, fs <> [] -> block_lines fs <> [].
Proof. intros [|f fs] H; [congruence|]. cbn. discriminate. Qed.

(* the class without the length bound contains the class *)
Lemma wf_x_cont : forall l, wf_cont l = true -> xwf_cont l = true.
Proof. intros l H. unfold wf_cont in H. apply andb_prop in H as [H _]. exact H. Qed.

Lemma wf_x_field : forall f, wf_field f = true -> xwf_field f = true.
Proof.
  intros f H. unfold wf_field in H. unfold xwf_field.
  apply andb_prop in H as [H H6]. apply andb_prop in H as [H _]. rewrite H. cbn [andb].
  clear H. induction (f_cont f) as [|l ls IH]; cbn [forallb] in *; [reflexivity|].
  apply andb_prop in H6 as [Hl Hls]. rewrite (wf_x_cont l Hl), (IH Hls). reflexivity.
Qed.

Lemma wf_x_all : forall fs, forallb wf_field fs = true -> forallb xwf_field fs = true.
Proof.
  induction fs as [|f fs IH]; cbn [forallb]; [reflexivity|]. intros H. apply andb_prop in H as [Hf Hfs].
  rewrite (wf_x_field f Hf), (IH Hfs). reflexivity.
Qed.

Lemma xwf_block_inv : forall fs, xwf_block fs = true -> fs <> [] /\ forallb xwf_field fs = true.
Proof.
  intros fs H. unfold xwf_block in H. apply andb_prop in H as [H1 H2]. split; [|exact H2].
  destruct fs; [discriminate|discriminate].
Qed.

Lemma wf_x_block : forall fs, wf_block fs = true -> xwf_block fs = true.
Proof.
  intros fs H. destruct (wf_block_inv fs H) as [Hne Hall]. unfold xwf_block.
  rewrite (wf_x_all fs Hall). destruct fs; [congruence|reflexivity].
Qed.

(* boundary search on a rendered block whose lines may be over-long *)
Lemma search_xwf : forall fs blank B,
  xwf_block fs = true -> blank_ok blank ->
  search (render fs ++ blank ++ B) = Some (render fs ++ blank, B).
Proof.
  intros fs blank B Hwf Hb. destruct (xwf_block_inv fs Hwf) as [Hne Hall].
  unfold render. apply search_block; auto using block_lines_ne, block_lines_ok.
Qed.

(* boundary search on a rendered well-formed block *)
Lemma search_wf : forall fs blank B,
  wf_block fs = true -> blank_ok blank ->
  search (render fs ++ blank ++ B) = Some (render fs ++ blank, B).
Proof. intros fs blank B Hwf Hb. exact (search_xwf fs blank B (wf_x_block fs Hwf) Hb). Qed.

(* ------------------------------------------------------------------ *)
(* B.  hnorm                                                           *)
(* ------------------------------------------------------------------ *)

Lemma crlf_field_idem : forall f, crlf_field (crlf_field f) = crlf_field f.
Proof.
  intros f. unfold crlf_field. cbn. f_equal. rewrite map_map. apply map_ext. intros [c e]. reflexivity.
Qed.

Lemma hnorm_fields_idem : forall fs, hnorm_fields (hnorm_fields fs) = hnorm_fields fs.
Proof. intros fs. unfold hnorm_fields. rewrite map_map. apply map_ext. apply crlf_field_idem. Qed.

Lemma wf_crlf_field : forall f, wf_field f = true -> wf_field (crlf_field f) = true.
Proof.
  intros f H. unfold wf_field in *. unfold crlf_field, first_line in *. cbn [f_name f_val f_cont f_eol] in *.
  apply andb_prop in H as [H H6]. rewrite H. cbn [andb].
  clear H. induction (f_cont f) as [|l ls IH]; cbn [map forallb] in *; [reflexivity|].
  apply andb_prop in H6 as [Hl Hls]. rewrite (IH Hls), andb_true_r. exact Hl.
Qed.

Lemma wf_hnorm_fields : forall fs, wf_block fs = true -> wf_block (hnorm_fields fs) = true.
Proof.
  intros fs H. destruct (wf_block_inv fs H) as [Hne Hall]. unfold wf_block.
  destruct fs as [|f fs]; [congruence|]. cbn [hnorm_fields map null negb andb].
  change (forallb wf_field (map crlf_field (f :: fs)) = true).
  clear H Hne. induction (f :: fs) as [|g gs IH]; cbn [map forallb] in *; [reflexivity|].
  apply andb_prop in Hall as [Hg Hgs]. rewrite (wf_crlf_field g Hg), (IH Hgs). reflexivity.
Qed.

(* ------------------------------------------------------------------ *)
(* C.  The concrete codec inverts render on the class                  *)
(* ------------------------------------------------------------------ *)

Definition nolf (b : N) : bool := negb (b =? 10).

Lemma split_lf_line : forall l s,
  forallb nolf l = true ->
  split_lf (l ++ 10 :: s) = (l :: fst (split_lf s), snd (split_lf s)).
Proof.
  induction l as [|b l IH]; intros s H.
  - cbn [app split_lf]. destruct (split_lf s) as [ls t]. reflexivity.
  - cbn [forallb] in H. apply andb_prop in H as [Hb H].
    cbn [app split_lf]. rewrite (IH s H). unfold nolf in Hb.
    destruct (b =? 10); [discriminate|]. reflexivity.
Qed.

Definition raw_line (l : hline) : bytes := fst l ++ (if snd l then [13] else []).

Lemma plainb_nolf : forall b, plainb b = true -> nolf b = true.
Proof. intros b. unfold plainb, nolf. lia. Qed.

Lemma split_lf_render : forall ls,
  Forall (fun l => forallb plainb (fst l) = true) ls ->
  split_lf (render_lines ls) = (map raw_line ls, []).
Proof.
  induction ls as [|[c e] ls IH]; intros H.
  - reflexivity.
  - inversion H as [|? ? Hc Hls]; subst. cbn [fst] in Hc.
    rewrite render_lines_cons. cbn [fst snd].
    assert (E : c ++ eol e ++ render_lines ls = raw_line (c, e) ++ 10 :: render_lines ls).
    { unfold raw_line. cbn [fst snd]. destruct e; cbn [eol]; rewrite <- ?app_assoc; cbn [app]; rewrite ?app_nil_r; reflexivity. }
    rewrite E, split_lf_line.
    + rewrite (IH Hls). reflexivity.
    + unfold raw_line. cbn [fst snd]. rewrite forallb_app.
      rewrite (forallb_impl _ _ _ plainb_nolf Hc). destruct e; reflexivity.
Qed.

Lemma ends_cr_snoc : forall c x, ends_cr (c ++ [x]) = (x =? 13).
Proof.
  induction c as [|a c IH]; intros x; [reflexivity|].
  cbn [app]. specialize (IH x). destruct c; cbn [app] in *; [reflexivity|exact IH].
Qed.

Lemma strip_cr_snoc : forall c, strip_cr (c ++ [13]) = c.
Proof.
  induction c as [|a c IH]; [reflexivity|].
  cbn [app]. destruct c; cbn [app] in *; [reflexivity|]. cbn [strip_cr] in *. rewrite IH. reflexivity.
Qed.

Lemma ends_cr_plain : forall c, forallb plainb c = true -> ends_cr c = false.
Proof.
  induction c as [|a c IH]; intros H; [reflexivity|].
  cbn [forallb] in H. apply andb_prop in H as [Ha H].
  destruct c; [|exact (IH H)]. cbn. unfold plainb in Ha. lia.
Qed.

Lemma cr_split_raw : forall l, forallb plainb (fst l) = true -> cr_split (raw_line l) = l.
Proof.
  intros [c [|]] H; unfold raw_line, cr_split; cbn [fst snd] in *.
  - rewrite ends_cr_snoc. change (13 =? 13) with true. cbv iota. rewrite strip_cr_snoc. reflexivity.
  - rewrite app_nil_r, (ends_cr_plain _ H). reflexivity.
Qed.

Lemma lines_of_render : forall ls,
  Forall (fun l => forallb plainb (fst l) = true) ls -> lines_of (render_lines ls) = Some ls.
Proof.
  intros ls H. unfold lines_of. rewrite (split_lf_render ls H). f_equal.
  induction H as [|l ls Hl Hls IH]; cbn [map]; [reflexivity|].
  rewrite (cr_split_raw l Hl), IH. reflexivity.
Qed.

Lemma split_colon_name : forall n r,
  forallb name_char n = true -> split_colon (n ++ 58 :: r) = Some (n, r).
Proof.
  induction n as [|a n IH]; intros r H.
  - reflexivity.
  - cbn [forallb] in H. apply andb_prop in H as [Ha H]. cbn [app split_colon].
    destruct (name_char_plain a Ha) as (_ & _ & _ & E). rewrite E, (IH r H). reflexivity.
Qed.

Lemma group_conts : forall conts rest pend fs,
  forallb xwf_cont conts = true -> group rest = Some (pend, fs) ->
  group (conts ++ rest) = Some (conts ++ pend, fs).
Proof.
  induction conts as [|[c e] conts IH]; intros rest pend fs H G.
  - exact G.
  - cbn [forallb] in H. apply andb_prop in H as [Hc H].
    cbn [app group]. rewrite (IH rest pend fs H G).
    unfold xwf_cont in Hc. cbn [fst] in Hc.
    apply andb_prop in Hc as [Hc _]. apply andb_prop in Hc as [Hs _].
    rewrite Hs. destruct c; [discriminate|]. reflexivity.
Qed.

Definition tail_ok (t : list hline) : Prop := t = [] \/ exists e, t = [([], e)].

Lemma group_fields : forall fs t,
  forallb xwf_field fs = true -> tail_ok t -> group (block_lines fs ++ t) = Some ([], fs).
Proof.
  induction fs as [|f fs IH]; intros t H Ht.
  - cbn [block_lines flat_map app]. destruct Ht as [->|[e ->]]; reflexivity.
  - cbn [forallb] in H. apply andb_prop in H as [Hf H].
    destruct (wf_field_inv f Hf) as [Hne Hn Hv Hvs Hc].
    cbn [block_lines flat_map]. change (flat_map field_lines fs) with (block_lines fs).
    unfold field_lines at 1. cbn [app]. rewrite <- app_assoc. cbn [group].
    rewrite (group_conts _ _ _ _ Hc (IH t H Ht)). rewrite app_nil_r.
    unfold first_line.
    destruct (f_name f) as [|a n] eqn:En; [congruence|].
    cbn [app null andb]. assert (Hn' := Hn). cbn [forallb] in Hn'. apply andb_prop in Hn' as [Ha _].
    destruct (name_char_plain a Ha) as (_ & _ & Hbl & _).
    cbn [starts_blank]. rewrite Hbl.
    unfold parse_first. change (a :: n ++ 58 :: 32 :: f_val f) with ((a :: n) ++ 58 :: 32 :: f_val f).
    rewrite (split_colon_name _ _ Hn). change (32 =? 32) with true. cbv iota.
    rewrite <- En. destruct f; reflexivity.
Qed.

Definition blank_opt (blank : bytes) : Prop := blank = [] \/ blank_ok blank.

Lemma block_lines_plain : forall fs,
  forallb xwf_field fs = true -> Forall (fun l => forallb plainb (fst l) = true) (block_lines fs).
Proof.
  intros fs H. apply block_lines_ok in H. apply Forall_forall. intros l Hl.
  rewrite forallb_forall in H. specialize (H l Hl). unfold okline in H. apply andb_prop in H as [H _]. exact H.
Qed.

Lemma render_lines_app : forall a b, render_lines (a ++ b) = render_lines a ++ render_lines b.
Proof. intros. unfold render_lines. rewrite map_app, concat_app. reflexivity. Qed.

Lemma lines_group_render : forall fs blank,
  fs <> [] -> forallb xwf_field fs = true -> blank_opt blank ->
  exists ls, lines_of (render fs ++ blank) = Some ls /\ group ls = Some ([], fs).
Proof.
  intros fs blank Hne Hall Hb.
  assert (E : exists t, tail_ok t /\ render fs ++ blank = render_lines (block_lines fs ++ t)
                        /\ Forall (fun l => forallb plainb (fst l) = true) t).
  { destruct Hb as [->|[->| ->]].
    - exists []. split; [left; reflexivity|]. rewrite !app_nil_r. split; [reflexivity|constructor].
    - exists [([], false)]. split; [right; eexists; reflexivity|]. rewrite render_lines_app. split; [reflexivity|].
      constructor; [reflexivity|constructor].
    - exists [([], true)]. split; [right; eexists; reflexivity|]. rewrite render_lines_app. split; [reflexivity|].
      constructor; [reflexivity|constructor]. }
  destruct E as (t & Ht & E & Hp). rewrite E. exists (block_lines fs ++ t). split.
  - apply lines_of_render. apply Forall_app. split; [apply block_lines_plain; exact Hall|exact Hp].
  - exact (group_fields fs t Hall Ht).
Qed.

Lemma parse_block_render : forall fs blank,
  wf_block fs = true -> blank_opt blank -> parse_block (render fs ++ blank) = Some fs.
Proof.
  intros fs blank Hwf Hb. destruct (wf_block_inv fs Hwf) as [Hne Hall].
  destruct (lines_group_render fs blank Hne (wf_x_all fs Hall) Hb) as (ls & H1 & H2).
  unfold parse_block. rewrite H1, H2, Hwf. reflexivity.
Qed.

Lemma parse_block_x_render : forall fs blank,
  xwf_block fs = true -> blank_opt blank -> parse_block_x (render fs ++ blank) = Some fs.
Proof.
  intros fs blank Hwf Hb. destruct (xwf_block_inv fs Hwf) as [Hne Hall].
  destruct (lines_group_render fs blank Hne Hall Hb) as (ls & H1 & H2).
  unfold parse_block_x. rewrite H1, H2, Hwf. reflexivity.
Qed.

(* ------------------------------------------------------------------ *)
(* D.  Property theorems, for any header codec that behaves like the   *)
(*     class codec on the class                                        *)
(* ------------------------------------------------------------------ *)

Lemma codec_c_ok : codec_ok hparse_c hgen_c.
Proof.
  intros fs blank Hwf Hb. unfold hparse_c. cbn [fst snd]. split; [reflexivity|].
  rewrite (parse_block_render fs blank Hwf (or_intror Hb)). reflexivity.
Qed.

Section CodecFacts.
  Variable hdr : Type.
  Variable hparse : bytes -> hdr * option bytes.
  Variable hgen : hdr -> bytes.
  Hypothesis Hcodec : codec_ok hparse hgen.

  Notation parse := (parse hdr hparse).
  Notation flatten := (flatten hdr hgen).
  Notation join := (join).

  Lemma parse_wf : forall fs blank B s r,
    wf_block fs = true -> blank_ok blank ->
    let e := parse s r (render fs ++ blank ++ B) in
    e_sender e = s /\ e_rcpts e = r /\ hgen (e_headers e) = gen_fields fs /\ e_message e = B.
  Proof.
    intros fs blank B s r Hwf Hb. unfold Envelope.parse.
    rewrite (search_wf fs blank B Hwf Hb).
    destruct (Hcodec fs blank Hwf Hb) as [H1 H2].
    destruct (hparse (render fs ++ blank)) as [h extra]. cbn [fst snd] in *. subst extra.
    cbn. auto.
  Qed.

  (* body byte-exact, header fields kept, for EVERY body B *)
  Lemma body_exact : forall fs blank B s r,
    wf_block fs = true -> blank_ok blank ->
    flatten (parse s r (render fs ++ blank ++ B)) = (render (hnorm_fields fs) ++ CRLF, B).
  Proof.
    intros fs blank B s r Hwf Hb.
    destruct (parse_wf fs blank B s r Hwf Hb) as (_ & _ & H3 & H4).
    unfold Envelope.flatten. rewrite H3, H4. reflexivity.
  Qed.

  Lemma crlf_blank_ok : blank_ok CRLF.
  Proof. right. reflexivity. Qed.

  (* re-parsing the flattened output is a fixed point *)
  Lemma fixed_point : forall fs blank B s r,
    wf_block fs = true -> blank_ok blank ->
    let e1 := parse s r (render fs ++ blank ++ B) in
    let e2 := parse s r (join (flatten e1)) in
    flatten e2 = flatten e1 /\ parse s r (join (flatten e2)) = e2.
  Proof.
    intros fs blank B s r Hwf Hb e1 e2.
    assert (F1 : flatten e1 = (render (hnorm_fields fs) ++ CRLF, B)) by (apply body_exact; assumption).
    assert (F2 : flatten e2 = flatten e1).
    { unfold e2. rewrite F1. unfold Envelope.join. cbn [fst snd]. rewrite <- app_assoc.
      rewrite (body_exact (hnorm_fields fs) CRLF B s r (wf_hnorm_fields fs Hwf) crlf_blank_ok).
      rewrite hnorm_fields_idem. reflexivity. }
    split; [exact F2|]. rewrite F2. reflexivity.
  Qed.

  (* deep copy and pickling keep the flattened message; copy sets recipients
     only when the new list is not empty *)
  Lemma copy_pickle : forall fs blank B s r nr,
    wf_block fs = true -> blank_ok blank ->
    let e := parse s r (render fs ++ blank ++ B) in
    flatten (copy hdr (pickled hdr e) nr) = (render (hnorm_fields fs) ++ CRLF, B)
    /\ e_sender (copy hdr (pickled hdr e) nr) = s
    /\ e_rcpts (copy hdr (pickled hdr e) nr) = (if null nr then r else nr).
  Proof.
    intros fs blank B s r nr Hwf Hb e.
    destruct (parse_wf fs blank B s r Hwf Hb) as (H1 & H2 & H3 & H4). fold e in H1, H2, H3, H4.
    unfold pickled. destruct nr as [|x nr]; cbn [copy null]; unfold Envelope.flatten; cbn [e_headers e_message e_sender e_rcpts];
      rewrite ?H1, ?H2, ?H3, ?H4; auto.
  Qed.

  (* --- 7-bit conversion --- *)
  Lemma ascii_8bit : forall b, forallb is_ascii b = negb (has_8bit b).
  Proof.
    induction b as [|x b IH]; [reflexivity|]. unfold has_8bit in *. cbn [forallb existsb].
    rewrite IH. unfold is_ascii. destruct (existsb _ b); lia.
  Qed.

  (* no encoder: an 8-bit body is refused; whatever is let through is the
     unchanged envelope with an ASCII body *)
  Lemma seven_refuses : forall e : envelope hdr,
    (has_8bit (e_message e) = true -> encode_7bit hdr hparse hgen None e = UnicodeErr) /\
    (forall e', encode_7bit hdr hparse hgen None e = Ok7 e' -> e' = e /\ has_8bit (e_message e') = false).
  Proof.
    intros e. unfold encode_7bit. rewrite ascii_8bit. split.
    - intros H. rewrite H. reflexivity.
    - intros e' H. destruct (has_8bit (e_message e)) eqn:E; cbn [negb] in H; [discriminate|].
      inversion H; subst. auto.
  Qed.

  Section Encoder.
    (* email's MIME re-encoding of header_data ++ message with an encoder from
       email.encoders, on single-part messages; encb = the encoder's output as the
       generator writes it; cte = the value it stores in Content-Transfer-Encoding *)
    Variable recode : bytes -> bytes.
    Variable encb decb text_of : bytes -> bytes.
    Variable cte : bytes.
    Variable singlepart : list field -> Prop.
    Hypothesis Hcte : wf_field (cte_field cte) = true.
    Hypothesis Hrecode : forall fs B, wf_block fs = true -> singlepart fs ->
      recode (gen_fields fs ++ B) = gen_fields (set_cte cte fs) ++ encb B.
    Hypothesis Henc_ascii : forall B, has_8bit (encb B) = false.
    Hypothesis Henc_dec : forall B, decb (encb B) = text_of B.

    Lemma wf_set_cte : forall fs, wf_block fs = true -> wf_block (set_cte cte fs) = true.
    Proof.
      intros fs H. destruct (wf_block_inv fs H) as [_ Hall]. unfold wf_block, set_cte.
      apply andb_true_intro. split.
      - destruct (filter _ fs); reflexivity.
      - rewrite forallb_app. cbn [forallb]. rewrite Hcte. cbn [andb]. rewrite andb_true_r.
        clear H. induction fs as [|f fs IH]; cbn [filter forallb] in *; [reflexivity|].
        apply andb_prop in Hall as [Hf Hfs]. destruct (negb (is_cte f)); cbn [forallb]; rewrite ?Hf, (IH Hfs); reflexivity.
    Qed.

    Lemma gen_fields_crlf : forall fs, gen_fields (hnorm_fields fs) = gen_fields fs.
    Proof. intros. unfold gen_fields. rewrite hnorm_fields_idem. reflexivity. Qed.

    Lemma seven_ascii : forall fs blank B s r,
      wf_block fs = true -> singlepart fs -> blank_ok blank ->
      let e := parse s r (render fs ++ blank ++ B) in
      exists e', encode_7bit hdr hparse hgen (Some recode) e = Ok7 e'
        /\ e_sender e' = s /\ e_rcpts e' = r
        /\ (has_8bit B = false -> e' = e)
        /\ (has_8bit B = true ->
              flatten e' = (gen_fields (set_cte cte fs), encb B)
              /\ has_8bit (e_message e') = false
              /\ decb (e_message e') = text_of B).
    Proof.
      intros fs blank B s r Hwf Hsp Hb e.
      destruct (parse_wf fs blank B s r Hwf Hb) as (H1 & H2 & H3 & H4). fold e in H1, H2, H3, H4.
      unfold encode_7bit. rewrite ascii_8bit, H4.
      destruct (has_8bit B) eqn:E8; cbn [negb].
      - eexists. split; [reflexivity|].
        unfold Envelope.join, Envelope.flatten. cbn [fst snd]. rewrite H1, H2, H3, H4.
        rewrite (Hrecode fs B Hwf Hsp).
        assert (EQ : gen_fields (set_cte cte fs) ++ encb B
                     = render (hnorm_fields (set_cte cte fs)) ++ CRLF ++ encb B)
          by (unfold gen_fields; rewrite <- app_assoc; reflexivity).
        rewrite EQ.
        destruct (parse_wf (hnorm_fields (set_cte cte fs)) CRLF (encb B) s r
                    (wf_hnorm_fields _ (wf_set_cte fs Hwf)) crlf_blank_ok) as (G1 & G2 & G3 & G4).
        cbv zeta in G1, G2, G3, G4. rewrite gen_fields_crlf in G3.
        split; [exact G1|]. split; [exact G2|]. split; [intros Hx; discriminate|].
        intros _. unfold Envelope.flatten. rewrite G3, G4.
        split; [reflexivity|]. split; [apply Henc_ascii|apply Henc_dec].
      - eexists. split; [reflexivity|]. split; [exact H1|]. split; [exact H2|].
        split; [reflexivity|]. intros Hx; discriminate.
    Qed.
  End Encoder.
End CodecFacts.

(* ------------------------------------------------------------------ *)
(* E.  The hypotheses are satisfiable: the class codec, a concrete      *)
(*     block, a concrete encoder                                        *)
(* ------------------------------------------------------------------ *)

(* "Subject: h\195\169\n\tfolded \r\nX: 1\nX: 2\r\n" : folded, 8-bit, duplicate name, LF and CRLF *)
Definition ex_fields : list field :=
  [ mkfield [83;117;98;106;101;99;116] [104;195;169] false [([9;102;111;108;100;101;100;32], true)];
    mkfield [88] [49] false [];
    mkfield [88] [50] true [] ].
Definition ex_body : bytes := [10; 13; 10; 46; 13; 10; 0; 13; 255].  (* leading blank lines, dot line, NUL, lone CR, 8-bit *)

Example ex_wf : wf_block ex_fields = true.
Proof. reflexivity. Qed.

Example ex_body_exact :
  flatten _ hgen_c (parse _ hparse_c [] [] (render ex_fields ++ [10] ++ ex_body))
  = (render (hnorm_fields ex_fields) ++ CRLF, ex_body).
Proof. vm_compute. reflexivity. Qed.

Example ex_body_exact_by_theorem :
  flatten _ hgen_c (parse _ hparse_c [] [] (render ex_fields ++ [10] ++ ex_body))
  = (render (hnorm_fields ex_fields) ++ CRLF, ex_body).
Proof. apply (body_exact _ _ _ codec_c_ok); [reflexivity|left; reflexivity]. Qed.

Example ex_8bit : has_8bit ex_body = true.
Proof. reflexivity. Qed.

(* a concrete recode for the class codec satisfies the encoder hypothesis, for any body encoder *)
Lemma recode_c_ok : forall cte encb fs B,
  wf_block fs = true -> recode_c cte encb (gen_fields fs ++ B) = gen_fields (set_cte cte fs) ++ encb B.
Proof.
  intros cte encb fs B Hwf. unfold recode_c, gen_fields at 1. rewrite <- app_assoc.
  rewrite (search_wf (hnorm_fields fs) CRLF B (wf_hnorm_fields fs Hwf) (or_intror eq_refl)).
  rewrite (parse_block_render (hnorm_fields fs) CRLF (wf_hnorm_fields fs Hwf) (or_intror (or_intror eq_refl))).
  unfold gen_fields. rewrite <- app_assoc.
  f_equal. f_equal.
  (* set_cte commutes with hnorm_fields up to hnorm *)
  unfold set_cte, hnorm_fields. rewrite !map_app. f_equal.
  clear Hwf. induction fs as [|f fs IH]; [reflexivity|]. cbn [map filter].
  change (is_cte (crlf_field f)) with (is_cte f).
  destruct (negb (is_cte f)); cbn [map]; rewrite IH; [rewrite crlf_field_idem|]; reflexivity.
Qed.

Example ex_cte_wf : wf_field (cte_field [98;97;115;101;54;52]) = true.   (* "base64" *)
Proof. reflexivity. Qed.

(* the hypotheses of seven_ascii are satisfiable together: class codec, recode_c,
   a (toy) body encoder with ASCII output *)
Definition toy_enc (b : bytes) : bytes := map (fun x => x mod 128) b.

Lemma toy_enc_ascii : forall B, has_8bit (toy_enc B) = false.
Proof.
  induction B as [|x B IH]; [reflexivity|]. unfold has_8bit, toy_enc in *. cbn [map existsb].
  rewrite IH. assert (x mod 128 < 128) by (apply N.mod_lt; discriminate). lia.
Qed.

Example ex_seven_ascii :
  let base64 := [98;97;115;101;54;52] in
  let e := parse _ hparse_c [1] [[2]] (render ex_fields ++ [10] ++ ex_body) in
  exists e', encode_7bit _ hparse_c hgen_c (Some (recode_c base64 toy_enc)) e = Ok7 e'
    /\ flatten _ hgen_c e' = (gen_fields (set_cte base64 ex_fields), toy_enc ex_body)
    /\ has_8bit (e_message e') = false.
Proof.
  intros base64 e.
  destruct (seven_ascii _ _ _ codec_c_ok (recode_c base64 toy_enc) toy_enc (fun b => b) toy_enc base64
              (fun _ => True) ex_cte_wf (fun fs B Hwf _ => recode_c_ok base64 toy_enc fs B Hwf)
              toy_enc_ascii (fun B => eq_refl) ex_fields [10] ex_body [1] [[2]] ex_wf I (or_introl eq_refl))
    as (e' & H1 & _ & _ & _ & H5).
  exists e'. destruct (H5 ex_8bit) as (F & A & _). auto.
Qed.

(* ------------------------------------------------------------------ *)
(* F.  _msg_generator: two attempts, each on a fresh buffer            *)
(* ------------------------------------------------------------------ *)

Section GeneratorFacts.
  Variable src : Type.

  Lemma write_headers_spec : forall (fold : src -> option bytes) hs buf,
    match render_all src fold hs with
    | Some b => write_headers src fold buf hs = Done (buf ++ b ++ CRLF)
    | None => exists buf', write_headers src fold buf hs = Raised buf'
    end.
  Proof.
    induction hs as [|h hs IH]; intros buf; cbn [render_all write_headers].
    - reflexivity.
    - destruct (fold h) as [b|]; [|eexists; reflexivity].
      specialize (IH (buf ++ b)). destruct (render_all src fold hs) as [r|].
      + rewrite IH, <- !app_assoc. reflexivity.
      + exact IH.
  Qed.

  (* refinement to the tiny spec: whatever _msg_generator returns is every stored
     header exactly once, in order, all rendered by the same policy, then the blank
     line - on the first-attempt path and on the fallback path *)
  Lemma no_duplication : forall (fold1 fold2 : src -> option bytes) hs,
    msg_generator src fold1 fold2 hs =
    match render_all src fold1 hs with
    | Some b => GenOk (b ++ CRLF)
    | None => match render_all src fold2 hs with
              | Some b => GenOk (b ++ CRLF)
              | None => GenRaises
              end
    end.
  Proof.
    intros fold1 fold2 hs. unfold msg_generator.
    pose proof (write_headers_spec fold1 hs []) as H1. destruct (render_all src fold1 hs) as [b1|].
    - rewrite H1. reflexivity.
    - destruct H1 as [buf' ->].
      pose proof (write_headers_spec fold2 hs []) as H2. destruct (render_all src fold2 hs) as [b2|].
      + rewrite H2. reflexivity.
      + destruct H2 as [buf2 ->]. reflexivity.
  Qed.
End GeneratorFacts.

Lemma render_cons : forall f fs, render (f :: fs) = render [f] ++ render fs.
Proof.
  intros. unfold render, block_lines. cbn [flat_map]. rewrite app_nil_r, render_lines_app. reflexivity.
Qed.

Lemma render_all_raw : forall fs,
  render_all field (fun f => Some (fold_raw f)) fs = Some (render (hnorm_fields fs)).
Proof.
  induction fs as [|f fs IH]; cbn [render_all]; [reflexivity|].
  rewrite IH. unfold hnorm_fields. cbn [map]. rewrite (render_cons (crlf_field f)). reflexivity.
Qed.

Lemma render_all_short : forall fold_smtp fs,
  fold_short_ok fold_smtp -> forallb wf_field fs = true ->
  render_all field fold_smtp fs = Some (render (hnorm_fields fs)).
Proof.
  intros fold_smtp fs Hs. induction fs as [|f fs IH]; cbn [render_all forallb]; [reflexivity|].
  intros H. apply andb_prop in H as [Hf Hfs]. rewrite (Hs f Hf), (IH Hfs).
  unfold hnorm_fields. cbn [map]. rewrite (render_cons (crlf_field f)). reflexivity.
Qed.

(* parse + _msg_generator on header blocks that may hold over-long lines: body
   exact; the generated block is every field exactly once - as email folds them
   when every fold succeeds, as received (CRLF) when one of them raises *)
Lemma fallback_flatten : forall (hparse : bytes -> list field * option bytes) (fold_smtp : field -> option bytes),
  parser_ok_x hparse ->
  forall fs blank B s r, xwf_block fs = true -> blank_ok blank ->
  let e := parse (list field) hparse s r (render fs ++ blank ++ B) in
  e_message e = B /\ e_headers e = fs /\
  msg_generator field fold_smtp (fun f => Some (fold_raw f)) (e_headers e) =
    match render_all field fold_smtp fs with
    | Some b => GenOk (b ++ CRLF)
    | None => GenOk (render (hnorm_fields fs) ++ CRLF)
    end.
Proof.
  intros hparse fold_smtp Hp fs blank B s r Hwf Hb. unfold parse.
  rewrite (search_xwf fs blank B Hwf Hb), (Hp fs blank Hwf Hb). cbn.
  split; [reflexivity|]. split; [reflexivity|].
  rewrite no_duplication, render_all_raw. reflexivity.
Qed.

(* ... and when every line is short (the property's class) the first attempt succeeds
   with the fields as received *)
Lemma fallback_short : forall fold_smtp fs,
  fold_short_ok fold_smtp -> wf_block fs = true ->
  msg_generator field fold_smtp (fun f => Some (fold_raw f)) fs = GenOk (render (hnorm_fields fs) ++ CRLF).
Proof.
  intros fold_smtp fs Hs Hwf. destruct (wf_block_inv fs Hwf) as [_ Hall].
  rewrite no_duplication, (render_all_short fold_smtp fs Hs Hall). reflexivity.
Qed.

(* hypotheses satisfiable; and what the theorem excludes: the shared-buffer variant
   writes the headers in front of the un-foldable one twice *)
Definition hparse_x_total (d : bytes) : list field * option bytes :=
  (match parse_block_x d with Some fs => fs | None => [] end, None).

Example parser_ok_x_sat : parser_ok_x hparse_x_total.
Proof.
  intros fs blank Hwf Hb. unfold hparse_x_total.
  rewrite (parse_block_x_render fs blank Hwf (or_intror Hb)). reflexivity.
Qed.

Example fold_short_ok_sat : fold_short_ok (fun f => if short (first_line f) then Some (fold_raw f) else None).
Proof.
  intros f H. unfold wf_field in H. apply andb_prop in H as [H _]. apply andb_prop in H as [_ H]. rewrite H. reflexivity.
Qed.

Example ex_shared_buffer_duplicates :
  let fold1 := fun n : N => if n =? 2 then None else Some [n] in
  let fold2 := fun n : N => Some [n] in
  msg_generator N fold1 fold2 [1; 2; 3] = GenOk [1; 2; 3; 13; 10]
  /\ msg_generator_shared N fold1 fold2 [1; 2; 3] = GenOk [1; 1; 2; 3; 13; 10].
Proof. split; reflexivity. Qed.

(* ------------------------------------------------------------------ *)
(* G.  Sequences of operations on one envelope                          *)
(* ------------------------------------------------------------------ *)

Section OpsFacts.
  Variable hdr : Type.
  Variable hparse : bytes -> hdr * option bytes.
  Variable hgen : hdr -> bytes.
  Variable hedit : N -> hdr -> option hdr.

  Notation step := (step hdr hparse hgen hedit).
  Notation effect := (effect hdr hparse hgen hedit).
  Notation observe := (observe hdr hparse hgen hedit).
  Notation trace := (trace hdr hparse hgen hedit).
  Notation state_at := (state_at hdr hparse hgen hedit).

  (* every observation of a sequence is the observation of that operation on the
     envelope as the earlier operations left it - nothing else is remembered *)
  Lemma trace_nth : forall ops e k,
    nth_error (trace ops e) k =
    match nth_error ops k with
    | Some o => Some (observe o (state_at k ops e))
    | None => None
    end.
  Proof.
    induction ops as [|o ops IH]; intros e k.
    - destruct k; reflexivity.
    - destruct k as [|k]; cbn [Envelope.trace nth_error].
      + reflexivity.
      + rewrite IH. unfold Envelope.state_at. cbn [firstn fold_left]. reflexivity.
  Qed.

  Lemma flatten_reflects_current_state : forall ops e k,
    nth_error ops k = Some OFlatten ->
    nth_error (trace ops e) k =
      Some (ObsFlat (hgen (e_headers (state_at k ops e))) (e_message (state_at k ops e))).
  Proof. intros ops e k H. rewrite trace_nth, H. reflexivity. Qed.

  Lemma state_at_app : forall pre l n e,
    state_at (length pre + n) (pre ++ l) e
    = fold_left (fun s o => effect o s) (firstn n l) (state_at (length pre) pre e).
  Proof.
    intros. unfold Envelope.state_at. rewrite firstn_app_2, fold_left_app, firstn_all. reflexivity.
  Qed.

  (* flatten, edit the headers in place, flatten again: the second flatten shows the edited headers *)
  Lemma flatten_after_edit : forall pre j h' e,
    let s := state_at (length pre) pre e in
    hedit j (e_headers s) = Some h' ->
    nth_error (trace (pre ++ [OFlatten; OEdit j; OFlatten]) e) (length pre + 2)
    = Some (ObsFlat (hgen h') (e_message s)).
  Proof.
    intros pre j h' e s H.
    rewrite flatten_reflects_current_state.
    2:{ rewrite nth_error_app2 by lia. replace (length pre + 2 - length pre)%nat with 2%nat by lia. reflexivity. }
    rewrite state_at_app. fold s. cbn [firstn fold_left].
    unfold Envelope.effect. cbn [Envelope.step fst]. rewrite H. reflexivity.
  Qed.

  (* encode_7bit() without an encoder refuses at EVERY call at which the body is 8-bit, whatever came before,
     and leaves the envelope as it was *)
  Lemma refusal_every_call : forall ops e k,
    nth_error ops k = Some (OEncode None) ->
    has_8bit (e_message (state_at k ops e)) = true ->
    nth_error (trace ops e) k = Some ObsRefused
    /\ effect (OEncode None) (state_at k ops e) = state_at k ops e.
  Proof.
    intros ops e k H H8. rewrite trace_nth, H.
    unfold Envelope.observe, Envelope.effect. cbn [Envelope.step]. unfold encode_7bit_f.
    assert (A : forallb is_ascii (e_message (state_at k ops e)) = false) by (rewrite ascii_8bit, H8; reflexivity).
    rewrite A. split; reflexivity.
  Qed.

  (* with an encoder, a call that returns normally leaves an ASCII body or is a conversion through recode *)
  Lemma encode_done : forall rc e e' ,
    step (OEncode rc) e = (e', ObsDone) ->
    (has_8bit (e_message e) = false /\ e' = e)
    \/ (has_8bit (e_message e) = true /\ exists f d, rc = Some f /\ f (join (flatten hdr hgen e)) = Some d
          /\ e' = parse hdr hparse (e_sender e) (e_rcpts e) d).
  Proof.
    intros rc e e' H. cbn [Envelope.step] in H. unfold encode_7bit_f in H.
    rewrite ascii_8bit in H. destruct (has_8bit (e_message e)) eqn:A; cbn [negb] in H.
    - right. destruct rc as [f|]; [|discriminate]. destruct (f (join (flatten hdr hgen e))) as [d|] eqn:F; [|discriminate].
      inversion H; subst. split; [reflexivity|]. exists f, d. auto.
    - left. inversion H; subst. auto.
  Qed.
End OpsFacts.
