(* Proofs about the re-use of one DataSender object (property C05). *)
From Coq Require Import List NArith.
From SV Require Import lib.Bytes model.Data model.DataObj proof.Data_lemmas.
Import ListNotations.

Lemma sender_send_new parts : sender_send (sender_new parts) = (send parts, sender_new parts).
Proof. reflexivity. Qed.

Lemma emissions_repeat parts n : emissions (sender_new parts) n = repeat (send parts) n.
Proof.
  induction n as [|n IH]; [reflexivity|].
  cbn [emissions repeat]. rewrite sender_send_new, IH. reflexivity.
Qed.

(* the output of a sender is a function of its parts: every emission, the
   first and every later one, is `send parts`; the object is unchanged *)
Lemma sender_output_function parts n :
  emissions (sender_new parts) n = repeat (send parts) n
  /\ (forall w, In w (emissions (sender_new parts) n) -> w = send parts)
  /\ snd (sender_send (sender_new parts)) = sender_new parts.
Proof.
  split; [apply emissions_repeat|]. split; [|reflexivity].
  intros w H. rewrite emissions_repeat in H. apply repeat_spec in H. exact H.
Qed.

Lemma every_emission_round_trips parts n w t buf chunks :
  In w (emissions (sender_new parts) n) ->
  dot_parts_at_bol parts -> Forall (fun c => c <> []) chunks ->
  buf ++ concat chunks = w ++ t ->
  exists rb rest, dr_recv None buf chunks = ROk (expected (concat parts)) rb rest
                  /\ rb ++ concat rest = t.
Proof.
  intros Hw Hp Hc E. destruct (sender_output_function parts n) as (_ & F & _).
  rewrite (F w Hw) in E. exact (roundtrip parts t buf chunks Hp Hc E).
Qed.

Example ex_emissions :
  emissions (sender_new [[46; 97; 10]; [46]]) 3 =
  [[46; 46; 97; 10; 46; 46; 13; 10; 46; 13; 10]; [46; 46; 97; 10; 46; 46; 13; 10; 46; 13; 10]; [46; 46; 97; 10; 46; 46; 13; 10; 46; 13; 10]].
Proof. reflexivity. Qed.
