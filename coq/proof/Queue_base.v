(* Utilities for the proofs about model/Queue.v *)
From Coq Require Import List NArith Bool Lia.
From SV Require Import model.Queue.
Import ListNotations.
Open Scope N_scope.

(* ---------- mem / del ---------- *)
Lemma mem_In : forall x l, mem x l = true <-> In x l.
Proof.
  induction l as [|y l IH]; cbn; [split; [discriminate|tauto]|].
  rewrite orb_true_iff, IH, N.eqb_eq. split; intros [H|H]; auto.
Qed.

Lemma mem_false_In : forall x l, mem x l = false <-> ~ In x l.
Proof. intros. rewrite <- mem_In. destruct (mem x l); split; congruence. Qed.

Lemma mem_del_same : forall x l, mem x (del x l) = false.
Proof.
  induction l as [|y l IH]; cbn; [reflexivity|].
  destruct (N.eqb_spec x y); [exact IH|]. cbn. destruct (N.eqb_spec x y); [contradiction|exact IH].
Qed.

Lemma mem_del_other : forall x y l, x <> y -> mem x (del y l) = mem x l.
Proof.
  induction l as [|z l IH]; intro H; cbn; [reflexivity|].
  destruct (N.eqb_spec y z).
  - subst. destruct (N.eqb_spec x z); [contradiction|]. cbn. apply IH. exact H.
  - cbn. rewrite IH by exact H. reflexivity.
Qed.

Lemma In_del : forall x y l, In x (del y l) <-> In x l /\ x <> y.
Proof.
  intros x y l. rewrite <- !mem_In. destruct (N.eq_dec x y) as [E|E].
  - subst. rewrite mem_del_same. split; [discriminate|tauto].
  - rewrite mem_del_other by exact E. tauto.
Qed.

(* ---------- store ---------- *)
Lemma st_get_del_same : forall s i, st_get (st_del s i) i = None.
Proof.
  induction s as [|[j m] s IH]; intro i; cbn; [reflexivity|].
  destruct (N.eqb_spec i j); [apply IH|]. cbn. destruct (N.eqb_spec i j); [contradiction|apply IH].
Qed.

Lemma st_get_del_other : forall s i j, i <> j -> st_get (st_del s j) i = st_get s i.
Proof.
  induction s as [|[k m] s IH]; intros i j H; cbn; [reflexivity|].
  destruct (N.eqb_spec j k).
  - subst. destruct (N.eqb_spec i k); [contradiction|]. apply IH. exact H.
  - cbn. destruct (N.eqb_spec i k); [reflexivity|]. apply IH. exact H.
Qed.

Lemma st_get_upd_other : forall s i j f, i <> j -> st_get (st_upd s j f) i = st_get s i.
Proof.
  induction s as [|[k m] s IH]; intros i j f H; cbn; [reflexivity|].
  destruct (N.eqb_spec j k).
  - subst. cbn. destruct (N.eqb_spec i k); [contradiction|reflexivity].
  - cbn. destruct (N.eqb_spec i k); [reflexivity|]. apply IH. exact H.
Qed.

Lemma st_get_upd_same : forall s i f, st_get (st_upd s i f) i = option_map f (st_get s i).
Proof.
  induction s as [|[k m] s IH]; intros i f; cbn; [reflexivity|].
  destruct (N.eqb_spec i k).
  - subst. cbn. rewrite N.eqb_refl. reflexivity.
  - cbn. destruct (N.eqb_spec i k); [contradiction|]. apply IH.
Qed.

Lemma st_get_upd_none : forall s i j f, st_get (st_upd s j f) i = None <-> st_get s i = None.
Proof.
  intros s i j f. destruct (N.eq_dec i j) as [E|E].
  - subst. rewrite st_get_upd_same. destruct (st_get s j); cbn; split; congruence.
  - rewrite st_get_upd_other by exact E. tauto.
Qed.

(* ---------- take_task ---------- *)
Lemma take_task_spec : forall p ts t rest, take_task p ts = Some (t, rest) ->
  p t = true /\ exists l1 l2, ts = l1 ++ t :: l2 /\ rest = l1 ++ l2.
Proof.
  induction ts as [|x ts IH]; intros t rest H; cbn in H; [discriminate|].
  destruct (p x) eqn:E.
  - inversion H; subst. split; [exact E|]. exists [], rest. split; reflexivity.
  - destruct (take_task p ts) as [[y r]|] eqn:T; [|discriminate].
    inversion H; subst. destruct (IH t r eq_refl) as [Hp [l1 [l2 [E1 E2]]]].
    split; [exact Hp|]. exists (x :: l1), l2. subst. split; reflexivity.
Qed.

(* ids of the tasks satisfying q *)
Definition ids_of (q : task -> bool) (ts : list task) : list id := map task_id (filter q ts).

Lemma ids_of_app : forall q a b, ids_of q (a ++ b) = ids_of q a ++ ids_of q b.
Proof. intros. unfold ids_of. rewrite filter_app, map_app. reflexivity. Qed.

Lemma ids_of_cons : forall q t ts, ids_of q (t :: ts) = (if q t then [task_id t] else []) ++ ids_of q ts.
Proof. intros. unfold ids_of. cbn. destruct (q t); reflexivity. Qed.

Definition is_work (t : task) : bool := is_live t || is_remove t.
Definition live_ids := ids_of is_live.
Definition work_ids := ids_of is_work.
Definition all_ids (ts : list task) : list id := map task_id ts.

Lemma all_ids_app : forall a b, all_ids (a ++ b) = all_ids a ++ all_ids b.
Proof. intros. unfold all_ids. apply map_app. Qed.

Lemma is_enq_id : forall i t, is_enq i t = true -> task_id t = i /\ is_live t = false /\ is_remove t = false.
Proof. intros i t H. destruct t; cbn in *; try discriminate. apply N.eqb_eq in H. subst. auto. Qed.
Lemma is_attempt_id : forall i t, is_attempt i t = true -> task_id t = i /\ is_live t = true.
Proof. intros i t H. destruct t; cbn in *; try discriminate. apply N.eqb_eq in H. subst. auto. Qed.
Lemma is_retry_id : forall i t, is_retry i t = true -> task_id t = i /\ is_live t = true.
Proof. intros i t H. destruct t; cbn in *; try discriminate; apply N.eqb_eq in H; subst; auto. Qed.
Lemma is_dequeue_id : forall i t, is_dequeue i t = true -> task_id t = i /\ is_live t = true.
Proof. intros i t H. destruct t; cbn in *; try discriminate. apply N.eqb_eq in H. subst. auto. Qed.
Lemma is_rm_id : forall i t, is_rm i t = true -> task_id t = i /\ is_live t = false /\ is_remove t = true.
Proof. intros i t H. destruct t; cbn in *; try discriminate; apply N.eqb_eq in H; subst; auto. Qed.

(* ---------- projections through the state builders ---------- *)
Lemma aq_store : forall s ts i, s_store (add_queued s ts i) = s_store s.
Proof. intros. unfold add_queued. destruct (_ || _); reflexivity. Qed.
Lemma aq_active : forall s ts i, s_active (add_queued s ts i) = s_active s.
Proof. intros. unfold add_queued. destruct (_ || _); reflexivity. Qed.
Lemma aq_tasks : forall s ts i, s_tasks (add_queued s ts i) = s_tasks s.
Proof. intros. unfold add_queued. destruct (_ || _); reflexivity. Qed.
Lemma aq_clock : forall s ts i, s_clock (add_queued s ts i) = s_clock s.
Proof. intros. unfold add_queued. destruct (_ || _); reflexivity. Qed.
Lemma aq_next : forall s ts i, s_next (add_queued s ts i) = s_next s.
Proof. intros. unfold add_queued. destruct (_ || _); reflexivity. Qed.
Lemma aq_acc : forall s ts i, g_acc (add_queued s ts i) = g_acc s.
Proof. intros. unfold add_queued. destruct (_ || _); reflexivity. Qed.
Lemma aq_deliv : forall s ts i, g_deliv (add_queued s ts i) = g_deliv s.
Proof. intros. unfold add_queued. destruct (_ || _); reflexivity. Qed.
Lemma aq_fail : forall s ts i, g_fail (add_queued s ts i) = g_fail s.
Proof. intros. unfold add_queued. destruct (_ || _); reflexivity. Qed.
Lemma aq_atts : forall s ts i, g_atts (add_queued s ts i) = g_atts s.
Proof. intros. unfold add_queued. destruct (_ || _); reflexivity. Qed.
Lemma aq_removed : forall s ts i, g_removed (add_queued s ts i) = g_removed s.
Proof. intros. unfold add_queued. destruct (_ || _); reflexivity. Qed.

Lemma dispatch_store : forall s i c, s_store (dispatch s i c) = s_store s.
Proof. intros. unfold dispatch. destruct (mem i (s_active s)); reflexivity. Qed.
Lemma dispatch_queued : forall s i c, s_queued (dispatch s i c) = s_queued s.
Proof. intros. unfold dispatch. destruct (mem i (s_active s)); reflexivity. Qed.
Lemma dispatch_qids : forall s i c, s_qids (dispatch s i c) = s_qids s.
Proof. intros. unfold dispatch. destruct (mem i (s_active s)); reflexivity. Qed.
Lemma dispatch_clock : forall s i c, s_clock (dispatch s i c) = s_clock s.
Proof. intros. unfold dispatch. destruct (mem i (s_active s)); reflexivity. Qed.
Lemma dispatch_next : forall s i c, s_next (dispatch s i c) = s_next s.
Proof. intros. unfold dispatch. destruct (mem i (s_active s)); reflexivity. Qed.
Lemma dispatch_sched : forall s i c, s_sched (dispatch s i c) = s_sched s.
Proof. intros. unfold dispatch. destruct (mem i (s_active s)); reflexivity. Qed.
Lemma dispatch_wake : forall s i c, s_wake (dispatch s i c) = s_wake s.
Proof. intros. unfold dispatch. destruct (mem i (s_active s)); reflexivity. Qed.
Lemma dispatch_ghost : forall s i c,
  g_acc (dispatch s i c) = g_acc s /\ g_deliv (dispatch s i c) = g_deliv s /\
  g_fail (dispatch s i c) = g_fail s /\ g_atts (dispatch s i c) = g_atts s /\ g_removed (dispatch s i c) = g_removed s.
Proof. intros. unfold dispatch. destruct (mem i (s_active s)); repeat split; reflexivity. Qed.

Lemma wr_tasks : forall s, s_tasks (wait_ready s) = s_tasks s.
Proof. intros. unfold wait_ready. destruct (s_queued s) as [|[t j] q]; [destruct (s_wake s); reflexivity|].
  destruct (s_clock s <? t); [destruct (s_wake s); reflexivity|reflexivity]. Qed.
Lemma wr_active : forall s, s_active (wait_ready s) = s_active s.
Proof. intros. unfold wait_ready. destruct (s_queued s) as [|[t j] q]; [destruct (s_wake s); reflexivity|].
  destruct (s_clock s <? t); [destruct (s_wake s); reflexivity|reflexivity]. Qed.
Lemma wr_store : forall s, s_store (wait_ready s) = s_store s.
Proof. intros. unfold wait_ready. destruct (s_queued s) as [|[t j] q]; [destruct (s_wake s); reflexivity|].
  destruct (s_clock s <? t); [destruct (s_wake s); reflexivity|reflexivity]. Qed.
Lemma wr_queued : forall s, s_queued (wait_ready s) = s_queued s.
Proof. intros. unfold wait_ready. destruct (s_queued s) as [|[t j] q] eqn:E; [destruct (s_wake s); cbn; auto|].
  destruct (s_clock s <? t); [destruct (s_wake s); cbn; auto|auto]. Qed.
Lemma wr_qids : forall s, s_qids (wait_ready s) = s_qids s.
Proof. intros. unfold wait_ready. destruct (s_queued s) as [|[t j] q]; [destruct (s_wake s); reflexivity|].
  destruct (s_clock s <? t); [destruct (s_wake s); reflexivity|reflexivity]. Qed.
Lemma wr_clock : forall s, s_clock (wait_ready s) = s_clock s.
Proof. intros. unfold wait_ready. destruct (s_queued s) as [|[t j] q]; [destruct (s_wake s); reflexivity|].
  destruct (s_clock s <? t); [destruct (s_wake s); reflexivity|reflexivity]. Qed.
Lemma wr_next : forall s, s_next (wait_ready s) = s_next s.
Proof. intros. unfold wait_ready. destruct (s_queued s) as [|[t j] q]; [destruct (s_wake s); reflexivity|].
  destruct (s_clock s <? t); [destruct (s_wake s); reflexivity|reflexivity]. Qed.
Lemma wr_ghost : forall s,
  g_acc (wait_ready s) = g_acc s /\ g_deliv (wait_ready s) = g_deliv s /\
  g_fail (wait_ready s) = g_fail s /\ g_atts (wait_ready s) = g_atts s /\ g_removed (wait_ready s) = g_removed s.
Proof. intros. unfold wait_ready. destruct (s_queued s) as [|[t j] q]; [destruct (s_wake s); repeat split; reflexivity|].
  destruct (s_clock s <? t); [destruct (s_wake s); repeat split; reflexivity|repeat split; reflexivity]. Qed.

(* reduce record projections of the state builders only *)
Ltac proj := cbn [s_store s_queued s_qids s_active s_tasks s_sched s_wake s_clock s_next
                  g_acc g_deliv g_fail g_atts g_removed
                  set_tasks set_store set_active set_queue set_sched log_deliv log_fail log_att q_remove].
Ltac proj_in H := cbn [s_store s_queued s_qids s_active s_tasks s_sched s_wake s_clock s_next
                  g_acc g_deliv g_fail g_atts g_removed
                  set_tasks set_store set_active set_queue set_sched log_deliv log_fail log_att q_remove] in H.
