(* Lemmas about the delivered-marking round functions of model/StoreCore.v. *)
From Coq Require Import List NArith Bool Lia Sorting.Sorted Permutation.
From Coq Require Import ZifyBool ZifyN.
From SV Require Import model.StoreCore.
Import ListNotations.
Open Scope N_scope.

(* ---------------------------------------------------------------- del_nth *)
Lemma del_nth_app_len {A} (pre : list A) x t :
  del_nth (length pre) (pre ++ x :: t) = Some (pre ++ t).
Proof.
  induction pre as [|y pre IH]; cbn [length app del_nth]; [reflexivity|].
  rewrite IH. reflexivity.
Qed.

Lemma del_nth_some_lt {A} n (l : list A) :
  (n < length l)%nat -> exists l', del_nth n l = Some l' /\ length l = S (length l').
Proof.
  revert n; induction l as [|x l IH]; intros n Hn; cbn [length] in Hn; [lia|].
  destruct n as [|n]; cbn [del_nth].
  - eexists; split; [reflexivity|reflexivity].
  - destruct (IH n) as (l' & E & L); [lia|]. rewrite E. cbn [option_map].
    eexists; split; [reflexivity|]. cbn [length]. lia.
Qed.

Lemma del_nth_none_ge {A} n (l : list A) : (length l <= n)%nat -> del_nth n l = None.
Proof.
  revert n; induction l as [|x l IH]; intros n Hn; [destruct n; reflexivity|].
  cbn [length] in Hn. destruct n as [|n]; [lia|]. cbn [del_nth]. rewrite IH by lia. reflexivity.
Qed.

(* ----------------------------------------------------------------- replay *)
Lemma replay_p_app {A} (a b : list N) (l : list A) :
  replay_p (a ++ b) l =
  match replay_p a l with (l', true) => replay_p b l' | (l', false) => (l', false) end.
Proof.
  revert l; induction a as [|i a IH]; intros l; cbn [app replay_p]; [reflexivity|].
  destruct (del_nth (N.to_nat i) l) as [l'|]; [apply IH|reflexivity].
Qed.

Lemma replay_app {A} (a b : list N) (l : list A) :
  replay (a ++ b) l = match replay a l with Some l' => replay b l' | None => None end.
Proof.
  unfold replay. rewrite replay_p_app.
  destruct (replay_p a l) as [l' [|]]; reflexivity.
Qed.

Lemma replay_nil {A} (l : list A) : replay [] l = Some l.
Proof. reflexivity. Qed.

Lemma replay_p_replay {A} sc (l : list A) :
  replay sc l = (if snd (replay_p sc l) then Some (fst (replay_p sc l)) else None).
Proof. unfold replay. destruct (replay_p sc l) as [l' [|]]; reflexivity. Qed.

(* -------------------------------------------------------------- sort_desc *)
Lemma insert_desc_small x m : (forall y, In y m -> x < y) -> insert_desc x m = m ++ [x].
Proof.
  induction m as [|y m IH]; intros H; cbn [insert_desc app]; [reflexivity|].
  assert (Hy : x < y) by (apply H; left; reflexivity).
  destruct (y <=? x) eqn:E; [lia|]. rewrite IH; [reflexivity|].
  intros z Hz; apply H; right; exact Hz.
Qed.

Lemma sort_desc_ascending l : StronglySorted N.lt l -> sort_desc l = rev l.
Proof.
  induction 1 as [|x l Hs IH Hx]; [reflexivity|].
  cbn [sort_desc fold_right rev]. change (fold_right insert_desc [] l) with (sort_desc l).
  rewrite IH. apply insert_desc_small. intros y Hy.
  rewrite Forall_forall in Hx. apply Hx. apply in_rev. exact Hy.
Qed.

Lemma insert_desc_perm x l : Permutation (x :: l) (insert_desc x l).
Proof.
  induction l as [|y l IH]; cbn [insert_desc]; [apply Permutation_refl|].
  destruct (y <=? x); [apply Permutation_refl|].
  eapply Permutation_trans; [apply perm_swap|]. apply perm_skip. exact IH.
Qed.

Lemma sort_desc_perm_self l : Permutation l (sort_desc l).
Proof.
  induction l as [|x l IH]; [apply Permutation_refl|].
  cbn [sort_desc fold_right]. change (fold_right insert_desc [] l) with (sort_desc l).
  eapply Permutation_trans; [apply perm_skip; exact IH|]. apply insert_desc_perm.
Qed.

Definition ge_rel (a b : N) : Prop := b <= a.

Lemma insert_desc_sorted x l : StronglySorted ge_rel l -> StronglySorted ge_rel (insert_desc x l).
Proof.
  induction 1 as [|y l Hs IH Hy]; cbn [insert_desc].
  - constructor; constructor.
  - destruct (y <=? x) eqn:E.
    + constructor; [constructor; assumption|].
      constructor; [unfold ge_rel; lia|].
      rewrite Forall_forall in *. intros z Hz. specialize (Hy z Hz). unfold ge_rel in *. lia.
    + constructor; [exact IH|].
      rewrite Forall_forall in *. intros z Hz.
      apply (Permutation_in _ (Permutation_sym (insert_desc_perm x l))) in Hz.
      destruct Hz as [<-|Hz]; [unfold ge_rel; lia|apply Hy; exact Hz].
Qed.

Lemma sort_desc_sorted l : StronglySorted ge_rel (sort_desc l).
Proof.
  induction l as [|x l IH]; [constructor|].
  cbn [sort_desc fold_right]. apply insert_desc_sorted. exact IH.
Qed.

(* sorted(...) does not depend on the order in which a set is iterated *)
Lemma sorted_ge_unique a b :
  StronglySorted ge_rel a -> StronglySorted ge_rel b -> Permutation a b -> a = b.
Proof.
  intros Ha; revert b; induction Ha as [|x a Ha IH Hx]; intros b Hb P.
  - apply Permutation_nil in P. subst; reflexivity.
  - destruct b as [|y b]; [apply Permutation_sym, Permutation_nil in P; discriminate|].
    inversion Hb as [|? ? Hb' Hy]; subst.
    assert (x = y).
    { rewrite Forall_forall in Hx, Hy.
      assert (I1 : In x (y :: b)) by (eapply Permutation_in; [exact P|left; reflexivity]).
      assert (I2 : In y (x :: a)) by (eapply Permutation_in; [apply Permutation_sym; exact P|left; reflexivity]).
      destruct I1 as [->|I1]; [reflexivity|]. destruct I2 as [->|I2]; [reflexivity|].
      specialize (Hx y I2). specialize (Hy x I1). unfold ge_rel in *. lia. }
    subst y. f_equal. apply IH; [exact Hb'|]. eapply Permutation_cons_inv; exact P.
Qed.

Lemma sort_desc_perm a b : Permutation a b -> sort_desc a = sort_desc b.
Proof.
  intros P. apply sorted_ge_unique; try apply sort_desc_sorted.
  eapply Permutation_trans; [apply Permutation_sym, sort_desc_perm_self|].
  eapply Permutation_trans; [exact P|apply sort_desc_perm_self].
Qed.

Lemma round_perm {A} a b (l : list A) : Permutation a b -> round a l = round b l.
Proof. intros P. unfold round. rewrite (sort_desc_perm a b P). reflexivity. Qed.

(* a round of distinct in-range indexes never raises *)
Lemma nodupb_NoDup l : nodupb l = true -> NoDup l.
Proof.
  induction l as [|x l IH]; cbn [nodupb]; intros H; [constructor|].
  apply andb_prop in H as [H1 H2]. constructor; [|apply IH; exact H2].
  intros Hin. apply negb_true_iff in H1.
  assert (existsb (N.eqb x) l = true) by (apply existsb_exists; exists x; split; [exact Hin|apply N.eqb_refl]).
  congruence.
Qed.

Lemma replay_desc_ok {A} sc (l : list A) :
  StronglySorted ge_rel sc -> NoDup sc -> (forall i, In i sc -> (N.to_nat i < length l)%nat) ->
  exists l', replay sc l = Some l'.
Proof.
  intros Hs; revert l; induction Hs as [|i sc Hs IH Hi]; intros l Hnd Hr.
  - eexists; reflexivity.
  - destruct (del_nth_some_lt (N.to_nat i) l) as (l1 & E & L); [apply Hr; left; reflexivity|].
    inversion Hnd as [|? ? Hni Hnd']; subst.
    destruct (IH l1 Hnd') as (l' & E').
    { intros j Hj. rewrite Forall_forall in Hi. specialize (Hi j Hj). unfold ge_rel in Hi.
      assert (j <> i) by (intros ->; contradiction).
      assert (N.to_nat i < length l)%nat by (apply Hr; left; reflexivity). lia. }
    exists l'. unfold replay in *. cbn [replay_p]. rewrite E. exact E'.
Qed.

Lemma round_ok {A} idxs (l : list A) :
  nodupb idxs = true -> forallb (fun i => i <? N.of_nat (length l)) idxs = true ->
  exists l', round idxs l = Some l'.
Proof.
  intros Hn Hr. unfold round. apply replay_desc_ok.
  - apply sort_desc_sorted.
  - eapply Permutation_NoDup; [apply sort_desc_perm_self|apply nodupb_NoDup; exact Hn].
  - intros i Hi. apply (Permutation_in _ (Permutation_sym (sort_desc_perm_self idxs))) in Hi.
    rewrite forallb_forall in Hr. specialize (Hr i Hi). lia.
Qed.

Lemma round_round_p {A} idxs (l l' : list A) :
  round idxs l = Some l' -> round_p idxs l = (l', true).
Proof.
  unfold round, round_p, replay. destruct (replay_p (sort_desc idxs) l) as [l1 [|]]; intros H; inversion H; reflexivity.
Qed.

(* ------------------------------------------------- positions / one round *)
Lemma positions_lower {A} (p : A -> bool) l from i : In i (positions p l from) -> from <= i.
Proof.
  revert from; induction l as [|x l IH]; intros from; cbn [positions]; [intros []|].
  destruct (p x); cbn [In]; intros H.
  - destruct H as [<-|H]; [lia|]. specialize (IH _ H). lia.
  - specialize (IH _ H). lia.
Qed.

Lemma positions_sorted {A} (p : A -> bool) l from : StronglySorted N.lt (positions p l from).
Proof.
  revert from; induction l as [|x l IH]; intros from; cbn [positions]; [constructor|].
  destruct (p x); [|apply IH].
  constructor; [apply IH|]. rewrite Forall_forall. intros i Hi.
  apply positions_lower in Hi. lia.
Qed.

Lemma replay_rev_positions {A} (p : A -> bool) l pre from :
  N.to_nat from = length pre ->
  replay (rev (positions p l from)) (pre ++ l) = Some (pre ++ filter (fun x => negb (p x)) l).
Proof.
  revert pre from; induction l as [|x l IH]; intros pre from Hf; cbn [positions filter].
  - reflexivity.
  - assert (IH' := IH (pre ++ [x]) (from + 1)).
    rewrite <- app_assoc in IH'. cbn [app] in IH'.
    assert (Hl : N.to_nat (from + 1) = length (pre ++ [x])) by (rewrite app_length; cbn [length]; lia).
    specialize (IH' Hl).
    destruct (p x); cbn [negb].
    + cbn [rev]. rewrite replay_app, IH'. unfold replay. cbn [replay_p].
      rewrite <- app_assoc. cbn [app]. rewrite Hf, del_nth_app_len. reflexivity.
    + rewrite IH'. rewrite <- app_assoc. reflexivity.
Qed.

(* what the Queue marks in one round = removing exactly the settled recipients, order kept *)
Lemma round_positions {A} (p : A -> bool) (l : list A) :
  round (positions p l 0) l = Some (filter (fun x => negb (p x)) l).
Proof.
  unfold round. rewrite sort_desc_ascending by apply positions_sorted.
  apply (replay_rev_positions p l [] 0). reflexivity.
Qed.

Lemma filter_filter {A} (f g : A -> bool) l :
  filter g (filter f l) = filter (fun x => f x && g x) l.
Proof.
  induction l as [|x l IH]; [reflexivity|]. cbn [filter].
  destruct (f x); cbn [filter andb]; [destruct (g x)|]; rewrite IH; reflexivity.
Qed.

Definition unsettled {A} (settles : list (A -> bool)) (x : A) : bool :=
  forallb (fun p => negb (p x)) settles.

(* k rounds on an in-place store: original minus settled, order preserved *)
Lemma rounds_inplace_spec {A} (settles : list (A -> bool)) (l : list A) :
  rounds_inplace settles l = Some (filter (unsettled settles) l).
Proof.
  revert l; induction settles as [|p ps IH]; intros l; cbn [rounds_inplace].
  - f_equal. symmetry. unfold unsettled. cbn [forallb].
    induction l as [|x l IHl]; [reflexivity|]. cbn [filter]. f_equal. exact IHl.
  - rewrite round_positions, IH, filter_filter. f_equal.
Qed.

(* the fixed accumulating stores: same as in place *)
Lemma rounds_accum_inplace {A} (settles : list (A -> bool)) (orig cur : list A) stored :
  accum_get stored orig = Some cur ->
  rounds_accum accum_mark accum_get settles orig stored = rounds_inplace settles cur.
Proof.
  revert cur stored; induction settles as [|p ps IH]; intros cur stored Hg; cbn [rounds_accum rounds_inplace].
  - exact Hg.
  - rewrite Hg. rewrite round_positions.
    apply IH. unfold accum_get, accum_mark. rewrite replay_app.
    unfold accum_get in Hg. rewrite Hg. apply round_positions.
Qed.

Lemma rounds_accum_spec {A} (settles : list (A -> bool)) (orig : list A) :
  rounds_accum accum_mark accum_get settles orig [] = Some (filter (unsettled settles) orig).
Proof.
  rewrite (rounds_accum_inplace settles orig orig []); [apply rounds_inplace_spec|reflexivity].
Qed.

(* the shipped flat accumulation (D6): [a;b;c], round 1 settles a, round 2
   settles c => get returns [c]: b dropped, c kept *)
Lemma rounds_flat_refuted :
  exists (settles : list (N -> bool)) (orig : list N),
    rounds_accum flat_mark flat_get settles orig [] <> Some (filter (unsettled settles) orig).
Proof.
  exists [N.eqb 1; N.eqb 3], [1; 2; 3]. vm_compute. discriminate.
Qed.

Example rounds_flat_witness :
  rounds_accum flat_mark flat_get [N.eqb 1; N.eqb 3] [1; 2; 3] [] = Some [3]
  /\ rounds_accum accum_mark accum_get [N.eqb 1; N.eqb 3] [1; 2; 3] [] = Some [2].
Proof. split; vm_compute; reflexivity. Qed.

(* marking through the accumulated script = one round on the list get() returned *)
Lemma accum_get_mark {A} stored idxs (orig cur : list A) :
  accum_get stored orig = Some cur ->
  accum_get (accum_mark stored idxs) orig = round idxs cur.
Proof.
  intros H. unfold accum_get, accum_mark. rewrite replay_app.
  unfold accum_get in H. rewrite H. reflexivity.
Qed.
